/-
Indexing without integer arrays never selects an element twice (property C12): the extension of
FuraxProofs/Lemmas/BasicIndexNodup.lean to boolean masks, i.e. to every indices tuple for which
`IndexOperator.__init__` infers `unique_indices = True`.

* `toSels_mask`: the selectors of such a tuple — integers, duplicate-free in-bounds slices, and for every mask the
  columns of `nonzero(mask)`, which tell the `True` entries of the mask apart (`GroupInj`, `mask_groupInj`);
* `bshape_mask`: with a mask present the broadcast shape of the array selectors is `[N]`, `N` the number of `True`
  entries of one of the masks (several masks must have the same number of `True` entries, or one);
* `descsOf_mask`, `descsM_spec`: the output dimension descriptors, adjacent or not (`DescsSpec`);
* `positions_mask`, `indexPositions_noIarr`: the positions are pairwise distinct and in bounds.
-/
import FuraxProofs.Lemmas.BasicIndexNodup
namespace Furax.Index
open Furax Furax.Axes Furax.ListSem

/-- an entry for which `IndexOperator.__init__` infers `unique_indices = True`: anything but an integer array -/
def _root_.Furax.IdxEntry.isNoIarr : IdxEntry → Bool
  | .iarr .. => false
  | _ => true

/-- the columns of a boolean mask with `n` `True` entries tell them apart: two different entries differ in some
column (whose values are non-negative) -/
def GroupInj (sels : List Sel) (n : Nat) : Prop :=
  ∀ b b', b < n → b' < n → b ≠ b' → ∃ vals, Sel.adv [n] vals ∈ sels ∧
    0 ≤ vals.getD b 0 ∧ 0 ≤ vals.getD b' 0 ∧ vals.getD b 0 ≠ vals.getD b' 0

/-- a selector of an index expression without integer arrays -/
def SelOK' (sels : List Sel) (s : Sel) (d : Nat) : Prop :=
  match s with
  | .int _ => True
  | .slice l => l.Nodup ∧ ∀ x ∈ l, x < d
  | .adv sh _ => ∃ n, sh = [n] ∧ GroupInj sels n

def SelsOK' (sels : List Sel) (shape : List Nat) : Prop :=
  ∀ e s, sels[e]? = some s → SelOK' sels s (shape.getD e 0)

theorem GroupInj_mono (l l2 : List Sel) (n : Nat) (h : GroupInj l n) : GroupInj (l ++ l2) n := by
  intro b b' hb hb' hne
  obtain ⟨vals, hm, h1⟩ := h b b' hb hb' hne
  exact ⟨vals, List.mem_append_left _ hm, h1⟩

theorem SelOK'_mono (l l2 : List Sel) (s : Sel) (d : Nat) (h : SelOK' l s d) : SelOK' (l ++ l2) s d := by
  cases s with
  | int i => trivial
  | slice x => exact h
  | adv sh v =>
    obtain ⟨n, h1, h2⟩ := h
    exact ⟨n, h1, GroupInj_mono l l2 n h2⟩

theorem SelsOK'_append (l l2 : List Sel) (shape : List Nat) (h1 : SelsOK' l shape)
    (h2 : ∀ k s, l2[k]? = some s → SelOK' (l ++ l2) s (shape.getD (l.length + k) 0)) :
    SelsOK' (l ++ l2) shape := by
  intro e s hs
  rw [List.getElem?_append] at hs
  split at hs
  · exact SelOK'_mono l l2 s _ (h1 e s hs)
  · rename_i hge
    have := h2 (e - l.length) s hs
    rwa [show l.length + (e - l.length) = e by omega] at this

theorem SelsOK'_snoc (l : List Sel) (s : Sel) (shape : List Nat) (h1 : SelsOK' l shape)
    (h2 : SelOK' (l ++ [s]) s (shape.getD l.length 0)) : SelsOK' (l ++ [s]) shape := by
  apply SelsOK'_append l [s] shape h1
  intro k s' hs
  rw [List.getElem?_singleton] at hs
  split at hs
  · rename_i hk; subst hk
    injection hs with hs; subst hs; exact h2
  · cases hs

/-- the `True` entries of a mask -/
def maskHits (sh : List Nat) (vals : List Bool) : List Nat :=
  (List.range (prodNat sh)).filter (fun k => vals.getD k false)

theorem maskNonzero_eq (sh : List Nat) (vals : List Bool) :
    maskNonzero sh vals = (List.range sh.length).map fun ax =>
      (maskHits sh vals).map fun k => Int.ofNat ((unravel sh k).getD ax 0) := rfl

theorem maskHits_nodup (sh : List Nat) (vals : List Bool) : (maskHits sh vals).Nodup :=
  List.Nodup.filter _ List.nodup_range

theorem maskHits_lt (sh : List Nat) (vals : List Bool) (k : Nat) (hk : k ∈ maskHits sh vals) :
    k < prodNat sh := List.mem_range.mp (List.mem_filter.mp hk).1

theorem maskN (sh : List Nat) (vals : List Bool) :
    ((maskNonzero sh vals).headD []).length = if sh.length = 0 then 0 else (maskHits sh vals).length := by
  rw [maskNonzero_eq]
  cases hsh : sh.length with
  | zero => simp
  | succ r => rw [List.range_succ_eq_map]; simp

/-- the selectors of a mask tell its `True` entries apart -/
theorem mask_groupInj (sh : List Nat) (vals : List Bool) (pre : List Sel) :
    GroupInj (pre ++ (maskNonzero sh vals).map fun c => Sel.adv [((maskNonzero sh vals).headD []).length] c)
      ((maskNonzero sh vals).headD []).length := by
  intro b b' hb hb' hne
  rw [maskN] at hb hb' ⊢
  by_cases hsh : sh.length = 0
  · rw [if_pos hsh] at hb; omega
  · rw [if_neg hsh] at hb hb' ⊢
    have hk : (maskHits sh vals)[b] ≠ (maskHits sh vals)[b'] := fun h =>
      hne ((List.Nodup.getElem_inj_iff (maskHits_nodup sh vals)).mp h)
    have hlt := maskHits_lt sh vals _ (List.getElem_mem hb)
    have hlt' := maskHits_lt sh vals _ (List.getElem_mem hb')
    have hu : unravel sh (maskHits sh vals)[b] ≠ unravel sh (maskHits sh vals)[b'] := by
      intro h
      apply hk
      rw [← (ma_unravel_valid sh _ hlt).2, ← (ma_unravel_valid sh _ hlt').2, h]
    have : ∃ ax, ax < sh.length ∧
        (unravel sh (maskHits sh vals)[b]).getD ax 0 ≠ (unravel sh (maskHits sh vals)[b']).getD ax 0 := by
      by_contra hcon
      apply hu
      apply List.ext_getElem
      · rw [ma_unravel_length, ma_unravel_length]
      · intro ax h1 h2
        rw [ma_unravel_length] at h1
        by_contra hd
        apply hcon
        refine ⟨ax, h1, ?_⟩
        rwa [List.getD_eq_getElem _ _ (by rw [ma_unravel_length]; exact h1),
          List.getD_eq_getElem _ _ (by rw [ma_unravel_length]; exact h1)]
    obtain ⟨ax, hax, hd⟩ := this
    refine ⟨(maskHits sh vals).map fun k => Int.ofNat ((unravel sh k).getD ax 0), ?_, ?_, ?_, ?_⟩
    · apply List.mem_append_right
      rw [List.mem_map]
      exact ⟨_, List.mem_map.mpr ⟨ax, List.mem_range.mpr hax, rfl⟩, rfl⟩
    · rw [List.getD_eq_getElem _ _ (by simpa using hb)]
      simp
    · rw [List.getD_eq_getElem _ _ (by simpa using hb')]
      simp
    · rw [List.getD_eq_getElem _ _ (by simpa using hb), List.getD_eq_getElem _ _ (by simpa using hb')]
      simp only [List.getElem_map, Int.ofNat_eq_natCast, ne_eq, Nat.cast_inj]
      exact hd

theorem go_mask (shape : List Nat) (fill : Nat) (es : List IdxEntry) (dim : Nat) (acc sels : List Sel)
    (hes : ∀ e ∈ es, IdxEntry.isNoIarr e = true) (hacc : acc.length = dim) (hok : SelsOK' acc.reverse shape)
    (h : toSels.go shape fill es dim acc = .ok sels) :
    SelsOK' sels shape ∧ sels.length = dim + (es.map consumed).sum + fill * nEllOf es := by
  induction es generalizing dim acc with
  | nil =>
    simp only [toSels.go] at h
    injection h with h; subst h
    exact ⟨hok, by simp [nEllOf, hacc]⟩
  | cons e es ih =>
    have hes' : ∀ e ∈ es, IdxEntry.isNoIarr e = true := fun e he => hes e (List.mem_cons_of_mem _ he)
    have he := hes e List.mem_cons_self
    cases e with
    | int i =>
      rw [toSels.go] at h
      obtain ⟨h1, h2⟩ := ih (dim + 1) (.int i :: acc) hes' (by simp [hacc]) (by
        rw [List.reverse_cons]
        exact SelsOK'_snoc _ _ _ hok trivial) h
      refine ⟨h1, ?_⟩
      rw [h2]
      simp [nEllOf, consumed]
      omega
    | slice a b c =>
      rw [toSels.go] at h
      split at h
      · rename_i l hl
        obtain ⟨h1, h2⟩ := ih (dim + 1) (.slice l :: acc) hes' (by simp [hacc]) (by
          rw [List.reverse_cons]
          refine SelsOK'_snoc _ _ _ hok ?_
          rw [List.length_reverse, hacc]
          exact sliceIndices_nodup a b c _ l hl) h
        refine ⟨h1, ?_⟩
        rw [h2]
        simp [nEllOf, consumed]
        omega
      · cases h
    | ellipsis =>
      rw [toSels.go] at h
      obtain ⟨h1, h2⟩ := ih (dim + fill) _ hes' (by simp [hacc]; omega) (by
        rw [List.reverse_append, List.reverse_reverse]
        refine SelsOK'_append _ _ _ hok ?_
        intro k s hs
        rw [List.getElem?_map] at hs
        cases hk : (List.range fill)[k]? with
        | none => rw [hk] at hs; cases hs
        | some k' =>
          rw [hk] at hs
          have hk2 := List.getElem?_eq_some_iff.mp hk
          obtain ⟨hk3, hk4⟩ := hk2
          rw [List.getElem_range] at hk4
          subst hk4
          injection hs with hs; subst hs
          rw [List.length_reverse, hacc]
          exact ⟨List.nodup_range, fun x hx => List.mem_range.mp hx⟩) h
      refine ⟨h1, ?_⟩
      rw [h2]
      simp [nEllOf, consumed, Nat.mul_add]
      omega
    | iarr sh v => simp [IdxEntry.isNoIarr] at he
    | barr sh v =>
      rw [toSels.go] at h
      split at h
      · cases h
      · simp only at h
        obtain ⟨h1, h2⟩ := ih (dim + sh.length) _ hes' (by
          simp [hacc, maskNonzero_eq]; omega) (by
          rw [List.reverse_append, List.reverse_reverse]
          refine SelsOK'_append _ _ _ hok ?_
          intro k s hs
          rw [List.getElem?_map] at hs
          cases hk : (maskNonzero sh v)[k]? with
          | none => rw [hk] at hs; cases hs
          | some c =>
            rw [hk] at hs
            injection hs with hs; subst hs
            exact ⟨_, rfl, mask_groupInj sh v _⟩) h
        refine ⟨h1, ?_⟩
        rw [h2]
        simp [nEllOf, consumed]
        omega

theorem toSels_mask (shape : List Nat) (idx : List IdxEntry) (sels : List Sel)
    (hb : ∀ e ∈ idx, IdxEntry.isNoIarr e = true) (h : toSels shape idx = .ok sels) :
    sels.length = shape.length ∧ SelsOK' sels shape := by
  unfold toSels at h
  simp only at h
  split at h
  · cases h
  · rename_i hn
    split at h
    · cases h
    · rename_i hu
      by_cases h0 : (idx.filter (· == .ellipsis)).length = 0
      · simp only [h0, beq_self_eq_true, if_true] at h
        obtain ⟨h1, h2⟩ := go_mask shape _ (idx ++ [.ellipsis]) 0 [] sels (by
          intro e he
          rcases List.mem_append.mp he with he | he
          · exact hb e he
          · simp at he; subst he; rfl) rfl (by intro e s hs; simp at hs) h
        refine ⟨?_, h1⟩
        rw [h2]
        simp only [nEllOf, List.filter_append, List.length_append, h0, List.map_append, List.sum_append]
        simp [consumed]
        omega
      · have h1' : (idx.filter (· == .ellipsis)).length = 1 := by omega
        have hne : ((idx.filter (· == .ellipsis)).length == 0) = false := by simp [h0]
        simp only [hne] at h
        obtain ⟨h1, h2⟩ := go_mask shape _ idx 0 [] sels hb rfl (by intro e s hs; simp at hs) h
        refine ⟨?_, h1⟩
        rw [h2]
        simp only [nEllOf, h1']
        omega

/-- without array selectors the general invariant is the basic one -/
theorem SelsOK_of_noArr (sels : List Sel) (shape : List Nat) (h : SelsOK' sels shape)
    (hn : hasArrOf sels = false) : SelsOK sels shape := by
  intro e s hs
  have := h e s hs
  cases s with
  | int i => trivial
  | slice l => exact this
  | adv sh v =>
    exfalso
    unfold hasArrOf at hn
    rw [List.any_eq_false] at hn
    exact hn _ (List.mem_of_getElem? hs) rfl

theorem broadcast_one_nil (N : Nat) : broadcastShapes [N] [] = some [N] := by
  unfold broadcastShapes
  by_cases h : N = 1 <;> simp [h]

theorem broadcast_one_one (N n : Nat) (r : List Nat) (h : broadcastShapes [N] [n] = some r) :
    r = [N] ∨ r = [n] := by
  unfold broadcastShapes at h
  simp at h
  by_cases h1 : N = n
  · simp [h1] at h; right; exact h.symm
  · simp [h1] at h
    by_cases h2 : N = 1
    · simp [h2] at h; right; exact h.symm
    · simp [h2] at h
      by_cases h3 : n = 1
      · simp [h3] at h; left; exact h.symm
      · simp [h3] at h

theorem bstep (a b r : List Nat) (ha : a.length ≤ 1) (hb : b.length ≤ 1)
    (h : broadcastShapes a b = some r) :
    (r = a ∨ r = b) ∧ a.length ≤ r.length ∧ b.length ≤ r.length := by
  match a, b, ha, hb with
  | [], b, _, _ =>
    rw [broadcastShapes_nil] at h
    injection h with h; subst h
    simp
  | [N], [], _, _ =>
    rw [broadcast_one_nil] at h
    injection h with h; subst h
    simp
  | [N], [n], _, _ =>
    rcases broadcast_one_one N n r h with rfl | rfl <;> simp
  | _ :: _ :: _, _, ha, _ => simp at ha
  | _, _ :: _ :: _, _, hb => simp at hb

theorem bshape_fold (L : List (List Nat)) (acc B : List Nat) (hL : ∀ sh ∈ L, sh.length ≤ 1)
    (hacc : acc.length ≤ 1)
    (h : L.foldlM (fun (acc : List Nat) sh => match broadcastShapes acc sh with
      | some r => (.ok r : Except PyErr (List Nat)) | none => .error .indexError) acc = .ok B) :
    (B = acc ∨ B ∈ L) ∧ acc.length ≤ B.length ∧ ∀ sh ∈ L, sh.length ≤ B.length := by
  induction L generalizing acc with
  | nil =>
    rw [List.foldlM_nil] at h
    injection h with h; subst h
    simp
  | cons sh rest ih =>
    rw [List.foldlM_cons] at h
    cases hbr : broadcastShapes acc sh with
    | none => rw [hbr] at h; cases h
    | some r =>
      rw [hbr] at h
      obtain ⟨h1, h2, h3⟩ := bstep acc sh r hacc (hL sh List.mem_cons_self) hbr
      have hr : r.length ≤ 1 := by
        rcases h1 with rfl | rfl
        · exact hacc
        · exact hL _ List.mem_cons_self
      obtain ⟨i1, i2, i3⟩ := ih r (fun s hs => hL s (List.mem_cons_of_mem _ hs)) hr h
      refine ⟨?_, by omega, ?_⟩
      · rcases i1 with rfl | i1
        · rcases h1 with rfl | rfl
          · left; rfl
          · right; exact List.mem_cons_self
        · right; exact List.mem_cons_of_mem _ i1
      · intro s hs
        rcases List.mem_cons.mp hs with rfl | hs
        · omega
        · exact i3 s hs


theorem SelOK'_of_mem (sels : List Sel) (shape : List Nat) (h : SelsOK' sels shape) (s : Sel) (hs : s ∈ sels) :
    ∃ d, SelOK' sels s d := by
  obtain ⟨e, he, rfl⟩ := List.getElem_of_mem hs
  exact ⟨_, h e _ (List.getElem?_eq_getElem he)⟩

/-- with a mask present, the broadcast shape of the array selectors is `[N]`, the number of `True` entries of a
mask of the tuple -/
theorem bshape_mask (sels : List Sel) (shape : List Nat) (hok : SelsOK' sels shape)
    (hA : hasArrOf sels = true) (B : List Nat) (h : bshapeOf (advShapesOf sels true) = .ok B) :
    ∃ N, B = [N] ∧ GroupInj sels N := by
  have hmem : ∀ sh ∈ advShapesOf sels true, sh = [] ∨ ∃ n, sh = [n] ∧ GroupInj sels n := by
    intro sh hsh
    unfold advShapesOf at hsh
    obtain ⟨s, hs, hm⟩ := List.mem_filterMap.mp hsh
    obtain ⟨d, hd⟩ := SelOK'_of_mem sels shape hok s hs
    cases s with
    | int i => simp at hm; left; exact hm
    | slice l => simp at hm
    | adv sh' v =>
      simp at hm; subst hm
      right; exact hd
  have hL : ∀ sh ∈ advShapesOf sels true, sh.length ≤ 1 := by
    intro sh hsh
    rcases hmem sh hsh with rfl | ⟨n, rfl, _⟩ <;> simp
  obtain ⟨h1, _, h3⟩ := bshape_fold _ [] B hL (by simp) h
  unfold hasArrOf at hA
  obtain ⟨s, hs, hsa⟩ := List.any_eq_true.mp hA
  cases s with
  | int i => simp at hsa
  | slice l => simp at hsa
  | adv sh v =>
    have hin : sh ∈ advShapesOf sels true := by
      unfold advShapesOf
      exact List.mem_filterMap.mpr ⟨_, hs, rfl⟩
    have hlen := h3 sh hin
    rcases hmem sh hin with rfl | ⟨n, rfl, _⟩
    · obtain ⟨d, n, hn, _⟩ := SelOK'_of_mem sels shape hok _ hs
      cases hn
    · rcases h1 with rfl | h1
      · simp at hlen
      · rcases hmem B h1 with rfl | ⟨N, rfl, hN⟩
        · simp at hlen
        · exact ⟨N, rfl, hN⟩


/-! ## the point analysis with a mask present -/

/-- what the point analysis needs of the output dimension descriptors when a mask is present: one broadcast
dimension (number `jB`, of size `N`), every other descriptor stands for a slice selector, every slice selector has
exactly one descriptor -/
structure DescsSpec (sels : List Sel) (D : List (Option Nat × Nat)) (jB N : Nat) : Prop where
  hjB : jB < D.length
  hB : D.getD jB (none, 0) = (none, N)
  hsome : ∀ j, j < D.length → j ≠ jB → ∃ e l, D.getD j (none, 0) = (some e, l.length) ∧ e < sels.length ∧
    sels.getD e (.int 0) = .slice l
  hcover : ∀ e l, e < sels.length → sels.getD e (.int 0) = .slice l →
    ∃ j, j < D.length ∧ (D.getD j (none, 0)).1 = some e
  huniq : ∀ i j e, i < D.length → j < D.length → (D.getD i (none, 0)).1 = some e →
    (D.getD j (none, 0)).1 = some e → i = j

theorem filterMap_range_single {β : Type} (L j0 : Nat) (g : Nat → Option β) (v : β) (hj : j0 < L)
    (h0 : g j0 = some v) (hne : ∀ j, j < L → j ≠ j0 → g j = none) :
    (List.range L).filterMap g = [v] := by
  have hL : L = j0 + 1 + (L - j0 - 1) := by omega
  rw [hL, range_split, List.filterMap_append, List.filterMap_cons, h0,
    filterMap_eq_nil_of g (List.range j0), filterMap_eq_nil_of g]
  · rfl
  · intro b hb
    obtain ⟨k, hk, rfl⟩ := List.mem_map.mp hb
    have := List.mem_range.mp hk
    exact hne _ (by omega) (by omega)
  · intro b hb
    have := List.mem_range.mp hb
    exact hne _ (by omega) (by omega)

theorem bIdxOf_spec' (sels : List Sel) (D : List (Option Nat × Nat)) (jB N : Nat) (hD : DescsSpec sels D jB N)
    (oi : List Nat) : bIdxOf D oi = [oi.getD jB 0] := by
  unfold bIdxOf
  apply filterMap_range_single _ jB _ _ hD.hjB
  · rw [hD.hB]
  · intro j hj hne
    obtain ⟨e, l, he, _⟩ := hD.hsome j hj hne
    rw [he]

theorem find_desc' (sels : List Sel) (D : List (Option Nat × Nat)) (jB N : Nat) (hD : DescsSpec sels D jB N)
    (e : Nat) (l : List Nat) (he : e < sels.length) (hsl : sels.getD e (.int 0) = .slice l) :
    ∃ j, j < D.length ∧ j ≠ jB ∧ D.getD j (none, 0) = (some e, l.length) ∧
      (List.range D.length).find? (fun j => (D.getD j (none, 0)).1 == some e) = some j := by
  obtain ⟨j0, hj0, hk0⟩ := hD.hcover e l he hsl
  cases hf : (List.range D.length).find? (fun j => (D.getD j (none, 0)).1 == some e) with
  | none =>
    rw [List.find?_eq_none] at hf
    have := hf j0 (List.mem_range.mpr hj0)
    rw [hk0] at this
    simp at this
  | some j =>
    have hp := List.find?_some hf
    have hm := List.mem_of_find?_eq_some hf
    have hjl := List.mem_range.mp hm
    have hk : (D.getD j (none, 0)).1 = some e := by simpa using hp
    have hne : j ≠ jB := by
      intro hjb
      rw [hjb, hD.hB] at hk
      cases hk
    obtain ⟨e', l', hd, he', hsl'⟩ := hD.hsome j hjl hne
    rw [hd] at hk
    simp only [Option.some.injEq] at hk
    subst hk
    rw [hsl] at hsl'
    injection hsl' with hsl'
    subst hsl'
    exact ⟨j, hjl, hne, hd, rfl⟩

theorem normE_nonneg (i : Int) (d v : Nat) (h : normE i d = .ok v) (hi : 0 ≤ i) : v = i.toNat := by
  unfold normE at h
  simp only at h
  by_cases hc : (if i < 0 then i + (d : Int) else i) < 0 ∨ (if i < 0 then i + (d : Int) else i) ≥ d
  · rw [if_pos hc] at h; cases h
  · rw [if_neg hc] at h
    injection h with h
    rw [← h, if_neg (by omega)]

theorem ix_one (n b : Nat) (hb : b < n) : ravelIdx [n] (bcastIndex [n] [b]) = b := by
  unfold bcastIndex ravelIdx
  by_cases h : n = 1
  · subst h; simp; omega
  · simp [h]

theorem inIdxOf_mask (sels : List Sel) (shape : List Nat) (hlen : sels.length = shape.length)
    (hok : SelsOK' sels shape) (D : List (Option Nat × Nat)) (jB N : Nat) (hD : DescsSpec sels D jB N)
    (oi inIdx : List Nat)
    (hoi : ∀ j, j < D.length → oi.getD j 0 < (D.getD j (none, 0)).2)
    (h : inIdxOf sels shape D oi (bIdxOf D oi) = .ok inIdx) :
    List.Forall₂ (· < ·) inIdx shape ∧
      (∀ j e l, j < D.length → (D.getD j (none, 0)).1 = some e → e < sels.length →
        sels.getD e (.int 0) = .slice l → inIdx.getD e 0 = l.getD (oi.getD j 0) 0) ∧
      (∀ e vals, e < sels.length → sels.getD e (.int 0) = .adv [N] vals → 0 ≤ vals.getD (oi.getD jB 0) 0 →
        inIdx.getD e 0 = (vals.getD (oi.getD jB 0) 0).toNat) := by
  rw [bIdxOf_spec' sels D jB N hD] at h
  unfold inIdxOf at h
  have hf := except_mapM_ok_inv _ _ _ h
  rw [List.forall₂_iff_get] at hf
  obtain ⟨hl, hf⟩ := hf
  rw [List.length_range] at hl
  have hfe : ∀ e (he : e < sels.length), (match sels.getD e (.int 0) with
      | .int i => normE i (shape.getD e 0)
      | .slice l =>
        let j := (List.range D.length).find? fun j => (D.getD j (none, 0)).1 == some e
        .ok (l.getD (oi.getD (j.getD 0) 0) 0)
      | .adv sh vals =>
        normE (vals.getD (ravelIdx sh (bcastIndex sh [oi.getD jB 0])) 0) (shape.getD e 0))
      = .ok (inIdx.getD e 0) := by
    intro e he
    have := hf e (by simpa using he) (by omega)
    simp only [List.get_eq_getElem, List.getElem_range] at this
    rw [List.getD_eq_getElem inIdx 0 (by omega)]
    exact this
  have hbN : oi.getD jB 0 < N := by
    have := hoi jB hD.hjB
    rwa [hD.hB] at this
  refine ⟨?_, ?_, ?_⟩
  · rw [Furax.Diagonal.forall2_lt_iff]
    refine ⟨by omega, fun e he => ?_⟩
    have hes : e < sels.length := by omega
    have hfe' := hfe e hes
    cases hse : sels.getD e (.int 0) with
    | int i =>
      rw [hse] at hfe'
      exact normE_lt _ _ _ hfe'
    | adv sh v =>
      rw [hse] at hfe'
      exact normE_lt _ _ _ hfe'
    | slice l =>
      rw [hse] at hfe'
      obtain ⟨j, hj, hne, hd, hfind⟩ := find_desc' sels D jB N hD e l hes hse
      simp only [hfind, Option.getD_some] at hfe'
      injection hfe' with hfe'
      rw [← hfe']
      have := hoi j hj
      rw [hd] at this
      simp only at this
      rw [List.getD_eq_getElem _ _ this]
      have hsok := hok e _ (List.getElem?_eq_getElem hes)
      rw [← List.getD_eq_getElem _ (.int 0) hes, hse] at hsok
      exact hsok.2 _ (List.getElem_mem _)
  · intro j e l hj hd he hsl
    obtain ⟨j', hj', hne', hd', hfind⟩ := find_desc' sels D jB N hD e l he hsl
    have hjj : j' = j := hD.huniq j' j e hj' hj (by rw [hd']) hd
    have hfe' := hfe e he
    rw [hsl] at hfe'
    simp only [hfind, Option.getD_some] at hfe'
    injection hfe' with hfe'
    rw [← hfe', hjj]
  · intro e vals he hsa hnn
    have hfe' := hfe e he
    rw [hsa] at hfe'
    simp only at hfe'
    rw [ix_one N _ hbN] at hfe'
    exact normE_nonneg _ _ _ hfe' hnn

/-- the flat input position selected by output element `k`, for output dimension descriptors `D` -/
def pointM (sels : List Sel) (shape : List Nat) (D : List (Option Nat × Nat)) (k : Nat) : Except PyErr Nat := do
  let oi := unravel (D.map (·.2)) k
  let inIdx ← inIdxOf sels shape D oi (bIdxOf D oi)
  pure (ravelIdx shape inIdx)

theorem point_mask (sels : List Sel) (shape : List Nat) (hlen : sels.length = shape.length)
    (hok : SelsOK' sels shape) (D : List (Option Nat × Nat)) (jB N : Nat) (hD : DescsSpec sels D jB N)
    (k : Nat) (hk : k < prodNat (D.map (·.2))) (p : Nat) (h : pointM sels shape D k = .ok p) :
    ∃ inIdx, List.Forall₂ (· < ·) inIdx shape ∧ p = ravelIdx shape inIdx ∧
      (∀ j e l, j < D.length → (D.getD j (none, 0)).1 = some e → e < sels.length →
        sels.getD e (.int 0) = .slice l →
        inIdx.getD e 0 = l.getD ((unravel (D.map (·.2)) k).getD j 0) 0) ∧
      (∀ e vals, e < sels.length → sels.getD e (.int 0) = .adv [N] vals →
        0 ≤ vals.getD ((unravel (D.map (·.2)) k).getD jB 0) 0 →
        inIdx.getD e 0 = (vals.getD ((unravel (D.map (·.2)) k).getD jB 0) 0).toNat) := by
  unfold pointM at h
  simp only [bind, Except.bind] at h
  split at h
  · cases h
  · rename_i inIdx hin
    injection h with h
    have hoi : ∀ j, j < D.length → (unravel (D.map (·.2)) k).getD j 0 < (D.getD j (none, 0)).2 := by
      intro j hj
      have := unravel_getD_lt (D.map (·.2)) k j hk (by simpa using hj)
      rwa [List.getD_eq_getElem (D.map (·.2)) 0 (by simpa using hj), List.getElem_map,
        ← List.getD_eq_getElem D (none, 0) hj] at this
    obtain ⟨h1, h2, h3⟩ := inIdxOf_mask sels shape hlen hok D jB N hD _ inIdx hoi hin
    exact ⟨inIdx, h1, h.symm, h2, h3⟩

theorem positions_mask (sels : List Sel) (shape : List Nat) (hlen : sels.length = shape.length)
    (hok : SelsOK' sels shape) (D : List (Option Nat × Nat)) (jB N : Nat) (hD : DescsSpec sels D jB N)
    (hG : GroupInj sels N) (pos : List Nat)
    (h : (List.range (prodNat (D.map (·.2)))).mapM (pointM sels shape D) = .ok pos) :
    pos.Nodup ∧ (∀ p ∈ pos, p < prodNat shape) ∧ pos.length = prodNat (D.map (·.2)) := by
  have hf := except_mapM_ok_inv _ _ _ h
  rw [List.forall₂_iff_get] at hf
  obtain ⟨hl, hf⟩ := hf
  rw [List.length_range] at hl
  have hpt : ∀ k (hk : k < pos.length), pointM sels shape D k = .ok pos[k] := by
    intro k hk
    have := hf k (by simpa using (by omega : k < prodNat (D.map (·.2)))) hk
    simpa using this
  refine ⟨?_, ?_, hl.symm⟩
  · rw [List.Nodup, List.pairwise_iff_getElem]
    intro k1 k2 hk1 hk2 hlt heq
    obtain ⟨in1, v1, e1, s1, a1⟩ := point_mask sels shape hlen hok D jB N hD k1 (by omega) _ (hpt k1 hk1)
    obtain ⟨in2, v2, e2, s2, a2⟩ := point_mask sels shape hlen hok D jB N hD k2 (by omega) _ (hpt k2 hk2)
    have hin : in1 = in2 := by
      rw [← (ma_ravel_valid shape in1 v1).2, ← (ma_ravel_valid shape in2 v2).2, ← e1, ← e2, heq]
    subst hin
    have hoi : unravel (D.map (·.2)) k1 = unravel (D.map (·.2)) k2 := by
      apply List.ext_getElem
      · rw [ma_unravel_length, ma_unravel_length]
      · intro j hj1 hj2
        have hj : j < D.length := by
          rw [ma_unravel_length] at hj1; simpa using hj1
        have hv1 := unravel_getD_lt (D.map (·.2)) k1 j (by omega) (by simpa using hj)
        have hv2 := unravel_getD_lt (D.map (·.2)) k2 j (by omega) (by simpa using hj)
        have hDj : (D.map (·.2)).getD j 0 = (D.getD j (none, 0)).2 := by
          rw [List.getD_eq_getElem (D.map (·.2)) 0 (by simpa using hj), List.getElem_map,
            ← List.getD_eq_getElem D (none, 0) hj]
        rw [hDj] at hv1 hv2
        rw [← List.getD_eq_getElem _ 0 hj1, ← List.getD_eq_getElem _ 0 hj2]
        by_cases hjb : j = jB
        · subst hjb
          rw [hD.hB] at hv1 hv2
          simp only at hv1 hv2
          by_contra hne
          obtain ⟨vals, hm, n1, n2, hd⟩ := hG _ _ hv1 hv2 hne
          obtain ⟨e, he, hse⟩ := List.getElem_of_mem hm
          have hse' : sels.getD e (.int 0) = .adv [N] vals := by
            rw [List.getD_eq_getElem _ _ he, hse]
          have r1 := a1 e vals he hse' n1
          have r2 := a2 e vals he hse' n2
          rw [r1] at r2
          omega
        · obtain ⟨e, l, hd, he, hsl⟩ := hD.hsome j hj hjb
          have c1 := s1 j e l hj (by rw [hd]) he hsl
          have c2 := s2 j e l hj (by rw [hd]) he hsl
          rw [hd] at hv1 hv2
          simp only at hv1 hv2
          have hnd : l.Nodup := by
            have := hok _ _ (List.getElem?_eq_getElem he)
            rw [← List.getD_eq_getElem _ (.int 0) he, hsl] at this
            exact this.1
          rw [c1] at c2
          rw [List.getD_eq_getElem l 0 hv1, List.getD_eq_getElem l 0 hv2] at c2
          exact (List.Nodup.getElem_inj_iff hnd).mp c2
    have r1 := (ma_unravel_valid (D.map (·.2)) k1 (by omega)).2
    have r2 := (ma_unravel_valid (D.map (·.2)) k2 (by omega)).2
    rw [hoi] at r1
    omega
  · intro p hp
    obtain ⟨k, hk, rfl⟩ := List.getElem_of_mem hp
    obtain ⟨in1, v1, e1, _⟩ := point_mask sels shape hlen hok D jB N hD k (by omega) _ (hpt k hk)
    rw [e1]
    exact (ma_ravel_valid shape in1 v1).1


/-! ## the descriptors `indexPositions` builds -/

/-- descriptors of the slice selectors `A`, one broadcast dimension of size `N`, descriptors of the slice
selectors `C` -/
def descsM (A : List (Nat × Nat)) (N : Nat) (C : List (Nat × Nat)) : List (Option Nat × Nat) :=
  A.map (fun p => (some p.1, p.2)) ++ (none, N) :: C.map (fun p => (some p.1, p.2))

theorem descsM_length (A : List (Nat × Nat)) (N : Nat) (C : List (Nat × Nat)) :
    (descsM A N C).length = A.length + 1 + C.length := by
  simp [descsM]; omega

theorem descsM_getD_mid (A : List (Nat × Nat)) (N : Nat) (C : List (Nat × Nat)) :
    (descsM A N C).getD A.length (none, 0) = (none, N) := by
  rw [List.getD_eq_getElem _ _ (by rw [descsM_length]; omega)]
  simp [descsM]

theorem descsM_getD (A : List (Nat × Nat)) (N : Nat) (C : List (Nat × Nat)) (j : Nat)
    (hj : j < (descsM A N C).length) (hne : j ≠ A.length) :
    ∃ (h : (if j < A.length then j else j - 1) < (A ++ C).length),
      (descsM A N C).getD j (none, 0)
        = (some ((A ++ C)[if j < A.length then j else j - 1]).1, ((A ++ C)[if j < A.length then j else j - 1]).2) := by
  rw [descsM_length] at hj
  rw [List.getD_eq_getElem _ _ (by rw [descsM_length]; exact hj)]
  by_cases hlt : j < A.length
  · simp only [if_pos hlt]
    refine ⟨by simp; omega, ?_⟩
    simp only [descsM]
    rw [List.getElem_append_left (by simpa using hlt), List.getElem_append_left hlt]
    simp
  · simp only [if_neg hlt]
    refine ⟨by simp; omega, ?_⟩
    simp only [descsM]
    rw [List.getElem_append_right (by simp; omega), List.getElem_append_right (by omega)]
    have e1 : j - (A.map (fun p => (some p.1, p.2))).length = (j - A.length - 1) + 1 := by simp; omega
    simp only [e1, List.getElem_cons_succ, List.getElem_map]
    have e2 : j - 1 - A.length = j - A.length - 1 := by omega
    simp only [e2]

theorem descsM_spec (sels : List Sel) (A : List (Nat × Nat)) (N : Nat) (C : List (Nat × Nat))
    (hpw : (A ++ C).Pairwise (fun a b => a.1 < b.1))
    (hmem : ∀ p, p ∈ A ++ C ↔ p ∈ sliceDescsOf sels) : DescsSpec sels (descsM A N C) A.length N := by
  have hkey : ∀ j (hj : j < (descsM A N C).length), j ≠ A.length → ∀ e,
      ((descsM A N C).getD j (none, 0)).1 = some e →
      ∃ (h : (if j < A.length then j else j - 1) < (A ++ C).length),
        ((A ++ C)[if j < A.length then j else j - 1]).1 = e := by
    intro j hj hne e he
    obtain ⟨h, hd⟩ := descsM_getD A N C j hj hne
    rw [hd] at he
    exact ⟨h, by simpa using he⟩
  constructor
  · rw [descsM_length]; omega
  · exact descsM_getD_mid A N C
  · intro j hj hne
    obtain ⟨h, hd⟩ := descsM_getD A N C j hj hne
    have hq := (hmem _).mp (List.getElem_mem h)
    obtain ⟨he, l, hsl, h2⟩ := (sliceDescsOf_mem sels _).mp hq
    exact ⟨_, l, by rw [hd, h2], he, hsl⟩
  · intro e l he hsl
    have hq : (e, l.length) ∈ A ++ C := (hmem _).mpr ((sliceDescsOf_mem sels _).mpr ⟨he, l, hsl, rfl⟩)
    obtain ⟨i, hi, hie⟩ := List.getElem_of_mem hq
    rw [List.length_append] at hi
    by_cases hlt : i < A.length
    · have hj : i < (descsM A N C).length := by rw [descsM_length]; omega
      obtain ⟨h, hd⟩ := descsM_getD A N C i hj (by omega)
      refine ⟨i, hj, ?_⟩
      rw [hd]
      simp only [if_pos hlt, hie]
    · have hj : i + 1 < (descsM A N C).length := by rw [descsM_length]; omega
      obtain ⟨h, hd⟩ := descsM_getD A N C (i + 1) hj (by omega)
      refine ⟨i + 1, hj, ?_⟩
      rw [hd]
      have : ¬ (i + 1 < A.length) := by omega
      simp only [if_neg this, Nat.add_sub_cancel, hie]
  · intro i j e hi hj hie hje
    have hiA : i ≠ A.length := by
      intro h; rw [h, descsM_getD_mid] at hie; cases hie
    have hjA : j ≠ A.length := by
      intro h; rw [h, descsM_getD_mid] at hje; cases hje
    obtain ⟨h1, k1⟩ := hkey i hi hiA e hie
    obtain ⟨h2, k2⟩ := hkey j hj hjA e hje
    have hp := List.pairwise_iff_getElem.mp hpw
    have hιeq : (if i < A.length then i else i - 1) = (if j < A.length then j else j - 1) := by
      rcases Nat.lt_trichotomy (if i < A.length then i else i - 1) (if j < A.length then j else j - 1)
        with hlt | heq | hgt
      · have := hp _ _ h1 h2 hlt; omega
      · exact heq
      · have := hp _ _ h2 h1 hgt; omega
    split_ifs at hιeq <;> omega

/-- the first array selector is not a slice -/
theorem firstAdv_not_slice (sels : List Sel) (hA : hasArrOf sels = true) (p : Nat × Nat)
    (hp : p ∈ sliceDescsOf sels) : p.1 ≠ (advPosOf sels true).headD 0 := by
  obtain ⟨_, l, hsl, _⟩ := (sliceDescsOf_mem sels p).mp hp
  unfold hasArrOf at hA
  obtain ⟨s, hs, hsa⟩ := List.any_eq_true.mp hA
  obtain ⟨e, he, rfl⟩ := List.getElem_of_mem hs
  have hmem : e ∈ advPosOf sels true := by
    unfold advPosOf
    rw [List.mem_filter]
    refine ⟨List.mem_range.mpr he, ?_⟩
    rw [List.getD_eq_getElem _ _ he]
    cases hse : sels[e] with
    | adv sh v => rfl
    | int i => rw [hse] at hsa; simp at hsa
    | slice l => rw [hse] at hsa; simp at hsa
  cases hadv : advPosOf sels true with
  | nil => rw [hadv] at hmem; cases hmem
  | cons a rest =>
    have ha : a ∈ advPosOf sels true := by rw [hadv]; exact List.mem_cons_self
    unfold advPosOf at ha
    have := (List.mem_filter.mp ha).2
    intro heq
    simp only [List.headD_cons] at heq
    rw [← heq, hsl] at this
    simp [Sel.isAdv] at this

theorem descsOf_mask (sels : List Sel) (hA : hasArrOf sels = true) (adj : Bool) (N : Nat) :
    ∃ A C, descsOf true adj ((advPosOf sels true).headD 0) (sliceDescsOf sels) [N] = descsM A N C ∧
      (A ++ C).Pairwise (fun a b => a.1 < b.1) ∧ ∀ p, p ∈ A ++ C ↔ p ∈ sliceDescsOf sels := by
  cases adj with
  | false =>
    refine ⟨[], sliceDescsOf sels, rfl, ?_, fun p => by simp⟩
    simpa using sliceDescsOf_pairwise sels
  | true =>
    refine ⟨(sliceDescsOf sels).filter (·.1 < (advPosOf sels true).headD 0),
      (sliceDescsOf sels).filter (·.1 > (advPosOf sels true).headD 0), ?_, ?_, ?_⟩
    · simp [descsOf, descsM]
    · rw [List.pairwise_append]
      refine ⟨(sliceDescsOf_pairwise sels).filter _, (sliceDescsOf_pairwise sels).filter _, ?_⟩
      intro a ha b hb
      have h1 := (List.mem_filter.mp ha).2
      have h2 := (List.mem_filter.mp hb).2
      simp only [decide_eq_true_eq, gt_iff_lt] at h1 h2
      omega
    · intro p
      rw [List.mem_append, List.mem_filter, List.mem_filter]
      constructor
      · rintro (h | h) <;> exact h.1
      · intro hp
        have := firstAdv_not_slice sels hA p hp
        simp only [decide_eq_true_eq, gt_iff_lt]
        rcases Nat.lt_or_gt_of_ne this with h | h
        · exact Or.inl ⟨hp, h⟩
        · exact Or.inr ⟨hp, h⟩


theorem indexPositions'_mask (shape : List Nat) (idx : List IdxEntry) (sels : List Sel) (N : Nat)
    (D : List (Option Nat × Nat)) (hs : toSels shape idx = .ok sels) (hA : hasArrOf sels = true)
    (hB : bshapeOf (advShapesOf sels true) = .ok [N])
    (hD : descsOf true (adjacentOf (flagsOf idx true)) ((advPosOf sels true).headD 0) (sliceDescsOf sels) [N] = D) :
    indexPositions' shape idx = (do
      let positions ← (List.range (prodNat (D.map (·.2)))).mapM (pointM sels shape D)
      pure (D.map (·.2), positions)) := by
  unfold indexPositions'
  rw [hs]
  simp only [bind, Except.bind, hA, hB, hD]
  rfl

/-- **indexing without integer arrays never selects an element twice** -/
theorem indexPositions_noIarr (shape : List Nat) (idx : List IdxEntry) (outShape pos : List Nat)
    (hb : ∀ e ∈ idx, IdxEntry.isNoIarr e = true) (h : indexPositions shape idx = .ok (outShape, pos)) :
    pos.Nodup ∧ (∀ p ∈ pos, p < prodNat shape) ∧ pos.length = prodNat outShape := by
  rw [indexPositions_eq'] at h
  cases hs : toSels shape idx with
  | error e =>
    unfold indexPositions' at h
    rw [hs] at h; cases h
  | ok sels =>
    obtain ⟨hlen, hok⟩ := toSels_mask shape idx sels hb hs
    cases hA : hasArrOf sels with
    | false =>
      have hok' := SelsOK_of_noArr sels shape hok hA
      rw [indexPositions'_basic shape idx sels hs hok'] at h
      cases hp : (List.range (prodNat (outShapeB sels))).mapM (pointB sels shape) with
      | error e => rw [hp] at h; cases h
      | ok pos' =>
        rw [hp] at h
        injection h with h
        injection h with h1 h2
        subst h1; subst h2
        exact positions_basic sels shape hlen hok' pos' hp
    | true =>
      cases hB : bshapeOf (advShapesOf sels true) with
      | error e =>
        unfold indexPositions' at h
        rw [hs] at h
        simp only [bind, Except.bind, hA, hB] at h
        cases h
      | ok B =>
        obtain ⟨N, rfl, hG⟩ := bshape_mask sels shape hok hA B hB
        obtain ⟨A, C, hD, hpw, hmem⟩ := descsOf_mask sels hA (adjacentOf (flagsOf idx true)) N
        have hspec := descsM_spec sels A N C hpw hmem
        rw [indexPositions'_mask shape idx sels N _ hs hA hB hD] at h
        cases hp : (List.range (prodNat ((descsM A N C).map (·.2)))).mapM (pointM sels shape (descsM A N C)) with
        | error e => rw [hp] at h; cases h
        | ok pos' =>
          rw [hp] at h
          injection h with h
          injection h with h1 h2
          subst h1; subst h2
          exact positions_mask sels shape hlen hok _ _ N hspec hG pos' hp

end Furax.Index
