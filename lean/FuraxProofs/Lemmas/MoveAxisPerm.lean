import FuraxModel.Axes
import Mathlib.Data.List.Perm.Basic
import Mathlib.Data.List.Nodup
import Mathlib.Data.List.GetD
import Mathlib.Data.List.Forall2
/-!
`numpy.moveaxis` (model: FuraxModel/Axes.lean): the axis order is a permutation, every moved axis
lands at its destination, the unmoved axes keep their relative order, and moving the axes back is the
inverse permutation, hence restores shape and data.

Main results: `normAxisTuple_spec`, `moveaxisOrder_perm`, `moveaxisOrder_dest`, `moveaxisOrder_dest'`, `moveaxisOrder_rest`,
`moveaxisOrder_inverse`, `moveaxisOrder_swap_ok`, `moveaxis_inverse_shape`, `moveaxis_inverse_data`,
`moveaxis_roundtrip`.  Helper lemmas carry the prefix `ma_`.
-/
namespace Furax.Axes

theorem ma_eraseDups_length_le_aux (n : Nat) : ∀ l : List Nat, l.length ≤ n → l.eraseDups.length ≤ l.length := by
  induction n with
  | zero => intro l hl; cases l with
    | nil => simp
    | cons a as => simp at hl
  | succ n ih =>
    intro l hl
    cases l with
    | nil => simp
    | cons a as =>
      rw [List.eraseDups_cons]
      have h1 := List.length_filter_le (fun b => !b == a) as
      have := ih (as.filter fun b => !b == a) (by simp at hl; omega)
      simp only [List.length_cons]
      omega

theorem ma_eraseDups_length_le (l : List Nat) : l.eraseDups.length ≤ l.length :=
  ma_eraseDups_length_le_aux _ l (Nat.le_refl _)

theorem ma_nodup_of_eraseDups (l : List Nat) (h : l.eraseDups.length = l.length) : l.Nodup := by
  induction l with
  | nil => simp
  | cons a as ih =>
    rw [List.eraseDups_cons] at h
    have h1 := List.length_filter_le (fun b => !b == a) as
    have h2 := ma_eraseDups_length_le (as.filter fun b => !b == a)
    simp only [List.length_cons] at h
    have h3 : (as.filter fun b => !b == a).length = as.length := by omega
    have h4 := List.length_filter_eq_length_iff.mp h3
    have h5 : as.filter (fun b => !b == a) = as := List.filter_eq_self.mpr h4
    rw [h5] at h
    refine List.nodup_cons.mpr ⟨?_, ih (by omega)⟩
    intro hmem
    have := h4 a hmem
    simp at this

theorem ma_normAxis_lt {ndim : Nat} {a : Int} {n : Nat} (h : normAxis ndim a = .ok n) : n < ndim := by
  unfold normAxis at h
  split at h
  · simp at h
  · simp only [Except.ok.injEq] at h
    subst h
    split <;> omega

theorem ma_mapM_lt {ndim : Nat} (axes : List Int) (l : List Nat)
    (h : axes.mapM (normAxis ndim) = .ok l) : ∀ x ∈ l, x < ndim := by
  induction axes generalizing l with
  | nil => simp [pure, Except.pure] at h; subst h; simp
  | cons a as ih =>
    rw [List.mapM_cons] at h
    cases ha : normAxis ndim a with
    | error e => simp [ha, bind, Except.bind] at h
    | ok n =>
      cases has : as.mapM (normAxis ndim) with
      | error e => simp [ha, has, bind, Except.bind] at h
      | ok l' =>
        simp [ha, has, bind, Except.bind, pure, Except.pure] at h
        subst h
        intro x hx
        rcases List.mem_cons.mp hx with rfl | hx
        · exact ma_normAxis_lt ha
        · exact ih l' has x hx

theorem normAxisTuple_spec {ndim : Nat} {axes : List Int} {l : List Nat}
    (h : normAxisTuple ndim axes = .ok l) : l.Nodup ∧ ∀ x ∈ l, x < ndim := by
  unfold normAxisTuple at h
  cases hm : axes.mapM (normAxis ndim) with
  | error e => simp [hm, bind, Except.bind] at h
  | ok l' =>
    simp only [hm, bind, Except.bind] at h
    split at h
    · simp at h
    · rename_i hne
      simp only [pure, Except.pure, Except.ok.injEq] at h
      subst h
      exact ⟨ma_nodup_of_eraseDups _ (by simpa using hne), ma_mapM_lt _ _ hm⟩


theorem ma_insertPair_perm (p : Nat × Nat) (l : List (Nat × Nat)) : (insertPair p l).Perm (p :: l) := by
  induction l with
  | nil => simp [insertPair]
  | cons q rest ih =>
    unfold insertPair
    split
    · exact List.Perm.refl _
    · exact (List.Perm.cons q ih).trans (List.Perm.swap p q rest)

theorem ma_sortPairs_perm (l : List (Nat × Nat)) : (sortPairs l).Perm l := by
  induction l with
  | nil => simp [sortPairs]
  | cons p rest ih =>
    have : sortPairs (p :: rest) = insertPair p (sortPairs rest) := rfl
    rw [this]
    exact (ma_insertPair_perm p _).trans (List.Perm.cons p ih)

theorem ma_insertPair_sorted (p : Nat × Nat) (l : List (Nat × Nat))
    (hs : l.Pairwise (fun a b => a.1 < b.1)) (hp : ∀ q ∈ l, p.1 ≠ q.1) :
    (insertPair p l).Pairwise (fun a b => a.1 < b.1) := by
  induction l with
  | nil => simp [insertPair]
  | cons q rest ih =>
    unfold insertPair
    have hq := hp q (by simp)
    rw [List.pairwise_cons] at hs
    split
    · rename_i hc
      have hlt : p.1 < q.1 := by omega
      refine List.pairwise_cons.mpr ⟨?_, List.pairwise_cons.mpr hs⟩
      intro r hr
      rcases List.mem_cons.mp hr with rfl | hr
      · exact hlt
      · exact Nat.lt_trans hlt (hs.1 r hr)
    · rename_i hc
      have hlt : q.1 < p.1 := by omega
      refine List.pairwise_cons.mpr ⟨?_, ih hs.2 (fun r hr => hp r (by simp [hr]))⟩
      intro r hr
      have := (ma_insertPair_perm p rest).mem_iff.mp hr
      rcases List.mem_cons.mp this with rfl | hr
      · exact hlt
      · exact hs.1 r hr

theorem ma_sortPairs_sorted (l : List (Nat × Nat)) (hn : (l.map Prod.fst).Nodup) :
    (sortPairs l).Pairwise (fun a b => a.1 < b.1) := by
  induction l with
  | nil => simp [sortPairs]
  | cons p rest ih =>
    have : sortPairs (p :: rest) = insertPair p (sortPairs rest) := rfl
    rw [this]
    simp only [List.map_cons, List.nodup_cons] at hn
    apply ma_insertPair_sorted _ _ (ih hn.2)
    intro q hq heq
    have hq' := (ma_sortPairs_perm rest).mem_iff.mp hq
    exact hn.1 (heq ▸ List.mem_map_of_mem hq')

theorem ma_insertAt_perm (l : List Nat) (i x : Nat) : (insertAt l i x).Perm (x :: l) := by
  unfold insertAt
  have h1 : (List.take i l ++ [x] ++ List.drop i l).Perm ([x] ++ List.take i l ++ List.drop i l) :=
    List.Perm.append_right _ List.perm_append_comm
  refine h1.trans ?_
  simp

theorem ma_insertAt_length (l : List Nat) (i x : Nat) : (insertAt l i x).length = l.length + 1 :=
  (ma_insertAt_perm l i x).length_eq

theorem ma_foldl_perm (ps : List (Nat × Nat)) (l : List Nat) :
    (ps.foldl (fun ord (p : Nat × Nat) => insertAt ord p.1 p.2) l).Perm (ps.map Prod.snd ++ l) := by
  induction ps generalizing l with
  | nil => simp
  | cons p rest ih =>
    simp only [List.foldl_cons, List.map_cons, List.cons_append]
    refine (ih _).trans ?_
    refine (List.Perm.append_left _ (ma_insertAt_perm l p.1 p.2)).trans ?_
    exact List.perm_middle

theorem ma_sorted_bound (x : Nat × Nat) (q : List (Nat × Nat)) (B : Nat)
    (hs : (x :: q).Pairwise (fun a b => a.1 < b.1)) (hb : ∀ p ∈ x :: q, p.1 < B) :
    x.1 + q.length < B := by
  induction q generalizing x with
  | nil => simpa using hb x (by simp)
  | cons y q' ih =>
    rw [List.pairwise_cons] at hs
    have := ih y hs.2 (fun p hp => hb p (by simp [hp]))
    have := hs.1 y (by simp)
    simp only [List.length_cons]
    omega

theorem ma_insertAt_get_lt (l : List Nat) (i x k : Nat) (hk : k < i) (hkl : k < l.length) :
    (insertAt l i x)[k]? = l[k]? := by
  unfold insertAt
  rw [List.append_assoc, List.getElem?_append_left (by simp; omega)]
  simp [hk]

theorem ma_insertAt_get_eq (l : List Nat) (i x : Nat) (hi : i ≤ l.length) :
    (insertAt l i x)[i]? = some x := by
  unfold insertAt
  rw [List.append_assoc, List.getElem?_append_right (by simp; omega)]
  simp [Nat.min_eq_left hi]

theorem ma_foldl_spec (ps : List (Nat × Nat)) (l : List Nat)
    (hs : ps.Pairwise (fun a b => a.1 < b.1)) (hb : ∀ p ∈ ps, p.1 < l.length + ps.length) :
    (∀ p ∈ ps, (ps.foldl (fun ord (p : Nat × Nat) => insertAt ord p.1 p.2) l)[p.1]? = some p.2) ∧
    (∀ k, (∀ p ∈ ps, k < p.1) → k < l.length →
      (ps.foldl (fun ord (p : Nat × Nat) => insertAt ord p.1 p.2) l)[k]? = l[k]?) := by
  induction ps generalizing l with
  | nil => simp
  | cons p rest ih =>
    have hp : p.1 ≤ l.length := by
      have := ma_sorted_bound p rest _ hs hb
      simp only [List.length_cons] at this
      omega
    rw [List.pairwise_cons] at hs
    simp only [List.foldl_cons]
    have hlen := ma_insertAt_length l p.1 p.2
    obtain ⟨ih1, ih2⟩ := ih (insertAt l p.1 p.2) hs.2 (by
      intro q hq
      have := hb q (by simp [hq])
      simp only [List.length_cons] at this
      omega)
    refine ⟨?_, ?_⟩
    · intro q hq
      rcases List.mem_cons.mp hq with rfl | hq
      · rw [ih2 q.1 (fun r hr => hs.1 r hr) (by omega)]
        exact ma_insertAt_get_eq l q.1 q.2 hp
      · exact ih1 q hq
    · intro k hk hkl
      rw [ih2 k (fun r hr => hk r (by simp [hr])) (by omega)]
      exact ma_insertAt_get_lt l p.1 p.2 k (hk p (by simp)) hkl



/-- the axes that are not moved, in increasing order -/
def maRest (ndim : Nat) (s : List Nat) : List Nat := (List.range ndim).filter (fun n => !s.contains n)

theorem ma_rest_perm (ndim : Nat) (s : List Nat) (hs : s.Nodup) (hlt : ∀ x ∈ s, x < ndim) :
    (s ++ maRest ndim s).Perm (List.range ndim) := by
  apply (List.perm_ext_iff_of_nodup ?_ List.nodup_range).mpr
  · intro a
    simp only [maRest, List.mem_append, List.mem_filter, List.mem_range,
      Bool.not_eq_eq_eq_not, Bool.not_true]
    constructor
    · rintro (h | h)
      · exact hlt a h
      · exact h.1
    · intro h
      by_cases ha : a ∈ s
      · exact Or.inl ha
      · exact Or.inr ⟨h, by simpa using ha⟩
  · refine List.Nodup.append hs (List.Nodup.filter _ List.nodup_range) ?_
    intro a ha hb
    simp [maRest] at hb
    exact hb.2 ha

/-- what `moveaxisOrder` computes when it succeeds -/
theorem moveaxisOrder_ok {ndim : Nat} {src dst : List Int} {order : List Nat}
    (h : moveaxisOrder ndim src dst = .ok order) :
    ∃ s d, normAxisTuple ndim src = .ok s ∧ normAxisTuple ndim dst = .ok d ∧ s.length = d.length ∧
      order = (sortPairs (d.zip s)).foldl (fun ord (p : Nat × Nat) => insertAt ord p.1 p.2) (maRest ndim s) := by
  unfold moveaxisOrder at h
  cases hs : normAxisTuple ndim src with
  | error e => simp [hs, bind, Except.bind] at h
  | ok s =>
    cases hd : normAxisTuple ndim dst with
    | error e => simp [hs, hd, bind, Except.bind] at h
    | ok d =>
      simp only [hs, hd, bind, Except.bind] at h
      split at h
      · simp at h
      · rename_i hne
        simp only [pure, Except.pure, Except.ok.injEq] at h
        exact ⟨s, d, rfl, rfl, by simpa using hne, h.symm⟩

theorem moveaxisOrder_perm (ndim : Nat) (src dst : List Int) (order : List Nat)
    (h : moveaxisOrder ndim src dst = .ok order) : order.Perm (List.range ndim) := by
  obtain ⟨s, d, hs, hd, hlen, rfl⟩ := moveaxisOrder_ok h
  obtain ⟨hsn, hslt⟩ := normAxisTuple_spec hs
  refine (ma_foldl_perm _ _).trans ?_
  refine (List.Perm.append_right _ ((ma_sortPairs_perm (d.zip s)).map Prod.snd)).trans ?_
  rw [List.map_snd_zip (by omega)]
  exact ma_rest_perm ndim s hsn hslt

theorem moveaxisOrder_dest (ndim : Nat) (src dst : List Int) (s d order : List Nat)
    (hs : normAxisTuple ndim src = .ok s) (hd : normAxisTuple ndim dst = .ok d)
    (h : moveaxisOrder ndim src dst = .ok order) :
    ∀ k, k < s.length → order[d.getD k 0]? = some (s.getD k 0) := by
  obtain ⟨s', d', hs', hd', hlen, rfl⟩ := moveaxisOrder_ok h
  rw [hs] at hs'; rw [hd] at hd'
  cases hs'; cases hd'
  obtain ⟨hsn, hslt⟩ := normAxisTuple_spec hs
  obtain ⟨hdn, hdlt⟩ := normAxisTuple_spec hd
  intro k hk
  have hrl : s.length + (maRest ndim s).length = ndim := by
    have := (ma_rest_perm ndim s hsn hslt).length_eq
    simpa using this
  have hsorted := ma_sortPairs_sorted (d.zip s) (by rw [List.map_fst_zip (by omega)]; exact hdn)
  have hplen : (sortPairs (d.zip s)).length = s.length := by
    rw [(ma_sortPairs_perm _).length_eq]; simp; omega
  have hspec := (ma_foldl_spec (sortPairs (d.zip s)) (maRest ndim s) hsorted (by
    intro p hp
    have hp' := (ma_sortPairs_perm _).mem_iff.mp hp
    have := hdlt p.1 (List.of_mem_zip hp').1
    omega)).1
  have hmem : (d.getD k 0, s.getD k 0) ∈ sortPairs (d.zip s) := by
    apply (ma_sortPairs_perm _).mem_iff.mpr
    have hkd : k < d.length := by omega
    rw [List.getD_eq_getElem _ _ hk, List.getD_eq_getElem _ _ hkd]
    have : (d.zip s)[k]'(by simp; omega) = (d[k], s[k]) := by simp
    rw [← this]
    exact List.getElem_mem _
  exact hspec _ hmem

/-- `moveaxisOrder_dest` with `getElem` -/
theorem moveaxisOrder_dest' (ndim : Nat) (src dst : List Int) (s d order : List Nat)
    (hs : normAxisTuple ndim src = .ok s) (hd : normAxisTuple ndim dst = .ok d)
    (h : moveaxisOrder ndim src dst = .ok order) (k : Nat) (hk : k < s.length) (hk' : k < d.length) :
    order[d[k]]? = some s[k] := by
  have := moveaxisOrder_dest ndim src dst s d order hs hd h k hk
  rwa [List.getD_eq_getElem _ _ hk, List.getD_eq_getElem _ _ hk'] at this

/-! ### the unmoved axes keep their relative order -/

theorem ma_insertAt_filter (s l : List Nat) (i x : Nat) (hx : x ∈ s) :
    (insertAt l i x).filter (fun n => !s.contains n) = l.filter (fun n => !s.contains n) := by
  unfold insertAt
  have : (!s.contains x) = false := by simpa using hx
  simp only [List.filter_append, List.filter_cons, List.filter_nil, this]
  simp only [Bool.false_eq_true, if_false, List.append_nil]
  rw [← List.filter_append, List.take_append_drop]

theorem ma_foldl_filter (s : List Nat) (ps : List (Nat × Nat)) (l : List Nat) (h : ∀ p ∈ ps, p.2 ∈ s) :
    (ps.foldl (fun ord (p : Nat × Nat) => insertAt ord p.1 p.2) l).filter (fun n => !s.contains n)
      = l.filter (fun n => !s.contains n) := by
  induction ps generalizing l with
  | nil => rfl
  | cons p rest ih =>
    simp only [List.foldl_cons]
    rw [ih _ (fun q hq => h q (by simp [hq])), ma_insertAt_filter s l p.1 p.2 (h p (by simp))]

/-- the facts about `order = moveaxisOrder ndim src dst` used for the inverse theorem -/
structure MAFacts (ndim : Nat) (s d order : List Nat) : Prop where
  sNodup : s.Nodup
  dNodup : d.Nodup
  len : s.length = d.length
  sLt : ∀ x ∈ s, x < ndim
  dLt : ∀ x ∈ d, x < ndim
  perm : order.Perm (List.range ndim)
  dest : ∀ k, k < s.length → order[d.getD k 0]? = some (s.getD k 0)
  rest : order.filter (fun n => !s.contains n) = maRest ndim s

theorem moveaxisOrder_facts (ndim : Nat) (src dst : List Int) (s d order : List Nat)
    (hs : normAxisTuple ndim src = .ok s) (hd : normAxisTuple ndim dst = .ok d)
    (h : moveaxisOrder ndim src dst = .ok order) : MAFacts ndim s d order := by
  obtain ⟨hsn, hslt⟩ := normAxisTuple_spec hs
  obtain ⟨hdn, hdlt⟩ := normAxisTuple_spec hd
  refine ⟨hsn, hdn, ?_, hslt, hdlt, moveaxisOrder_perm ndim src dst order h,
    moveaxisOrder_dest ndim src dst s d order hs hd h, ?_⟩
  · obtain ⟨s', d', hs', hd', hlen, _⟩ := moveaxisOrder_ok h
    rw [hs] at hs'; rw [hd] at hd'
    cases hs'; cases hd'; exact hlen
  · obtain ⟨s', d', hs', hd', hlen, rfl⟩ := moveaxisOrder_ok h
    rw [hs] at hs'; rw [hd] at hd'
    cases hs'; cases hd'
    rw [ma_foldl_filter]
    · simp [maRest]
    · intro p hp
      have hp' := (ma_sortPairs_perm _).mem_iff.mp hp
      exact (List.of_mem_zip hp').2

/-- the axes that are not moved keep their relative (increasing) order -/
theorem moveaxisOrder_rest (ndim : Nat) (src dst : List Int) (s order : List Nat)
    (hs : normAxisTuple ndim src = .ok s) (h : moveaxisOrder ndim src dst = .ok order) :
    order.filter (fun n => !s.contains n) = (List.range ndim).filter (fun n => !s.contains n) := by
  obtain ⟨s', d, hs', hd, _, _⟩ := moveaxisOrder_ok h
  rw [hs] at hs'; cases hs'
  exact (moveaxisOrder_facts ndim src dst s d order hs hd h).rest

theorem MAFacts.length {ndim : Nat} {s d order : List Nat} (F : MAFacts ndim s d order) :
    order.length = ndim := by simpa using F.perm.length_eq

theorem MAFacts.nodup {ndim : Nat} {s d order : List Nat} (F : MAFacts ndim s d order) :
    order.Nodup := F.perm.nodup_iff.mpr List.nodup_range

theorem MAFacts.getD_lt {ndim : Nat} {s d order : List Nat} (F : MAFacts ndim s d order)
    (i : Nat) (hi : i < ndim) : order.getD i 0 < ndim := by
  have hl := F.length
  rw [List.getD_eq_getElem _ _ (by omega)]
  have : order[i]'(by omega) ∈ List.range ndim := F.perm.mem_iff.mp (List.getElem_mem _)
  simpa using this

theorem MAFacts.mem_iff {ndim : Nat} {s d order : List Nat} (F : MAFacts ndim s d order)
    (i : Nat) (hi : i < ndim) : order.getD i 0 ∈ s ↔ i ∈ d := by
  have hl := F.length
  have hlen := F.len
  constructor
  · intro hm
    obtain ⟨k, hk, hke⟩ := List.getElem_of_mem hm
    have hdest := F.dest k hk
    rw [List.getD_eq_getElem _ _ hk, List.getD_eq_getElem _ _ (by omega : k < d.length)] at hdest
    have hdk : d[k]'(by omega) < ndim := F.dLt _ (List.getElem_mem _)
    rw [List.getElem?_eq_getElem (by omega)] at hdest
    rw [List.getD_eq_getElem _ _ (by omega)] at hke
    have : order[d[k]'(by omega)]'(by omega) = order[i]'(by omega) := by
      rw [← hke]; simpa using hdest
    have := (F.nodup.getElem_inj_iff).mp this
    rw [← this]; exact List.getElem_mem _
  · intro hm
    obtain ⟨k, hk, hke⟩ := List.getElem_of_mem hm
    have hdest := F.dest k (by omega)
    rw [List.getD_eq_getElem _ _ (by omega : k < s.length), List.getD_eq_getElem _ _ hk, hke] at hdest
    rw [List.getD_eq_getElem?_getD, hdest]
    simp

theorem MAFacts.rest_map {ndim : Nat} {s d order : List Nat} (F : MAFacts ndim s d order) :
    maRest ndim s = (maRest ndim d).map (fun i => order.getD i 0) := by
  have hl := F.length
  have ho : order = (List.range ndim).map (fun i => order.getD i 0) := by
    apply List.ext_getElem
    · simp [hl]
    · intro i h1 h2
      simp only [List.getElem_map, List.getElem_range]
      exact (List.getD_eq_getElem _ _ h1).symm
  rw [← F.rest]
  conv => lhs; rw [ho]
  rw [List.filter_map]
  congr 1
  unfold maRest
  apply List.filter_congr
  intro i hi
  have hi' : i < ndim := by simpa using hi
  have := F.mem_iff i hi'
  simp only [Function.comp]
  have e : s.contains (order.getD i 0) = d.contains i := by
    rw [Bool.eq_iff_iff]; simp only [List.contains_iff_mem]; exact this
  rw [e]

theorem ma_mem_rest {ndim : Nat} {s : List Nat} {i : Nat} (hi : i < ndim) (hs : i ∉ s) : i ∈ maRest ndim s := by
  simp [maRest, hi, hs]

/-- the orders of a move and of the move back are inverse permutations -/
theorem MAFacts.inverse {ndim : Nat} {s d order order' : List Nat}
    (F : MAFacts ndim s d order) (G : MAFacts ndim d s order') (i : Nat) (hi : i < ndim) :
    order.getD (order'.getD i 0) 0 = i := by
  have hlen := F.len
  by_cases hs : i ∈ s
  · obtain ⟨k, hk, hke⟩ := List.getElem_of_mem hs
    have h1 := G.dest k (by omega)
    have h2 := F.dest k hk
    rw [List.getD_eq_getElem _ _ hk, hke] at h1 h2
    rw [List.getD_eq_getElem?_getD (l := order'), h1]
    simp only [Option.getD_some]
    rw [List.getD_eq_getElem?_getD (l := order), h2]
    simp
  · obtain ⟨t, ht, hte⟩ := List.getElem_of_mem (ma_mem_rest hi hs)
    have e1 := F.rest_map
    have e2 := G.rest_map
    have hlt : (maRest ndim d).length = (maRest ndim s).length := by
      have := congrArg List.length e1; simp at this; omega
    have a1 : (maRest ndim s)[t] = order.getD ((maRest ndim d)[t]'(by omega)) 0 := by
      have := List.getElem_of_eq e1 ht
      rw [this, List.getElem_map]
    have a2 : (maRest ndim d)[t]'(by omega) = order'.getD ((maRest ndim s)[t]) 0 := by
      have := List.getElem_of_eq e2 (by omega : t < (maRest ndim d).length)
      rw [this, List.getElem_map]
    rw [← hte, ← a2, ← a1]

/-! ### `ravelIdx` and `unravel` -/

theorem ma_foldl_mul_init (l : List Nat) (a : Nat) : l.foldl (· * ·) a = a * l.foldl (· * ·) 1 := by
  induction l generalizing a with
  | nil => simp
  | cons x xs ih => simp only [List.foldl_cons, Nat.one_mul]; rw [ih (a * x), ih x, Nat.mul_assoc]

theorem ma_prodNat_nil : prodNat [] = 1 := rfl

theorem ma_prodNat_cons (x : Nat) (xs : List Nat) : prodNat (x :: xs) = x * prodNat xs := by
  unfold prodNat; simp only [List.foldl_cons, Nat.one_mul]; exact ma_foldl_mul_init xs x

theorem ma_unravel_snd (shape : List Nat) (i : Nat) :
    (shape.foldr (fun d (acc : List Nat × Nat) => ((acc.2 % d) :: acc.1, acc.2 / d)) ([], i)).2
      = i / prodNat shape := by
  induction shape with
  | nil => simp [ma_prodNat_nil]
  | cons d ds ih =>
    simp only [List.foldr_cons, ih, ma_prodNat_cons]
    rw [Nat.div_div_eq_div_mul, Nat.mul_comm]

theorem ma_unravel_nil (i : Nat) : unravel [] i = [] := rfl

theorem ma_unravel_cons (d : Nat) (ds : List Nat) (i : Nat) :
    unravel (d :: ds) i = (i / prodNat ds % d) :: unravel ds i := by
  unfold unravel
  simp only [List.foldr_cons, ma_unravel_snd]

theorem ma_unravel_length (shape : List Nat) (i : Nat) : (unravel shape i).length = shape.length := by
  induction shape with
  | nil => rfl
  | cons d ds ih => simp [ma_unravel_cons, ih]

theorem ma_unravel_mod (shape : List Nat) (i : Nat) : unravel shape (i % prodNat shape) = unravel shape i := by
  induction shape generalizing i with
  | nil => rfl
  | cons d ds ih =>
    rw [ma_unravel_cons, ma_unravel_cons, ma_prodNat_cons]
    congr 1
    · rw [Nat.mul_comm d, Nat.mod_mul_right_div_self, Nat.mod_mod]
    · rw [← ih (i % (d * prodNat ds)), ← ih i, Nat.mod_mul_left_mod]

theorem ma_ravel_foldl (ps : List (Nat × Nat)) (acc : Nat) :
    ps.foldl (fun acc (p : Nat × Nat) => acc * p.1 + p.2) acc
      = acc * prodNat (ps.map Prod.fst) + ps.foldl (fun acc (p : Nat × Nat) => acc * p.1 + p.2) 0 := by
  induction ps generalizing acc with
  | nil => simp [ma_prodNat_nil]
  | cons p rest ih =>
    simp only [List.foldl_cons, List.map_cons, ma_prodNat_cons]
    rw [ih (acc * p.1 + p.2), ih (0 * p.1 + p.2)]
    simp [Nat.add_mul, Nat.mul_assoc, Nat.add_assoc]

theorem ma_ravelIdx_cons (d : Nat) (ds : List Nat) (x : Nat) (xs : List Nat) (h : xs.length = ds.length) :
    ravelIdx (d :: ds) (x :: xs) = x * prodNat ds + ravelIdx ds xs := by
  unfold ravelIdx
  simp only [List.zip_cons_cons, List.foldl_cons]
  rw [ma_ravel_foldl, List.map_fst_zip (by omega)]
  simp

theorem ma_ravelIdx_nil : ravelIdx [] [] = 0 := rfl

/-- a valid multi-index ravels to a valid flat position, and `unravel` recovers it -/
theorem ma_ravel_valid (shape idx : List Nat) (h : List.Forall₂ (· < ·) idx shape) :
    ravelIdx shape idx < prodNat shape ∧ unravel shape (ravelIdx shape idx) = idx := by
  induction h with
  | nil => simp [ma_ravelIdx_nil, ma_prodNat_nil, ma_unravel_nil]
  | @cons x d xs ds hxd hrest ih =>
    have hlen := hrest.length_eq
    obtain ⟨ih1, ih2⟩ := ih
    rw [ma_ravelIdx_cons d ds x xs hlen, ma_prodNat_cons]
    constructor
    · calc x * prodNat ds + ravelIdx ds xs < x * prodNat ds + prodNat ds := by omega
        _ = (x + 1) * prodNat ds := by rw [Nat.add_mul, Nat.one_mul]
        _ ≤ d * prodNat ds := Nat.mul_le_mul_right _ hxd
    · rw [ma_unravel_cons]
      have hP : 0 < prodNat ds := by omega
      congr 1
      · rw [Nat.add_comm, Nat.add_mul_div_right _ _ hP, Nat.div_eq_of_lt ih1, Nat.zero_add,
          Nat.mod_eq_of_lt hxd]
      · rw [← ma_unravel_mod, Nat.add_comm, Nat.add_mul_mod_self_right, Nat.mod_eq_of_lt ih1, ih2]

/-- a valid flat position unravels to a valid multi-index, and `ravelIdx` recovers it -/
theorem ma_unravel_valid (shape : List Nat) (k : Nat) (h : k < prodNat shape) :
    List.Forall₂ (· < ·) (unravel shape k) shape ∧ ravelIdx shape (unravel shape k) = k := by
  induction shape generalizing k with
  | nil => simp [ma_unravel_nil, ma_ravelIdx_nil, ma_prodNat_nil] at *; omega
  | cons d ds ih =>
    rw [ma_prodNat_cons] at h
    have hP : 0 < prodNat ds := by
      rcases Nat.eq_zero_or_pos (prodNat ds) with h0 | h0
      · rw [h0] at h; simp at h
      · exact h0
    have hd : 0 < d := by
      rcases Nat.eq_zero_or_pos d with h0 | h0
      · rw [h0] at h; simp at h
      · exact h0
    obtain ⟨ih1, ih2⟩ := ih (k % prodNat ds) (Nat.mod_lt _ hP)
    rw [ma_unravel_mod] at ih1 ih2
    rw [ma_unravel_cons]
    constructor
    · exact List.Forall₂.cons (Nat.mod_lt _ hd) ih1
    · rw [ma_ravelIdx_cons _ _ _ _ (ma_unravel_length ds k), ih2]
      have : k / prodNat ds < d := by
        rw [Nat.div_lt_iff_lt_mul hP]; exact h
      rw [Nat.mod_eq_of_lt this]
      exact Nat.div_add_mod' k (prodNat ds)



/-! ### transposing by two inverse permutations -/

/-- `order` and `order'` are permutations of `0 … n-1` with `order ∘ order' = id` -/
structure InvPerm (n : Nat) (order order' : List Nat) : Prop where
  perm : order.Perm (List.range n)
  perm' : order'.Perm (List.range n)
  inv : ∀ i, i < n → order.getD (order'.getD i 0) 0 = i

namespace InvPerm
variable {n : Nat} {order order' : List Nat}

theorem length (H : InvPerm n order order') : order.length = n := by simpa using H.perm.length_eq
theorem length' (H : InvPerm n order order') : order'.length = n := by simpa using H.perm'.length_eq
theorem nodup (H : InvPerm n order order') : order.Nodup := H.perm.nodup_iff.mpr List.nodup_range
theorem nodup' (H : InvPerm n order order') : order'.Nodup := H.perm'.nodup_iff.mpr List.nodup_range

theorem lt (H : InvPerm n order order') (i : Nat) (hi : i < n) : order.getD i 0 < n := by
  have hl := H.length
  rw [List.getD_eq_getElem _ _ (by omega)]
  have : order[i]'(by omega) ∈ List.range n := H.perm.mem_iff.mp (List.getElem_mem _)
  simpa using this

theorem lt' (H : InvPerm n order order') (i : Nat) (hi : i < n) : order'.getD i 0 < n := by
  have hl := H.length'
  rw [List.getD_eq_getElem _ _ (by omega)]
  have : order'[i]'(by omega) ∈ List.range n := H.perm'.mem_iff.mp (List.getElem_mem _)
  simpa using this

theorem inv' (H : InvPerm n order order') (i : Nat) (hi : i < n) :
    order'.getD (order.getD i 0) 0 = i := by
  have hl := H.length
  have h1 := H.lt i hi
  have h2 := H.lt' _ h1
  have h3 := H.inv _ h1
  have h4 : order[order'.getD (order.getD i 0) 0]'(by omega) = order[i]'(by omega) := by
    rw [← List.getD_eq_getElem order 0, ← List.getD_eq_getElem order 0]; exact h3
  exact (H.nodup.getElem_inj_iff).mp h4

theorem symm (H : InvPerm n order order') : InvPerm n order' order :=
  ⟨H.perm', H.perm, H.inv'⟩

theorem idxOf (H : InvPerm n order order') (i : Nat) (hi : i < n) : order.idxOf i = order'.getD i 0 := by
  have hl := H.length
  have h1 := H.lt' i hi
  have h2 := H.inv i hi
  rw [List.getD_eq_getElem order 0 (by omega : order'.getD i 0 < order.length)] at h2
  have := H.nodup.idxOf_getElem (order'.getD i 0) (by omega)
  rw [h2] at this
  exact this

theorem idxOf' (H : InvPerm n order order') (i : Nat) (hi : i < n) : order'.idxOf i = order.getD i 0 :=
  H.symm.idxOf i hi

end InvPerm

theorem ma_transposeShape_length (shape order : List Nat) :
    (transposeShape shape order).length = order.length := by simp [transposeShape]

theorem ma_transposeShape_getD (shape order : List Nat) (j : Nat) (hj : j < order.length) :
    (transposeShape shape order).getD j 0 = shape.getD (order.getD j 0) 0 := by
  unfold transposeShape
  rw [List.getD_eq_getElem _ _ (by simpa using hj), List.getElem_map, List.getD_eq_getElem order 0 hj]

theorem ma_map_getD_range (l : List Nat) : (List.range l.length).map (fun i => l.getD i 0) = l := by
  apply List.ext_getElem
  · simp
  · intro i h1 h2
    simp only [List.getElem_map, List.getElem_range]
    exact List.getD_eq_getElem _ _ h2

theorem InvPerm.transposeShape_inv {n : Nat} {order order' : List Nat} (H : InvPerm n order order')
    (shape : List Nat) (hsh : shape.length = n) :
    transposeShape (transposeShape shape order) order' = shape := by
  have hl := H.length
  have hl' := H.length'
  apply List.ext_getElem
  · rw [ma_transposeShape_length]; omega
  · intro i h1 h2
    have e1 := List.getD_eq_getElem (transposeShape (transposeShape shape order) order') 0 h1
    rw [← e1, ma_transposeShape_getD _ _ _ (by omega),
      ma_transposeShape_getD _ _ _ (by have := H.lt' i (by omega); omega), H.inv i (by omega)]
    exact List.getD_eq_getElem _ _ h2

theorem ma_getD_map_range {α} [Inhabited α] (m : Nat) (F : Nat → α) (r : Nat) (hr : r < m) :
    ((List.range m).map F).getD r default = F r := by
  rw [List.getD_eq_getElem _ _ (by simpa using hr)]
  simp

/-- reading `transpose(a, order)` at a valid multi-index -/
theorem ma_transposeData_getD {α} [Inhabited α] (shape order : List Nat) (data : List α) (idx1 : List Nat)
    (h : List.Forall₂ (· < ·) idx1 (transposeShape shape order)) :
    (transposeData shape order data).getD (ravelIdx (transposeShape shape order) idx1) default
      = data.getD (ravelIdx shape ((List.range shape.length).map fun ax =>
          idx1.getD (order.idxOf ax) 0)) default := by
  obtain ⟨h1, h2⟩ := ma_ravel_valid _ _ h
  unfold transposeData
  simp only
  rw [ma_getD_map_range _ _ _ h1, h2]

theorem InvPerm.transposeData_inv {α} [Inhabited α] {n : Nat} {order order' : List Nat}
    (H : InvPerm n order order') (shape : List Nat) (hsh : shape.length = n)
    (data : List α) (hdata : data.length = prodNat shape) :
    transposeData (transposeShape shape order) order' (transposeData shape order data) = data := by
  have hl := H.length
  have hl' := H.length'
  have hS := H.transposeShape_inv shape hsh
  apply List.ext_getElem
  · simp [Axes.transposeData, hS, hdata]
  · intro k h1 h2
    have hk : k < prodNat shape := by omega
    obtain ⟨v1, v2⟩ := ma_unravel_valid shape k hk
    have hil : (unravel shape k).length = n := by rw [ma_unravel_length]; exact hsh
    -- the multi-index read in the intermediate tensor
    have hvalid : List.Forall₂ (· < ·)
        ((List.range (Axes.transposeShape shape order).length).map fun ax =>
          (unravel shape k).getD (order'.idxOf ax) 0) (Axes.transposeShape shape order) := by
      rw [List.forall₂_iff_get]
      refine ⟨by simp, ?_⟩
      intro j hj1 hj2
      have hj : j < n := by rw [ma_transposeShape_length] at hj2; omega
      simp only [List.get_eq_getElem, List.getElem_map, List.getElem_range]
      rw [H.idxOf' j hj]
      have hf := H.lt j hj
      rw [← List.getD_eq_getElem (Axes.transposeShape shape order) 0 hj2,
        ma_transposeShape_getD _ _ _ (by omega),
        List.getD_eq_getElem _ 0 (by omega : order.getD j 0 < (unravel shape k).length),
        List.getD_eq_getElem shape 0 (by omega : order.getD j 0 < shape.length)]
      have := v1.get (by omega : order.getD j 0 < (unravel shape k).length)
        (by omega : order.getD j 0 < shape.length)
      simpa using this
    have hmain : (Axes.transposeData (Axes.transposeShape shape order) order'
        (Axes.transposeData shape order data))[k] =
        (Axes.transposeData shape order data).getD
          (ravelIdx (Axes.transposeShape shape order)
            ((List.range (Axes.transposeShape shape order).length).map fun ax =>
              (unravel shape k).getD (order'.idxOf ax) 0)) default := by
      simp only [Axes.transposeData, hS, List.getElem_map, List.getElem_range]
    rw [hmain, ma_transposeData_getD shape order data _ hvalid]
    have hidx : ((List.range shape.length).map fun ax =>
        ((List.range (Axes.transposeShape shape order).length).map fun ax =>
          (unravel shape k).getD (order'.idxOf ax) 0).getD (order.idxOf ax) 0) = unravel shape k := by
      conv => rhs; rw [← ma_map_getD_range (unravel shape k)]
      rw [hil, hsh]
      apply List.map_congr_left
      intro ax hax
      have hax' : ax < n := by simpa using hax
      rw [H.idxOf ax hax']
      have hg := H.lt' ax hax'
      rw [List.getD_eq_getElem _ 0 (by simp only [List.length_map, List.length_range, ma_transposeShape_length]; omega)]
      simp only [List.getElem_map, List.getElem_range]
      rw [H.idxOf' _ hg, H.inv ax hax']
    rw [hidx, v2]
    exact List.getD_eq_getElem _ _ h2


/-! ### moving the axes back -/

theorem moveaxisOrder_invPerm (ndim : Nat) (src dst : List Int) (order order' : List Nat)
    (h : moveaxisOrder ndim src dst = .ok order) (h' : moveaxisOrder ndim dst src = .ok order') :
    InvPerm ndim order order' := by
  obtain ⟨s, d, hs, hd, _, _⟩ := moveaxisOrder_ok h
  have F := moveaxisOrder_facts ndim src dst s d order hs hd h
  have G := moveaxisOrder_facts ndim dst src d s order' hd hs h'
  exact ⟨F.perm, G.perm, F.inverse G⟩

/-- the axis orders of `moveaxis(·, src, dst)` and of `moveaxis(·, dst, src)` are inverse permutations -/
theorem moveaxisOrder_inverse (ndim : Nat) (src dst : List Int) (order order' : List Nat)
    (h : moveaxisOrder ndim src dst = .ok order) (h' : moveaxisOrder ndim dst src = .ok order') :
    (∀ a, a < ndim → order'.getD (order.getD a 0) 0 = a) ∧
    (∀ a, a < ndim → order.getD (order'.getD a 0) 0 = a) :=
  let H := moveaxisOrder_invPerm ndim src dst order order' h h'
  ⟨H.inv', H.inv⟩

/-- if the move is accepted, so is the move back -/
theorem moveaxisOrder_swap_ok (ndim : Nat) (src dst : List Int) (order : List Nat)
    (h : moveaxisOrder ndim src dst = .ok order) : ∃ order', moveaxisOrder ndim dst src = .ok order' := by
  obtain ⟨s, d, hs, hd, hlen, _⟩ := moveaxisOrder_ok h
  unfold moveaxisOrder
  simp only [hs, hd, bind, Except.bind]
  split
  · rename_i hne; simp at hne; omega
  · exact ⟨_, rfl⟩

theorem moveaxis_inverse_shape (ndim : Nat) (src dst : List Int) (order order' shape : List Nat)
    (h : moveaxisOrder ndim src dst = .ok order) (h' : moveaxisOrder ndim dst src = .ok order')
    (hsh : shape.length = ndim) :
    transposeShape (transposeShape shape order) order' = shape :=
  (moveaxisOrder_invPerm ndim src dst order order' h h').transposeShape_inv shape hsh

theorem moveaxis_inverse_data {α} [Inhabited α] (ndim : Nat) (src dst : List Int)
    (order order' shape : List Nat) (data : List α)
    (h : moveaxisOrder ndim src dst = .ok order) (h' : moveaxisOrder ndim dst src = .ok order')
    (hsh : shape.length = ndim) (hdata : data.length = prodNat shape) :
    transposeData (transposeShape shape order) order' (transposeData shape order data) = data :=
  (moveaxisOrder_invPerm ndim src dst order order' h h').transposeData_inv shape hsh data hdata

/-- `moveaxis(moveaxis(t, src, dst), dst, src) = t` for a well-formed tensor -/
theorem moveaxis_roundtrip {α} [Inhabited α] (t t' : Tensor α) (src dst : List Int)
    (hwf : t.data.length = prodNat t.shape) (h : moveaxis t src dst = .ok t') :
    moveaxis t' dst src = .ok t := by
  unfold moveaxis at h
  cases ho : moveaxisOrder t.shape.length src dst with
  | error e => simp [ho, bind, Except.bind] at h
  | ok order =>
    simp only [ho, bind, Except.bind, pure, Except.pure, Except.ok.injEq] at h
    subst h
    obtain ⟨order', ho'⟩ := moveaxisOrder_swap_ok _ src dst order ho
    have hl : order.length = t.shape.length := by
      simpa using (moveaxisOrder_perm _ src dst order ho).length_eq
    unfold moveaxis
    simp only [ma_transposeShape_length, hl, ho', bind, Except.bind, pure, Except.pure]
    rw [moveaxis_inverse_shape _ src dst order order' t.shape ho ho' rfl,
      moveaxis_inverse_data _ src dst order order' t.shape t.data ho ho' rfl hwf]

end Furax.Axes

