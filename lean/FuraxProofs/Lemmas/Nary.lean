/-
Soundness of the two n-ary rules (`IdentityRule`, `HomothetyRule`) and of `AlgebraicReductionRule.apply`
as modelled in FuraxModel/Reduce.lean, for ANY semantics of the operator tree that satisfies the laws
collected in `OpSem` (identity is the identity, a scalar operator multiplies by its value, every structurally
well-formed operator is honest and homogeneous).  The laws are hypotheses (a structure), never axioms; Level-B
files discharge them for the concrete kernels.

The laws `honest` and `homogeneous` are demanded of STRUCTURALLY WELL-FORMED operators only (`StructOK`,
FuraxProofs/Lemmas/WellFormed.lean: what the Python constructors guarantee), so that the framework is inhabited
by faithful denotations (FuraxProofs/Sem/ListSem.lean); accordingly the theorems below are about chains of
structurally well-formed operands (`Sem.ok = StructOK`).
-/
import FuraxModel.Reduce
import FuraxProofs.Lemmas.Scan
import FuraxProofs.Lemmas.OpEq
import FuraxProofs.Lemmas.WellFormed
namespace Furax
open Op

/-- A semantics of the Level-A operator tree over a value space `V` with a scalar action. -/
structure OpSem (V : Type) where
  den : Op → V → V
  mem : Struct → V → Prop
  smul : Rat → V → V
  /-- a structurally well-formed operator maps its input space into its output space -/
  honest : ∀ o x, StructOK o → mem (Op.inS o) x → mem (Op.outS o) (den o x)
  smul_one : ∀ x, smul 1 x = x
  smul_smul : ∀ a b x, smul a (smul b x) = smul (a * b) x
  mem_smul : ∀ s a x, mem s x → mem s (smul a x)
  /-- `IdentityOperator.mv` returns its argument -/
  identity_law : ∀ o, o.isIdentity = true → ∀ x, mem (Op.inS o) x → den o x = x
  /-- `HomothetyOperator.mv` multiplies every leaf by `value` -/
  homothety_law : ∀ o, o.isHomothety = true → ∀ x, mem (Op.inS o) x → den o x = smul (homValue o) x
  /-- every structurally well-formed operator commutes with scalar multiplication (C04: linearity) -/
  homogeneous : ∀ o a x, StructOK o → mem (Op.inS o) x → den o (smul a x) = smul a (den o x)

namespace OpSem
variable {V : Type} (L : OpSem V)

def toSem : Sem Op V Struct := ⟨L.den, Op.inS, Op.outS, L.mem, StructOK, L.honest⟩

@[simp] theorem toSem_inS (o : Op) : L.toSem.inS o = Op.inS o := rfl
@[simp] theorem toSem_outS (o : Op) : L.toSem.outS o = Op.outS o := rfl
@[simp] theorem toSem_den (o : Op) : L.toSem.den o = L.den o := rfl
@[simp] theorem toSem_mem (s : Struct) : L.toSem.mem s = L.mem s := rfl
@[simp] theorem toSem_ok (o : Op) : L.toSem.ok o = StructOK o := rfl

theorem identityRule_mem (ops : List Op) (o : Op) (h : o ∈ identityRule ops) : o ∈ ops := by
  simp only [identityRule, List.mem_filter] at h
  exact h.1

/-- identity and scalar operators are square by construction (`@square`: `out_structure = in_structure`) -/
theorem identity_square (o : Op) (h : o.isIdentity = true) : Op.inS o = Op.outS o := by
  cases o with
  | leaf u c p => cases c <;> simp_all [isIdentity, isLeafCls, Op.inS, Op.outS, squareLeaf]
  | _ => simp [isIdentity, isLeafCls] at h

theorem homothety_square (o : Op) (h : o.isHomothety = true) : Op.inS o = Op.outS o := by
  cases o with
  | leaf u c p => cases c <;> simp_all [isHomothety, isLeafCls, Op.inS, Op.outS, squareLeaf]
  | _ => simp [isHomothety, isLeafCls] at h

/-- `IdentityRule.apply` preserves typing and denotation -/
theorem identityRule_sound : L.toSem.ListSound identityRule := by
  intro ops s t hok h
  refine ⟨fun o ho => hok o (identityRule_mem ops o ho), ?_⟩
  induction ops generalizing t with
  | nil => exact ⟨h, fun _ _ => rfl⟩
  | cons o os ih =>
    obtain ⟨h1, h2⟩ := h
    have hok' : ∀ o' ∈ os, L.toSem.ok o' := fun o' ho' => hok o' (List.mem_cons_of_mem _ ho')
    obtain ⟨ihw, iha⟩ := ih _ hok' h2
    by_cases hid : o.isIdentity = true
    · have hrule : identityRule (o :: os) = identityRule os := by
        simp [identityRule, List.filter, hid]
      have hsq := identity_square o hid
      have hden := L.identity_law o hid
      rw [hrule]
      simp only [toSem_outS, toSem_inS] at h1 ihw
      constructor
      · rw [← h1, ← hsq]; exact ihw
      · intro x hx
        have hm : L.mem (Op.inS o) (L.toSem.app os x) := L.toSem.WT_mem _ _ _ hok' h2 x hx
        simp only [Sem.app, toSem_den]
        rw [hden _ hm]
        exact iha x hx
    · have hrule : identityRule (o :: os) = o :: identityRule os := by
        simp [identityRule, List.filter, hid]
      rw [hrule]
      exact ⟨⟨h1, ihw⟩, fun x hx => by simp only [Sem.app]; rw [iha x hx]⟩

/-- product of the scalar values of a chain, and the chain without its scalar operators -/
def valProd : List Op → Rat
  | [] => 1
  | o :: os => if o.isHomothety then homValue o * valProd os else valProd os

def strip (ops : List Op) : List Op := ops.filter (fun o => !o.isHomothety)

theorem foldl_mul_eq (l : List Op) (a : Rat) :
    l.foldl (fun acc o => acc * o.homValue) a = a * (l.map homValue).foldr (· * ·) 1 := by
  induction l generalizing a with
  | nil => simp [Rat.mul_one]
  | cons o os ih => simp only [List.foldl_cons, List.map_cons, List.foldr_cons, ih, Rat.mul_assoc]

theorem valProd_eq_foldl (ops : List Op) :
    (ops.filter isHomothety).foldl (fun acc o => acc * o.homValue) 1 = valProd ops := by
  rw [foldl_mul_eq, Rat.one_mul]
  induction ops with
  | nil => rfl
  | cons o os ih =>
    by_cases h : o.isHomothety = true
    · simp [List.filter, h, valProd, ih]
    · simp [List.filter, h, valProd, ih]

/-- a chain of (structurally well-formed, hence) homogeneous operators is homogeneous -/
theorem app_homogeneous (ops : List Op) (s t : Struct) (hok : ∀ o ∈ ops, StructOK o)
    (h : L.toSem.WT ops s t) (a : Rat) (x : V)
    (hx : L.mem s x) : L.toSem.app ops (L.smul a x) = L.smul a (L.toSem.app ops x) := by
  induction ops generalizing t with
  | nil => rfl
  | cons o os ih =>
    obtain ⟨_, h2⟩ := h
    have hok' : ∀ o' ∈ os, StructOK o' := fun o' ho' => hok o' (List.mem_cons_of_mem _ ho')
    simp only [Sem.app, toSem_den]
    rw [ih _ hok' h2, L.homogeneous o a _ (hok o List.mem_cons_self) (L.toSem.WT_mem _ _ _ hok' h2 x hx)]

theorem strip_mem (ops : List Op) (o : Op) (h : o ∈ strip ops) : o ∈ ops :=
  (List.mem_filter.mp h).1

/-- stripping the scalar operators: typing is kept and the scalars factor out -/
theorem strip_sound (ops : List Op) (s t : Struct) (hok : ∀ o ∈ ops, StructOK o) (h : L.toSem.WT ops s t) :
    L.toSem.WT (strip ops) s t ∧
    ∀ x, L.mem s x → L.toSem.app ops x = L.smul (valProd ops) (L.toSem.app (strip ops) x) := by
  induction ops generalizing t with
  | nil => exact ⟨h, fun x _ => by simp [Sem.app, valProd, strip, L.smul_one]⟩
  | cons o os ih =>
    obtain ⟨h1, h2⟩ := h
    have hok' : ∀ o' ∈ os, StructOK o' := fun o' ho' => hok o' (List.mem_cons_of_mem _ ho')
    obtain ⟨ihw, iha⟩ := ih _ hok' h2
    by_cases hh : o.isHomothety = true
    · have hsq := homothety_square o hh
      have hden := L.homothety_law o hh
      have hs : strip (o :: os) = strip os := by simp [strip, List.filter, hh]
      rw [hs]
      simp only [toSem_outS, toSem_inS] at h1 ihw
      constructor
      · rw [← h1, ← hsq]; exact ihw
      · intro x hx
        have hm := L.toSem.WT_mem _ _ _ hok' h2 x hx
        simp only [Sem.app, toSem_den, valProd, hh, if_true]
        rw [hden _ hm, iha x hx, L.smul_smul]
    · have hs : strip (o :: os) = o :: strip os := by simp [strip, List.filter, hh]
      rw [hs]
      refine ⟨⟨h1, ihw⟩, fun x hx => ?_⟩
      have hm := L.toSem.WT_mem _ _ _ (fun o' ho' => hok' o' (strip_mem os o' ho')) ihw x hx
      simp only [Sem.app, toSem_den, valProd, hh]
      rw [iha x hx]
      simp only [Bool.false_eq_true, if_false]
      exact L.homogeneous o _ _ (hok o List.mem_cons_self) hm

theorem WT_head (o : Op) (os : List Op) (s t : Struct) (h : L.toSem.WT (o :: os) s t) :
    Op.outS o = t := h.1

theorem WT_last (ops : List Op) (last : Op) (s t : Struct) (h : L.toSem.WT ops s t)
    (hl : ops.getLast? = some last) : Op.inS last = s := by
  induction ops generalizing t with
  | nil => simp at hl
  | cons o os ih =>
    obtain ⟨_, h2⟩ := h
    cases os with
    | nil =>
      simp at hl; subst hl
      simp [Sem.WT] at h2; exact h2.symm
    | cons o' os' =>
      rw [List.getLast?_cons_cons] at hl
      exact ih _ h2 hl

theorem mkHomothety_law (v : Rat) (s : Struct) :
    (mkHomothety v s).isHomothety = true ∧ Op.inS (mkHomothety v s) = s ∧
    Op.outS (mkHomothety v s) = s ∧ homValue (mkHomothety v s) = v := by
  simp [mkHomothety, isHomothety, isLeafCls, Op.inS, Op.outS, homValue, Tensor.scalar]

theorem homothetyRule_mem (ops : List Op) (o : Op) (h : o ∈ homothetyRule ops) :
    o ∈ ops ∨ ∃ v s, o = mkHomothety v s := by
  unfold homothetyRule at h
  split at h
  · simp only [] at h
    split at h
    · exact .inl h
    · split at h
      · exact .inl h
      · split at h
        · rw [List.mem_cons] at h
          rcases h with h | h
          · exact .inr ⟨_, _, h⟩
          · exact .inl (List.mem_filter.mp h).1
        · rw [List.mem_append] at h
          rcases h with h | h
          · exact .inl (List.mem_filter.mp h).1
          · rw [List.mem_singleton] at h
            exact .inr ⟨_, _, h⟩
  · exact .inl h

/-- `HomothetyRule.apply` preserves typing and denotation (any number of scalar factors, either side) -/
theorem homothetyRule_sound : L.toSem.ListSound homothetyRule := by
  intro ops s t hok h
  refine ⟨fun o ho => ?_, ?_⟩
  · rcases homothetyRule_mem ops o ho with h1 | ⟨v, s', rfl⟩
    · exact hok o h1
    · exact StructOK_mkHomothety v s'
  unfold homothetyRule
  split
  · rename_i first o2 rest last hlast
    simp only []
    split
    · exact ⟨h, fun _ _ => rfl⟩
    · split
      · exact ⟨h, fun _ _ => rfl⟩
      · obtain ⟨hsw, hsa⟩ := L.strip_sound _ s t hok h
        have hoks : ∀ o ∈ strip (first :: o2 :: rest), StructOK o :=
          fun o ho => hok o (strip_mem _ o ho)
        rw [valProd_eq_foldl]
        have hfirst : Op.outS first = t := L.WT_head _ _ _ _ h
        have hlst : Op.inS last = s := L.WT_last _ _ _ _ h hlast
        split
        · -- scalar on the left
          obtain ⟨hH, hI, hO, hV⟩ := mkHomothety_law (valProd (first :: o2 :: rest)) (Op.outS first)
          have hden := L.homothety_law _ hH
          refine ⟨⟨by rw [toSem_outS, hO, hfirst], by rw [toSem_inS, hI, hfirst]; exact hsw⟩, ?_⟩
          intro x hx
          have hm := L.toSem.WT_mem _ _ _ hoks hsw x hx
          rw [hsa x hx]
          show L.den _ (L.toSem.app (strip _) x) = _
          rw [hden _ (by rw [hI, hfirst]; exact hm), hV]
        · -- scalar on the right
          obtain ⟨hH, hI, hO, hV⟩ := mkHomothety_law (valProd (first :: o2 :: rest)) (Op.inS last)
          have hden := L.homothety_law _ hH
          constructor
          · rw [L.toSem.WT_append]
            refine ⟨s, ?_, hsw⟩
            show Op.outS _ = s ∧ s = Op.inS _
            rw [hO, hI, hlst]
            exact ⟨rfl, rfl⟩
          · intro x hx
            rw [hsa x hx, L.toSem.app_append]
            show L.toSem.app (strip _) (L.den _ x) = _
            rw [hden _ (by rw [hI, hlst]; exact hx), hV]
            exact L.app_homogeneous _ _ _ hoks hsw _ _ hx
  · exact ⟨h, fun _ _ => rfl⟩

/-- filtering identities out of a sound rule's output keeps it sound -/
theorem dropIdentities_sound (ru : BRule) (h : L.toSem.RuleSound ru) :
    L.toSem.RuleSound (dropIdentities ru) := by
  intro l r new hl hr hf hlr
  simp only [dropIdentities] at hf
  split at hf
  · rename_i new0 hf0
    simp only [Except.ok.injEq, Option.some.injEq] at hf
    subst hf
    obtain ⟨hk, hw, ha⟩ := h l r new0 hl hr hf0 hlr
    obtain ⟨hk', hw', ha'⟩ := L.identityRule_sound _ _ _ hk hw
    exact ⟨hk', hw', fun x hx => by rw [ha' x hx, ha x hx]⟩
  · rename_i hne
    exact absurd hf (hne new)

theorem cfg_rules_sound (red : Op → Except PyErr Op)
    (hr : ∀ ru ∈ binaryRules red, L.toSem.RuleSound ru) :
    ∀ ru ∈ (reductionCfg red).rules, L.toSem.RuleSound ru := by
  intro ru hm
  simp only [reductionCfg, List.mem_map] at hm
  obtain ⟨ru0, hm0, rfl⟩ := hm
  exact L.dropIdentities_sound ru0 (hr ru0 hm0)

theorem inSLast_eq_last (ops : List Op) (last : Op) (hl : ops.getLast? = some last) :
    inSLast ops = Op.inS last := by
  induction ops with
  | nil => simp at hl
  | cons o os ih =>
    cases os with
    | nil => simp at hl; subst hl; rfl
    | cons o' os' =>
      rw [List.getLast?_cons_cons] at hl
      simp only [inSLast]
      exact ih hl

/-- **`AlgebraicReductionRule.apply` is sound** for every chain of structurally well-formed operands, provided
every binary rule of the registry is (`RuleSound`); the empty result becomes an identity on the chain's input
structure. -/
theorem algebraicReduction_sound (red : Op → Except PyErr Op)
    (hr : ∀ ru ∈ binaryRules red, L.toSem.RuleSound ru)
    (ops res : List Op) (s t : Struct) (hok : ∀ o ∈ ops, StructOK o) (hwt : L.toSem.WT ops s t)
    (hres : algebraicReduction red ops = .ok res) :
    (∀ o ∈ res, StructOK o) ∧ L.toSem.WT res s t ∧
    ∀ x, L.mem s x → L.toSem.app res x = L.toSem.app ops x := by
  unfold algebraicReduction at hres
  split at hres
  · simp only [Except.ok.injEq] at hres; subst hres; exact ⟨hok, hwt, fun _ _ => rfl⟩
  · rename_i hlen
    simp only [] at hres
    obtain ⟨k1, w1, a1⟩ := L.identityRule_sound _ _ _ hok hwt
    obtain ⟨k2, w2, a2⟩ := L.homothetyRule_sound _ _ _ k1 w1
    split at hres
    · simp at hres
    · simp at hres
    · rename_i r hscan
      obtain ⟨k3, w3, a3⟩ := scan_sound L.toSem (reductionCfg red) (L.cfg_rules_sound red hr)
        L.homothetyRule_sound _ _ _ _ _ _ k2 w2 hscan
      have hall : ∀ x, L.mem s x → L.toSem.app r x = L.toSem.app ops x :=
        fun x hx => by rw [a3 x hx, a2 x hx, a1 x hx]
      split at hres
      · rename_i hemp
        simp only [Except.ok.injEq] at hres; subst hres
        have hr0 : r = [] := by simpa using hemp
        subst hr0
        simp only [Sem.WT] at w3
        -- the chain's input structure is that of its last operand
        have hne : ops ≠ [] := by intro h0; subst h0; simp at hlen
        obtain ⟨last, hl⟩ : ∃ last, ops.getLast? = some last := by
          cases hg : ops.getLast? with
          | none => simp [List.getLast?_eq_none_iff] at hg; exact absurd hg hne
          | some l => exact ⟨l, rfl⟩
        have hs : Op.inS last = s := L.WT_last _ _ _ _ hwt hl
        have hin : inSLast ops = s := by rw [← hs]; exact inSLast_eq_last _ _ hl
        have hidl := L.identity_law (mkIdentity (inSLast ops)) (by simp [mkIdentity, isIdentity, isLeafCls])
        have hI : Op.inS (mkIdentity (inSLast ops)) = s := by simp [mkIdentity, Op.inS, hin]
        have hO : Op.outS (mkIdentity (inSLast ops)) = s := by simp [mkIdentity, Op.outS, hin]
        refine ⟨?_, ⟨by rw [toSem_outS, hO, w3], by rw [toSem_inS, hI]; rfl⟩, fun x hx => ?_⟩
        · intro o ho
          rw [List.mem_singleton] at ho
          subst ho
          exact StructOK_mkIdentity _
        · simp only [Sem.app, toSem_den]
          rw [hidl x (by rw [hI]; exact hx)]
          exact hall x hx
      · simp only [Except.ok.injEq] at hres; subst hres
        exact ⟨k3, w3, hall⟩

end OpSem

/-! ### normal form of the concrete reduction -/

theorem filter_hom_strip (l : List Op) :
    List.filter isHomothety (List.filter (fun o => !o.isHomothety) l) = [] := by
  simp only [List.filter_eq_nil_iff, List.mem_filter]
  intro a ha; simpa using ha.2

theorem homothetyRule_homCount (ops : List Op) :
    ((homothetyRule ops).filter isHomothety).length ≤ 1 := by
  match ops with
  | [] => simp [homothetyRule]
  | [o] =>
    simp only [homothetyRule, List.filter]
    split <;> simp
  | first :: o2 :: rest =>
    obtain ⟨last, hl⟩ : ∃ last, (first :: o2 :: rest).getLast? = some last := by
      cases hg : (first :: o2 :: rest).getLast? with
      | none => simp at hg
      | some l => exact ⟨l, rfl⟩
    simp only [homothetyRule, hl]
    split
    · rename_i h0
      have : (List.filter isHomothety (first :: o2 :: rest)).length = 0 := by simpa using h0
      omega
    · split
      · rename_i h1
        simp only [Bool.and_eq_true, beq_iff_eq] at h1
        omega
      · split
        · rw [List.filter_cons_of_pos (OpSem.mkHomothety_law _ _).1, filter_hom_strip]
          simp
        · rw [List.filter_append, filter_hom_strip,
            List.filter_cons_of_pos (OpSem.mkHomothety_law _ _).1]
          simp

/-- **Normal form.**  Whatever `AlgebraicReductionRule.apply` returns, no adjacent pair of it fires any
registered rule, and it contains at most one scalar operator. -/
theorem algebraicReduction_normal (red : Op → Except PyErr Op) (ops res : List Op)
    (hlen : 2 ≤ ops.length) (hres : algebraicReduction red ops = .ok res) :
    Irreducible (reductionCfg red) res ∧ (res.filter isHomothety).length ≤ 1 := by
  unfold algebraicReduction at hres
  split at hres
  · omega
  · simp only [] at hres
    split at hres
    · simp at hres
    · simp at hres
    · rename_i r hscan
      have hirr := scan_irreducible (reductionCfg red) _ _ _ _ (by intro i _ hi; omega) hscan
      have hcnt := scan_homCount (reductionCfg red) (fun o => homothetyRule_homCount o) _ _ _ _
        (homothetyRule_homCount _) hscan
      split at hres
      · simp only [Except.ok.injEq] at hres; subst hres
        refine ⟨fun i hi => by simp at hi, ?_⟩
        simp [List.filter, mkIdentity, isHomothety, isLeafCls,
          show (LeafCls.homothety == LeafCls.identity) = false from rfl]
      · simp only [Except.ok.injEq] at hres; subst hres
        exact ⟨hirr, hcnt⟩

end Furax
