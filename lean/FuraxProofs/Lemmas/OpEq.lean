/-
Structural equality on the operator tree: `Op.beq` is reflexive and implies equality.
-/
import FuraxModel.Op
namespace Furax
namespace Op

mutual
theorem beq_eq : ∀ (a b : Op), Op.beq a b = true → a = b
  | .leaf u c p, .leaf u' c' p', h => by
      simp [Op.beq] at h; obtain ⟨⟨h1, h2⟩, h3⟩ := h; subst h1 h2 h3; rfl
  | .wrap u k o, .wrap u' k' o', h => by
      simp [Op.beq] at h; obtain ⟨⟨h1, h2⟩, h3⟩ := h
      have := beq_eq o o' h3; subst h1 h2 this; rfl
  | .comp u os, .comp u' os', h => by
      simp [Op.beq] at h; obtain ⟨h1, h3⟩ := h
      have := beqList_eq os os' h3; subst h1 this; rfl
  | .cont u k td os, .cont u' k' td' os', h => by
      simp [Op.beq] at h; obtain ⟨⟨⟨h1, h2⟩, h4⟩, h3⟩ := h
      have := beqList_eq os os' h3; subst h1 h2 h4 this; rfl
  | .leaf .., .wrap .., h | .leaf .., .comp .., h | .leaf .., .cont .., h
  | .wrap .., .leaf .., h | .wrap .., .comp .., h | .wrap .., .cont .., h
  | .comp .., .leaf .., h | .comp .., .wrap .., h | .comp .., .cont .., h
  | .cont .., .leaf .., h | .cont .., .wrap .., h | .cont .., .comp .., h => by simp [Op.beq] at h
theorem beqList_eq : ∀ (a b : List Op), Op.beqList a b = true → a = b
  | [], [], _ => rfl
  | a :: as, b :: bs, h => by
      simp [Op.beqList] at h
      rw [beq_eq a b h.1, beqList_eq as bs h.2]
  | [], _ :: _, h | _ :: _, [], h => by simp [Op.beqList] at h
end

mutual
theorem beq_refl : ∀ (a : Op), Op.beq a a = true
  | .leaf .. => by simp [Op.beq]
  | .wrap _ _ o => by simp [Op.beq, beq_refl o]
  | .comp _ os => by simp [Op.beq, beqList_refl os]
  | .cont _ _ _ os => by simp [Op.beq, beqList_refl os]
theorem beqList_refl : ∀ (a : List Op), Op.beqList a a = true
  | [] => rfl
  | a :: as => by simp [Op.beqList, beq_refl a, beqList_refl as]
end

/-- the model's `is`: whenever it answers yes the two terms are equal -/
theorem same_eq (a b : Op) (h : same a b = true) : a = b := by
  simp only [same, Bool.and_eq_true] at h
  exact beq_eq a b h.2

end Op
end Furax
