/-
Lemmas for `StokesLandscape.pixel2index` (FuraxModel/Landscape.lean): rounding half-to-even,
the mixed-radix bijection between in-map integer coordinates and `0 … N-1` (any number of
dimensions), `-1` for out-of-map coordinates, the index dtype choice and the coverage histogram.
-/
import FuraxModel.Landscape
import Mathlib.Algebra.Order.Ring.Rat
import Mathlib.Algebra.Order.Group.Abs
namespace Furax.Landscape

/-! ### 1. rounding -/

theorem round_int (n : Int) : roundHalfEven (n : Rat) = n := by
  unfold roundHalfEven
  simp only [Rat.floor_intCast]
  have : ((n : Rat) - (n : Rat)) = 0 := by grind
  rw [this]
  simp

theorem round_nearest_bounds (q : Rat) :
    -(1/2) ≤ (roundHalfEven q : Rat) - q ∧ (roundHalfEven q : Rat) - q ≤ 1/2 := by
  have h1 := Rat.floor_le q
  have h2 := Rat.lt_floor_add_one q
  unfold roundHalfEven
  simp only []
  split
  · grind
  · split
    · grind
    · split <;> grind

theorem round_nearest (q : Rat) : |(roundHalfEven q : Rat) - q| ≤ 1/2 :=
  abs_le.mpr (round_nearest_bounds q)

/-! ### 2. mixed radix -/

def mixedRadix : List Nat → List Int → Int
  | d :: ds, i :: is => i + d * mixedRadix ds is
  | _, _ => 0

def inRange : List Nat → List Int → Bool
  | [], [] => true
  | d :: ds, i :: is => decide (0 ≤ i) && decide (i < d) && inRange ds is
  | _, _ => false

theorem prodNat_foldl (ds : List Nat) (a : Nat) : ds.foldl (· * ·) a = a * prodNat ds := by
  unfold prodNat
  induction ds generalizing a with
  | nil => simp
  | cons d ds ih => simp only [List.foldl_cons]; rw [ih, ih (1 * d)]; simp [Nat.mul_assoc]

theorem prodNat_nil : prodNat [] = 1 := rfl

theorem prodNat_cons (d : Nat) (ds : List Nat) : prodNat (d :: ds) = d * prodNat ds := by
  show (d :: ds).foldl (· * ·) 1 = _
  rw [List.foldl_cons, prodNat_foldl]; simp

theorem accumulate_eq (ds : List Nat) (is : List Int) (h : ds.length = is.length)
    (acc : Int) (valid : Bool) (stride : Nat) :
    accumulate (is.zip ds) acc valid stride
      = (acc + stride * mixedRadix ds is, valid && inRange ds is) := by
  induction ds generalizing is acc valid stride with
  | nil =>
    cases is with
    | nil => simp [accumulate, mixedRadix, inRange]
    | cons i is => simp at h
  | cons d ds ih =>
    cases is with
    | nil => simp at h
    | cons i is =>
      simp only [List.length_cons, Nat.add_right_cancel_iff] at h
      simp only [List.zip_cons_cons, accumulate, mixedRadix, inRange]
      rw [ih is h]
      refine Prod.ext ?_ ?_
      · simp only [Int.natCast_mul]; grind
      · simp [Bool.and_assoc]

theorem pixel2indexInt_inRange (ds : List Nat) (is : List Int) (h : ds.length = is.length)
    (hne : ds ≠ []) (hr : inRange ds is = true) :
    pixel2indexInt ds is = some (mixedRadix ds is) := by
  cases ds with
  | nil => exact absurd rfl hne
  | cons d ds =>
    cases is with
    | nil => simp at h
    | cons i is =>
      simp only [List.length_cons, Nat.add_right_cancel_iff] at h
      simp only [pixel2indexInt, accumulate_eq ds is h, mixedRadix]
      simp only [inRange] at hr
      simp [hr]

theorem pixel2indexInt_outside (ds : List Nat) (is : List Int) (h : ds.length = is.length)
    (hne : ds ≠ []) (hr : inRange ds is = false) :
    pixel2indexInt ds is = some (-1) := by
  cases ds with
  | nil => exact absurd rfl hne
  | cons d ds =>
    cases is with
    | nil => simp at h
    | cons i is =>
      simp only [List.length_cons, Nat.add_right_cancel_iff] at h
      simp only [pixel2indexInt, accumulate_eq ds is h]
      simp only [inRange] at hr
      simp [hr]

theorem mixedRadix_bounds (ds : List Nat) (is : List Int) (h : ds.length = is.length)
    (hr : inRange ds is = true) :
    0 ≤ mixedRadix ds is ∧ mixedRadix ds is < (prodNat ds : Int) := by
  induction ds generalizing is with
  | nil =>
    cases is with
    | nil => simp [mixedRadix, prodNat_nil]
    | cons i is => simp at h
  | cons d ds ih =>
    cases is with
    | nil => simp at h
    | cons i is =>
      simp only [List.length_cons, Nat.add_right_cancel_iff] at h
      simp only [inRange, Bool.and_eq_true, decide_eq_true_eq] at hr
      obtain ⟨⟨hi0, hid⟩, hr'⟩ := hr
      obtain ⟨m0, mP⟩ := ih is h hr'
      simp only [mixedRadix, prodNat_cons, Int.natCast_mul]
      have hd : (0 : Int) ≤ d := Int.natCast_nonneg d
      constructor
      · have := Int.mul_nonneg hd m0
        omega
      · have h1 : (d : Int) * (mixedRadix ds is + 1) ≤ d * (prodNat ds : Int) :=
          Int.mul_le_mul_of_nonneg_left (by omega) hd
        rw [Int.mul_add] at h1
        omega


theorem inRange_length (ds : List Nat) (is : List Int) (hr : inRange ds is = true) :
    ds.length = is.length := by
  induction ds generalizing is with
  | nil => cases is <;> simp_all [inRange]
  | cons d ds ih =>
    cases is with
    | nil => simp [inRange] at hr
    | cons i is =>
      simp only [inRange, Bool.and_eq_true] at hr
      simp [ih is hr.2]

theorem mixedRadix_injective (ds : List Nat) (is js : List Int)
    (hi : inRange ds is = true) (hj : inRange ds js = true)
    (heq : mixedRadix ds is = mixedRadix ds js) : is = js := by
  induction ds generalizing is js with
  | nil =>
    cases is <;> cases js <;> simp_all [inRange]
  | cons d ds ih =>
    cases is with
    | nil => simp [inRange] at hi
    | cons i is =>
      cases js with
      | nil => simp [inRange] at hj
      | cons j js =>
        simp only [inRange, Bool.and_eq_true, decide_eq_true_eq] at hi hj
        obtain ⟨⟨hi0, hid⟩, hi'⟩ := hi
        obtain ⟨⟨hj0, hjd⟩, hj'⟩ := hj
        simp only [mixedRadix] at heq
        have hd : (d : Int) ≠ 0 := by omega
        have e1 : (i + d * mixedRadix ds is) % d = i := by
          rw [Int.add_mul_emod_self_left]; exact Int.emod_eq_of_lt hi0 hid
        have e2 : (j + d * mixedRadix ds js) % d = j := by
          rw [Int.add_mul_emod_self_left]; exact Int.emod_eq_of_lt hj0 hjd
        have hij : i = j := by rw [← e1, ← e2, heq]
        subst hij
        have hm : (d : Int) * mixedRadix ds is = d * mixedRadix ds js := by omega
        have hm' := Int.eq_of_mul_eq_mul_left hd hm
        rw [ih is js hi' hj' hm']

theorem mixedRadix_surjective (ds : List Nat) (p : Int) (h0 : 0 ≤ p) (h1 : p < (prodNat ds : Int)) :
    ∃ is : List Int, is.length = ds.length ∧ inRange ds is = true ∧ mixedRadix ds is = p := by
  induction ds generalizing p with
  | nil =>
    refine ⟨[], rfl, rfl, ?_⟩
    simp only [prodNat_nil] at h1
    simp only [mixedRadix]; omega
  | cons d ds ih =>
    simp only [prodNat_cons, Int.natCast_mul] at h1
    have hd : (0 : Int) < d := by
      rcases Nat.eq_zero_or_pos d with h | h
      · subst h; simp at h1; omega
      · exact Int.natCast_pos.mpr h
    have q0 : 0 ≤ p / d := Int.ediv_nonneg h0 (Int.le_of_lt hd)
    have q1 : p / d < (prodNat ds : Int) := Int.ediv_lt_of_lt_mul hd (by rw [Int.mul_comm]; exact h1)
    obtain ⟨is, hl, hr, hm⟩ := ih (p / d) q0 q1
    refine ⟨(p % d) :: is, by simp [hl], ?_, ?_⟩
    · simp only [inRange, Bool.and_eq_true, decide_eq_true_eq]
      exact ⟨⟨Int.emod_nonneg _ (by omega), Int.emod_lt_of_pos _ hd⟩, hr⟩
    · simp only [mixedRadix, hm]
      exact Int.emod_add_mul_ediv p d

/-! ### 3. index dtype -/

theorem indexDType_wide_enough (n : Nat) :
    (indexDType n = .i32 → (n : Int) - 1 ≤ 2^31 - 1) ∧
    (indexDType n = .i64 ↔ (n : Int) - 1 > 2^31 - 1) := by
  have e : (2 : Int)^31 - 1 = 2147483647 := by decide
  rw [e]
  unfold indexDType
  split <;> simp <;> omega

/-! ### 4. coverage -/

/-- total of the counts -/
def sumCounts (l : List (Int × Nat)) : Nat := (l.map (·.2)).sum

theorem foldl_counts (l : List (Int × Nat)) (a : Nat) :
    l.foldl (fun a (u : Int × Nat) => a + u.2) a = a + sumCounts l := by
  induction l generalizing a with
  | nil => simp [sumCounts]
  | cons u l ih => simp only [List.foldl_cons, ih, sumCounts, List.map_cons, List.sum_cons]; omega

theorem sumCounts_filter_insertCount (P : Int → Bool) (v : Int) (l : List (Int × Nat)) :
    sumCounts ((insertCount v l).filter fun u => P u.1)
      = (if P v then 1 else 0) + sumCounts (l.filter fun u => P u.1) := by
  induction l with
  | nil => cases hv : P v <;> simp [insertCount, sumCounts, List.filter, hv]
  | cons u l ih =>
    obtain ⟨w, c⟩ := u
    simp only [insertCount]
    split
    · cases hv : P v <;> cases hw : P w <;> simp [sumCounts, List.filter, hv, hw]
    · split
      · rename_i h; subst h
        cases hv : P v <;> simp [sumCounts, List.filter, hv] ; omega
      · simp only [List.filter_cons]
        cases hw : P w
        · simp [ih]
        · simp [sumCounts] at ih ⊢; rw [ih]; omega

theorem sumCounts_filter_uniqueCounts (P : Int → Bool) (xs : List Int) :
    sumCounts ((uniqueCounts xs).filter fun u => P u.1) = (xs.filter P).length := by
  induction xs with
  | nil => simp [uniqueCounts, sumCounts]
  | cons x xs ih =>
    have : uniqueCounts (x :: xs) = insertCount x (uniqueCounts xs) := rfl
    rw [this, sumCounts_filter_insertCount, ih, List.filter_cons]
    cases P x <;> simp +arith

theorem coverage_eq (n : Nat) (idx : List Int) :
    coverage n idx = (List.range n).map fun (p : Nat) =>
      (idx.filter (fun i => normIdx n i = Int.ofNat p)).length := by
  unfold coverage scatterAddCounts
  apply List.map_congr_left
  intro p _
  rw [foldl_counts, Nat.zero_add]
  exact sumCounts_filter_uniqueCounts (fun i => decide (normIdx n i = Int.ofNat p)) idx

theorem coverage_count (n : Nat) (idx : List Int) (p : Nat) (hp : p < n) :
    (coverage n idx).getD p 0 = (idx.filter (fun i => normIdx n i = Int.ofNat p)).length := by
  rw [coverage_eq]
  simp [List.getD, hp]

theorem indicator_sum (n : Nat) (k : Int) :
    ((List.range n).map fun (p : Nat) => if k = Int.ofNat p then 1 else 0).sum
      = if 0 ≤ k ∧ k < n then 1 else 0 := by
  induction n with
  | zero => simp
  | succ n ih =>
    rw [List.range_succ, List.map_append, List.sum_append, ih]
    simp only [List.map_cons, List.map_nil, List.sum_cons, List.sum_nil, Int.ofNat_eq_natCast]
    split <;> split <;> split <;> omega

theorem sum_map_add' (l : List Nat) (f g : Nat → Nat) :
    (l.map fun p => f p + g p).sum = (l.map f).sum + (l.map g).sum := by
  induction l with
  | nil => simp
  | cons a l ih => simp only [List.map_cons, List.sum_cons, ih]; omega

theorem sum_map_zero (l : List Nat) : (l.map fun _ => 0).sum = 0 := by
  induction l with
  | nil => simp
  | cons a l ih => simp only [List.map_cons, List.sum_cons, ih]

theorem coverage_sum (n : Nat) (idx : List Int) (h : ∀ i ∈ idx, 0 ≤ i ∧ i < (n : Int)) :
    (coverage n idx).sum = idx.length := by
  rw [coverage_eq]
  induction idx with
  | nil => simp [sum_map_zero]
  | cons i idx ih =>
    have hi := h i (by simp)
    have ih' := ih (fun j hj => h j (by simp [hj]))
    have hn : normIdx n i = i := by unfold normIdx; split <;> omega
    have : (fun (p : Nat) => ((i :: idx).filter (fun i => normIdx n i = Int.ofNat p)).length)
        = fun (p : Nat) => (idx.filter (fun i => normIdx n i = Int.ofNat p)).length
            + (if i = Int.ofNat p then 1 else 0) := by
      funext p
      rw [List.filter_cons, hn]
      split <;> simp_all
    rw [this, sum_map_add', ih', indicator_sum]
    simp [hi]


end Furax.Landscape
