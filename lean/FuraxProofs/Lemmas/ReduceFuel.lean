/-
Recursion fuel of `reduce` (follow-up of Props/C01Terminates.lean).

* `reduce_leaf_ne_fuel`, `reduce_wrap_ne_fuel` — leaves and wrappers need fuel 1 (`reduce` does not look inside a wrapper);
* `reduce_cont_fuel_source` — a `.fuel` answer on a container (sum or block operator) is the `.fuel` answer of the
  recursive call on one of ITS OPERANDS (membership, which `reduce_fuel_source` does not give);
* `compFree` — expressions without `CompositionOperator` nodes outside wrappers; `reduce_compFree_ne_fuel`:
  for them fuel `depth` is enough (the block rules are never reached: they only fire inside a composition).
-/
import FuraxModel.Reduce
import FuraxProofs.Props.C01Terminates
namespace Furax
open Op

theorem reduce_leaf_ne_fuel (f u : Nat) (c : LeafCls) (p : Params) :
    reduce (f + 1) (.leaf u c p) ≠ .error .fuel := by
  intro h
  unfold reduce at h
  split at h
  · split at h <;> cases h
  · split at h <;> cases h
  · split at h <;> cases h
  · cases h
  all_goals rename_i heq; cases heq

theorem reduce_wrap_ne_fuel (f u : Nat) (k : WrapCls) (o : Op) :
    reduce (f + 1) (.wrap u k o) ≠ .error .fuel := by
  intro h
  unfold reduce at h
  split at h
  all_goals first | (rename_i heq; cases heq; done) | cases h

/-- a container runs out of fuel only through one of its own operands -/
theorem reduce_cont_fuel_source (f u : Nat) (k : ContCls) (td : TreeDef) (ops : List Op)
    (h : reduce (f + 1) (.cont u k td ops) = .error .fuel) : ∃ x ∈ ops, reduce f x = .error .fuel := by
  unfold reduce at h
  split at h
  all_goals first | (rename_i heq; cases heq; done) | skip
  · rename_i heq; cases heq
    simp only [bind, Except.bind] at h
    split at h
    · rename_i e hm
      cases h
      exact C01.mapM_error _ _ _ hm
    · repeat' split at h
      all_goals simp [pure, Except.pure] at h
  · rename_i heq; cases heq
    simp only [bind, Except.bind] at h
    split at h
    · rename_i e hm
      cases h
      exact C01.mapM_error _ _ _ hm
    · repeat' split at h
      all_goals simp [pure, Except.pure] at h

/-- no `CompositionOperator` node (outside wrappers, which `reduce` does not open) -/
def compFree : Op → Bool
  | .leaf .. => true
  | .wrap .. => true
  | .comp .. => false
  | .cont _ _ _ ops => compFreeList ops
where compFreeList : List Op → Bool
  | [] => true
  | o :: os => compFree o && compFreeList os

theorem compFreeList_mem {ops : List Op} (h : compFree.compFreeList ops = true) {x : Op} (hx : x ∈ ops) :
    compFree x = true := by
  induction ops with
  | nil => cases hx
  | cons o os ih =>
    simp only [compFree.compFreeList, Bool.and_eq_true] at h
    rcases List.mem_cons.mp hx with rfl | hm
    · exact h.1
    · exact ih h.2 hm

theorem depth_le_depthList {ops : List Op} {x : Op} (hx : x ∈ ops) : x.depth ≤ Op.depth.depthList ops := by
  induction ops with
  | nil => cases hx
  | cons o os ih =>
    simp only [Op.depth.depthList]
    rcases List.mem_cons.mp hx with rfl | hm
    · exact Nat.le_max_left _ _
    · exact Nat.le_trans (ih hm) (Nat.le_max_right _ _)

theorem depth_pos (o : Op) : 1 ≤ o.depth := by
  cases o <;> simp only [Op.depth] <;> omega

/-- without compositions, fuel `depth` is enough -/
theorem reduce_compFree_ne_fuel : ∀ (f : Nat) (o : Op), compFree o = true → o.depth ≤ f →
    reduce f o ≠ .error .fuel := by
  intro f
  induction f with
  | zero => intro o _ hd; have := depth_pos o; omega
  | succ f ih =>
    intro o hc hd
    match o, hc, hd with
    | .leaf u c p, _, _ => exact reduce_leaf_ne_fuel f u c p
    | .wrap u k o', _, _ => exact reduce_wrap_ne_fuel f u k o'
    | .comp u ops, hc, _ => simp [compFree] at hc
    | .cont u k td ops, hc, hd =>
      intro h
      obtain ⟨x, hx, hfx⟩ := reduce_cont_fuel_source f u k td ops h
      simp only [compFree] at hc
      simp only [Op.depth] at hd
      have := depth_le_depthList hx
      exact ih x (compFreeList_mem hc hx) (by omega) hfx

/-! ### the shape of the non-structural recursive calls (copy of the proofs of Props/C01Terminates.lean with the
argument of `red` exposed): the only calls of `red` made by the loop are on FRESH containers `.cont 0 k td prods` -/

/-- a registered rule raises `.fuel` only if the inner `red` of a block rule did -/
theorem binaryRules_fuel_shape (red : Op → Except PyErr Op) (ru : BRule) (hru : ru ∈ binaryRules red)
    (l r : Op) (h : ru.fire l r = .error .fuel) : ∃ k td prods, red (.cont 0 k td prods) = .error .fuel := by
  simp only [binaryRules, List.mem_cons, List.not_mem_nil, or_false] at hru
  have hblock : ∀ name lk rk res, (blockRule red name lk rk res).fire l r = .error .fuel →
      ∃ k td prods, red (.cont 0 k td prods) = .error .fuel := by
    intro name lk rk res h
    simp only [blockRule] at h
    split at h
    · split at h
      · split at h
        · cases h
        · simp only [bind, Except.bind] at h
          split at h
          · rename_i e hm
            cases h
            obtain ⟨p, _, hp⟩ := C01.mapM_error _ _ _ hm
            exact absurd hp (C01.pyMatmul_ne_fuel _ _)
          · split at h
            · rename_i e hr; cases h; exact ⟨_, _, _, hr⟩
            · simp [pure, Except.pure] at h
      · cases h
    · cases h
  rcases hru with rfl | rfl | rfl | rfl | rfl | rfl | rfl | rfl | rfl | rfl | rfl | rfl | rfl
  · exfalso
    simp only [inverseBinaryRule] at h
    repeat' split at h
    all_goals cases h
  · exfalso
    simp only [moveAxisInverseRule] at h
    repeat' split at h
    all_goals cases h
  · exfalso
    simp only [reshapeInverseRule] at h
    repeat' split at h
    all_goals cases h
  · exfalso
    simp only [packUnpackRule] at h
    repeat' split at h
    all_goals cases h
  · exact hblock _ _ _ _ h
  · exact hblock _ _ _ _ h
  · exact hblock _ _ _ _ h
  · exact hblock _ _ _ _ h
  · exfalso
    simp only [indexTransposeRule] at h
    repeat' split at h
    all_goals cases h
  · exfalso
    simp only [transposeIndexRule] at h
    repeat' split at h
    all_goals cases h
  · exfalso
    simp only [quRotationRule] at h
    split at h
    · cases h
    · split at h
      · cases h
      · split at h
        · rename_i e he
          cases h
          repeat' split at he
          all_goals exact C01.tensorOp_ne_fuel _ _ _ he
        · cases h
  · exfalso
    simp only [quRotationHWPRule] at h
    repeat' split at h
    all_goals cases h
  · exfalso
    simp only [linearPolarizerHWPRule] at h
    repeat' split at h
    all_goals cases h

theorem reductionCfg_fuel_shape (red : Op → Except PyErr Op) (l r : Op)
    (h : fireFirst (reductionCfg red).rules l r = .error .fuel) : ∃ k td prods, red (.cont 0 k td prods) = .error .fuel := by
  obtain ⟨ru, hm, hf⟩ := fireFirst_error _ l r _ h
  simp only [reductionCfg, List.mem_map] at hm
  obtain ⟨ru0, hm0, rfl⟩ := hm
  simp only [dropIdentities] at hf
  split at hf
  · cases hf
  · exact binaryRules_fuel_shape red ru0 hm0 l r hf

/-- **(3)** `algebraicReduction` answers `.error .fuel` only when the inner `red` did, on some operator:
the loop itself never runs out of fuel. -/
theorem algebraicReduction_fuel_shape (red : Op → Except PyErr Op) (ops : List Op)
    (h : algebraicReduction red ops = .error .fuel) : ∃ k td prods, red (.cont 0 k td prods) = .error .fuel := by
  unfold algebraicReduction at h
  split at h
  · cases h
  · dsimp only at h
    split at h
    · rename_i e he
      cases h
      obtain ⟨l, r, hlr⟩ := scan_error _ _ _ _ _ he
      exact reductionCfg_fuel_shape red l r hlr
    · rename_i hn
      exact absurd hn (C01.scanFuel_enough red _)
    · split at h <;> cases h


/-- a composition runs out of fuel through one of its operands, or through the `reduce` of a fresh block
container built by a block rule -/
theorem reduce_comp_fuel_source (f u : Nat) (ops : List Op) (h : reduce (f + 1) (.comp u ops) = .error .fuel) :
    (∃ x ∈ ops, reduce f x = .error .fuel) ∨ (∃ k td prods, reduce f (.cont 0 k td prods) = .error .fuel) := by
  unfold reduce at h
  split at h
  all_goals first | (rename_i heq; cases heq; done) | skip
  rename_i heq; cases heq
  simp only [bind, Except.bind] at h
  split at h
  · rename_i e hm
    cases h
    exact .inl (C01.mapM_error _ _ _ hm)
  · split at h
    · rename_i e ha
      cases h
      exact .inr (algebraicReduction_fuel_shape _ _ ha)
    · repeat' split at h
      all_goals simp [pure, Except.pure] at h

end Furax
