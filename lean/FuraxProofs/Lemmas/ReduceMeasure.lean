/-
The measures that make the registered rule set (`reductionCfg red`, FuraxModel/Reduce.lean) terminate, for an
ARBITRARY inner `red : Op → Except PyErr Op` of the block rules.

* `rotLike o`  — `o` is a `QURotationOperator` or a `QURotationTransposeOperator` wrapper (the left operands
                 of `QURotationHWPRule`);
* `hwpCored o` — `o` is a half-wave plate under any number of `QURotationTransposeOperator` wrappers
                 (the model's `Op` does not force the wrapped operator to be a rotation, and
                 `QURotationHWPRule` unwraps: `[W(x), H] → [H, x]`, so a wrapped plate can become a plate);
* `inv ops`    — number of pairs `i < j` with `ops[i]` rotation-like and `ops[j]` plate-cored;
* `mu ops = inv ops + tri ops.length` (`tri n = n (n-1) / 2`): every firing strictly decreases it.  A firing
  that shortens the chain may create at most `length' - 1` new inversions (the block rules may output
  ANYTHING), which the triangular number pays for; the commutation `[R, H] → [H, R']` keeps the length and
  removes one inversion;
* `nu ops = ops.length + #rotLike`: never increases, strictly decreases at each restart.
-/
import FuraxModel.Reduce
import FuraxProofs.Lemmas.ScanTerminates
namespace Furax
open Op

def rotLike (o : Op) : Bool := o.isQURot || o.isQURotT

def hwpCored : Op → Bool
  | .leaf _ c _ => c == .hwp
  | .wrap _ .qurotT o => hwpCored o
  | _ => false

def cntA (ops : List Op) : Nat := ops.countP rotLike
def cntB (ops : List Op) : Nat := ops.countP hwpCored

def inv : List Op → Nat
  | [] => 0
  | o :: os => (if rotLike o then cntB os else 0) + inv os

def tri : Nat → Nat
  | 0 => 0
  | n+1 => tri n + n

def mu (ops : List Op) : Nat := inv ops + tri ops.length
def nu (ops : List Op) : Nat := ops.length + cntA ops

/-! ### arithmetic of the measures -/

theorem tri_mono {a b : Nat} (h : a ≤ b) : tri a ≤ tri b := by
  induction h with
  | refl => exact Nat.le_refl _
  | step _ ih => exact Nat.le_trans ih (Nat.le_add_right _ _)

theorem two_tri (n : Nat) : 2 * tri n + n = n * n := by
  induction n with
  | zero => rfl
  | succ n ih =>
    simp only [tri, Nat.succ_mul, Nat.mul_succ]
    omega

theorem cntA_le (ops : List Op) : cntA ops ≤ ops.length := List.countP_le_length
theorem cntB_le (ops : List Op) : cntB ops ≤ ops.length := List.countP_le_length

theorem cntA_append (a b : List Op) : cntA (a ++ b) = cntA a + cntA b := List.countP_append
theorem cntB_append (a b : List Op) : cntB (a ++ b) = cntB a + cntB b := List.countP_append

theorem inv_le_tri (ops : List Op) : inv ops ≤ tri ops.length := by
  induction ops with
  | nil => exact Nat.le_refl _
  | cons o os ih =>
    simp only [inv, List.length_cons, tri]
    have := cntB_le os
    split <;> omega

theorem inv_append (a b : List Op) : inv (a ++ b) = inv a + inv b + cntA a * cntB b := by
  induction a with
  | nil => simp [inv, cntA]
  | cons o os ih =>
    simp only [List.cons_append, inv, ih, cntB_append]
    by_cases h : rotLike o = true
    · have : cntA (o :: os) = cntA os + 1 := by simp [cntA, h]
      rw [this, Nat.succ_mul]; simp only [h, if_true]; omega
    · have : cntA (o :: os) = cntA os := by simp [cntA, h]
      rw [this]; simp only [h]; simp

/-- the measures of a chain `a ++ m ++ z` in terms of those of the parts -/
theorem inv_three (a m z : List Op) :
    inv (a ++ m ++ z) = inv a + inv m + inv z + cntA a * cntB m + cntA a * cntB z + cntA m * cntB z := by
  rw [inv_append, inv_append, cntA_append, Nat.add_mul]; omega

/-! ### class facts -/

theorem isHWP_facts {o : Op} (h : o.isHWP = true) :
    rotLike o = false ∧ hwpCored o = true ∧ o.isHomothety = false ∧ o.isIdentity = false := by
  cases o with
  | leaf u c p =>
    simp only [isHWP, isLeafCls, beq_iff_eq] at h; subst h
    simp [rotLike, isQURot, isQURotT, isLeafCls, isWrapCls, hwpCored, isHomothety, isIdentity]
  | _ => simp [isHWP, isLeafCls] at h

theorem isHomothety_facts {o : Op} (h : o.isHomothety = true) :
    rotLike o = false ∧ hwpCored o = false := by
  cases o with
  | leaf u c p =>
    simp only [isHomothety, isLeafCls, beq_iff_eq] at h; subst h
    simp [rotLike, isQURot, isQURotT, isLeafCls, isWrapCls, hwpCored]
  | _ => simp [isHomothety, isLeafCls] at h

theorem mkHomothety_facts (v : Rat) (s : Struct) :
    rotLike (mkHomothety v s) = false ∧ hwpCored (mkHomothety v s) = false :=
  isHomothety_facts (by simp [mkHomothety, isHomothety, isLeafCls])

/-! ### what a firing may output -/

/-- the output of a rule on the pair `(l, r)`: at most one operand, or the rotation/plate commutation
`[r, o]` with `l` rotation-like, `r` a plate, and `o` plate-cored only if `l` was -/
def GoodOut (l r : Op) (new : List Op) : Prop :=
  new.length ≤ 1 ∨
    ∃ o, new = [r, o] ∧ rotLike l = true ∧ r.isHWP = true ∧ (hwpCored o = true → hwpCored l = true)

theorem GoodOut.identityRule {l r : Op} {new : List Op} (h : GoodOut l r new) :
    GoodOut l r (identityRule new) := by
  rcases h with h | ⟨o, rfl, h1, h2, h3⟩
  · exact .inl (Nat.le_trans (List.length_filter_le _ _) h)
  · have hr := (isHWP_facts h2).2.2.2
    by_cases ho : o.isIdentity = true
    · left; simp [Furax.identityRule, hr, ho]
    · right; exact ⟨o, by simp [Furax.identityRule, hr, ho], h1, h2, h3⟩

/-! ### every registered rule has a good output -/

theorem good_inverseBinaryRule (l r : Op) (new : List Op)
    (h : inverseBinaryRule.fire l r = .ok (some new)) : GoodOut l r new := by
  left
  simp only [inverseBinaryRule] at h
  repeat' split at h
  all_goals first | (cases h; simp) | cases h

theorem good_moveAxisInverseRule (l r : Op) (new : List Op)
    (h : moveAxisInverseRule.fire l r = .ok (some new)) : GoodOut l r new := by
  left
  simp only [moveAxisInverseRule] at h
  repeat' split at h
  all_goals first | (cases h; simp) | cases h

theorem good_reshapeInverseRule (l r : Op) (new : List Op)
    (h : reshapeInverseRule.fire l r = .ok (some new)) : GoodOut l r new := by
  left
  simp only [reshapeInverseRule] at h
  repeat' split at h
  all_goals first | (cases h; simp) | cases h

theorem good_packUnpackRule (l r : Op) (new : List Op)
    (h : packUnpackRule.fire l r = .ok (some new)) : GoodOut l r new := by
  left
  simp only [packUnpackRule] at h
  repeat' split at h
  all_goals first | (cases h; simp) | cases h

theorem good_indexTransposeRule (l r : Op) (new : List Op)
    (h : indexTransposeRule.fire l r = .ok (some new)) : GoodOut l r new := by
  left
  simp only [indexTransposeRule] at h
  repeat' split at h
  all_goals first | (cases h; simp) | cases h

theorem good_transposeIndexRule (l r : Op) (new : List Op)
    (h : transposeIndexRule.fire l r = .ok (some new)) : GoodOut l r new := by
  left
  simp only [transposeIndexRule] at h
  repeat' split at h
  all_goals first | (cases h; simp) | cases h

theorem good_quRotationRule (l r : Op) (new : List Op)
    (h : quRotationRule.fire l r = .ok (some new)) : GoodOut l r new := by
  left
  simp only [quRotationRule] at h
  repeat' split at h
  all_goals first | (cases h; simp) | cases h

theorem good_linearPolarizerHWPRule (l r : Op) (new : List Op)
    (h : linearPolarizerHWPRule.fire l r = .ok (some new)) : GoodOut l r new := by
  left
  simp only [linearPolarizerHWPRule] at h
  repeat' split at h
  all_goals first | (cases h; simp) | cases h

theorem good_blockRule (red : Op → Except PyErr Op) (name : String) (lk rk res : ContCls)
    (l r : Op) (new : List Op)
    (h : (blockRule red name lk rk res).fire l r = .ok (some new)) : GoodOut l r new := by
  left
  simp only [blockRule] at h
  split at h
  · split at h
    · split at h
      · cases h
      · simp only [bind, Except.bind] at h
        split at h
        · cases h
        · split at h
          · cases h
          · simp only [pure, Except.pure] at h
            cases h; simp
    · cases h
  · cases h

theorem good_quRotationHWPRule (l r : Op) (new : List Op)
    (h : quRotationHWPRule.fire l r = .ok (some new)) : GoodOut l r new := by
  simp only [quRotationHWPRule] at h
  split at h
  · cases h
  · rename_i hl
    split at h
    · cases h
    · rename_i hr
      have hl' : rotLike l = true := by
        cases h1 : rotLike l
        · rw [rotLike] at h1; rw [h1] at hl; simp at hl
        · rfl
      have hr' : r.isHWP = true := by simpa using hr
      right
      split at h
      · rename_i u k o
        cases h
        refine ⟨o, rfl, hl', hr', ?_⟩
        have hk : k = .qurotT := by
          have := hl'
          simp [rotLike, isQURot, isQURotT, isLeafCls, isWrapCls] at this
          exact this.symm
        subst hk
        intro ho; simpa [hwpCored] using ho
      · rename_i hnw
        cases h
        refine ⟨_, rfl, hl', hr', ?_⟩
        intro ho
        cases l with
        | leaf u c p => simpa [hwpCored] using ho
        | wrap u k o => exact absurd rfl (hnw u k o)
        | comp u os => simp [rotLike, isQURot, isQURotT, isLeafCls, isWrapCls] at hl'
        | cont u k td os => simp [rotLike, isQURot, isQURotT, isLeafCls, isWrapCls] at hl'

theorem good_binaryRules (red : Op → Except PyErr Op) (ru : BRule) (hru : ru ∈ binaryRules red)
    (l r : Op) (new : List Op) (h : ru.fire l r = .ok (some new)) : GoodOut l r new := by
  simp only [binaryRules, List.mem_cons, List.not_mem_nil, or_false] at hru
  rcases hru with rfl | rfl | rfl | rfl | rfl | rfl | rfl | rfl | rfl | rfl | rfl | rfl | rfl
  · exact good_inverseBinaryRule l r new h
  · exact good_moveAxisInverseRule l r new h
  · exact good_reshapeInverseRule l r new h
  · exact good_packUnpackRule l r new h
  · exact good_blockRule red _ _ _ _ l r new h
  · exact good_blockRule red _ _ _ _ l r new h
  · exact good_blockRule red _ _ _ _ l r new h
  · exact good_blockRule red _ _ _ _ l r new h
  · exact good_indexTransposeRule l r new h
  · exact good_transposeIndexRule l r new h
  · exact good_quRotationRule l r new h
  · exact good_quRotationHWPRule l r new h
  · exact good_linearPolarizerHWPRule l r new h

theorem good_dropIdentities (ru : BRule) (l r : Op)
    (hru : ∀ new, ru.fire l r = .ok (some new) → GoodOut l r new) (new : List Op)
    (h : (dropIdentities ru).fire l r = .ok (some new)) : GoodOut l r new := by
  simp only [dropIdentities] at h
  split at h
  · rename_i n hf
    cases h
    exact (hru n hf).identityRule
  · rename_i hne
    exact absurd h (hne new)

/-- every firing of the registered rule set has a good output -/
theorem good_reductionCfg (red : Op → Except PyErr Op) (l r : Op) (new : List Op)
    (h : fireFirst (reductionCfg red).rules l r = .ok (some new)) : GoodOut l r new := by
  obtain ⟨ru, hm, hf⟩ := fireFirst_some _ l r new h
  simp only [reductionCfg, List.mem_map] at hm
  obtain ⟨ru0, hm0, rfl⟩ := hm
  exact good_dropIdentities ru0 l r (fun n hn => good_binaryRules red ru0 hm0 l r n hn) new hf

/-! ### a good output decreases the measures -/

theorem inv_short {m : List Op} (h : m.length ≤ 1) : inv m = 0 := by
  match m, h with
  | [], _ => rfl
  | [o], _ => simp [inv, cntB]

theorem splice_decomp (ops : List Op) (i : Nat) (h : i + 1 < ops.length) :
    ops = ops.take i ++ [ops[i], ops[i+1]] ++ ops.drop (i + 2) := by
  have h1 : ops.drop i = ops[i] :: ops.drop (i + 1) := List.drop_eq_getElem_cons (by omega)
  have h2 : ops.drop (i + 1) = ops[i+1] :: ops.drop (i + 2) := List.drop_eq_getElem_cons h
  calc ops = ops.take i ++ ops.drop i := (List.take_append_drop i ops).symm
    _ = _ := by rw [h1, h2]; simp

theorem good_measures (a z : List Op) (l r : Op) (new : List Op) (h : GoodOut l r new) :
    mu (a ++ new ++ z) < mu (a ++ [l, r] ++ z) ∧
    (a ++ new ++ z).length ≤ (a ++ [l, r] ++ z).length ∧
    nu (a ++ new ++ z) ≤ nu (a ++ [l, r] ++ z) ∧
    (new.any isHomothety = true → nu (a ++ new ++ z) < nu (a ++ [l, r] ++ z)) := by
  have hA := cntA_le a
  have hZ := cntB_le z
  rcases h with h | ⟨o, rfl, h1, h2, h3⟩
  · have hi := inv_short h
    have ha := Nat.le_trans (cntA_le new) h
    have hb := Nat.le_trans (cntB_le new) h
    have p1 : cntA a * cntB new ≤ cntA a := by
      calc _ ≤ cntA a * 1 := Nat.mul_le_mul_left _ hb
        _ = _ := Nat.mul_one _
    have p2 : cntA new * cntB z ≤ cntB z := by
      calc _ ≤ 1 * cntB z := Nat.mul_le_mul_right _ ha
        _ = _ := Nat.one_mul _
    have ht : tri (a ++ new ++ z).length + a.length + z.length + 1 ≤ tri (a ++ [l, r] ++ z).length := by
      have e : (a ++ [l, r] ++ z).length = (a.length + z.length + 1) + 1 := by simp; omega
      rw [e, tri]
      have : tri (a ++ new ++ z).length ≤ tri (a.length + z.length + 1) :=
        tri_mono (by simp only [List.length_append]; omega)
      omega
    refine ⟨?_, ?_, ?_, ?_⟩
    · simp only [mu, inv_three]
      omega
    · simp only [List.length_append, List.length_cons, List.length_nil]; omega
    · simp only [nu, cntA_append, List.length_append, List.length_cons, List.length_nil]; omega
    · intro hh
      have : cntA new = 0 := by
        match new, h, hh with
        | [x], _, hh =>
          have hx : x.isHomothety = true := by simpa using hh
          simp [cntA, (isHomothety_facts hx).1]
      simp only [nu, cntA_append, List.length_append, List.length_cons, List.length_nil]; omega
  · obtain ⟨r1, r2, r3, r4⟩ := isHWP_facts h2
    have i1 : inv [l, r] = 1 := by simp [inv, cntB, h1, r1, r2]
    have i2 : inv [r, o] = 0 := by simp [inv, cntB, r1]
    have a1 : cntA [l, r] = 1 := by simp [cntA, h1, r1]
    have a2 : cntA [r, o] ≤ 1 := by
      simp only [cntA, List.countP_cons, r1, List.countP_nil]; split <;> simp
    have b12 : cntB [r, o] ≤ cntB [l, r] := by
      simp only [cntB, List.countP_cons, r2, List.countP_nil]
      by_cases ho : hwpCored o = true
      · simp [ho, h3 ho]
      · simp [ho]
    have p1 : cntA a * cntB [r, o] ≤ cntA a * cntB [l, r] := Nat.mul_le_mul_left _ b12
    have p2 : cntA [r, o] * cntB z ≤ cntA [l, r] * cntB z :=
      Nat.mul_le_mul_right _ (by omega)
    refine ⟨?_, ?_, ?_, ?_⟩
    · simp only [mu, inv_three, i1, i2]
      have : (a ++ [r, o] ++ z).length = (a ++ [l, r] ++ z).length := by simp
      rw [this]; omega
    · simp
    · simp only [nu, cntA_append, List.length_append, List.length_cons, List.length_nil]; omega
    · intro hh
      have ho : o.isHomothety = true := by simpa [r3] using hh
      have : cntA [r, o] = 0 := by simp [cntA, r1, (isHomothety_facts ho).1]
      simp only [nu, cntA_append, List.length_append, List.length_cons, List.length_nil]; omega

/-! ### the scalar relocation does not increase the measures -/

theorem cntB_filter_le (p : Op → Bool) (ops : List Op) : cntB (ops.filter p) ≤ cntB ops :=
  List.Sublist.countP_le List.filter_sublist

theorem cntA_filter_le (p : Op → Bool) (ops : List Op) : cntA (ops.filter p) ≤ cntA ops :=
  List.Sublist.countP_le List.filter_sublist

theorem inv_filter_le (p : Op → Bool) (ops : List Op) : inv (ops.filter p) ≤ inv ops := by
  induction ops with
  | nil => exact Nat.le_refl _
  | cons o os ih =>
    have := cntB_filter_le p os
    by_cases hp : p o = true
    · simp only [List.filter_cons, hp, if_true, inv]
      split <;> omega
    · simp only [List.filter_cons, hp, inv]
      simp only [Bool.false_eq_true, if_false]
      omega

theorem filter_len_add (p : Op → Bool) (xs : List Op) :
    (xs.filter p).length + (xs.filter fun o => !p o).length = xs.length := by
  induction xs with
  | nil => rfl
  | cons o os ih =>
    by_cases hp : p o = true
    · simp only [List.filter_cons, hp, if_true, Bool.not_true, Bool.false_eq_true, if_false,
        List.length_cons]; omega
    · have hp' : p o = false := by simpa using hp
      simp only [List.filter_cons, hp', Bool.false_eq_true, if_false, Bool.not_false, if_true,
        List.length_cons]; omega

theorem inv_cons_nonrot {h : Op} (hh : rotLike h = false) (ys : List Op) : inv (h :: ys) = inv ys := by
  simp [inv, hh]
theorem cntA_cons_nonrot {h : Op} (hh : rotLike h = false) (ys : List Op) : cntA (h :: ys) = cntA ys := by
  simp [cntA, hh]
theorem inv_snoc_noncored {h : Op} (hh : hwpCored h = false) (ys : List Op) :
    inv (ys ++ [h]) = inv ys := by
  rw [inv_append]; simp [inv, cntB, hh]
theorem cntA_snoc_nonrot {h : Op} (hh : rotLike h = false) (ys : List Op) :
    cntA (ys ++ [h]) = cntA ys := by
  rw [cntA_append]; simp [cntA, hh]

theorem homothetyRule_measures (ops : List Op) :
    (homothetyRule ops).length ≤ ops.length ∧ inv (homothetyRule ops) ≤ inv ops ∧
      cntA (homothetyRule ops) ≤ cntA ops := by
  unfold homothetyRule
  split
  · rename_i first x rest last hlast
    dsimp only
    generalize first :: x :: rest = xs
    split
    · exact ⟨Nat.le_refl _, Nat.le_refl _, Nat.le_refl _⟩
    · rename_i hne
      have hlen : (xs.filter fun o => !o.isHomothety).length + 1 ≤ xs.length := by
        have := filter_len_add isHomothety xs
        have h0 : (xs.filter isHomothety).length ≠ 0 := by simpa using hne
        omega
      split
      · exact ⟨Nat.le_refl _, Nat.le_refl _, Nat.le_refl _⟩
      · split
        · refine ⟨by simpa using hlen, ?_, ?_⟩
          · rw [inv_cons_nonrot (mkHomothety_facts _ _).1]
            exact inv_filter_le _ xs
          · rw [cntA_cons_nonrot (mkHomothety_facts _ _).1]
            exact cntA_filter_le _ xs
        · refine ⟨by simpa using hlen, ?_, ?_⟩
          · rw [inv_snoc_noncored (mkHomothety_facts _ _).2]
            exact inv_filter_le _ xs
          · rw [cntA_snoc_nonrot (mkHomothety_facts _ _).1]
            exact cntA_filter_le _ xs
  · exact ⟨Nat.le_refl _, Nat.le_refl _, Nat.le_refl _⟩

theorem homothetyRule_mu_nu (ops : List Op) :
    mu (homothetyRule ops) ≤ mu ops ∧ nu (homothetyRule ops) ≤ nu ops := by
  obtain ⟨h1, h2, h3⟩ := homothetyRule_measures ops
  have := tri_mono h1
  simp only [mu, nu]; omega

/-! ### the registered rule set is decreasing -/

theorem reductionCfg_decreasing (red : Op → Except PyErr Op) : (reductionCfg red).Decreasing mu nu := by
  constructor
  · intro ops i h new hf _
    have hg := good_reductionCfg red _ _ new hf
    obtain ⟨m1, m2, m3, _⟩ := good_measures (ops.take i) (ops.drop (i + 2)) _ _ new hg
    rw [← splice_decomp ops i h] at m1 m2 m3
    exact ⟨m1, m3, m2⟩
  · intro ops i h new hf hany
    have hg := good_reductionCfg red _ _ new hf
    obtain ⟨m1, m2, _, m4⟩ := good_measures (ops.take i) (ops.drop (i + 2)) _ _ new hg
    have m4 := m4 hany
    rw [← splice_decomp ops i h] at m1 m2 m4
    have hh := homothetyRule_mu_nu (splice ops i new)
    have hl := (homothetyRule_measures (splice ops i new)).1
    refine ⟨Nat.lt_of_le_of_lt hh.1 m1, Nat.lt_of_le_of_lt hh.2 m4, Nat.le_trans hl m2⟩

/-- the measures of a chain of length `n` are at most quadratic / linear in `n` -/
theorem mu_le (ops : List Op) : 2 * mu ops + 2 * ops.length ≤ 2 * (ops.length * ops.length) := by
  have := inv_le_tri ops
  have := two_tri ops.length
  simp only [mu]; omega

theorem nu_le (ops : List Op) : nu ops ≤ 2 * ops.length := by
  have := cntA_le ops
  simp only [nu]; omega

end Furax
