/-
Soundness of `reduce` (FuraxModel/Reduce.lean), by induction on the fuel:

  on a well-formed expression (`WTExpr`), whenever `reduce fuel o = .ok r`, the result `r` is well formed, has
  the structures of `o` and denotes the same map on the input space of `o`.

Compositions go through `OpSem.algebraicReduction_sound_on` (FuraxProofs/Lemmas/ScanOn.lean) with the thirteen
binary rules (`binaryRules_sound`, FuraxProofs/Lemmas/RuleSound.lean); the recursive call `red := reduce fuel`
the block rules make is sound by the induction hypothesis, which is exactly `RedSound A laws (reduce fuel)`.
Sums and block containers need the laws collected in `ContainerLaws`.
-/
import FuraxProofs.Lemmas.RuleSound
namespace Furax
open Op

/-- slot-wise: `os'[i]` has the structures of `os[i]` and the same denotation on its input space -/
def CongRel {V : Type} (A : ArithSem V) : List Op → List Op → Prop
  | [], [] => True
  | o :: os, o' :: os' =>
    (Op.inS o' = Op.inS o ∧ Op.outS o' = Op.outS o ∧ ∀ x, A.mem (Op.inS o) x → A.den o' x = A.den o x) ∧
      CongRel A os os'
  | _, _ => False

/-- **What `reduce` needs of the denotation of containers and of the three leaf classes that override
`reduce()`.**  Semantic statements about `A.den`, discharged elsewhere.  (The corresponding facts for sums —
congruence, a one-operand sum denotes its operand — follow from `ArithSem.add_law` and are proved below.) -/
structure ContainerLaws {V : Type} (A : ArithSem V) (laws : RuleLaws A) : Prop where
  /-- congruence of the block operators: replacing every (well-formed) block by a well-formed one with the same
  structures and the same denotation on its input space does not change the denotation (nor does the Python
  identity of the object) -/
  cont_congr : ∀ u u' k td ops ops', k ≠ .add → ops ≠ [] →
    WTList A.invertible laws.leafOK ops → WTList A.invertible laws.leafOK ops' →
    ContOK k td ops → CongRel A ops ops' →
    ∀ x, A.mem (Op.inS (.cont u k td ops)) x → A.den (.cont u' k td ops') x = A.den (.cont u k td ops) x
  /-- `BlockDiagonalOperator.reduce`: a block diagonal of identities is the identity -/
  blockdiag_identities : ∀ u td ops, ops ≠ [] → td.numLeaves = ops.length →
    (∀ o ∈ ops, o.isIdentity = true) →
    ∀ x, A.mem (Struct.nest td (inSList ops)) x → A.den (.cont u .blockDiag td ops) x = x
  /-- `IndexOperator.reduce`: an index operator that indexes no axis is the identity -/
  index_noaxes : ∀ u p, laws.leafOK .index p → (indexedAxes p.idx).length = 0 →
    p.outS = p.inS ∧ ∀ x, A.mem p.inS x → A.den (.leaf u .index p) x = x
  /-- `AbstractRavelOrReshapeOperator.reduce`: a ravel/reshape with equal structures is the identity -/
  reshape_id : ∀ u c p, (c = .ravel ∨ c = .reshape) → laws.leafOK c p → p.outS = p.inS →
    ∀ x, A.mem p.inS x → A.den (.leaf u c p) x = x

section
variable {V : Type} (A : ArithSem V) (laws : RuleLaws A)

theorem CongRel_structs (ops ops' : List Op) (h : CongRel A ops ops') :
    inSList ops' = inSList ops ∧ outSList ops' = outSList ops ∧ ops'.length = ops.length := by
  induction ops generalizing ops' with
  | nil => cases ops' <;> simp_all [CongRel, inSList, outSList]
  | cons o os ih =>
    cases ops' with
    | nil => simp [CongRel] at h
    | cons o' os' =>
      simp only [CongRel] at h
      obtain ⟨⟨hi, ho, _⟩, hrest⟩ := h
      obtain ⟨h1, h2, h3⟩ := ih os' hrest
      simp [inSList, outSList, hi, ho, h1, h2, h3]

/-- a slot-wise congruent chain is typed alike and denotes the same map -/
theorem CongRel_WT (ops ops' : List Op) (h : CongRel A ops ops') (s t : Struct)
    (hok : ∀ o ∈ ops, StructOK o) (hwt : A.toOpSem.toSem.WT ops s t) :
    A.toOpSem.toSem.WT ops' s t ∧
    ∀ x, A.mem s x → A.toOpSem.toSem.app ops' x = A.toOpSem.toSem.app ops x := by
  induction ops generalizing ops' t with
  | nil =>
    cases ops' with
    | nil => exact ⟨hwt, fun _ _ => rfl⟩
    | cons _ _ => simp [CongRel] at h
  | cons o os ih =>
    cases ops' with
    | nil => simp [CongRel] at h
    | cons o' os' =>
      simp only [CongRel] at h
      obtain ⟨⟨hi, ho, hd⟩, hrest⟩ := h
      obtain ⟨h1, h2⟩ := hwt
      have hok' : ∀ o' ∈ os, StructOK o' := fun o' ho' => hok o' (List.mem_cons_of_mem _ ho')
      obtain ⟨hw, ha⟩ := ih os' hrest _ hok' h2
      refine ⟨⟨?_, ?_⟩, fun x hx => ?_⟩
      · simp only [OpSem.toSem_outS] at h1 ⊢; rw [ho]; exact h1
      · simp only [OpSem.toSem_inS] at hw ⊢; rw [hi]; exact hw
      · simp only [Sem.app, OpSem.toSem_den]
        rw [ha x hx]
        exact hd _ (A.toOpSem.toSem.WT_mem _ _ _ hok' h2 x hx)

/-- the operands of a sum are evaluated at the same point -/
theorem CongRel_map (ops ops' : List Op) (h : CongRel A ops ops') (x : V)
    (hx : ∀ o ∈ ops, A.mem (Op.inS o) x) :
    ops'.map (fun o => A.den o x) = ops.map (fun o => A.den o x) := by
  induction ops generalizing ops' with
  | nil => cases ops' <;> simp_all [CongRel]
  | cons o os ih =>
    cases ops' with
    | nil => simp [CongRel] at h
    | cons o' os' =>
      simp only [CongRel] at h
      obtain ⟨⟨_, _, hd⟩, hrest⟩ := h
      simp only [List.map_cons]
      rw [hd x (hx o List.mem_cons_self), ih os' hrest (fun o ho => hx o (List.mem_cons_of_mem _ ho))]

/-- `ops.mapM red` for a sound `red` -/
theorem mapM_red (red : Op → Except PyErr Op) (hred : RedSound A laws red) (ops ops' : List Op)
    (hw : ∀ o ∈ ops, laws.WT o) (h : ops.mapM red = .ok ops') :
    CongRel A ops ops' ∧ ∀ o ∈ ops', laws.WT o := by
  induction ops generalizing ops' with
  | nil =>
    simp only [List.mapM_nil, pure, Except.pure, Except.ok.injEq] at h
    subst h
    exact ⟨trivial, fun _ ho => by simp at ho⟩
  | cons o os ih =>
    simp only [List.mapM_cons, bind, Except.bind] at h
    cases hr : red o with
    | error e => simp [hr] at h
    | ok r =>
      simp only [hr] at h
      cases hrs : List.mapM red os with
      | error e => simp [hrs] at h
      | ok rs =>
        simp only [hrs, pure, Except.pure, Except.ok.injEq] at h
        subst h
        obtain ⟨hw', hi, ho, hd⟩ := hred o r (hw o List.mem_cons_self) hr
        obtain ⟨hrel, hws⟩ := ih rs (fun o ho => hw o (List.mem_cons_of_mem _ ho)) hrs
        refine ⟨⟨⟨hi, ho, hd⟩, hrel⟩, ?_⟩
        intro o' ho'
        rw [List.mem_cons] at ho'
        rcases ho' with rfl | ho'
        · exact hw'
        · exact hws o' ho'

theorem ContOK_congr (k : ContCls) (td : TreeDef) (ops ops' : List Op) (h : ContOK k td ops)
    (hi : inSList ops' = inSList ops) (ho : outSList ops' = outSList ops)
    (hl : ops'.length = ops.length) : ContOK k td ops' := by
  refine ⟨by rw [hl]; exact h.1, ?_⟩
  have h2 := h.2
  cases k
  · exact fun o hm => ⟨allIn_congr ops ops' hi (fun o hm => (h2 o hm).1) o hm,
      allOut_congr ops ops' ho (fun o hm => (h2 o hm).2) o hm⟩
  · exact allOut_congr ops ops' ho h2
  · trivial
  · exact allIn_congr ops ops' hi h2

theorem cont_structs_congr (u u' : Nat) (k : ContCls) (td : TreeDef) (ops ops' : List Op)
    (hi : inSList ops' = inSList ops) (ho : outSList ops' = outSList ops) :
    Op.inS (.cont u' k td ops') = Op.inS (.cont u k td ops) ∧
    Op.outS (.cont u' k td ops') = Op.outS (.cont u k td ops) := by
  cases k <;> simp only [Op.inS, Op.outS, inSHead_headD, outSHead_headD, hi, ho, and_self]

theorem all_identity_square (ops : List Op) (h : ∀ o ∈ ops, o.isIdentity = true) :
    outSList ops = inSList ops := by
  induction ops with
  | nil => rfl
  | cons o os ih =>
    simp only [outSList, inSList]
    rw [← OpSem.identity_square o (h o List.mem_cons_self), ih (fun o ho => h o (List.mem_cons_of_mem _ ho))]

/-- **`reduce` is sound on well-formed expressions**, for every amount of fuel. -/
theorem reduce_RedSound (extra : ContainerLaws A laws) : ∀ fuel, RedSound A laws (reduce fuel) := by
  intro fuel
  induction fuel with
  | zero => intro o r _ h; simp [reduce] at h
  | succ n ih =>
    intro o r hw h
    have same : laws.WT o ∧ Op.inS o = Op.inS o ∧ Op.outS o = Op.outS o ∧
        ∀ x, A.mem (Op.inS o) x → A.den o x = A.den o x := ⟨hw, rfl, rfl, fun _ _ => rfl⟩
    cases o with
    | wrap u k o' =>
      simp only [reduce, Except.ok.injEq] at h; subst h; exact same
    | leaf u c p =>
      have hp := (WT_leaf A laws _ _ _).mp hw
      by_cases hidx : c = .index
      · subst hidx
        simp only [reduce] at h
        split at h
        · rename_i h0
          simp only [Except.ok.injEq] at h; subst h
          obtain ⟨hs, hd⟩ := extra.index_noaxes u p hp (by simpa using h0)
          refine ⟨laws.WT_mkIdentity _, by simp [mkIdentity, Op.inS],
            by simp [mkIdentity, Op.outS, squareLeaf, hs], fun x hx => ?_⟩
          have hx' : A.mem p.inS x := by simpa [Op.inS] using hx
          rw [A.mkIdentity_den _ x hx', hd x hx']
        · simp only [Except.ok.injEq] at h; subst h; exact same
      · by_cases hrv : c = .ravel ∨ c = .reshape
        · have key : (if p.outS == p.inS then Except.ok (mkIdentity p.inS) else Except.ok (Op.leaf u c p))
              = (Except.ok r : Except PyErr Op) := by
            rcases hrv with rfl | rfl <;> simpa only [reduce] using h
          split at key
          · rename_i h0
            simp only [Except.ok.injEq] at key; subst key
            have hs : p.outS = p.inS := by simpa using h0
            have hout : Op.outS (Op.leaf u c p) = p.outS := by
              rcases hrv with rfl | rfl <;> simp [Op.outS, squareLeaf]
            refine ⟨laws.WT_mkIdentity _, by simp [mkIdentity, Op.inS],
              by rw [hout, hs]; simp [mkIdentity, Op.outS, squareLeaf], fun x hx => ?_⟩
            have hx' : A.mem p.inS x := by simpa [Op.inS] using hx
            rw [A.mkIdentity_den _ x hx', extra.reshape_id u c p hrv hp hs x hx']
          · simp only [Except.ok.injEq] at key; subst key; exact same
        · have : r = Op.leaf u c p := by
            cases c <;> simp_all [reduce]
          subst this; exact same
    | comp u ops =>
      obtain ⟨hne, hws, hch⟩ := (WT_comp_iff A laws _ _).mp hw
      simp only [reduce, bind, Except.bind] at h
      cases hm : List.mapM (reduce n) ops with
      | error e => simp [hm] at h
      | ok ops' =>
        simp only [hm] at h
        cases ha : algebraicReduction (reduce n) ops' with
        | error e => simp [ha] at h
        | ok res =>
          simp only [ha] at h
          obtain ⟨hrel, hws'⟩ := mapM_red A laws (reduce n) ih ops ops' hws hm
          have hwt := (Chain_iff_WT A.toOpSem ops hne).mp hch
          obtain ⟨hwt', happ'⟩ := CongRel_WT A ops ops' hrel _ _ (structOK_of_forall_WTExpr hws) hwt
          obtain ⟨hpr, hwr, har⟩ := A.toOpSem.algebraicReduction_sound_on laws.WT laws.WT_structOK
            laws.WT_mkIdentity laws.WT_mkHomothety (reduce n) (binaryRules_sound A laws (reduce n) ih)
            ops' res _ _ hws' hwt' ha
          have hden : ∀ x, A.mem (inSLast ops) x →
              A.toOpSem.toSem.app res x = A.den (Op.comp u ops) x := by
            intro x hx
            rw [har x hx, happ' x hx, A.comp_law]
          match res, h, hpr, hwr, hden with
          | [], h, hpr, hwr, hden =>
            simp only [pure, Except.pure, Except.ok.injEq] at h; subst h
            have hst : inSLast ops = outSHead ops := hwr
            refine ⟨laws.WT_mkIdentity _, by simp [mkIdentity, Op.inS],
              by simp [mkIdentity, Op.inS, Op.outS, squareLeaf, hst], fun x hx => ?_⟩
            have hx' : A.mem (inSLast ops) x := by simpa [Op.inS] using hx
            rw [A.mkIdentity_den _ x hx]
            exact hden x hx'
          | [y], h, hpr, hwr, hden =>
            simp only [pure, Except.pure, Except.ok.injEq] at h; subst h
            obtain ⟨h1, h2⟩ := hwr
            refine ⟨hpr _ (by simp), ?_, ?_, fun x hx => ?_⟩
            · simpa [Op.inS] using h2.symm
            · simpa [Op.outS] using h1
            · exact hden x (by simpa [Op.inS] using hx)
          | y :: z :: rest, h, hpr, hwr, hden =>
            simp only [pure, Except.pure, Except.ok.injEq] at h; subst h
            obtain ⟨h1, h2⟩ := WT_ends A.toOpSem (y :: z :: rest) _ _ (by simp) hwr
            refine ⟨WT_mkComp A laws _ (by simp) hpr (WT_Chain A.toOpSem _ _ _ hwr), ?_, ?_,
              fun x hx => ?_⟩
            · simpa [mkComp, Op.inS] using h1
            · simpa [mkComp, Op.outS] using h2
            · rw [mkComp, A.comp_law]
              exact hden x (by simpa [Op.inS] using hx)
    | cont u k td ops =>
      obtain ⟨hne, hws, hok⟩ := (WT_cont_iff A laws _ _ _ _).mp hw
      -- every branch starts with `ops.mapM (reduce fuel)`
      have hstep : ∃ ops', List.mapM (reduce n) ops = .ok ops' ∧
          ((k = .add ∧ ((∃ y, ops' = [y] ∧ r = y) ∨
              ((∀ y, ops' ≠ [y]) ∧ r = .cont 0 .add td ops'))) ∨
           (k ≠ .add ∧ ((k = .blockDiag ∧ ops'.all isIdentity = true ∧
                r = mkIdentity (Op.inS (.cont u k td ops))) ∨
              (¬ (k = .blockDiag ∧ ops'.all isIdentity = true) ∧ r = .cont 0 k td ops')))) := by
        cases hm : List.mapM (reduce n) ops with
        | error e => cases k <;> simp [reduce, bind, Except.bind, hm] at h
        | ok ops' =>
          refine ⟨ops', rfl, ?_⟩
          cases k with
          | add =>
            simp only [reduce, bind, Except.bind, hm] at h
            refine .inl ⟨rfl, ?_⟩
            split at h
            · rename_i y
              simp only [pure, Except.pure, Except.ok.injEq] at h
              exact .inl ⟨y, rfl, h.symm⟩
            · rename_i hny
              simp only [pure, Except.pure, Except.ok.injEq] at h
              exact .inr ⟨fun y hy => hny y hy, h.symm⟩
          | blockRow =>
            simp [reduce, bind, Except.bind, hm, pure, Except.pure] at h
            exact .inr ⟨by simp, .inr ⟨by simp, h.symm⟩⟩
          | blockCol =>
            simp [reduce, bind, Except.bind, hm, pure, Except.pure] at h
            exact .inr ⟨by simp, .inr ⟨by simp, h.symm⟩⟩
          | blockDiag =>
            simp only [reduce, bind, Except.bind, hm] at h
            refine .inr ⟨by simp, ?_⟩
            split at h
            · rename_i hc
              simp only [pure, Except.pure, Except.ok.injEq] at h
              exact .inl ⟨rfl, by simpa using hc, h.symm⟩
            · rename_i hc
              simp only [pure, Except.pure, Except.ok.injEq] at h
              exact .inr ⟨fun hcc => hc (by simpa using hcc.2), h.symm⟩
      obtain ⟨ops', hm, hcase⟩ := hstep
      obtain ⟨hrel, hws'⟩ := mapM_red A laws (reduce n) ih ops ops' hws hm
      obtain ⟨hI, hO, hL⟩ := CongRel_structs A ops ops' hrel
      have hne' : ops' ≠ [] := by
        intro h0; subst h0
        exact hne (List.length_eq_zero_iff.mp hL.symm)
      have hwc : ∀ u', laws.WT (.cont u' k td ops') := fun u' =>
        (WT_cont_iff A laws _ _ _ _).mpr ⟨hne', hws', ContOK_congr k td ops ops' hok hI hO hL⟩
      obtain ⟨hsI, hsO⟩ := cont_structs_congr u 0 k td ops ops' hI hO
      rcases hcase with ⟨rfl, hadd⟩ | ⟨hk, hblk⟩
      · -- sums
        have hall : ∀ x, A.mem (Op.inS (.cont u .add td ops)) x → ∀ o ∈ ops, A.mem (Op.inS o) x := by
          intro x hx o ho
          rw [(hok.2 o ho).1]; simpa [Op.inS] using hx
        have hsum : ∀ x, A.mem (Op.inS (.cont u .add td ops)) x →
            A.den (.cont 0 .add td ops') x = A.den (.cont u .add td ops) x := by
          intro x hx
          rw [A.add_law, A.add_law, CongRel_map A ops ops' hrel x (hall x hx)]
        rcases hadd with ⟨y, rfl, rfl⟩ | ⟨_, rfl⟩
        · refine ⟨hws' _ (by simp), ?_, ?_, fun x hx => ?_⟩
          · rw [← hsI]; simp [Op.inS, inSHead]
          · rw [← hsO]; simp [Op.outS, outSHead]
          · rw [← hsum x hx, A.add_law]
            simp [A.add_zero]
        · exact ⟨hwc 0, hsI, hsO, hsum⟩
      · -- block operators
        have hcong : ∀ x, A.mem (Op.inS (.cont u k td ops)) x →
            A.den (.cont 0 k td ops') x = A.den (.cont u k td ops) x :=
          extra.cont_congr u 0 k td ops ops' hk hne ((WTList_iff _ _ _).mpr hws) ((WTList_iff _ _ _).mpr hws')
            hok hrel
        rcases hblk with ⟨rfl, hall, rfl⟩ | ⟨_, rfl⟩
        · have hall' : ∀ o ∈ ops', o.isIdentity = true := by simpa using hall
          have hsq := all_identity_square ops' hall'
          refine ⟨laws.WT_mkIdentity _, by simp [mkIdentity, Op.inS], ?_, fun x hx => ?_⟩
          · simp only [mkIdentity, Op.outS, Op.inS, squareLeaf, if_true]
            rw [← hO, hsq, hI]
          · rw [A.mkIdentity_den _ x hx, ← hcong x hx]
            refine (extra.blockdiag_identities 0 td ops' hne' (by rw [hL]; exact hok.1) hall' x ?_).symm
            rw [hI]; simpa [Op.inS] using hx
        · exact ⟨hwc 0, hsI, hsO, hcong⟩

/-- **Soundness of `reduce`**, in the form asked for: on a well-formed expression, the reduced expression is
well formed, has the same structures and the same denotation on the input space. -/
theorem reduce_sound (extra : ContainerLaws A laws) :
    ∀ fuel o r, WTExpr A.invertible laws.leafOK o → reduce fuel o = .ok r →
      WTExpr A.invertible laws.leafOK r ∧ Op.inS r = Op.inS o ∧ Op.outS r = Op.outS o ∧
      ∀ x, A.mem (Op.inS o) x → A.den r x = A.den o x :=
  fun fuel o r hw h => reduce_RedSound A laws extra fuel o r hw h

/-- the driver's entry point -/
theorem reduceTop_sound (extra : ContainerLaws A laws) (o r : Op) (hw : WTExpr A.invertible laws.leafOK o)
    (h : reduceTop o = .ok r) :
    WTExpr A.invertible laws.leafOK r ∧ Op.inS r = Op.inS o ∧ Op.outS r = Op.outS o ∧
    ∀ x, A.mem (Op.inS o) x → A.den r x = A.den o x :=
  reduce_sound A laws extra _ o r hw h

end

end Furax

