/-
Consistency witness for the hypotheses of `binaryRules_sound` / `reduce_sound`: an `ArithSem` together with
inhabitants of `RuleLaws` and `ContainerLaws`, so the theorems are not vacuous (unlike a formulation with
unrelativised `RuleSound`, whose hypotheses would be contradictory: `inverseBinaryRule_not_RuleSound`).

The witness is deliberately cheap and DEGENERATE: the denotation is the scalar model of
FuraxProofs/Lemmas/ScalarModel.lean (every operator is a linear map ℚ → ℚ) and every structure's value space is
`{0}`, where all linear maps agree.  It shows that the laws are jointly satisfiable and that `WTExpr` is
inhabited by every shape the rules match; the intended model (operators on pytrees of arrays) is tied to the
code by the per-kernel checks, not here.
-/
import FuraxProofs.Lemmas.ReduceSound
import FuraxProofs.Lemmas.ScalarModel
namespace Furax
open Op

theorem scalarDen_zero (o : Op) : scalarDen o 0 = 0 := by
  have := scalarDen_hom o 0 0
  simpa using this

def zeroOpSem : OpSem Rat where
  den := scalarDen
  mem := fun _ x => x = 0
  smul := fun a x => a * x
  honest := fun o x _ h => by subst h; exact scalarDen_zero o
  smul_one := scalarOpSem.smul_one
  smul_smul := scalarOpSem.smul_smul
  mem_smul := fun _ a x h => by subst h; simp
  identity_law := fun o h x _ => scalarOpSem.identity_law o h x trivial
  homothety_law := fun o h x _ => scalarOpSem.homothety_law o h x trivial
  homogeneous := fun o a x _ _ => scalarDen_hom o a x

theorem zeroApp_eq (ops : List Op) (x : Rat) : zeroOpSem.toSem.app ops x = scalarApp ops x := by
  induction ops with
  | nil => rfl
  | cons o os ih => simp only [Sem.app, scalarApp, ih]; rfl

/-- the scalar model with value space `{0}` and every operand declared invertible -/
def zeroArithSem : ArithSem Rat where
  toOpSem := zeroOpSem
  add := (· + ·)
  zero := 0
  add_assoc := scalarArithSem.add_assoc
  zero_add := scalarArithSem.zero_add
  comp_law := fun u ops x => by
    show scalarDen (.comp u ops) x = _
    rw [zeroApp_eq]; rfl
  add_law := fun u td ops x => scalarArithSem.add_law u td ops x
  add_zero := scalarArithSem.add_zero
  smul_sum := scalarArithSem.smul_sum
  invertible := fun _ => True
  inv_left := fun u k o _ _ _ x hx => by
    have hx' : x = 0 := hx
    subst hx'
    show scalarDen _ (scalarDen o 0) = 0
    rw [scalarDen_zero, scalarDen_zero]
  inv_right := fun u k o _ _ _ x hx => by
    have hx' : x = 0 := hx
    subst hx'
    show scalarDen o (scalarDen _ 0) = 0
    rw [scalarDen_zero, scalarDen_zero]

/-- every equation between composites of operators holds on the value space `{0}` -/
theorem zero_den (o : Op) : zeroArithSem.den o 0 = 0 := scalarDen_zero o

/-- leaf validity of the witness: just the structural facts two laws conclude -/
def zeroLeafOK (c : LeafCls) (p : Params) : Prop :=
  (c = .moveAxis → p.inS = p.outS) ∧ (c = .index → (indexedAxes p.idx).length = 0 → p.outS = p.inS)

def zeroRuleLaws : RuleLaws zeroArithSem where
  leafOK := zeroLeafOK
  ok_identity := fun s => ⟨fun h => by simp at h, fun h => by simp at h⟩
  ok_homothety := fun v s => ⟨fun h => by simp at h, fun h => by simp at h⟩
  qurot_inv := fun _ _ _ => trivial
  moveaxis_pair := fun ul pl ur pr hl hr _ _ hs => by
    refine ⟨?_, fun x hx => ?_⟩
    · rw [← hl.1 rfl, hs, ← hr.1 rfl]
    · have : x = 0 := hx
      subst this; simp only [zero_den]
  reshape_pair := fun u uo c p _ _ =>
    ⟨fun x hx => by have : x = 0 := hx; subst this; simp only [zero_den],
     fun x hx => by have : x = 0 := hx; subst this; simp only [zero_den]⟩
  pack_pair := fun u uo p _ x hx => by have : x = 0 := hx; subst this; simp only [zero_den]
  index_pair := fun u uo p _ _ x hx => by have : x = 0 := hx; subst this; simp only [zero_den]
  index_mult := fun u uo p axis shape sh vals sizeMax _ _ _ _ _ _ _ _ =>
    ⟨⟨fun h => by simp at h, fun h => by simp at h⟩,
     fun x hx => by have : x = 0 := hx; subst this; simp only [zero_den]⟩
  rot_rot := fun ul pl ur pr a _ _ _ _ =>
    ⟨⟨fun h => by simp at h, fun h => by simp at h⟩,
     fun x hx => by have : x = 0 := hx; subst this; simp only [zero_den]⟩
  rot_rotT := fun ul pl uw ur pr a _ _ _ _ =>
    ⟨⟨fun h => by simp at h, fun h => by simp at h⟩,
     fun x hx => by have : x = 0 := hx; subst this; simp only [zero_den]⟩
  rotT_rot := fun uw ul pl ur pr a _ _ _ _ =>
    ⟨⟨fun h => by simp at h, fun h => by simp at h⟩,
     fun x hx => by have : x = 0 := hx; subst this; simp only [zero_den]⟩
  rotT_rotT := fun uw ul pl uw' ur pr a _ _ _ _ =>
    ⟨⟨fun h => by simp at h, fun h => by simp at h⟩,
     fun x hx => by have : x = 0 := hx; subst this; simp only [zero_den]⟩
  rot_hwp := fun uw ul pl ur pr _ _ _ x hx => by
    have : x = 0 := hx; subst this; simp only [zero_den]
  rotT_hwp := fun uw ul pl ur pr _ _ _ x hx => by
    have : x = 0 := hx; subst this; simp only [zero_den]
  polarizer_hwp := fun ul pl ur pr _ _ _ x hx => by
    have : x = 0 := hx; subst this; simp only [zero_den]
  block_law := fun lk rk res _ ul ur u td lops rops prods _ _ _ _ _ _ _ _ x hx => by
    have : x = 0 := hx; subst this; simp only [zero_den]

theorem zeroContainerLaws : ContainerLaws zeroArithSem zeroRuleLaws where
  cont_congr := fun u u' k td ops ops' _ _ _ _ _ _ x hx => by
    have : x = 0 := hx; subst this; simp only [zero_den]
  blockdiag_identities := fun u td ops _ _ _ x hx => by
    have : x = 0 := hx; subst this; simp only [zero_den]
  index_noaxes := fun u p hp h0 =>
    ⟨hp.2 rfl h0, fun x hx => by have : x = 0 := hx; subst this; simp only [zero_den]⟩
  reshape_id := fun u c p _ _ _ x hx => by have : x = 0 := hx; subst this; simp only [zero_den]

/-- `WTExpr` is inhabited by the shapes the rules match: e.g. a rotation, its lazy transpose/inverse, and
their composition, which `reduce` rewrites soundly by `reduce_sound`. -/
example : zeroRuleLaws.WT
    (.comp 7 [.wrap 5 .qurotT (.leaf 3 .qurot { inS := default, outS := default }),
              .leaf 3 .qurot { inS := default, outS := default }]) := by
  simp [RuleLaws.WT, WTExpr, WTList, Chain, WrapOK, WrapCls.isLazy, zeroRuleLaws, zeroLeafOK, Op.inS, Op.outS,
    squareLeaf, isQURot, isLeafCls, zeroArithSem]

/-- … and `reduce` does rewrite it (to an identity), by kernel evaluation -/
example : (match reduceTop
      (.comp 7 [.wrap 5 .qurotT (.leaf 3 .qurot { inS := default, outS := default }),
                .leaf 3 .qurot { inS := default, outS := default }]) with
    | .ok r => r.isIdentity
    | _ => false) = true := by rfl

end Furax

