/-
Soundness of the thirteen registered binary rules (FuraxModel/Reduce.lean) from named leaf laws.

**Why the statements are relativised.**  Soundness over ALL pairs `l r` (`Sem.RuleSoundOn (fun _ => True) ru`)
is provably false for the furax rules, whatever the semantics: `InverseBinaryRule` fires on
`DiagonalInverseOperator(o), o` for every `o` with a Python identity and returns the empty chain, which is ill
typed when `o` is not square (`inverseBinaryRule_not_RuleSound` below; nothing in `RuleLaws` can repair a
purely structural mismatch).  Soundness over all STRUCTURALLY well-formed pairs (`Sem.RuleSound`, i.e.
`RuleSoundOn StructOK`) still fails in the intended semantics, for the lazy inverse of a singular operand
(finding F13).  The rules are only correct on operands that passed their constructors' validation.  That
validation is the recursive predicate `WTExpr`, and the rules are proved sound relative to it
(`Sem.RuleSoundOn`, FuraxProofs/Lemmas/ScanOn.lean): on `WTExpr` operands a firing rule returns `WTExpr`
operands forming a well-typed chain with the same denotation.

* `WTExpr inv leafOK o` — recursive well-formedness of an expression (FuraxProofs/Lemmas/WellFormed.lean; it
  implies the structural well-formedness `StructOK` that guards the laws `honest` / `homogeneous` of `OpSem`);
* `RuleLaws A` — the semantic leaf laws the rules rely on (discharged elsewhere, kernel by kernel);
* `RedSound A laws red` — what the block rules need of the recursive `reduce` call;
* `inverseBinaryRule_sound`, …, `linearPolarizerHWPRule_sound`, `binaryRules_sound`.
-/
import FuraxProofs.Lemmas.ArithSound
import FuraxProofs.Lemmas.ScanOn
namespace Furax
open Op

/-! ### chains

(`WrapCls.isLazy`, `Chain`, `WrapOK`, `ContOK`, `WTExpr`, `WTList`, `WTList_iff`, `Chain_tail` are in
FuraxProofs/Lemmas/WellFormed.lean.) -/

theorem Chain_iff_WT {V : Type} (L : OpSem V) (ops : List Op) (hne : ops ≠ []) :
    Chain ops ↔ L.toSem.WT ops (inSLast ops) (outSHead ops) := by
  induction ops with
  | nil => exact absurd rfl hne
  | cons o os ih =>
    cases os with
    | nil => simp [Chain, Sem.WT, inSLast, outSHead]
    | cons b rest =>
      have := ih (by simp)
      simp only [Chain, Sem.WT, inSLast, outSHead, OpSem.toSem_outS, OpSem.toSem_inS, true_and] at this ⊢
      rw [this]
      constructor
      · rintro ⟨h1, h2⟩; exact ⟨h1.symm, h2⟩
      · rintro ⟨h1, h2⟩; exact ⟨h1.symm, h2⟩

theorem WT_Chain {V : Type} (L : OpSem V) (ops : List Op) (s t : Struct) (h : L.toSem.WT ops s t) :
    Chain ops := by
  induction ops generalizing t with
  | nil => trivial
  | cons o os ih =>
    cases os with
    | nil => trivial
    | cons b rest =>
      obtain ⟨_, h2⟩ := h
      exact ⟨h2.1.symm, ih _ h2⟩

theorem WT_ends {V : Type} (L : OpSem V) (ops : List Op) (s t : Struct) (hne : ops ≠ [])
    (h : L.toSem.WT ops s t) : inSLast ops = s ∧ outSHead ops = t := by
  induction ops generalizing t with
  | nil => exact absurd rfl hne
  | cons o os ih =>
    cases os with
    | nil =>
      obtain ⟨h1, h2⟩ := h
      exact ⟨h2.symm, h1⟩
    | cons b rest =>
      obtain ⟨h1, h2⟩ := h
      exact ⟨(ih _ (by simp) h2).1, h1⟩

/-! ### the leaf laws -/

/-- the diagonal operator `TransposeIndexRule.apply` builds -/
def transposeIndexDiag (p : Params) (axis : Int) (sizeMax : Nat) (vals : List Int) : Params :=
  { inS := p.inS, outS := p.inS,
    vals := ⟨[sizeMax], (ruleCoverage sizeMax vals).map (fun (c : Nat) => (c : Rat))⟩,
    ints := [[axis]] }

/-- slot-wise products: `ps[i]` has the structures and the denotation of `ls[i] ∘ rs[i]` -/
def ProdRel {V : Type} (A : ArithSem V) : List Op → List Op → List Op → Prop
  | [], [], [] => True
  | l :: ls, r :: rs, p :: ps =>
    (Op.inS l = Op.outS r ∧ Op.inS p = Op.inS r ∧ Op.outS p = Op.outS l ∧
      ∀ x, A.mem (Op.inS r) x → A.den p x = A.den l (A.den r x)) ∧ ProdRel A ls rs ps
  | _, _, _ => False

/-- the four (left class, right class, result class) triples of the registered block rules -/
def BlockTriple (lk rk res : ContCls) : Prop :=
  (lk = .blockRow ∧ rk = .blockDiag ∧ res = .blockRow) ∨
  (lk = .blockDiag ∧ rk = .blockCol ∧ res = .blockCol) ∨
  (lk = .blockDiag ∧ rk = .blockDiag ∧ res = .blockDiag) ∨
  (lk = .blockRow ∧ rk = .blockCol ∧ res = .add)

/-- **The semantic leaf laws the binary rules rely on.**  Every field except `leafOK` is a statement about
`A.den` of the operator shapes one rule matches, guarded by the validity `leafOK` of the leaves involved; they
are discharged elsewhere, kernel by kernel.  `leafOK c p` is the abstract "the parameters `p` passed the
validation of class `c`'s constructor"; it is data so that the discharger can choose it.

None of the fields is an idealisation: the invertibility of the operand of a lazy inverse (false for a singular
diagonal, finding F13) is NOT a law here but part of the hypothesis `WTExpr A.invertible …` on the expression. -/
structure RuleLaws {V : Type} (A : ArithSem V) where
  /-- validity of leaf parameters -/
  leafOK : LeafCls → Params → Prop
  /-- the objects the modelled code creates are valid -/
  ok_identity : ∀ s, leafOK .identity { inS := s, outS := s }
  ok_homothety : ∀ v s, leafOK .homothety { inS := s, outS := s, vals := Tensor.scalar v }
  /-- a rotation is invertible (orthogonal) -/
  qurot_inv : ∀ u p, leafOK .qurot p → A.invertible (.leaf u .qurot p)
  /-- `MoveAxisInverseRule`: two move-axis operators with swapped source/destination undo each other, and then
  the outer output structure is the inner input structure -/
  moveaxis_pair : ∀ ul pl ur pr, leafOK .moveAxis pl → leafOK .moveAxis pr →
    pl.ints.getD 0 [] = pr.ints.getD 1 [] → pl.ints.getD 1 [] = pr.ints.getD 0 [] → pl.inS = pr.outS →
    pl.outS = pr.inS ∧
    ∀ x, A.mem pr.inS x → A.den (.leaf ul .moveAxis pl) (A.den (.leaf ur .moveAxis pr) x) = x
  /-- `ReshapeInverseRule`: `ReshapeTransposeOperator(o)` undoes the ravel/reshape `o`, both ways -/
  reshape_pair : ∀ u uo c p, (c = .ravel ∨ c = .reshape) → leafOK c p →
    (∀ x, A.mem p.inS x → A.den (.wrap u .reshapeT (.leaf uo c p)) (A.den (.leaf uo c p) x) = x) ∧
    (∀ x, A.mem p.outS x → A.den (.leaf uo c p) (A.den (.wrap u .reshapeT (.leaf uo c p)) x) = x)
  /-- `PackUnpackRule`: pack ∘ packᵀ = id -/
  pack_pair : ∀ u uo p, leafOK .pack p → ∀ x, A.mem p.outS x →
    A.den (.leaf uo .pack p) (A.den (.wrap u .transpose (.leaf uo .pack p)) x) = x
  /-- `IndexTransposeRule`: with unique indices, index ∘ indexᵀ = id -/
  index_pair : ∀ u uo p, leafOK .index p → p.flag = true → ∀ x, A.mem p.outS x →
    A.den (.leaf uo .index p) (A.den (.wrap u .transpose (.leaf uo .index p)) x) = x
  /-- `TransposeIndexRule`: indexᵀ ∘ index is the diagonal operator of the coverage counts -/
  index_mult : ∀ u uo p axis shape sh vals sizeMax, leafOK .index p → p.flag = false →
    (indexedAxes p.idx).length ≤ 1 → (indexedAxes p.idx).head? = some axis →
    ((p.inS.leaves.map (·.shape)).eraseDups).length ≤ 1 →
    ((p.inS.leaves.map (·.shape)).eraseDups).head? = some shape →
    pyGet? p.idx axis = some (.iarr sh vals) → pyGet? shape axis = some sizeMax →
    leafOK .diagonal (transposeIndexDiag p axis sizeMax vals) ∧
    ∀ x, A.mem p.inS x → A.den (.leaf 0 .diagonal (transposeIndexDiag p axis sizeMax vals)) x =
      A.den (.wrap u .transpose (.leaf uo .index p)) (A.den (.leaf uo .index p) x)
  /-- `QURotationRule`, the four cases: R(a) R(b) = R(a+b), R(a) R(b)ᵀ = R(a-b), R(a)ᵀ R(b) = R(b-a),
  R(a)ᵀ R(b)ᵀ = R(-a-b) -/
  rot_rot : ∀ ul pl ur pr a, leafOK .qurot pl → leafOK .qurot pr → pl.inS = pr.inS →
    tensorOp (· + ·) pl.vals pr.vals = .ok a →
    leafOK .qurot { inS := pr.inS, outS := pr.inS, vals := a } ∧
    ∀ x, A.mem pr.inS x → A.den (mkQURot a pr.inS) x =
      A.den (.leaf ul .qurot pl) (A.den (.leaf ur .qurot pr) x)
  rot_rotT : ∀ ul pl uw ur pr a, leafOK .qurot pl → leafOK .qurot pr → pl.inS = pr.inS →
    tensorOp (· - ·) pl.vals pr.vals = .ok a →
    leafOK .qurot { inS := pr.inS, outS := pr.inS, vals := a } ∧
    ∀ x, A.mem pr.inS x → A.den (mkQURot a pr.inS) x =
      A.den (.leaf ul .qurot pl) (A.den (.wrap uw .qurotT (.leaf ur .qurot pr)) x)
  rotT_rot : ∀ uw ul pl ur pr a, leafOK .qurot pl → leafOK .qurot pr → pl.inS = pr.inS →
    tensorOp (· - ·) pr.vals pl.vals = .ok a →
    leafOK .qurot { inS := pr.inS, outS := pr.inS, vals := a } ∧
    ∀ x, A.mem pr.inS x → A.den (mkQURot a pr.inS) x =
      A.den (.wrap uw .qurotT (.leaf ul .qurot pl)) (A.den (.leaf ur .qurot pr) x)
  rotT_rotT : ∀ uw ul pl uw' ur pr a, leafOK .qurot pl → leafOK .qurot pr → pl.inS = pr.inS →
    tensorOp (· - ·) (pl.vals.map (- ·)) pr.vals = .ok a →
    leafOK .qurot { inS := pr.inS, outS := pr.inS, vals := a } ∧
    ∀ x, A.mem pr.inS x → A.den (mkQURot a pr.inS) x =
      A.den (.wrap uw .qurotT (.leaf ul .qurot pl)) (A.den (.wrap uw' .qurotT (.leaf ur .qurot pr)) x)
  /-- `QURotationHWPRule`: R(a) H = H R(a)ᵀ and R(a)ᵀ H = H R(a) -/
  rot_hwp : ∀ uw ul pl ur pr, leafOK .qurot pl → leafOK .hwp pr → pl.inS = pr.inS →
    ∀ x, A.mem pr.inS x →
      A.den (.leaf ur .hwp pr) (A.den (.wrap uw .qurotT (.leaf ul .qurot pl)) x) =
      A.den (.leaf ul .qurot pl) (A.den (.leaf ur .hwp pr) x)
  rotT_hwp : ∀ uw ul pl ur pr, leafOK .qurot pl → leafOK .hwp pr → pl.inS = pr.inS →
    ∀ x, A.mem pr.inS x →
      A.den (.leaf ur .hwp pr) (A.den (.leaf ul .qurot pl) x) =
      A.den (.wrap uw .qurotT (.leaf ul .qurot pl)) (A.den (.leaf ur .hwp pr) x)
  /-- `LinearPolarizerHWPRule`: P H = P -/
  polarizer_hwp : ∀ ul pl ur pr, leafOK .polarizer pl → leafOK .hwp pr → pl.inS = pr.inS →
    ∀ x, A.mem pr.inS x →
      A.den (.leaf ul .polarizer pl) x = A.den (.leaf ul .polarizer pl) (A.den (.leaf ur .hwp pr) x)
  /-- the four block rules: the container of the slot-wise products denotes the product of the containers
  (C10: `row_diag_rule`, `diag_col_rule`, `diag_diag_rule`, `row_col_rule`), for well-formed blocks and products
  (a faithful model needs the blocks to be honest, which it only has for well-formed operands) -/
  block_law : ∀ lk rk res, BlockTriple lk rk res → ∀ ul ur u td lops rops prods,
    WTList A.invertible leafOK lops → WTList A.invertible leafOK rops → WTList A.invertible leafOK prods →
    ContOK lk td lops → ContOK rk td rops → lops ≠ [] → ProdRel A lops rops prods →
    Op.inS (.cont ul lk td lops) = Op.outS (.cont ur rk td rops) →
    ∀ x, A.mem (Op.inS (.cont ur rk td rops)) x →
      A.den (.cont u res td prods) x = A.den (.cont ul lk td lops) (A.den (.cont ur rk td rops) x)

namespace RuleLaws
variable {V : Type} {A : ArithSem V} (laws : RuleLaws A)

/-- well-formedness relative to the model's invertibility predicate and the laws' leaf validity -/
abbrev WT (o : Op) : Prop := WTExpr A.invertible laws.leafOK o

theorem WT_mkIdentity (s : Struct) : laws.WT (mkIdentity s) := by
  simp only [WT, mkIdentity, WTExpr]; exact laws.ok_identity s

theorem WT_mkHomothety (v : Rat) (s : Struct) : laws.WT (mkHomothety v s) := by
  simp only [WT, mkHomothety, WTExpr]; exact laws.ok_homothety v s

/-- a well-formed expression is structurally well formed (`WTExpr.structOK`) -/
theorem WT_structOK (o : Op) (h : laws.WT o) : StructOK o := WTExpr.structOK h

end RuleLaws

/-- what the block rules need of the recursive call `red` (it is `reduce fuel`): on well-formed input the
result is well formed, has the same structures and the same denotation -/
def RedSound {V : Type} (A : ArithSem V) (laws : RuleLaws A) (red : Op → Except PyErr Op) : Prop :=
  ∀ o r, laws.WT o → red o = .ok r →
    laws.WT r ∧ Op.inS r = Op.inS o ∧ Op.outS r = Op.outS o ∧
    ∀ x, A.mem (Op.inS o) x → A.den r x = A.den o x

/-! ### the rules, one by one -/

section Rules
variable {V : Type} (A : ArithSem V) (laws : RuleLaws A)

theorem WT_wrap (u : Nat) (k : WrapCls) (o : Op) :
    laws.WT (.wrap u k o) ↔ laws.WT o ∧ WrapOK A.invertible k o := by
  simp only [RuleLaws.WT, WTExpr]

theorem WT_leaf (u : Nat) (c : LeafCls) (p : Params) : laws.WT (.leaf u c p) ↔ laws.leafOK c p := by
  simp only [RuleLaws.WT, WTExpr]

theorem isLazy_of_isLazyInverse (u : Nat) (k : WrapCls) (o : Op)
    (h : (Op.wrap u k o).isLazyInverse = true) : k.isLazy := by
  cases k <;> simp_all [isLazyInverse, WrapCls.isLazy]

/-- the conclusion of `RuleSoundOn` for a rule that returns the empty chain -/
theorem sound_nil (l r : Op) (hs : Op.inS r = Op.outS l)
    (hd : ∀ x, A.mem (Op.inS r) x → A.den l (A.den r x) = x) :
    (∀ o ∈ ([] : List Op), laws.WT o) ∧
    A.toOpSem.toSem.WT [] (A.toOpSem.toSem.inS r) (A.toOpSem.toSem.outS l) ∧
    ∀ x, A.toOpSem.toSem.mem (A.toOpSem.toSem.inS r) x →
      A.toOpSem.toSem.app [] x = A.toOpSem.toSem.den l (A.toOpSem.toSem.den r x) :=
  ⟨fun _ h => by simp at h, hs, fun x hx => (hd x hx).symm⟩

/-- the conclusion of `RuleSoundOn` for a rule that returns one operator -/
theorem sound_single (l r n : Op) (hw : laws.WT n) (hi : Op.inS n = Op.inS r) (ho : Op.outS n = Op.outS l)
    (hd : ∀ x, A.mem (Op.inS r) x → A.den n x = A.den l (A.den r x)) :
    (∀ o ∈ [n], laws.WT o) ∧
    A.toOpSem.toSem.WT [n] (A.toOpSem.toSem.inS r) (A.toOpSem.toSem.outS l) ∧
    ∀ x, A.toOpSem.toSem.mem (A.toOpSem.toSem.inS r) x →
      A.toOpSem.toSem.app [n] x = A.toOpSem.toSem.den l (A.toOpSem.toSem.den r x) :=
  ⟨fun o h => by rw [List.mem_singleton] at h; subst h; exact hw, ⟨ho, hi.symm⟩, fun x hx => hd x hx⟩

/-- `InverseBinaryRule`: `A.I @ A` and `A @ A.I` vanish.  Uses the invertibility and squareness of the operand
of a lazy inverse, which are part of `WTExpr` (finding F13: not guaranteed by furax for a singular diagonal). -/
theorem inverseBinaryRule_sound : A.toOpSem.toSem.RuleSoundOn laws.WT inverseBinaryRule := by
  intro l r new hl hr hf hlr
  simp only [inverseBinaryRule] at hf
  split at hf
  · simp at hf
  · split at hf
    · rename_i hlazy
      cases l with
      | wrap u k o =>
        have hk := isLazy_of_isLazyInverse u k o hlazy
        simp only [operator?] at hf
        split at hf
        · rename_i hs
          have := Op.same_eq _ _ hs; subst this
          simp only [Except.ok.injEq, Option.some.injEq] at hf; subst hf
          obtain ⟨_, hok⟩ := (WT_wrap A laws u k o).mp hl
          obtain ⟨hsq, hinv⟩ := hok.1 hk
          exact sound_nil A laws _ _ (by rw [ArithSem.wrap_outS]) (fun x hx => A.inv_left u k o hinv hk hok.2.1 x hx)
        · simp at hf
      | _ => simp [isLazyInverse] at hlazy
    · rename_i hnl
      cases r with
      | wrap u k o =>
        simp only [operator?] at hf
        split at hf
        · rename_i hs
          have := Op.same_eq _ _ hs; subst this
          simp only [Except.ok.injEq, Option.some.injEq] at hf; subst hf
          rename_i hor
          have hrl : (Op.wrap u k o).isLazyInverse = true := by simpa [hnl] using hor
          have hk := isLazy_of_isLazyInverse u k o hrl
          obtain ⟨_, hok⟩ := (WT_wrap A laws u k o).mp hr
          obtain ⟨hsq, hinv⟩ := hok.1 hk
          exact sound_nil A laws _ _ (by rw [ArithSem.wrap_inS_sq u k o hsq, hsq])
            (fun x hx => A.inv_right u k o hinv hk hok.2.1 x hx)
        · simp at hf
      | _ => simp [operator?] at hf

/-- `MoveAxisInverseRule` -/
theorem moveAxisInverseRule_sound : A.toOpSem.toSem.RuleSoundOn laws.WT moveAxisInverseRule := by
  intro l r new hl hr hf hlr
  simp only [moveAxisInverseRule] at hf
  split at hf
  · rename_i ul pl ur pr
    split at hf
    · simp at hf
    · rename_i hc
      simp only [Except.ok.injEq, Option.some.injEq] at hf; subst hf
      simp only [Bool.or_eq_true, bne_iff_ne, ne_eq, not_or, Decidable.not_not] at hc
      have hlr' : pl.inS = pr.outS := by simpa [Op.inS, Op.outS, squareLeaf] using hlr
      obtain ⟨hs, hd⟩ := laws.moveaxis_pair ul pl ur pr ((WT_leaf A laws _ _ _).mp hl)
        ((WT_leaf A laws _ _ _).mp hr) hc.1 hc.2 hlr'
      exact sound_nil A laws _ _ (by simp [Op.inS, Op.outS, squareLeaf, hs]) hd
  · simp at hf

/-- `ReshapeInverseRule` -/
theorem reshapeInverseRule_sound : A.toOpSem.toSem.RuleSoundOn laws.WT reshapeInverseRule := by
  intro l r new hl hr hf hlr
  simp only [reshapeInverseRule] at hf
  split at hf
  · simp at hf
  rename_i hA
  split at hf
  · simp at hf
  split at hf
  · -- `l` is a ravel/reshape leaf, `r` its `ReshapeTransposeOperator`
    rename_i hlrr
    split at hf
    · simp at hf
    rename_i hrt
    cases r with
    | wrap u k o =>
      have hk : WrapCls.reshapeT = k := by simpa [isReshapeT, isWrapCls] using hrt
      subst hk
      simp only [operator?] at hf
      split at hf
      · rename_i hs
        have := Op.same_eq _ _ hs; subst this
        simp only [Except.ok.injEq, Option.some.injEq] at hf; subst hf
        cases o with
        | leaf uo c p =>
          have hc : c = .ravel ∨ c = .reshape := by cases c <;> simp_all [isRavelOrReshape]
          obtain ⟨_, h2⟩ := laws.reshape_pair u uo c p hc ((WT_leaf A laws _ _ _).mp hl)
          refine sound_nil A laws _ _ (by simp [Op.inS]) (fun x hx => h2 x ?_)
          have : Op.outS (Op.leaf uo c p) = p.outS := by
            rcases hc with rfl | rfl <;> simp [Op.outS, squareLeaf]
          rw [← this]; simpa [Op.inS] using hx
        | _ => simp [isRavelOrReshape] at hlrr
      · simp at hf
    | _ => simp [isReshapeT, isWrapCls] at hrt
  · -- `l` is the `ReshapeTransposeOperator` of the ravel/reshape leaf `r`
    rename_i hlrr
    split at hf
    · simp at hf
    rename_i hrr
    cases l with
    | wrap u k o =>
      have hk : WrapCls.reshapeT = k := by simpa [isRavelOrReshape, isReshapeT, isWrapCls] using hA
      subst hk
      simp only [operator?] at hf
      split at hf
      · rename_i hs
        have := Op.same_eq _ _ hs; subst this
        simp only [Except.ok.injEq, Option.some.injEq] at hf; subst hf
        cases o with
        | leaf uo c p =>
          have hc : c = .ravel ∨ c = .reshape := by cases c <;> simp_all [isRavelOrReshape]
          obtain ⟨h1, _⟩ := laws.reshape_pair u uo c p hc ((WT_leaf A laws _ _ _).mp hr)
          exact sound_nil A laws _ _ (by simp [Op.outS]) (fun x hx => h1 x (by simpa [Op.inS] using hx))
        | _ => simp [isRavelOrReshape] at hrr
      · simp at hf
    | _ => simp [operator?] at hf

/-- `PackUnpackRule` -/
theorem packUnpackRule_sound : A.toOpSem.toSem.RuleSoundOn laws.WT packUnpackRule := by
  intro l r new hl hr hf hlr
  simp only [packUnpackRule] at hf
  split at hf
  · simp at hf
  rename_i hp
  split at hf
  · simp at hf
  rename_i ht
  cases r with
  | wrap u k o =>
    simp only [operator?] at hf
    split at hf
    · rename_i hs
      have := Op.same_eq _ _ hs; subst this
      simp only [Except.ok.injEq, Option.some.injEq] at hf; subst hf
      cases o with
      | leaf uo c p =>
        have hc : LeafCls.pack = c := by simpa [isPack, isLeafCls] using hp
        subst hc
        obtain ⟨_, hok⟩ := (WT_wrap A laws _ _ _).mp hr
        have hk : k = .transpose := by
          cases k
          · rfl
          · simp [isTransposeOperator] at ht
          · have := hok.2.2.1 rfl; simp [isRavelOrReshape] at this
          · have := hok.2.1 rfl; simp [isQURot, isLeafCls] at this
          · simp [isTransposeOperator] at ht
          · have := hok.2.2.2 rfl; simp [isLeafCls] at this
        subst hk
        exact sound_nil A laws _ _ (by simp [Op.inS, Op.outS])
          (fun x hx => laws.pack_pair u uo p ((WT_leaf A laws _ _ _).mp hl) x
            (by simpa [Op.inS, Op.outS, squareLeaf] using hx))
      | _ => simp [isPack, isLeafCls] at hp
    · simp at hf
  | _ => simp [isTransposeOperator] at ht

/-- a transpose-class wrapper of a leaf that is neither a ravel/reshape, a rotation nor an observation matrix is
the generic `TransposeOperator` -/
theorem transposeK_of (u : Nat) (k : WrapCls) (uo : Nat) (c : LeafCls) (p : Params)
    (ht : (Op.wrap u k (.leaf uo c p)).isTransposeOperator = true)
    (hok : WrapOK A.invertible k (.leaf uo c p))
    (h1 : c ≠ .ravel) (h2 : c ≠ .reshape) (h3 : c ≠ .qurot) (h4 : c ≠ .obsMatrix) : k = .transpose := by
  cases k
  · rfl
  · simp [isTransposeOperator] at ht
  · have := hok.2.2.1 rfl; cases c <;> simp_all [isRavelOrReshape]
  · have := hok.2.1 rfl; cases c <;> simp_all [isQURot, isLeafCls]
  · simp [isTransposeOperator] at ht
  · have := hok.2.2.2 rfl; cases c <;> simp_all [isLeafCls]

/-- `IndexTransposeRule` -/
theorem indexTransposeRule_sound : A.toOpSem.toSem.RuleSoundOn laws.WT indexTransposeRule := by
  intro l r new hl hr hf hlr
  simp only [indexTransposeRule] at hf
  split at hf
  · rename_i ul p
    split at hf
    · simp at hf
    rename_i ht
    cases r with
    | wrap u k o =>
      simp only [operator?] at hf
      split at hf
      · simp at hf
      rename_i hs
      have hs' : same o (Op.leaf ul LeafCls.index p) = true := by simpa using hs
      have := Op.same_eq _ _ hs'; subst this
      split at hf
      · simp at hf
      rename_i hflag
      simp only [Except.ok.injEq, Option.some.injEq] at hf; subst hf
      obtain ⟨_, hok⟩ := (WT_wrap A laws _ _ _).mp hr
      have hk := transposeK_of A u k ul .index p (by simpa using ht) hok (by simp) (by simp) (by simp) (by simp)
      subst hk
      exact sound_nil A laws _ _ (by simp [Op.inS, Op.outS])
        (fun x hx => laws.index_pair u ul p ((WT_leaf A laws _ _ _).mp hl) (by simpa using hflag) x
          (by simpa [Op.inS, Op.outS, squareLeaf] using hx))
    | _ => simp [isTransposeOperator] at ht
  · simp at hf

/-- `TransposeIndexRule` -/
theorem transposeIndexRule_sound : A.toOpSem.toSem.RuleSoundOn laws.WT transposeIndexRule := by
  intro l r new hl hr hf hlr
  simp only [transposeIndexRule] at hf
  split at hf
  · rename_i ur p
    split at hf
    · simp at hf
    rename_i ht
    cases l with
    | wrap u k o =>
      simp only [operator?] at hf
      split at hf
      · simp at hf
      rename_i hs
      have hs' : same o (Op.leaf ur LeafCls.index p) = true := by simpa using hs
      have := Op.same_eq _ _ hs'; subst this
      obtain ⟨_, hok⟩ := (WT_wrap A laws _ _ _).mp hl
      have hk := transposeK_of A u k ur .index p (by simpa using ht) hok (by simp) (by simp) (by simp) (by simp)
      subst hk
      split at hf
      · simp at hf
      rename_i hax
      split at hf
      · simp at hf
      rename_i hflag
      split at hf
      · simp at hf
      split at hf
      · simp at hf
      rename_i hsh
      split at hf
      · rename_i shape axis hshape haxis
        split at hf
        · rename_i sh vals sizeMax hidx hsize
          simp only [Except.ok.injEq, Option.some.injEq] at hf; subst hf
          obtain ⟨hok', hden⟩ := laws.index_mult u ur p axis shape sh vals sizeMax
            ((WT_leaf A laws _ _ _).mp hr) (by simpa using hflag) (by simpa using hax) haxis
            (by simpa using hsh) hshape hidx hsize
          exact sound_single A laws _ _ _ ((WT_leaf A laws _ _ _).mpr hok')
            (by simp [Op.inS]) (by simp [Op.inS, Op.outS, squareLeaf])
            (fun x hx => hden x (by simpa [Op.inS] using hx))
        · simp at hf
        · simp at hf
      · simp at hf
    | _ => simp [isTransposeOperator] at ht
  · simp at hf

/-- on well-formed operands, the test `isinstance(·, (QURotationOperator, QURotationTransposeOperator))`
leaves two shapes -/
theorem qurot_shape (o : Op) (h : (o.isQURot || o.isQURotT) = true) (hw : laws.WT o) :
    (∃ u p, o = .leaf u .qurot p ∧ laws.leafOK .qurot p) ∨
    (∃ uw u p, o = .wrap uw .qurotT (.leaf u .qurot p) ∧ laws.leafOK .qurot p) := by
  cases o with
  | leaf u c p =>
    have hc : LeafCls.qurot = c := by simpa [isQURot, isQURotT, isLeafCls, isWrapCls] using h
    subst hc
    exact .inl ⟨u, p, rfl, (WT_leaf A laws _ _ _).mp hw⟩
  | wrap uw k o =>
    have hk : WrapCls.qurotT = k := by simpa [isQURot, isQURotT, isLeafCls, isWrapCls] using h
    subst hk
    obtain ⟨hwo, hok⟩ := (WT_wrap A laws _ _ _).mp hw
    have hq := hok.2.1 rfl
    cases o with
    | leaf u c p =>
      have hc : LeafCls.qurot = c := by simpa [isQURot, isLeafCls] using hq
      subst hc
      exact .inr ⟨uw, u, p, rfl, (WT_leaf A laws _ _ _).mp hwo⟩
    | _ => simp [isQURot, isLeafCls] at hq
  | _ => simp [isQURot, isQURotT, isLeafCls, isWrapCls] at h

theorem WT_mkQURot (a : Tensor Rat) (s : Struct)
    (h : laws.leafOK .qurot { inS := s, outS := s, vals := a }) : laws.WT (mkQURot a s) := by
  simp only [RuleLaws.WT, mkQURot, WTExpr]; exact h

/-- `QURotationRule` -/
theorem quRotationRule_sound : A.toOpSem.toSem.RuleSoundOn laws.WT quRotationRule := by
  intro l r new hl hr hf hlr
  simp only [quRotationRule] at hf
  split at hf
  · simp at hf
  rename_i hA
  split at hf
  · simp at hf
  rename_i hB
  rcases qurot_shape A laws l (by revert hA; cases (l.isQURot || l.isQURotT) <;> simp) hl with
    ⟨ul, pl, rfl, hpl⟩ | ⟨uw, ul, pl, rfl, hpl⟩ <;>
  rcases qurot_shape A laws r (by revert hB; cases (r.isQURot || r.isQURotT) <;> simp) hr with ⟨ur, pr, rfl, hpr⟩ | ⟨uw', ur, pr, rfl, hpr⟩
  · have hs : pl.inS = pr.inS := by simpa [Op.inS, Op.outS, squareLeaf] using hlr
    simp only [isQURot, isLeafCls, anglesOf, beq_self_eq_true, if_true] at hf
    split at hf
    · simp at hf
    · rename_i a ha
      simp only [Except.ok.injEq, Option.some.injEq] at hf; subst hf
      obtain ⟨hok, hden⟩ := laws.rot_rot ul pl ur pr a hpl hpr hs ha
      exact sound_single A laws _ _ _ (WT_mkQURot A laws _ _ hok) (by simp [mkQURot, Op.inS])
        (by simp [mkQURot, Op.inS, Op.outS, squareLeaf, hs]) (fun x hx => hden x (by simpa [Op.inS] using hx))
  · have hs : pl.inS = pr.inS := by simpa [Op.inS, Op.outS, squareLeaf] using hlr
    simp only [isQURot, isLeafCls, anglesOf, beq_self_eq_true, if_true] at hf
    split at hf
    · simp at hf
    · rename_i a ha
      simp only [Except.ok.injEq, Option.some.injEq] at hf; subst hf
      obtain ⟨hok, hden⟩ := laws.rot_rotT ul pl uw' ur pr a hpl hpr hs (by simpa using ha)
      exact sound_single A laws _ _ _ (WT_mkQURot A laws _ _ hok)
        (by simp [mkQURot, Op.inS, Op.outS, squareLeaf])
        (by simp [mkQURot, Op.inS, Op.outS, squareLeaf, hs])
        (fun x hx => hden x (by simpa [Op.inS, Op.outS, squareLeaf] using hx))
  · have hs : pl.inS = pr.inS := by simpa [Op.inS, Op.outS, squareLeaf] using hlr
    simp only [isQURot, isLeafCls, anglesOf, beq_self_eq_true, if_true] at hf
    split at hf
    · simp at hf
    · rename_i a ha
      simp only [Except.ok.injEq, Option.some.injEq] at hf; subst hf
      obtain ⟨hok, hden⟩ := laws.rotT_rot uw ul pl ur pr a hpl hpr hs (by simpa using ha)
      exact sound_single A laws _ _ _ (WT_mkQURot A laws _ _ hok) (by simp [mkQURot, Op.inS])
        (by simp [mkQURot, Op.inS, Op.outS, squareLeaf, hs]) (fun x hx => hden x (by simpa [Op.inS] using hx))
  · have hs : pl.inS = pr.inS := by simpa [Op.inS, Op.outS, squareLeaf] using hlr
    simp only [isQURot, isLeafCls, anglesOf] at hf
    split at hf
    · simp at hf
    · rename_i a ha
      simp only [Except.ok.injEq, Option.some.injEq] at hf; subst hf
      obtain ⟨hok, hden⟩ := laws.rotT_rotT uw ul pl uw' ur pr a hpl hpr hs (by simpa using ha)
      exact sound_single A laws _ _ _ (WT_mkQURot A laws _ _ hok)
        (by simp [mkQURot, Op.inS, Op.outS, squareLeaf])
        (by simp [mkQURot, Op.inS, Op.outS, squareLeaf, hs])
        (fun x hx => hden x (by simpa [Op.inS, Op.outS, squareLeaf] using hx))

theorem hwp_shape (r : Op) (h : r.isHWP = true) (hw : laws.WT r) :
    ∃ u p, r = .leaf u .hwp p ∧ laws.leafOK .hwp p := by
  cases r with
  | leaf u c p =>
    have hc : LeafCls.hwp = c := by simpa [isHWP, isLeafCls] using h
    subst hc
    exact ⟨u, p, rfl, (WT_leaf A laws _ _ _).mp hw⟩
  | _ => simp [isHWP, isLeafCls] at h

/-- the `QURotationTransposeOperator` of a valid rotation is well formed -/
theorem WT_qurotT (uw u : Nat) (p : Params) (hp : laws.leafOK .qurot p) :
    laws.WT (.wrap uw .qurotT (.leaf u .qurot p)) := by
  rw [WT_wrap, WT_leaf]
  refine ⟨hp, fun _ => ⟨by simp [Op.inS, Op.outS, squareLeaf], laws.qurot_inv u p hp⟩, fun _ => ?_,
    fun h => by simp at h, fun h => by simp at h⟩
  simp [isQURot, isLeafCls]

/-- `QURotationHWPRule` -/
theorem quRotationHWPRule_sound : A.toOpSem.toSem.RuleSoundOn laws.WT quRotationHWPRule := by
  intro l r new hl hr hf hlr
  simp only [quRotationHWPRule] at hf
  split at hf
  · simp at hf
  rename_i hA
  split at hf
  · simp at hf
  rename_i hB
  obtain ⟨ur, pr, rfl, hpr⟩ := hwp_shape A laws r (by simpa using hB) hr
  rcases qurot_shape A laws l (by revert hA; cases (l.isQURot || l.isQURotT) <;> simp) hl with
    ⟨ul, pl, rfl, hpl⟩ | ⟨uw, ul, pl, rfl, hpl⟩
  · have hs : pl.inS = pr.inS := by simpa [Op.inS, Op.outS, squareLeaf] using hlr
    simp only [Except.ok.injEq, Option.some.injEq] at hf; subst hf
    refine ⟨?_, ?_, fun x hx => ?_⟩
    · intro o ho
      simp only [List.mem_cons, List.not_mem_nil, or_false] at ho
      rcases ho with rfl | rfl
      · exact hr
      · exact WT_qurotT A laws 0 ul pl hpl
    · simp [Sem.WT, Op.inS, Op.outS, squareLeaf, hs]
    · exact laws.rot_hwp 0 ul pl ur pr hpl hpr hs x (by simpa [Op.inS] using hx)
  · have hs : pl.inS = pr.inS := by simpa [Op.inS, Op.outS, squareLeaf] using hlr
    simp only [Except.ok.injEq, Option.some.injEq] at hf; subst hf
    refine ⟨?_, ?_, fun x hx => ?_⟩
    · intro o ho
      simp only [List.mem_cons, List.not_mem_nil, or_false] at ho
      rcases ho with rfl | rfl
      · exact hr
      · exact (WT_leaf A laws _ _ _).mpr hpl
    · simp [Sem.WT, Op.inS, Op.outS, squareLeaf, hs]
    · exact laws.rotT_hwp uw ul pl ur pr hpl hpr hs x (by simpa [Op.inS] using hx)

/-- `LinearPolarizerHWPRule` -/
theorem linearPolarizerHWPRule_sound : A.toOpSem.toSem.RuleSoundOn laws.WT linearPolarizerHWPRule := by
  intro l r new hl hr hf hlr
  simp only [linearPolarizerHWPRule] at hf
  split at hf
  · rename_i hc
    simp only [Bool.and_eq_true] at hc
    simp only [Except.ok.injEq, Option.some.injEq] at hf; subst hf
    obtain ⟨ur, pr, rfl, hpr⟩ := hwp_shape A laws r hc.2 hr
    cases l with
    | leaf ul c pl =>
      have hcl : LeafCls.polarizer = c := by simpa [isPolarizer, isLeafCls] using hc.1
      subst hcl
      have hs : pl.inS = pr.inS := by simpa [Op.inS, Op.outS, squareLeaf] using hlr
      exact sound_single A laws _ _ _ hl (by simp [Op.inS, hs]) rfl
        (fun x hx => laws.polarizer_hwp ul pl ur pr ((WT_leaf A laws _ _ _).mp hl) hpr hs x
          (by simpa [Op.inS] using hx))
    | _ => simp [isPolarizer, isLeafCls] at hc
  · simp at hf

/-! ### the block rules -/

theorem WT_comp_iff (u : Nat) (ops : List Op) :
    laws.WT (.comp u ops) ↔ ops ≠ [] ∧ (∀ o ∈ ops, laws.WT o) ∧ Chain ops := by
  simp only [RuleLaws.WT, WTExpr, WTList_iff]

theorem WT_cont_iff (u : Nat) (k : ContCls) (td : TreeDef) (ops : List Op) :
    laws.WT (.cont u k td ops) ↔ ops ≠ [] ∧ (∀ o ∈ ops, laws.WT o) ∧ ContOK k td ops := by
  simp only [RuleLaws.WT, WTExpr, WTList_iff]

theorem WT_mkComp (ops : List Op) (hne : ops ≠ []) (hw : ∀ o ∈ ops, laws.WT o) (hc : Chain ops) :
    laws.WT (mkComp ops) := (WT_comp_iff A laws 0 ops).mpr ⟨hne, hw, hc⟩

/-- a well-formed expression satisfies the top-level conditions `pyMatmul_den` asks for -/
theorem WFtop_of_WT (o : Op) (h : laws.WT o) : ArithSem.WFtop o ∧ A.LazyInvertible o := by
  refine ⟨⟨?_, ?_, ?_⟩, ?_⟩
  · intro u k o' he hk; subst he
    exact (((WT_wrap A laws _ _ _).mp h).2.1 hk).1
  · intro u ops he; subst he
    exact ((WT_comp_iff A laws _ _).mp h).1
  · intro u td ops he; subst he
    exact ((WT_cont_iff A laws _ _ _ _).mp h).1
  · intro u k o' he hk; subst he
    exact ⟨(((WT_wrap A laws _ _ _).mp h).2.1 hk).2, ((WT_wrap A laws _ _ _).mp h).2.2.1⟩

theorem baseMatmul_WT (a b r : Op) (ha : laws.WT a) (hb : laws.WT b)
    (h : baseMatmul a b = .ok (some r)) : laws.WT r := by
  unfold baseMatmul at h
  split at h
  · simp at h
  rename_i hs
  split at h
  · simp at h
  split at h
  · simp only [Except.ok.injEq, Option.some.injEq] at h; subst h
    exact laws.WT_mkIdentity _
  · simp only [Except.ok.injEq, Option.some.injEq] at h; subst h
    refine WT_mkComp A laws _ (by simp) ?_ ⟨by simpa using hs, trivial⟩
    intro o ho
    simp only [List.mem_cons, List.not_mem_nil, or_false] at ho
    rcases ho with rfl | rfl
    · exact ha
    · exact hb

/-- **`a @ b` of well-formed operands is well formed.** -/
theorem pyMatmul_WT (a b r : Op) (ha : laws.WT a) (hb : laws.WT b) (h : pyMatmul a b = .ok r) :
    laws.WT r := by
  have generic : matmulOf a b = baseMatmul a b → laws.WT r := by
    intro hm
    unfold pyMatmul at h
    rw [hm] at h
    cases hbm : baseMatmul a b with
    | error e => simp [hbm] at h
    | ok res =>
      cases res with
      | some r' =>
        simp only [hbm, Except.ok.injEq] at h; subst h
        exact baseMatmul_WT A laws a b r' ha hb hbm
      | none =>
        simp only [hbm] at h
        cases b with
        | comp u ops =>
          simp only at h
          split at h
          · simp at h
          rename_i hs
          simp only [Except.ok.injEq] at h; subst h
          obtain ⟨hne, hw, hc⟩ := (WT_comp_iff A laws _ _).mp hb
          have hs' : outSHead ops = Op.inS a := by simpa [Op.outS] using hs
          refine WT_mkComp A laws _ (by simp) ?_ ?_
          · intro o ho
            rw [List.mem_cons] at ho
            rcases ho with rfl | ho
            · exact ha
            · exact hw o ho
          · cases ops with
            | nil => exact absurd rfl hne
            | cons o os => exact ⟨by simpa [outSHead] using hs'.symm, hc⟩
        | leaf _ _ _ => simp at h
        | wrap _ _ _ => simp at h
        | cont _ _ _ _ => simp at h
  cases a with
  | comp u ops =>
    obtain ⟨hne, hw, hc⟩ := (WT_comp_iff A laws _ _).mp ha
    unfold pyMatmul matmulOf at h
    by_cases hs : (Op.inS (Op.comp u ops) != Op.outS b) = true
    · simp [hs] at h
    · have hs' : inSLast ops = Op.outS b := by simpa [Op.inS] using hs
      simp only [hs, Bool.false_eq_true, if_false] at h
      have hsingle : laws.WT (mkComp (ops ++ [b])) := by
        refine WT_mkComp A laws _ (by simp) ?_ ?_
        · intro o ho
          rw [List.mem_append, List.mem_singleton] at ho
          rcases ho with ho | rfl
          · exact hw o ho
          · exact hb
        · exact Chain_append _ _ hne (by simp) hc trivial (by simpa [outSHead] using hs')
      cases b with
      | comp u' ops' =>
        obtain ⟨hne', hw', hc'⟩ := (WT_comp_iff A laws _ _).mp hb
        simp only [Except.ok.injEq] at h; subst h
        refine WT_mkComp A laws _ (by simp [hne]) ?_ ?_
        · intro o ho
          rw [List.mem_append] at ho
          rcases ho with ho | ho
          · exact hw o ho
          · exact hw' o ho
        · exact Chain_append _ _ hne hne' hc hc' (by simpa [Op.outS] using hs')
      | leaf u' c p => simp only [Except.ok.injEq] at h; subst h; exact hsingle
      | wrap u' k o => simp only [Except.ok.injEq] at h; subst h; exact hsingle
      | cont u' k td os => simp only [Except.ok.injEq] at h; subst h; exact hsingle
  | cont u k td os => exact generic (by simp [matmulOf])
  | wrap u k o =>
    by_cases hl : lazyInverseOf (Op.wrap u k o) b = true
    · unfold pyMatmul matmulOf at h
      simp only [hl, if_true, Except.ok.injEq] at h
      subst h
      exact laws.WT_mkIdentity _
    · exact generic (by simp [matmulOf, hl])
  | leaf u c p =>
    by_cases hid : c = .identity
    · subst hid
      unfold pyMatmul matmulOf at h
      by_cases hs : (Op.inS (Op.leaf u .identity p) != Op.outS b) = true
      · simp [hs] at h
      · simp only [hs, Bool.false_eq_true, if_false, Except.ok.injEq] at h
        subst h
        exact hb
    · by_cases hh : c = .homothety
      · subst hh
        by_cases hbh : b.isHomothety = true
        · unfold pyMatmul matmulOf at h
          simp only [hbh, if_true] at h
          by_cases hs : (Op.inS (Op.leaf u .homothety p) != Op.outS b) = true
          · simp [hs] at h
          · simp only [hs, Bool.false_eq_true, if_false, Except.ok.injEq] at h
            subst h
            exact laws.WT_mkHomothety _ _
        · exact generic (by simp [matmulOf, hbh])
      · exact generic (by cases c <;> simp_all [matmulOf])

theorem ProdRel_structs (ls rs ps : List Op) (h : ProdRel A ls rs ps) :
    inSList ps = inSList rs ∧ outSList ps = outSList ls ∧ ps.length = ls.length ∧
    rs.length = ls.length := by
  induction ls generalizing rs ps with
  | nil =>
    cases rs <;> cases ps <;> simp_all [ProdRel, inSList, outSList]
  | cons l ls ih =>
    cases rs with
    | nil => simp [ProdRel] at h
    | cons r rs =>
      cases ps with
      | nil => simp [ProdRel] at h
      | cons p ps =>
        simp only [ProdRel] at h
        obtain ⟨⟨_, hi, ho, _⟩, hrest⟩ := h
        obtain ⟨h1, h2, h3, h4⟩ := ih rs ps hrest
        simp [inSList, outSList, hi, ho, h1, h2, h3, h4]

/-- the slot-wise products `left._tree_map(lambda l, r: l @ r, right.blocks)` of well-formed blocks are
well formed and denote the slot-wise composites -/
theorem prods_rel (lops rops prods : List Op) (hlen : lops.length = rops.length)
    (hl : ∀ o ∈ lops, laws.WT o) (hr : ∀ o ∈ rops, laws.WT o)
    (h : (lops.zip rops).mapM (fun (p : Op × Op) => pyMatmul p.1 p.2) = .ok prods) :
    ProdRel A lops rops prods ∧ ∀ o ∈ prods, laws.WT o := by
  induction lops generalizing rops prods with
  | nil =>
    cases rops with
    | nil =>
      simp only [List.zip_nil_left, List.mapM_nil, pure, Except.pure, Except.ok.injEq] at h
      subst h
      exact ⟨trivial, fun _ ho => by simp at ho⟩
    | cons r rs => simp at hlen
  | cons l ls ih =>
    cases rops with
    | nil => simp at hlen
    | cons r rs =>
      simp only [List.zip_cons_cons, List.mapM_cons, bind, Except.bind] at h
      cases hp : pyMatmul l r with
      | error e => simp [hp] at h
      | ok p =>
        simp only [hp] at h
        cases hps : List.mapM (fun (p : Op × Op) => pyMatmul p.1 p.2) (ls.zip rs) with
        | error e => simp [hps] at h
        | ok ps =>
          simp only [hps, pure, Except.pure, Except.ok.injEq] at h
          subst h
          have hlw := hl l List.mem_cons_self
          have hrw := hr r List.mem_cons_self
          obtain ⟨hrel, hws⟩ := ih rs ps (by simpa using hlen)
            (fun o ho => hl o (List.mem_cons_of_mem _ ho)) (fun o ho => hr o (List.mem_cons_of_mem _ ho)) hps
          obtain ⟨hfl, hfli⟩ := WFtop_of_WT A laws l hlw
          obtain ⟨hfr, hfri⟩ := WFtop_of_WT A laws r hrw
          refine ⟨⟨A.pyMatmul_den l r p hfl hfr (laws.WT_structOK r hrw) hfli hfri hp, hrel⟩, ?_⟩
          intro o ho
          rw [List.mem_cons] at ho
          rcases ho with rfl | ho
          · exact pyMatmul_WT A laws l r _ hlw hrw hp
          · exact hws o ho

/-- the four block rules (`AbstractBlockDiagonalRule.apply`), given that the recursive `reduce` call is sound -/
theorem blockRule_sound (red : Op → Except PyErr Op) (hred : RedSound A laws red) (name : String)
    (lk rk res : ContCls) (ht : BlockTriple lk rk res) :
    A.toOpSem.toSem.RuleSoundOn laws.WT (blockRule red name lk rk res) := by
  intro l r new hl hr hf hlr
  simp only [blockRule] at hf
  split at hf
  · rename_i ul lk' ltd lops ur rk' rtd rops
    split at hf
    · rename_i hk
      simp only [Bool.and_eq_true, beq_iff_eq] at hk
      obtain ⟨hk1, hk2⟩ := hk
      have hk1' := hk1.symm
      have hk2' := hk2.symm
      subst hk1' hk2'
      split at hf
      · simp at hf
      rename_i hc
      simp only [Bool.or_eq_true, bne_iff_ne, ne_eq, not_or, Decidable.not_not] at hc
      obtain ⟨htd, hlen⟩ := hc
      subst htd
      obtain ⟨hlne, hlw, hlok⟩ := (WT_cont_iff A laws _ _ _ _).mp hl
      obtain ⟨hrne, hrw, hrok⟩ := (WT_cont_iff A laws _ _ _ _).mp hr
      simp only [bind, Except.bind] at hf
      cases hps : List.mapM (fun (p : Op × Op) => pyMatmul p.1 p.2) (lops.zip rops) with
      | error e => simp [hps] at hf
      | ok prods =>
        simp only [hps] at hf
        cases hc' : red (Op.cont 0 res ltd prods) with
        | error e => simp [hc'] at hf
        | ok c' =>
          simp only [hc', pure, Except.pure, Except.ok.injEq, Option.some.injEq] at hf
          subst hf
          obtain ⟨hrel, hpw⟩ := prods_rel A laws lops rops prods hlen hlw hrw hps
          obtain ⟨hin, hout, hpl, _⟩ := ProdRel_structs A lops rops prods hrel
          have hpne : prods ≠ [] := by
            intro h0; subst h0
            exact hlne (List.length_eq_zero_iff.mp hpl.symm)
          have hhi : inSHead prods = inSHead rops := by rw [inSHead_headD, inSHead_headD, hin]
          have hho : outSHead prods = outSHead lops := by rw [outSHead_headD, outSHead_headD, hout]
          -- the container of the products is well formed …
          have hcw : laws.WT (Op.cont 0 res ltd prods) := by
            refine (WT_cont_iff A laws _ _ _ _).mpr ⟨hpne, hpw, ?_⟩
            refine ⟨by rw [hpl]; exact hlok.1, ?_⟩
            rcases ht with ⟨rfl, rfl, rfl⟩ | ⟨rfl, rfl, rfl⟩ | ⟨rfl, rfl, rfl⟩ | ⟨rfl, rfl, rfl⟩
            · exact allOut_congr lops prods hout hlok.2
            · exact allIn_congr rops prods hin hrok.2
            · trivial
            · intro o ho
              exact ⟨allIn_congr rops prods hin hrok.2 o ho, allOut_congr lops prods hout hlok.2 o ho⟩
          -- … and has the structures of the product
          have hsI : Op.inS (Op.cont 0 res ltd prods) = Op.inS (Op.cont ur rk ltd rops) := by
            rcases ht with ⟨rfl, rfl, rfl⟩ | ⟨rfl, rfl, rfl⟩ | ⟨rfl, rfl, rfl⟩ | ⟨rfl, rfl, rfl⟩ <;>
              simp only [Op.inS, hin, hhi]
          have hsO : Op.outS (Op.cont 0 res ltd prods) = Op.outS (Op.cont ul lk ltd lops) := by
            rcases ht with ⟨rfl, rfl, rfl⟩ | ⟨rfl, rfl, rfl⟩ | ⟨rfl, rfl, rfl⟩ | ⟨rfl, rfl, rfl⟩ <;>
              simp only [Op.outS, hout, hho]
          obtain ⟨hw', hi', ho', hd'⟩ := hred _ _ hcw hc'
          refine sound_single A laws _ _ c' hw' (by rw [hi', hsI]) (by rw [ho', hsO]) (fun x hx => ?_)
          rw [hd' x (by rw [hsI]; exact hx)]
          exact laws.block_law lk rk res ht ul ur 0 ltd lops rops prods ((WTList_iff _ _ _).mpr hlw)
            ((WTList_iff _ _ _).mpr hrw) ((WTList_iff _ _ _).mpr hpw) hlok hrok hlne hrel hlr x hx
    · simp at hf
  · simp at hf

/-! ### the registry -/

/-- **Every registered binary rule is sound on well-formed operands**, given the leaf laws and the soundness of
the recursive `reduce` call used by the block rules. -/
theorem binaryRules_sound (red : Op → Except PyErr Op) (hred : RedSound A laws red) :
    ∀ ru ∈ binaryRules red, A.toOpSem.toSem.RuleSoundOn laws.WT ru := by
  intro ru hm
  simp only [binaryRules, List.mem_cons, List.not_mem_nil, or_false] at hm
  rcases hm with rfl | rfl | rfl | rfl | rfl | rfl | rfl | rfl | rfl | rfl | rfl | rfl | rfl
  · exact inverseBinaryRule_sound A laws
  · exact moveAxisInverseRule_sound A laws
  · exact reshapeInverseRule_sound A laws
  · exact packUnpackRule_sound A laws
  · exact blockRule_sound A laws red hred _ _ _ _ (.inl ⟨rfl, rfl, rfl⟩)
  · exact blockRule_sound A laws red hred _ _ _ _ (.inr (.inl ⟨rfl, rfl, rfl⟩))
  · exact blockRule_sound A laws red hred _ _ _ _ (.inr (.inr (.inl ⟨rfl, rfl, rfl⟩)))
  · exact blockRule_sound A laws red hred _ _ _ _ (.inr (.inr (.inr ⟨rfl, rfl, rfl⟩)))
  · exact indexTransposeRule_sound A laws
  · exact transposeIndexRule_sound A laws
  · exact quRotationRule_sound A laws
  · exact quRotationHWPRule_sound A laws
  · exact linearPolarizerHWPRule_sound A laws

/-- The unrelativised form asked for originally (`Sem.RuleSound`: soundness on all structurally well-formed
operands) follows under the (unsatisfiable) idealisation that EVERY operator term is well formed.  Recorded only
to show how the relativised statement specialises; do not use. -/
theorem binaryRules_sound_of_total (hall : ∀ o, laws.WT o) (red : Op → Except PyErr Op)
    (hred : RedSound A laws red) : ∀ ru ∈ binaryRules red, A.toOpSem.toSem.RuleSound ru :=
  fun ru hm => A.toOpSem.toSem.RuleSound_of_RuleSoundOn laws.WT hall laws.WT_structOK ru
    (binaryRules_sound A laws red hred ru hm)

/-- **Soundness on ALL operand pairs is false for `InverseBinaryRule`, in every semantics**
(`RuleSoundOn (fun _ => True)` is what `Sem.RuleSound` meant before the law `honest` was restricted to
structurally well-formed operators): the rule fires on the pair `o, DiagonalInverseOperator(o)` for ANY `o` with
a Python identity (the only test is `right.operator is left`) and returns the empty chain.  For a non-square
`o : s → t` the pair is well typed (`in(o) = s = out(DiagonalInverseOperator(o))`) and maps
`in(DiagonalInverseOperator(o)) = s` to `out(o) = t`, but the empty chain is only typed from `s` to `s`.  Hence
the relativisation to well-formed operands (where `DiagonalInverseOperator` wraps a square operand). -/
theorem inverseBinaryRule_not_RuleSound (s t : Struct) (hst : s ≠ t) :
    ¬ A.toOpSem.toSem.RuleSoundOn (fun _ => True) inverseBinaryRule := by
  intro h
  let o : Op := .leaf 1 .dense { inS := s, outS := t }
  have hf : inverseBinaryRule.fire o (.wrap 2 .diagInv o) = .ok (some []) := by
    simp [inverseBinaryRule, o, isLazyInverse, operator?, same, Op.uid, Op.beq]
  have := (h o (.wrap 2 .diagInv o) [] trivial trivial hf (by simp [o, Op.inS, Op.outS])).2.1
  simp [Sem.WT, o, Op.inS, Op.outS, squareLeaf] at this
  exact hst this

/-- the offending pair is excluded by structural well-formedness: a `DiagonalInverseOperator` (any lazy inverse)
wraps a square operand -/
theorem StructOK_lazy_square (u : Nat) (k : WrapCls) (o : Op) (hk : k.isLazy)
    (h : StructOK (.wrap u k o)) : Op.inS o = Op.outS o :=
  (((StructOK_wrap_iff u k o).mp h).2.1 hk).1

end Rules

end Furax

