/-
Non-vacuity of the semantic frameworks `OpSem` / `ArithSem`: a concrete, non-trivial model over `V = ℚ`
(every structure is a single scalar): scalar operators multiply, identities and all other leaves act as the
identity, compositions compose, sums add.  All laws hold, so the theorems stated "for every `OpSem`" are not
vacuous; the intended model (operators on pytrees of arrays) is tied to the code by the correspondence checks.
-/
import FuraxProofs.Lemmas.ArithSound
import Mathlib.Tactic.Ring
namespace Furax
open Op

mutual
def scalarDen : Op → Rat → Rat
  | .leaf _ .homothety p, x => p.vals.data.headD 1 * x
  | .leaf _ _ _, x => x
  | .wrap _ _ _, x => x
  | .comp _ ops, x => scalarApp ops x
  | .cont _ .add _ ops, x => scalarSum ops x
  | .cont _ _ _ _, x => x
def scalarApp : List Op → Rat → Rat
  | [], x => x
  | o :: os, x => scalarDen o (scalarApp os x)
def scalarSum : List Op → Rat → Rat
  | [], _ => 0
  | o :: os, x => scalarDen o x + scalarSum os x
end

mutual
theorem scalarDen_hom : ∀ (o : Op) (a x : Rat), scalarDen o (a * x) = a * scalarDen o x
  | .leaf _ c p, a, x => by
    cases c <;> simp only [scalarDen]
    ring
  | .wrap _ _ _, a, x => by simp [scalarDen]
  | .comp _ ops, a, x => by simp only [scalarDen]; exact scalarApp_hom ops a x
  | .cont _ k _ ops, a, x => by
    cases k <;> simp only [scalarDen]
    exact scalarSum_hom ops a x
theorem scalarApp_hom : ∀ (ops : List Op) (a x : Rat), scalarApp ops (a * x) = a * scalarApp ops x
  | [], a, x => rfl
  | o :: os, a, x => by simp only [scalarApp]; rw [scalarApp_hom os a x, scalarDen_hom o a _]
theorem scalarSum_hom : ∀ (ops : List Op) (a x : Rat), scalarSum ops (a * x) = a * scalarSum ops x
  | [], a, x => by simp [scalarSum]
  | o :: os, a, x => by simp only [scalarSum]; rw [scalarDen_hom o a x, scalarSum_hom os a x]; ring
end

theorem scalarSum_eq (ops : List Op) (x : Rat) :
    scalarSum ops x = (ops.map (fun o => scalarDen o x)).foldr (· + ·) 0 := by
  induction ops with
  | nil => rfl
  | cons o os ih => simp [scalarSum, ih]

/-- the scalar model satisfies every law of `OpSem` … -/
def scalarOpSem : OpSem Rat where
  den := scalarDen
  mem := fun _ _ => True
  smul := fun a x => a * x
  honest := fun _ _ _ _ => trivial
  smul_one := fun x => by ring
  smul_smul := fun a b x => by ring
  mem_smul := fun _ _ _ _ => trivial
  identity_law := fun o h x _ => by
    cases o with
    | leaf u c p => cases c <;> simp_all [isIdentity, isLeafCls, scalarDen]
    | _ => simp [isIdentity, isLeafCls] at h
  homothety_law := fun o h x _ => by
    cases o with
    | leaf u c p => cases c <;> simp_all [isHomothety, isLeafCls, scalarDen, homValue]
    | _ => simp [isHomothety, isLeafCls] at h
  homogeneous := fun o a x _ _ => scalarDen_hom o a x

theorem scalarApp_eq (ops : List Op) (x : Rat) : scalarOpSem.toSem.app ops x = scalarApp ops x := by
  induction ops with
  | nil => rfl
  | cons o os ih => simp only [Sem.app, scalarApp, ih]; rfl

/-- … and of `ArithSem` (no operand is declared invertible, so the inverse laws ask nothing) -/
def scalarArithSem : ArithSem Rat where
  toOpSem := scalarOpSem
  add := (· + ·)
  zero := 0
  add_assoc := fun x y z => by ring
  zero_add := fun x => by ring
  comp_law := fun u ops x => by
    show scalarDen (.comp u ops) x = _
    rw [scalarApp_eq]; rfl
  add_law := fun u td ops x => by
    show scalarDen (.cont u .add td ops) x = _
    simp only [scalarDen]; exact scalarSum_eq ops x
  add_zero := fun x => by ring
  smul_sum := fun a l => by
    induction l with
    | nil => show a * 0 = 0; ring
    | cons y ys ih =>
      simp only [List.foldr_cons, List.map_cons]
      rw [← ih]; show a * (y + _) = a * y + a * _; ring
  invertible := fun _ => False
  inv_left := fun _ _ _ h => h.elim
  inv_right := fun _ _ _ h => h.elim

/-- it is not the trivial model: a scalar operator of value 3 maps 2 to 6 -/
example : scalarOpSem.den (mkHomothety 3 default) 2 = 6 := by
  simp [scalarOpSem, scalarDen, mkHomothety, Tensor.scalar]; norm_num

/-- **Structural well-formedness alone does not make the registered rules sound** (finding F13 in the scalar
model): `InverseBinaryRule` rewrites `InverseOperator(o) @ o` to the empty chain for every `o`, here the scalar
operator `o = 3·`, whose lazy inverse the scalar model (which declares no operand invertible) interprets as the
identity.  Both operands are structurally well formed and the pair is well typed, but the empty chain denotes
`x ↦ x`, not `x ↦ 3 x`.  Hence `Sem.RuleSound` (soundness on all `StructOK` operands) is still too strong for
the registry; the rules are sound on `WTExpr A.invertible …` operands (FuraxProofs/Lemmas/RuleSound.lean). -/
theorem scalar_inverseBinaryRule_not_RuleSound : ¬ scalarOpSem.toSem.RuleSound inverseBinaryRule := by
  intro h
  let o : Op := .leaf 1 .homothety { inS := default, outS := default, vals := Tensor.scalar 3 }
  have hf : inverseBinaryRule.fire (.wrap 2 .inverse o) o = .ok (some []) := by
    simp [inverseBinaryRule, o, isLazyInverse, operator?, same, Op.uid, Op.beq]
  have hok : StructOK (.wrap 2 .inverse o) := by
    simp [StructOK, WTExpr, WrapOK, WrapCls.isLazy, o, Op.inS, Op.outS, squareLeaf]
  have hoko : StructOK o := StructOK_leaf _ _ _
  have := (h (.wrap 2 .inverse o) o [] hok hoko hf (by simp [o, Op.inS, Op.outS])).2.2 1 trivial
  simp [Sem.app, scalarOpSem, OpSem.toSem, scalarDen, o, Tensor.scalar] at this

end Furax
