/-
Where the scalar factor ends up after `HomothetyRule.apply` and after `AlgebraicReductionRule.apply`
(property C07: "... at most one scalar factor remains, placed on the side with fewer elements").

Part (a) — `homothetyRule` alone (no hypothesis on the chain):
* `homothetyRule_spec`      — closed form of the result for every chain of length ≥ 2;
* `homothetyRule_strip`     — the non-scalar operands keep their relative order;
* `homothetyRule_left` / `homothetyRule_right` — side, structure and value of the scalar operator.

Part (b) — the whole scan.  `apply_on_left` is recomputed by every call of `homothetyRule` from the CURRENT
first/last operands, and between two calls the binary rules rewrite the chain (possibly its two ends).  The loop
invariant is

    the chain is typed `s → t`   ∧   `ScalarSide (t.size ≤ s.size) ops`

(`ScalarSide left ops`: no scalar operator at all, or exactly one, at the head when `left` and at the end
otherwise).  The second half survives every splice of a scalar-free rewrite for ANY fixed `left`
(`ScalarSide_splice`); the first half is what ties `left` to the current first/last operands when `homothetyRule`
is called again, and it needs the binary rules to preserve the outer structures of the pair they rewrite
(`RuleTypedOn`, the typing half of `Sem.RuleSoundOn`).  Without it the statement is false in the model
(`scalar_wrong_side_untyped_*`, `scalar_wrong_side_illTyped`, `scalar_position_needs_typed_rules` at the end of the file).

Core Lean only (no Mathlib).
-/
import FuraxProofs.Lemmas.RuleLawsModel
namespace Furax
open Op OpSem

/-! ### lists without scalar operators -/

/-- no operand is a `HomothetyOperator` -/
def NoHom (l : List Op) : Prop := ∀ o ∈ l, o.isHomothety = false

theorem NoHom_nil : NoHom [] := fun _ h => by simp at h

theorem NoHom_append {a b : List Op} : NoHom (a ++ b) ↔ NoHom a ∧ NoHom b := by
  simp only [NoHom, List.mem_append]
  exact ⟨fun h => ⟨fun o ho => h o (.inl ho), fun o ho => h o (.inr ho)⟩,
    fun h o ho => ho.elim (h.1 o) (h.2 o)⟩

theorem NoHom_cons {o : Op} {l : List Op} : NoHom (o :: l) ↔ o.isHomothety = false ∧ NoHom l := by
  simp [NoHom]

theorem NoHom_strip (l : List Op) : NoHom (strip l) := by
  intro o ho
  simpa [strip] using (List.mem_filter.mp ho).2

theorem strip_of_NoHom {l : List Op} (h : NoHom l) : strip l = l := by
  simp only [strip, List.filter_eq_self]
  intro o ho; simp [h o ho]

theorem strip_append (a b : List Op) : strip (a ++ b) = strip a ++ strip b := by
  simp [strip]

theorem strip_cons_hom {o : Op} (l : List Op) (h : o.isHomothety = true) : strip (o :: l) = strip l := by
  simp [strip, h]

theorem strip_cons_not {o : Op} (l : List Op) (h : o.isHomothety = false) : strip (o :: l) = o :: strip l := by
  simp [strip, h]

theorem strip_strip (l : List Op) : strip (strip l) = strip l := strip_of_NoHom (NoHom_strip l)

theorem NoHom_iff_filter {l : List Op} : NoHom l ↔ l.filter isHomothety = [] := by
  simp [NoHom, List.filter_eq_nil_iff]

theorem valProd_of_NoHom {l : List Op} (h : NoHom l) : valProd l = 1 := by
  induction l with
  | nil => rfl
  | cons o os ih =>
    rw [NoHom_cons] at h
    simp [valProd, h.1, ih h.2]

theorem valProd_cons_hom {o : Op} (l : List Op) (h : o.isHomothety = true) :
    valProd (o :: l) = homValue o * valProd l := by
  simp [valProd, h]

theorem valProd_cons_not {o : Op} (l : List Op) (h : o.isHomothety = false) :
    valProd (o :: l) = valProd l := by
  simp [valProd, h]

theorem valProd_append (a b : List Op) : valProd (a ++ b) = valProd a * valProd b := by
  induction a with
  | nil => simp [valProd]
  | cons o os ih =>
    by_cases h : o.isHomothety = true
    · simp [valProd, h, ih, Rat.mul_assoc]
    · simp [valProd, h, ih]

/-! ### part (a): `homothetyRule` alone -/

/-- **Closed form of `HomothetyRule.apply`** on a chain `first :: … :: last` of length ≥ 2: without scalar operand
the chain is returned; otherwise the result is ONE scalar operator `h` — carrying the product of all the scalar
values — in front of (`first.outSize ≤ last.inSize`, structure `outS first`) or behind (otherwise, structure
`inS last`) the non-scalar operands in their original order.  (When the chain is returned unchanged because its
only scalar operand already stands at the right end, `h` is that operand.) -/
theorem homothetyRule_spec (first o2 : Op) (rest : List Op) (last : Op)
    (hl : (first :: o2 :: rest).getLast? = some last) :
    (NoHom (first :: o2 :: rest) ∧ homothetyRule (first :: o2 :: rest) = first :: o2 :: rest) ∨
    (¬ NoHom (first :: o2 :: rest) ∧ ∃ h : Op, h.isHomothety = true ∧
      homValue h = valProd (first :: o2 :: rest) ∧
      ((first.outSize ≤ last.inSize ∧ Op.outS h = Op.outS first ∧
          homothetyRule (first :: o2 :: rest) = h :: strip (first :: o2 :: rest)) ∨
       (¬ first.outSize ≤ last.inSize ∧ Op.inS h = Op.inS last ∧
          homothetyRule (first :: o2 :: rest) = strip (first :: o2 :: rest) ++ [h]))) := by
  generalize hops : first :: o2 :: rest = ops at hl ⊢
  have hunf : homothetyRule ops =
      if (ops.filter isHomothety).length == 0 then ops
      else if (ops.filter isHomothety).length == 1 &&
          ((decide (first.outSize ≤ last.inSize) && first.isHomothety) ||
           (!decide (first.outSize ≤ last.inSize) && last.isHomothety)) then ops
      else if first.outSize ≤ last.inSize then
        mkHomothety ((ops.filter isHomothety).foldl (fun acc o => acc * o.homValue) 1) (Op.outS first) ::
          ops.filter (fun o => !o.isHomothety)
      else ops.filter (fun o => !o.isHomothety) ++
        [mkHomothety ((ops.filter isHomothety).foldl (fun acc o => acc * o.homValue) 1) (Op.inS last)] := by
    subst hops
    simp only [homothetyRule, hl]
  rw [hunf, valProd_eq_foldl]
  by_cases h0 : (ops.filter isHomothety).length = 0
  · left
    have : NoHom ops := NoHom_iff_filter.mpr (List.length_eq_zero_iff.mp h0)
    simp [h0, this]
  · right
    have hne : ¬ NoHom ops := fun h => h0 (by rw [NoHom_iff_filter.mp h]; rfl)
    refine ⟨hne, ?_⟩
    have h0' : ((ops.filter isHomothety).length == 0) = false := by simpa using h0
    simp only [h0', Bool.false_eq_true, if_false]
    split
    · -- the only scalar operand already stands at the right end: unchanged
      rename_i hkeep
      simp only [Bool.and_eq_true, beq_iff_eq, Bool.or_eq_true, decide_eq_true_eq, Bool.not_eq_true',
        decide_eq_false_iff_not] at hkeep
      obtain ⟨h1, hside⟩ := hkeep
      rcases hside with ⟨hle, hf⟩ | ⟨hnle, hlast⟩
      · -- head
        have htail : NoHom (o2 :: rest) := by
          rw [NoHom_iff_filter]
          rw [← hops, List.filter_cons_of_pos hf] at h1
          simpa using h1
        refine ⟨first, hf, ?_, .inl ⟨hle, rfl, ?_⟩⟩
        · rw [← hops, valProd_cons_hom _ hf, valProd_of_NoHom htail, Rat.mul_one]
        · rw [← hops, strip_cons_hom _ hf, strip_of_NoHom htail]
      · -- end
        obtain ⟨init, hsplit⟩ := List.getLast?_eq_some_iff.mp hl
        have hinit : NoHom init := by
          rw [NoHom_iff_filter]
          rw [hsplit, List.filter_append, List.filter_cons_of_pos hlast] at h1
          simpa using h1
        refine ⟨last, hlast, ?_, .inr ⟨hnle, rfl, ?_⟩⟩
        · rw [hsplit, valProd_append, valProd_of_NoHom hinit, valProd_cons_hom _ hlast, Rat.one_mul]
          simp [valProd]
        · rw [hsplit, strip_append, strip_of_NoHom hinit, strip_cons_hom _ hlast]
          simp [strip]
    · obtain ⟨hH, hI, hO, hV⟩ := OpSem.mkHomothety_law (valProd ops) (Op.outS first)
      obtain ⟨hH', hI', hO', hV'⟩ := OpSem.mkHomothety_law (valProd ops) (Op.inS last)
      by_cases hle : first.outSize ≤ last.inSize
      · exact ⟨_, hH, hV, .inl ⟨hle, hO, by simp only [hle, if_true]; rfl⟩⟩
      · exact ⟨_, hH', hV', .inr ⟨hle, hI', by simp only [hle, if_false]; rfl⟩⟩

/-- `HomothetyRule.apply` returns chains of length < 2 unchanged -/
theorem homothetyRule_short (ops : List Op) (h : ops.length < 2) : homothetyRule ops = ops := by
  match ops, h with
  | [], _ => simp [homothetyRule]
  | [o], _ => simp [homothetyRule]

/-- **the non-scalar operands keep their relative order** (every chain) -/
theorem homothetyRule_strip (ops : List Op) : strip (homothetyRule ops) = strip ops := by
  match ops with
  | [] => simp [homothetyRule]
  | [o] => simp [homothetyRule]
  | first :: o2 :: rest =>
    obtain ⟨last, hl⟩ : ∃ last, (first :: o2 :: rest).getLast? = some last := by
      cases hg : (first :: o2 :: rest).getLast? with
      | none => simp at hg
      | some l => exact ⟨l, rfl⟩
    rcases homothetyRule_spec first o2 rest last hl with ⟨_, h⟩ | ⟨_, h, hh, _, ⟨_, _, he⟩ | ⟨_, _, he⟩⟩
    · rw [h]
    · rw [he, strip_cons_hom _ hh, strip_strip]
    · rw [he, strip_append, strip_strip, strip_cons_hom _ hh]; simp [strip]

/-- the result contains a scalar operator iff the chain does -/
theorem homothetyRule_NoHom_iff (ops : List Op) : NoHom (homothetyRule ops) ↔ NoHom ops := by
  have key : ∀ l : List Op, NoHom l ↔ strip l = l := fun l =>
    ⟨strip_of_NoHom, fun h => h ▸ NoHom_strip l⟩
  match ops with
  | [] => simp [homothetyRule]
  | [o] => simp [homothetyRule]
  | first :: o2 :: rest =>
    obtain ⟨last, hl⟩ : ∃ last, (first :: o2 :: rest).getLast? = some last := by
      cases hg : (first :: o2 :: rest).getLast? with
      | none => simp at hg
      | some l => exact ⟨l, rfl⟩
    rcases homothetyRule_spec first o2 rest last hl with ⟨_, h⟩ | ⟨hn, h, hh, _, ⟨_, _, he⟩ | ⟨_, _, he⟩⟩
    · rw [h]
    · refine ⟨fun hc => ?_, fun hc => absurd hc hn⟩
      rw [he] at hc
      have := hc h List.mem_cons_self
      simp [hh] at this
    · refine ⟨fun hc => ?_, fun hc => absurd hc hn⟩
      rw [he] at hc
      have := hc h (by simp)
      simp [hh] at this

/-- **Scalar on the left.**  If the chain `first … last` (length ≥ 2) contains a scalar operator and
`first.outSize ≤ last.inSize`, the result is ONE scalar operator `h` of structure `outS first` (in and out),
carrying the product of the scalar values, followed by the non-scalar operands in their original order. -/
theorem homothetyRule_left (ops : List Op) (first last : Op) (hlen : 2 ≤ ops.length)
    (hf : ops.head? = some first) (hl : ops.getLast? = some last) (hhom : ¬ NoHom ops)
    (hside : first.outSize ≤ last.inSize) :
    ∃ h : Op, h.isHomothety = true ∧ Op.outS h = Op.outS first ∧ Op.inS h = Op.outS first ∧
      homValue h = valProd ops ∧ NoHom (strip ops) ∧ homothetyRule ops = h :: strip ops := by
  match ops, hlen with
  | f :: o2 :: rest, _ =>
    simp only [List.head?_cons, Option.some.injEq] at hf
    subst hf
    rcases homothetyRule_spec f o2 rest last hl with ⟨hn, _⟩ | ⟨_, h, hh, hv, ⟨_, ho, he⟩ | ⟨hns, _, _⟩⟩
    · exact absurd hn hhom
    · exact ⟨h, hh, ho, by rw [homothety_square h hh, ho], hv, NoHom_strip _, he⟩
    · exact absurd hside hns

/-- **Scalar on the right.**  Same with `first.outSize > last.inSize`: the scalar operator, of structure
`inS last`, is the LAST element of the result. -/
theorem homothetyRule_right (ops : List Op) (first last : Op) (hlen : 2 ≤ ops.length)
    (hf : ops.head? = some first) (hl : ops.getLast? = some last) (hhom : ¬ NoHom ops)
    (hside : ¬ first.outSize ≤ last.inSize) :
    ∃ h : Op, h.isHomothety = true ∧ Op.inS h = Op.inS last ∧ Op.outS h = Op.inS last ∧
      homValue h = valProd ops ∧ NoHom (strip ops) ∧ homothetyRule ops = strip ops ++ [h] := by
  match ops, hlen with
  | f :: o2 :: rest, _ =>
    simp only [List.head?_cons, Option.some.injEq] at hf
    subst hf
    rcases homothetyRule_spec f o2 rest last hl with ⟨hn, _⟩ | ⟨_, h, hh, hv, ⟨hs, _, _⟩ | ⟨_, hi, he⟩⟩
    · exact absurd hn hhom
    · exact absurd hs hside
    · exact ⟨h, hh, hi, by rw [← homothety_square h hh, hi], hv, NoHom_strip _, he⟩

/-! ### part (b): typed chains -/

/-- the structures of the operator tree as a `Sem` with a one-point value space: only the typing part of the
framework of FuraxProofs/Lemmas/Scan.lean is left -/
def structSem : Sem Op Unit Struct :=
  ⟨fun _ x => x, Op.inS, Op.outS, fun _ _ => True, fun _ => True, fun _ _ _ _ => trivial⟩

/-- the chain `ops` (`[a, b, c]` is `a ∘ b ∘ c`) maps structure `s` to structure `t`, adjacent structures
matching: `Sem.WT` without any semantics -/
def Typed (ops : List Op) (s t : Struct) : Prop := structSem.WT ops s t

@[simp] theorem Typed_nil (s t : Struct) : Typed [] s t ↔ s = t := Iff.rfl

@[simp] theorem Typed_cons (o : Op) (os : List Op) (s t : Struct) :
    Typed (o :: os) s t ↔ Op.outS o = t ∧ Typed os s (Op.inS o) := Iff.rfl

/-- it is the typing judgement of every `OpSem` -/
theorem Typed_iff_WT {V : Type} (L : OpSem V) (ops : List Op) (s t : Struct) :
    Typed ops s t ↔ L.toSem.WT ops s t := by
  induction ops generalizing t with
  | nil => rfl
  | cons o os ih => simp only [Typed_cons, Sem.WT, OpSem.toSem_outS, OpSem.toSem_inS, ih]

theorem Typed_append (a b : List Op) (s t : Struct) :
    Typed (a ++ b) s t ↔ ∃ m, Typed b s m ∧ Typed a m t := structSem.WT_append a b s t

/-- a non-empty chain is typed iff adjacent structures match (`Chain`), between the input structure of its last
and the output structure of its first operand -/
theorem Typed_of_Chain (ops : List Op) (hne : ops ≠ []) (h : Chain ops) :
    Typed ops (inSLast ops) (outSHead ops) :=
  (Typed_iff_WT zeroOpSem ops _ _).mpr ((Chain_iff_WT zeroOpSem ops hne).mp h)

theorem Typed_ends (ops : List Op) (s t : Struct) (hne : ops ≠ []) (h : Typed ops s t) :
    inSLast ops = s ∧ outSHead ops = t :=
  WT_ends zeroOpSem ops s t hne ((Typed_iff_WT zeroOpSem ops s t).mp h)

theorem Typed_head (ops : List Op) (first : Op) (s t : Struct) (h : Typed ops s t)
    (hf : ops.head? = some first) : Op.outS first = t := by
  cases ops with
  | nil => simp at hf
  | cons o os => simp only [List.head?_cons, Option.some.injEq] at hf; subst hf; exact ((Typed_cons ..).mp h).1

theorem Typed_last (ops : List Op) (last : Op) (s t : Struct) (h : Typed ops s t)
    (hl : ops.getLast? = some last) : Op.inS last = s :=
  zeroOpSem.WT_last ops last s t ((Typed_iff_WT zeroOpSem ops s t).mp h) hl

/-- removing the (square) scalar operators keeps the typing -/
theorem Typed_strip (ops : List Op) (s t : Struct) (h : Typed ops s t) : Typed (strip ops) s t := by
  induction ops generalizing t with
  | nil => exact h
  | cons o os ih =>
    obtain ⟨h1, h2⟩ := (Typed_cons ..).mp h
    by_cases hh : o.isHomothety = true
    · rw [strip_cons_hom _ hh, ← h1, ← homothety_square o hh]; exact ih _ h2
    · rw [strip_cons_not _ (by simpa using hh), Typed_cons]; exact ⟨h1, ih _ h2⟩

theorem Typed_identityRule (ops : List Op) (s t : Struct) (h : Typed ops s t) :
    Typed (identityRule ops) s t := by
  induction ops generalizing t with
  | nil => exact h
  | cons o os ih =>
    obtain ⟨h1, h2⟩ := (Typed_cons ..).mp h
    by_cases hh : o.isIdentity = true
    · have : identityRule (o :: os) = identityRule os := by simp [identityRule, hh]
      rw [this, ← h1, ← identity_square o hh]; exact ih _ h2
    · have : identityRule (o :: os) = o :: identityRule os := by simp [identityRule, hh]
      rw [this, Typed_cons]; exact ⟨h1, ih _ h2⟩

/-- `HomothetyRule.apply` keeps the typing -/
theorem Typed_homothetyRule (ops : List Op) (s t : Struct) (h : Typed ops s t) :
    Typed (homothetyRule ops) s t := by
  match ops with
  | [] => simpa [homothetyRule] using h
  | [o] => simpa [homothetyRule] using h
  | first :: o2 :: rest =>
    obtain ⟨last, hl⟩ : ∃ last, (first :: o2 :: rest).getLast? = some last := by
      cases hg : (first :: o2 :: rest).getLast? with
      | none => simp at hg
      | some l => exact ⟨l, rfl⟩
    have hs := Typed_strip _ s t h
    have hfirst : Op.outS first = t := ((Typed_cons ..).mp h).1
    have hlast : Op.inS last = s := Typed_last _ last s t h hl
    rcases homothetyRule_spec first o2 rest last hl with ⟨_, he⟩ | ⟨_, x, hh, _, ⟨_, ho, he⟩ | ⟨_, hi, he⟩⟩
    · rw [he]; exact h
    · rw [he, Typed_cons]
      exact ⟨by rw [ho, hfirst], by rw [homothety_square x hh, ho, hfirst]; exact hs⟩
    · rw [he, Typed_append]
      refine ⟨s, ?_, hs⟩
      rw [Typed_cons, Typed_nil]
      exact ⟨by rw [← homothety_square x hh, hi, hlast], by rw [hi, hlast]⟩

/-! ### part (b): the side invariant -/

/-- **the chain contains no scalar operator, or exactly one: at its head when `left`, at its end otherwise** -/
def ScalarSide (left : Prop) (ops : List Op) : Prop :=
  NoHom ops ∨ ∃ h rest, h.isHomothety = true ∧ NoHom rest ∧
    ((left ∧ ops = h :: rest) ∨ (¬ left ∧ ops = rest ++ [h]))

theorem ScalarSide_of_NoHom (left : Prop) {ops : List Op} (h : NoHom ops) : ScalarSide left ops := .inl h

/-- chains of length < 2 satisfy it for either side -/
theorem ScalarSide_short (left : Prop) (ops : List Op) (h : ops.length < 2) : ScalarSide left ops := by
  match ops, h with
  | [], _ => exact .inl NoHom_nil
  | [o], _ =>
    by_cases hh : o.isHomothety = true
    · by_cases hl : left
      · exact .inr ⟨o, [], hh, NoHom_nil, .inl ⟨hl, rfl⟩⟩
      · exact .inr ⟨o, [], hh, NoHom_nil, .inr ⟨hl, rfl⟩⟩
    · exact .inl (by simpa [NoHom] using hh)

/-- at most one scalar operator -/
theorem ScalarSide.count_le {left : Prop} {ops : List Op} (h : ScalarSide left ops) :
    (ops.filter isHomothety).length ≤ 1 := by
  rcases h with h | ⟨x, rest, hx, hr, ⟨_, rfl⟩ | ⟨_, rfl⟩⟩
  · rw [NoHom_iff_filter.mp h]; simp
  · rw [List.filter_cons_of_pos hx, NoHom_iff_filter.mp hr]; simp
  · rw [List.filter_append, NoHom_iff_filter.mp hr, List.filter_cons_of_pos hx]; simp

/-- any scalar operator of the chain is its head (`left`) -/
theorem ScalarSide.head {left : Prop} {ops : List Op} (h : ScalarSide left ops) (hl : left)
    (x : Op) (hx : x ∈ ops) (hh : x.isHomothety = true) : ops.head? = some x := by
  rcases h with h | ⟨y, rest, hy, hr, ⟨_, rfl⟩ | ⟨hn, _⟩⟩
  · simp [h x hx] at hh
  · rcases List.mem_cons.mp hx with rfl | hm
    · rfl
    · simp [hr x hm] at hh
  · exact absurd hl hn

/-- any scalar operator of the chain is its last element (`¬ left`) -/
theorem ScalarSide.last {left : Prop} {ops : List Op} (h : ScalarSide left ops) (hl : ¬ left)
    (x : Op) (hx : x ∈ ops) (hh : x.isHomothety = true) : ops.getLast? = some x := by
  rcases h with h | ⟨y, rest, hy, hr, ⟨hn, _⟩ | ⟨_, rfl⟩⟩
  · simp [h x hx] at hh
  · exact absurd hn hl
  · rcases List.mem_append.mp hx with hm | hm
    · simp [hr x hm] at hh
    · simp only [List.mem_singleton] at hm; subst hm; simp

/-- **Splicing a scalar-free rewrite into the chain keeps the invariant, for either side**: the scalar operator
is consumed (when it belongs to the rewritten pair) or stays at its end of the chain. -/
theorem ScalarSide_splice (left : Prop) (ops : List Op) (index : Nat) (new : List Op)
    (hi : index + 1 < ops.length) (hn : NoHom new) (h : ScalarSide left ops) :
    ScalarSide left (splice ops index new) := by
  have hmem : ∀ (l : List Op) (j : Nat), NoHom l → NoHom (splice l j new) := by
    intro l j hl o ho
    rcases mem_splice _ _ _ _ ho with h1 | h1
    · exact hl o h1
    · exact hn o h1
  rcases h with h | ⟨x, rest, hx, hr, ⟨hl, rfl⟩ | ⟨hl, rfl⟩⟩
  · exact .inl (hmem _ _ h)
  · cases index with
    | zero =>
      left
      simp only [splice, List.take_zero, List.nil_append, Nat.zero_add, List.drop_succ_cons]
      exact NoHom_append.mpr ⟨hn, fun o ho => hr o (List.mem_of_mem_drop ho)⟩
    | succ i =>
      right
      refine ⟨x, splice rest i new, hx, hmem _ _ hr, .inl ⟨hl, ?_⟩⟩
      simp [splice]
  · simp only [List.length_append, List.length_singleton] at hi
    by_cases hend : index + 2 ≤ rest.length
    · right
      refine ⟨x, splice rest index new, hx, hmem _ _ hr, .inr ⟨hl, ?_⟩⟩
      simp only [splice]
      rw [List.take_append_of_le_length (by omega), List.drop_append_of_le_length hend]
      simp
    · left
      have h1 : index + 1 = rest.length := by omega
      simp only [splice]
      rw [List.take_append_of_le_length (by omega), List.drop_of_length_le (by simp; omega)]
      simp only [List.append_nil]
      exact NoHom_append.mpr ⟨fun o ho => hr o (List.mem_of_mem_take ho), hn⟩

/-- **`HomothetyRule.apply` establishes the invariant on a typed chain**, for the side given by the outer
structures of the chain (which are those of its current first and last operands) -/
theorem homothetyRule_ScalarSide (ops : List Op) (s t : Struct) (h : Typed ops s t) :
    ScalarSide (t.size ≤ s.size) (homothetyRule ops) := by
  match ops with
  | [] => exact ScalarSide_short _ _ (by simp [homothetyRule])
  | [o] => exact ScalarSide_short _ _ (by simp [homothetyRule])
  | first :: o2 :: rest =>
    obtain ⟨last, hl⟩ : ∃ last, (first :: o2 :: rest).getLast? = some last := by
      cases hg : (first :: o2 :: rest).getLast? with
      | none => simp at hg
      | some l => exact ⟨l, rfl⟩
    have hfirst : first.outSize = t.size := by rw [← ((Typed_cons ..).mp h).1]; rfl
    have hlast : last.inSize = s.size := by rw [← Typed_last _ last s t h hl]; rfl
    rcases homothetyRule_spec first o2 rest last hl with ⟨hn, he⟩ | ⟨_, x, hh, _, ⟨hs, _, he⟩ | ⟨hs, _, he⟩⟩
    · rw [he]; exact .inl hn
    · rw [hfirst, hlast] at hs
      exact .inr ⟨x, _, hh, NoHom_strip _, .inl ⟨hs, he⟩⟩
    · rw [hfirst, hlast] at hs
      exact .inr ⟨x, _, hh, NoHom_strip _, .inr ⟨hs, he⟩⟩

/-! ### part (b): the scan -/

/-- **The hypothesis on the binary rules**: on a well-typed adjacent pair of operands satisfying the invariant
`P`, the output of the rule satisfies `P` and is a chain typed between the outer structures of the pair — the
typing half of `Sem.RuleSoundOn` (FuraxProofs/Lemmas/ScanOn.lean), no semantics involved. -/
def RuleTypedOn {E} (P : Op → Prop) (ru : Rule Op E) : Prop :=
  ∀ l r new, P l → P r → ru.fire l r = .ok (some new) → Op.inS l = Op.outS r →
    (∀ o ∈ new, P o) ∧ Typed new (Op.inS r) (Op.outS l)

/-- a rule that is sound relative to `P` in ANY semantics of the operator tree is typed relative to `P` -/
theorem RuleTypedOn_of_RuleSoundOn {V E} (L : OpSem V) (P : Op → Prop) (ru : Rule Op E)
    (h : L.toSem.RuleSoundOn P ru) : RuleTypedOn P ru :=
  fun l r new hl hr hf hlr =>
    let ⟨h1, h2, _⟩ := h l r new hl hr hf hlr
    ⟨h1, (Typed_iff_WT L _ _ _).mpr h2⟩

theorem RuleTypedOn_dropIdentities (P : Op → Prop) (ru : BRule) (h : RuleTypedOn P ru) :
    RuleTypedOn P (dropIdentities ru) := by
  intro l r new hl hr hf hlr
  simp only [dropIdentities] at hf
  split at hf
  · rename_i new0 hf0
    simp only [Except.ok.injEq, Option.some.injEq] at hf
    subst hf
    obtain ⟨hp, hw⟩ := h l r new0 hl hr hf0 hlr
    exact ⟨fun o ho => hp o (identityRule_mem new0 o ho), Typed_identityRule _ _ _ hw⟩
  · rename_i hne
    exact absurd hf (hne new)

/-- splicing the output of a typed rule into a typed chain -/
theorem Typed_splice (ops : List Op) (index : Nat) (new : List Op) (s t : Struct)
    (hi : index + 1 < ops.length) (hwt : Typed ops s t)
    (hnew : Typed new (Op.inS ops[index+1]) (Op.outS ops[index])) :
    Typed (splice ops index new) s t :=
  (splice_sound structSem ops index new s t hi (fun _ _ => trivial) hwt
    (fun _ => ⟨hnew, fun _ _ => rfl⟩)).1

theorem Typed_adjacent (ops : List Op) (index : Nat) (s t : Struct) (hi : index + 1 < ops.length)
    (hwt : Typed ops s t) : Op.inS ops[index] = Op.outS ops[index+1] :=
  WT_adjacent structSem ops index s t hi hwt

/-- **The loop invariant of the scan.**  For every configuration whose scalar test and scalar relocation are
those of furax and whose rules are typed relative to `P`, every amount of fuel, every chain of operands satisfying
`P` typed `s → t` and every starting index: if the chain satisfies `ScalarSide (t.size ≤ s.size)`, so does the
result of the scan (which is again a chain of `P` operands typed `s → t`). -/
theorem scan_ScalarSide {E} (P : Op → Prop) (c : Cfg Op E)
    (hIs : c.isHom = isHomothety) (hRule : c.homRule = homothetyRule)
    (hr : ∀ ru ∈ c.rules, RuleTypedOn P ru) (hhom : ∀ v s, P (mkHomothety v s)) :
    ∀ fuel ops index res s t, (∀ o ∈ ops, P o) → Typed ops s t → ScalarSide (t.size ≤ s.size) ops →
      scan c fuel ops index = .ok (some res) →
      (∀ o ∈ res, P o) ∧ Typed res s t ∧ ScalarSide (t.size ≤ s.size) res := by
  intro fuel
  induction fuel with
  | zero => intro ops index res s t _ _ _ h; simp [scan] at h
  | succ n ih =>
    intro ops index res s t hP hwt hside hres
    unfold scan at hres
    split at hres
    · rename_i h
      split at hres
      · simp at hres
      · rename_i newOps hf
        obtain ⟨ru, hmem, hfire⟩ := fireFirst_some _ _ _ _ hf
        have hPl : P ops[index] := hP _ (List.getElem_mem _)
        have hPr : P ops[index+1] := hP _ (List.getElem_mem _)
        obtain ⟨hPn, hTn⟩ := hr ru hmem _ _ _ hPl hPr hfire (Typed_adjacent ops index s t h hwt)
        have hTs := Typed_splice ops index newOps s t h hwt hTn
        have hPs : ∀ o ∈ splice ops index newOps, P o := by
          intro o ho
          rcases mem_splice _ _ _ _ ho with h1 | h1
          · exact hP o h1
          · exact hPn o h1
        simp only [] at hres
        split at hres
        · -- a scalar operator was produced: `homothetyRule` re-establishes the invariant
          rw [hRule] at hres
          refine ih _ _ _ _ _ (fun o ho => ?_) (Typed_homothetyRule _ _ _ hTs)
            (homothetyRule_ScalarSide _ _ _ hTs) hres
          rcases homothetyRule_mem _ o ho with h1 | ⟨v, s', rfl⟩
          · exact hPs o h1
          · exact hhom v s'
        · -- scalar-free rewrite: the invariant survives the splice
          rename_i hany
          have hnh : NoHom newOps := by
            intro o ho
            have := List.any_eq_false.mp (by simpa using hany) o ho
            rw [hIs] at this
            simpa using this
          exact ih _ _ _ _ _ hPs hTs (ScalarSide_splice _ ops index newOps h hnh hside) hres
      · exact ih _ _ _ _ _ hP hwt hside hres
    · simp only [Except.ok.injEq, Option.some.injEq] at hres
      subst hres
      exact ⟨hP, hwt, hside⟩

theorem cfg_rules_typed (P : Op → Prop) (red : Op → Except PyErr Op)
    (hr : ∀ ru ∈ binaryRules red, RuleTypedOn P ru) :
    ∀ ru ∈ (reductionCfg red).rules, RuleTypedOn P ru := by
  intro ru hm
  simp only [reductionCfg, List.mem_map] at hm
  obtain ⟨ru0, hm0, rfl⟩ := hm
  exact RuleTypedOn_dropIdentities P ru0 (hr ru0 hm0)

/-- **Where the scalar ends up after `AlgebraicReductionRule.apply`.**  For every `red`, every chain `ops` (any
length) of operands satisfying an invariant `P` that the binary rules preserve together with the outer structures
of the pairs they rewrite (`RuleTypedOn`), typed `s → t`: the result is again such a chain, typed `s → t`, and it
contains no scalar operator or exactly one — at its head when `t.size ≤ s.size`, at its end otherwise.
(`t`, `s` are the output structure of the first and the input structure of the last operand, of the input chain
and of the result alike.) -/
theorem algebraicReduction_ScalarSide (P : Op → Prop) (red : Op → Except PyErr Op)
    (hr : ∀ ru ∈ binaryRules red, RuleTypedOn P ru)
    (hid : ∀ s, P (mkIdentity s)) (hhom : ∀ v s, P (mkHomothety v s))
    (ops res : List Op) (s t : Struct) (hP : ∀ o ∈ ops, P o) (hwt : Typed ops s t)
    (hres : algebraicReduction red ops = .ok res) :
    (∀ o ∈ res, P o) ∧ Typed res s t ∧ ScalarSide (t.size ≤ s.size) res := by
  unfold algebraicReduction at hres
  split at hres
  · rename_i hlen
    simp only [Except.ok.injEq] at hres; subst hres
    exact ⟨hP, hwt, ScalarSide_short _ _ hlen⟩
  · rename_i hlen
    simp only [] at hres
    have p1 : ∀ o ∈ identityRule ops, P o := fun o ho => hP o (identityRule_mem ops o ho)
    have w1 := Typed_identityRule _ _ _ hwt
    have p2 : ∀ o ∈ homothetyRule (identityRule ops), P o := by
      intro o ho
      rcases homothetyRule_mem _ o ho with h1 | ⟨v, s', rfl⟩
      · exact p1 o h1
      · exact hhom v s'
    have w2 := Typed_homothetyRule _ _ _ w1
    have s2 := homothetyRule_ScalarSide _ _ _ w1
    split at hres
    · simp at hres
    · simp at hres
    · rename_i r hscan
      obtain ⟨p3, w3, s3⟩ := scan_ScalarSide P (reductionCfg red) rfl rfl (cfg_rules_typed P red hr) hhom
        _ _ _ _ _ _ p2 w2 s2 hscan
      split at hres
      · rename_i hemp
        simp only [Except.ok.injEq] at hres; subst hres
        have hr0 : r = [] := by simpa using hemp
        subst hr0
        rw [Typed_nil] at w3
        have hne : ops ≠ [] := by intro h0; subst h0; simp at hlen
        have hin : inSLast ops = s := (Typed_ends ops s t hne hwt).1
        refine ⟨?_, ?_, .inl ?_⟩
        · intro o ho
          rw [List.mem_singleton] at ho
          subst ho
          exact hid _
        · rw [Typed_cons, Typed_nil]
          simp [mkIdentity, Op.inS, Op.outS, squareLeaf, hin, w3]
        · intro o ho
          rw [List.mem_singleton] at ho
          subst ho
          rfl
      · simp only [Except.ok.injEq] at hres; subst hres
        exact ⟨p3, w3, s3⟩

/-- the same in terms of positions: with `first`, `last` the first and last operands of the INPUT chain (whose
adjacent structures match: `Chain`), the result has at most one scalar operator, every scalar operator of the
result is its head when `first.outSize ≤ last.inSize` and its last element otherwise; and the first/last operands
of the RESULT have the same outer structures, so the side is also the one prescribed by the result itself. -/
theorem algebraicReduction_scalar_position (P : Op → Prop) (red : Op → Except PyErr Op)
    (hr : ∀ ru ∈ binaryRules red, RuleTypedOn P ru)
    (hid : ∀ s, P (mkIdentity s)) (hhom : ∀ v s, P (mkHomothety v s))
    (ops res : List Op) (first last : Op) (hP : ∀ o ∈ ops, P o) (hc : Chain ops)
    (hf : ops.head? = some first) (hl : ops.getLast? = some last)
    (hres : algebraicReduction red ops = .ok res) :
    (res.filter isHomothety).length ≤ 1 ∧
    (∀ h ∈ res, h.isHomothety = true →
      (first.outSize ≤ last.inSize → res.head? = some h) ∧
      (¬ first.outSize ≤ last.inSize → res.getLast? = some h)) ∧
    (∀ first' last', res.head? = some first' → res.getLast? = some last' →
      Op.outS first' = Op.outS first ∧ Op.inS last' = Op.inS last) := by
  have hne : ops ≠ [] := by intro h0; subst h0; simp at hf
  have hwt := Typed_of_Chain ops hne hc
  have hs : inSLast ops = Op.inS last := inSLast_eq_last ops last hl
  have ht : outSHead ops = Op.outS first := by
    cases ops with
    | nil => simp at hf
    | cons o os => simp only [List.head?_cons, Option.some.injEq] at hf; subst hf; rfl
  rw [hs, ht] at hwt
  obtain ⟨_, w, sd⟩ := algebraicReduction_ScalarSide P red hr hid hhom ops res _ _ hP hwt hres
  refine ⟨sd.count_le, fun h hm hh => ⟨fun hle => sd.head hle h hm hh, fun hle => sd.last hle h hm hh⟩,
    fun first' last' hf' hl' => ⟨Typed_head res first' _ _ w hf', Typed_last res last' _ _ w hl'⟩⟩

/-! ### part (b): discharging the hypothesis on the rules -/

section Laws
variable {V : Type} (A : ArithSem V) (laws : RuleLaws A)

/-- the thirteen registered rules are typed relative to the well-formedness `laws.WT` of the operands, given the
leaf laws `RuleLaws` and a sound recursive `red` (`binaryRules_sound`) -/
theorem binaryRules_typed (red : Op → Except PyErr Op) (hred : RedSound A laws red) :
    ∀ ru ∈ binaryRules red, RuleTypedOn laws.WT ru :=
  fun ru hm => RuleTypedOn_of_RuleSoundOn A.toOpSem laws.WT ru (binaryRules_sound A laws red hred ru hm)

/-- **the scalar side after `AlgebraicReductionRule.apply`, on chains of well-formed operands**, for every sound
`red` -/
theorem algebraicReduction_ScalarSide_WT (red : Op → Except PyErr Op) (hred : RedSound A laws red)
    (ops res : List Op) (s t : Struct) (hP : ∀ o ∈ ops, laws.WT o) (hwt : Typed ops s t)
    (hres : algebraicReduction red ops = .ok res) :
    (∀ o ∈ res, laws.WT o) ∧ Typed res s t ∧ ScalarSide (t.size ≤ s.size) res :=
  algebraicReduction_ScalarSide laws.WT red (binaryRules_typed A laws red hred) laws.WT_mkIdentity
    laws.WT_mkHomothety ops res s t hP hwt hres

/-- … with `red := reduce fuel`, as `CompositionOperator.reduce` calls it, for every amount of fuel -/
theorem reduce_ScalarSide (extra : ContainerLaws A laws) (fuel : Nat)
    (ops res : List Op) (s t : Struct) (hP : ∀ o ∈ ops, laws.WT o) (hwt : Typed ops s t)
    (hres : algebraicReduction (reduce fuel) ops = .ok res) :
    (∀ o ∈ res, laws.WT o) ∧ Typed res s t ∧ ScalarSide (t.size ≤ s.size) res :=
  algebraicReduction_ScalarSide_WT A laws (reduce fuel) (reduce_RedSound A laws extra fuel) ops res s t hP hwt hres

end Laws

/-- **A closed instance, no semantic hypothesis left**: for the purely structural well-formedness
`WTExpr (fun _ => True) zeroLeafOK` (lazy inverses wrap square operands, compositions are chains, containers fit,
move-axis leaves and index leaves without indexed axis are declared square — the leaf validity of the consistency
witness of FuraxProofs/Lemmas/RuleLawsModel.lean) the statement holds for `reduce fuel`, every `fuel`. -/
theorem reduce_ScalarSide_structural (fuel : Nat) (ops res : List Op) (s t : Struct)
    (hP : ∀ o ∈ ops, WTExpr (fun _ => True) zeroLeafOK o) (hwt : Typed ops s t)
    (hres : algebraicReduction (reduce fuel) ops = .ok res) :
    (∀ o ∈ res, WTExpr (fun _ => True) zeroLeafOK o) ∧ Typed res s t ∧ ScalarSide (t.size ≤ s.size) res :=
  reduce_ScalarSide zeroArithSem zeroRuleLaws zeroContainerLaws fuel ops res s t hP hwt hres

/-! ### non-vacuity: `2·A·3·B`, kernel-evaluated -/

namespace ScalarSideEx

/-- a one-leaf structure with `n` elements -/
def sv (n : Nat) : Struct := ⟨[Tok.leaf], [⟨[n], .f64⟩]⟩

def dense (uid out inn : Nat) : Op := .leaf uid .dense { inS := sv inn, outS := sv out }
def hom (uid : Nat) (v : Rat) (n : Nat) : Op :=
  .leaf uid .homothety { inS := sv n, outS := sv n, vals := Tensor.scalar v }

/-- what the examples observe of a chain: per operand `(isHomothety, value, input size, output size)` -/
def view (ops : List Op) : List (Bool × Rat × Nat × Nat) :=
  ops.map fun o => (o.isHomothety, homValue o, o.inSize, o.outSize)

def viewR (r : Except PyErr (List Op)) : Option (List (Bool × Rat × Nat × Nat)) :=
  match r with
  | .ok res => some (view res)
  | .error _ => none

/-- tall: `A : 5 → 7`, `B : 3 → 5`; the chain `2·A·3·B` maps 3 elements to 7 -/
def tall : List Op := [hom 1 2 7, dense 2 7 5, hom 3 3 5, dense 4 5 3]
/-- wide: `A : 5 → 3`, `B : 7 → 5`; the chain `2·A·3·B` maps 7 elements to 3 -/
def wide : List Op := [hom 1 2 3, dense 2 3 5, hom 3 3 5, dense 4 5 7]

/-- `homothetyRule`, tall chain: one scalar `6` on the 3-element input side, at the END -/
example : view (homothetyRule tall) = [(false, 1, 5, 7), (false, 1, 3, 5), (true, 6, 3, 3)] := by decide +kernel
/-- `homothetyRule`, wide chain: one scalar `6` on the 3-element output side, at the HEAD -/
example : view (homothetyRule wide) = [(true, 6, 3, 3), (false, 1, 5, 3), (false, 1, 7, 5)] := by decide +kernel

/-- the full reduction, same chains -/
example : viewR (algebraicReduction (reduce 4) tall) =
    some [(false, 1, 5, 7), (false, 1, 3, 5), (true, 6, 3, 3)] := by decide +kernel
example : viewR (algebraicReduction (reduce 4) wide) =
    some [(true, 6, 3, 3), (false, 1, 5, 3), (false, 1, 7, 5)] := by decide +kernel

/-- the hypotheses of `homothetyRule_right` / `homothetyRule_left` hold on them -/
example : 2 ≤ tall.length ∧ tall.head? = some (hom 1 2 7) ∧ tall.getLast? = some (dense 4 5 3) ∧
    ¬ NoHom tall ∧ ¬ (hom 1 2 7).outSize ≤ (dense 4 5 3).inSize := by
  refine ⟨by decide, rfl, rfl, fun h => ?_, by decide⟩
  have := h (hom 1 2 7) (by simp [tall])
  simp [hom, isHomothety, isLeafCls] at this

example : 2 ≤ wide.length ∧ wide.head? = some (hom 1 2 3) ∧ wide.getLast? = some (dense 4 5 7) ∧
    ¬ NoHom wide ∧ (hom 1 2 3).outSize ≤ (dense 4 5 7).inSize := by
  refine ⟨by decide, rfl, rfl, fun h => ?_, by decide⟩
  have := h (hom 1 2 3) (by simp [wide])
  simp [hom, isHomothety, isLeafCls] at this

/-- the hypotheses of `reduce_ScalarSide_structural` (hence of `algebraicReduction_ScalarSide`) hold on them -/
theorem tall_ok : (∀ o ∈ tall, WTExpr (fun _ => True) zeroLeafOK o) ∧ Typed tall (sv 3) (sv 7) := by
  refine ⟨fun o ho => ?_, by simp [tall, hom, dense, Op.inS, Op.outS, squareLeaf]⟩
  simp only [tall, List.mem_cons, List.not_mem_nil, or_false] at ho
  rcases ho with rfl | rfl | rfl | rfl <;> simp [hom, dense, WTExpr, zeroLeafOK]

theorem wide_ok : (∀ o ∈ wide, WTExpr (fun _ => True) zeroLeafOK o) ∧ Typed wide (sv 7) (sv 3) := by
  refine ⟨fun o ho => ?_, by simp [wide, hom, dense, Op.inS, Op.outS, squareLeaf]⟩
  simp only [wide, List.mem_cons, List.not_mem_nil, or_false] at ho
  rcases ho with rfl | rfl | rfl | rfl <;> simp [hom, dense, WTExpr, zeroLeafOK]

/-- a chain on which binary rules fire at both ends and a scalar survives: `A⁻¹·A·2·B·R·Rᵀ` (tall `B`) -/
def busy : List Op :=
  [.wrap 6 .inverse (.leaf 5 .dense { inS := sv 7, outS := sv 7 }), .leaf 5 .dense { inS := sv 7, outS := sv 7 },
   hom 1 2 7, dense 2 7 3,
   .leaf 8 .qurot { inS := sv 3, outS := sv 3 }, .wrap 9 .qurotT (.leaf 8 .qurot { inS := sv 3, outS := sv 3 })]

example : viewR (algebraicReduction (reduce 4) busy) = some [(false, 1, 3, 7), (true, 2, 3, 3)] := by
  decide +kernel

theorem busy_ok : (∀ o ∈ busy, WTExpr (fun _ => True) zeroLeafOK o) ∧ Typed busy (sv 3) (sv 7) := by
  refine ⟨fun o ho => ?_, by simp [busy, hom, dense, Op.inS, Op.outS, squareLeaf]⟩
  simp only [busy, List.mem_cons, List.not_mem_nil, or_false] at ho
  rcases ho with rfl | rfl | rfl | rfl | rfl | rfl <;>
    simp [hom, dense, WTExpr, zeroLeafOK, WrapOK, WrapCls.isLazy, Op.inS, Op.outS, squareLeaf, isQURot, isLeafCls]

/-- the theorems apply to it: whatever the reduction returns has its scalar at the end (`7 ≤ 3` is false) -/
example (res : List Op) (h : algebraicReduction (reduce 4) busy = .ok res) :
    ScalarSide ((sv 7).size ≤ (sv 3).size) res :=
  (reduce_ScalarSide_structural 4 busy res _ _ busy_ok.1 busy_ok.2 h).2.2

/-- the hypothesis `hr` of `algebraicReduction_ScalarSide` is satisfiable (with `P` the structural
well-formedness, `red := reduce fuel`) -/
example (fuel : Nat) : ∀ ru ∈ binaryRules (reduce fuel), RuleTypedOn (WTExpr (fun _ => True) zeroLeafOK) ru :=
  binaryRules_typed zeroArithSem zeroRuleLaws (reduce fuel) (reduce_RedSound _ _ zeroContainerLaws fuel)

/-! ### the typing hypothesis cannot be dropped (model only: operands no furax constructor builds)

`W := DiagonalInverseOperator(B)` of a NON-SQUARE `B : 5 → 1` (the real constructors refuse it: only a
`DiagonalOperator`, which is square, can be wrapped, and `InverseOperator.__init__` raises "Only square operators
can be inverted").  Every adjacent pair of the chains below has matching structures, but `InverseBinaryRule`
rewrites `B·W : 5 → 1` to the empty chain `5 → 5`, which changes an outer size of the chain without
`homothetyRule` being called again. -/

def B51 : Op := dense 20 1 5
def W55 : Op := .wrap 21 .diagInv B51

/-- `A·2·B·W` with `A : 1 → 3`: on input `first.outSize = 3 ≤ 5 = last.inSize`, the scalar is put at the head
(3 elements); the scan cancels `B·W`, the result is `2·A` with `first.outSize = 3 > 1 = last.inSize`: the scalar
stands at the head of the RESULT although the result's own ends prescribe the end (1 element). -/
def wrongForResult : List Op := [dense 22 3 1, hom 23 2 1, B51, W55]

theorem wrongForResult_adjacent : Chain wrongForResult := by
  simp [wrongForResult, Chain, dense, hom, B51, W55, Op.inS, Op.outS, squareLeaf]

theorem scalar_wrong_side_untyped_result :
    viewR (algebraicReduction (reduce 4) wrongForResult) = some [(true, 2, 3, 3), (false, 1, 1, 3)] := by
  decide +kernel

/-- `B·W·Q·H·C` with `Q := QURotationTransposeOperator(2·I₅)` (ill formed as well), `H` a half-wave plate on 5
elements, `C : 3 → 5`: on input `first.outSize = 1 ≤ 3 = last.inSize` (head prescribed); the scan cancels `B·W`,
then `Q·H → H·(2·I)` produces a scalar and `homothetyRule` is called on `[H, 2·I, C]`, whose ends now say
`5 > 3`: the scalar ends up LAST, against the side prescribed by the input chain. -/
def wrongForInput : List Op :=
  [B51, W55, .wrap 24 .qurotT (hom 25 2 5), .leaf 26 .hwp { inS := sv 5, outS := sv 5 }, dense 27 5 3]

theorem wrongForInput_adjacent : Chain wrongForInput := by
  simp [wrongForInput, Chain, dense, hom, B51, W55, Op.inS, Op.outS, squareLeaf]

theorem scalar_wrong_side_untyped_input :
    viewR (algebraicReduction (reduce 4) wrongForInput) =
      some [(false, 1, 5, 5), (false, 1, 3, 5), (true, 2, 3, 3)] := by
  decide +kernel

/-- hence `algebraicReduction_scalar_position` is FALSE without the hypothesis on the rules (`P := True`): on
`wrongForInput` the scalar operator of the result is not its head, although
`first.outSize = 1 ≤ 3 = last.inSize` -/
theorem scalar_position_needs_typed_rules :
    ¬ ∀ (ops res : List Op) (first last : Op), Chain ops → ops.head? = some first → ops.getLast? = some last →
      algebraicReduction (reduce 4) ops = .ok res →
      ∀ h ∈ res, h.isHomothety = true → first.outSize ≤ last.inSize → res.head? = some h := by
  intro hall
  cases hres : algebraicReduction (reduce 4) wrongForInput with
  | error e =>
    have := scalar_wrong_side_untyped_input
    rw [hres] at this
    simp [viewR] at this
  | ok res =>
    have hv := scalar_wrong_side_untyped_input
    rw [hres] at hv
    simp only [viewR, Option.some.injEq] at hv
    match res, hv with
    | [a, b, c], hv =>
      simp only [view, List.map_cons, List.map_nil, List.cons.injEq, Prod.mk.injEq, and_true] at hv
      have hc : c.isHomothety = true := hv.2.2.1
      have ha : a.isHomothety = false := hv.1.1
      have := hall wrongForInput [a, b, c] B51 (dense 27 5 3) wrongForInput_adjacent rfl rfl hres c (by simp) hc
        (by decide)
      simp only [List.head?_cons, Option.some.injEq] at this
      rw [this, hc] at ha
      exact absurd ha (by simp)

/-- The hypothesis `Chain ops` cannot be dropped either, even with well-formed operands: `A·2·D·D⁻¹` with
`A : 1 → 3`, the scalar on 1 element and `D` a diagonal operator on 5 elements (`2` and `D` do not fit; `@` refuses
to build this chain, `CompositionOperator([...])` and `AlgebraicReductionRule.apply` accept it — reproduced on the
real library by py/scalar_side_untyped.py).  Same outcome as `wrongForResult`. -/
def illTyped : List Op :=
  [dense 22 3 1, hom 23 2 1, .leaf 30 .diagonal { inS := sv 5, outS := sv 5 },
   .wrap 31 .diagInv (.leaf 30 .diagonal { inS := sv 5, outS := sv 5 })]

theorem illTyped_operands_ok : ∀ o ∈ illTyped, WTExpr (fun _ => True) zeroLeafOK o := by
  intro o ho
  simp only [illTyped, List.mem_cons, List.not_mem_nil, or_false] at ho
  rcases ho with rfl | rfl | rfl | rfl <;>
    simp [hom, dense, WTExpr, zeroLeafOK, WrapOK, WrapCls.isLazy, Op.inS, Op.outS, squareLeaf]

theorem illTyped_not_Chain : ¬ Chain illTyped := by
  simp [illTyped, Chain, dense, hom, Op.inS, Op.outS, squareLeaf, sv]

theorem scalar_wrong_side_illTyped :
    viewR (algebraicReduction (reduce 4) illTyped) = some [(true, 2, 3, 3), (false, 1, 1, 3)] := by
  decide +kernel

/-- and the binary rules are indeed not typed on these operands: `InverseBinaryRule` on `B, W` -/
theorem inverseBinaryRule_not_typed : ¬ RuleTypedOn (fun _ => True) inverseBinaryRule := by
  intro h
  have hf : inverseBinaryRule.fire B51 W55 = .ok (some []) := by rfl
  have := (h B51 W55 [] trivial trivial hf (by decide)).2
  revert this
  simp [B51, W55, dense, Op.inS, Op.outS, sv, squareLeaf]

end ScalarSideEx

end Furax
