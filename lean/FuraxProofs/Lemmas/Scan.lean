/-
Theorems about the generic scan of FuraxModel/Scan.lean (the loop of `AlgebraicReductionRule.apply`):

* `scan_sound`       — typed soundness: for ANY list of sound rules, ANY chain of well-formed (`Sem.ok`)
                       operands, ANY starting index and ANY fuel, the result is a chain of well-formed operands,
                       well typed between the same structures, and denotes the same map;
* `scan_irreducible` — normal form: when the loop stops by itself, no adjacent pair of the result fires
                       any rule (the loop invariant "every pair left of `index` is irreducible" survives
                       step-back-by-one, restart-at-0 and advance).

Core Lean only (no Mathlib).
-/
import FuraxModel.Scan
namespace Furax

/-- Semantics of operators as maps on a universal value space `V`, typed by structures `S`.

`ok o` is the well-formedness of the operator term `o` (for the furax operator tree: `StructOK`,
FuraxProofs/Lemmas/WellFormed.lean — what the Python constructors guarantee).  The law `honest` is demanded of
well-formed terms only: a faithful denotation (vectors of the declared sizes) cannot satisfy it for terms no
constructor can build (a composition whose adjacent structures do not match, …). -/
structure Sem (O V S : Type) where
  den : O → V → V
  inS : O → S
  outS : O → S
  mem : S → V → Prop
  ok : O → Prop
  honest : ∀ o x, ok o → mem (inS o) x → mem (outS o) (den o x)

namespace Sem
variable {O V S : Type} (sem : Sem O V S)

/-- `[a, b, c]` denotes `a ∘ b ∘ c` -/
def app : List O → V → V
  | [], x => x
  | o :: os, x => sem.den o (app os x)

/-- the chain maps structure `s` to structure `t`, adjacent structures matching -/
def WT : List O → S → S → Prop
  | [], s, t => s = t
  | o :: os, s, t => sem.outS o = t ∧ WT os s (sem.inS o)

theorem app_append (a b : List O) (x : V) : sem.app (a ++ b) x = sem.app a (sem.app b x) := by
  induction a with
  | nil => rfl
  | cons o os ih => simp [app, ih]

theorem WT_append (a b : List O) (s t : S) :
    sem.WT (a ++ b) s t ↔ ∃ m, sem.WT b s m ∧ sem.WT a m t := by
  induction a generalizing t with
  | nil => simp [WT]
  | cons o os ih =>
    simp only [List.cons_append, WT, ih]
    constructor
    · rintro ⟨h1, m, h2, h3⟩; exact ⟨m, h2, h1, h3⟩
    · rintro ⟨m, h2, h1, h3⟩; exact ⟨h1, m, h2, h3⟩

/-- a well-typed chain of well-formed operands maps its input space into its output space -/
theorem WT_mem (ops : List O) (s t : S) (hok : ∀ o ∈ ops, sem.ok o) (h : sem.WT ops s t) (x : V)
    (hx : sem.mem s x) : sem.mem t (sem.app ops x) := by
  induction ops generalizing t with
  | nil => simp [WT] at h; subst h; exact hx
  | cons o os ih =>
    obtain ⟨h1, h2⟩ := h
    subst h1
    exact sem.honest o _ (hok o List.mem_cons_self) (ih _ (fun o' ho' => hok o' (List.mem_cons_of_mem _ ho')) h2)

/-- A rule is sound when, on every well-typed adjacent pair of well-formed (`ok`) operands it fires on, its
output consists of well-formed operands, is well typed between the same structures and denotes the same map.
(This is `RuleSoundOn sem.ok`, FuraxProofs/Lemmas/ScanOn.lean.) -/
def RuleSound {E} (ru : Rule O E) : Prop :=
  ∀ l r new, sem.ok l → sem.ok r → ru.fire l r = .ok (some new) → sem.inS l = sem.outS r →
    (∀ o ∈ new, sem.ok o) ∧ sem.WT new (sem.inS r) (sem.outS l) ∧
    ∀ x, sem.mem (sem.inS r) x → sem.app new x = sem.den l (sem.den r x)

/-- a chain transformer (the scalar relocation) that preserves well-formedness of the operands, typing and
denotation (this is `ListSoundOn sem.ok`) -/
def ListSound (f : List O → List O) : Prop :=
  ∀ ops s t, (∀ o ∈ ops, sem.ok o) → sem.WT ops s t →
    (∀ o ∈ f ops, sem.ok o) ∧ sem.WT (f ops) s t ∧ ∀ x, sem.mem s x → sem.app (f ops) x = sem.app ops x

end Sem

theorem fireFirst_some {O E} (rules : List (Rule O E)) (l r : O) (new : List O)
    (h : fireFirst rules l r = .ok (some new)) : ∃ ru ∈ rules, ru.fire l r = .ok (some new) := by
  induction rules with
  | nil => simp [fireFirst] at h
  | cons ru rest ih =>
    unfold fireFirst at h
    split at h
    · simp at h
    · rename_i n hf
      simp only [Except.ok.injEq, Option.some.injEq] at h
      subst h
      exact ⟨ru, List.mem_cons_self, hf⟩
    · obtain ⟨ru', hm, hf⟩ := ih h
      exact ⟨ru', List.mem_cons_of_mem _ hm, hf⟩

theorem list_split_at {O} (ops : List O) (index : Nat) (h : index + 1 < ops.length) :
    ops = ops.take index ++ [ops[index], ops[index+1]] ++ ops.drop (index + 2) := by
  have h1 : ops.drop index = ops[index] :: ops.drop (index + 1) :=
    List.drop_eq_getElem_cons (by omega)
  have h2 : ops.drop (index + 1) = ops[index + 1] :: ops.drop (index + 2) :=
    List.drop_eq_getElem_cons (by omega)
  calc ops = ops.take index ++ ops.drop index := (List.take_append_drop index ops).symm
    _ = _ := by rw [h1, h2]; simp

theorem mem_splice {O} (ops : List O) (i : Nat) (new : List O) (o : O) (h : o ∈ splice ops i new) :
    o ∈ ops ∨ o ∈ new := by
  simp only [splice, List.mem_append] at h
  rcases h with (h | h) | h
  · exact .inl (List.mem_of_mem_take h)
  · exact .inr h
  · exact .inl (List.mem_of_mem_drop h)

/-- the pair at `index`, `index + 1` of a well-typed chain is well typed -/
theorem WT_adjacent {O V S} (sem : Sem O V S) (ops : List O) (index : Nat) (s t : S)
    (h : index + 1 < ops.length) (hwt : sem.WT ops s t) :
    sem.inS ops[index] = sem.outS ops[index+1] := by
  have hsplit := list_split_at ops index h
  rw [hsplit, sem.WT_append] at hwt
  obtain ⟨m, _, hmid⟩ := hwt
  rw [sem.WT_append] at hmid
  obtain ⟨m', hpair, _⟩ := hmid
  simp only [Sem.WT] at hpair
  exact hpair.2.1.symm

/-- replacing an adjacent pair by a sound rule's output preserves typing and denotation -/
theorem splice_sound {O V S} (sem : Sem O V S) (ops : List O) (index : Nat) (new : List O) (s t : S)
    (h : index + 1 < ops.length) (hok : ∀ o ∈ ops, sem.ok o) (hwt : sem.WT ops s t)
    (hnew : sem.inS ops[index] = sem.outS ops[index+1] →
      sem.WT new (sem.inS ops[index+1]) (sem.outS ops[index]) ∧
      ∀ x, sem.mem (sem.inS ops[index+1]) x →
        sem.app new x = sem.den ops[index] (sem.den ops[index+1] x)) :
    sem.WT (splice ops index new) s t ∧
    ∀ x, sem.mem s x → sem.app (splice ops index new) x = sem.app ops x := by
  have hsplit := list_split_at ops index h
  rw [hsplit] at hwt
  rw [sem.WT_append] at hwt
  obtain ⟨m, hpost, hmid⟩ := hwt
  rw [sem.WT_append] at hmid
  obtain ⟨m', hpair, hpre⟩ := hmid
  simp only [Sem.WT] at hpair
  obtain ⟨hl, hr, hm⟩ := hpair
  have hlr := hnew hr.symm
  obtain ⟨hnwt, hnapp⟩ := hlr
  subst hm hl
  constructor
  · unfold splice
    rw [sem.WT_append]
    refine ⟨_, hpost, ?_⟩
    rw [sem.WT_append]
    exact ⟨_, hnwt, hpre⟩
  · intro x hx
    have hmem := sem.WT_mem _ _ _ (fun o ho => hok o (List.mem_of_mem_drop ho)) hpost x hx
    conv => rhs; rw [hsplit]
    simp only [splice, Sem.app_append, Sem.app]
    rw [hnapp _ hmem]

/-- **Typed soundness of the scan**, for every rule list, chain of well-formed operands, index and amount of
fuel. -/
theorem scan_sound {O V S E} (sem : Sem O V S) (c : Cfg O E)
    (hr : ∀ ru ∈ c.rules, sem.RuleSound ru) (hh : sem.ListSound c.homRule) :
    ∀ fuel ops index res s t, (∀ o ∈ ops, sem.ok o) → sem.WT ops s t →
      scan c fuel ops index = .ok (some res) →
      (∀ o ∈ res, sem.ok o) ∧ sem.WT res s t ∧ ∀ x, sem.mem s x → sem.app res x = sem.app ops x := by
  intro fuel
  induction fuel with
  | zero => intro ops index res s t _ _ h; simp [scan] at h
  | succ n ih =>
    intro ops index res s t hok hwt hres
    unfold scan at hres
    split at hres
    · rename_i h
      split at hres
      · simp at hres
      · rename_i newOps hf
        obtain ⟨ru, hmem, hfire⟩ := fireFirst_some _ _ _ _ hf
        have hokl : sem.ok ops[index] := hok _ (List.getElem_mem _)
        have hokr : sem.ok ops[index+1] := hok _ (List.getElem_mem _)
        have hrule := hr ru hmem _ _ _ hokl hokr hfire (WT_adjacent sem ops index s t h hwt)
        have hs := splice_sound sem ops index newOps s t h hok hwt (fun _ => hrule.2)
        have hoks : ∀ o ∈ splice ops index newOps, sem.ok o := by
          intro o ho
          rcases mem_splice _ _ _ _ ho with h1 | h1
          · exact hok o h1
          · exact hrule.1 o h1
        simp only [] at hres
        split at hres
        · obtain ⟨hk2, hw2, ha2⟩ := hh _ _ _ hoks hs.1
          obtain ⟨hk3, hw3, ha3⟩ := ih _ _ _ _ _ hk2 hw2 hres
          exact ⟨hk3, hw3, fun x hx => by rw [ha3 x hx, ha2 x hx, hs.2 x hx]⟩
        · obtain ⟨hk3, hw3, ha3⟩ := ih _ _ _ _ _ hoks hs.1 hres
          exact ⟨hk3, hw3, fun x hx => by rw [ha3 x hx, hs.2 x hx]⟩
      · exact ih _ _ _ _ _ hok hwt hres
    · simp only [Except.ok.injEq, Option.some.injEq] at hres
      subst hres
      exact ⟨hok, hwt, fun _ _ => rfl⟩

/-! ### normal form -/

/-- no adjacent pair fires a rule -/
def Irreducible {O E} (c : Cfg O E) (ops : List O) : Prop :=
  ∀ i (h : i + 1 < ops.length), fireFirst c.rules ops[i] ops[i+1] = .ok none

/-- every adjacent pair strictly left of `index` is irreducible -/
def IrrBelow {O E} (c : Cfg O E) (ops : List O) (index : Nat) : Prop :=
  ∀ i (h : i + 1 < ops.length), i < index → fireFirst c.rules ops[i] ops[i+1] = .ok none

theorem splice_getElem_lt {O} (ops : List O) (index : Nat) (new : List O) (i : Nat)
    (hi : i < index) (h1 : index ≤ ops.length) (h2 : i < (splice ops index new).length) :
    (splice ops index new)[i] = ops[i]'(by omega) := by
  have : i < min index ops.length := by omega
  simp [splice, this]

/-- **Normal form**: when the loop stops by itself the result is irreducible, from any state satisfying
the loop invariant (in particular from `index = 0`). -/
theorem scan_irreducible {O E} (c : Cfg O E) :
    ∀ fuel ops index res, IrrBelow c ops index → scan c fuel ops index = .ok (some res) →
      Irreducible c res := by
  intro fuel
  induction fuel with
  | zero => intro ops index res _ h; simp [scan] at h
  | succ n ih =>
    intro ops index res hinv hres
    unfold scan at hres
    split at hres
    · rename_i h
      split at hres
      · simp at hres
      · rename_i new hf
        simp only [] at hres
        split at hres
        · exact ih _ 0 res (by intro i _ hi; omega) hres
        · refine ih _ (index - 1) res ?_ hres
          intro i hi hlt
          have h1 : i < index := by omega
          have h2 : i + 1 < index := by omega
          rw [splice_getElem_lt ops index new i h1 (by omega) (by omega),
              splice_getElem_lt ops index new (i+1) h2 (by omega) hi]
          exact hinv i (by omega) h1
      · rename_i hf
        refine ih _ (index + 1) res ?_ hres
        intro i hi hlt
        by_cases hEq : i = index
        · subst hEq; exact hf
        · exact hinv i hi (by omega)
    · rename_i h
      simp only [Except.ok.injEq, Option.some.injEq] at hres
      subst hres
      intro i hi
      exact hinv i hi (by omega)

end Furax

namespace Furax

/-! ### at most one scalar factor -/

/-- number of operands the configuration classifies as scalar operators -/
def homCount {O E} (c : Cfg O E) (ops : List O) : Nat := (ops.filter c.isHom).length

theorem homCount_append {O E} (c : Cfg O E) (a b : List O) :
    homCount c (a ++ b) = homCount c a + homCount c b := by
  simp [homCount, List.filter_append]

theorem homCount_splice_le {O E} (c : Cfg O E) (ops : List O) (index : Nat) (new : List O)
    (h : index + 1 < ops.length) (hn : new.any c.isHom = false) :
    homCount c (splice ops index new) ≤ homCount c ops := by
  have hsplit := list_split_at ops index h
  have h0 : homCount c new = 0 := by
    simp only [homCount, List.length_eq_zero_iff, List.filter_eq_nil_iff]
    intro a ha
    have := List.any_eq_false.mp hn a ha
    simpa using this
  conv => rhs; rw [hsplit]
  simp only [splice, homCount_append, h0]
  omega

/-- If the scalar relocation always leaves at most one scalar operator, so does the whole scan. -/
theorem scan_homCount {O E} (c : Cfg O E) (hh : ∀ ops, homCount c (c.homRule ops) ≤ 1) :
    ∀ fuel ops index res, homCount c ops ≤ 1 → scan c fuel ops index = .ok (some res) →
      homCount c res ≤ 1 := by
  intro fuel
  induction fuel with
  | zero => intro ops index res _ h; simp [scan] at h
  | succ n ih =>
    intro ops index res hc hres
    unfold scan at hres
    split at hres
    · rename_i h
      split at hres
      · simp at hres
      · rename_i new hf
        simp only [] at hres
        split at hres
        · exact ih _ _ _ (hh _) hres
        · rename_i hany
          refine ih _ _ _ ?_ hres
          have := homCount_splice_le c ops index new h (by simpa using hany)
          omega
      · exact ih _ _ _ hc hres
    · simp only [Except.ok.injEq, Option.some.injEq] at hres
      subst hres; exact hc

end Furax
