/-
Relativised versions of `scan_sound` / `algebraicReduction_sound`.

`Sem.RuleSound` (FuraxProofs/Lemmas/Scan.lean) quantifies over all pairs `l r` of well-formed (`Sem.ok`, for the
operator tree: `StructOK`) operands; soundness on ALL pairs is `RuleSoundOn (fun _ => True)`.  For the registered
furax rules both are too strong: several of them are only correct on operands that passed their constructor's
validation (for instance `InverseBinaryRule` fires on `DiagonalInverseOperator(o) , o` for ANY `o` and returns
the empty chain, which is ill typed when `o` is not square — see `inverseBinaryRule_not_RuleSound` in
FuraxProofs/Lemmas/RuleSound.lean — and denotes another map when `o` is square but singular).  Here the same
theorems are proved relative to an invariant `P` of the operands of the chain, which every rule has to preserve
and which has to imply well-formedness (`∀ o, P o → sem.ok o`: the law `Sem.honest` is only available for
well-formed operands):

* `Sem.RuleSoundOn P ru` — on well-typed adjacent pairs `l r` that satisfy `P`, the output of `ru` satisfies
  `P`, is well typed between the same structures and denotes the same map;
* `scan_sound_on`, `OpSem.algebraicReduction_sound_on` — the scan and `AlgebraicReductionRule.apply` are sound
  on chains whose operands satisfy `P`, and their result again satisfies `P`.

With `P := sem.ok` these are the unrelativised statements (`RuleSound_iff_RuleSoundOn_ok`).
-/
import FuraxProofs.Lemmas.Nary
namespace Furax
open Op

namespace Sem
variable {O V S : Type} (sem : Sem O V S)

/-- soundness of a binary rule on operands satisfying the invariant `P` (which the rule must preserve) -/
def RuleSoundOn {E} (P : O → Prop) (ru : Rule O E) : Prop :=
  ∀ l r new, P l → P r → ru.fire l r = .ok (some new) → sem.inS l = sem.outS r →
    (∀ o ∈ new, P o) ∧ sem.WT new (sem.inS r) (sem.outS l) ∧
    ∀ x, sem.mem (sem.inS r) x → sem.app new x = sem.den l (sem.den r x)

/-- a chain transformer that preserves the invariant, typing and denotation -/
def ListSoundOn (P : O → Prop) (f : List O → List O) : Prop :=
  ∀ ops s t, (∀ o ∈ ops, P o) → sem.WT ops s t →
    (∀ o ∈ f ops, P o) ∧ sem.WT (f ops) s t ∧ ∀ x, sem.mem s x → sem.app (f ops) x = sem.app ops x

/-- `RuleSound` is soundness relative to the well-formedness `sem.ok` of the semantics -/
theorem RuleSound_iff_RuleSoundOn_ok {E} (ru : Rule O E) : sem.RuleSound ru ↔ sem.RuleSoundOn sem.ok ru :=
  Iff.rfl

theorem ListSound_iff_ListSoundOn_ok (f : List O → List O) : sem.ListSound f ↔ sem.ListSoundOn sem.ok f :=
  Iff.rfl

theorem RuleSoundOn_of_RuleSound {E} (ru : Rule O E) (h : sem.RuleSound ru) :
    sem.RuleSoundOn sem.ok ru := h

/-- under the idealisation that every term satisfies `P` (and `P` implies well-formedness) -/
theorem RuleSound_of_RuleSoundOn {E} (P : O → Prop) (hP : ∀ o, P o) (hPok : ∀ o, P o → sem.ok o)
    (ru : Rule O E) (h : sem.RuleSoundOn P ru) : sem.RuleSound ru :=
  fun l r new _ _ hf hlr =>
    let ⟨h1, h2⟩ := h l r new (hP l) (hP r) hf hlr
    ⟨fun o ho => hPok o (h1 o ho), h2⟩

end Sem

/-- **Typed soundness of the scan relative to an invariant.** -/
theorem scan_sound_on {O V S E} (sem : Sem O V S) (P : O → Prop) (hPok : ∀ o, P o → sem.ok o) (c : Cfg O E)
    (hr : ∀ ru ∈ c.rules, sem.RuleSoundOn P ru) (hh : sem.ListSoundOn P c.homRule) :
    ∀ fuel ops index res s t, (∀ o ∈ ops, P o) → sem.WT ops s t →
      scan c fuel ops index = .ok (some res) →
      (∀ o ∈ res, P o) ∧ sem.WT res s t ∧ ∀ x, sem.mem s x → sem.app res x = sem.app ops x := by
  intro fuel
  induction fuel with
  | zero => intro ops index res s t _ _ h; simp [scan] at h
  | succ n ih =>
    intro ops index res s t hP hwt hres
    unfold scan at hres
    split at hres
    · rename_i h
      split at hres
      · simp at hres
      · rename_i newOps hf
        obtain ⟨ru, hmem, hfire⟩ := fireFirst_some _ _ _ _ hf
        have hPl : P ops[index] := hP _ (List.getElem_mem _)
        have hPr : P ops[index+1] := hP _ (List.getElem_mem _)
        have hs := splice_sound sem ops index newOps s t h (fun o ho => hPok o (hP o ho)) hwt
          (fun hlr => (hr ru hmem _ _ _ hPl hPr hfire hlr).2)
        have hPs : ∀ o ∈ splice ops index newOps, P o := by
          intro o ho
          rcases mem_splice _ _ _ _ ho with h1 | h1
          · exact hP o h1
          · -- the pair is adjacent in a well-typed chain
            exact (hr ru hmem _ _ _ hPl hPr hfire (WT_adjacent sem ops index s t h hwt)).1 o h1
        simp only [] at hres
        split at hres
        · obtain ⟨hp2, hw2, ha2⟩ := hh _ _ _ hPs hs.1
          obtain ⟨hp3, hw3, ha3⟩ := ih _ _ _ _ _ hp2 hw2 hres
          exact ⟨hp3, hw3, fun x hx => by rw [ha3 x hx, ha2 x hx, hs.2 x hx]⟩
        · obtain ⟨hp3, hw3, ha3⟩ := ih _ _ _ _ _ hPs hs.1 hres
          exact ⟨hp3, hw3, fun x hx => by rw [ha3 x hx, hs.2 x hx]⟩
      · exact ih _ _ _ _ _ hP hwt hres
    · simp only [Except.ok.injEq, Option.some.injEq] at hres
      subst hres
      exact ⟨hP, hwt, fun _ _ => rfl⟩

namespace OpSem
variable {V : Type} (L : OpSem V)

theorem identityRule_sound_on (P : Op → Prop) (hPok : ∀ o, P o → StructOK o) :
    L.toSem.ListSoundOn P identityRule := by
  intro ops s t hP hwt
  obtain ⟨_, hw, ha⟩ := L.identityRule_sound ops s t (fun o ho => hPok o (hP o ho)) hwt
  exact ⟨fun o ho => hP o (identityRule_mem ops o ho), hw, ha⟩

theorem homothetyRule_sound_on (P : Op → Prop) (hPok : ∀ o, P o → StructOK o)
    (hhom : ∀ v s, P (mkHomothety v s)) :
    L.toSem.ListSoundOn P homothetyRule := by
  intro ops s t hP hwt
  obtain ⟨_, hw, ha⟩ := L.homothetyRule_sound ops s t (fun o ho => hPok o (hP o ho)) hwt
  refine ⟨fun o ho => ?_, hw, ha⟩
  rcases homothetyRule_mem ops o ho with h | ⟨v, s', rfl⟩
  · exact hP o h
  · exact hhom v s'

theorem dropIdentities_sound_on (P : Op → Prop) (hPok : ∀ o, P o → StructOK o) (ru : BRule)
    (h : L.toSem.RuleSoundOn P ru) :
    L.toSem.RuleSoundOn P (dropIdentities ru) := by
  intro l r new hl hr hf hlr
  simp only [dropIdentities] at hf
  split at hf
  · rename_i new0 hf0
    simp only [Except.ok.injEq, Option.some.injEq] at hf
    subst hf
    obtain ⟨hp, hw, ha⟩ := h l r new0 hl hr hf0 hlr
    obtain ⟨hp', hw', ha'⟩ := L.identityRule_sound_on P hPok _ _ _ hp hw
    exact ⟨hp', hw', fun x hx => by rw [ha' x hx, ha x hx]⟩
  · rename_i hne
    exact absurd hf (hne new)

theorem cfg_rules_sound_on (P : Op → Prop) (hPok : ∀ o, P o → StructOK o) (red : Op → Except PyErr Op)
    (hr : ∀ ru ∈ binaryRules red, L.toSem.RuleSoundOn P ru) :
    ∀ ru ∈ (reductionCfg red).rules, L.toSem.RuleSoundOn P ru := by
  intro ru hm
  simp only [reductionCfg, List.mem_map] at hm
  obtain ⟨ru0, hm0, rfl⟩ := hm
  exact L.dropIdentities_sound_on P hPok ru0 (hr ru0 hm0)

/-- **`AlgebraicReductionRule.apply` is sound relative to an invariant `P`** of the operands that implies
structural well-formedness, that the binary rules preserve and that identities and scalar operators satisfy. -/
theorem algebraicReduction_sound_on (P : Op → Prop) (hPok : ∀ o, P o → StructOK o)
    (hid : ∀ s, P (mkIdentity s))
    (hhom : ∀ v s, P (mkHomothety v s)) (red : Op → Except PyErr Op)
    (hr : ∀ ru ∈ binaryRules red, L.toSem.RuleSoundOn P ru)
    (ops res : List Op) (s t : Struct) (hP : ∀ o ∈ ops, P o) (hwt : L.toSem.WT ops s t)
    (hres : algebraicReduction red ops = .ok res) :
    (∀ o ∈ res, P o) ∧ L.toSem.WT res s t ∧
    ∀ x, L.mem s x → L.toSem.app res x = L.toSem.app ops x := by
  unfold algebraicReduction at hres
  split at hres
  · simp only [Except.ok.injEq] at hres; subst hres; exact ⟨hP, hwt, fun _ _ => rfl⟩
  · rename_i hlen
    simp only [] at hres
    obtain ⟨p1, w1, a1⟩ := L.identityRule_sound_on P hPok _ _ _ hP hwt
    obtain ⟨p2, w2, a2⟩ := L.homothetyRule_sound_on P hPok hhom _ _ _ p1 w1
    split at hres
    · simp at hres
    · simp at hres
    · rename_i r hscan
      obtain ⟨p3, w3, a3⟩ := scan_sound_on L.toSem P hPok (reductionCfg red)
        (L.cfg_rules_sound_on P hPok red hr) (L.homothetyRule_sound_on P hPok hhom) _ _ _ _ _ _ p2 w2 hscan
      have hall : ∀ x, L.mem s x → L.toSem.app r x = L.toSem.app ops x :=
        fun x hx => by rw [a3 x hx, a2 x hx, a1 x hx]
      split at hres
      · rename_i hemp
        simp only [Except.ok.injEq] at hres; subst hres
        have hr0 : r = [] := by simpa using hemp
        subst hr0
        simp only [Sem.WT] at w3
        have hne : ops ≠ [] := by intro h0; subst h0; simp at hlen
        obtain ⟨last, hl⟩ : ∃ last, ops.getLast? = some last := by
          cases hg : ops.getLast? with
          | none => simp [List.getLast?_eq_none_iff] at hg; exact absurd hg hne
          | some l => exact ⟨l, rfl⟩
        have hs : Op.inS last = s := L.WT_last _ _ _ _ hwt hl
        have hin : inSLast ops = s := by rw [← hs]; exact inSLast_eq_last _ _ hl
        have hidl := L.identity_law (mkIdentity (inSLast ops)) (by simp [mkIdentity, isIdentity, isLeafCls])
        have hI : Op.inS (mkIdentity (inSLast ops)) = s := by simp [mkIdentity, Op.inS, hin]
        have hO : Op.outS (mkIdentity (inSLast ops)) = s := by simp [mkIdentity, Op.outS, hin]
        refine ⟨?_, ⟨by rw [toSem_outS, hO, w3], by rw [toSem_inS, hI]; rfl⟩, fun x hx => ?_⟩
        · intro o ho
          rw [List.mem_singleton] at ho
          subst ho
          exact hid _
        · simp only [Sem.app, toSem_den]
          rw [hidl x (by rw [hI]; exact hx)]
          exact hall x hx
      · simp only [Except.ok.injEq] at hres; subst hres
        exact ⟨p3, w3, hall⟩

end OpSem
end Furax
