/-
Termination of the generic scan of FuraxModel/Scan.lean (the loop of `AlgebraicReductionRule.apply`).

The soundness theorems (Lemmas/Scan.lean, Lemmas/ScanOn.lean) are all conditional on `scan … = .ok (some r)`.
Here: the fuel is never exhausted, provided the rule set carries

* a FIRING measure `μ : List O → Nat` that every firing strictly decreases (measured on the chain AFTER the
  loop's post-processing: `splice`, and `homRule` when the output contains a scalar operator), and
* a RESTART measure `ν : List O → Nat` that no firing increases and every firing that restarts the index at 0
  strictly decreases (`ν := μ` always qualifies, `scan_terminates_of_measure`),

and provided no firing lengthens the chain.  The number of loop iterations from `(ops, index)` is then at most

    scanBound (μ ops) (ν ops) ops.length index = 2 * μ ops + ν ops * ops.length + (ops.length - index) + 1

(each firing is followed by at most one step back, so it costs at most two iterations; each restart costs at
most `length` further advances; the remaining advances are at most `length - index`; one more unit of fuel is
needed to observe the exit).

Core Lean only (no Mathlib).
-/
import FuraxModel.Scan
namespace Furax

/-- the measure hypotheses of the termination theorem -/
structure Cfg.Decreasing {O E} (c : Cfg O E) (μ ν : List O → Nat) : Prop where
  /-- a firing whose output has no scalar operator: the index steps back by one -/
  step : ∀ (ops : List O) (i : Nat) (h : i + 1 < ops.length) (new : List O),
    fireFirst c.rules ops[i] ops[i+1] = .ok (some new) → new.any c.isHom = false →
    μ (splice ops i new) < μ ops ∧ ν (splice ops i new) ≤ ν ops ∧ (splice ops i new).length ≤ ops.length
  /-- a firing whose output has a scalar operator: `homRule` is applied and the index restarts at 0 -/
  restart : ∀ (ops : List O) (i : Nat) (h : i + 1 < ops.length) (new : List O),
    fireFirst c.rules ops[i] ops[i+1] = .ok (some new) → new.any c.isHom = true →
    μ (c.homRule (splice ops i new)) < μ ops ∧ ν (c.homRule (splice ops i new)) < ν ops ∧
      (c.homRule (splice ops i new)).length ≤ ops.length

/-- the explicit bound on the number of iterations (plus one, to observe the exit) -/
def scanBound (m n len index : Nat) : Nat := 2 * m + n * len + (len - index) + 1

/-- **Termination of the scan**, any start index: with at least `scanBound` fuel the loop does not run out of
fuel (it returns a chain, or the exception of a rule). -/
theorem scan_terminates {O E} (c : Cfg O E) (μ ν : List O → Nat) (hc : c.Decreasing μ ν) :
    ∀ (fuel : Nat) (ops : List O) (index : Nat),
      scanBound (μ ops) (ν ops) ops.length index ≤ fuel → scan c fuel ops index ≠ .ok none := by
  intro fuel
  induction fuel with
  | zero => intro ops index h; simp [scanBound] at h
  | succ fuel ih =>
    intro ops index hb
    unfold scan
    split
    · rename_i hlt
      split
      · simp
      · rename_i newOps hfire
        dsimp only
        split
        · rename_i hany
          obtain ⟨h1, h2, h3⟩ := hc.restart ops index hlt newOps hfire hany
          apply ih
          have hmul : ν (c.homRule (splice ops index newOps)) * (c.homRule (splice ops index newOps)).length
              + ops.length ≤ ν ops * ops.length := by
            calc _ ≤ ν (c.homRule (splice ops index newOps)) * ops.length + ops.length :=
                  Nat.add_le_add_right (Nat.mul_le_mul_left _ h3) _
              _ = (ν (c.homRule (splice ops index newOps)) + 1) * ops.length := (Nat.succ_mul _ _).symm
              _ ≤ ν ops * ops.length := Nat.mul_le_mul_right _ h2
          simp only [scanBound] at hb ⊢
          omega
        · rename_i hany
          have hany' : newOps.any c.isHom = false := by simpa using hany
          obtain ⟨h1, h2, h3⟩ := hc.step ops index hlt newOps hfire hany'
          apply ih
          have hmul : ν (splice ops index newOps) * (splice ops index newOps).length
              ≤ ν ops * ops.length := Nat.mul_le_mul h2 h3
          simp only [scanBound] at hb ⊢
          omega
      · rename_i hfire
        apply ih
        simp only [scanBound] at hb ⊢
        omega
    · simp

/-- the same with a single measure: `ν := μ` -/
theorem scan_terminates_of_measure {O E} (c : Cfg O E) (μ : List O → Nat)
    (hfire : ∀ (ops : List O) (i : Nat) (h : i + 1 < ops.length) (new : List O),
      fireFirst c.rules ops[i] ops[i+1] = .ok (some new) →
      let ops' := if new.any c.isHom then c.homRule (splice ops i new) else splice ops i new
      μ ops' < μ ops ∧ ops'.length ≤ ops.length)
    (fuel : Nat) (ops : List O) (index : Nat)
    (hf : 2 * μ ops + μ ops * ops.length + (ops.length - index) + 1 ≤ fuel) :
    scan c fuel ops index ≠ .ok none := by
  refine scan_terminates c μ μ ⟨?_, ?_⟩ fuel ops index hf
  · intro ops i h new hf hany
    have := hfire ops i h new hf
    simp only [hany] at this
    exact ⟨this.1, Nat.le_of_lt this.1, this.2⟩
  · intro ops i h new hf hany
    have := hfire ops i h new hf
    simp only [hany] at this
    exact ⟨this.1, this.1, this.2⟩

/-- the loop therefore answers: a chain or the exception of a rule -/
theorem scan_terminates_cases {O E} (c : Cfg O E) (μ ν : List O → Nat) (hc : c.Decreasing μ ν)
    (fuel : Nat) (ops : List O) (index : Nat) (hf : scanBound (μ ops) (ν ops) ops.length index ≤ fuel) :
    (∃ r, scan c fuel ops index = .ok (some r)) ∨ (∃ e, scan c fuel ops index = .error e) := by
  have := scan_terminates c μ ν hc fuel ops index hf
  match h : scan c fuel ops index with
  | .ok (some r) => exact .inl ⟨r, rfl⟩
  | .ok none => exact absurd h this
  | .error e => exact .inr ⟨e, rfl⟩

/-- an exception of the loop is the exception of a rule on some pair -/
theorem scan_error {O E} (c : Cfg O E) : ∀ (fuel : Nat) (ops : List O) (index : Nat) (e : E),
    scan c fuel ops index = .error e → ∃ l r, fireFirst c.rules l r = .error e := by
  intro fuel
  induction fuel with
  | zero => intro ops index e h; simp [scan] at h
  | succ fuel ih =>
    intro ops index e h
    unfold scan at h
    split at h
    · split at h
      · rename_i e' hfire
        cases h
        exact ⟨_, _, hfire⟩
      · dsimp only at h
        split at h <;> exact ih _ _ _ h
      · exact ih _ _ _ h
    · cases h

theorem fireFirst_error {O E} (rules : List (Rule O E)) (l r : O) (e : E)
    (h : fireFirst rules l r = .error e) : ∃ ru ∈ rules, ru.fire l r = .error e := by
  induction rules with
  | nil => simp [fireFirst] at h
  | cons ru rest ih =>
    unfold fireFirst at h
    split at h
    · rename_i e' hf; cases h; exact ⟨ru, List.mem_cons_self, hf⟩
    · cases h
    · obtain ⟨ru', hm, hf⟩ := ih h
      exact ⟨ru', List.mem_cons_of_mem _ hm, hf⟩

theorem fireFirst_some {O E} (rules : List (Rule O E)) (l r : O) (new : List O)
    (h : fireFirst rules l r = .ok (some new)) : ∃ ru ∈ rules, ru.fire l r = .ok (some new) := by
  induction rules with
  | nil => simp [fireFirst] at h
  | cons ru rest ih =>
    unfold fireFirst at h
    split at h
    · cases h
    · rename_i n hf; cases h; exact ⟨ru, List.mem_cons_self, hf⟩
    · obtain ⟨ru', hm, hf⟩ := ih h
      exact ⟨ru', List.mem_cons_of_mem _ hm, hf⟩

end Furax
