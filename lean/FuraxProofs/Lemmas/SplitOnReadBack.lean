/-
`String.splitOn` on the strings that `_get_transposed_subscripts` prints: the parser `Einsum.parseSubscripts`
(`subscripts.split(',')` then `.split('->')`) reads back the three terms of `l ++ "," ++ r ++ "->" ++ o`
whenever the terms contain neither `,` nor `-` (letters, dots and blanks do not).

`String.splitOn` is defined by well-founded recursion on byte positions (`String.splitOnAux`) and does not reduce
in the kernel; Batteries has the `…_of_valid` lemmas for `get` / `next` / `extract` / `atEnd` at the byte position
`utf8Len cs` of `ofList (cs ++ cs')` (its own file ends on `-- TODO: splitOn`).  The two facts needed here are
proved from them by unfolding the equation of `splitOnAux`:
  * `splitOnAux_rest`  : once no first character of the separator is left, the rest is the last piece;
  * `splitOn_comma`, `splitOn_arrow` : one occurrence of `","` / `"->"`.
-/
import FuraxModel.Einsum
import Batteries.Data.String.Lemmas
namespace Furax
namespace Einsum
open String

/-- the positions `i + c` that `next` produces -/
private theorem next_at (l : List Char) (c : Char) (r : List Char) :
    Pos.Raw.next (ofList (l ++ c :: r)) ⟨utf8Len l⟩ = ⟨utf8Len (l ++ [c])⟩ := by
  rw [next_of_valid]; simp

private theorem get_at (l : List Char) (c : Char) (r : List Char) :
    Pos.Raw.get (ofList (l ++ c :: r)) ⟨utf8Len l⟩ = c := by
  rw [get_of_valid]; rfl

private theorem atEnd_at (l : List Char) (c : Char) (r : List Char) :
    Pos.Raw.atEnd (ofList (l ++ c :: r)) ⟨utf8Len l⟩ = false := by
  have := atEnd_of_valid l (c :: r)
  cases h : Pos.Raw.atEnd (ofList (l ++ c :: r)) ⟨utf8Len l⟩
  · rfl
  · exact absurd (this.1 h) (by simp)

private theorem atEnd_end (l : List Char) :
    Pos.Raw.atEnd (ofList l) ⟨utf8Len l⟩ = true := by
  have := (atEnd_of_valid l []).2 rfl
  rwa [List.append_nil] at this

/-- **the tail**: if the first character `c0` of the separator does not occur in `r`, scanning `r` finds nothing
and the piece that began at `l` ends the list -/
theorem splitOnAux_rest (sep : String) (c0 : Char) (hsep : Pos.Raw.get sep 0 = c0) (l : List Char) :
    ∀ (r m : List Char) (acc : List String), c0 ∉ r →
      splitOnAux (ofList (l ++ m ++ r)) sep ⟨utf8Len l⟩ ⟨utf8Len (l ++ m)⟩ 0 acc
        = acc.reverse ++ [ofList (m ++ r)] := by
  intro r
  induction r with
  | nil =>
    intro m acc _
    rw [String.splitOnAux.eq_1]
    have h1 : Pos.Raw.atEnd (ofList (l ++ m ++ [])) ⟨utf8Len (l ++ m)⟩ = true := by
      simpa using atEnd_end (l ++ m)
    rw [if_pos h1]
    have h2 := extract_of_valid l m []
    simp only [utf8Len_append, List.append_nil] at h2 ⊢
    rw [h2]; simp
  | cons c r ih =>
    intro m acc hc
    have hc0 : c ≠ c0 := fun h => hc (by simp [h])
    have hr : c0 ∉ r := fun h => hc (by simp [h])
    rw [String.splitOnAux.eq_1]
    rw [if_neg (by rw [atEnd_at]; simp)]
    rw [get_at, hsep, if_neg (by simpa using hc0)]
    have hu : (⟨utf8Len (l ++ m)⟩ : Pos.Raw).unoffsetBy 0 = ⟨utf8Len (l ++ m)⟩ := by
      simp [Pos.Raw.unoffsetBy]
    rw [hu, next_at]
    have := ih (m ++ [c]) acc hr
    simpa [List.append_assoc] using this

/-- one `","` -/
theorem splitOn_comma (a b : List Char) (ha : ',' ∉ a) (hb : ',' ∉ b) :
    (ofList (a ++ ',' :: b)).splitOn "," = [ofList a, ofList b] := by
  have hsep : Pos.Raw.get "," 0 = ',' := by decide
  have key : ∀ (m2 m : List Char) (acc : List String), ',' ∉ m2 →
      splitOnAux (ofList (m ++ m2 ++ ',' :: b)) "," 0 ⟨utf8Len m⟩ 0 acc
        = acc.reverse ++ [ofList (m ++ m2), ofList b] := by
    intro m2
    induction m2 with
    | nil =>
      intro m acc _
      rw [String.splitOnAux.eq_1]
      simp only [List.append_nil]
      rw [if_neg (by rw [atEnd_at]; simp)]
      rw [get_at, hsep, if_pos (by simp)]
      have hn : Pos.Raw.next "," 0 = ⟨1⟩ := by decide
      have he : Pos.Raw.atEnd "," ⟨1⟩ = true := by decide
      simp only [hn, he, if_true, next_at]
      have hu : (⟨utf8Len (m ++ [','])⟩ : Pos.Raw).unoffsetBy ⟨1⟩ = ⟨utf8Len m⟩ := by
        simp [Pos.Raw.unoffsetBy, Char.utf8Size]
      rw [hu]
      have hx : Pos.Raw.extract (ofList (m ++ ',' :: b)) 0 ⟨utf8Len m⟩ = ofList m := by
        have := extract_of_valid [] m (',' :: b)
        simpa using this
      rw [hx]
      have := splitOnAux_rest "," ',' hsep (m ++ [',']) b [] (ofList m :: acc) hb
      simpa [List.append_assoc] using this
    | cons c m2 ih =>
      intro m acc hc
      have hc0 : c ≠ ',' := fun h => hc (by simp [h])
      have hr : ',' ∉ m2 := fun h => hc (by simp [h])
      rw [String.splitOnAux.eq_1]
      simp only [List.append_assoc, List.cons_append]
      rw [if_neg (by rw [atEnd_at]; simp)]
      rw [get_at, hsep, if_neg (by simpa using hc0)]
      have hu : (⟨utf8Len m⟩ : Pos.Raw).unoffsetBy 0 = ⟨utf8Len m⟩ := by simp [Pos.Raw.unoffsetBy]
      rw [hu, next_at]
      have := ih (m ++ [c]) acc hr
      simpa [List.append_assoc] using this
  have := key a [] [] ha
  simpa [String.splitOn] using this

/-- one `"->"`, the pieces free of `-` -/
theorem splitOn_arrow (a b : List Char) (ha : '-' ∉ a) (hb : '-' ∉ b) :
    (ofList (a ++ '-' :: '>' :: b)).splitOn "->" = [ofList a, ofList b] := by
  have hsep : Pos.Raw.get "->" 0 = '-' := by decide
  have key : ∀ (m2 m : List Char) (acc : List String), '-' ∉ m2 →
      splitOnAux (ofList (m ++ m2 ++ '-' :: '>' :: b)) "->" 0 ⟨utf8Len m⟩ 0 acc
        = acc.reverse ++ [ofList (m ++ m2), ofList b] := by
    intro m2
    induction m2 with
    | nil =>
      intro m acc _
      rw [String.splitOnAux.eq_1]
      simp only [List.append_nil]
      rw [if_neg (by rw [atEnd_at]; simp)]
      rw [get_at, hsep, if_pos (by simp)]
      have hn : Pos.Raw.next "->" 0 = ⟨1⟩ := by decide
      have he : Pos.Raw.atEnd "->" ⟨1⟩ = false := by decide
      simp only [hn, he, next_at, Bool.false_eq_true, if_false]
      -- second character
      rw [String.splitOnAux.eq_1]
      have hs : ofList (m ++ '-' :: '>' :: b) = ofList ((m ++ ['-']) ++ '>' :: b) := by simp
      rw [hs]
      rw [if_neg (by rw [atEnd_at]; simp)]
      have hg1 : Pos.Raw.get "->" ⟨1⟩ = '>' := by decide
      rw [get_at, hg1, if_pos (by simp)]
      have hn2 : Pos.Raw.next "->" ⟨1⟩ = ⟨2⟩ := by decide
      have he2 : Pos.Raw.atEnd "->" ⟨2⟩ = true := by decide
      simp only [hn2, he2, if_true, next_at]
      have hu : (⟨utf8Len (m ++ ['-'] ++ ['>'])⟩ : Pos.Raw).unoffsetBy ⟨2⟩ = ⟨utf8Len m⟩ := by
        simp [Pos.Raw.unoffsetBy, Char.utf8Size]
      rw [hu]
      have hx : Pos.Raw.extract (ofList (m ++ ['-'] ++ '>' :: b)) 0 ⟨utf8Len m⟩ = ofList m := by
        have := extract_of_valid [] m ('-' :: '>' :: b)
        simpa using this
      rw [hx]
      have := splitOnAux_rest "->" '-' hsep (m ++ ['-'] ++ ['>']) b [] (ofList m :: acc) hb
      simpa [List.append_assoc] using this
    | cons c m2 ih =>
      intro m acc hc
      have hc0 : c ≠ '-' := fun h => hc (by simp [h])
      have hr : '-' ∉ m2 := fun h => hc (by simp [h])
      rw [String.splitOnAux.eq_1]
      simp only [List.append_assoc, List.cons_append]
      rw [if_neg (by rw [atEnd_at]; simp)]
      rw [get_at, hsep, if_neg (by simpa using hc0)]
      have hu : (⟨utf8Len m⟩ : Pos.Raw).unoffsetBy 0 = ⟨utf8Len m⟩ := by simp [Pos.Raw.unoffsetBy]
      rw [hu, next_at]
      have := ih (m ++ [c]) acc hr
      simpa [List.append_assoc] using this
  have := key a [] [] ha
  simpa [String.splitOn] using this

/-- **read-back**: `_parse_subscripts` returns the three terms of `l,r->o` when they contain neither `,` nor `-` -/
theorem parseSubscripts_readback (l r o : List Char) (hl : ',' ∉ l) (hr : ',' ∉ r) (ho : ',' ∉ o)
    (hr' : '-' ∉ r) (ho' : '-' ∉ o) :
    parseSubscripts (ofList l ++ "," ++ ofList r ++ "->" ++ ofList o) = .ok (ofList l, ofList r, ofList o) := by
  have hs : ofList l ++ "," ++ ofList r ++ "->" ++ ofList o = ofList (l ++ ',' :: (r ++ '-' :: '>' :: o)) := by
    apply String.toList_injective
    simp
  have hrest : ',' ∉ r ++ '-' :: '>' :: o := by simp [hr, ho]
  unfold parseSubscripts
  rw [hs, splitOn_comma l _ hl hrest]
  simp only
  rw [splitOn_arrow r o hr' ho']

/-- the two instances used as examples of dense operators -/
example : parseSubscripts "ij...,j...->i..." = .ok ("ij...", "j...", "i...") :=
  parseSubscripts_readback "ij...".toList "j...".toList "i...".toList (by decide) (by decide) (by decide)
    (by decide) (by decide)

end Einsum
end Furax
