/-
Decidable predicates on the tables regenerated from the source (FuraxGenerated/Tables.lean): what the
hand-written model assumes about method resolution, class hierarchy and tags.
-/
import FuraxGenerated.Tables
namespace Furax
open Generated

def Generated.ClassRow.method (r : ClassRow) (m : String) : Option String := (r.methods.lookup m)

def Generated.ClassRow.isA (r : ClassRow) (c : String) : Bool := r.name == c || r.mro.contains c

/-- which function each arithmetic dunder must resolve to for the model of FuraxModel/Arith.lean to be
the right transcription -/
def dunderOk (r : ClassRow) : Bool :=
  let mm := if r.name == "CompositionOperator" then "CompositionOperator.__matmul__"
    else if r.name == "IdentityOperator" then "IdentityOperator.__matmul__"
    else if r.name == "HomothetyOperator" then "HomothetyOperator.__matmul__"
    else if r.isA "AbstractLazyInverseOperator" then "AbstractLazyInverseOperator.__matmul__"
    else "AbstractLinearOperator.__matmul__"
  let isAdd := r.name == "AdditionOperator"
  r.method "__matmul__" == some mm
  && r.method "__rmatmul__" == (if r.name == "CompositionOperator" then some "CompositionOperator.__rmatmul__" else none)
  && r.method "__add__" == some (if isAdd then "AdditionOperator.__add__" else "AbstractLinearOperator.__add__")
  && r.method "__radd__" == (if isAdd then some "AdditionOperator.__radd__" else none)
  && r.method "__neg__" == some (if isAdd then "AdditionOperator.__neg__" else "AbstractLinearOperator.__neg__")
  && r.method "__sub__" == some "AbstractLinearOperator.__sub__"
  && r.method "__pos__" == some "AbstractLinearOperator.__pos__"
  && r.method "__mul__" == some "AbstractLinearOperator.__mul__"
  && r.method "__rmul__" == some "AbstractLinearOperator.__rmul__"
  && r.method "__truediv__" == some "AbstractLinearOperator.__truediv__"
  && r.method "__call__" == some "AbstractLinearOperator.__call__"

/-- the model's `isLazyInverse` / `isTransposeOperator` class tests against the real hierarchy -/
def hierarchyOk (r : ClassRow) : Bool :=
  (r.isA "AbstractLazyInverseOperator" ==
    (["AbstractLazyInverseOperator", "AbstractLazyInverseOrthogonalOperator", "InverseOperator",
      "QURotationTransposeOperator", "DiagonalInverseOperator"].contains r.name))
  && (r.isA "TransposeOperator" ==
    (["TransposeOperator", "AbstractLazyInverseOrthogonalOperator", "ReshapeTransposeOperator",
      "QURotationTransposeOperator", "ToastObservationMatrixTransposeOperator"].contains r.name))
  && (r.isA "AbstractRavelOrReshapeOperator" ==
    (["AbstractRavelOrReshapeOperator", "RavelOperator", "ReshapeOperator"].contains r.name))
  && (r.isA "HomothetyOperator" == (r.name == "HomothetyOperator"))
  && (r.isA "IdentityOperator" == (r.name == "IdentityOperator"))
  && (r.isA "CompositionOperator" == (r.name == "CompositionOperator"))
  && (r.isA "AdditionOperator" == (r.name == "AdditionOperator"))

end Furax

namespace Furax
open Generated

/-- `jnp.result_type(a, b)` as read from the source environment -/
def promote (x64 : Bool) (a b : String) : Option String :=
  (promotion.find? fun r => r.1 == x64 && r.2.1 == a && r.2.2.1 == b).map (·.2.2.2)

def dtypeNames : List String :=
  ["bool", "int32", "int64", "float16", "float32", "float64", "complex64", "complex128"]

/-- 64-bit types are canonicalised to their 32-bit counterparts when 64-bit mode is off -/
def canonical (x64 : Bool) (a : String) : String :=
  if x64 then a else
    if a == "int64" then "int32" else if a == "float64" then "float32"
    else if a == "complex128" then "complex64" else a

end Furax
