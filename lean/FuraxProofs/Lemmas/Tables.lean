/-
Decidable predicates on the tables regenerated from the source (FuraxGenerated/Tables.lean): what the
hand-written model assumes about method resolution, class hierarchy and tags.
-/
import FuraxGenerated.Tables
namespace Furax
open Generated

def Generated.ClassRow.method (r : ClassRow) (m : String) : Option String := (r.methods.lookup m)

def Generated.ClassRow.isA (r : ClassRow) (c : String) : Bool := r.name == c || r.mro.contains c

/-- which function each arithmetic dunder must resolve to for the model of FuraxModel/Arith.lean to be
the right transcription -/
def dunderOk (r : ClassRow) : Bool :=
  let mm := if r.name == "CompositionOperator" then "CompositionOperator.__matmul__"
    else if r.name == "IdentityOperator" then "IdentityOperator.__matmul__"
    else if r.name == "HomothetyOperator" then "HomothetyOperator.__matmul__"
    else if r.isA "AbstractLazyInverseOperator" then "AbstractLazyInverseOperator.__matmul__"
    else "AbstractLinearOperator.__matmul__"
  let isAdd := r.name == "AdditionOperator"
  r.method "__matmul__" == some mm
  && r.method "__rmatmul__" == (if r.name == "CompositionOperator" then some "CompositionOperator.__rmatmul__" else none)
  && r.method "__add__" == some (if isAdd then "AdditionOperator.__add__" else "AbstractLinearOperator.__add__")
  && r.method "__radd__" == (if isAdd then some "AdditionOperator.__radd__" else none)
  && r.method "__neg__" == some (if isAdd then "AdditionOperator.__neg__" else "AbstractLinearOperator.__neg__")
  && r.method "__sub__" == some "AbstractLinearOperator.__sub__"
  && r.method "__pos__" == some "AbstractLinearOperator.__pos__"
  && r.method "__mul__" == some "AbstractLinearOperator.__mul__"
  && r.method "__rmul__" == some "AbstractLinearOperator.__rmul__"
  && r.method "__truediv__" == some "AbstractLinearOperator.__truediv__"
  && r.method "__call__" == some "AbstractLinearOperator.__call__"

/-- the model's `isLazyInverse` / `isTransposeOperator` class tests against the real hierarchy -/
def hierarchyOk (r : ClassRow) : Bool :=
  (r.isA "AbstractLazyInverseOperator" ==
    (["AbstractLazyInverseOperator", "AbstractLazyInverseOrthogonalOperator", "InverseOperator",
      "QURotationTransposeOperator", "DiagonalInverseOperator"].contains r.name))
  && (r.isA "TransposeOperator" ==
    (["TransposeOperator", "AbstractLazyInverseOrthogonalOperator", "ReshapeTransposeOperator",
      "QURotationTransposeOperator", "ToastObservationMatrixTransposeOperator"].contains r.name))
  && (r.isA "AbstractRavelOrReshapeOperator" ==
    (["AbstractRavelOrReshapeOperator", "RavelOperator", "ReshapeOperator"].contains r.name))
  && (r.isA "HomothetyOperator" == (r.name == "HomothetyOperator"))
  && (r.isA "IdentityOperator" == (r.name == "IdentityOperator"))
  && (r.isA "CompositionOperator" == (r.name == "CompositionOperator"))
  && (r.isA "AdditionOperator" == (r.name == "AdditionOperator"))

end Furax

namespace Furax
open Generated

/-- `jnp.result_type(a, b)` as read from the source environment -/
def promote (x64 : Bool) (a b : String) : Option String :=
  (promotion.find? fun r => r.1 == x64 && r.2.1 == a && r.2.2.1 == b).map (·.2.2.2)

def dtypeNames : List String :=
  ["bool", "int32", "int64", "float16", "float32", "float64", "complex64", "complex128"]

/-- 64-bit types are canonicalised to their 32-bit counterparts when 64-bit mode is off -/
def canonical (x64 : Bool) (a : String) : String :=
  if x64 then a else
    if a == "int64" then "int32" else if a == "float64" then "float32"
    else if a == "complex128" then "complex64" else a

end Furax

namespace Furax
open Generated

/-- tags for which a theorem about the class's kernel exists (FuraxProofs/Props/C08.lean lists them) -/
def provedTags (cls : String) : List String :=
  if ["IdentityOperator", "HomothetyOperator", "DiagonalOperator", "DiagonalInverseOperator", "HWPOperator"].contains cls
  then ["is_diagonal", "is_symmetric"]
  else if cls == "SymmetricBandToeplitzOperator" then ["is_symmetric"]
  else []

/-- every tag that dispatches to `True` for the class is one with a theorem -/
def tagsOk (r : ClassRow) : Bool := r.tagsTrue.all fun t => (provedTags r.name).contains t

/-- `@symmetric` wiring: a class tagged symmetric returns itself as transpose, and is square -/
def symmetricWiringOk (r : ClassRow) : Bool :=
  !(r.tagsTrue.contains "is_symmetric") ||
    (r.method "transpose" == some "symmetric.<locals>.<lambda>" && r.method "out_structure" == r.method "in_structure")

/-- `@orthogonal` wiring (`inverse = transpose`, square) holds exactly for the classes proved orthogonal;
`MoveAxisOperator` sets `inverse = transpose` itself (a permutation of elements between different shapes) -/
def orthogonalWiringOk (r : ClassRow) : Bool :=
  let wired := r.method "inverse" == r.method "transpose" && !r.abstract
  let expected := ["IdentityOperator", "QURotationOperator", "QURotationTransposeOperator",
                   "AbstractLazyInverseOrthogonalOperator", "MoveAxisOperator"].contains r.name
  (wired == expected) &&
    (!(wired && r.name != "MoveAxisOperator") || r.method "out_structure" == r.method "in_structure")

/-- `@square` wiring for the observation matrix -/
def squareWiringOk (r : ClassRow) : Bool :=
  r.name != "ToastObservationMatrixOperator" || r.method "out_structure" == r.method "in_structure"

end Furax

namespace Furax
open Generated

/-- `tree_unflatten` rebuilds a landscape with `cls(**aux_data)`: every key of the flattened metadata must be
a constructor parameter and every required parameter must be among the keys -/
def landscapeRoundTripOk (r : LandscapeRow) : Bool :=
  r.unflatten == "Landscape.tree_unflatten" &&
  r.auxKeys.all (fun k => r.ctorParams.contains k) &&
  r.ctorRequired.all (fun k => r.auxKeys.contains k) &&
  -- … and what is not passed back must be derivable: the only attributes outside the keys are the derived ones
  r.attrs.all (fun a => r.auxKeys.contains a || ["shape", "pixel_shape"].contains a)

/-- an equinox module flattens field-wise: dynamic and static field names are disjoint and duplicate-free -/
def fieldsPartitionOk (r : ClassRow) : Bool :=
  (r.dynFields ++ r.staticFields).eraseDups.length == (r.dynFields ++ r.staticFields).length

end Furax

namespace Furax
open Generated

/-- where `out_structure` comes from for each class: the decorated (square) classes return their
`in_structure`; block / composite / dual classes compute it from their parts; `IndexOperator` stores it;
everything else evaluates `mv` abstractly (`jax.eval_shape`) -/
def outStructureResolutionOk (r : ClassRow) : Bool :=
  let m := r.method "out_structure"
  if ["IdentityOperator", "HomothetyOperator", "DiagonalOperator", "DiagonalInverseOperator", "HWPOperator",
      "QURotationOperator", "SymmetricBandToeplitzOperator", "ToastObservationMatrixOperator"].contains r.name
  then m == r.method "in_structure"
  else if ["QURotationTransposeOperator", "AbstractLazyInverseOrthogonalOperator"].contains r.name
  then m == some "_AbstractLazyDualOperator.in_structure"
  else if ["TransposeOperator", "InverseOperator", "ReshapeTransposeOperator", "AbstractLazyInverseOperator",
           "_AbstractLazyDualOperator", "ToastObservationMatrixTransposeOperator"].contains r.name
  then m == some "_AbstractLazyDualOperator.out_structure"
  else if r.name == "CompositionOperator" then m == some "CompositionOperator.out_structure"
  else if r.name == "AdditionOperator" then m == some "AdditionOperator.out_structure"
  else if r.name == "BlockRowOperator" then m == some "BlockRowOperator.out_structure"
  else if ["AbstractBlockOperator", "BlockDiagonalOperator", "BlockColumnOperator"].contains r.name
  then m == some "AbstractBlockOperator.out_structure"
  else if r.name == "IndexOperator" then m == some "IndexOperator.out_structure"
  else m == some "AbstractLinearOperator.out_structure"

end Furax

namespace Furax
open Generated

/-- the classes that override `as_matrix`, and with which function -/
def asMatrixResolutionOk (r : ClassRow) : Bool :=
  let expected :=
    if r.name == "IdentityOperator" then "IdentityOperator.as_matrix"
    else if r.name == "HomothetyOperator" then "HomothetyOperator.as_matrix"
    else if ["DiagonalOperator", "DiagonalInverseOperator"].contains r.name then "DiagonalOperator.as_matrix"
    else if r.name == "AdditionOperator" then "AdditionOperator.as_matrix"
    else if r.name == "BlockRowOperator" then "BlockRowOperator.as_matrix"
    else if r.name == "BlockDiagonalOperator" then "BlockDiagonalOperator.as_matrix"
    else if r.name == "BlockColumnOperator" then "BlockColumnOperator.as_matrix"
    else if ["AbstractRavelOrReshapeOperator", "RavelOperator", "ReshapeOperator"].contains r.name
      then "AbstractRavelOrReshapeOperator.as_matrix"
    else if r.name == "SymmetricBandToeplitzOperator" then "SymmetricBandToeplitzOperator.as_matrix"
    else if ["AbstractLazyInverseOperator", "InverseOperator", "AbstractLazyInverseOrthogonalOperator",
             "QURotationTransposeOperator"].contains r.name then "AbstractLazyInverseOperator.as_matrix"
    else "AbstractLinearOperator.as_matrix"
  r.method "as_matrix" == some expected

end Furax
