/-
`dense_symmetric_band_toeplitz` (FuraxModel/Toeplitz.lean: `denseStep`, `denseFlat`, `denseEntry`,
`applyDense`) against the specification `toep`: the scatter into the flat `n²` array produces exactly
the symmetric band Toeplitz matrix, for every `n ≥ 1` and every `h ≥ 0` (including `h ≥ n`).
-/
import FuraxModel.Toeplitz
import FuraxProofs.Lemmas.ToeplitzSums
namespace Furax.Toeplitz
open Finset

/-! ### index arithmetic -/

/-- upper diagonals (`j ≥ 0`): `j + t·(n+1)` with `t < n − j` hits `(r, c)` iff `c = r + j` -/
theorem hit_upper (n j r c : Nat) (hr : r < n) (hc : c < n) :
    (∃ t, t < n - j ∧ j + t * (n + 1) = r * n + c) ↔ c = r + j := by
  constructor
  · rintro ⟨t, ht, he⟩
    have e1 : t * (n + 1) = t * n + t := Nat.mul_succ t n
    rcases Nat.lt_trichotomy t r with hlt | heq | hgt
    · have : (t + 1) * n ≤ r * n := Nat.mul_le_mul_right n hlt
      have e2 : (t + 1) * n = t * n + n := Nat.succ_mul t n
      omega
    · subst heq; omega
    · have : (r + 1) * n ≤ t * n := Nat.mul_le_mul_right n hgt
      have e2 : (r + 1) * n = r * n + n := Nat.succ_mul r n
      omega
  · intro h
    refine ⟨r, by omega, ?_⟩
    have e1 : r * (n + 1) = r * n + r := Nat.mul_succ r n
    omega

/-- lower diagonals (`j = −a < 0`): `n·a + t·(n+1)` with `t < n + a` hits `(r, c)` iff `r = c + a` -/
theorem hit_lower (n a r c : Nat) (hr : r < n) (hc : c < n) :
    (∃ t, t < n + a ∧ n * a + t * (n + 1) = r * n + c) ↔ r = c + a := by
  constructor
  · rintro ⟨t, _, he⟩
    have e1 : t * (n + 1) = t * n + t := Nat.mul_succ t n
    have e0 : n * a = a * n := Nat.mul_comm n a
    have e3 : (a + t) * n = a * n + t * n := Nat.add_mul a t n
    rcases Nat.lt_trichotomy (a + t) r with hlt | heq | hgt
    · have : (a + t + 1) * n ≤ r * n := Nat.mul_le_mul_right n hlt
      have e2 : (a + t + 1) * n = (a + t) * n + n := Nat.succ_mul (a + t) n
      omega
    · rw [← heq] at he; omega
    · have : (r + 1) * n ≤ (a + t) * n := Nat.mul_le_mul_right n hgt
      have e2 : (r + 1) * n = r * n + n := Nat.succ_mul r n
      omega
  · intro h
    refine ⟨c, by omega, ?_⟩
    subst h
    have e1 : c * (n + 1) = c * n + c := Nat.mul_succ c n
    have e0 : n * a = a * n := Nat.mul_comm n a
    have e3 : (c + a) * n = c * n + a * n := Nat.add_mul c a n
    omega

/-- Boolean `any` over `List.range` as an existential -/
theorem any_range_iff (m : Nat) (f : Nat → Nat) (p : Nat) :
    ((List.range m).any (fun t => f t == p) = true) ↔ ∃ t, t < m ∧ f t = p := by
  simp [List.any_eq_true, List.mem_range]

section Scatter
variable {α : Type}

/-- one update of the loop at an in-range position: it writes iff `c + h = r + jj`, i.e. `c − r = j`,
and then the value written is `band |r − c|` -/
theorem denseStep_entry (n h : Nat) (band : Nat → α) (jj : Nat) (old : Nat → α) (r c : Nat)
    (hr : r < n) (hc : c < n) :
    denseStep n h band jj old (r * n + c) =
      if c + h = r + jj then band (dist r c) else old (r * n + c) := by
  unfold denseStep
  by_cases hj : h ≤ jj
  · simp only [if_pos hj]
    have key := (any_range_iff (n - (jj - h)) (fun t => (jj - h) + t * (n + 1)) (r * n + c)).trans
      (hit_upper n (jj - h) r c hr hc)
    by_cases hh : c + h = r + jj
    · have h1 : c = r + (jj - h) := by omega
      rw [if_pos (key.mpr h1), if_pos hh]
      congr 1
      unfold dist; split <;> omega
    · have h1 : ¬ c = r + (jj - h) := by omega
      rw [if_neg (fun e => h1 (key.mp e)), if_neg hh]
  · simp only [if_neg hj]
    have key := (any_range_iff (n + (h - jj)) (fun t => n * (h - jj) + t * (n + 1)) (r * n + c)).trans
      (hit_lower n (h - jj) r c hr hc)
    by_cases hh : c + h = r + jj
    · have h1 : r = c + (h - jj) := by omega
      rw [if_pos (key.mpr h1), if_pos hh]
      congr 1
      unfold dist; split <;> omega
    · have h1 : ¬ r = c + (h - jj) := by omega
      rw [if_neg (fun e => h1 (key.mp e)), if_neg hh]

/-- the flat array after the first `m` updates: at most one update touches a given position, so the
order of the updates is irrelevant -/
theorem denseFold_entry [Zero α] (n h : Nat) (band : Nat → α) (m r c : Nat) (hr : r < n) (hc : c < n) :
    (List.range m).foldl (fun acc jj => denseStep n h band jj acc) (fun _ => (0 : α)) (r * n + c) =
      if r ≤ c + h ∧ c + h < r + m then band (dist r c) else 0 := by
  induction m with
  | zero =>
    have : ¬ (r ≤ c + h ∧ c + h < r + 0) := by omega
    rw [if_neg this]; rfl
  | succ m ih =>
    rw [List.range_succ, List.foldl_append]
    simp only [List.foldl_cons, List.foldl_nil]
    rw [denseStep_entry n h band m _ r c hr hc, ih]
    by_cases h1 : c + h = r + m
    · have : r ≤ c + h ∧ c + h < r + (m + 1) := by omega
      rw [if_pos h1, if_pos this]
    · rw [if_neg h1]
      by_cases h2 : r ≤ c + h ∧ c + h < r + m
      · have : r ≤ c + h ∧ c + h < r + (m + 1) := by omega
        rw [if_pos h2, if_pos this]
      · have : ¬ (r ≤ c + h ∧ c + h < r + (m + 1)) := by omega
        rw [if_neg h2, if_neg this]

/-- **the scattered matrix is the symmetric band Toeplitz matrix**, for every `n` and every number of
bands (also `h ≥ n`) -/
theorem dense_entry [Zero α] (n h : Nat) (band : Nat → α) (r c : Nat) (hr : r < n) (hc : c < n) :
    denseEntry n h band r c = if dist r c ≤ h then band (dist r c) else 0 := by
  unfold denseEntry denseFlat
  rw [denseFold_entry n h band (2 * h + 1) r c hr hc]
  by_cases hd : dist r c ≤ h
  · have : r ≤ c + h ∧ c + h < r + (2 * h + 1) := by
      unfold dist at hd; split at hd <;> omega
    rw [if_pos hd, if_pos this]
  · have : ¬ (r ≤ c + h ∧ c + h < r + (2 * h + 1)) := by
      unfold dist at hd; split at hd <;> omega
    rw [if_neg hd, if_neg this]

/-- the dense matrix is symmetric -/
theorem dense_symm [Zero α] (n h : Nat) (band : Nat → α) (r c : Nat) (hr : r < n) (hc : c < n) :
    denseEntry n h band r c = denseEntry n h band c r := by
  rw [dense_entry n h band r c hr hc, dense_entry n h band c r hc hr, dist_comm r c]

end Scatter

/-- **the dense method computes the banded product** -/
theorem applyDense_eq {α : Type} [CommRing α] (h l : Nat) (band x : Nat → α) (i : Nat) (hi : i < l) :
    applyDense h l band x i = toep h l band x i := by
  unfold applyDense toep
  rw [sumRange_eq, sumRange_eq]
  apply sum_congr rfl
  intro j hj
  simp only [mem_range] at hj
  rw [dense_entry l h band i j hi hj]

end Furax.Toeplitz

