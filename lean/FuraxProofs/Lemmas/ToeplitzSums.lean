/-
Toeplitz kernels of FuraxModel/Toeplitz.lean against the specification `toep`:
direct convolution, single-FFT circular convolution and overlap-save, for every `n`, `K = h + 1`
and every FFT size `F ≥ 2K − 1`.
-/
import FuraxModel.Toeplitz
import Mathlib.Algebra.BigOperators.Group.Finset.Basic
import Mathlib.Algebra.BigOperators.Intervals
import Mathlib.Algebra.BigOperators.Ring.Finset
import Mathlib.Tactic.Ring
import Mathlib.Tactic.Linarith
namespace Furax.Toeplitz
open Finset
variable {α : Type} [CommRing α]

/-- the executable `sumRange` is the `Finset` sum over `range n` -/
theorem sumRange_eq (n : Nat) (f : Nat → α) : sumRange n f = ∑ k ∈ range n, f k := by
  unfold sumRange
  induction n with
  | zero => simp
  | succ m ih => rw [List.range_succ, List.foldl_append, ih, sum_range_succ]; simp

/-- full linear convolution of the kernel with the zero-extended signal, in overlap-save coordinates -/
def lin (h l : Nat) (kern x : Nat → α) (u : Nat) : α :=
  ∑ k ∈ range (2 * h + 1), kern k * xpad h l x (u + 2 * h - k)

/-- inside a block there is no wrap-around: reading the circular convolution at offsets `≥ 2h` gives the
linear convolution, for every FFT size `F ≥ 2h + 1` -/
theorem ovsY_eq_lin (F h l : Nat) (kern x : Nat → α) (hF : 2 * h + 1 ≤ F) (u : Nat)
    (hu : u / (F - 2 * h) < nblock F h l) :
    ovsY F h l kern x u = lin h l kern x u := by
  unfold ovsY lin circ
  simp only [hu, if_true, sumRange_eq]
  set step := F - 2 * h with hstep
  have hpos : 0 < step := by omega
  have hs : u % step < step := Nat.mod_lt _ hpos
  have hu' : u / step * step + u % step = u := Nat.div_add_mod' u step
  have hsplit : range F = range (2 * h + 1) ∪ Ico (2 * h + 1) F := by
    ext k; simp only [mem_range, mem_union, mem_Ico]; omega
  have hdisj : Disjoint (range (2 * h + 1)) (Ico (2 * h + 1) F) := by
    rw [Finset.disjoint_left]; intro k hk hk'; simp only [mem_range, mem_Ico] at hk hk'; omega
  rw [hsplit, sum_union hdisj]
  have hzero : ∑ k ∈ Ico (2 * h + 1) F, (if k ≤ 2 * h then kern k else 0) *
      xpad h l x (u / step * step + (2 * h + u % step + F - k) % F) = 0 := by
    apply sum_eq_zero; intro k hk; simp only [mem_Ico] at hk
    have : ¬ k ≤ 2 * h := by omega
    simp [this]
  rw [hzero, add_zero]
  apply sum_congr rfl
  intro k hk
  simp only [mem_range] at hk
  have hk' : k ≤ 2 * h := by omega
  simp only [hk', if_true]
  congr 2
  have h1 : (2 * h + u % step + F - k) % F = 2 * h + u % step - k := by
    have : 2 * h + u % step + F - k = (2 * h + u % step - k) + F := by omega
    rw [this, Nat.add_mod_right, Nat.mod_eq_of_lt]; omega
  rw [h1]; omega

/-- the linear convolution read at offset `h` is the banded Toeplitz product -/
theorem lin_eq_toep (h l : Nat) (band x : Nat → α) (i : Nat) (hi : i < l) :
    lin h l (kernOf h band) x (i + h) = toep h l band x i := by
  unfold lin toep
  rw [sumRange_eq]
  have hL : ∀ k ∈ range (2 * h + 1), kernOf h band k * xpad h l x (i + h + 2 * h - k) =
      if (k ≤ i + h ∧ i + h - k < l) then kernOf h band k * x (i + h - k) else 0 := by
    intro k hk; simp only [mem_range] at hk
    unfold xpad
    by_cases hc : k ≤ i + h ∧ i + h - k < l
    · have : 2 * h ≤ i + h + 2 * h - k ∧ i + h + 2 * h - k < 2 * h + l := by omega
      rw [if_pos this, if_pos hc]; congr 2; omega
    · have : ¬ (2 * h ≤ i + h + 2 * h - k ∧ i + h + 2 * h - k < 2 * h + l) := by omega
      rw [if_neg this, if_neg hc, mul_zero]
  have hR : ∀ j ∈ range l, (if dist i j ≤ h then band (dist i j) else 0) * x j =
      if dist i j ≤ h then band (dist i j) * x j else 0 := by
    intro j _; split <;> simp
  rw [sum_congr rfl hL, sum_congr rfl hR, ← sum_filter, ← sum_filter]
  refine sum_nbij' (fun k => i + h - k) (fun j => i + h - j) ?_ ?_ ?_ ?_ ?_
  · intro k hk; simp only [mem_filter, mem_range] at hk ⊢
    refine ⟨by omega, ?_⟩; unfold dist; split <;> omega
  · intro j hj; simp only [mem_filter, mem_range] at hj ⊢
    unfold dist at hj; split at hj <;> omega
  · intro k hk; simp only [mem_filter, mem_range] at hk; omega
  · intro j hj; simp only [mem_filter, mem_range] at hj
    unfold dist at hj; split at hj <;> omega
  · intro k hk; simp only [mem_filter, mem_range] at hk
    congr 1
    unfold kernOf dist
    split <;> split <;> first | (congr 1; omega) | omega

/-- the blocks the loop computes cover every position that is read back -/
theorem block_in_range (F h l i : Nat) (hF : 2 * h + 1 ≤ F) (hi : i < l) :
    (i + h) / (F - 2 * h) < nblock F h l := by
  unfold nblock
  set step := F - 2 * h with hstep
  have hpos : 0 < step := by omega
  have h1 : (i + h) / step + 1 = (i + h + step) / step := (Nat.add_div_right _ hpos).symm
  have h2 : (i + h + step) / step ≤ (l + 2 * h + step - 1) / step :=
    Nat.div_le_div_right (by omega)
  omega

/-- **overlap-save computes the banded product**, for every length, band count and `F ≥ 2K − 1` -/
theorem overlapSave_eq (F h l : Nat) (band x : Nat → α) (hF : 2 * h + 1 ≤ F) (i : Nat) (hi : i < l) :
    applyOverlapSave F h l band x i = toep h l band x i := by
  unfold applyOverlapSave
  rw [ovsY_eq_lin F h l _ x hF _ (block_in_range F h l i hF hi), lin_eq_toep h l band x i hi]

/-- **direct convolution computes the banded product** -/
theorem direct_eq (h l : Nat) (band x : Nat → α) (i : Nat) (hi : i < l) :
    applyDirect h l band x i = toep h l band x i := by
  rw [← lin_eq_toep h l band x i hi]
  unfold applyDirect lin
  rw [sumRange_eq]
  apply sum_congr rfl
  intro k hk
  simp only [mem_range] at hk
  congr 1
  unfold padBoth xpad
  by_cases hc : h ≤ i + 2 * h - k ∧ i + 2 * h - k < h + l
  · have : 2 * h ≤ i + h + 2 * h - k ∧ i + h + 2 * h - k < 2 * h + l := by omega
    rw [if_pos hc, if_pos this]; congr 1; omega
  · have : ¬ (2 * h ≤ i + h + 2 * h - k ∧ i + h + 2 * h - k < 2 * h + l) := by omega
    rw [if_neg hc, if_neg this]

/-- **the single-FFT method computes the banded product**: the circular wrap-around only ever reads the
`2h` zeros appended to the signal -/
theorem fft_eq (h l : Nat) (band x : Nat → α) (i : Nat) (hi : i < l) :
    applyFft h l band x i = toep h l band x i := by
  rw [← lin_eq_toep h l band x i hi]
  unfold applyFft circ lin
  rw [sumRange_eq]
  set F := l + 2 * h with hFdef
  have hsplit : range F = range (2 * h + 1) ∪ Ico (2 * h + 1) F := by
    ext k; simp only [mem_range, mem_union, mem_Ico]; omega
  have hdisj : Disjoint (range (2 * h + 1)) (Ico (2 * h + 1) F) := by
    rw [Finset.disjoint_left]; intro k hk hk'; simp only [mem_range, mem_Ico] at hk hk'; omega
  rw [hsplit, sum_union hdisj]
  have hzero : ∑ k ∈ Ico (2 * h + 1) F, (if k ≤ 2 * h then kernOf h band k else 0) *
      padRight l x ((i + h + F - k) % F) = 0 := by
    apply sum_eq_zero; intro k hk; simp only [mem_Ico] at hk
    have : ¬ k ≤ 2 * h := by omega
    simp [this]
  rw [hzero, add_zero]
  apply sum_congr rfl
  intro k hk
  simp only [mem_range] at hk
  have hk' : k ≤ 2 * h := by omega
  simp only [hk', if_true]
  congr 1
  unfold padRight xpad
  by_cases hki : k ≤ i + h
  · have h1 : (i + h + F - k) % F = i + h - k := by
      have : i + h + F - k = (i + h - k) + F := by omega
      rw [this, Nat.add_mod_right, Nat.mod_eq_of_lt]; omega
    rw [h1]
    by_cases hc : i + h - k < l
    · have : 2 * h ≤ i + h + 2 * h - k ∧ i + h + 2 * h - k < 2 * h + l := by omega
      rw [if_pos hc, if_pos this]; congr 1; omega
    · have : ¬ (2 * h ≤ i + h + 2 * h - k ∧ i + h + 2 * h - k < 2 * h + l) := by omega
      rw [if_neg hc, if_neg this]
  · have h1 : (i + h + F - k) % F = i + h + F - k := Nat.mod_eq_of_lt (by omega)
    rw [h1]
    have hc : ¬ (i + h + F - k < l) := by omega
    have : ¬ (2 * h ≤ i + h + 2 * h - k ∧ i + h + 2 * h - k < 2 * h + l) := by omega
    rw [if_neg hc, if_neg this]

/-- the specification is symmetric: `T[i,j] = T[j,i]` -/
theorem dist_comm (i j : Nat) : dist i j = dist j i := by unfold dist; split <;> split <;> omega

end Furax.Toeplitz
