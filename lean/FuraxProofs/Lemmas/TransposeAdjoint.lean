/-
`op.T` (FuraxModel/Dual.lean, `transposeOp`) is the adjoint.

* Part 1 (Level A, no semantics): the declared structures of `op.T` are those of `op`, swapped, for every
  expression (`transpose_structure`, `transposeList_structure`).
* Part 2 (Level A): double transposition at the level of forms (`transpose_transpose_wrap` and friends).
* Part 2b (Level A): `op.T` of a structurally well-formed expression is structurally well formed
  (`transpose_StructOK`).
* Part 3: for ANY semantics with an additive pairing (`AdjCore`; `AdjSem` = `ArithSem` + pairing projects onto
  it), adjointness of the leaves and wrappers (`LeafAdjoint`, discharged kernel by kernel elsewhere) propagates
  through compositions of any length (`transpose_adjoint_comp`), sums of any length (`transpose_adjoint_add`)
  and arbitrary nestings of the two (`transpose_adjoint`), for structurally well-formed expressions (`StructOK`:
  the law `honest` of `AdjCore` is demanded of those only, so that faithful denotations inhabit it).

The laws are hypotheses (structure fields), never axioms.  `List.Forall₂` comes from Batteries.
-/
import FuraxModel.Dual
import FuraxProofs.Lemmas.ArithSound
import Batteries.Data.List.Basic
namespace Furax
open Op

/-! ## Part 1 — structures are swapped -/

mutual
/-- What the encoder must guarantee for `op.T` to have swapped structures: a leaf of a class whose
`transpose` is `lambda self: self` is square.  Nothing is needed of wrappers (their structures are defined
from their operand's, and so are those of their transposes), nor of the number of operands of a composite. -/
def Op.WFT : Op → Prop
  | .leaf _ c p => isSymmetricLeaf c = true → p.inS = p.outS
  | .wrap _ _ _ => True
  | .comp _ ops => Op.WFTList ops
  | .cont _ _ _ ops => Op.WFTList ops
def Op.WFTList : List Op → Prop
  | [] => True
  | o :: os => o.WFT ∧ Op.WFTList os
end

theorem WFTList_iff (ops : List Op) : WFTList ops ↔ ∀ o ∈ ops, o.WFT := by
  induction ops with
  | nil => simp [WFTList]
  | cons o os ih => simp [WFTList, ih]

/-- the class of the transposed container: rows become columns -/
def ContCls.dual : ContCls → ContCls
  | .add => .add
  | .blockRow => .blockCol
  | .blockCol => .blockRow
  | .blockDiag => .blockDiag

/-! ### inversion lemmas for `transposeOp` / `transposeList` -/

theorem transposeOp_comp_ok {u : Nat} {ops : List Op} {t : Op} (h : transposeOp (.comp u ops) = .ok t) :
    ∃ ts, transposeList ops = .ok ts ∧ t = .comp 0 ts.reverse := by
  simp only [transposeOp] at h
  split at h
  · rename_i ts hts
    simp only [Except.ok.injEq] at h
    exact ⟨ts, hts, h.symm⟩
  · simp at h

theorem transposeOp_cont_ok {u : Nat} {k : ContCls} {td : TreeDef} {ops : List Op} {t : Op}
    (h : transposeOp (.cont u k td ops) = .ok t) :
    ∃ ts, transposeList ops = .ok ts ∧ t = .cont 0 k.dual td ts := by
  simp only [transposeOp] at h
  split at h
  · rename_i ts hts
    simp only [Except.ok.injEq] at h
    refine ⟨ts, hts, ?_⟩
    subst h
    cases k <;> rfl
  · simp at h

theorem transposeList_nil_ok {ts : List Op} (h : transposeList [] = .ok ts) : ts = [] := by
  simp only [transposeList, Except.ok.injEq] at h
  exact h.symm

theorem transposeList_cons_ok {o : Op} {os ts : List Op} (h : transposeList (o :: os) = .ok ts) :
    ∃ t ts', transposeOp o = .ok t ∧ transposeList os = .ok ts' ∧ ts = t :: ts' := by
  simp only [transposeList] at h
  split at h
  · rename_i t ts' h1 h2
    simp only [Except.ok.injEq] at h
    exact ⟨t, ts', h1, h2, h.symm⟩
  · simp at h
  · simp at h

/-! ### the structure helpers in terms of `List.map` -/

theorem inSList_eq_map (l : List Op) : inSList l = l.map Op.inS := by
  induction l with
  | nil => rfl
  | cons o os ih => simp [inSList, ih]

theorem outSList_eq_map (l : List Op) : outSList l = l.map Op.outS := by
  induction l with
  | nil => rfl
  | cons o os ih => simp [outSList, ih]

theorem inSHead_eq (l : List Op) : inSHead l = ((l.map Op.inS).head?).getD default := by
  cases l <;> simp [inSHead]

theorem outSHead_eq (l : List Op) : outSHead l = ((l.map Op.outS).head?).getD default := by
  cases l <;> simp [outSHead]

theorem inSLast_eq : ∀ (l : List Op), inSLast l = ((l.map Op.inS).getLast?).getD default
  | [] => by simp [inSLast]
  | [o] => by simp [inSLast]
  | _ :: o :: os => by
      simp only [inSLast]
      rw [inSLast_eq (o :: os)]
      simp [List.getLast?_cons_cons]

mutual
/-- **Structures are swapped**: `op.T.in_structure() == op.out_structure()` and
`op.T.out_structure() == op.in_structure()`, for every expression. -/
theorem transpose_structure : ∀ (o t : Op), o.WFT → transposeOp o = .ok t →
    Op.inS t = Op.outS o ∧ Op.outS t = Op.inS o
  | .leaf u c p, t, hw, h => by
      simp only [Op.WFT] at hw
      cases c <;> simp [transposeOp, isSymmetricLeaf] at h hw
      all_goals first
        | (subst h; simp [Op.inS, Op.outS, squareLeaf, hw])
        | (split at h
           · simp only [Except.ok.injEq] at h; subst h; simp [Op.inS, Op.outS, squareLeaf]
           · simp at h)
  | .wrap u k o, t, _, h => by
      cases k <;> simp [transposeOp] at h <;> subst h <;> simp [Op.inS, Op.outS]
  | .comp u ops, t, hw, h => by
      obtain ⟨ts, hts, rfl⟩ := transposeOp_comp_ok h
      simp only [Op.WFT] at hw
      obtain ⟨_, hin, hout⟩ := transposeList_structure ops ts hw hts
      rw [inSList_eq_map, outSList_eq_map] at hin hout
      simp only [Op.inS, Op.outS]
      rw [inSLast_eq, outSHead_eq, outSHead_eq, inSLast_eq]
      simp [List.map_reverse, List.getLast?_reverse, List.head?_reverse, hin, hout]
  | .cont u k td ops, t, hw, h => by
      obtain ⟨ts, hts, rfl⟩ := transposeOp_cont_ok h
      simp only [Op.WFT] at hw
      obtain ⟨_, hin, hout⟩ := transposeList_structure ops ts hw hts
      have hhi : inSHead ts = outSHead ops := by
        rw [inSHead_eq, outSHead_eq, ← inSList_eq_map, ← outSList_eq_map, hin]
      have hho : outSHead ts = inSHead ops := by
        rw [inSHead_eq, outSHead_eq, ← inSList_eq_map, ← outSList_eq_map, hout]
      cases k <;> simp [ContCls.dual, Op.inS, Op.outS, hin, hout, hhi, hho]
theorem transposeList_structure : ∀ (ops ts : List Op), WFTList ops → transposeList ops = .ok ts →
    ts.length = ops.length ∧ inSList ts = outSList ops ∧ outSList ts = inSList ops
  | [], ts, _, h => by
      rw [transposeList_nil_ok h]
      exact ⟨rfl, rfl, rfl⟩
  | o :: os, ts, hw, h => by
      obtain ⟨t, ts', ht, hts, rfl⟩ := transposeList_cons_ok h
      obtain ⟨h1, h2⟩ := transpose_structure o t hw.1 ht
      obtain ⟨h3, h4, h5⟩ := transposeList_structure os ts' hw.2 hts
      simp [inSList, outSList, h1, h2, h3, h4, h5]
end

/-! ## Part 2 — double transposition, at the level of forms -/

/-- `TransposeOperator.transpose` (and its subclasses): the operand itself -/
theorem transpose_wrap_operand (u : Nat) (k : WrapCls) (o : Op)
    (hk : k = .transpose ∨ k = .reshapeT ∨ k = .qurotT ∨ k = .obsT) :
    transposeOp (.wrap u k o) = .ok o := by
  rcases hk with rfl | rfl | rfl | rfl <;> simp [transposeOp]

/-- `@symmetric` / `@diagonal` leaves return themselves (the same object: the uid is kept) -/
theorem transpose_symmetric_leaf (u : Nat) (c : LeafCls) (p : Params) (h : isSymmetricLeaf c = true) :
    transposeOp (.leaf u c p) = .ok (.leaf u c p) := by
  simp [transposeOp, h]

/-- `DiagonalInverseOperator` is symmetric: returns itself -/
theorem transpose_diagInv (u : Nat) (o : Op) :
    transposeOp (.wrap u .diagInv o) = .ok (.wrap u .diagInv o) := by
  simp [transposeOp]

/-- the leaf classes whose transpose is a (dedicated or generic) lazy wrapper around the leaf -/
def isWrappedLeaf (c : LeafCls) : Bool := !isSymmetricLeaf c && c != .moveAxis && c != .dense

/-- the wrapper class `transposeOp` puts around a leaf of class `c` -/
def transposeWrapper : LeafCls → WrapCls
  | .ravel | .reshape => .reshapeT
  | .qurot => .qurotT
  | .obsMatrix => .obsT
  | _ => .transpose

theorem transpose_wrapped_leaf (u : Nat) (c : LeafCls) (p : Params) (hc : isWrappedLeaf c = true) :
    transposeOp (.leaf u c p) = .ok (.wrap 0 (transposeWrapper c) (.leaf u c p)) := by
  cases c <;> simp [isWrappedLeaf, isSymmetricLeaf] at hc <;> simp [transposeOp, isSymmetricLeaf, transposeWrapper]

/-- ravel, reshape, rotation, observation matrix and every generic leaf (index, pack, polarizer, broadcast
diagonal, opaque): `op.T.T` is the very same operand object -/
theorem transpose_transpose_leaf (u : Nat) (c : LeafCls) (p : Params) (hc : isWrappedLeaf c = true) :
    (transposeOp (.leaf u c p)).bind transposeOp = .ok (.leaf u c p) := by
  rw [transpose_wrapped_leaf u c p hc]
  cases c <;> simp [isWrappedLeaf, isSymmetricLeaf] at hc <;> simp [Except.bind, transposeOp, transposeWrapper]

/-- a lazy inverse: `op.T` is the generic `TransposeOperator(op)` and `op.T.T` is `op` itself -/
theorem transpose_transpose_inverse (u : Nat) (o : Op) :
    (transposeOp (.wrap u .inverse o)).bind transposeOp = .ok (.wrap u .inverse o) := by
  simp [Except.bind, transposeOp]

/-- move-axis: `op.T.T` is a fresh object (uid 0) with the same structures and the same source and destination -/
theorem transpose_transpose_moveAxis (u : Nat) (p : Params) :
    ∃ p', (transposeOp (.leaf u .moveAxis p)).bind transposeOp = .ok (.leaf 0 .moveAxis p') ∧
      p'.inS = p.inS ∧ p'.outS = p.outS ∧ p'.ints = [p.ints.getD 0 [], p.ints.getD 1 []] ∧
      p'.vals = p.vals ∧ p'.idx = p.idx ∧ p'.flag = p.flag ∧ p'.str = p.str := by
  refine ⟨{ p with ints := [p.ints.getD 0 [], p.ints.getD 1 []] }, ?_, ?_⟩
  · simp [Except.bind, transposeOp, isSymmetricLeaf]
  · simp

/-- when `ints` is `[source, destination]` (what the encoder produces) the parameters are unchanged -/
theorem transpose_transpose_moveAxis' (u : Nat) (p : Params) (src dst : List Int) (h : p.ints = [src, dst]) :
    (transposeOp (.leaf u .moveAxis p)).bind transposeOp = .ok (.leaf 0 .moveAxis p) := by
  obtain ⟨p', h1, h2, h3, h4, h5, h6, h7, h8⟩ := transpose_transpose_moveAxis u p
  rw [h1]
  have : p' = p := by
    cases p; cases p'
    simp_all
  rw [this]

/-- **Double transposition of every wrapper and leaf form** (dense leaves excepted: their subscripts are
rewritten by `Einsum.transposedSubscripts`). -/
theorem transpose_transpose_wrap :
    (∀ u k o, (k = .transpose ∨ k = .reshapeT ∨ k = .qurotT ∨ k = .obsT) → transposeOp (.wrap u k o) = .ok o) ∧
    (∀ u c p, (c = .ravel ∨ c = .reshape ∨ c = .qurot ∨ c = .obsMatrix ∨ c = .index ∨ c = .pack ∨
        c = .polarizer ∨ c = .broadcastDiagonal ∨ c = .opaque) →
      (transposeOp (.leaf u c p)).bind transposeOp = .ok (.leaf u c p)) ∧
    (∀ u c p, isSymmetricLeaf c = true → transposeOp (.leaf u c p) = .ok (.leaf u c p)) ∧
    (∀ u o, transposeOp (.wrap u .diagInv o) = .ok (.wrap u .diagInv o)) ∧
    (∀ u o, (transposeOp (.wrap u .inverse o)).bind transposeOp = .ok (.wrap u .inverse o)) ∧
    (∀ u p, ∃ p', (transposeOp (.leaf u .moveAxis p)).bind transposeOp = .ok (.leaf 0 .moveAxis p') ∧
      p'.inS = p.inS ∧ p'.outS = p.outS ∧ p'.ints = [p.ints.getD 0 [], p.ints.getD 1 []]) := by
  refine ⟨transpose_wrap_operand, ?_, transpose_symmetric_leaf, transpose_diagInv,
    transpose_transpose_inverse, ?_⟩
  · intro u c p hc
    apply transpose_transpose_leaf
    rcases hc with rfl | rfl | rfl | rfl | rfl | rfl | rfl | rfl | rfl <;> rfl
  · intro u p
    obtain ⟨p', h1, h2, h3, h4, _⟩ := transpose_transpose_moveAxis u p
    exact ⟨p', h1, h2, h3, h4⟩

/-! ## Part 2b — `op.T` of a structurally well-formed expression is structurally well formed -/

/-- reversing a chain and swapping the structures of every operand gives a chain -/
theorem Chain_reverse_of_swapped (ops ts : List Op)
    (hsw : List.Forall₂ (fun o t => Op.inS t = Op.outS o ∧ Op.outS t = Op.inS o) ops ts)
    (hc : Chain ops) : Chain ts.reverse := by
  induction hsw with
  | nil => trivial
  | @cons o t os ts' h hrest ih =>
    rw [List.reverse_cons]
    cases hrest with
    | nil => simp [Chain]
    | @cons o' t' os' ts'' h' hrest' =>
      have ih' := ih hc.2
      refine Chain_append _ _ (by simp) (by simp) ih' trivial ?_
      rw [List.reverse_cons, ArithSem.inSLast_singleton_append]
      simp only [outSHead]
      rw [h'.1, h.2]
      exact hc.1.symm

/-- the structures of every pair `transposeList` forms are swapped -/
theorem transposeList_swapped : ∀ (ops ts : List Op), WFTList ops → transposeList ops = .ok ts →
    List.Forall₂ (fun o t => Op.inS t = Op.outS o ∧ Op.outS t = Op.inS o) ops ts
  | [], ts, _, h => by rw [transposeList_nil_ok h]; exact .nil
  | o :: os, ts, hw, h => by
      obtain ⟨t, ts', ht, hts, rfl⟩ := transposeList_cons_ok h
      exact .cons (transpose_structure o t hw.1 ht) (transposeList_swapped os ts' hw.2 hts)

mutual
/-- **`op.T` of a structurally well-formed expression is structurally well formed** (every class: the dedicated
transpose wrappers wrap an operand of their class, the reversed chain of the transposes is a chain, the dual
container of the transposes satisfies the dual constraint). -/
theorem transpose_StructOK : ∀ (o t : Op), StructOK o → o.WFT → transposeOp o = .ok t → StructOK t
  | .leaf u c p, t, _, _, h => by
      by_cases hs : isSymmetricLeaf c = true
      · rw [transpose_symmetric_leaf u c p hs] at h
        simp only [Except.ok.injEq] at h; subst h; exact StructOK_leaf _ _ _
      · by_cases hc : isWrappedLeaf c = true
        · rw [transpose_wrapped_leaf u c p hc] at h
          simp only [Except.ok.injEq] at h; subst h
          rw [StructOK_wrap_iff]
          refine ⟨StructOK_leaf _ _ _, ?_⟩
          cases c <;> simp [isWrappedLeaf, isSymmetricLeaf] at hc <;>
            simp [WrapOK, transposeWrapper, WrapCls.isLazy, isQURot, isRavelOrReshape, isLeafCls, Op.inS,
              Op.outS, squareLeaf]
        · have hcc : c = .moveAxis ∨ c = .dense := by
            cases c <;> simp_all [isWrappedLeaf, isSymmetricLeaf]
          rcases hcc with rfl | rfl
          · simp only [transposeOp, isSymmetricLeaf, Bool.false_eq_true, if_false, Except.ok.injEq] at h
            subst h; exact StructOK_leaf _ _ _
          · simp only [transposeOp, isSymmetricLeaf, Bool.false_eq_true, if_false] at h
            split at h
            · simp only [Except.ok.injEq] at h; subst h; exact StructOK_leaf _ _ _
            · simp at h
  | .wrap u k o, t, hok, _, h => by
      obtain ⟨hoko, _⟩ := (StructOK_wrap_iff u k o).mp hok
      cases k <;> simp only [transposeOp, Except.ok.injEq] at h <;> subst h
      all_goals first
        | exact hoko
        | exact hok
        | (rw [StructOK_wrap_iff]; exact ⟨hok, by simp [WrapOK, WrapCls.isLazy]⟩)
  | .comp u ops, t, hok, hw, h => by
      obtain ⟨ts, hts, rfl⟩ := transposeOp_comp_ok h
      obtain ⟨hne, hoks, hch⟩ := (StructOK_comp_iff u ops).mp hok
      simp only [Op.WFT] at hw
      have hl := (transposeList_structure ops ts hw hts).1
      rw [StructOK_comp_iff]
      refine ⟨?_, ?_, ?_⟩
      · intro h0
        have h1 : ts = [] := by simpa using h0
        subst h1
        exact hne (List.length_eq_zero_iff.mp hl.symm)
      · intro t ht
        exact transposeList_StructOK ops ts hoks hw hts t (List.mem_reverse.mp ht)
      · exact Chain_reverse_of_swapped ops ts (transposeList_swapped ops ts hw hts) hch
  | .cont u k td ops, t, hok, hw, h => by
      obtain ⟨ts, hts, rfl⟩ := transposeOp_cont_ok h
      obtain ⟨hne, hoks, hc⟩ := (StructOK_cont_iff u k td ops).mp hok
      simp only [Op.WFT] at hw
      obtain ⟨hl, hin, hout⟩ := transposeList_structure ops ts hw hts
      rw [StructOK_cont_iff]
      refine ⟨?_, fun t ht => transposeList_StructOK ops ts hoks hw hts t ht, by rw [hl]; exact hc.1, ?_⟩
      · intro h0; subst h0
        exact hne (List.length_eq_zero_iff.mp hl.symm)
      · have h2 := hc.2
        cases k
        · exact fun t ht => ⟨allIn_of_allOut ops ts hin (fun o ho => (h2 o ho).2) t ht,
            allOut_of_allIn ops ts hout (fun o ho => (h2 o ho).1) t ht⟩
        · exact allIn_of_allOut ops ts hin h2
        · trivial
        · exact allOut_of_allIn ops ts hout h2
theorem transposeList_StructOK : ∀ (ops ts : List Op), (∀ o ∈ ops, StructOK o) → WFTList ops →
    transposeList ops = .ok ts → ∀ t ∈ ts, StructOK t
  | [], ts, _, _, h => by
      rw [transposeList_nil_ok h]
      intro t ht; simp at ht
  | o :: os, ts, hok, hw, h => by
      obtain ⟨t, ts', ht, hts, rfl⟩ := transposeList_cons_ok h
      intro t' ht'
      rw [List.mem_cons] at ht'
      rcases ht' with rfl | ht'
      · exact transpose_StructOK o _ (hok o (by simp)) hw.1 ht
      · exact transposeList_StructOK os ts' (fun o' ho' => hok o' (by simp [ho'])) hw.2 hts t' ht'
end

/-! ## Part 3 — adjointness

The induction is carried out over `AdjCore`, the minimal set of laws it uses: a denotation that is honest on
structurally well-formed operators (`StructOK`), the laws of the two composites (`comp_law`, `add_law`) and a
pairing additive in each argument.  `AdjSem` (the structure
extending `ArithSem`) projects onto it (`AdjSem.toCore`), and the `AdjSem` statements are corollaries.
`AdjCore` is inhabited (`AdjCore.unitModel`), so the statements over it are not vacuous.  (An earlier version of
`OpSem` demanded `inS = outS` of every identity leaf the tree type can express and was therefore empty; the law
was repaired — `Op.outS` now models the `@square` decorator — and `Lemmas/ScalarModel.lean` exhibits a
non-trivial inhabitant of `OpSem` and `ArithSem`.) -/

/-- Semantics with a pairing: the laws used by the adjointness induction, and nothing else. -/
structure AdjCore (V R : Type) [Add R] [Zero R] where
  den : Op → V → V
  mem : Struct → V → Prop
  /-- a structurally well-formed operator maps its input space into its output space -/
  honest : ∀ o x, StructOK o → mem (Op.inS o) x → mem (Op.outS o) (den o x)
  add : V → V → V
  zero : V
  /-- `CompositionOperator.mv` applies the operands from the last to the first -/
  comp_law : ∀ u ops x, den (.comp u ops) x = (Sem.mk den Op.inS Op.outS mem StructOK honest).app ops x
  /-- `AdditionOperator.mv` adds the results of its operand leaves -/
  add_law : ∀ u td ops x, den (.cont u .add td ops) x = (ops.map (fun o => den o x)).foldr add zero
  dot : V → V → R
  dot_add_left : ∀ x y z, dot (add x y) z = dot x z + dot y z
  dot_zero_left : ∀ z, dot zero z = 0
  dot_add_right : ∀ x y z, dot x (add y z) = dot x y + dot x z
  dot_zero_right : ∀ x, dot x zero = 0

/-- `ArithSem` plus a pairing `⟨·,·⟩ : V → V → R`, additive in each argument. -/
structure AdjSem (V R : Type) [Add R] [Zero R] extends ArithSem V where
  dot : V → V → R
  dot_add_left : ∀ x y z, dot (add x y) z = dot x z + dot y z
  dot_zero_left : ∀ z, dot zero z = 0
  dot_add_right : ∀ x y z, dot x (add y z) = dot x y + dot x z
  dot_zero_right : ∀ x, dot x zero = 0

/-- a chain is well typed between `s` and `t` (`Sem.WT` without the semantics) -/
def chainWT : List Op → Struct → Struct → Prop
  | [], s, t => s = t
  | o :: os, s, t => Op.outS o = t ∧ chainWT os s (Op.inS o)

/-- a non-empty well-typed chain goes from the input structure of its last operand to the output structure
of its first -/
theorem chainWT_ends : ∀ (ops : List Op) (s t : Struct), ops ≠ [] → chainWT ops s t →
    inSLast ops = s ∧ outSHead ops = t
  | [], _, _, hne, _ => absurd rfl hne
  | [o], s, t, _, h => by
      obtain ⟨h1, h2⟩ := h
      simp only [chainWT] at h2
      exact ⟨by simp [inSLast, h2], by simp [outSHead, h1]⟩
  | o :: o' :: os, s, t, _, h => by
      obtain ⟨h1, h2⟩ := h
      exact ⟨by simp only [inSLast]; exact (chainWT_ends (o' :: os) s _ (by simp) h2).1,
        by simp [outSHead, h1]⟩

theorem chainWT_iff {V : Type} (L : OpSem V) (ops : List Op) (s t : Struct) :
    L.toSem.WT ops s t ↔ chainWT ops s t := by
  induction ops generalizing t with
  | nil => rfl
  | cons o os ih => simp only [Sem.WT, chainWT, OpSem.toSem_outS, OpSem.toSem_inS, ih]

/-- a leaf or a wrapper (an operator that is neither a composition nor a container) -/
def Op.isAtom : Op → Bool
  | .leaf .. | .wrap .. => true
  | _ => false

/-- `transposeList` pairs every operand with its own transpose -/
theorem transposeList_forall₂ : ∀ (ops ts : List Op), transposeList ops = .ok ts →
    List.Forall₂ (fun o t => transposeOp o = .ok t) ops ts
  | [], ts, h => by rw [transposeList_nil_ok h]; exact .nil
  | o :: os, ts, h => by
      obtain ⟨t, ts', ht, hts, rfl⟩ := transposeList_cons_ok h
      exact .cons ht (transposeList_forall₂ os ts' hts)

/- (`transposeList_swapped`, the structures of every pair are swapped, is in Part 2b above) -/

/-- expressions built from leaves, wrappers, compositions and sums (no block container) -/
inductive Frag : Op → Prop
  | leaf (u : Nat) (c : LeafCls) (p : Params) : Frag (.leaf u c p)
  | wrap (u : Nat) (k : WrapCls) (o : Op) : Frag (.wrap u k o)
  | comp (u : Nat) (ops : List Op) : (∀ o ∈ ops, Frag o) → Frag (.comp u ops)
  | add (u : Nat) (td : TreeDef) (ops : List Op) : (∀ o ∈ ops, Frag o) → Frag (.cont u .add td ops)

mutual
/-- every composition inside is well typed between its own structures; the operands of every sum inside
share their input and output structures -/
def Op.WTAll : Op → Prop
  | .leaf .. => True
  | .wrap .. => True
  | .comp _ ops => chainWT ops (inSLast ops) (outSHead ops) ∧ Op.WTAllList ops
  | .cont _ k _ ops =>
    (k = .add → ∀ o ∈ ops, Op.inS o = inSHead ops ∧ Op.outS o = outSHead ops) ∧ Op.WTAllList ops
def Op.WTAllList : List Op → Prop
  | [] => True
  | o :: os => o.WTAll ∧ Op.WTAllList os
end

namespace AdjCore
variable {V R : Type} [Add R] [Zero R] (C : AdjCore V R)

def toSem : Sem Op V Struct := ⟨C.den, Op.inS, Op.outS, C.mem, StructOK, C.honest⟩

@[simp] theorem toSem_inS (o : Op) : C.toSem.inS o = Op.inS o := rfl
@[simp] theorem toSem_outS (o : Op) : C.toSem.outS o = Op.outS o := rfl
@[simp] theorem toSem_den (o : Op) : C.toSem.den o = C.den o := rfl
@[simp] theorem toSem_mem (s : Struct) : C.toSem.mem s = C.mem s := rfl

theorem comp_law' (u : Nat) (ops : List Op) (x : V) : C.den (.comp u ops) x = C.toSem.app ops x :=
  C.comp_law u ops x

theorem WT_iff (ops : List Op) (s t : Struct) : C.toSem.WT ops s t ↔ chainWT ops s t := by
  induction ops generalizing t with
  | nil => rfl
  | cons o os ih => simp only [Sem.WT, chainWT, toSem_outS, toSem_inS, ih]

/-- `⟨o x, y⟩ = ⟨x, t y⟩` for every `x` of the input structure and `y` of the output structure of `o` -/
def IsAdjointOn (o t : Op) : Prop :=
  ∀ x y, C.mem (Op.inS o) x → C.mem (Op.outS o) y → C.dot (C.den o x) y = C.dot x (C.den t y)

/-- every leaf and every wrapper transposes to its adjoint (discharged kernel by kernel) -/
def LeafAdjoint : Prop :=
  ∀ o t, o.isAtom = true → transposeOp o = .ok t → C.IsAdjointOn o t

/-- the induction behind `transpose_adjoint_comp`: `⟨(o₁∘…∘oₙ) x, y⟩ = ⟨x, (tₙ∘…∘t₁) y⟩` -/
theorem adjoint_chain (s : Struct) (ops : List Op) :
    ∀ (ts : List Op) (t : Struct), (∀ o ∈ ops, StructOK o) → (∀ t' ∈ ts, StructOK t') →
    C.toSem.WT ops s t →
    List.Forall₂ C.IsAdjointOn ops ts →
    List.Forall₂ (fun o t => Op.inS t = Op.outS o ∧ Op.outS t = Op.inS o) ops ts →
    ∀ x y, C.mem s x → C.mem t y →
      C.dot (C.toSem.app ops x) y = C.dot x (C.toSem.app ts.reverse y) := by
  induction ops with
  | nil =>
    intro ts t _ _ _ hadj _ x y _ _
    cases hadj
    rfl
  | cons o os ih =>
    intro ts t hok hokt hwt hadj hsw x y hx hy
    cases hadj with
    | cons ha hadj' =>
      rename_i t0 ts'
      cases hsw with
      | cons hs hsw' =>
        obtain ⟨h1, h2⟩ := hwt
        simp only [toSem_outS, toSem_inS] at h1 h2
        subst h1
        have hok' : ∀ o' ∈ os, StructOK o' := fun o' ho' => hok o' (List.mem_cons_of_mem _ ho')
        have hm : C.mem (Op.inS o) (C.toSem.app os x) := C.toSem.WT_mem _ _ _ hok' h2 x hx
        have hy' : C.mem (Op.inS o) (C.den t0 y) := by
          rw [← hs.2]
          exact C.honest t0 y (hokt t0 List.mem_cons_self) (by rw [hs.1]; exact hy)
        rw [List.reverse_cons, Sem.app_append]
        simp only [Sem.app, toSem_den]
        rw [ha _ _ hm hy]
        exact ih ts' _ hok' (fun t' ht' => hokt t' (List.mem_cons_of_mem _ ht')) h2 hadj' hsw' x _ hx hy'

/-- **Adjoint of a composition of any length**: if every operand of a chain of structurally well-formed
operands, well typed between the structures of the composition, is paired with its adjoint by `transposeList`,
then the reversed chain of the transposes is the adjoint of the composition. -/
theorem transpose_adjoint_comp (u : Nat) (ops ts : List Op) (hok : ∀ o ∈ ops, StructOK o)
    (hwt : C.toSem.WT ops (Op.inS (.comp u ops)) (Op.outS (.comp u ops)))
    (hw : WFTList ops) (hT : transposeList ops = .ok ts)
    (hadj : List.Forall₂ C.IsAdjointOn ops ts) :
    C.IsAdjointOn (.comp u ops) (.comp 0 ts.reverse) := by
  intro x y hx hy
  rw [C.comp_law', C.comp_law']
  exact C.adjoint_chain _ ops ts _ hok (transposeList_StructOK ops ts hok hw hT) hwt hadj
    (transposeList_swapped ops ts hw hT) x y hx hy

/-- the same, for a non-empty chain well typed between any two structures -/
theorem transpose_adjoint_comp' (u : Nat) (ops ts : List Op) (s t : Struct)
    (hne : ops ≠ []) (hok : ∀ o ∈ ops, StructOK o) (hwt : C.toSem.WT ops s t)
    (hw : WFTList ops) (hT : transposeList ops = .ok ts)
    (hadj : List.Forall₂ C.IsAdjointOn ops ts) :
    C.IsAdjointOn (.comp u ops) (.comp 0 ts.reverse) := by
  apply C.transpose_adjoint_comp u ops ts hok _ hw hT hadj
  obtain ⟨h2, h1⟩ := chainWT_ends ops s t hne ((C.WT_iff _ _ _).1 hwt)
  simp only [Op.inS, Op.outS]
  rw [h1, h2]
  exact hwt

/-- the induction behind `transpose_adjoint_add` -/
theorem adjoint_sum (ops ts : List Op) (hadj : List.Forall₂ C.IsAdjointOn ops ts)
    (x y : V) (hm : ∀ o ∈ ops, C.mem (Op.inS o) x ∧ C.mem (Op.outS o) y) :
    C.dot ((ops.map (fun o => C.den o x)).foldr C.add C.zero) y =
      C.dot x ((ts.map (fun t => C.den t y)).foldr C.add C.zero) := by
  induction hadj with
  | nil => simp [C.dot_zero_left, C.dot_zero_right]
  | @cons o t os ts' ha _ ih =>
    simp only [List.map_cons, List.foldr_cons]
    rw [C.dot_add_left, C.dot_add_right, ih (fun o' ho' => hm o' (by simp [ho'])),
      ha x y (hm o (by simp)).1 (hm o (by simp)).2]

/-- **Adjoint of a sum of any length**: if the operands share their input and output structures and each is
paired with its adjoint, the sum of the transposes is the adjoint of the sum. -/
theorem transpose_adjoint_add (u : Nat) (td : TreeDef) (ops ts : List Op)
    (hsame : ∀ o ∈ ops, Op.inS o = inSHead ops ∧ Op.outS o = outSHead ops)
    (hadj : List.Forall₂ C.IsAdjointOn ops ts) :
    C.IsAdjointOn (.cont u .add td ops) (.cont 0 .add td ts) := by
  intro x y hx hy
  rw [C.add_law, C.add_law]
  simp only [Op.inS, Op.outS] at hx hy
  refine C.adjoint_sum ops ts hadj x y (fun o ho => ?_)
  rw [(hsame o ho).1, (hsame o ho).2]
  exact ⟨hx, hy⟩

mutual
/-- **`op.T` is the adjoint of `op`** for every structurally well-formed expression built from leaves, wrappers,
compositions and sums, nested to any depth, as soon as it is for the leaves and the wrappers. -/
theorem transpose_adjoint (C : AdjCore V R) (hL : C.LeafAdjoint) : ∀ (o t : Op),
    Frag o → StructOK o → o.WTAll → o.WFT → transposeOp o = .ok t → C.IsAdjointOn o t
  | .leaf u c p, t, _, _, _, _, h => hL _ t rfl h
  | .wrap u k o, t, _, _, _, _, h => hL _ t rfl h
  | .comp u ops, t, hf, hok, hwt, hw, h => by
      obtain ⟨ts, hts, rfl⟩ := transposeOp_comp_ok h
      have hfl : ∀ o ∈ ops, Frag o := by cases hf; assumption
      have hoks := ((StructOK_comp_iff u ops).mp hok).2.1
      simp only [Op.WTAll] at hwt
      simp only [Op.WFT] at hw
      exact C.transpose_adjoint_comp u ops ts hoks ((C.WT_iff _ _ _).2 hwt.1) hw hts
        (transpose_adjoint_list C hL ops ts hfl hoks hwt.2 hw hts)
  | .cont u k td ops, t, hf, hok, hwt, hw, h => by
      obtain ⟨ts, hts, rfl⟩ := transposeOp_cont_ok h
      have hfl : k = .add ∧ ∀ o ∈ ops, Frag o := by cases hf; exact ⟨rfl, by assumption⟩
      obtain ⟨rfl, hfl⟩ := hfl
      have hoks := ((StructOK_cont_iff u .add td ops).mp hok).2.1
      simp only [Op.WTAll] at hwt
      simp only [Op.WFT] at hw
      exact C.transpose_adjoint_add u td ops ts (hwt.1 trivial)
        (transpose_adjoint_list C hL ops ts hfl hoks hwt.2 hw hts)
theorem transpose_adjoint_list (C : AdjCore V R) (hL : C.LeafAdjoint) : ∀ (ops ts : List Op),
    (∀ o ∈ ops, Frag o) → (∀ o ∈ ops, StructOK o) → WTAllList ops → WFTList ops →
    transposeList ops = .ok ts → List.Forall₂ C.IsAdjointOn ops ts
  | [], ts, _, _, _, _, h => by rw [transposeList_nil_ok h]; exact .nil
  | o :: os, ts, hf, hok, hwt, hw, h => by
      obtain ⟨t, ts', ht, hts, rfl⟩ := transposeList_cons_ok h
      exact .cons (transpose_adjoint C hL o t (hf o (by simp)) (hok o (by simp)) hwt.1 hw.1 ht)
        (transpose_adjoint_list C hL os ts' (fun o' ho' => hf o' (by simp [ho']))
          (fun o' ho' => hok o' (by simp [ho'])) hwt.2 hw.2 hts)
end

/-- a non-empty chain is well typed between its own end structures -/
theorem chainWT_of_Chain : ∀ (ops : List Op), ops ≠ [] → Chain ops →
    chainWT ops (inSLast ops) (outSHead ops)
  | [], hne, _ => absurd rfl hne
  | [o], _, _ => ⟨rfl, rfl⟩
  | a :: b :: rest, _, hc => by
      have ih := chainWT_of_Chain (b :: rest) (by simp) hc.2
      refine ⟨rfl, ?_⟩
      simp only [inSLast, outSHead] at ih ⊢
      rw [hc.1]; exact ih

mutual
/-- structural well-formedness implies the typing conditions `WTAll` of the adjointness induction -/
theorem WTAll_of_StructOK : ∀ (o : Op), StructOK o → o.WTAll
  | .leaf .., _ => trivial
  | .wrap .., _ => trivial
  | .comp u ops, h => by
      obtain ⟨hne, hoks, hch⟩ := (StructOK_comp_iff u ops).mp h
      simp only [Op.WTAll]
      exact ⟨chainWT_of_Chain ops hne hch, WTAllList_of_StructOK ops hoks⟩
  | .cont u k td ops, h => by
      obtain ⟨_, hoks, hc⟩ := (StructOK_cont_iff u k td ops).mp h
      simp only [Op.WTAll]
      refine ⟨?_, WTAllList_of_StructOK ops hoks⟩
      rintro rfl
      exact hc.2
theorem WTAllList_of_StructOK : ∀ (ops : List Op), (∀ o ∈ ops, StructOK o) → WTAllList ops
  | [], _ => trivial
  | o :: os, h => ⟨WTAll_of_StructOK o (h o (by simp)), WTAllList_of_StructOK os (fun o' ho' => h o' (by simp [ho']))⟩
end

/-- **`op.T` is the adjoint of `op`**, with structural well-formedness as the only typing hypothesis -/
theorem transpose_adjoint_of_StructOK (C : AdjCore V R) (hL : C.LeafAdjoint) (o t : Op)
    (hf : Frag o) (hok : StructOK o) (hw : o.WFT) (h : transposeOp o = .ok t) : C.IsAdjointOn o t :=
  transpose_adjoint C hL o t hf hok (WTAll_of_StructOK o hok) hw h

/-- the laws of `AdjCore` are consistent (one-point value space) -/
def unitModel : AdjCore Unit Nat where
  den := fun _ _ => ()
  mem := fun _ _ => True
  honest := fun _ _ _ _ => True.intro
  add := fun _ _ => ()
  zero := ()
  comp_law := fun _ _ _ => rfl
  add_law := fun _ _ _ _ => rfl
  dot := fun _ _ => 0
  dot_add_left := fun _ _ _ => rfl
  dot_zero_left := fun _ => rfl
  dot_add_right := fun _ _ _ => rfl
  dot_zero_right := fun _ => rfl

end AdjCore

/-! ### the same statements over `AdjSem` -/

section Adjoint
variable {V R : Type} [Add R] [Zero R]

/-- the laws of `AdjSem` that the adjointness induction uses -/
def AdjSem.toCore (A : AdjSem V R) : AdjCore V R where
  den := A.den
  mem := A.mem
  honest := A.honest
  add := A.add
  zero := A.zero
  comp_law := A.comp_law
  add_law := A.add_law
  dot := A.dot
  dot_add_left := A.dot_add_left
  dot_zero_left := A.dot_zero_left
  dot_add_right := A.dot_add_right
  dot_zero_right := A.dot_zero_right

/-- `⟨o x, y⟩ = ⟨x, t y⟩` for every `x` of the input structure and `y` of the output structure of `o` -/
def IsAdjointOn (A : AdjSem V R) (o t : Op) : Prop :=
  ∀ x y, A.mem (Op.inS o) x → A.mem (Op.outS o) y → A.dot (A.den o x) y = A.dot x (A.den t y)

/-- every leaf and every wrapper transposes to its adjoint (discharged kernel by kernel) -/
def LeafAdjoint (A : AdjSem V R) : Prop :=
  ∀ o t, o.isAtom = true → transposeOp o = .ok t → IsAdjointOn A o t

theorem isAdjointOn_iff_core (A : AdjSem V R) (o t : Op) :
    IsAdjointOn A o t ↔ A.toCore.IsAdjointOn o t := Iff.rfl

theorem leafAdjoint_iff_core (A : AdjSem V R) : LeafAdjoint A ↔ A.toCore.LeafAdjoint := Iff.rfl

/-- **Adjoint of a composition of any length** -/
theorem transpose_adjoint_comp (A : AdjSem V R) (u : Nat) (ops ts : List Op) (hok : ∀ o ∈ ops, StructOK o)
    (hwt : A.toOpSem.toSem.WT ops (Op.inS (.comp u ops)) (Op.outS (.comp u ops)))
    (hw : WFTList ops) (hT : transposeList ops = .ok ts)
    (hadj : List.Forall₂ (IsAdjointOn A) ops ts) :
    IsAdjointOn A (.comp u ops) (.comp 0 ts.reverse) :=
  A.toCore.transpose_adjoint_comp u ops ts hok hwt hw hT hadj

/-- the same, for a non-empty chain well typed between any two structures -/
theorem transpose_adjoint_comp' (A : AdjSem V R) (u : Nat) (ops ts : List Op) (s t : Struct)
    (hne : ops ≠ []) (hok : ∀ o ∈ ops, StructOK o) (hwt : A.toOpSem.toSem.WT ops s t)
    (hw : WFTList ops) (hT : transposeList ops = .ok ts)
    (hadj : List.Forall₂ (IsAdjointOn A) ops ts) :
    IsAdjointOn A (.comp u ops) (.comp 0 ts.reverse) :=
  A.toCore.transpose_adjoint_comp' u ops ts s t hne hok hwt hw hT hadj

/-- **Adjoint of a sum of any length** -/
theorem transpose_adjoint_add (A : AdjSem V R) (u : Nat) (td : TreeDef) (ops ts : List Op)
    (hsame : ∀ o ∈ ops, Op.inS o = inSHead ops ∧ Op.outS o = outSHead ops)
    (hadj : List.Forall₂ (IsAdjointOn A) ops ts) :
    IsAdjointOn A (.cont u .add td ops) (.cont 0 .add td ts) :=
  A.toCore.transpose_adjoint_add u td ops ts hsame hadj

/-- **`op.T` is the adjoint of `op`** on the fragment leaves / wrappers / compositions / sums, for structurally
well-formed expressions -/
theorem transpose_adjoint (A : AdjSem V R) (hL : LeafAdjoint A) (o t : Op)
    (hf : Frag o) (hok : StructOK o) (hwt : o.WTAll) (hw : o.WFT) (h : transposeOp o = .ok t) :
    IsAdjointOn A o t :=
  AdjCore.transpose_adjoint A.toCore hL o t hf hok hwt hw h

end Adjoint

/-! ### the hypotheses are satisfiable on a nested expression

`Index ∘ (Diagonal + Opaque⁻¹ ∘ Homothety)` from a 2-vector to a 3-vector: it is in the fragment, structurally
well formed, well typed everywhere, well formed for transposition, and its transpose is `(Diagonal + Homothety ∘ Transpose(Opaque⁻¹)) ∘ Transpose(Index)`. -/

private def sA : Struct := ⟨[], [⟨[2], .f64⟩]⟩
private def sB : Struct := ⟨[], [⟨[3], .f64⟩]⟩
private def exOp : Op :=
  .comp 1 [.leaf 2 .index { inS := sA, outS := sB },
    .cont 3 .add [.leaf, .leaf] [.leaf 4 .diagonal { inS := sA, outS := sA },
      .comp 5 [.wrap 6 .inverse (.leaf 7 .opaque { inS := sA, outS := sA }),
        .leaf 8 .homothety { inS := sA, outS := sA }]]]
private def exOpT : Op :=
  .comp 0 [.cont 0 .add [.leaf, .leaf] [.leaf 4 .diagonal { inS := sA, outS := sA },
      .comp 0 [.leaf 8 .homothety { inS := sA, outS := sA },
        .wrap 0 .transpose (.wrap 6 .inverse (.leaf 7 .opaque { inS := sA, outS := sA }))]],
    .wrap 0 .transpose (.leaf 2 .index { inS := sA, outS := sB })]

private theorem exOp_ok :
    Frag exOp ∧ StructOK exOp ∧ exOp.WTAll ∧ exOp.WFT ∧ transposeOp exOp = .ok exOpT := by
  refine ⟨?_, ?_, ?_, ?_, ?_⟩
  · refine .comp _ _ (fun o ho => ?_)
    simp only [List.mem_cons, List.not_mem_nil, or_false] at ho
    rcases ho with rfl | rfl
    · exact .leaf ..
    · refine .add _ _ _ (fun o ho => ?_)
      simp only [List.mem_cons, List.not_mem_nil, or_false] at ho
      rcases ho with rfl | rfl
      · exact .leaf ..
      · refine .comp _ _ (fun o ho => ?_)
        simp only [List.mem_cons, List.not_mem_nil, or_false] at ho
        rcases ho with rfl | rfl
        · exact .wrap ..
        · exact .leaf ..
  · simp [exOp, StructOK, WTExpr, WTList, Chain, WrapOK, ContOK, WrapCls.isLazy, TreeDef.numLeaves, Op.inS,
      Op.outS, inSLast, outSHead, inSHead, squareLeaf, sA]
  · simp [exOp, Op.WTAll, Op.WTAllList, chainWT, Op.inS, Op.outS, inSLast, outSHead, inSHead]
  · simp [exOp, Op.WFT, Op.WFTList, isSymmetricLeaf]
  · simp [exOp, exOpT, transposeOp, transposeList, isSymmetricLeaf]

/-- hence, in any model where leaves and wrappers transpose to their adjoints, so does this expression -/
example {V R : Type} [Add R] [Zero R] (C : AdjCore V R) (hL : C.LeafAdjoint) :
    ∀ x y, C.mem sA x → C.mem sB y → C.dot (C.den exOp x) y = C.dot x (C.den exOpT y) := by
  obtain ⟨h1, h0, h2, h3, h4⟩ := exOp_ok
  exact AdjCore.transpose_adjoint C hL exOp exOpT h1 h0 h2 h3 h4

end Furax
