/-
Structural well-formedness of operator expressions: what the Python constructors guarantee of every object they
build, whatever the semantics.

* `WTExpr inv leafOK o` — recursive well-formedness of an expression relative to an invertibility predicate
  `inv` (for the operands of lazy inverses) and a leaf validity `leafOK` (both abstract);
* `StructOK o` — its purely structural part (`inv := True`, `leafOK := True`): every composition is a non-empty
  chain with matching adjacent structures, every container is non-empty and its operands fit together, lazy
  inverses wrap square operands.  This is the guard of the laws `honest` / `homogeneous` of the semantic
  frameworks (`Sem.ok`, `OpSem`, `AdjCore`): a faithful denotation (vectors of the declared sizes,
  FuraxProofs/Sem/ListSem.lean) satisfies them for structurally well-formed operators only;
* `WTExpr_mono`, `WTExpr.structOK` — `WTExpr` is monotone in both predicates, hence implies `StructOK`.

(The definitions `WrapCls.isLazy`, `Chain`, `WrapOK`, `ContOK`, `WTExpr`, `WTList` and the lemmas `WTList_iff`,
`Chain_tail`, `Chain_append`, `inSHead_headD` … `allOut_congr` were moved here, unchanged, from FuraxProofs/Lemmas/RuleSound.lean.)

Core Lean only (no Mathlib).
-/
import FuraxModel.Op
namespace Furax
open Op

/-! ### well-formed expressions -/

/-- `isinstance(·, AbstractLazyInverseOperator)` on the wrapper class -/
def WrapCls.isLazy (k : WrapCls) : Prop := k = .inverse ∨ k = .qurotT ∨ k = .diagInv

/-- adjacent structures of a chain match -/
def Chain : List Op → Prop
  | [] => True
  | [_] => True
  | a :: b :: rest => Op.inS a = Op.outS b ∧ Chain (b :: rest)

/-- what the constructors of the wrapper classes guarantee of their operand:
* a lazy inverse (`InverseOperator`, `QURotationTransposeOperator`, `DiagonalInverseOperator`) wraps a square
  operand that is invertible (`inv`) — for `DiagonalInverseOperator` invertibility is **not** checked by furax:
  this is the hypothesis finding F13 violates for a singular diagonal;
* `QURotationTransposeOperator` wraps a `QURotationOperator`, `ReshapeTransposeOperator` a ravel/reshape
  operator, `ToastObservationMatrixTransposeOperator` an observation matrix. -/
def WrapOK (inv : Op → Prop) (k : WrapCls) (o : Op) : Prop :=
  (k.isLazy → Op.inS o = Op.outS o ∧ inv o) ∧
  (k = .qurotT → o.isQURot = true) ∧
  (k = .reshapeT → o.isRavelOrReshape = true) ∧
  (k = .obsT → o.isLeafCls .obsMatrix = true)

/-- what the constructors of the container classes guarantee (`blockCtor`, `AdditionOperator`): one operand per
leaf of the container, the operands of a sum share both structures, those of a block row their output
structure, those of a block column their input structure -/
def ContOK (k : ContCls) (td : TreeDef) (ops : List Op) : Prop :=
  td.numLeaves = ops.length ∧
  match k with
  | .add => ∀ o ∈ ops, Op.inS o = inSHead ops ∧ Op.outS o = outSHead ops
  | .blockRow => ∀ o ∈ ops, Op.outS o = outSHead ops
  | .blockCol => ∀ o ∈ ops, Op.inS o = inSHead ops
  | .blockDiag => True

mutual
/-- **Well-formed expressions**: every leaf passed its constructor's validation (`leafOK`, abstract: chosen by
whoever discharges `RuleLaws`), every wrapper satisfies `WrapOK`, every composition is a non-empty chain with
matching adjacent structures, every container is non-empty and satisfies `ContOK`; recursively. -/
def WTExpr (inv : Op → Prop) (leafOK : LeafCls → Params → Prop) : Op → Prop
  | .leaf _ c p => leafOK c p
  | .wrap _ k o => WTExpr inv leafOK o ∧ WrapOK inv k o
  | .comp _ ops => ops ≠ [] ∧ WTList inv leafOK ops ∧ Chain ops
  | .cont _ k td ops => ops ≠ [] ∧ WTList inv leafOK ops ∧ ContOK k td ops
def WTList (inv : Op → Prop) (leafOK : LeafCls → Params → Prop) : List Op → Prop
  | [] => True
  | o :: os => WTExpr inv leafOK o ∧ WTList inv leafOK os
end

theorem WTList_iff (inv : Op → Prop) (leafOK : LeafCls → Params → Prop) (ops : List Op) :
    WTList inv leafOK ops ↔ ∀ o ∈ ops, WTExpr inv leafOK o := by
  induction ops with
  | nil => simp [WTList]
  | cons o os ih => simp [WTList, ih]

/-! ### chains -/

theorem Chain_tail (o : Op) (os : List Op) (h : Chain (o :: os)) : Chain os := by
  cases os with
  | nil => trivial
  | cons b rest => exact h.2

theorem Chain_append (xs ys : List Op) (hx : xs ≠ []) (hy : ys ≠ []) (h1 : Chain xs) (h2 : Chain ys)
    (h : inSLast xs = outSHead ys) : Chain (xs ++ ys) := by
  induction xs with
  | nil => exact absurd rfl hx
  | cons a as ih =>
    cases as with
    | nil =>
      cases ys with
      | nil => exact absurd rfl hy
      | cons y ys' => exact ⟨by simpa [inSLast, outSHead] using h, h2⟩
    | cons b bs =>
      exact ⟨h1.1, ih (by simp) h1.2 (by simpa [inSLast] using h)⟩

/-! ### structural well-formedness -/

/-- **Structural well-formedness**: every composition is a non-empty chain with matching adjacent structures,
every container is non-empty and its operands fit together, lazy inverses wrap square operands, the dedicated
transpose wrappers wrap an operand of their class — what the constructors guarantee whatever the leaves are and
whatever the semantics. -/
def StructOK (o : Op) : Prop := WTExpr (fun _ => True) (fun _ _ => True) o

/-- every operand of the list is structurally well formed -/
def StructOKList (ops : List Op) : Prop := WTList (fun _ => True) (fun _ _ => True) ops

theorem StructOKList_iff (ops : List Op) : StructOKList ops ↔ ∀ o ∈ ops, StructOK o :=
  WTList_iff _ _ ops

theorem WrapOK_mono {inv inv' : Op → Prop} (hinv : ∀ o, inv o → inv' o) (k : WrapCls) (o : Op)
    (h : WrapOK inv k o) : WrapOK inv' k o :=
  ⟨fun hk => ⟨(h.1 hk).1, hinv o (h.1 hk).2⟩, h.2⟩

mutual
/-- `WTExpr` is monotone in the invertibility predicate and in the leaf validity -/
theorem WTExpr_mono {inv inv' : Op → Prop} {leafOK leafOK' : LeafCls → Params → Prop}
    (hinv : ∀ o, inv o → inv' o) (hleaf : ∀ c p, leafOK c p → leafOK' c p) :
    ∀ o, WTExpr inv leafOK o → WTExpr inv' leafOK' o
  | .leaf _ c p, h => by
    simp only [WTExpr] at h ⊢
    exact hleaf c p h
  | .wrap _ k o, h => by
    simp only [WTExpr] at h ⊢
    exact ⟨WTExpr_mono hinv hleaf o h.1, WrapOK_mono hinv k o h.2⟩
  | .comp _ ops, h => by
    simp only [WTExpr] at h ⊢
    exact ⟨h.1, WTList_mono hinv hleaf ops h.2.1, h.2.2⟩
  | .cont _ k td ops, h => by
    simp only [WTExpr] at h ⊢
    exact ⟨h.1, WTList_mono hinv hleaf ops h.2.1, h.2.2⟩
theorem WTList_mono {inv inv' : Op → Prop} {leafOK leafOK' : LeafCls → Params → Prop}
    (hinv : ∀ o, inv o → inv' o) (hleaf : ∀ c p, leafOK c p → leafOK' c p) :
    ∀ ops, WTList inv leafOK ops → WTList inv' leafOK' ops
  | [], _ => by simp only [WTList]
  | o :: os, h => by
    simp only [WTList] at h ⊢
    exact ⟨WTExpr_mono hinv hleaf o h.1, WTList_mono hinv hleaf os h.2⟩
end

/-- **a well-formed expression is structurally well formed**, whatever the invertibility predicate and the leaf
validity are -/
theorem WTExpr.structOK {inv : Op → Prop} {leafOK : LeafCls → Params → Prop} {o : Op}
    (h : WTExpr inv leafOK o) : StructOK o :=
  WTExpr_mono (fun _ _ => trivial) (fun _ _ _ => trivial) o h

/-- the list version -/
theorem WTList.structOK {inv : Op → Prop} {leafOK : LeafCls → Params → Prop} {ops : List Op}
    (h : WTList inv leafOK ops) : StructOKList ops :=
  WTList_mono (fun _ _ => trivial) (fun _ _ _ => trivial) ops h

/-- the form used with `∀ o ∈ ops, …` hypotheses -/
theorem structOK_of_forall_WTExpr {inv : Op → Prop} {leafOK : LeafCls → Params → Prop} {ops : List Op}
    (h : ∀ o ∈ ops, WTExpr inv leafOK o) : ∀ o ∈ ops, StructOK o :=
  fun o ho => (h o ho).structOK

/-! ### unfolding `StructOK` -/

@[simp] theorem StructOK_leaf (u : Nat) (c : LeafCls) (p : Params) : StructOK (.leaf u c p) := by
  simp only [StructOK, WTExpr]

theorem StructOK_wrap_iff (u : Nat) (k : WrapCls) (o : Op) :
    StructOK (.wrap u k o) ↔ StructOK o ∧ WrapOK (fun _ => True) k o := by
  simp only [StructOK, WTExpr]

theorem StructOK_comp_iff (u : Nat) (ops : List Op) :
    StructOK (.comp u ops) ↔ ops ≠ [] ∧ (∀ o ∈ ops, StructOK o) ∧ Chain ops := by
  simp only [StructOK, WTExpr, WTList_iff]

theorem StructOK_cont_iff (u : Nat) (k : ContCls) (td : TreeDef) (ops : List Op) :
    StructOK (.cont u k td ops) ↔ ops ≠ [] ∧ (∀ o ∈ ops, StructOK o) ∧ ContOK k td ops := by
  simp only [StructOK, WTExpr, WTList_iff]

/-- the objects the modelled code creates (`uid = 0` identities and scalar operators) are well formed -/
@[simp] theorem StructOK_mkIdentity (s : Struct) : StructOK (mkIdentity s) := StructOK_leaf _ _ _

@[simp] theorem StructOK_mkHomothety (v : Rat) (s : Struct) : StructOK (mkHomothety v s) := StructOK_leaf _ _ _

/-- identities and scalar operators are leaves, hence structurally well formed -/
theorem StructOK_of_isLeafCls (c : LeafCls) (o : Op) (h : o.isLeafCls c = true) : StructOK o := by
  cases o with
  | leaf u c' p => exact StructOK_leaf _ _ _
  | _ => simp [isLeafCls] at h

/-! ### operands sharing a structure (used by `ContOK`) -/

theorem inSHead_headD (ops : List Op) : inSHead ops = (inSList ops).headD default := by
  cases ops <;> rfl

theorem outSHead_headD (ops : List Op) : outSHead ops = (outSList ops).headD default := by
  cases ops <;> rfl

theorem mem_inSList (ops : List Op) (s : Struct) : s ∈ inSList ops ↔ ∃ o ∈ ops, Op.inS o = s := by
  induction ops with
  | nil => simp [inSList]
  | cons o os ih => simp [inSList, ih, eq_comm]

theorem mem_outSList (ops : List Op) (s : Struct) : s ∈ outSList ops ↔ ∃ o ∈ ops, Op.outS o = s := by
  induction ops with
  | nil => simp [outSList]
  | cons o os ih => simp [outSList, ih, eq_comm]

theorem allIn_iff (ops : List Op) :
    (∀ o ∈ ops, Op.inS o = inSHead ops) ↔ ∀ s ∈ inSList ops, s = (inSList ops).headD default := by
  rw [← inSHead_headD]
  constructor
  · intro h s hs
    obtain ⟨o, ho, rfl⟩ := (mem_inSList ops s).mp hs
    exact h o ho
  · intro h o ho
    exact h _ ((mem_inSList ops _).mpr ⟨o, ho, rfl⟩)

theorem allOut_iff (ops : List Op) :
    (∀ o ∈ ops, Op.outS o = outSHead ops) ↔ ∀ s ∈ outSList ops, s = (outSList ops).headD default := by
  rw [← outSHead_headD]
  constructor
  · intro h s hs
    obtain ⟨o, ho, rfl⟩ := (mem_outSList ops s).mp hs
    exact h o ho
  · intro h o ho
    exact h _ ((mem_outSList ops _).mpr ⟨o, ho, rfl⟩)

theorem allIn_congr (ops ops' : List Op) (h : inSList ops' = inSList ops)
    (ha : ∀ o ∈ ops, Op.inS o = inSHead ops) : ∀ o ∈ ops', Op.inS o = inSHead ops' := by
  rw [allIn_iff] at ha ⊢; rw [h]; exact ha

theorem allOut_congr (ops ops' : List Op) (h : outSList ops' = outSList ops)
    (ha : ∀ o ∈ ops, Op.outS o = outSHead ops) : ∀ o ∈ ops', Op.outS o = outSHead ops' := by
  rw [allOut_iff] at ha ⊢; rw [h]; exact ha

/-- the crossed versions (for transposes: the inputs of `ops'` are the outputs of `ops`) -/
theorem allIn_of_allOut (ops ops' : List Op) (h : inSList ops' = outSList ops)
    (ha : ∀ o ∈ ops, Op.outS o = outSHead ops) : ∀ o ∈ ops', Op.inS o = inSHead ops' := by
  rw [allOut_iff] at ha; rw [allIn_iff, h]; exact ha

theorem allOut_of_allIn (ops ops' : List Op) (h : outSList ops' = inSList ops)
    (ha : ∀ o ∈ ops, Op.inS o = inSHead ops) : ∀ o ∈ ops', Op.outS o = outSHead ops' := by
  rw [allIn_iff] at ha; rw [allOut_iff, h]; exact ha

end Furax
