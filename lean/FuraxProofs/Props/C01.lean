/-
C01 — Reducing an operator never changes the linear map it denotes.

Property theorems only (helper lemmas are in FuraxProofs/Lemmas).  The model functions mentioned here
(`scan`, `reductionCfg`, `binaryRules`, `algebraicReduction`, `homothetyRule`, `identityRule`) are the
ones the compiled driver executes in the correspondence check.
-/
import FuraxModel.Expected
import FuraxGenerated.Tables
import FuraxProofs.Lemmas.Nary
import FuraxProofs.Lemmas.ScalarModel
import FuraxProofs.Lemmas.RuleLawsModel
import FuraxProofs.Sem.ListModel
namespace Furax.C01
open Furax

/-- The rule registry read from the source on this run is the one the model implements, in order. -/
theorem registry_pinned : Generated.ruleRegistry = expectedRuleRegistry := by decide

/-- … the model's rule list has exactly these names in this order … -/
theorem registry_names :
    (binaryRules (fun o => .ok o)).map (·.name) = Generated.ruleRegistry.map (·.1) := by decide

/-- … and every rule's `check` / `apply` still resolves to the function the model transcribes. -/
theorem rule_methods_pinned : Generated.ruleMethods = expectedRuleMethods := by decide

/-! ### The closed statement: `reduce` itself, with the thirteen registered rules

`WTExpr inv leafOK o` is "every node of `o` passed its constructor's validation" (chains and containers have
matching structures, lazy inverses wrap square invertible operands, …).  `RuleLaws A` / `ContainerLaws A laws`
name, rule by rule, the leaf facts about the denotation the rules rely on (two swapped move-axis operators undo
each other, R(a)R(b) = R(a+b), P H = P, the container of slot-wise products is the product of the containers, …);
they are hypotheses here and are what the kernel-level theorems of C10, C12, C13, C16 and the differential oracle
establish for the implementation.  The invertibility of the operand of a lazy inverse is NOT a law but part of
`WTExpr` — exactly the hypothesis a singular `DiagonalOperator.I` violates (finding F13). -/

/-- **`reduce()` never changes the denoted map**: for every fuel (number of nested `reduce` calls the recursion
is allowed), every well-formed expression `o` of any size, depth and mix of node kinds, if the model's `reduce`
returns `r` then `r` is well formed, has the same input and output structures and denotes the same map on the
whole input space. -/
theorem reduce_sound {V : Type} (A : ArithSem V) (laws : RuleLaws A) (extra : ContainerLaws A laws) :
    ∀ fuel o r, WTExpr A.invertible laws.leafOK o → reduce fuel o = .ok r →
      WTExpr A.invertible laws.leafOK r ∧ Op.inS r = Op.inS o ∧ Op.outS r = Op.outS o ∧
      ∀ x, A.mem (Op.inS o) x → A.den r x = A.den o x :=
  Furax.reduce_sound A laws extra

/-- **The closed statement.**  In the list denotation (FuraxProofs/Sem/ListSem.lean: every operator is the map on
flat real vectors assembled from the executable kernels the driver runs — gather / scatter-add, move-axis,
broadcasting diagonal, Mueller kernels — and leaf classes no rule inspects are arbitrary homogeneous maps `E`),
ALL the leaf laws are theorems, so no semantic hypothesis is left: for every expression whose nodes passed their
constructors' validation (`listLeafOK`: shapes fit, index values in bounds, a `unique_indices=True` promise is
true, rotation angles broadcast to the leaf shape; lazy inverses wrap invertible operands), `reduce` returns an
expression with the same structures that computes the same vector for every input. -/
theorem reduce_sound_closed (E : ListSem.Env) (fuel : Nat) (o r : Op)
    (hw : WTExpr (ListSem.listArithSem E).invertible ListSem.listLeafOK o) (h : reduce fuel o = .ok r) :
    WTExpr (ListSem.listArithSem E).invertible ListSem.listLeafOK r ∧ Op.inS r = Op.inS o ∧ Op.outS r = Op.outS o ∧
    ∀ x : List ℝ, x.length = (Op.inS o).size → ListSem.den E r x = ListSem.den E o x :=
  ListSem.reduce_sound_closed E fuel o r hw h

/-- the same for the entry point -/
theorem reduceTop_sound_closed (E : ListSem.Env) (o r : Op)
    (hw : WTExpr (ListSem.listArithSem E).invertible ListSem.listLeafOK o) (h : reduceTop o = .ok r) :
    WTExpr (ListSem.listArithSem E).invertible ListSem.listLeafOK r ∧ Op.inS r = Op.inS o ∧ Op.outS r = Op.outS o ∧
    ∀ x : List ℝ, x.length = (Op.inS o).size → ListSem.den E r x = ListSem.den E o x :=
  ListSem.reduceTop_sound_closed E o r hw h

/-- the faithful model inhabits the framework: the laws of `reduce_sound` are satisfied by vectors of the declared
sizes (not only by the degenerate witness below) -/
theorem faithful_model (E : ListSem.Env) :
    ∃ (A : ArithSem (List ℝ)) (laws : RuleLaws A), ContainerLaws A laws ∧ A.den = ListSem.den E ∧
      (∀ s x, A.mem s x ↔ x.length = s.size) :=
  ⟨ListSem.listArithSem E, ListSem.listRuleLaws E, ListSem.listContainerLaws E, rfl, fun _ _ => Iff.rfl⟩

/-- the entry point the driver executes for the `reduce` request -/
theorem reduceTop_sound {V : Type} (A : ArithSem V) (laws : RuleLaws A) (extra : ContainerLaws A laws)
    (o r : Op) (hw : WTExpr A.invertible laws.leafOK o) (h : reduceTop o = .ok r) :
    WTExpr A.invertible laws.leafOK r ∧ Op.inS r = Op.inS o ∧ Op.outS r = Op.outS o ∧
    ∀ x, A.mem (Op.inS o) x → A.den r x = A.den o x :=
  Furax.reduceTop_sound A laws extra o r hw h

/-- **every registered binary rule is sound on well-formed operands**, for any sound recursive call -/
theorem every_rule_sound {V : Type} (A : ArithSem V) (laws : RuleLaws A) (red : Op → Except PyErr Op)
    (hred : RedSound A laws red) :
    ∀ ru ∈ binaryRules red, A.toOpSem.toSem.RuleSoundOn laws.WT ru :=
  binaryRules_sound A laws red hred

/-- the unrelativised rule soundness (`RuleSoundOn (fun _ => True)`, quantifying over ALL operand pairs, well
formed or not) is false of the real registry in every semantics: `InverseBinaryRule` fires on
`o, DiagonalInverseOperator(o)` for a non-square `o`. -/
theorem unrelativised_rule_soundness_is_false {V : Type} (A : ArithSem V) (s t : Struct) (hst : s ≠ t) :
    ¬ A.toOpSem.toSem.RuleSoundOn (fun _ => True) inverseBinaryRule :=
  inverseBinaryRule_not_RuleSound A s t hst

/-- … and restricting to STRUCTURALLY well-formed operands (`Sem.RuleSound`, i.e. `RuleSoundOn StructOK`: what
the constructors guarantee whatever the values are) is not enough either: in the scalar model `InverseBinaryRule`
is unsound on `InverseOperator(3·) @ (3·)`, whose operand the model does not declare invertible (finding F13 is
the same phenomenon for a singular `DiagonalOperator`).  The three theorems after `scan_sound_on_every_chain`
are therefore stated for an abstract hypothesis on the rule list and used only through `RuleSoundOn`
(FuraxProofs/Lemmas/ScanOn.lean) with `P := WTExpr A.invertible …` for the registry. -/
theorem structural_rule_soundness_needs_invertibility :
    ¬ scalarOpSem.toSem.RuleSound inverseBinaryRule :=
  scalar_inverseBinaryRule_not_RuleSound

/-- a well-formed expression is structurally well formed: `WTExpr` implies the guard `StructOK` of the laws
`honest` / `homogeneous` of the semantic framework -/
theorem wellformed_is_structOK {inv : Op → Prop} {leafOK : LeafCls → Params → Prop} (o : Op)
    (h : WTExpr inv leafOK o) : StructOK o := h.structOK

/-- the hypotheses of `reduce_sound` are jointly satisfiable (degenerate witness: scalar denotation, value space
`{0}`), and `WTExpr` is inhabited by the shapes the rules rewrite (examples in Lemmas/RuleLawsModel.lean) -/
theorem reduce_sound_hypotheses_consistent :
    ∃ (A : ArithSem Rat) (laws : RuleLaws A), ContainerLaws A laws :=
  ⟨zeroArithSem, zeroRuleLaws, zeroContainerLaws⟩

/-- **Driver soundness relative to an operand invariant `P`** (instantiated with `WTExpr` above) that implies
structural well-formedness: for any rule list sound on `P`-operands, any `P`-chain of any length, any starting
index, any fuel, the scan returns a `P`-chain between the same structures denoting the same map. -/
theorem scan_sound_on_every_chain {V : Type} (L : OpSem V) (P : Op → Prop) (hPok : ∀ o, P o → StructOK o)
    (hhom : ∀ v s, P (Op.mkHomothety v s))
    (red : Op → Except PyErr Op) (hr : ∀ ru ∈ binaryRules red, L.toSem.RuleSoundOn P ru) :
    ∀ fuel ops index res s t, (∀ o ∈ ops, P o) → L.toSem.WT ops s t →
      scan (reductionCfg red) fuel ops index = .ok (some res) →
      (∀ o ∈ res, P o) ∧ L.toSem.WT res s t ∧ ∀ x, L.mem s x → L.toSem.app res x = L.toSem.app ops x :=
  scan_sound_on L.toSem P hPok (reductionCfg red) (L.cfg_rules_sound_on P hPok red hr)
    (L.homothetyRule_sound_on P hPok hhom)

/-- **Driver soundness, any context** (abstract hypothesis on the rule list; see
`structural_rule_soundness_needs_invertibility`).  For *any* list of binary rules sound on structurally
well-formed operands (`Sem.RuleSound`), *any* well-typed chain of structurally well-formed operands (any length),
*any* starting index, *any* number of rewrites (fuel) and *any* firing order the registry order induces, the scan
returns a chain of structurally well-formed operands between the same structures denoting the same map. -/
theorem scan_sound_every_chain {V : Type} (L : OpSem V) (red : Op → Except PyErr Op)
    (hr : ∀ ru ∈ binaryRules red, L.toSem.RuleSound ru) :
    ∀ fuel ops index res s t, (∀ o ∈ ops, StructOK o) → L.toSem.WT ops s t →
      scan (reductionCfg red) fuel ops index = .ok (some res) →
      (∀ o ∈ res, StructOK o) ∧ L.toSem.WT res s t ∧
      ∀ x, L.mem s x → L.toSem.app res x = L.toSem.app ops x :=
  scan_sound L.toSem (reductionCfg red) (L.cfg_rules_sound red hr) L.homothetyRule_sound

/-- **`AlgebraicReductionRule.apply` is sound** (abstract hypothesis on the rule list): identity removal, scalar
merging/relocation (any number of scalar factors, on whichever side the code chooses), the scan, and the "empty
chain becomes an identity" clause, on every chain of structurally well-formed operands. -/
theorem algebraicReduction_sound {V : Type} (L : OpSem V) (red : Op → Except PyErr Op)
    (hr : ∀ ru ∈ binaryRules red, L.toSem.RuleSound ru)
    (ops res : List Op) (s t : Struct) (hok : ∀ o ∈ ops, StructOK o) (hwt : L.toSem.WT ops s t)
    (hres : algebraicReduction red ops = .ok res) :
    (∀ o ∈ res, StructOK o) ∧ L.toSem.WT res s t ∧
    ∀ x, L.mem s x → L.toSem.app res x = L.toSem.app ops x :=
  L.algebraicReduction_sound red hr ops res s t hok hwt hres

/-- the scalar relocation alone: any number of scalar factors anywhere in the chain (`ListSound f`: on every
well-typed chain of structurally well-formed operands, `f` returns a chain of structurally well-formed operands
between the same structures denoting the same map) -/
theorem homothetyRule_sound {V : Type} (L : OpSem V) : L.toSem.ListSound homothetyRule :=
  L.homothetyRule_sound

/-- identity removal alone -/
theorem identityRule_sound {V : Type} (L : OpSem V) : L.toSem.ListSound identityRule :=
  L.identityRule_sound

/-- non-vacuity: `OpSem` (identity is the identity, scalars multiply, every structurally well-formed operator
is honest and homogeneous) is inhabited by a concrete non-trivial semantics -/
theorem framework_inhabited : Nonempty (OpSem Rat) := ⟨scalarOpSem⟩

end Furax.C01
