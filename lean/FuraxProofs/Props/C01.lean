/-
C01 — Reducing an operator never changes the linear map it denotes.

Property theorems only (helper lemmas are in FuraxProofs/Lemmas).  The model functions mentioned here
(`scan`, `reductionCfg`, `binaryRules`, `algebraicReduction`, `homothetyRule`, `identityRule`) are the
ones the compiled driver executes in the correspondence check.
-/
import FuraxModel.Expected
import FuraxGenerated.Tables
import FuraxProofs.Lemmas.Nary
import FuraxProofs.Lemmas.ScalarModel
namespace Furax.C01
open Furax

/-- The rule registry read from the source on this run is the one the model implements, in order. -/
theorem registry_pinned : Generated.ruleRegistry = expectedRuleRegistry := by decide

/-- … the model's rule list has exactly these names in this order … -/
theorem registry_names :
    (binaryRules (fun o => .ok o)).map (·.name) = Generated.ruleRegistry.map (·.1) := by decide

/-- … and every rule's `check` / `apply` still resolves to the function the model transcribes. -/
theorem rule_methods_pinned : Generated.ruleMethods = expectedRuleMethods := by decide

/-- **Driver soundness, any context.**  For *any* list of sound binary rules, *any* well-typed chain (any
length), *any* starting index, *any* number of rewrites (fuel) and *any* firing order the registry order
induces, the scan returns a chain between the same structures denoting the same map. -/
theorem scan_sound_every_chain {V : Type} (L : OpSem V) (red : Op → Except PyErr Op)
    (hr : ∀ ru ∈ binaryRules red, L.toSem.RuleSound ru) :
    ∀ fuel ops index res s t, L.toSem.WT ops s t →
      scan (reductionCfg red) fuel ops index = .ok (some res) →
      L.toSem.WT res s t ∧ ∀ x, L.mem s x → L.toSem.app res x = L.toSem.app ops x :=
  scan_sound L.toSem (reductionCfg red) (L.cfg_rules_sound red hr) L.homothetyRule_sound

/-- **`AlgebraicReductionRule.apply` is sound**: identity removal, scalar merging/relocation (any number
of scalar factors, on whichever side the code chooses), the scan, and the "empty chain becomes an
identity" clause. -/
theorem algebraicReduction_sound {V : Type} (L : OpSem V) (red : Op → Except PyErr Op)
    (hr : ∀ ru ∈ binaryRules red, L.toSem.RuleSound ru)
    (ops res : List Op) (s t : Struct) (hwt : L.toSem.WT ops s t)
    (hres : algebraicReduction red ops = .ok res) :
    L.toSem.WT res s t ∧ ∀ x, L.mem s x → L.toSem.app res x = L.toSem.app ops x :=
  L.algebraicReduction_sound red hr ops res s t hwt hres

/-- the scalar relocation alone: any number of scalar factors anywhere in the chain -/
theorem homothetyRule_sound {V : Type} (L : OpSem V) : L.toSem.ListSound homothetyRule :=
  L.homothetyRule_sound

/-- identity removal alone -/
theorem identityRule_sound {V : Type} (L : OpSem V) : L.toSem.ListSound identityRule :=
  L.identityRule_sound

/-- non-vacuity: `OpSem` (identity is the identity, scalars multiply, every operator is homogeneous) is
inhabited by a concrete non-trivial semantics -/
theorem framework_inhabited : Nonempty (OpSem Rat) := ⟨scalarOpSem⟩

end Furax.C01
