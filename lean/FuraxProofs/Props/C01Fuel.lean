/-
C01, recursion fuel of `reduceTop` (follow-up of Props/C01Terminates.lean, section (4)).

PROVED
* `reduceTop_compFree_ne_fuel` — for every expression without composition nodes (sums / block containers of
  leaves and wrappers, arbitrarily nested) `reduceTop o ≠ .error .fuel`; in fact fuel `o.depth` suffices
  (`reduce_depth_compFree`), because the block rules (the only non-structural recursion) fire only inside a composition;
* `reduce_cont_fuel_source` (Lemmas/ReduceFuel.lean) — containers run out of fuel only through their own operands.

EVIDENCE (kernel-checked instances; search over generated families, see REPORT.md)
* towers of `k` nested one-block containers, depth `d = k + 2`:
  products `D^k ∘ D^k`, `D^k ∘ D^k ∘ D^k`, `R^k ∘ D^k ∘ C^k`, `R^k ∘ C^k` all need EXACTLY fuel `2 d - 2`
  (`towers_min_fuel`, k = 1..4), `C^k ∘ R^k` (no rule fires) needs `d`;
* exhaustive enumeration of all 38 834 structure-correct expressions of depth ≤ 4 over
  {leaf, D[·], R[·], C[·], a ∘ b, a ∘ b ∘ c (depth ≤ 3), a + b}: the maximum of the minimal fuel is `2 d - 2` for d = 3, 4
  (`#eval`, not kernel-checked; scratch/Search2.lean);
* no expression found that needs more than `2 * depth - 2`, so none where `reduceTop` (fuel `2 * depth + 8`) fails.

OPEN: `∀ o, reduceTop o ≠ .error .fuel`.
-/
import FuraxModel.Reduce
import FuraxProofs.Lemmas.ReduceFuel
namespace Furax.C01
open Furax Op

/-- fuel `depth` is enough without compositions -/
theorem reduce_depth_compFree (o : Op) (h : compFree o = true) : reduce o.depth o ≠ .error .fuel :=
  reduce_compFree_ne_fuel _ o h (Nat.le_refl _)

/-- `reduceTop` never answers `.fuel` on a composition-free expression -/
theorem reduceTop_compFree_ne_fuel (o : Op) (h : compFree o = true) : reduceTop o ≠ .error .fuel :=
  reduce_compFree_ne_fuel _ o h (by omega)

/-- a sum of a block-diagonal tower and a block row of a sum: composition-free, depth 5 -/
def cfExample : Op :=
  .cont 1 .add (listTd 2) [tower 3 1, .cont 2 .blockRow (listTd 1) [.cont 3 .add (listTd 2) [x0 4, x0 5]]]

example : compFree cfExample = true ∧ cfExample.depth = 5 := by decide +kernel
example : reduceTop cfExample ≠ .error .fuel := reduceTop_compFree_ne_fuel _ (by decide +kernel)

/-- the bound `depth` is sharp on composition-free expressions: with `depth - 1` the tower runs out of fuel -/
theorem compFree_sharp :
    (tower 3 1).depth = 4 ∧ (match reduce 3 (tower 3 1) with | .error .fuel => true | _ => false) = true := by
  constructor <;> decide +kernel

/-- hypotheses of `reduce_comp_fuel_source` are satisfiable, and on this instance (two block-diagonal towers, fuel 4:
the operands need 3, the product needs 6) it is the SECOND alternative that holds: the fresh container of a block rule -/
example : reduce (4 + 1) (.comp 50 [tower 2 1, tower 2 2]) = .error .fuel ∧
    ∀ x ∈ [tower 2 1, tower 2 2], reduce 4 x ≠ .error .fuel := by
  refine ⟨?_, ?_⟩
  · have h : (match reduce 5 (.comp 50 [tower 2 1, tower 2 2]) with | .error .fuel => true | _ => false) = true := by
      decide +kernel
    split at h
    · assumption
    · cases h
  · intro x hx
    exact reduce_compFree_ne_fuel 4 x
      (by simp only [List.mem_cons, List.not_mem_nil, or_false] at hx; rcases hx with rfl | rfl <;> decide +kernel)
      (by simp only [List.mem_cons, List.not_mem_nil, or_false] at hx; rcases hx with rfl | rfl <;> decide +kernel)

/-! ### evidence: towers of the three block classes -/

def towerK (kind : ContCls) : Nat → Nat → Op
  | 0, u => x0 u
  | k+1, u => .cont u kind (listTd 1) [towerK kind k u]

def isFuel : Except PyErr Op → Bool
  | .error .fuel => true
  | _ => false

/-- `f` is the minimal fuel of `o`: `reduce (f-1)` answers `.fuel`, `reduce f` does not -/
def minFuelIs (o : Op) (f : Nat) : Bool := isFuel (reduce (f - 1) o) && !isFuel (reduce f o)

def dd (k : Nat) : Op := .comp 50 [towerK .blockDiag k 1, towerK .blockDiag k 2]
def ddd (k : Nat) : Op := .comp 50 [towerK .blockDiag k 1, towerK .blockDiag k 2, towerK .blockDiag k 3]
def rdc (k : Nat) : Op := .comp 50 [towerK .blockRow k 1, towerK .blockDiag k 2, towerK .blockCol k 3]
def rc (k : Nat) : Op := .comp 50 [towerK .blockRow k 1, towerK .blockCol k 3]
def cr (k : Nat) : Op := .comp 50 [towerK .blockCol k 1, towerK .blockRow k 3]

/-- depth `k + 2`, minimal fuel `2 (k + 2) - 2 = 2 k + 2` for the four families where block rules fire,
`k + 2` where none fires; `reduceTop` (fuel `2 k + 12`) succeeds on all of them -/
theorem towers_min_fuel :
    ([1, 2, 3, 4].all fun k =>
      (dd k).depth == k + 2 && minFuelIs (dd k) (2 * k + 2) &&
      (ddd k).depth == k + 2 && minFuelIs (ddd k) (2 * k + 2) &&
      (rdc k).depth == k + 2 && minFuelIs (rdc k) (2 * k + 2) &&
      (rc k).depth == k + 2 && minFuelIs (rc k) (2 * k + 2) &&
      (cr k).depth == k + 2 && minFuelIs (cr k) (k + 2) &&
      !isFuel (reduceTop (dd k)) && !isFuel (reduceTop (ddd k)) && !isFuel (reduceTop (rdc k)) &&
      !isFuel (reduceTop (rc k)) && !isFuel (reduceTop (cr k))) = true := by
  decide +kernel

end Furax.C01
