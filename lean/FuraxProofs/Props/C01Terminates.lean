/-
C01, termination: the reduction loop of `AlgebraicReductionRule.apply` never runs out of fuel.

* `scan_reduction_terminates` — for EVERY inner `red` of the block rules, every chain, every start index:
  `scanBound (mu ops) (nu ops) ops.length index` iterations are enough (Lemmas/ScanTerminates.lean instantiated
  with the measures of Lemmas/ReduceMeasure.lean);
* `scanFuel_enough` — the fuel `scanFuel n = 8 (n+2)² + 32` of the model is enough (the bound is
  `4 n² - n + 1 ≤ 4 n² + 1`): `scan … = .ok none` never happens in `algebraicReduction`;
* `algebraicReduction_fuel` — `algebraicReduction red ops = .error .fuel` only if `red` itself answered
  `.error .fuel` on some operand (the statement "for every `red`, `algebraicReduction red ops ≠ .error .fuel`"
  is FALSE as such: `algebraicReduction_fuel_needs_red`, an inner `red` that fails with `.fuel` propagates
  through the block rules);
* `reduce_fuel_source` — top level: a `.fuel` answer of `reduce (f+1)` is the `.fuel` answer of a recursive
  `reduce f` call (operand or block product), never of the loop; `reduceTop o ≠ .error .fuel` for every `o`
  is left OPEN (see the last section).
-/
import FuraxModel.Reduce
import FuraxProofs.Lemmas.ScanTerminates
import FuraxProofs.Lemmas.ReduceMeasure
namespace Furax.C01
open Furax Op

/-- **(2)** the registered rules terminate, whatever the inner `red`, from any index, with an explicit fuel -/
theorem scan_reduction_terminates (red : Op → Except PyErr Op) (fuel : Nat) (ops : List Op) (index : Nat)
    (h : scanBound (mu ops) (nu ops) ops.length index ≤ fuel) :
    scan (reductionCfg red) fuel ops index ≠ .ok none :=
  scan_terminates (reductionCfg red) mu nu (reductionCfg_decreasing red) fuel ops index h

/-- the bound in closed form: `4 n² + 1` iterations from index 0 -/
theorem scanBound_le (ops : List Op) :
    scanBound (mu ops) (nu ops) ops.length 0 ≤ 4 * (ops.length * ops.length) + 1 := by
  have h1 := mu_le ops
  have h2 : nu ops * ops.length ≤ 2 * ops.length * ops.length := Nat.mul_le_mul_right _ (nu_le ops)
  rw [Nat.mul_assoc] at h2
  simp only [scanBound]
  omega

theorem scanFuel_ge (n : Nat) : 4 * (n * n) + 1 ≤ scanFuel n := by
  have : 8 * (n + 2) * (n + 2) = 8 * (n * n) + 32 * n + 32 := by
    simp only [Nat.mul_add, Nat.add_mul, Nat.mul_assoc]
    have : 2 * n = n * 2 := Nat.mul_comm _ _
    omega
  simp only [scanFuel, this]
  omega

/-- **(3)** `scanFuel` is enough: the loop of `algebraicReduction` never answers "out of fuel" -/
theorem scanFuel_enough (red : Op → Except PyErr Op) (ops : List Op) :
    scan (reductionCfg red) (scanFuel ops.length) ops 0 ≠ .ok none :=
  scan_reduction_terminates red _ ops 0 (Nat.le_trans (scanBound_le ops) (scanFuel_ge _))

/-- half of `scanFuel` would already do -/
theorem half_scanFuel_enough (red : Op → Except PyErr Op) (ops : List Op) :
    scan (reductionCfg red) (4 * (ops.length * ops.length) + 1) ops 0 ≠ .ok none :=
  scan_reduction_terminates red _ ops 0 (scanBound_le ops)

/-! ### where a `.fuel` exception of `algebraicReduction` can come from -/

theorem mapM_error {α β : Type} (f : α → Except PyErr β) (xs : List α) (e : PyErr)
    (h : xs.mapM f = .error e) : ∃ x ∈ xs, f x = .error e := by
  induction xs with
  | nil => simp [pure, Except.pure] at h
  | cons x xs ih =>
    rw [List.mapM_cons] at h
    simp only [bind, Except.bind] at h
    split at h
    · rename_i e' hx; cases h; exact ⟨x, List.mem_cons_self, hx⟩
    · split at h
      · rename_i e' hxs
        cases h
        obtain ⟨y, hy, hf⟩ := ih hxs
        exact ⟨y, List.mem_cons_of_mem _ hy, hf⟩
      · simp [pure, Except.pure] at h

theorem baseMatmul_ne_fuel (a b : Op) : baseMatmul a b ≠ .error .fuel := by
  unfold baseMatmul
  repeat' split
  all_goals simp

theorem matmulOf_ne_fuel (a b : Op) : matmulOf a b ≠ .error .fuel := by
  unfold matmulOf
  repeat' split
  all_goals first | exact baseMatmul_ne_fuel _ _ | simp

theorem pyMatmul_ne_fuel (a b : Op) : pyMatmul a b ≠ .error .fuel := by
  unfold pyMatmul
  split
  · rename_i e h
    intro h'
    cases h'
    exact matmulOf_ne_fuel a b h
  · simp
  · repeat' split
    all_goals simp

theorem tensorOp_ne_fuel (f : Rat → Rat → Rat) (a b : Tensor Rat) : tensorOp f a b ≠ .error .fuel := by
  unfold tensorOp; split <;> simp

/-- a registered rule raises `.fuel` only if the inner `red` of a block rule did -/
theorem binaryRules_fuel (red : Op → Except PyErr Op) (ru : BRule) (hru : ru ∈ binaryRules red)
    (l r : Op) (h : ru.fire l r = .error .fuel) : ∃ x, red x = .error .fuel := by
  simp only [binaryRules, List.mem_cons, List.not_mem_nil, or_false] at hru
  have hblock : ∀ name lk rk res, (blockRule red name lk rk res).fire l r = .error .fuel →
      ∃ x, red x = .error .fuel := by
    intro name lk rk res h
    simp only [blockRule] at h
    split at h
    · split at h
      · split at h
        · cases h
        · simp only [bind, Except.bind] at h
          split at h
          · rename_i e hm
            cases h
            obtain ⟨p, _, hp⟩ := mapM_error _ _ _ hm
            exact absurd hp (pyMatmul_ne_fuel _ _)
          · split at h
            · rename_i e hr; cases h; exact ⟨_, hr⟩
            · simp [pure, Except.pure] at h
      · cases h
    · cases h
  rcases hru with rfl | rfl | rfl | rfl | rfl | rfl | rfl | rfl | rfl | rfl | rfl | rfl | rfl
  · exfalso
    simp only [inverseBinaryRule] at h
    repeat' split at h
    all_goals cases h
  · exfalso
    simp only [moveAxisInverseRule] at h
    repeat' split at h
    all_goals cases h
  · exfalso
    simp only [reshapeInverseRule] at h
    repeat' split at h
    all_goals cases h
  · exfalso
    simp only [packUnpackRule] at h
    repeat' split at h
    all_goals cases h
  · exact hblock _ _ _ _ h
  · exact hblock _ _ _ _ h
  · exact hblock _ _ _ _ h
  · exact hblock _ _ _ _ h
  · exfalso
    simp only [indexTransposeRule] at h
    repeat' split at h
    all_goals cases h
  · exfalso
    simp only [transposeIndexRule] at h
    repeat' split at h
    all_goals cases h
  · exfalso
    simp only [quRotationRule] at h
    split at h
    · cases h
    · split at h
      · cases h
      · split at h
        · rename_i e he
          cases h
          repeat' split at he
          all_goals exact tensorOp_ne_fuel _ _ _ he
        · cases h
  · exfalso
    simp only [quRotationHWPRule] at h
    repeat' split at h
    all_goals cases h
  · exfalso
    simp only [linearPolarizerHWPRule] at h
    repeat' split at h
    all_goals cases h

theorem reductionCfg_fuel (red : Op → Except PyErr Op) (l r : Op)
    (h : fireFirst (reductionCfg red).rules l r = .error .fuel) : ∃ x, red x = .error .fuel := by
  obtain ⟨ru, hm, hf⟩ := fireFirst_error _ l r _ h
  simp only [reductionCfg, List.mem_map] at hm
  obtain ⟨ru0, hm0, rfl⟩ := hm
  simp only [dropIdentities] at hf
  split at hf
  · cases hf
  · exact binaryRules_fuel red ru0 hm0 l r hf

/-- **(3)** `algebraicReduction` answers `.error .fuel` only when the inner `red` did, on some operator:
the loop itself never runs out of fuel. -/
theorem algebraicReduction_fuel (red : Op → Except PyErr Op) (ops : List Op)
    (h : algebraicReduction red ops = .error .fuel) : ∃ x, red x = .error .fuel := by
  unfold algebraicReduction at h
  split at h
  · cases h
  · dsimp only at h
    split at h
    · rename_i e he
      cases h
      obtain ⟨l, r, hlr⟩ := scan_error _ _ _ _ _ he
      exact reductionCfg_fuel red l r hlr
    · rename_i hn
      exact absurd hn (scanFuel_enough red _)
    · split at h <;> cases h

/-- in particular with an inner `red` that never raises `.fuel` -/
theorem algebraicReduction_ne_fuel (red : Op → Except PyErr Op) (hred : ∀ x, red x ≠ .error .fuel)
    (ops : List Op) : algebraicReduction red ops ≠ .error .fuel := by
  intro h
  obtain ⟨x, hx⟩ := algebraicReduction_fuel red ops h
  exact hred x hx

/-! ### concrete instances -/

def s0 : Struct := default
def pol : Op := .leaf 1 .polarizer { inS := s0, outS := s0 }
def rot : Op := .leaf 2 .qurot { inS := s0, outS := s0, vals := ⟨[], [1/2]⟩ }
def hwp (u : Nat) : Op := .leaf u .hwp { inS := s0, outS := s0 }
def bd (u : Nat) : Op := .cont u .blockDiag (listTd 1) [hwp 9]

/-- the hypothesis on `red` in `algebraicReduction_ne_fuel` cannot be dropped: the statement "for every
`red`, `algebraicReduction red ops ≠ .error .fuel`" is false (the exception of the inner `reduce()` of a block
rule propagates). -/
theorem algebraicReduction_fuel_needs_red :
    ∃ (red : Op → Except PyErr Op) (ops : List Op), algebraicReduction red ops = .error .fuel := by
  refine ⟨fun _ => .error .fuel, [bd 1, bd 2], ?_⟩
  have h : (match algebraicReduction (fun _ => .error .fuel) [bd 1, bd 2] with
      | .error .fuel => true | _ => false) = true := by decide +kernel
  split at h
  · assumption
  · cases h

/-- **(5)** non-vacuity: polariser, rotation, six half-wave plates.  Twelve rewrites (six commutations, six
absorptions by the polariser) and nineteen iterations for eight operands: `[P, R, H, H, H, H, H, H] → [P, R]`. -/
def chain8 : List Op := [pol, rot, hwp 3, hwp 4, hwp 5, hwp 6, hwp 7, hwp 8]

theorem chain8_reduces :
    (match scan (reductionCfg (fun o => .ok o)) (scanFuel 8) chain8 0 with
      | .ok (some res) => Op.beqList res [pol, rot]
      | _ => false) = true := by decide +kernel

/-- nineteen iterations are needed (fuel 20 = 19 iterations + the exit): with 19 the model runs out of fuel -/
theorem chain8_iterations :
    (match scan (reductionCfg (fun o => .ok o)) 19 chain8 0 with | .ok none => true | _ => false) = true ∧
    (match scan (reductionCfg (fun o => .ok o)) 20 chain8 0 with | .ok (some _) => true | _ => false) = true := by
  constructor <;> decide +kernel

/-- the measures on this chain: six inversions, `mu = 6 + 28`, `nu = 8 + 1`, bound `2·34 + 9·8 + 8 + 1` -/
example : mu chain8 = 34 ∧ nu chain8 = 9 ∧ scanBound (mu chain8) (nu chain8) chain8.length 0 = 149 ∧
    scanFuel chain8.length = 832 := by decide +kernel

/-- `scan_reduction_terminates` from a start index other than 0, with its own bound as fuel -/
example : scan (reductionCfg (fun o => .ok o)) (scanBound (mu chain8) (nu chain8) chain8.length 3) chain8 3
    ≠ .ok none :=
  scan_reduction_terminates _ _ _ _ (Nat.le_refl _)

/-- the hypotheses of the abstract theorem `scan_terminates` are satisfiable: the registered rule set -/
example : (reductionCfg (fun o => .ok o)).Decreasing mu nu := reductionCfg_decreasing _

/-- the whole `algebraicReduction` on it -/
example : (match algebraicReduction (fun o => .ok o) chain8 with
    | .ok res => Op.beqList res [pol, rot] | _ => false) = true := by decide +kernel

/-- hypotheses of `algebraicReduction_ne_fuel` are satisfiable -/
example : algebraicReduction (fun o => .ok o) chain8 ≠ .error .fuel :=
  algebraicReduction_ne_fuel _ (fun _ => by simp) _

/-! ### (4) the recursion fuel of `reduce`

`reduce 0 _ = .error .fuel`, and `reduce (f+1) o` calls `reduce f` on the operands of `o` and (through the block
rules) on the products of the blocks of two adjacent containers.  What is proved: the loop never contributes
a `.fuel` (above), so a `.fuel` answer at level `f+1` is always the `.fuel` answer of a recursive call at
level `f` (`reduce_fuel_source`).  What is NOT proved: `reduceTop o ≠ .error .fuel` for every `o` (OPEN).
The recursion through the block products is not on sub-terms: the depth of a term may GROW under `reduce`
(`depth_grows`), and a product of two nested block-diagonal towers of depth `d` needs fuel `2 d - 2`, not `d`
(`tower_fuel`): a proof needs a finer measure than `Op.depth`. -/

theorem reduce_fuel_source (f : Nat) (o : Op) (h : reduce (f + 1) o = .error .fuel) :
    ∃ x, reduce f x = .error .fuel := by
  unfold reduce at h
  split at h
  · split at h <;> cases h
  · split at h <;> cases h
  · split at h <;> cases h
  · cases h
  · cases h
  · simp only [bind, Except.bind] at h
    split at h
    · rename_i e hm
      cases h
      obtain ⟨x, _, hx⟩ := mapM_error _ _ _ hm
      exact ⟨x, hx⟩
    · split at h
      · rename_i e ha
        cases h
        exact algebraicReduction_fuel _ _ ha
      · repeat' split at h
        all_goals simp [pure, Except.pure] at h
  · simp only [bind, Except.bind] at h
    split at h
    · rename_i e hm
      cases h
      obtain ⟨x, _, hx⟩ := mapM_error _ _ _ hm
      exact ⟨x, hx⟩
    · repeat' split at h
      all_goals simp [pure, Except.pure] at h
  · simp only [bind, Except.bind] at h
    split at h
    · rename_i e hm
      cases h
      obtain ⟨x, _, hx⟩ := mapM_error _ _ _ hm
      exact ⟨x, hx⟩
    · repeat' split at h
      all_goals simp [pure, Except.pure] at h


/-- satisfiable: with fuel 1 a composition of two leaves runs out of recursion fuel -/
example : ∃ o, reduce (0 + 1) o = .error .fuel := by
  refine ⟨.comp 1 [pol, rot], ?_⟩
  have h : (match reduce 1 (.comp 1 [pol, rot]) with | .error .fuel => true | _ => false) = true := by
    decide +kernel
  split at h
  · assumption
  · cases h

def x0 (u : Nat) : Op := .leaf u .opaque { inS := s0, outS := s0 }
/-- `k` nested one-block block-diagonal operators around a leaf -/
def tower : Nat → Nat → Op
  | 0, u => x0 u
  | k+1, u => .cont u .blockDiag (listTd 1) [tower k u]
def pairT (k : Nat) : Op := .comp 50 [tower k 1, tower k 2]

/-- the product of two towers of three nested block-diagonal operators (depth 5) needs recursion fuel
8 = 2·5 - 2: with fuel 7 (> depth) `reduce` answers `.fuel`; `reduceTop` (fuel 2·5 + 8) succeeds -/
theorem tower_fuel :
    (pairT 3).depth = 5 ∧
    (match reduce 7 (pairT 3) with | .error .fuel => true | _ => false) = true ∧
    (match reduce 8 (pairT 3) with | .ok _ => true | _ => false) = true ∧
    (match reduceTop (pairT 3) with | .ok o => o.depth == 5 | _ => false) = true := by
  refine ⟨?_, ?_, ?_, ?_⟩ <;> decide +kernel

/-- the depth of a term can grow under `reduce`: `(X ∘ D[a] ∘ D[b]) + Z` of depth 4 reduces to
`(X ∘ D[a ∘ b]) + Z` of depth 5 -/
def growing : Op :=
  .cont 1 .add (listTd 2)
    [.comp 2 [x0 3, .cont 4 .blockDiag (listTd 1) [x0 10], .cont 5 .blockDiag (listTd 1) [x0 6]], x0 7]

theorem depth_grows :
    growing.depth = 4 ∧ (match reduceTop growing with | .ok o => o.depth == 5 | _ => false) = true := by
  constructor <;> decide +kernel

end Furax.C01
