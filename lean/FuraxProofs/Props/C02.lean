/-
C02 — Operator arithmetic is matrix arithmetic, whatever the grouping.

Statements are over `ArithSem`: any semantics in which a composition denotes the composite, a sum the
pointwise sum, the identity/scalar operators what their names say and a lazy inverse of an INVERTIBLE operand
its inverse.  `LazyInvertible` is the hypothesis that the operand of a lazy-inverse object is invertible (and
that a `QURotationTransposeOperator` wraps a rotation, as its constructor guarantees): finding F13 is exactly
the case where it fails (the pseudo-inverse of a singular diagonal operator is a lazy-inverse object too).  `scalarArithSem` (Lemmas/ScalarModel.lean) shows the framework is inhabited by a
non-trivial model.
-/
import FuraxProofs.Lemmas.ArithSound
import FuraxProofs.Lemmas.Tables
import FuraxProofs.Lemmas.ScalarModel
import FuraxProofs.Sem.ListModel
import FuraxProofs.Lemmas.ArithNegSub
namespace Furax.C02
open Furax Op

/-- every arithmetic dunder of every operator class still resolves to the function the model transcribes -/
theorem dunders_pinned : ∀ r ∈ Generated.classTable, dunderOk r = true := by decide

/-- the class tests used by the dunders and the rules agree with the real class hierarchy -/
theorem hierarchy_pinned : ∀ r ∈ Generated.classTable, hierarchyOk r = true := by decide

/-- `A @ B`: product of the maps and structures of the product, for every operand kind and every shortcut
(`StructOK b`: the right operand is structurally well formed, which is where the framework's law `honest` —
`B` maps its input space into its output space — applies) -/
theorem matmul_den {V} (A : ArithSem V) (a b r : Op) (ha : ArithSem.WFtop a) (hb : ArithSem.WFtop b)
    (hbs : StructOK b)
    (hai : A.LazyInvertible a) (hbi : A.LazyInvertible b) (h : pyMatmul a b = .ok r) :
    Op.inS a = Op.outS b ∧ Op.inS r = Op.inS b ∧ Op.outS r = Op.outS a ∧
    ∀ x, A.mem (Op.inS b) x → A.den r x = A.den a (A.den b x) := A.pyMatmul_den a b r ha hb hbs hai hbi h

/-- `A + B`: sum of the maps; the operand list is the concatenation of the summands of `A` and of `B`
whatever the parenthesisation -/
theorem add_den {V} (A : ArithSem V) (a b r : Op) (ha : ArithSem.WFtop a) (hb : ArithSem.WFtop b)
    (h : pyAdd a b = .ok r) :
    Op.inS a = Op.inS b ∧ Op.outS a = Op.outS b ∧ Op.inS r = Op.inS a ∧ Op.outS r = Op.outS a ∧
    (∃ u td, r = .cont u .add td (summands a ++ summands b)) ∧
    ∀ x, A.den r x = A.add (A.den a x) (A.den b x) := A.pyAdd_den a b r ha hb h

/-- `k * A` and `A * k` -/
theorem rmul_den {V} (A : ArithSem V) (k : Rat) (a r : Op) (ha : ArithSem.WFtop a) (has : StructOK a)
    (hai : A.LazyInvertible a) (h : pyRmul k a = .ok r) :
    Op.inS r = Op.inS a ∧ Op.outS r = Op.outS a ∧
    ∀ x, A.mem (Op.inS a) x → A.den r x = A.smul k (A.den a x) := A.pyRmul_den k a r ha has hai h

/-- `A / k` -/
theorem truediv_den {V} (A : ArithSem V) (k : Rat) (a r : Op) (ha : ArithSem.WFtop a) (has : StructOK a)
    (hai : A.LazyInvertible a) (h : pyTruediv a k = .ok r) :
    k ≠ 0 ∧ Op.inS r = Op.inS a ∧ Op.outS r = Op.outS a ∧
    ∀ x, A.mem (Op.inS a) x → A.den r x = A.smul (1 / k) (A.den a x) := A.pyTruediv_den k a r ha has hai h

/-- `-A` for `A` not itself a sum (the complete statement is `neg_den` below) -/
theorem neg_den_partial {V} (A : ArithSem V) (a r : Op) (ha : ArithSem.WFtop a) (has : StructOK a)
    (hai : A.LazyInvertible a) (hns : a.isAdd = false) (h : pyNeg a = .ok r) :
    Op.inS r = Op.inS a ∧ Op.outS r = Op.outS a ∧
    ∀ x, A.mem (Op.inS a) x → A.den r x = A.smul (-1) (A.den a x) := A.pyNeg_den a r ha has hai hns h

/-- **`-a` for every operand, sums included** (a sum is negated summand by summand): the result denotes minus
the map.  `NegOK`: `a` is structurally well formed and every summand satisfies what `k * ·` needs. -/
theorem neg_den {V} (A : ArithSem V) (a r : Op) (ha : A.NegOK a) (h : pyNeg a = .ok r) :
    Op.inS r = Op.inS a ∧ Op.outS r = Op.outS a ∧
    ∀ x, A.mem (Op.inS a) x → A.den r x = A.smul (-1) (A.den a x) := A.pyNeg_den_full a r ha h

/-- **`a - b`** is `a + (-b)`: same structure checks as the sum, and the result denotes the difference -/
theorem sub_den {V} (A : ArithSem V) (a b r : Op) (ha : ArithSem.WFtop a) (hb : A.NegOK b)
    (h : pySub a b = .ok r) :
    Op.inS a = Op.inS b ∧ Op.outS a = Op.outS b ∧ Op.inS r = Op.inS a ∧ Op.outS r = Op.outS a ∧
    ∀ x, A.mem (Op.inS a) x → A.den r x = A.add (A.den a x) (A.smul (-1) (A.den b x)) :=
  let ⟨h1, h2, h3, h4, _, h6⟩ := A.pySub_den a b r ha hb h; ⟨h1, h2, h3, h4, h6⟩

/-- `+A` is `A` -/
theorem pos_den (a : Op) : pyPos a = a := rfl

/-- composition operand lists concatenate for every parenthesisation -/
theorem matmul_operands (u u' : Nat) (ops ops' : List Op)
    (h : Op.inS (.comp u ops) = Op.outS (.comp u' ops')) :
    pyMatmul (.comp u ops) (.comp u' ops') = .ok (mkComp (ops ++ ops')) := by
  simp [pyMatmul, matmulOf, h]

/-- structurally incompatible operands are rejected, never turned into an operator -/
theorem matmul_rejects (a b : Op) (hs : Op.inS a ≠ Op.outS b) (hl : lazyInverseOf a b = false) :
    pyMatmul a b = .error .valueError := ArithSem.pyMatmul_rejects a b hs hl

theorem add_sub_reject (a b : Op) (hs : Op.inS a ≠ Op.inS b ∨ Op.outS a ≠ Op.outS b) :
    pyAdd a b = .error .valueError ∧ pySub a b = .error .valueError := ArithSem.pyAdd_rejects a b hs

/-- non-vacuity: the laws assumed above are satisfied by a concrete non-trivial semantics -/
theorem framework_inhabited : Nonempty (ArithSem Rat) := ⟨scalarArithSem⟩

/-! ### in the faithful list denotation (FuraxProofs/Sem): no law is assumed -/

/-- `A @ B` computes `A(B(x))` on every vector of the input size, whatever shortcut the constructors took -/
theorem matmul_den_closed (E : ListSem.Env) (a b r : Op) (ha : ArithSem.WFtop a) (hb : ArithSem.WFtop b)
    (hbs : StructOK b) (hai : (ListSem.listArithSem E).LazyInvertible a)
    (hbi : (ListSem.listArithSem E).LazyInvertible b) (h : pyMatmul a b = .ok r) :
    Op.inS a = Op.outS b ∧ Op.inS r = Op.inS b ∧ Op.outS r = Op.outS a ∧
    ∀ x : List ℝ, x.length = (Op.inS b).size → ListSem.den E r x = ListSem.den E a (ListSem.den E b x) :=
  (ListSem.listArithSem E).pyMatmul_den a b r ha hb hbs hai hbi h

/-- `A + B` computes the entry-wise sum of the two results -/
theorem add_den_closed (E : ListSem.Env) (a b r : Op) (ha : ArithSem.WFtop a) (hb : ArithSem.WFtop b)
    (h : pyAdd a b = .ok r) :
    Op.inS a = Op.inS b ∧ Op.outS a = Op.outS b ∧ Op.inS r = Op.inS a ∧ Op.outS r = Op.outS a ∧
    ∀ x : List ℝ, ListSem.den E r x = ListSem.vadd (ListSem.den E a x) (ListSem.den E b x) :=
  let ⟨h1, h2, h3, h4, _, h6⟩ := (ListSem.listArithSem E).pyAdd_den a b r ha hb h
  ⟨h1, h2, h3, h4, h6⟩

/-- `k * A` and `A * k` scale every entry of the result -/
theorem rmul_den_closed (E : ListSem.Env) (k : Rat) (a r : Op) (ha : ArithSem.WFtop a) (has : StructOK a)
    (hai : (ListSem.listArithSem E).LazyInvertible a) (h : pyRmul k a = .ok r) :
    Op.inS r = Op.inS a ∧ Op.outS r = Op.outS a ∧
    ∀ x : List ℝ, x.length = (Op.inS a).size →
      ListSem.den E r x = (ListSem.den E a x).map fun v => (k : ℝ) * v :=
  (ListSem.listArithSem E).pyRmul_den k a r ha has hai h

/-- `A / k` -/
theorem truediv_den_closed (E : ListSem.Env) (k : Rat) (a r : Op) (ha : ArithSem.WFtop a) (has : StructOK a)
    (hai : (ListSem.listArithSem E).LazyInvertible a) (h : pyTruediv a k = .ok r) :
    k ≠ 0 ∧ Op.inS r = Op.inS a ∧ Op.outS r = Op.outS a ∧
    ∀ x : List ℝ, x.length = (Op.inS a).size →
      ListSem.den E r x = (ListSem.den E a x).map fun v => ((1 / k : Rat) : ℝ) * v :=
  (ListSem.listArithSem E).pyTruediv_den k a r ha has hai h

/-- `-a` and `a - b` in the list denotation -/
theorem neg_den_closed (E : ListSem.Env) (a r : Op) (ha : (ListSem.listArithSem E).NegOK a) (h : pyNeg a = .ok r) :
    Op.inS r = Op.inS a ∧ Op.outS r = Op.outS a ∧
    ∀ x : List ℝ, x.length = (Op.inS a).size → ListSem.den E r x = ListSem.vsmul (-1) (ListSem.den E a x) :=
  ListSem.neg_den_closed E a r ha h

theorem sub_den_closed (E : ListSem.Env) (a b r : Op) (ha : ArithSem.WFtop a)
    (hb : (ListSem.listArithSem E).NegOK b) (h : pySub a b = .ok r) :
    Op.inS a = Op.inS b ∧ Op.outS a = Op.outS b ∧ Op.inS r = Op.inS a ∧ Op.outS r = Op.outS a ∧
    ∀ x : List ℝ, x.length = (Op.inS a).size →
      ListSem.den E r x = ListSem.vadd (ListSem.den E a x) (ListSem.vsmul (-1) (ListSem.den E b x)) :=
  ListSem.sub_den_closed E a b r ha hb h

end Furax.C02
