/-
C03 — Transpose is the exact adjoint of every operator.

`transposeOp` (FuraxModel/Dual.lean) is the form of `A.T` the compiled driver computes and the correspondence
compares with the implementation.  The adjointness of each hand-written transpose is a theorem about its kernel
(C09 Toeplitz, C10 blocks, C12 index/pack, C13 move-axis, C14 einsum, C15 QU rotation); the induction below
lifts "every leaf and wrapper transposes to its adjoint" to compositions and sums of any depth.  The generic
`TransposeOperator` relies on A2 (`jax.linear_transpose`), which enters as part of the hypothesis `LeafAdjoint`.
-/
import FuraxProofs.Lemmas.TransposeAdjoint
import FuraxProofs.Lemmas.Tables
import FuraxProofs.Props.C09
import FuraxProofs.Props.C10
import FuraxProofs.Props.C12
import FuraxProofs.Props.C13
import FuraxProofs.Props.C14
import FuraxProofs.Props.C15
import FuraxProofs.Sem.AdjointList
namespace Furax.C03
open Furax Op

/-- which function `transpose` resolves to for every class is what `transposeOp` transcribes -/
def transposeResolutionOk (r : Generated.ClassRow) : Bool :=
  let expected :=
    if ["IdentityOperator", "HomothetyOperator", "DiagonalOperator", "DiagonalInverseOperator", "HWPOperator",
        "SymmetricBandToeplitzOperator"].contains r.name then "symmetric.<locals>.<lambda>"
    else if r.name == "CompositionOperator" then "CompositionOperator.transpose"
    else if r.name == "AdditionOperator" then "AdditionOperator.transpose"
    else if r.name == "BlockRowOperator" then "BlockRowOperator.transpose"
    else if r.name == "BlockColumnOperator" then "BlockColumnOperator.transpose"
    else if r.name == "BlockDiagonalOperator" then "BlockDiagonalOperator.transpose"
    else if r.name == "MoveAxisOperator" then "MoveAxisOperator.transpose"
    else if ["AbstractRavelOrReshapeOperator", "RavelOperator", "ReshapeOperator"].contains r.name
      then "AbstractRavelOrReshapeOperator.transpose"
    else if r.name == "QURotationOperator" then "QURotationOperator.transpose"
    else if r.name == "DenseBlockDiagonalOperator" then "DenseBlockDiagonalOperator.transpose"
    else if r.name == "ToastObservationMatrixOperator" then "ToastObservationMatrixOperator.transpose"
    else if ["TransposeOperator", "ReshapeTransposeOperator", "QURotationTransposeOperator",
             "AbstractLazyInverseOrthogonalOperator", "ToastObservationMatrixTransposeOperator"].contains r.name
      then "TransposeOperator.transpose"
    else "AbstractLinearOperator.transpose"
  r.method "transpose" == some expected

theorem transpose_resolution_pinned : ∀ r ∈ Generated.classTable, transposeResolutionOk r = true := by decide

/-- **input and output structures are swapped**, for every expression (compositions of any length, sums, block
row / diagonal / column over any container, every wrapper, every leaf class) -/
theorem structures_swapped (o t : Op) (hw : o.WFT) (h : transposeOp o = .ok t) :
    Op.inS t = Op.outS o ∧ Op.outS t = Op.inS o := transpose_structure o t hw h

/-- `A.T.T` is `A`: the wrapper classes return their very operand; symmetric operators return themselves -/
theorem double_transpose_wrapper (u : Nat) (k : WrapCls) (o : Op)
    (hk : k = .transpose ∨ k = .reshapeT ∨ k = .qurotT ∨ k = .obsT) : transposeOp (.wrap u k o) = .ok o :=
  transpose_wrap_operand u k o hk

theorem double_transpose_leaf (u : Nat) (c : LeafCls) (p : Params) (hc : isWrappedLeaf c = true) :
    (transposeOp (.leaf u c p)).bind transposeOp = .ok (.leaf u c p) := transpose_transpose_leaf u c p hc

theorem symmetric_returns_self (u : Nat) (c : LeafCls) (p : Params) (h : isSymmetricLeaf c = true) :
    transposeOp (.leaf u c p) = .ok (.leaf u c p) := transpose_symmetric_leaf u c p h

/-- `A.T` of a structurally well-formed expression (what the constructors build) is structurally well formed,
for every expression (compositions, sums, block row / diagonal / column, every wrapper, every leaf class) -/
theorem transpose_structOK (o t : Op) (hok : StructOK o) (hw : o.WFT) (h : transposeOp o = .ok t) :
    StructOK t := transpose_StructOK o t hok hw h

/-- **adjointness lifts from leaves to every composition and sum, nested to any depth**:
`⟨A x, y⟩ = ⟨x, A.T y⟩` whenever every leaf and wrapper transposes to its adjoint, for every structurally
well-formed expression `A` (`StructOK`: the framework's law `honest` is demanded of those only; it implies the
typing hypothesis `WTAll`, see `AdjCore.transpose_adjoint_of_StructOK`) -/
theorem transpose_is_adjoint {V R : Type} [Add R] [Zero R] (C : AdjCore V R) (hL : C.LeafAdjoint) (o t : Op)
    (hf : Frag o) (hok : StructOK o) (hwt : o.WTAll) (hw : o.WFT) (h : transposeOp o = .ok t) :
    C.IsAdjointOn o t :=
  AdjCore.transpose_adjoint C hL o t hf hok hwt hw h

/-! ### the closed statement, in the faithful list denotation (FuraxProofs/Sem) -/

/-- **`⟨A x, y⟩ = ⟨x, A.T y⟩` with no law assumed**: for every valid expression `A` — leaves of every interpreted
class (identity, scalar, diagonal, index, pack, move-axis, ravel/reshape, rotation, half-wave plate, polariser),
the transpose wrappers, lazy inverses, compositions and sums of any length, block row / diagonal / column — the
operator `A.T` that `transposeOp` builds (the form compared with furax by the correspondence check) computes the
adjoint of what `A` computes, for the standard inner product on vectors of the declared sizes.
What remains assumed is only about the leaves the denotation does not interpret (`EnvAdj E`: the maps standing
for observation-matrix / opaque leaves, for dense einsum leaves with one block array PER leaf and for Toeplitz leaves
with a rank-0 band array come with their adjoints, the Toeplitz ones are self-adjoint); Toeplitz leaves with a band
array `bs ++ [K]` are interpreted by the verified kernel of C09 and their self-adjointness is a theorem
(`ListSem.toeplitz_leaf_adjoint`, `ListSem.toeplitz_leaf_sym`), valid ones being `ListSem.toeplitzOK`; dense einsum
leaves with ONE block array shared by their leaves (`ListSem.denseShared`) are interpreted by the executable einsum
kernel of C14 and their adjointness is a theorem too (`ListSem.dense_leaf_adjoint`, from `ListSem.denseLeaf_adjoint`),
valid ones being `ListSem.denseOK`; the dense leaves with one block array per leaf are excluded (`TFormOK`) because
`op.T` builds a new dense leaf the environment cannot know, and `DiagonalInverseOperator` must
wrap a diagonal leaf (which is all the Python class accepts). -/
theorem transpose_is_adjoint_closed (E : ListSem.Env) (hE : ListSem.EnvAdj E) (o t : Op) (hv : ListSem.ValidT o)
    (hw : o.WFT) (h : transposeOp o = .ok t) :
    ∀ x y : List ℝ, x.length = (Op.inS o).size → y.length = (Op.outS o).size →
      ListSem.dot (ListSem.den E o x) y = ListSem.dot x (ListSem.den E t y) :=
  ListSem.transpose_is_adjoint_closed E hE o t hv hw h

/-- the two halves: `denT` (what the model says `A.T.mv` computes) is the adjoint of `den`, for every valid
expression, lazy inverses included (an inverse of `A` exists iff one of `Aᵀ` does, and then they are adjoint) … -/
theorem den_adjoint_closed (E : ListSem.Env) (hE : ListSem.EnvAdj E) (o : Op) (hv : ListSem.Valid o) :
    ∀ x y : List ℝ, x.length = (Op.inS o).size → y.length = (Op.outS o).size →
      ListSem.dot (ListSem.den E o x) y = ListSem.dot x (ListSem.denT E o y) :=
  ListSem.den_adjoint E hE o hv

/-- … and the form `transposeOp` builds denotes `denT` -/
theorem transposeOp_denotes_adjoint (E : ListSem.Env) (hE : ListSem.EnvAdj E) (o t : Op) (hv : ListSem.ValidT o)
    (hw : o.WFT) (h : transposeOp o = .ok t) :
    ∀ y : List ℝ, y.length = (Op.outS o).size → ListSem.den E t y = ListSem.denT E o y :=
  ListSem.transposeOp_den E hE o t hv hw h

/-- the hypothesis on the environment is satisfiable: every family of matrices (symmetric for Toeplitz leaves) -/
theorem env_adjoint_inhabited : ListSem.EnvAdj ListSem.idEnv := ListSem.idEnv_adj

/-- **no assumption at all** when every leaf is interpreted (no observation-matrix / opaque leaf, dense einsum leaves
with a shared block array only, Toeplitz leaves with a band array `bs ++ [K]` only): `⟨A x, y⟩ = ⟨x, A.T y⟩` for every environment -/
theorem transpose_is_adjoint_closed_noEnv (E : ListSem.Env) (o t : Op)
    (hI : ListSem.AllLeaves (fun _ c p => ListSem.isEnvLeaf c p = false) o) (hv : ListSem.ValidT o)
    (hw : o.WFT) (h : transposeOp o = .ok t) :
    ∀ x y : List ℝ, x.length = (Op.inS o).size → y.length = (Op.outS o).size →
      ListSem.dot (ListSem.den E o x) y = ListSem.dot x (ListSem.den E t y) :=
  ListSem.transpose_is_adjoint_closed_noEnv E o t hI hv hw h

/-- the framework is inhabited -/
theorem framework_inhabited : Nonempty (AdjCore Unit Nat) := ⟨AdjCore.unitModel⟩

/-! ### the leaf facts behind `LeafAdjoint`, kernel by kernel -/

/-- QU rotation: the transpose class is the adjoint -/
theorem qurotation_adjoint {α} [CommRing α] (c s : α) (x y : SV α) :
    (SV.rot c s x).i * y.i + (SV.rot c s x).q * y.q + (SV.rot c s x).u * y.u + (SV.rot c s x).v * y.v =
    x.i * (SV.rotT c s y).i + x.q * (SV.rotT c s y).q + x.u * (SV.rotT c s y).u + x.v * (SV.rotT c s y).v :=
  C15.rot_adjoint c s x y

/-- index / pack: the transpose (scatter-add) is the adjoint of the gather -/
theorem index_adjoint {α : Type} [CommSemiring α] [Inhabited α] (n : Nat) (pos : List Nat) (y x : List α)
    (hpos : ∀ p ∈ pos, p < n) (hy : y.length = pos.length) (hx : x.length = n) :
    (((Index.gather pos x).zip y).map fun p => p.1 * p.2).sum =
    (((Index.scatterAdd n pos y).zip x).map fun p => p.1 * p.2).sum :=
  C12.transpose_is_scatter_add n pos y x hpos hy hx

/-- einsum: the rewritten subscripts give the adjoint -/
theorem einsum_adjoint {ι α : Type} [DecidableEq ι] [Fintype ι] [CommRing α] (isDot : ι → Bool)
    (L R O L' : List ι) (h : Einsum.transposeCore isDot L R O = .ok L') (d : ι → ℕ) (B x y : List ℕ → α) :
    ∃ s t : ι, Einsum.Phi d B x y L R O = Einsum.Phi (d ∘ Equiv.swap s t) B y x L' R O :=
  C14.transposed_is_adjoint isDot L R O L' h d B x y

/-- move-axis: swapping source and destination gives the inverse permutation of elements; a permutation's
inverse is its transpose -/
theorem moveaxis_transpose_inverse {α} [Inhabited α] (t t' : Tensor α) (src dst : List Int)
    (hwf : t.data.length = prodNat t.shape) (h : Axes.moveaxis t src dst = .ok t') :
    Axes.moveaxis t' dst src = .ok t := C13.moveaxis_transpose_is_inverse t t' src dst hwf h

/-- Toeplitz (returns itself): the banded product is self-adjoint -/
theorem toeplitz_self_adjoint {α} [CommRing α] (h l : Nat) (band x y : Nat → α) :
    ∑ i ∈ Finset.range l, y i * Toeplitz.toep h l band x i = ∑ j ∈ Finset.range l, Toeplitz.toep h l band y j * x j :=
  C09.toeplitz_symmetric h l band x y

/-- blocks: the row operator's adjoint is the column operator of the adjoint blocks -/
theorem block_row_adjoint {W} [CommSemiring W] (ls ts : List (BlockSem.Block W)) (h : BlockSem.Adjoints ls ts)
    (hl : BlockSem.AllHonest ls) (ht : BlockSem.AllHonest ts) (x y : List W)
    (hx : x.length = (ls.map (·.cin)).sum) (hy : ∀ l ∈ ls, l.cout = y.length) :
    BlockSem.dotL (BlockSem.denRow ls x) y = BlockSem.dotL x (BlockSem.denCol ts y) :=
  C10.row_transpose_is_column ls ts h hl ht x y hx hy

end Furax.C03
