/-
C04 — Application is linear and `as_matrix()` is its faithful dense form.

The generic `as_matrix()` builds the matrix whose j-th column is `op` applied to the j-th basis vector of the
flattened input.  On flattened pytrees an operator is a linear map `(Fin n → R) → (Fin m → R)`; with Mathlib's
`LinearMap.toMatrix'` being *defined* by exactly that column recipe, the statements below are the
"dense and matrix-free uses are interchangeable" property and the correctness of each override's formula.
-/
import FuraxProofs.Lemmas.Tables
import FuraxProofs.Lemmas.Nary
import Mathlib.LinearAlgebra.Matrix.ToLin
namespace Furax.C04
open Furax Matrix

variable {R : Type} [CommRing R] {n m k : ℕ}

/-- the set of classes overriding `as_matrix`, and the function each resolves to, is the expected one -/
theorem as_matrix_resolution_pinned : ∀ r ∈ Generated.classTable, asMatrixResolutionOk r = true := by decide

/-- the generic recipe: entry (i, j) is component i of `op` applied to the j-th basis vector -/
theorem generic_as_matrix_columns (f : (Fin n → R) →ₗ[R] (Fin m → R)) (i : Fin m) (j : Fin n) :
    LinearMap.toMatrix' f i j = f (Pi.single j 1) i := by
  simp [LinearMap.toMatrix'_apply, Pi.single_apply, eq_comm]

/-- **`op(x) = as_matrix() · flatten(x)` for every x** -/
theorem mv_eq_as_matrix_mulVec (f : (Fin n → R) →ₗ[R] (Fin m → R)) (x : Fin n → R) :
    (LinearMap.toMatrix' f).mulVec x = f x := LinearMap.toMatrix'_mulVec f x

/-- two operators with the same dense matrix are the same map (faithfulness) -/
theorem as_matrix_faithful (f g : (Fin n → R) →ₗ[R] (Fin m → R))
    (h : LinearMap.toMatrix' f = LinearMap.toMatrix' g) : f = g := LinearMap.toMatrix'.injective h

/-! ### the specialised overrides compute that matrix -/

/-- identity: `jnp.identity(in_size)` -/
theorem identity_override : LinearMap.toMatrix' (LinearMap.id : (Fin n → R) →ₗ[R] (Fin n → R)) = 1 :=
  LinearMap.toMatrix'_id

/-- scalar operator: `value * identity` -/
theorem homothety_override (c : R) :
    LinearMap.toMatrix' (c • (LinearMap.id : (Fin n → R) →ₗ[R] (Fin n → R))) = c • (1 : Matrix (Fin n) (Fin n) R) := by
  rw [map_smul, LinearMap.toMatrix'_id]

/-- sums: the sum of the summands' matrices -/
theorem addition_override (f g : (Fin n → R) →ₗ[R] (Fin m → R)) :
    LinearMap.toMatrix' (f + g) = LinearMap.toMatrix' f + LinearMap.toMatrix' g := map_add _ f g

/-- compositions: the product of the matrices (generic `as_matrix` of a composition = product of parts) -/
theorem composition_matrix (f : (Fin m → R) →ₗ[R] (Fin k → R)) (g : (Fin n → R) →ₗ[R] (Fin m → R)) :
    LinearMap.toMatrix' (f ∘ₗ g) = LinearMap.toMatrix' f * LinearMap.toMatrix' g := LinearMap.toMatrix'_comp f g

/-- diagonal operator: `jnp.diag` of the (broadcast, raveled) values -/
theorem diagonal_override (d : Fin n → R) :
    LinearMap.toMatrix' (Matrix.toLin' (Matrix.diagonal d)) = Matrix.diagonal d := LinearMap.toMatrix'_toLin' _

theorem diagonal_acts_entrywise (d x : Fin n → R) (i : Fin n) :
    Matrix.toLin' (Matrix.diagonal d) x i = d i * x i := by
  simp [Matrix.toLin'_apply, Matrix.mulVec_diagonal]

/-- ravel / reshape: `jnp.eye(in_size)` — the flattened data is untouched -/
theorem reshape_override : LinearMap.toMatrix' (LinearMap.id : (Fin n → R) →ₗ[R] (Fin n → R)) = 1 :=
  LinearMap.toMatrix'_id

/-- lazy inverses: `jnp.linalg.inv(operator.as_matrix())` is the matrix of the inverse map -/
theorem inverse_override (e : (Fin n → R) ≃ₗ[R] (Fin n → R)) :
    LinearMap.toMatrix' (e.symm : (Fin n → R) →ₗ[R] (Fin n → R)) * LinearMap.toMatrix' (e : (Fin n → R) →ₗ[R] (Fin n → R)) = 1 := by
  rw [← LinearMap.toMatrix'_comp]
  simp

/-- linearity is what makes all of the above apply: every structurally well-formed operator of the Level-A
semantics commutes with scalar multiplication (law `homogeneous` of `OpSem`, discharged per kernel), and so does
every chain of such operators -/
theorem chain_homogeneous {V} (L : OpSem V) (ops : List Op) (s t : Struct) (hok : ∀ o ∈ ops, StructOK o)
    (h : L.toSem.WT ops s t) (a : Rat) (x : V)
    (hx : L.mem s x) : L.toSem.app ops (L.smul a x) = L.smul a (L.toSem.app ops x) :=
  L.app_homogeneous ops s t hok h a x hx

end Furax.C04
