/-
C04 — Application is linear and `as_matrix()` is its faithful dense form: the closed statements, in the faithful
list denotation.  (Separate module: FuraxProofs/Sem/LinearList.lean instantiates the abstract statements of
FuraxProofs/Props/C04.lean.)
-/
import FuraxProofs.Props.C04
import FuraxProofs.Sem.LinearList
namespace Furax.C04
open Furax

/-! ### the closed statements, in the faithful list denotation (FuraxProofs/Sem) -/

/-- **application is additive**, for every operator expression and all inputs (with scalar homogeneity,
`ListSem.homLaw`, this is linearity): no validity of leaves is needed, every kernel normalises lengths.
`EnvAdd E`: the maps standing for the uninterpreted leaf classes are additive. -/
theorem application_additive (E : ListSem.Env) (hE : ListSem.EnvAdd E) (o : Op) (hok : StructOK o) (x y : List ℝ)
    (hx : x.length = (Op.inS o).size) (hy : y.length = (Op.inS o).size) :
    ListSem.den E o (List.zipWith (· + ·) x y) =
      List.zipWith (· + ·) (ListSem.den E o x) (ListSem.den E o y) :=
  ListSem.den_additive E hE o hok x y hx hy

/-- **`op(x) = as_matrix() · flatten(x)` for every x**: the matrix whose column `j` is `op` applied to the `j`-th
basis vector reproduces `op` on every input -/
theorem application_is_dense_matrix (E : ListSem.Env) (hE : ListSem.EnvAdd E) (o : Op) (hok : StructOK o)
    (n m : Nat) (hm : Op.outSize o = m) (v : Fin n → ℝ) :
    ListSem.den E o (List.ofFn v) = List.ofFn (Matrix.mulVec (ListSem.asMatrix E hE o n m) v) :=
  ListSem.den_eq_asMatrix_mulVec E hE o hok n m hm v

/-- **faithfulness**: two operators with the same dense matrix compute the same vectors -/
theorem dense_matrix_faithful (E : ListSem.Env) (hE : ListSem.EnvAdd E) (o o' : Op) (ho : StructOK o)
    (ho' : StructOK o') (n m : Nat) (hm : Op.outSize o = m) (hm' : Op.outSize o' = m)
    (h : ListSem.asMatrix E hE o n m = ListSem.asMatrix E hE o' n m) :
    ∀ x : List ℝ, x.length = n → ListSem.den E o x = ListSem.den E o' x :=
  ListSem.asMatrix_faithful E hE o o' ho ho' n m hm hm' h

/-- the matrix of a composition is the product of the matrices; of a sum, the sum; of `InverseOperator(o)`, the
matrix inverse (zero for a singular operand, as the lazy inverse of a singular operand denotes the zero map) -/
theorem dense_matrix_of_composition (E : ListSem.Env) (hE : ListSem.EnvAdd E) (u : Nat) (a b : Op) (hb : StructOK b)
    (n m k : Nat) (hm : Op.outSize b = m) :
    ListSem.asMatrix E hE (.comp u [a, b]) n k = ListSem.asMatrix E hE a m k * ListSem.asMatrix E hE b n m :=
  ListSem.asMatrix_comp E hE u a b hb n m k hm

theorem dense_matrix_of_sum (E : ListSem.Env) (hE : ListSem.EnvAdd E) (u : Nat) (td : TreeDef) (ops : List Op)
    (n m : Nat) :
    ListSem.asMatrix E hE (.cont u .add td ops) n m = (ops.map fun o => ListSem.asMatrix E hE o n m).sum :=
  ListSem.asMatrix_add E hE u td ops n m

theorem dense_matrix_of_lazy_inverse (E : ListSem.Env) (hE : ListSem.EnvAdd E) (u : Nat) (o : Op) (ho : StructOK o)
    (hsq : Op.inS o = Op.outS o) :
    ListSem.asMatrix E hE (.wrap u .inverse o) (Op.inSize o) (Op.inSize o) =
      (ListSem.asMatrix E hE o (Op.inSize o) (Op.inSize o))⁻¹ :=
  ListSem.asMatrix_inverse E hE u o ho hsq

end Furax.C04
