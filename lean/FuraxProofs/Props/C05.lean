/-
C05 — Declared input/output structures are honest.

Level A (`Op.inS`, `Op.outS`, `Op.inSize`, `Op.outSize`, FuraxModel/Op.lean) transcribes how every composite
class reports its structures from its parts; the kernels' output shapes are theorems of their own properties
(C11 diagonal, C12 index, C13 axes).  Which function `out_structure` resolves to for every class (the `square`
family assigns `out_structure = in_structure` at decoration time) is pinned against the source.
-/
import FuraxProofs.Lemmas.Tables
import FuraxProofs.Lemmas.ArithSound
import FuraxProofs.Lemmas.ReduceSound
import FuraxProofs.Props.C07
import FuraxProofs.Props.C11
import FuraxProofs.Props.C13
import FuraxProofs.Props.C20
import FuraxProofs.Sem.ListModel
namespace Furax.C05
open Furax Op

theorem out_structure_resolution_pinned : ∀ r ∈ Generated.classTable, outStructureResolutionOk r = true := by
  decide

/-- a composition reports the input structure of its last operand and the output structure of its first -/
theorem composition_structures (u : Nat) (first : Op) (rest : List Op) (last : Op)
    (h : (first :: rest).getLast? = some last) :
    Op.inS (.comp u (first :: rest)) = Op.inS last ∧ Op.outS (.comp u (first :: rest)) = Op.outS first :=
  ⟨OpSem.inSLast_eq_last _ _ h, rfl⟩

/-- a sum reports the structures of its first summand; a block row the nested inputs and the first output;
a block column the first input and the nested outputs; a block diagonal both nested -/
theorem container_structures (u : Nat) (td : TreeDef) (o : Op) (os : List Op) :
    Op.inS (.cont u .add td (o :: os)) = Op.inS o ∧ Op.outS (.cont u .add td (o :: os)) = Op.outS o ∧
    Op.outS (.cont u .blockRow td (o :: os)) = Op.outS o ∧ Op.inS (.cont u .blockCol td (o :: os)) = Op.inS o ∧
    Op.inS (.cont u .blockRow td (o :: os)) = Struct.nest td (inSList (o :: os)) ∧
    Op.outS (.cont u .blockCol td (o :: os)) = Struct.nest td (outSList (o :: os)) ∧
    Op.inS (.cont u .blockDiag td (o :: os)) = Struct.nest td (inSList (o :: os)) ∧
    Op.outS (.cont u .blockDiag td (o :: os)) = Struct.nest td (outSList (o :: os)) := by
  simp [Op.inS, Op.outS, inSHead, outSHead]

/-- transposes and lazy inverses swap the structures of their operand (the diagonal inverse is square) -/
theorem dual_structures (u : Nat) (k : WrapCls) (o : Op) (hk : k ≠ .diagInv) :
    Op.inS (.wrap u k o) = Op.outS o ∧ Op.outS (.wrap u k o) = Op.inS o := by
  cases k <;> simp_all [Op.inS, Op.outS]

/-- the number of elements of a block structure is the sum over the blocks -/
theorem nest_size (td : TreeDef) (ss : List Struct) :
    (Struct.nest td ss).size = (ss.map Struct.size).sum := by
  simp only [Struct.nest, Struct.size]
  induction ss with
  | nil => rfl
  | cons s rest ih =>
    simp only [List.map_cons, List.flatten_cons, List.map_append, List.sum_append, List.sum_cons, ih]
    rfl

/-- products and sums built by the arithmetic dunders have the structures of the product / of the operands -/
theorem matmul_structures {V} (A : ArithSem V) (a b r : Op) (ha : ArithSem.WFtop a) (hb : ArithSem.WFtop b)
    (hai : A.LazyInvertible a) (hbi : A.LazyInvertible b)
    (h : pyMatmul a b = .ok r) : Op.inS r = Op.inS b ∧ Op.outS r = Op.outS a :=
  let ⟨_, h2, h3⟩ := A.pyMatmul_structs a b r ha hb hai hbi h; ⟨h2, h3⟩

/-- **`reduce()` keeps the declared structures**: on every well-formed expression the reduced operator has the
same input and output structures (the structural half of `C01.reduce_sound`; the 13 registered rules, containers
and overrides included) -/
theorem reduce_keeps_structures {V} (A : ArithSem V) (laws : RuleLaws A) (extra : ContainerLaws A laws)
    (fuel : Nat) (o r : Op) (hw : WTExpr A.invertible laws.leafOK o) (h : reduce fuel o = .ok r) :
    Op.inS r = Op.inS o ∧ Op.outS r = Op.outS o :=
  let ⟨_, h1, h2, _⟩ := Furax.reduce_sound A laws extra fuel o r hw h; ⟨h1, h2⟩

/-- … with no law assumed (faithful list denotation): the reduced operator of a valid expression declares the same
structures, and every valid operator really returns a vector of its declared output size -/
theorem reduce_keeps_structures_closed (E : ListSem.Env) (fuel : Nat) (o r : Op)
    (hw : WTExpr (ListSem.listArithSem E).invertible ListSem.listLeafOK o) (h : reduce fuel o = .ok r) :
    Op.inS r = Op.inS o ∧ Op.outS r = Op.outS o :=
  let ⟨_, h1, h2, _⟩ := ListSem.reduce_sound_closed E fuel o r hw h; ⟨h1, h2⟩

/-- **declared output sizes are honest**: whatever the input, a structurally well-formed operator returns as many
entries as `out_structure()` declares, and its transpose as many as `in_structure()` declares -/
theorem declared_sizes_honest (E : ListSem.Env) (o : Op) (h : StructOK o) :
    (∀ x, (ListSem.den E o x).length = (Op.outS o).size) ∧ (∀ y, (ListSem.denT E o y).length = (Op.inS o).size) :=
  ⟨ListSem.den_length E o h, ListSem.denT_length E o h⟩

/-- reduction keeps the typing of a chain (hence its input and output structures), for any rule list sound on
operands satisfying an invariant `P` that implies structural well-formedness (for the registry: `WTExpr`,
`binaryRules_sound`, `WTExpr.structOK`) -/
theorem reduction_keeps_structures {V} (L : OpSem V) (P : Op → Prop) (hPok : ∀ o, P o → StructOK o)
    (hid : ∀ s, P (Op.mkIdentity s))
    (hhom : ∀ v s, P (Op.mkHomothety v s)) (red : Op → Except PyErr Op)
    (hr : ∀ ru ∈ binaryRules red, L.toSem.RuleSoundOn P ru) (ops res : List Op) (s t : Struct)
    (hP : ∀ o ∈ ops, P o) (hwt : L.toSem.WT ops s t) (hres : algebraicReduction red ops = .ok res) :
    L.toSem.WT res s t :=
  (L.algebraicReduction_sound_on P hPok hid hhom red hr ops res s t hP hwt hres).2.1

/-- kernels: ravel and reshape keep every leaf's size; the strict diagonal keeps every leaf's shape; move-axis
permutes the shape -/
theorem kernel_shapes_honest :
    (∀ (first last : Int) (shape out : List Nat), Axes.ravelShape first last shape = .ok out → prodNat out = prodNat shape) ∧
    (∀ (ndim : Nat) (src dst : List Int) (order : List Nat), Axes.moveaxisOrder ndim src dst = .ok order →
      order.Perm (List.range ndim)) :=
  ⟨C13.ravel_preserves_size, C13.moveaxis_is_permutation⟩

/-- promoted dtypes: `jnp.result_type` over the leaves is a join (commutative, associative, idempotent up to
canonicalisation), in both 64-bit modes (table regenerated from the environment) -/
theorem promoted_dtype_is_join :
    (∀ x64 ∈ [false, true], ∀ a ∈ dtypeNames, ∀ b ∈ dtypeNames, promote x64 a b = promote x64 b a) ∧
    (∀ x64 ∈ [false, true], ∀ a ∈ dtypeNames, promote x64 a a = some (canonical x64 a)) :=
  ⟨C20.promotion_commutative, C20.promotion_idempotent⟩

/-- a parameter no wider than the data leaves the data dtype unchanged: `result_type(p, d) = d` whenever
`result_type(p, d)` is `d`-canonical … stated on the table for the float types used by the library -/
theorem narrower_parameter_keeps_dtype :
    promote true "float32" "float64" = some "float64" ∧ promote true "float32" "float32" = some "float32" ∧
    promote true "float16" "float32" = some "float32" ∧ promote false "float32" "float32" = some "float32" ∧
    promote true "int32" "float32" = some "float32" ∧ promote true "float64" "float64" = some "float64" := by decide

end Furax.C05
