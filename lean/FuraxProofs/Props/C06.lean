/-
C06 — Inverses invert.  (solver convergence partial)

`inverseOp` / `mkInverse` (FuraxModel/Dual.lean) give the *form* of `A.I` for every class as resolved along the
MRO; the semantic laws of each closed form are proved on the kernel models (C10, C11, C13, C15).  The lazy
`InverseOperator` denotes the exact inverse in the model (A4); that the solver reaches it is runtime.
-/
import FuraxModel.Dual
import FuraxProofs.Lemmas.Tables
import FuraxProofs.Props.C10
import FuraxProofs.Props.C11
import FuraxProofs.Props.C13
import FuraxProofs.Props.C15
import FuraxProofs.Sem.InverseList
namespace Furax.C06
open Furax Op

/-- which function `inverse` resolves to for every operator class is what the model transcribes -/
def inverseResolutionOk (r : Generated.ClassRow) : Bool :=
  let expected :=
    if r.name == "HomothetyOperator" then "HomothetyOperator.inverse"
    else if r.name == "DiagonalOperator" then "DiagonalOperator.inverse"
    else if r.name == "DiagonalInverseOperator" then "DiagonalInverseOperator.inverse"
    else if r.name == "BlockDiagonalOperator" then "BlockDiagonalOperator.inverse"
    else if r.name == "IdentityOperator" then "symmetric.<locals>.<lambda>"
    else if r.name == "QURotationOperator" then "QURotationOperator.transpose"
    else if r.name == "MoveAxisOperator" then "MoveAxisOperator.transpose"
    else if ["QURotationTransposeOperator", "AbstractLazyInverseOrthogonalOperator"].contains r.name
      then "TransposeOperator.transpose"
    else if ["InverseOperator", "AbstractLazyInverseOperator"].contains r.name
      then "AbstractLazyInverseOperator.inverse"
    else "AbstractLinearOperator.inverse"
  r.method "inverse" == some expected

theorem inverse_resolution_pinned : ∀ r ∈ Generated.classTable, inverseResolutionOk r = true := by decide

/-- non-square operators are refused by the lazy inverse -/
theorem refuses_nonsquare (o : Op) (h : Op.inS o ≠ Op.outS o) : mkInverse o = .error .valueError := by
  simp [mkInverse, h]

/-- `A.I.I` is `A` for every lazy-inverse wrapper (`DiagonalInverseOperator`, the QU-rotation transpose, the
solver-based `InverseOperator`: its operand is the reduced `A`) -/
theorem inverse_of_lazy_inverse (u : Nat) (k : WrapCls) (o : Op)
    (hk : k = .diagInv ∨ k = .qurotT ∨ k = .inverse) : inverseOp (.wrap u k o) = .ok o := by
  rcases hk with rfl | rfl | rfl <;> simp [inverseOp]

/-- … and for the closed forms that create a wrapper: inverting twice gives back the very same operand -/
theorem inverse_inverse_diagonal (u : Nat) (p : Params) :
    (inverseOp (.leaf u .diagonal p)).bind inverseOp = .ok (.leaf u .diagonal p) := by
  simp [inverseOp, Except.bind]

theorem inverse_inverse_qurot (u : Nat) (p : Params) :
    (inverseOp (.leaf u .qurot p)).bind inverseOp = .ok (.leaf u .qurot p) := by
  simp [inverseOp, Except.bind]

theorem inverse_identity (u : Nat) (p : Params) : inverseOp (.leaf u .identity p) = .ok (.leaf u .identity p) := by
  simp [inverseOp]

/-- a non-zero scalar operator: `(1/k)·(k·x) = x = k·((1/k)·x)` and the inverse of the inverse has value `k` -/
theorem homothety_inverse {α} [Field α] (k x : α) (hk : k ≠ 0) :
    (1 / k) * (k * x) = x ∧ k * ((1 / k) * x) = x ∧ 1 / (1 / k) = k := by
  refine ⟨?_, ?_, ?_⟩ <;> field_simp

/-- the block-diagonal inverse is taken block by block: `BD(A_i⁻¹) · BD(A_i) = BD(A_i⁻¹ A_i)` -/
theorem blockdiag_inverse_blockwise {W} (ls rs : List (BlockSem.Block W)) (h : BlockSem.Composable ls rs)
    (hr : BlockSem.AllHonest rs) (x : List W) (hx : x.length = (rs.map (·.cin)).sum) :
    BlockSem.denDiag ls (BlockSem.denDiag rs x) = BlockSem.denDiag (List.zipWith BlockSem.Block.comp ls rs) x :=
  C10.diag_diag_rule ls rs h hr x hx

/-- a block-diagonal operator with a non-square block falls back to the lazy inverse, which refuses it unless
the whole operator is square -/
theorem blockdiag_nonsquare_block_lazy (u : Nat) (td : TreeDef) (ops : List Op)
    (h : ops.all (fun b => Op.inS b == Op.outS b) = false) :
    inverseOp (.cont u .blockDiag td ops) = mkInverse (.cont u .blockDiag td ops) := by
  simp [inverseOp, h]

/-- orthogonal operators: `A.I` is `A.T` and `Aᵀ A = I` (QU rotation) -/
theorem rotation_inverse_is_transpose (a : ℝ) (x : SV ℝ) : C15.RT a (C15.R a x) = x := C15.RT_R_self a x

/-- axis permutations: the inverse (= transpose, source and destination swapped) restores shape and data -/
theorem moveaxis_inverse {α} [Inhabited α] (t t' : Tensor α) (src dst : List Int)
    (hwf : t.data.length = prodNat t.shape) (h : Axes.moveaxis t src dst = .ok t') :
    Axes.moveaxis t' dst src = .ok t := C13.moveaxis_transpose_is_inverse t t' src dst hwf h

/-- a diagonal operator with zero entries: the Moore–Penrose pseudo-inverse, no division by zero -/
theorem diagonal_pseudo_inverse (d : Rat) :
    d * (if d != 0 then 1 / d else 0) * d = d ∧
    (if d != 0 then 1 / d else 0) * d * (if d != 0 then 1 / d else 0) = (if d != 0 then 1 / d else 0) :=
  C11.pinv_moore_penrose d

/-! ### the closed statements, in the faithful list denotation (FuraxProofs/Sem) -/

/-- **`A.I(A(x)) = x = A(A.I(x))` for every operator with a closed-form inverse**: non-zero scalar, diagonal with
no zero entry, rotation, axis permutation, lazy-inverse wrappers, identity, and block-diagonal operators of such
blocks nested to any depth — where `A.I` is the FORM `inverseOp` builds (compared with furax by the
correspondence check) and both sides are evaluated in the list denotation. -/
theorem closed_form_inverse_inverts (E : ListSem.Env) (o i : Op) (h : ListSem.ClosedFormInvertible E o)
    (hi : inverseOp o = .ok i) :
    Op.inS i = Op.outS o ∧ Op.outS i = Op.inS o ∧
    (∀ x : List ℝ, x.length = Op.inSize o → ListSem.den E i (ListSem.den E o x) = x) ∧
    (∀ y : List ℝ, y.length = Op.outSize o → ListSem.den E o (ListSem.den E i y) = y) :=
  ListSem.inverseOp_inverts E o i h hi

/-- **a diagonal operator with zero entries yields the Moore–Penrose pseudo-inverse**: `D D⁺ D = D` and
`D⁺ D D⁺ = D⁺` for ARBITRARY diagonal values; the values of `D⁺` are `if d = 0 then 0 else 1/d`, no division by
zero occurs -/
theorem singular_diagonal_pseudo_inverse (E : ListSem.Env) (w u : Nat) (p : Params) (h : ListSem.diagonalOK p)
    (x : List ℝ) (hx : x.length = p.inS.size) :
    ListSem.den E (.leaf u .diagonal p) (ListSem.den E (.wrap w .diagInv (.leaf u .diagonal p))
        (ListSem.den E (.leaf u .diagonal p) x)) = ListSem.den E (.leaf u .diagonal p) x ∧
    ListSem.den E (.wrap w .diagInv (.leaf u .diagonal p)) (ListSem.den E (.leaf u .diagonal p)
        (ListSem.den E (.wrap w .diagInv (.leaf u .diagonal p)) x)) =
      ListSem.den E (.wrap w .diagInv (.leaf u .diagonal p)) x :=
  ListSem.diagonal_moore_penrose E w u p h x hx

/-- everything without a closed form goes to the lazy `InverseOperator`, which refuses non-square operands and,
for a valid operand that has an inverse, denotes it (A4: exact solver) -/
theorem no_closed_form_is_lazy (o : Op) (h : ListSem.hasClosedForm o = false) : inverseOp o = mkInverse o :=
  ListSem.inverseOp_lazy o h

theorem lazy_inverse_inverts (E : ListSem.Env) (o i : Op)
    (hw : WTExpr (ListSem.listArithSem E).invertible ListSem.listLeafOK o)
    (hinv : ∃ g, ListSem.IsInvOn (Op.inSize o) (ListSem.den E o) g) (hi : mkInverse o = .ok i) :
    ListSem.Inverts E o i :=
  ListSem.mkInverse_inverts E o i hw hinv hi

end Furax.C06
