/-
C07 — Reduction reaches the documented normal form in every context.

`normal_form` is the unbounded statement: for every chain (any length, any operands) the result of
`AlgebraicReductionRule.apply` has no adjacent pair on which any registered rule still fires and at most
one scalar factor.  The `*_fires` theorems show that the documented patterns are *not* irreducible (so the
normal-form statement really excludes them, wherever they stand), `*_never_survives` are the corollaries.
-/
import FuraxProofs.Lemmas.Nary
namespace Furax.C07
open Furax Op

/-- **Normal form, every chain, every context.** -/
theorem normal_form (red : Op → Except PyErr Op) (ops res : List Op)
    (hlen : 2 ≤ ops.length) (hres : algebraicReduction red ops = .ok res) :
    Irreducible (reductionCfg red) res ∧ (res.filter isHomothety).length ≤ 1 :=
  algebraicReduction_normal red ops res hlen hres

/-- the loop invariant behind it, for the generic scan: from any state whose prefix is irreducible -/
theorem scan_normal_form {O E} (c : Cfg O E) :
    ∀ fuel ops index res, IrrBelow c ops index → scan c fuel ops index = .ok (some res) →
      Irreducible c res := scan_irreducible c

/-- the scalar relocation never leaves more than one scalar operator -/
theorem at_most_one_scalar (ops : List Op) : ((homothetyRule ops).filter isHomothety).length ≤ 1 :=
  homothetyRule_homCount ops

/-- identity removal leaves no identity -/
theorem no_identity_left (ops : List Op) : ∀ o ∈ identityRule ops, o.isIdentity = false := by
  intro o ho
  simp only [identityRule, List.mem_filter] at ho
  simpa using ho.2

/-! ### the documented patterns are recognised (non-vacuity of `Irreducible`) -/

abbrev rules (red : Op → Except PyErr Op) := (reductionCfg red).rules

/-- polariser-then-HWP fires (and is rewritten to the polariser alone) -/
theorem polarizer_hwp_fires (red : Op → Except PyErr Op) (u u' : Nat) (p p' : Params) :
    fireFirst (rules red) (.leaf u .polarizer p) (.leaf u' .hwp p') =
      .ok (some (identityRule [.leaf u .polarizer p])) := by
  simp [rules, reductionCfg, binaryRules, fireFirst, dropIdentities, inverseBinaryRule,
    moveAxisInverseRule, reshapeInverseRule, packUnpackRule, blockRule, indexTransposeRule,
    transposeIndexRule, quRotationRule, quRotationHWPRule, linearPolarizerHWPRule,
    isLazyInverse, isRavelOrReshape, isReshapeT, isWrapCls, isPack, isLeafCls, isQURot, isQURotT,
    isPolarizer, isHWP, isTransposeOperator]

/-- rotation-then-HWP fires: `R · HWP → HWP · Rᵀ` -/
theorem rotation_hwp_fires (red : Op → Except PyErr Op) (u u' : Nat) (p p' : Params) :
    fireFirst (rules red) (.leaf u .qurot p) (.leaf u' .hwp p') =
      .ok (some (identityRule [.leaf u' .hwp p', .wrap 0 .qurotT (.leaf u .qurot p)])) := by
  simp [rules, reductionCfg, binaryRules, fireFirst, dropIdentities, inverseBinaryRule,
    moveAxisInverseRule, reshapeInverseRule, packUnpackRule, blockRule, indexTransposeRule,
    transposeIndexRule, quRotationRule, quRotationHWPRule,
    isLazyInverse, isRavelOrReshape, isReshapeT, isWrapCls, isPack, isLeafCls, isQURot, isQURotT,
    isHWP, isTransposeOperator]

/-- mutually inverse move-axis operators fire (rewritten to nothing) -/
theorem moveaxis_pair_fires (red : Op → Except PyErr Op) (u u' : Nat) (p p' : Params)
    (h1 : p.ints.getD 0 [] = p'.ints.getD 1 []) (h2 : p.ints.getD 1 [] = p'.ints.getD 0 []) :
    fireFirst (rules red) (.leaf u .moveAxis p) (.leaf u' .moveAxis p') = .ok (some []) := by
  have hm : moveAxisInverseRule.fire (.leaf u .moveAxis p) (.leaf u' .moveAxis p') = .ok (some []) := by
    simp only [moveAxisInverseRule, h1, h2]; simp
  have hi : inverseBinaryRule.fire (.leaf u .moveAxis p) (.leaf u' .moveAxis p') = .ok none := by
    simp [inverseBinaryRule, isLazyInverse]
  simp only [rules, reductionCfg, binaryRules, List.map, fireFirst, dropIdentities, hm, hi, identityRule,
    List.filter]

/-- an operator next to its own lazy inverse (either order) fires -/
theorem inverse_pair_fires_left (red : Op → Except PyErr Op) (u : Nat) (k : WrapCls) (o : Op)
    (hk : k = .inverse ∨ k = .qurotT ∨ k = .diagInv) (hu : o.uid ≠ 0) :
    fireFirst (rules red) (.wrap u k o) o = .ok (some []) := by
  have hs : same o o = true := by simp [same, hu, Op.beq_refl]
  rcases hk with rfl | rfl | rfl <;>
    simp [rules, reductionCfg, binaryRules, fireFirst, dropIdentities, inverseBinaryRule,
      isLazyInverse, operator?, hs, identityRule]

/-- corollary: in a reduced chain a polariser is never directly followed by a half-wave plate -/
theorem polarizer_hwp_never_survives (red : Op → Except PyErr Op) (ops res : List Op)
    (hlen : 2 ≤ ops.length) (hres : algebraicReduction red ops = .ok res)
    (i : Nat) (hi : i + 1 < res.length) (u u' : Nat) (p p' : Params)
    (hl : res[i] = .leaf u .polarizer p) (hr : res[i+1] = .leaf u' .hwp p') : False := by
  have h := (normal_form red ops res hlen hres).1 i hi
  rw [hl, hr, polarizer_hwp_fires] at h
  simp at h

/-- corollary: in a reduced chain an operator never stands next to its own lazy inverse -/
theorem inverse_pair_never_survives (red : Op → Except PyErr Op) (ops res : List Op)
    (hlen : 2 ≤ ops.length) (hres : algebraicReduction red ops = .ok res)
    (i : Nat) (hi : i + 1 < res.length) (u : Nat) (k : WrapCls) (o : Op)
    (hk : k = .inverse ∨ k = .qurotT ∨ k = .diagInv) (hu : o.uid ≠ 0)
    (hl : res[i] = .wrap u k o) (hr : res[i+1] = o) : False := by
  have h := (normal_form red ops res hlen hres).1 i hi
  rw [hl, hr, inverse_pair_fires_left red u k o hk hu] at h
  simp at h

end Furax.C07
