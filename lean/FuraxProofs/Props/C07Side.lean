/-
C07, the side of the scalar factor: "... at most one scalar factor remains, placed on the side with fewer
elements."  Wrappers around FuraxProofs/Lemmas/ScalarSide.lean.

* `scalar_relocation_*`  — `HomothetyRule.apply` alone, no hypothesis on the chain;
* `scalar_side`, `scalar_side_positions` — the whole `AlgebraicReductionRule.apply`, for chains of well-formed
  operands with matching adjacent structures and binary rules that preserve the outer structures of the pair they
  rewrite (`RuleTypedOn`; discharged from the leaf laws in `scalar_side_of_laws`, closed instance
  `scalar_side_structural`);
* `scalar_side_needs_typed_rules` — the hypothesis cannot be dropped (model-only witness).
-/
import FuraxProofs.Lemmas.ScalarSide
import FuraxProofs.Sem.ListModel
namespace Furax.C07
open Furax Op OpSem

/-- the scalar relocation keeps the non-scalar operands in their order -/
theorem scalar_relocation_keeps_order (ops : List Op) : strip (homothetyRule ops) = strip ops :=
  homothetyRule_strip ops

/-- the result of the scalar relocation contains a scalar operator iff the chain does -/
theorem scalar_relocation_has_scalar_iff (ops : List Op) : NoHom (homothetyRule ops) ↔ NoHom ops :=
  homothetyRule_NoHom_iff ops

/-- wide chain (`first.outSize ≤ last.inSize`): ONE scalar operator, of structure `outS first`, at the head -/
theorem scalar_relocation_left (ops : List Op) (first last : Op) (hlen : 2 ≤ ops.length)
    (hf : ops.head? = some first) (hl : ops.getLast? = some last) (hhom : ¬ NoHom ops)
    (hside : first.outSize ≤ last.inSize) :
    ∃ h : Op, h.isHomothety = true ∧ Op.outS h = Op.outS first ∧ Op.inS h = Op.outS first ∧
      homValue h = valProd ops ∧ NoHom (strip ops) ∧ homothetyRule ops = h :: strip ops :=
  homothetyRule_left ops first last hlen hf hl hhom hside

/-- tall chain (`first.outSize > last.inSize`): ONE scalar operator, of structure `inS last`, at the end -/
theorem scalar_relocation_right (ops : List Op) (first last : Op) (hlen : 2 ≤ ops.length)
    (hf : ops.head? = some first) (hl : ops.getLast? = some last) (hhom : ¬ NoHom ops)
    (hside : ¬ first.outSize ≤ last.inSize) :
    ∃ h : Op, h.isHomothety = true ∧ Op.inS h = Op.inS last ∧ Op.outS h = Op.inS last ∧
      homValue h = valProd ops ∧ NoHom (strip ops) ∧ homothetyRule ops = strip ops ++ [h] :=
  homothetyRule_right ops first last hlen hf hl hhom hside

/-- chains of length < 2 are returned unchanged -/
theorem scalar_relocation_short (ops : List Op) (h : ops.length < 2) : homothetyRule ops = ops :=
  homothetyRule_short ops h

/-- **The scalar side after the whole reduction** (invariant form). -/
theorem scalar_side (P : Op → Prop) (red : Op → Except PyErr Op)
    (hr : ∀ ru ∈ binaryRules red, RuleTypedOn P ru)
    (hid : ∀ s, P (mkIdentity s)) (hhom : ∀ v s, P (mkHomothety v s))
    (ops res : List Op) (s t : Struct) (hP : ∀ o ∈ ops, P o) (hwt : Typed ops s t)
    (hres : algebraicReduction red ops = .ok res) :
    (∀ o ∈ res, P o) ∧ Typed res s t ∧ ScalarSide (t.size ≤ s.size) res :=
  algebraicReduction_ScalarSide P red hr hid hhom ops res s t hP hwt hres

/-- **The scalar side after the whole reduction** (positions, relative to the first/last operands of the input
chain and, equivalently, of the result). -/
theorem scalar_side_positions (P : Op → Prop) (red : Op → Except PyErr Op)
    (hr : ∀ ru ∈ binaryRules red, RuleTypedOn P ru)
    (hid : ∀ s, P (mkIdentity s)) (hhom : ∀ v s, P (mkHomothety v s))
    (ops res : List Op) (first last : Op) (hP : ∀ o ∈ ops, P o) (hc : Chain ops)
    (hf : ops.head? = some first) (hl : ops.getLast? = some last)
    (hres : algebraicReduction red ops = .ok res) :
    (res.filter isHomothety).length ≤ 1 ∧
    (∀ h ∈ res, h.isHomothety = true →
      (first.outSize ≤ last.inSize → res.head? = some h) ∧
      (¬ first.outSize ≤ last.inSize → res.getLast? = some h)) ∧
    (∀ first' last', res.head? = some first' → res.getLast? = some last' →
      Op.outS first' = Op.outS first ∧ Op.inS last' = Op.inS last) :=
  algebraicReduction_scalar_position P red hr hid hhom ops res first last hP hc hf hl hres

/-- the hypothesis on the rules follows from the leaf laws (`RuleLaws`, `ContainerLaws`) for the recursive call
`reduce fuel` that `CompositionOperator.reduce` makes -/
theorem scalar_side_of_laws {V : Type} (A : ArithSem V) (laws : RuleLaws A) (extra : ContainerLaws A laws)
    (fuel : Nat) (ops res : List Op) (s t : Struct) (hP : ∀ o ∈ ops, laws.WT o) (hwt : Typed ops s t)
    (hres : algebraicReduction (reduce fuel) ops = .ok res) :
    (∀ o ∈ res, laws.WT o) ∧ Typed res s t ∧ ScalarSide (t.size ≤ s.size) res :=
  reduce_ScalarSide A laws extra fuel ops res s t hP hwt hres

/-- CLOSED, in the faithful list denotation of C01 (`Sem/ListModel.lean`): for every chain of valid operator
expressions (`listLeafOK`: what the constructors guarantee) whose adjacent structures match, whatever
`AlgebraicReductionRule.apply` returns is again a chain of valid expressions from `s` to `t` with at most one
scalar operator, standing at the head when the output has no more elements than the input (`t.size ≤ s.size`)
and at the end otherwise — no semantic hypothesis left -/
theorem scalar_side_closed (E : ListSem.Env) (fuel : Nat) (ops res : List Op) (s t : Struct)
    (hP : ∀ o ∈ ops, WTExpr (ListSem.listArithSem E).invertible ListSem.listLeafOK o) (hwt : Typed ops s t)
    (hres : algebraicReduction (reduce fuel) ops = .ok res) :
    (∀ o ∈ res, WTExpr (ListSem.listArithSem E).invertible ListSem.listLeafOK o) ∧ Typed res s t ∧
      ScalarSide (t.size ≤ s.size) res :=
  reduce_ScalarSide (ListSem.listArithSem E) (ListSem.listRuleLaws E) (ListSem.listContainerLaws E)
    fuel ops res s t hP hwt hres

/-- closed instance: structurally well-formed operands, no semantic hypothesis -/
theorem scalar_side_structural (fuel : Nat) (ops res : List Op) (s t : Struct)
    (hP : ∀ o ∈ ops, WTExpr (fun _ => True) zeroLeafOK o) (hwt : Typed ops s t)
    (hres : algebraicReduction (reduce fuel) ops = .ok res) :
    (∀ o ∈ res, WTExpr (fun _ => True) zeroLeafOK o) ∧ Typed res s t ∧ ScalarSide (t.size ≤ s.size) res :=
  reduce_ScalarSide_structural fuel ops res s t hP hwt hres

/-- without the hypothesis on the rules the positional statement is false in the model (on operands no furax
constructor builds: a `DiagonalInverseOperator` of a non-square operand) -/
theorem scalar_side_needs_typed_rules :
    ¬ ∀ (ops res : List Op) (first last : Op), Chain ops → ops.head? = some first → ops.getLast? = some last →
      algebraicReduction (reduce 4) ops = .ok res →
      ∀ h ∈ res, h.isHomothety = true → first.outSize ≤ last.inSize → res.head? = some h :=
  ScalarSideEx.scalar_position_needs_typed_rules

/-- non-vacuity of `scalar_side_structural`: the chain `A⁻¹·A·2·B·R·Rᵀ` satisfies its hypotheses and is reduced
to `B·2` (scalar on the 3-element input side) -/
example : (∀ o ∈ ScalarSideEx.busy, WTExpr (fun _ => True) zeroLeafOK o) ∧
    Typed ScalarSideEx.busy (ScalarSideEx.sv 3) (ScalarSideEx.sv 7) := ScalarSideEx.busy_ok

end Furax.C07
