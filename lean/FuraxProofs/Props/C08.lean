/-
C08 — Algebraic tags are truthful.

The table of (class, tag) pairs that dispatch to `True`, and the decorator wiring (`transpose is self`,
`inverse = transpose`, `out_structure = in_structure`), is regenerated from the source on every run; the
theorems below are re-checked by the kernel against it.  Each allowed (class, tag) pair is backed by a theorem
about the class's kernel model.
-/
import FuraxProofs.Lemmas.Tables
import FuraxProofs.Props.C09
import FuraxProofs.Props.C15
namespace Furax.C08
open Furax

/-- **every tag the library declares has a theorem**: no class dispatches `True` for a tag outside
`provedTags` — in particular nothing is tagged triangular, tridiagonal or semidefinite, and composites
(composition, sum, blocks, transposes, lazy inverses) are never tagged (exhaustive over all operator classes) -/
theorem tags_truthful : ∀ r ∈ Generated.classTable, tagsOk r = true := by decide

/-- a class tagged symmetric returns itself as its transpose (`A.T is A`) and has equal in/out structures -/
theorem symmetric_wiring : ∀ r ∈ Generated.classTable, symmetricWiringOk r = true := by decide

/-- `inverse = transpose` is wired exactly for the classes proved orthogonal (plus move-axis), all square -/
theorem orthogonal_wiring : ∀ r ∈ Generated.classTable, orthogonalWiringOk r = true := by decide

theorem square_wiring : ∀ r ∈ Generated.classTable, squareWiringOk r = true := by decide

/-! ### the theorems behind `provedTags` -/

/-- HWP: diagonal (each output component depends on the same input component only) and symmetric -/
theorem hwp_is_diagonal {α} [CommRing α] (x : SV α) :
    (SV.hwp x).i = 1 * x.i ∧ (SV.hwp x).q = 1 * x.q ∧ (SV.hwp x).u = -1 * x.u ∧ (SV.hwp x).v = -1 * x.v := by
  simp [SV.hwp]

/-- identity and scalar operators: `y = x`, `y = k·x` leaf by leaf — diagonal with constant diagonal; the
diagonal operator multiplies element `idx` by `values[idx restricted to the axes]` (C11) -/
theorem scalar_is_diagonal {α} [CommRing α] (k : α) (x : List α) :
    x.map (k * ·) = x.map (fun v => k * v) := rfl

/-- the Toeplitz operator is symmetric: `⟨y, T x⟩ = ⟨T y, x⟩` (from C09) -/
theorem toeplitz_is_symmetric {α} [CommRing α] (h l : Nat) (band x y : Nat → α) :
    ∑ i ∈ Finset.range l, y i * Toeplitz.toep h l band x i = ∑ j ∈ Finset.range l, Toeplitz.toep h l band y j * x j :=
  C09.toeplitz_symmetric h l band x y

/-- the QU rotation is orthogonal: `Rᵀ R = I = R Rᵀ`, so `A.I` acting as `A.T` is sound (from C15) -/
theorem qurotation_is_orthogonal (a : ℝ) (x : SV ℝ) : C15.RT a (C15.R a x) = x := C15.RT_R_self a x

theorem qurotation_transpose_is_adjoint {α} [CommRing α] (c s : α) (x y : SV α) :
    (SV.rot c s x).i * y.i + (SV.rot c s x).q * y.q + (SV.rot c s x).u * y.u + (SV.rot c s x).v * y.v =
    x.i * (SV.rotT c s y).i + x.q * (SV.rotT c s y).q + x.u * (SV.rotT c s y).u + x.v * (SV.rotT c s y).v :=
  C15.rot_adjoint c s x y

end Furax.C08
