/-
C08 — Algebraic tags are truthful IN THE CLOSED DENOTATION.

FuraxProofs/Props/C08.lean proves facts about the TABLE regenerated from the Python source (`Generated.classTable`)
and, separately, facts about the kernels.  Here the two are tied together through the closed denotation `den E o` /
`denT E o` of operator expressions on flattened pytrees (FuraxProofs/Sem/ListSem.lean), its adjointness theorem
(FuraxProofs/Sem/AdjointList.lean) and the bridge to Mathlib matrices `asMatrix` (FuraxProofs/Sem/LinearList.lean):

* (a) SYMMETRIC — `C08.symmetric_classes`: every class the table tags `is_symmetric` satisfies `SemSymmetric`
  (equal structures, `op.T` IS `op`, `denT = den`, `⟨A x, y⟩ = ⟨x, A y⟩`, `Matrix.IsSymm (asMatrix …)`);
* (b) DIAGONAL — `C08.diagonal_classes`: every class tagged `is_diagonal` satisfies `SemDiagonal`
  (`den E o x = d * x` entry-wise for ONE vector `d`, `asMatrix = Matrix.diagonal d`, off-diagonal entries vanish);
* (c) ORTHOGONAL — `C08.orthogonal_classes`: every class whose `inverse` resolves to its `transpose` satisfies
  `SemOrthogonal` (`inverseOp o = transposeOp o`, `denT ∘ den = id = den ∘ denT`, `Mᵀ M = 1 = M Mᵀ`);
* (d) SQUARE — `C08.square_classes`: every class whose `out_structure` resolves to its `in_structure` has
  `Op.outS o = Op.inS o`;
* (e) `C08.tags_truthful_closed`: ONE theorem quantifying over the generated table.  It does not compile any more
  when the Python source declares a tag (or a decorator wiring) for which no semantic lemma exists:
  a new tag NAME makes `TagSem` `False`; a newly tagged CLASS falls out of `provedTags` / the lists below, which are
  checked against the regenerated table by `decide` (`C08.tags_truthful`, `C08.orthogonal_wiring`,
  `square_table`); a tagged class the model does not know is caught by `declared_classes_modelled`;
* (f) negative facts: `QURotationOperator` is NOT symmetric, `IndexOperator` is neither diagonal nor symmetric
  (kernel-checked witnesses), and neither is tagged.

The hypothesis of (e) is `TagValid E o` (named below): the well-formedness predicate of the closed theorems
WITHOUT the invertibility part (`WTExpr (fun _ => True) listLeafOK`), `TFormOK` (a `DiagonalInverseOperator` wraps a
`DiagonalOperator`, which is all its constructor accepts — NEEDED: `ListSem.DiagInvCounterexample`), and, for
Toeplitz leaves with a BATCHED band only (left to the environment by the denotation), `EnvAdjOn` / `EnvSymOn`.  The
per-class theorems of FuraxProofs/Sem/TagsList.lean carry the weakest hypothesis of each class.
-/
import FuraxProofs.Sem.TagsList
import FuraxProofs.Props.C08
namespace Furax.C08
open Furax Op ListSem Generated

/-! ### what the table declares -/

/-- the row is tagged `is_symmetric` (decorators `@symmetric`, `@diagonal`) -/
def declSymmetric (r : ClassRow) : Bool := r.tagsTrue.contains "is_symmetric"

/-- the row is tagged `is_diagonal` (decorator `@diagonal`) -/
def declDiagonal (r : ClassRow) : Bool := r.tagsTrue.contains "is_diagonal"

/-- `inverse` resolves to the very function `transpose` resolves to (decorator `@orthogonal`, or the class sets
`inverse = transpose` itself: `MoveAxisOperator`) — the `wired` of `orthogonalWiringOk` -/
def declOrthogonal (r : ClassRow) : Bool := r.method "inverse" == r.method "transpose" && !r.abstract

/-- `out_structure` resolves to the very function `in_structure` resolves to (decorator `@square`, applied by every
other decorator) -/
def declSquare (r : ClassRow) : Bool := r.method "out_structure" == r.method "in_structure"

/-! ### the hypothesis -/

/-- **the hypothesis of the summary theorem**:
* `WTExpr (fun _ => True) listLeafOK o` — the well-formedness predicate of the closed theorems
  (`ListSem.reduce_sound_closed`), without its invertibility part: every leaf passed its constructor's validation
  (`listLeafOK`), every wrapper and container is structurally well formed;
* `TFormOK o` — a `DiagonalInverseOperator` wraps a `DiagonalOperator` leaf;
* `EnvAdjOn E o`, `EnvSymOn E o` — the maps of the environment standing for the leaves the denotation does not
  interpret are adjoint, and equal for Toeplitz leaves with a BATCHED band; no constraint on any other leaf. -/
def TagValid (E : Env) (o : Op) : Prop :=
  WTExpr (fun _ => True) listLeafOK o ∧ TFormOK o ∧ EnvAdjOn E o ∧ EnvSymOn E o

/-- the hypothesis of the closed soundness theorem of `reduce()` implies the first component -/
theorem wt_of_closed (E : Env) (o : Op) (h : WTExpr (listArithSem E).invertible listLeafOK o) :
    WTExpr (fun _ => True) listLeafOK o :=
  WTExpr_mono (fun _ _ => trivial) (fun _ _ h => h) o h

/-- **what a lineax tag means for an expression**; a tag without a semantic statement means `False` -/
def TagSem (E : Env) (tag : String) (o : Op) : Prop :=
  if tag = "is_symmetric" then SemSymmetric E o
  else if tag = "is_diagonal" then SemDiagonal E o
  else False

/-! ### the classes behind each declaration -/

def symmetricClasses : List String :=
  ["IdentityOperator", "HomothetyOperator", "DiagonalOperator", "DiagonalInverseOperator", "HWPOperator",
   "SymmetricBandToeplitzOperator"]

def diagonalClasses : List String :=
  ["IdentityOperator", "HomothetyOperator", "DiagonalOperator", "DiagonalInverseOperator", "HWPOperator"]

def orthogonalClasses : List String :=
  ["IdentityOperator", "QURotationOperator", "QURotationTransposeOperator", "AbstractLazyInverseOrthogonalOperator",
   "MoveAxisOperator"]

def squareClasses : List String :=
  ["IdentityOperator", "HomothetyOperator", "DiagonalOperator", "DiagonalInverseOperator", "HWPOperator",
   "QURotationOperator", "SymmetricBandToeplitzOperator", "ToastObservationMatrixOperator",
   "QURotationTransposeOperator", "AbstractLazyInverseOrthogonalOperator"]

/-- `AbstractLazyInverseOrthogonalOperator` (the base class of `QURotationTransposeOperator`, never instantiated by
furax itself) is the only class with a declaration that the model has no constructor for -/
theorem clsName_ne_abstractOrthogonal (o : Op) : o.clsName ≠ "AbstractLazyInverseOrthogonalOperator" := by
  have hl : ∀ c : LeafCls, c.name ≠ "AbstractLazyInverseOrthogonalOperator" := by intro c; cases c <;> decide
  have hw : ∀ k : WrapCls, k.name ≠ "AbstractLazyInverseOrthogonalOperator" := by intro k; cases k <;> decide
  have hc : ∀ k : ContCls, k.name ≠ "AbstractLazyInverseOrthogonalOperator" := by intro k; cases k <;> decide
  cases o with
  | leaf u c p => exact hl c
  | wrap u k o => exact hw k
  | comp u ops => exact (by decide : "CompositionOperator" ≠ "AbstractLazyInverseOrthogonalOperator")
  | cont u k td ops => exact hc k

/-! #### unpacking `TagValid` class by class -/

theorem valid_diagInv {E : Env} {w : Nat} {o' : Op} (hv : TagValid E (.wrap w .diagInv o')) :
    ∃ u p, o' = .leaf u .diagonal p ∧ diagonalOK p := by
  obtain ⟨hwt, hf, -, -⟩ := hv
  obtain ⟨u, p, rfl⟩ := hf rfl
  simp only [WTExpr] at hwt
  exact ⟨u, p, rfl, hwt.1⟩

theorem valid_qurotT {E : Env} {w : Nat} {o' : Op} (hv : TagValid E (.wrap w .qurotT o')) :
    ∃ u p, o' = .leaf u .qurot p ∧ stokesOK .qurot p := by
  obtain ⟨hwt, -, -, -⟩ := hv
  simp only [WTExpr] at hwt
  have hq := hwt.2.2.1 rfl
  cases o' with
  | leaf u c p =>
    have hc : LeafCls.qurot = c := by simpa [isQURot, isLeafCls] using hq
    subst hc
    exact ⟨u, p, rfl, hwt.1⟩
  | _ => simp [isQURot, isLeafCls] at hq

/-! ### (a) symmetric -/

/-- **(a)** every well-formed operator of a class tagged `is_symmetric` is symmetric in the closed denotation -/
theorem symmetric_classes (E : Env) (name : String) (hn : name ∈ symmetricClasses) (o : Op)
    (ho : o.clsName = name) (hv : TagValid E o) : SemSymmetric E o := by
  simp only [symmetricClasses, List.mem_cons, List.not_mem_nil, or_false] at hn
  rcases hn with rfl | rfl | rfl | rfl | rfl | rfl
  · obtain ⟨u, p, rfl⟩ := Op.clsName_eq_leaf (c := .identity) ho
    exact identity_symmetric E u p
  · obtain ⟨u, p, rfl⟩ := Op.clsName_eq_leaf (c := .homothety) ho
    exact homothety_symmetric E u p
  · obtain ⟨u, p, rfl⟩ := Op.clsName_eq_leaf (c := .diagonal) ho
    exact diagonal_symmetric E u p hv.1
  · obtain ⟨w, o', rfl⟩ := Op.clsName_eq_wrap (k := .diagInv) ho
    obtain ⟨u, p, rfl, hp⟩ := valid_diagInv hv
    exact diagInv_symmetric E w u p hp
  · obtain ⟨u, p, rfl⟩ := Op.clsName_eq_leaf (c := .hwp) ho
    exact hwp_symmetric E u p hv.1
  · obtain ⟨u, p, rfl⟩ := Op.clsName_eq_leaf (c := .toeplitz) ho
    obtain ⟨-, -, hA, hS⟩ := hv
    exact toeplitz_symmetric E u p (fun hK => hS rfl hK) (fun hK => hA (by simp [isEnvLeaf, hK]))

/-- **(a′) `A.T.mv` IS `A.mv`, as functions on all inputs**, without any hypothesis on the parameters, for the
symmetric classes the denotation interprets by a kernel: identity, scalar, diagonal, half-wave plate, Toeplitz with an
un-batched band, and `DiagonalInverseOperator(DiagonalOperator)` -/
theorem symmetric_transpose_map_is_map (E : Env) (u : Nat) (p : Params) :
    denT E (.leaf u .identity p) = den E (.leaf u .identity p) ∧
    denT E (.leaf u .homothety p) = den E (.leaf u .homothety p) ∧
    denT E (.leaf u .diagonal p) = den E (.leaf u .diagonal p) ∧
    denT E (.leaf u .hwp p) = den E (.leaf u .hwp p) ∧
    (toepK p.vals ≠ none → denT E (.leaf u .toeplitz p) = den E (.leaf u .toeplitz p)) ∧
    ∀ w, denT E (.wrap w .diagInv (.leaf u .diagonal p)) = den E (.wrap w .diagInv (.leaf u .diagonal p)) :=
  ⟨denT_eq_den_leaf E u _ p (.inl rfl), denT_eq_den_leaf E u _ p (.inr (.inl rfl)),
   denT_eq_den_leaf E u _ p (.inr (.inr (.inl rfl))), denT_eq_den_leaf E u _ p (.inr (.inr (.inr rfl))),
   denT_toeplitz_eq_den E u p, fun w => denT_eq_den_diagInv E w u p⟩

/-! ### (b) diagonal -/

/-- **(b)** every well-formed operator of a class tagged `is_diagonal` is an entry-wise product -/
theorem diagonal_classes (E : Env) (name : String) (hn : name ∈ diagonalClasses) (o : Op)
    (ho : o.clsName = name) (hv : TagValid E o) : SemDiagonal E o := by
  simp only [diagonalClasses, List.mem_cons, List.not_mem_nil, or_false] at hn
  rcases hn with rfl | rfl | rfl | rfl | rfl
  · obtain ⟨u, p, rfl⟩ := Op.clsName_eq_leaf (c := .identity) ho
    exact identity_diagonal E u p
  · obtain ⟨u, p, rfl⟩ := Op.clsName_eq_leaf (c := .homothety) ho
    exact homothety_diagonal E u p
  · obtain ⟨u, p, rfl⟩ := Op.clsName_eq_leaf (c := .diagonal) ho
    exact diagonal_diagonal E u p hv.1
  · obtain ⟨w, o', rfl⟩ := Op.clsName_eq_wrap (k := .diagInv) ho
    obtain ⟨u, p, rfl, hp⟩ := valid_diagInv hv
    exact diagInv_diagonal E w u p hp
  · obtain ⟨u, p, rfl⟩ := Op.clsName_eq_leaf (c := .hwp) ho
    exact hwp_diagonal E u p hv.1

/-! ### (c) orthogonal -/

/-- **(c)** every well-formed operator of a class whose `inverse` IS its `transpose` is orthogonal -/
theorem orthogonal_classes (E : Env) (name : String) (hn : name ∈ orthogonalClasses) (o : Op)
    (ho : o.clsName = name) (hv : TagValid E o) : SemOrthogonal E o := by
  simp only [orthogonalClasses, List.mem_cons, List.not_mem_nil, or_false] at hn
  rcases hn with rfl | rfl | rfl | rfl | rfl
  · obtain ⟨u, p, rfl⟩ := Op.clsName_eq_leaf (c := .identity) ho
    exact identity_orthogonal E u p
  · obtain ⟨u, p, rfl⟩ := Op.clsName_eq_leaf (c := .qurot) ho
    exact qurot_orthogonal E u p hv.1
  · obtain ⟨w, o', rfl⟩ := Op.clsName_eq_wrap (k := .qurotT) ho
    obtain ⟨u, p, rfl, hp⟩ := valid_qurotT hv
    exact qurotT_orthogonal E w u p hp
  · exact absurd ho (clsName_ne_abstractOrthogonal o)
  · obtain ⟨u, p, rfl⟩ := Op.clsName_eq_leaf (c := .moveAxis) ho
    exact moveAxis_orthogonal E u p hv.1

/-! ### (d) square -/

/-- **(d)** every structurally well-formed operator (`StructOK`: only used for `QURotationTransposeOperator`, whose
structures are those of its operand, swapped) of a class whose `out_structure` IS its `in_structure` is square -/
theorem square_classes (name : String) (hn : name ∈ squareClasses) (o : Op)
    (ho : o.clsName = name) (hs : StructOK o) : Op.outS o = Op.inS o := by
  simp only [squareClasses, List.mem_cons, List.not_mem_nil, or_false] at hn
  rcases hn with rfl | rfl | rfl | rfl | rfl | rfl | rfl | rfl | rfl | rfl
  · obtain ⟨u, p, rfl⟩ := Op.clsName_eq_leaf (c := .identity) ho; rfl
  · obtain ⟨u, p, rfl⟩ := Op.clsName_eq_leaf (c := .homothety) ho; rfl
  · obtain ⟨u, p, rfl⟩ := Op.clsName_eq_leaf (c := .diagonal) ho; rfl
  · obtain ⟨w, o', rfl⟩ := Op.clsName_eq_wrap (k := .diagInv) ho; rfl
  · obtain ⟨u, p, rfl⟩ := Op.clsName_eq_leaf (c := .hwp) ho; rfl
  · obtain ⟨u, p, rfl⟩ := Op.clsName_eq_leaf (c := .qurot) ho; rfl
  · obtain ⟨u, p, rfl⟩ := Op.clsName_eq_leaf (c := .toeplitz) ho; rfl
  · obtain ⟨u, p, rfl⟩ := Op.clsName_eq_leaf (c := .obsMatrix) ho; rfl
  · obtain ⟨w, o', rfl⟩ := Op.clsName_eq_wrap (k := .qurotT) ho
    have hsq : Op.inS o' = Op.outS o' := (((StructOK_wrap_iff w _ o').mp hs).2.1 (.inr (.inl rfl))).1
    exact hsq
  · exact absurd ho (clsName_ne_abstractOrthogonal o)

/-! ### the table against the lists -/

/-- the classes `provedTags` (FuraxProofs/Lemmas/Tables.lean, checked against the regenerated table by
`C08.tags_truthful`) allows a tag for are the classes of the lists above -/
theorem provedTags_sound (name tag : String) (h : tag ∈ provedTags name) :
    (tag = "is_symmetric" ∧ name ∈ symmetricClasses) ∨ (tag = "is_diagonal" ∧ name ∈ diagonalClasses) := by
  unfold provedTags at h
  split at h
  · rename_i h1
    have hm : name ∈ diagonalClasses := List.contains_iff_mem.mp h1
    have hm' : name ∈ symmetricClasses := by
      simp only [diagonalClasses, symmetricClasses, List.mem_cons, List.not_mem_nil, or_false] at hm ⊢
      rcases hm with h | h | h | h | h <;> simp [h]
    simp only [List.mem_cons, List.not_mem_nil, or_false] at h
    rcases h with rfl | rfl
    · exact .inr ⟨rfl, hm⟩
    · exact .inl ⟨rfl, hm'⟩
  · split at h
    · rename_i h2
      have hn : name = "SymmetricBandToeplitzOperator" := by simpa using h2
      simp only [List.mem_cons, List.not_mem_nil, or_false] at h
      subst h
      exact .inl ⟨rfl, by simp [symmetricClasses, hn]⟩
    · simp at h

/-- `declOrthogonal` is the `wired` of `orthogonalWiringOk`, whose expected classes are `orthogonalClasses` -/
theorem orthogonal_table (r : ClassRow) (hr : r ∈ classTable) (h : declOrthogonal r = true) :
    r.name ∈ orthogonalClasses := by
  have hw := orthogonal_wiring r hr
  unfold orthogonalWiringOk at hw
  simp only [Bool.and_eq_true] at hw
  have h1 := hw.1
  unfold declOrthogonal at h
  rw [h] at h1
  simpa [orthogonalClasses] using h1

def squareTableOk (r : ClassRow) : Bool := !declSquare r || squareClasses.contains r.name

/-- the classes whose `out_structure` resolves to their `in_structure` are `squareClasses` -/
theorem square_table : ∀ r ∈ classTable, squareTableOk r = true := by decide

/-- every class with a declaration is a class of the model (`LeafCls.ofName?` / `WrapCls.ofName?` of
FuraxModel/Codec.lean: the names the harness encodes with), except `AbstractLazyInverseOrthogonalOperator` -/
def modelledOk (r : ClassRow) : Bool :=
  !(r.tagsTrue != [] || declOrthogonal r || declSquare r) ||
    (LeafCls.ofName? r.name).isSome || (WrapCls.ofName? r.name).isSome ||
    r.name == "AbstractLazyInverseOrthogonalOperator"

theorem declared_classes_modelled : ∀ r ∈ classTable, modelledOk r = true := by decide

/-! ### (e) the summary -/

/-- **(e) the algebraic tags are truthful in the closed denotation.**  For every row `r` of the table regenerated
from the Python source and every well-formed operator expression `o` of the class of that row (`TagValid E o`), in
every environment `E` of the uninterpreted leaves:
* for every lineax tag the row declares, the semantic statement of that tag holds of `o` (`TagSem`: `is_symmetric`
  means `SemSymmetric`, `is_diagonal` means `SemDiagonal`, any other tag means `False`);
* if `inverse` resolves to `transpose` for the row, `o` is orthogonal (`SemOrthogonal`), `op.I` being the form `op.T`;
* if `out_structure` resolves to `in_structure` for the row, `o` is square. -/
theorem tags_truthful_closed (E : Env) : ∀ r ∈ classTable, ∀ o : Op, o.clsName = r.name → TagValid E o →
    (∀ tag ∈ r.tagsTrue, TagSem E tag o) ∧
    (declOrthogonal r = true → SemOrthogonal E o) ∧
    (declSquare r = true → Op.outS o = Op.inS o) := by
  intro r hr o ho hv
  refine ⟨fun tag ht => ?_, fun h => ?_, fun h => ?_⟩
  · have hok := tags_truthful r hr
    unfold tagsOk at hok
    have hp : tag ∈ provedTags r.name := List.contains_iff_mem.mp (List.all_eq_true.mp hok tag ht)
    rcases provedTags_sound r.name tag hp with ⟨rfl, hn⟩ | ⟨rfl, hn⟩
    · simp only [TagSem, if_true]
      exact symmetric_classes E r.name hn o ho hv
    · have : ¬ ("is_diagonal" = "is_symmetric") := by decide
      simp only [TagSem, if_neg this, if_true]
      exact diagonal_classes E r.name hn o ho hv
  · exact orthogonal_classes E r.name (orthogonal_table r hr h) o ho hv
  · have hs := square_table r hr
    unfold squareTableOk at hs
    rw [h] at hs
    exact square_classes r.name (by simpa [squareClasses] using hs) o ho hv.1.structOK

/-- (a), read off the summary: every row tagged `is_symmetric` -/
theorem symmetric_rows (E : Env) : ∀ r ∈ classTable, declSymmetric r = true → ∀ o : Op, o.clsName = r.name →
    TagValid E o → SemSymmetric E o := by
  intro r hr h o ho hv
  have := (tags_truthful_closed E r hr o ho hv).1 "is_symmetric" (List.contains_iff_mem.mp h)
  simpa only [TagSem, if_true] using this

/-- (b), read off the summary: every row tagged `is_diagonal` -/
theorem diagonal_rows (E : Env) : ∀ r ∈ classTable, declDiagonal r = true → ∀ o : Op, o.clsName = r.name →
    TagValid E o → SemDiagonal E o := by
  intro r hr h o ho hv
  have := (tags_truthful_closed E r hr o ho hv).1 "is_diagonal" (List.contains_iff_mem.mp h)
  have hne : ¬ ("is_diagonal" = "is_symmetric") := by decide
  simpa only [TagSem, if_neg hne, if_true] using this

/-- the table declares nothing but these two lineax tags (anything else would make `TagSem` false) -/
theorem only_two_tags : ∀ r ∈ classTable, ∀ tag ∈ r.tagsTrue, tag = "is_symmetric" ∨ tag = "is_diagonal" := by
  decide

/-- a leaf the denotation interprets by a kernel, with valid parameters, satisfies the hypothesis of the summary
theorem in every environment -/
theorem tagValid_leaf (E : Env) (u : Nat) (c : LeafCls) (p : Params) (hok : listLeafOK c p) (hd : c ≠ .dense)
    (he : isEnvLeaf c p = false) : TagValid E (.leaf u c p) :=
  ⟨hok, fun h => absurd h hd, envAdjOn_of_noEnvLeaf E _ he, envSymOn_of_noEnvLeaf E _ he⟩

/-! ### (f) negative facts -/

namespace Negative

/-! #### `QURotationOperator` is orthogonal but NOT symmetric, and is not tagged symmetric -/

def qu1 : Struct := ⟨[.node "stokes:QU" 2, .leaf, .leaf], [⟨[1], .f64⟩, ⟨[1], .f64⟩]⟩
/-- one QU sample rotated by the angle `1` (radian) -/
def rotW : Params := { inS := qu1, outS := qu1, vals := ⟨[1], [1]⟩ }
def rotOp : Op := .leaf 1 .qurot rotW

theorem rotW_ok : stokesOK .qurot rotW :=
  ⟨⟨.QU, rfl⟩, by decide, fun _ => ⟨rfl, by decide⟩, fun h => by cases h⟩

theorem rotOp_valid (E : Env) : TagValid E rotOp := by
  exact tagValid_leaf E 1 _ rotW rotW_ok (by simp) rfl

theorem angle_rotW : angleAt rotW.vals (leafShape rotW) 0 = 1 := by
  rw [angleAt_eq _ _ _ rfl (by decide) (by decide)]
  have : angleQ rotW.vals (leafShape rotW) 0 = 1 := rfl
  rw [this]
  norm_num

theorem den_rotOp (E : Env) (q u : ℝ) :
    den E rotOp [q, u] = [q * Real.cos 2 - u * Real.sin 2, q * Real.sin 2 + u * Real.cos 2] := by
  have hk : kindOf rotW.inS.leaves.length = some .QU := rfl
  rw [rotOp, den_qurot E 1 rotW_ok hk [q, u] rfl]
  have hn : prodNat (leafShape rotW) = 1 := rfl
  rw [hn]
  simp [stokesMap_eq, svAt, ncomp, chunks, headChunk, fit, SV.present, SV.ofPresent, rotG, angle_rotW, SV.rot,
    List.range_succ]

theorem sin_two_pos : 0 < Real.sin 2 :=
  Real.sin_pos_of_pos_of_le_two (by norm_num) le_rfl

/-- **a rotation is not self-adjoint**: `⟨R e₁, e₂⟩ = sin 2 ≠ −sin 2 = ⟨e₁, R e₂⟩` -/
theorem qurot_not_selfAdjoint (E : Env) : dot (den E rotOp [1, 0]) [0, 1] ≠ dot [1, 0] (den E rotOp [0, 1]) := by
  rw [den_rotOp, den_rotOp]
  have := sin_two_pos
  simp [dot]
  linarith

/-- **`QURotationOperator` is NOT symmetric** (a valid instance on which every clause about the map fails), although it
is orthogonal; `op.T` is not `op` either -/
theorem qurot_not_symmetric (E : Env) :
    TagValid E rotOp ∧ SemOrthogonal E rotOp ∧ ¬ SemSymmetric E rotOp ∧ transposeOp rotOp ≠ .ok rotOp := by
  refine ⟨rotOp_valid E, qurot_orthogonal E 1 rotW rotW_ok, fun h => ?_, by simp [rotOp, transposeOp, isSymmetricLeaf]⟩
  exact qurot_not_selfAdjoint E (h.selfAdjoint [1, 0] [0, 1] rfl rfl)

/-- … and the table does not tag it -/
theorem qurot_not_tagged : ∀ r ∈ classTable, r.name = "QURotationOperator" → r.tagsTrue = [] := by decide

/-! #### `IndexOperator` is neither diagonal nor symmetric, and is not tagged -/

open DiagInvCounterexample in
theorem cyc_valid (E : Env) : TagValid E cyc := by
  refine tagValid_leaf E 1 _ cycP
    ⟨⟨rfl, .cons ⟨[1, 2, 0], by decide, by decide, fun _ => by decide, rfl⟩ .nil⟩, ?_, ?_⟩ (by simp) rfl
  · intro sh vals h
    simp only [cycP, List.mem_singleton, IdxEntry.iarr.injEq] at h
    obtain ⟨rfl, rfl⟩ := h
    rfl
  · intro axis ha sh vals hget l hl n hn i hi
    have h0 : indexedAxes cycP.idx = [0] := by decide
    rw [h0, List.mem_singleton] at ha
    subst ha
    have h1 : pyGet? cycP.idx 0 = some (.iarr [3] [1, 2, 0]) := by decide
    rw [h1] at hget
    simp only [Option.some.injEq, IdxEntry.iarr.injEq] at hget
    obtain ⟨rfl, rfl⟩ := hget
    simp only [cycP, s3, List.mem_singleton] at hl
    subst hl
    have h2 : pyGet? [3] (0 : Int) = some 3 := by decide
    rw [h2] at hn
    cases hn
    simp only [List.mem_cons, List.not_mem_nil, or_false] at hi
    rcases hi with rfl | rfl | rfl <;> decide

open DiagInvCounterexample in
/-- **`IndexOperator` is NOT diagonal and NOT symmetric**: the cyclic shift of ℝ³, a valid index operator with equal
input and output structures -/
theorem index_not_diagonal_nor_symmetric (E : Env) :
    TagValid E cyc ∧ Op.outS cyc = Op.inS cyc ∧ ¬ SemDiagonal E cyc ∧ ¬ SemSymmetric E cyc := by
  refine ⟨cyc_valid E, rfl, fun h => ?_, fun h => ?_⟩
  · obtain ⟨d, hd, hz, -⟩ := h.diag
    obtain ⟨a, b, c, rfl⟩ := len3 (x := d) hd
    have := hz [1, 0, 0] rfl
    rw [den_cyc] at this
    simp at this
  · have := h.denT_eq [1, 0, 0] rfl
    rw [den_cyc, denT_cyc] at this
    simp at this

theorem index_not_tagged : ∀ r ∈ classTable, r.name = "IndexOperator" → r.tagsTrue = [] := by decide

/-- `BroadcastDiagonalOperator` (a diagonal that may CHANGE the shape: not square in general) is not tagged either -/
theorem broadcastDiagonal_not_tagged :
    ∀ r ∈ classTable, r.name = "BroadcastDiagonalOperator" → r.tagsTrue = [] ∧ declSquare r = false := by decide

/-! #### a Toeplitz leaf whose band array has rank 0 is the only one left to the environment

Since the denotation interprets BATCHED band arrays row by row (`Sem/ListSem.lean`, `toepBandAt`), the statement
`denT = den` needs no hypothesis on the environment for any band array with at least one axis; a rank-0 array is
not a band array (the constructor reads `band_values.shape[-1]`), the denotation hands it to the environment, and
for an environment whose two maps differ the clause fails — which is why `TagValid` keeps `EnvSymOn`. -/

def badEnv : Env := ⟨fun _ x => x, fun _ _ => [], fun _ _ _ => rfl, fun _ _ _ => rfl⟩
def sB : Struct := ⟨[.leaf], [⟨[1, 1], .f64⟩]⟩
def rank0P : Params := { inS := sB, outS := sB, vals := ⟨[], [3]⟩ }

theorem toeplitz_rank0_needs_env :
    listLeafOK .toeplitz rank0P ∧ ¬ SemSymmetric badEnv (.leaf 1 .toeplitz rank0P) := by
  refine ⟨fun h => absurd rfl h, fun h => ?_⟩
  have := h.denT_eq [1] rfl
  simp [den, denT, leafDen, leafDenT, squareLeaf, toepK, rank0P, badEnv, fit, sB, Struct.size, LeafS.size,
    prodNat] at this

end Negative
/-! ### non-vacuity: concrete well-formed operators of the tagged classes -/

namespace Instances
open Examples AdjExamples ToeplitzExample

/-- `HWPOperator` on IQU maps of shape (2, 3) -/
def hwpP : Params := { inS := iqu, outS := iqu }
def hwpOp : Op := .leaf 3 .hwp hwpP
theorem hwpP_ok : stokesOK .hwp hwpP := ⟨⟨.IQU, rfl⟩, by decide, fun h => (by cases h), fun h => (by cases h)⟩
theorem hwpOp_valid (E : Env) : TagValid E hwpOp := tagValid_leaf E 3 _ hwpP hwpP_ok (by simp) rfl

/-- `DiagonalInverseOperator(DiagonalOperator([2, 0, 5]))`: a SINGULAR diagonal -/
def dinvOp : Op := .wrap 9 .diagInv (.leaf 5 .diagonal diagP)
theorem dinvOp_valid (E : Env) : TagValid E dinvOp := by
  have hI : AllLeaves (fun _ c p => isEnvLeaf c p = false) dinvOp := by simp [dinvOp, AllLeaves, isEnvLeaf]
  refine ⟨⟨diagP_ok, fun _ => ⟨rfl, trivial⟩, by simp, by simp, by simp⟩, fun _ => ⟨5, diagP, rfl⟩,
    envAdjOn_of_noEnvLeaf E _ hI, envSymOn_of_noEnvLeaf E _ hI⟩

/-- `SymmetricBandToeplitzOperator`, four bands on two rows of length 3, method `overlap_save` -/
def toepOp : Op := .leaf 1 .toeplitz tP
theorem toepOp_valid (E : Env) : TagValid E toepOp :=
  tagValid_leaf E 1 _ tP (listLeafOK_toeplitz tP_ok) (by simp) rfl

/-- `QURotationTransposeOperator(QURotationOperator)` on IQU maps of shape (2, 3), one angle per column -/
def rotTOp : Op := .wrap 5 .qurotT (.leaf 3 .qurot rotP)
theorem rotTOp_valid (E : Env) : TagValid E rotTOp := by
  have hI : AllLeaves (fun _ c p => isEnvLeaf c p = false) rotTOp := by simp [rotTOp, AllLeaves, isEnvLeaf]
  refine ⟨⟨rotP_ok, fun _ => ⟨rfl, trivial⟩, fun _ => rfl, by simp, by simp⟩, fun h => (by cases h),
    envAdjOn_of_noEnvLeaf E _ hI, envSymOn_of_noEnvLeaf E _ hI⟩

/-- `MoveAxisOperator(0, 1)` from shape (2, 3) to shape (3, 2) -/
def mvP : Params := { inS := ⟨[.leaf], [⟨[2, 3], .f64⟩]⟩, outS := ⟨[.leaf], [⟨[3, 2], .f64⟩]⟩, ints := [[0], [1]] }
def mvOp : Op := .leaf 6 .moveAxis mvP
theorem mvP_ok : moveAxisOK mvP := ⟨rfl, .cons ⟨[1, 0], by decide, rfl, rfl⟩ .nil⟩
theorem mvOp_valid (E : Env) : TagValid E mvOp := tagValid_leaf E 6 _ mvP mvP_ok (by simp) rfl

/-- (a) on the Toeplitz operator and on the pseudo-inverse of a singular diagonal -/
example (E : Env) : SemSymmetric E toepOp ∧ SemSymmetric E dinvOp :=
  ⟨symmetric_classes E _ (by decide) toepOp rfl (toepOp_valid E),
   symmetric_classes E _ (by decide) dinvOp rfl (dinvOp_valid E)⟩

/-- (b) on the half-wave plate and on the pseudo-inverse of a singular diagonal -/
example (E : Env) : SemDiagonal E hwpOp ∧ SemDiagonal E dinvOp :=
  ⟨diagonal_classes E _ (by decide) hwpOp rfl (hwpOp_valid E),
   diagonal_classes E _ (by decide) dinvOp rfl (dinvOp_valid E)⟩

/-- (c) on the transposed rotation and on a move-axis operator between two different structures -/
example (E : Env) : SemOrthogonal E rotTOp ∧ SemOrthogonal E mvOp :=
  ⟨orthogonal_classes E _ (by decide) rotTOp rfl (rotTOp_valid E),
   orthogonal_classes E _ (by decide) mvOp rfl (mvOp_valid E)⟩

/-- (d) -/
example (E : Env) : Op.outS rotTOp = Op.inS rotTOp :=
  square_classes _ (by decide) rotTOp rfl (rotTOp_valid E).1.structOK

/-- (e): the row of `HWPOperator` declares both tags, and the summary theorem gives both statements -/
example : ∃ r ∈ classTable, r.name = "HWPOperator" ∧ r.tagsTrue = ["is_diagonal", "is_symmetric"] ∧
    declSquare r = true ∧ declOrthogonal r = false := by decide

example (E : Env) (r : ClassRow) (hr : r ∈ classTable) (hn : r.name = "HWPOperator")
    (ht : r.tagsTrue = ["is_diagonal", "is_symmetric"]) : SemDiagonal E hwpOp ∧ SemSymmetric E hwpOp := by
  have h := (tags_truthful_closed E r hr hwpOp (by rw [hn]; rfl) (hwpOp_valid E)).1
  rw [ht] at h
  have h1 := h "is_diagonal" (by simp)
  have h2 := h "is_symmetric" (by simp)
  have : ¬ ("is_diagonal" = "is_symmetric") := by decide
  simp only [TagSem, if_neg this, if_true] at h1 h2
  exact ⟨h1, h2⟩

/-- the hypothesis of the closed soundness theorem of `reduce()` is a sufficient well-formedness -/
example (E : Env) : WTExpr (fun _ => True) listLeafOK ex1 := wt_of_closed E ex1 (ex1_wt E)

end Instances

/-! #### a Toeplitz leaf with a BATCHED band (one band row per detector): symmetric in EVERY environment -/

namespace Batched
open ToeplitzExample

/-- `band_values.shape = (2, 2)` on data of shape `(2, 3)` (`ToeplitzExample.tB`): no hypothesis on the environment -/
def batchedOp : Op := .leaf 1 .toeplitz tB
theorem batchedOp_valid (E : Env) : TagValid E batchedOp :=
  tagValid_leaf E 1 _ tB (listLeafOK_toeplitz tB_ok) (by simp [isEnvLeaf, tB_K]) rfl

example (E : Env) : SemSymmetric E batchedOp :=
  symmetric_classes E _ (by decide) batchedOp rfl (batchedOp_valid E)

end Batched


#print axioms Furax.C08.tags_truthful_closed
#print axioms Furax.C08.symmetric_classes
#print axioms Furax.C08.symmetric_rows
#print axioms Furax.C08.diagonal_rows
#print axioms Furax.C08.diagonal_classes
#print axioms Furax.C08.orthogonal_classes
#print axioms Furax.C08.square_classes
#print axioms Furax.C08.Negative.qurot_not_symmetric
#print axioms Furax.C08.Negative.index_not_diagonal_nor_symmetric
#print axioms Furax.C08.Negative.toeplitz_rank0_needs_env

end Furax.C08
