/-
C09 — All Toeplitz evaluation methods compute the same banded product.

`toep h l band x i = Σ_j [|i−j| ≤ h] band[|i−j|]·x[j]` is the specification (`K = h + 1` bands).
`applyDirect`, `applyFft`, `applyOverlapSave`, `toeplitzCtor`, `defaultFftSize` are the functions the compiled
driver executes.  The FFT is abstracted as exact circular convolution (A3).
-/
import FuraxProofs.Lemmas.ToeplitzSums
import FuraxProofs.Lemmas.ToeplitzDense
import FuraxGenerated.Tables
namespace Furax.C09
open Furax Toeplitz Finset
variable {α : Type} [CommRing α]

/-- the method list of the source is the one the model's constructor accepts -/
theorem methods_pinned : Generated.toeplitzMethods = ["dense", "direct", "fft", "overlap_save"] := by decide

/-- **direct** method = specification, every `n ≥ 1`, `K ≥ 1` (also `K > n`), every input -/
theorem direct_correct (h l : Nat) (band x : Nat → α) (i : Nat) (hi : i < l) :
    applyDirect h l band x i = toep h l band x i := direct_eq h l band x i hi

/-- **fft** method = specification -/
theorem fft_correct (h l : Nat) (band x : Nat → α) (i : Nat) (hi : i < l) :
    applyFft h l band x i = toep h l band x i := fft_eq h l band x i hi

/-- **overlap_save** = specification for every admissible FFT size `F ≥ 2K − 1 = 2h + 1`, every number
of blocks, every length -/
theorem overlapSave_correct (F h l : Nat) (band x : Nat → α) (hF : 2 * h + 1 ≤ F) (i : Nat) (hi : i < l) :
    applyOverlapSave F h l band x i = toep h l band x i := overlapSave_eq F h l band x hF i hi

/-- **the dense scatter builds the band matrix**: entry (r, c) of `dense_symmetric_band_toeplitz(n, band)`
is `band[|r−c|]` when `|r−c| < K` and 0 otherwise — every `n`, every `K` including `K > n` (out-of-range
scatter updates are dropped, wrapped indices never land in range) -/
theorem dense_entry_correct {β : Type} [Zero β] (n h : Nat) (band : Nat → β) (r c : Nat) (hr : r < n) (hc : c < n) :
    denseEntry n h band r c = if dist r c ≤ h then band (dist r c) else 0 := dense_entry n h band r c hr hc

/-- **dense** method = specification; `as_matrix()` of one batch row is this matrix, and it is symmetric -/
theorem dense_correct (h l : Nat) (band x : Nat → α) (i : Nat) (hi : i < l) :
    applyDense h l band x i = toep h l band x i := applyDense_eq h l band x i hi

theorem dense_symmetric {β : Type} [Zero β] (n h : Nat) (band : Nat → β) (r c : Nat) (hr : r < n) (hc : c < n) :
    denseEntry n h band r c = denseEntry n h band c r := dense_symm n h band r c hr hc

/-- hence the three matrix-free methods agree with each other on every input -/
theorem methods_agree (F h l : Nat) (band x : Nat → α) (hF : 2 * h + 1 ≤ F) (i : Nat) (hi : i < l) :
    applyDirect h l band x i = applyFft h l band x i ∧
    applyFft h l band x i = applyOverlapSave F h l band x i := by
  rw [direct_correct h l band x i hi, fft_correct h l band x i hi, overlapSave_correct F h l band x hF i hi]
  exact ⟨rfl, rfl⟩

/-- the blocks computed by the loop (`nblock = ⌈(n + 2h)/step⌉`) cover every output position -/
theorem blocks_cover (F h l i : Nat) (hF : 2 * h + 1 ≤ F) (hi : i < l) :
    (i + h) / (F - 2 * h) < nblock F h l := block_in_range F h l i hF hi

/-- **T is symmetric**: `⟨y, T x⟩ = ⟨T y, x⟩` -/
theorem toeplitz_symmetric (h l : Nat) (band x y : Nat → α) :
    ∑ i ∈ range l, y i * toep h l band x i = ∑ j ∈ range l, toep h l band y j * x j := by
  simp only [toep, sumRange_eq, mul_sum, sum_mul]
  rw [sum_comm]
  apply sum_congr rfl; intro j _
  apply sum_congr rfl; intro i _
  rw [dist_comm i j]; ring

/-- `2^⌈log₂ n⌉ ≥ n` -/
theorem two_pow_clog2 (n : Nat) : n ≤ 2 ^ clog2 n := by
  unfold clog2
  split
  · rename_i h; simp only [Nat.pow_zero]; omega
  · have := Nat.lt_log2_self (n := n - 1)
    omega

/-- the default FFT size is admissible: `defaultFftSize (2K−1) ≥ 2K−1` (it is at least twice that) -/
theorem defaultFft_admissible (bn : Nat) : bn ≤ defaultFftSize bn ∧ 2 * bn ≤ defaultFftSize bn := by
  have h := two_pow_clog2 bn
  have : defaultFftSize bn = 2 * 2 ^ clog2 bn := by unfold defaultFftSize; rw [Nat.pow_add, Nat.pow_one]
  omega

/-- an accepted configuration of an overlap method always carries an admissible FFT size, so
`overlapSave_correct` applies to whatever the constructor lets through -/
theorem ctor_fft_admissible (K f : Nat) (fft : Option Nat)
    (h : toeplitzCtor "overlap_save" K fft = .ok (some f)) : 2 * K - 1 ≤ f := by
  have hm : (["dense", "direct", "fft", "overlap_save"].contains "overlap_save") = true := by decide
  have ho : ("overlap_save" == "overlap_save") = true := by decide
  unfold toeplitzCtor at h
  simp only [hm, ho, Bool.not_true, Bool.false_eq_true, if_false, if_true] at h
  cases fft with
  | some g =>
    simp only at h
    split at h
    · simp at h
    · rename_i hlt
      simp only [ToeplitzCtor.ok.injEq, Option.some.injEq] at h
      omega
  | none =>
    simp only [ToeplitzCtor.ok.injEq, Option.some.injEq] at h
    rw [← h]
    exact (defaultFft_admissible _).1

/-- FFT sizes below the number of bands are rejected -/
theorem ctor_rejects_small_fft (K f : Nat) (hf : f < 2 * K - 1) :
    toeplitzCtor "overlap_save" K (some f) = .valueError := by
  have hm : (["dense", "direct", "fft", "overlap_save"].contains "overlap_save") = true := by decide
  have ho : ("overlap_save" == "overlap_save") = true := by decide
  unfold toeplitzCtor
  simp only [hm, ho, Bool.not_true, Bool.false_eq_true, if_false, hf, if_true]

/-- an FFT size given to a non-overlap method, and unknown methods, are rejected -/
theorem ctor_rejects_examples :
    toeplitzCtor "fft" 3 (some 8) = .valueError ∧ toeplitzCtor "dense" 3 (some 8) = .valueError ∧
    toeplitzCtor "overlap_add" 3 none = .valueError ∧ toeplitzCtor "bogus" 1 none = .valueError ∧
    toeplitzCtor "direct" 3 none = .ok none ∧ toeplitzCtor "overlap_save" 3 none = .ok (some 16) := by
  decide

/-! non-vacuity: a concrete non-trivial instance of the overlap-save hypotheses (n = 5, K = 2, F = 4) -/
example : applyOverlapSave 4 1 5 (fun k => [4, 1].getD k (0 : Int)) (fun k => [1, 2, 3, 4, 5].getD k 0) 2 = 18 := by
  decide

end Furax.C09
