/-
C09 — All Toeplitz evaluation methods compute the same banded product: the closed statements, in the faithful list
denotation (FuraxProofs/Sem/ListSem.lean, FuraxProofs/Sem/ToeplitzList.lean).

A `SymmetricBandToeplitzOperator` leaf whose band array has a last axis (`p.vals.shape = bs ++ [K]`,
`toepK p.vals = some K`: un-batched `bs = []`, or BATCHED, in practice `bs = [ndet]`, one band row per detector) is
not an uninterpreted map of the environment: `den E (.leaf u .toeplitz p)` IS the banded product, leaf by leaf and,
independently, row by row along the last axis — the batch row `b` of a leaf of shape `s ++ [l]` with the band row
`toepBandAt K p.vals (s ++ [l]) b` that NumPy broadcasting of `bs` against `s` assigns to it
(`jnp.vectorize(signature='(n),(k)->(n)')`; `band_row_is_broadcast`, `band_row_one_per_row`, `band_row_shared`);
`p.str` (the method) and `p.ints` (`[[fft_size or -1]]`) are irrelevant, and each of the model's four evaluation
functions computes that vector.  `toeplitzOK p` is the validity of such a leaf: well-formed band array of shape
`bs ++ [K]`, `K ≥ 1`, every leaf of rank `≥ 1` with leading axes the batch axes `bs` broadcast TO (`Bc`).

The statements for an un-batched band (`p.vals.shape = [K]`, the only case interpreted before) are kept, word for
word, under the names `…_unbatched`; they are the special case `toepBandAt K p.vals _ b = toepBand p.vals`.
-/
import FuraxProofs.Props.C09
import FuraxProofs.Sem.ToeplitzList
namespace Furax.C09
open Furax ListSem Toeplitz

/-! ### the band row of a batch row -/

/-- the band used on batch row `b` of a leaf of shape `ds ++ [l]` is row `b` of
`numpy.broadcast_to(band_values, ds ++ [K])` (the model's `Tensor.broadcastTo`, the mechanism of the rotation angles
`angleAt`) -/
theorem band_row_is_broadcast (K : Nat) (vals : Tensor Rat) (bs ds : List Nat) (l b k : Nat)
    (hs : vals.shape = bs ++ [K]) (hlen : bs.length ≤ ds.length) (hb : b < prodNat ds) (hk : k < K) :
    toepBandAt K vals (ds ++ [l]) b k = ((castT vals).broadcastTo (ds ++ [K])).data.getD (b * K + k) 0 :=
  toepBandAt_eq_broadcastTo K vals bs ds l b k hs hlen hb hk

/-- `band_values.shape = ds ++ [K]` on data of shape `ds ++ [l]` (e.g. `(ndet, K)` on `(ndet, nsamp)`): row `b`
uses band row `b` -/
theorem band_row_one_per_row (K : Nat) (vals : Tensor Rat) (ds : List Nat) (l b : Nat) (hs : vals.shape = ds ++ [K])
    (hb : b < prodNat ds) (k : Nat) : toepBandAt K vals (ds ++ [l]) b k = toepBand vals (b * K + k) := by
  unfold toepBandAt
  rw [hs, bandRow_same ds K l b hb]

/-- `band_values.shape = [1, …, 1, K]` or `[K]`: every row uses the same band -/
theorem band_row_shared (K : Nat) (vals : Tensor Rat) (bs ds : List Nat) (l b : Nat) (hs : vals.shape = bs ++ [K])
    (h1 : ∀ d ∈ bs, d = 1) (hlen : bs.length ≤ ds.length) (hb : b < prodNat ds) :
    toepBandAt K vals (ds ++ [l]) b = toepBand vals := by
  funext k
  unfold toepBandAt
  rw [hs, bandRow_ones bs ds K l b h1 hlen hb, Nat.zero_mul, Nat.zero_add]

theorem band_row_unbatched (K : Nat) (vals : Tensor Rat) (hs : vals.shape = [K]) (shape : List Nat) (b : Nat) :
    toepBandAt K vals shape b = toepBand vals :=
  toepBandAt_unbatched K vals hs shape b

/-! ### the denotation is the banded product -/

/-- **the denotation is the banded product, independently for every batch row**: for the leaf `li` (shape
`s ++ [l]`) at offset `off` of the input structure, row `b`, position `i`:
`(T x)[off + b·l + i] = Σ_j [|i−j| < K] band_b|i−j| · x[off + b·l + j]` with `band_b` the band row of `b` — every
input list, every `K` (also `K > l`), every band array `bs ++ [K]` (batched or not), every method string and FFT size -/
theorem denotation_is_banded_product (E : Env) (u : Nat) (p : Params) (K : Nat) (hK : toepK p.vals = some K) (x : V)
    (pre : List LeafS) (li : LeafS) (post : List LeafS) (hleaves : p.inS.leaves = pre ++ li :: post)
    (s : List Nat) (l : Nat) (hshape : li.shape = s ++ [l]) (b i : Nat) (hb : b < prodNat s) (hi : i < l) :
    (den E (.leaf u .toeplitz p) x).getD ((pre.map LeafS.size).sum + b * l + i) 0 =
      toep (K - 1) l (toepBandAt K p.vals (s ++ [l]) b)
        (fun j => x.getD ((pre.map LeafS.size).sum + b * l + j) 0) i :=
  den_toeplitz_entry E u p K hK x pre li post hleaves s l hshape b i hb hi

/-- the un-batched case, as stated before batched bands were interpreted (`p.vals.shape = [K]` is what
`toepK p.vals = some K` meant then) -/
theorem denotation_is_banded_product_unbatched (E : Env) (u : Nat) (p : Params) (K : Nat) (hs : p.vals.shape = [K])
    (x : V) (pre : List LeafS) (li : LeafS) (post : List LeafS) (hleaves : p.inS.leaves = pre ++ li :: post)
    (s : List Nat) (l : Nat) (hshape : li.shape = s ++ [l]) (b i : Nat) (hb : b < prodNat s) (hi : i < l) :
    (den E (.leaf u .toeplitz p) x).getD ((pre.map LeafS.size).sum + b * l + i) 0 =
      toep (K - 1) l (toepBand p.vals) (fun j => x.getD ((pre.map LeafS.size).sum + b * l + j) 0) i :=
  den_toeplitz_entry_unbatched E u p K hs x pre li post hleaves s l hshape b i hb hi

/-- **the method and the FFT size do not change the denotation** (`toepK p.vals ≠ none`: the band array has a last
axis; batched or not) -/
theorem denotation_ignores_method (E : Env) (u : Nat) (p : Params) (hK : toepK p.vals ≠ none)
    (method : String) (ints : List (List Int)) :
    den E (.leaf u .toeplitz { p with str := method, ints := ints }) = den E (.leaf u .toeplitz p) :=
  den_toeplitz_method_irrelevant E u p hK method ints

/-- **the four evaluation functions compute the denotation**, row by row with the band row of the row, for every
`K ≥ 1` (also `K > l`), every admissible FFT size, every band array `bs ++ [K]` -/
theorem all_methods_compute_denotation (E : Env) (u : Nat) (p : Params) (K : Nat) (hK1 : 1 ≤ K)
    (hK : toepK p.vals = some K) (x : V)
    (pre : List LeafS) (li : LeafS) (post : List LeafS) (hleaves : p.inS.leaves = pre ++ li :: post)
    (s : List Nat) (l : Nat) (hshape : li.shape = s ++ [l]) (b i : Nat) (hb : b < prodNat s) (hi : i < l) :
    let band : Nat → ℝ := toepBandAt K p.vals (s ++ [l]) b
    let row : Nat → ℝ := fun j => x.getD ((pre.map LeafS.size).sum + b * l + j) 0
    let out : ℝ := (den E (.leaf u .toeplitz p) x).getD ((pre.map LeafS.size).sum + b * l + i) 0
    applyDense (K - 1) l band row i = out ∧
    applyDirect (K - 1) l band row i = out ∧
    applyFft (K - 1) l band row i = out ∧
    ∀ F, 2 * K - 1 ≤ F → applyOverlapSave F (K - 1) l band row i = out :=
  den_toeplitz_methods E u p K hK1 hK x pre li post hleaves s l hshape b i hb hi

theorem all_methods_compute_denotation_unbatched (E : Env) (u : Nat) (p : Params) (K : Nat) (hK1 : 1 ≤ K)
    (hs : p.vals.shape = [K]) (x : V)
    (pre : List LeafS) (li : LeafS) (post : List LeafS) (hleaves : p.inS.leaves = pre ++ li :: post)
    (s : List Nat) (l : Nat) (hshape : li.shape = s ++ [l]) (b i : Nat) (hb : b < prodNat s) (hi : i < l) :
    let row : Nat → ℝ := fun j => x.getD ((pre.map LeafS.size).sum + b * l + j) 0
    let out : ℝ := (den E (.leaf u .toeplitz p) x).getD ((pre.map LeafS.size).sum + b * l + i) 0
    applyDense (K - 1) l (toepBand p.vals) row i = out ∧
    applyDirect (K - 1) l (toepBand p.vals) row i = out ∧
    applyFft (K - 1) l (toepBand p.vals) row i = out ∧
    ∀ F, 2 * K - 1 ≤ F → applyOverlapSave F (K - 1) l (toepBand p.vals) row i = out :=
  den_toeplitz_methods_unbatched E u p K hK1 hs x pre li post hleaves s l hshape b i hb hi

/-- **whatever configuration the constructor accepts**: the evaluation function of the leaf's own method and FFT size
returns the entries of the denotation on every row, with the band row of that row -/
theorem accepted_configuration_computes_denotation (E : Env) (u : Nat) (p : Params) (K : Nat) (hK1 : 1 ≤ K)
    (hK : toepK p.vals = some K) (r : Option Nat) (hc : toeplitzCtor p.str K (fftArg p) = .ok r) (x : V)
    (pre : List LeafS) (li : LeafS) (post : List LeafS) (hleaves : p.inS.leaves = pre ++ li :: post)
    (s : List Nat) (l : Nat) (hshape : li.shape = s ++ [l]) (b : Nat) (hb : b < prodNat s) :
    ∃ y, evalMethod p.str (r.getD 0) (K - 1) l (toepBandAt K p.vals (s ++ [l]) b)
        (fun j => x.getD ((pre.map LeafS.size).sum + b * l + j) 0) = some y ∧
      ∀ i, i < l → y i = (den E (.leaf u .toeplitz p) x).getD ((pre.map LeafS.size).sum + b * l + i) 0 :=
  den_toeplitz_ctor E u p K hK1 hK r hc x pre li post hleaves s l hshape b hb

theorem accepted_configuration_computes_denotation_unbatched (E : Env) (u : Nat) (p : Params) (K : Nat) (hK1 : 1 ≤ K)
    (hs : p.vals.shape = [K]) (r : Option Nat) (hc : toeplitzCtor p.str K (fftArg p) = .ok r) (x : V)
    (pre : List LeafS) (li : LeafS) (post : List LeafS) (hleaves : p.inS.leaves = pre ++ li :: post)
    (s : List Nat) (l : Nat) (hshape : li.shape = s ++ [l]) (b : Nat) (hb : b < prodNat s) :
    ∃ y, evalMethod p.str (r.getD 0) (K - 1) l (toepBand p.vals)
        (fun j => x.getD ((pre.map LeafS.size).sum + b * l + j) 0) = some y ∧
      ∀ i, i < l → y i = (den E (.leaf u .toeplitz p) x).getD ((pre.map LeafS.size).sum + b * l + i) 0 :=
  den_toeplitz_ctor_unbatched E u p K hK1 hs r hc x pre li post hleaves s l hshape b hb

/-! ### validity -/

/-- a valid leaf (`toeplitzOK`): band array of shape `bs ++ [K]`, `K ≥ 1`, `prod bs · K` values; every leaf
`ds ++ [l]` with `bs` broadcasting to `ds`; for every batch row `b < prod ds` the band row exists and its `K` values
are stored values of `p.vals.data` (no default is read) -/
theorem valid_leaf_facts (p : Params) (h : toeplitzOK p) :
    ∃ bs K, 1 ≤ K ∧ p.vals.shape = bs ++ [K] ∧ toepK p.vals = some K ∧ p.vals.data.length = prodNat bs * K ∧
      ∀ li ∈ p.inS.leaves, ∃ ds l, li.shape = ds ++ [l] ∧ Bc bs ds ∧
        ∀ b, b < prodNat ds → bandRow p.vals.shape li.shape b < prodNat bs ∧
          ∀ k, k < K → ∃ hk : bandRow p.vals.shape li.shape b * K + k < p.vals.data.length,
            toepBandAt K p.vals li.shape b k = ((p.vals.data[bandRow p.vals.shape li.shape b * K + k] : Rat) : ℝ) :=
  toeplitzOK_facts p h

/-- the un-batched validity, as stated before: `K ≥ 1` bands read from `p.vals.data`, every leaf has a last axis -/
theorem valid_leaf_facts_unbatched (p : Params) (h : toeplitzUnbatchedOK p) :
    ∃ K, 1 ≤ K ∧ toepK p.vals = some K ∧ p.vals.data.length = K ∧
      (∀ k (hk : k < p.vals.data.length), toepBand p.vals k = ((p.vals.data[k] : Rat) : ℝ)) ∧
      ∀ li ∈ p.inS.leaves, ∃ s l, li.shape = s ++ [l] :=
  toeplitzUnbatchedOK_facts p h

/-- the un-batched validity is the special case "band array of rank 1" of `toeplitzOK` -/
theorem unbatched_valid_iff (p : Params) : toeplitzUnbatchedOK p ↔ toeplitzOK p ∧ p.vals.shape.length = 1 :=
  toeplitzUnbatchedOK_iff p

/-! ### symmetry -/

/-- **T is symmetric, in the denotation**: `⟨T x, y⟩ = ⟨x, T y⟩`, and `T.T` denotes the same map as `T` — no
assumption on the environment; batched bands included (every batch row has a symmetric band matrix of its own) -/
theorem denotation_self_adjoint (E : Env) (u : Nat) (p : Params) (hK : toepK p.vals ≠ none) (x y : V)
    (hx : x.length = p.inS.size) (hy : y.length = p.inS.size) :
    dot (den E (.leaf u .toeplitz p) x) y = dot x (den E (.leaf u .toeplitz p) y) :=
  toeplitz_den_self_adjoint E u p hK x y hx hy

theorem transpose_denotes_self (E : Env) (u : Nat) (p : Params) (hK : toepK p.vals ≠ none) :
    denT E (.leaf u .toeplitz p) = den E (.leaf u .toeplitz p) :=
  denT_toeplitz_eq_den E u p hK

/-! ### the hypotheses are satisfiable: a batched leaf, `band_values.shape = (2, 2)` on data `(2, 3)` -/

open ToeplitzExample in
example : toeplitzOK tB ∧ toepK tB.vals = some 2 ∧ toepK tB.vals ≠ none ∧ ¬ toeplitzUnbatchedOK tB ∧
    toeplitzCtor tB.str 2 (fftArg tB) = .ok none :=
  ⟨tB_ok, rfl, by decide, by rintro ⟨⟨K, _, hs, _⟩, _⟩; simp [tB] at hs, tB_ctor⟩

open ToeplitzExample in
/-- `denotation_is_banded_product` on it: row 1 uses the band row `[2, 7]` -/
example (E : Env) (x : V) :
    (den E (.leaf 1 .toeplitz tB) x).getD 3 0 = 2 * x.getD 3 0 + 7 * x.getD 4 0 := by
  have h1 := denotation_is_banded_product E 1 tB 2 rfl x [] ⟨[2, 3], .f64⟩ [] rfl [2] 3 rfl 1 0 (by decide) (by decide)
  simp only [List.map_nil, List.sum_nil, Nat.zero_add, Nat.one_mul, Nat.add_zero] at h1
  have hb : toepBandAt 2 tB.vals ([2] ++ [3]) 1 = fun k => toepBand tB.vals (1 * 2 + k) :=
    funext fun k => band_row_one_per_row 2 tB.vals [2] 3 1 rfl (by decide) k
  rw [h1, hb]
  simp [toep, sumRange, Toeplitz.dist, toepBand, tB, List.range_succ]

open ToeplitzExample in
example (E : Env) (x : V) :=
  all_methods_compute_denotation E 1 tB 2 (by decide) rfl x [] ⟨[2, 3], .f64⟩ [] rfl [2] 3 rfl 1 0 (by decide) (by decide)

open ToeplitzExample in
example (E : Env) (x : V) :=
  accepted_configuration_computes_denotation E 1 tB 2 (by decide) rfl none tB_ctor x [] ⟨[2, 3], .f64⟩ [] rfl [2] 3 rfl 1
    (by decide)

open ToeplitzExample in
example (E : Env) (x y : V) (hx : x.length = 6) (hy : y.length = 6) :
    dot (den E (.leaf 1 .toeplitz tB) x) y = dot x (den E (.leaf 1 .toeplitz tB) y) :=
  denotation_self_adjoint E 1 tB (by decide) x y hx hy

open ToeplitzExample in
/-- the band rows of the `(2, 1, 2)` band array on the `(2, 2, 3)` leaf are rows of `broadcast_to(band, (2, 2, 2))` -/
example (b k : Nat) (hb : b < 4) (hk : k < 2) :
    toepBandAt 2 tB3.vals ([2, 2] ++ [3]) b k = ((castT tB3.vals).broadcastTo ([2, 2] ++ [2])).data.getD (b * 2 + k) 0 :=
  band_row_is_broadcast 2 tB3.vals [2, 1] [2, 2] 3 b k rfl (by decide) (by simpa [prodNat] using hb) hk

end Furax.C09
