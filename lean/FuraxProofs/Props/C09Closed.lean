/-
C09 — All Toeplitz evaluation methods compute the same banded product: the closed statements, in the faithful list
denotation (FuraxProofs/Sem/ListSem.lean, FuraxProofs/Sem/ToeplitzList.lean).

A `SymmetricBandToeplitzOperator` leaf whose band array is un-batched (`p.vals.shape = [K]`, `toepK p.vals = some K`)
is no longer an uninterpreted map of the environment: `den E (.leaf u .toeplitz p)` IS the banded product, leaf by
leaf and row by row along the last axis; `p.str` (the method) and `p.ints` (`[[fft_size or -1]]`) are irrelevant, and
each of the model's four evaluation functions computes that vector.  `toeplitzOK p` is the validity of such a leaf
(well-formed band of `K ≥ 1` values, every leaf of rank `≥ 1`).
-/
import FuraxProofs.Props.C09
import FuraxProofs.Sem.ToeplitzList
namespace Furax.C09
open Furax ListSem Toeplitz

/-- **the denotation is the banded product**: for the leaf `li` (shape `s ++ [l]`) at offset `off` of the input
structure, row `b`, position `i`: `(T x)[off + b·l + i] = Σ_j [|i−j| < K] band|i−j| · x[off + b·l + j]` — every
input list, every `K` (also `K > l`), every method string and FFT size -/
theorem denotation_is_banded_product (E : Env) (u : Nat) (p : Params) (K : Nat) (hK : toepK p.vals = some K) (x : V)
    (pre : List LeafS) (li : LeafS) (post : List LeafS) (hleaves : p.inS.leaves = pre ++ li :: post)
    (s : List Nat) (l : Nat) (hshape : li.shape = s ++ [l]) (b i : Nat) (hb : b < prodNat s) (hi : i < l) :
    (den E (.leaf u .toeplitz p) x).getD ((pre.map LeafS.size).sum + b * l + i) 0 =
      toep (K - 1) l (toepBand p.vals) (fun j => x.getD ((pre.map LeafS.size).sum + b * l + j) 0) i :=
  den_toeplitz_entry E u p K hK x pre li post hleaves s l hshape b i hb hi

/-- **the method and the FFT size do not change the denotation** -/
theorem denotation_ignores_method (E : Env) (u : Nat) (p : Params) (hK : toepK p.vals ≠ none)
    (method : String) (ints : List (List Int)) :
    den E (.leaf u .toeplitz { p with str := method, ints := ints }) = den E (.leaf u .toeplitz p) :=
  den_toeplitz_method_irrelevant E u p hK method ints

/-- **the four evaluation functions compute the denotation**, row by row, for every `K ≥ 1` (also `K > l`) and every
admissible FFT size -/
theorem all_methods_compute_denotation (E : Env) (u : Nat) (p : Params) (K : Nat) (hK1 : 1 ≤ K)
    (hK : toepK p.vals = some K) (x : V)
    (pre : List LeafS) (li : LeafS) (post : List LeafS) (hleaves : p.inS.leaves = pre ++ li :: post)
    (s : List Nat) (l : Nat) (hshape : li.shape = s ++ [l]) (b i : Nat) (hb : b < prodNat s) (hi : i < l) :
    let row : Nat → ℝ := fun j => x.getD ((pre.map LeafS.size).sum + b * l + j) 0
    let out : ℝ := (den E (.leaf u .toeplitz p) x).getD ((pre.map LeafS.size).sum + b * l + i) 0
    applyDense (K - 1) l (toepBand p.vals) row i = out ∧
    applyDirect (K - 1) l (toepBand p.vals) row i = out ∧
    applyFft (K - 1) l (toepBand p.vals) row i = out ∧
    ∀ F, 2 * K - 1 ≤ F → applyOverlapSave F (K - 1) l (toepBand p.vals) row i = out :=
  den_toeplitz_methods E u p K hK1 hK x pre li post hleaves s l hshape b i hb hi

/-- **whatever configuration the constructor accepts**: the evaluation function of the leaf's own method and FFT size
returns the entries of the denotation on every row -/
theorem accepted_configuration_computes_denotation (E : Env) (u : Nat) (p : Params) (K : Nat) (hK1 : 1 ≤ K)
    (hK : toepK p.vals = some K) (r : Option Nat) (hc : toeplitzCtor p.str K (fftArg p) = .ok r) (x : V)
    (pre : List LeafS) (li : LeafS) (post : List LeafS) (hleaves : p.inS.leaves = pre ++ li :: post)
    (s : List Nat) (l : Nat) (hshape : li.shape = s ++ [l]) (b : Nat) (hb : b < prodNat s) :
    ∃ y, evalMethod p.str (r.getD 0) (K - 1) l (toepBand p.vals)
        (fun j => x.getD ((pre.map LeafS.size).sum + b * l + j) 0) = some y ∧
      ∀ i, i < l → y i = (den E (.leaf u .toeplitz p) x).getD ((pre.map LeafS.size).sum + b * l + i) 0 :=
  den_toeplitz_ctor E u p K hK1 hK r hc x pre li post hleaves s l hshape b hb

/-- a valid leaf (`toeplitzOK`) has `K ≥ 1` bands read from `p.vals.data`, and every leaf has a last axis -/
theorem valid_leaf_facts (p : Params) (h : toeplitzOK p) :
    ∃ K, 1 ≤ K ∧ toepK p.vals = some K ∧ p.vals.data.length = K ∧
      (∀ k (hk : k < p.vals.data.length), toepBand p.vals k = ((p.vals.data[k] : Rat) : ℝ)) ∧
      ∀ li ∈ p.inS.leaves, ∃ s l, li.shape = s ++ [l] :=
  toeplitzOK_facts p h

/-- **T is symmetric, in the denotation**: `⟨T x, y⟩ = ⟨x, T y⟩`, and `T.T` denotes the same map as `T` — no
assumption on the environment -/
theorem denotation_self_adjoint (E : Env) (u : Nat) (p : Params) (hK : toepK p.vals ≠ none) (x y : V)
    (hx : x.length = p.inS.size) (hy : y.length = p.inS.size) :
    dot (den E (.leaf u .toeplitz p) x) y = dot x (den E (.leaf u .toeplitz p) y) :=
  toeplitz_den_self_adjoint E u p hK x y hx hy

theorem transpose_denotes_self (E : Env) (u : Nat) (p : Params) (hK : toepK p.vals ≠ none) :
    denT E (.leaf u .toeplitz p) = den E (.leaf u .toeplitz p) :=
  denT_toeplitz_eq_den E u p hK

end Furax.C09
