/-
C10 — Block operators act as the block matrices of their blocks.

`BlockSem.denDiag / denCol / denRow` (FuraxModel/BlockSem.lean) are what the three block operators compute on
flattened pytrees (leaves in pytree-leaf order); `transposeOp`, `inverseOp`, `blockCtor`, `blockRule` are the
Level-A form functions the compiled driver executes and the correspondence compares with the implementation.
-/
import FuraxModel.Dual
import FuraxProofs.Lemmas.BlockLaws
namespace Furax.C10
open Furax BlockSem

variable {W : Type}

/-- BlockDiagonal(A_i) @ BlockDiagonal(B_i) = BlockDiagonal(A_i @ B_i), any number of blocks -/
theorem diag_diag_rule (ls rs : List (Block W)) (h : Composable ls rs) (hr : AllHonest rs) (x : List W)
    (hx : x.length = (rs.map (·.cin)).sum) :
    denDiag ls (denDiag rs x) = denDiag (List.zipWith Block.comp ls rs) x := diag_diag h hr x hx

/-- BlockDiagonal(A_i) @ BlockColumn(B_i) = BlockColumn(A_i @ B_i) -/
theorem diag_col_rule (ls rs : List (Block W)) (h : Composable ls rs) (hr : AllHonest rs) (x : List W)
    (hx : ∀ r ∈ rs, r.cin = x.length) :
    denDiag ls (denCol rs x) = denCol (List.zipWith Block.comp ls rs) x := diag_col h hr x hx

/-- BlockRow(A_i) @ BlockDiagonal(B_i) = BlockRow(A_i @ B_i) -/
theorem row_diag_rule [Add W] (ls rs : List (Block W)) (h : Composable ls rs) (hr : AllHonest rs) (x : List W)
    (hx : x.length = (rs.map (·.cin)).sum) :
    denRow ls (denDiag rs x) = denRow (List.zipWith Block.comp ls rs) x := row_diag h hr x hx

/-- BlockRow(A_i) @ BlockColumn(B_i) = Σ_i A_i @ B_i -/
theorem row_col_rule [Add W] (ls rs : List (Block W)) (h : Composable ls rs) (hr : AllHonest rs) (x : List W)
    (hx : ∀ r ∈ rs, r.cin = x.length) :
    denRow ls (denCol rs x) = sumLeaves (List.zipWith (fun l r => l.f (r.f x)) ls rs) :=
  row_col_sumLeaves h hr x hx

/-- a single block: the row / diagonal / column operator of one block is that block (finding F3 was the failure
of the first equation in the implementation) -/
theorem single_block [Add W] (b : Block W) (x : List W) (hx : x.length = b.cin) :
    denRow [b] x = b.f x ∧ denDiag [b] x = b.f x ∧ denCol [b] x = b.f x :=
  ⟨denRow_single_of_length b x hx, denDiag_single_of_length b x hx, denCol_single b x⟩

/-- transposes: the row operator's adjoint is the column operator of the adjoint blocks (and vice versa), the
diagonal operator's adjoint is the diagonal operator of the adjoint blocks -/
theorem row_transpose_is_column [CommSemiring W] (ls ts : List (Block W)) (h : Adjoints ls ts)
    (hl : AllHonest ls) (ht : AllHonest ts) (x y : List W) (hx : x.length = (ls.map (·.cin)).sum)
    (hy : ∀ l ∈ ls, l.cout = y.length) : dotL (denRow ls x) y = dotL x (denCol ts y) :=
  denRow_adjoint h hl ht x y hx hy

theorem column_transpose_is_row [CommSemiring W] (ls ts : List (Block W)) (h : Adjoints ls ts)
    (hl : AllHonest ls) (ht : AllHonest ts) (x y : List W) (hx : ∀ l ∈ ls, l.cin = x.length)
    (hy : y.length = (ls.map (·.cout)).sum) : dotL (denCol ls x) y = dotL x (denRow ts y) :=
  denCol_adjoint h hl ht x y hx hy

theorem diagonal_transpose_is_diagonal [CommSemiring W] (ls ts : List (Block W)) (h : Adjoints ls ts)
    (hl : AllHonest ls) (ht : AllHonest ts) (x y : List W) (hx : x.length = (ls.map (·.cin)).sum)
    (hy : y.length = (ls.map (·.cout)).sum) : dotL (denDiag ls x) y = dotL x (denDiag ts y) :=
  denDiag_adjoint h hl ht x y hx hy

/-! ### Level-A forms -/

/-- `.T` of a block row is a block column of the transposed blocks over the same container, and so on -/
theorem transpose_form (u : Nat) (td : TreeDef) (ops ts : List Op) (h : transposeList ops = .ok ts) :
    transposeOp (.cont u .blockRow td ops) = .ok (.cont 0 .blockCol td ts) ∧
    transposeOp (.cont u .blockCol td ops) = .ok (.cont 0 .blockRow td ts) ∧
    transposeOp (.cont u .blockDiag td ops) = .ok (.cont 0 .blockDiag td ts) := by
  simp [transposeOp, h]

/-- blocks whose shared structures differ are refused at construction -/
theorem ctor_refuses_mismatch (o b : Op) (rest : List Op) :
    (Op.outS b ≠ Op.outS o → blockCtor .blockRow (o :: b :: rest) = .error .valueError) ∧
    (Op.inS b ≠ Op.inS o → blockCtor .blockCol (o :: b :: rest) = .error .valueError) := by
  constructor <;> intro h <;> simp [blockCtor, h]

/-- the block rules only combine identically nested containers (finding F4 was a TypeError here) -/
theorem rule_needs_same_layout (red : Op → Except PyErr Op) (name : String) (lk rk res : ContCls)
    (u u' : Nat) (ltd rtd : TreeDef) (lops rops : List Op) (h : ltd ≠ rtd) :
    (blockRule red name lk rk res).fire (.cont u lk ltd lops) (.cont u' rk rtd rops) = .ok none := by
  simp [blockRule, h]

end Furax.C10
