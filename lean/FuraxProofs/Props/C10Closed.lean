/-
C10 — Block operators act as the block matrices of their blocks: the closed statements, in the faithful list
denotation (FuraxProofs/Sem/BlockMatrixList.lean).  `asMatrix E hE o n m i j` is component `i` of `o` applied to the
`j`-th unit vector; `blockMats E ops` lists (rows, columns, entries) of the blocks in pytree-leaf order.
-/
import FuraxProofs.Props.C10
import FuraxProofs.Sem.BlockMatrixList
namespace Furax.C10
open Furax ListSem

/-- **block diagonal**: entry (i, j) is the entry of block k when i lies in row band k and j in column band k
(bands = partial sums of the blocks' output / input sizes), and 0 across different bands — any number of blocks,
any container, nested containers flattened in leaf order -/
theorem block_diagonal_matrix (E : Env) (hE : EnvAdd E) (u : Nat) (td : TreeDef) (ops : List Op) (n m : Nat)
    (i : Fin m) (j : Fin n) :
    asMatrix E hE (.cont u .blockDiag td ops) n m i j = blockDiagEntry (blockMats E ops) i j :=
  asMatrix_blockDiag E hE u td ops n m i j

theorem block_diagonal_matrix_in_band (E : Env) (hE : EnvAdd E) (u : Nat) (td : TreeDef) (ops : List Op) (n m : Nat)
    (i : Fin m) (j : Fin n) (k : Nat) (hk : k < ops.length)
    (hi : InBand (ops.map Op.outSize) k i) (hj : InBand (ops.map Op.inSize) k j) :
    asMatrix E hE (.cont u .blockDiag td ops) n m i j =
      asMatrix E hE ops[k] (Op.inSize ops[k]) (Op.outSize ops[k])
        ⟨i - offset (ops.map Op.outSize) k, hi.sub_lt hk⟩ ⟨j - offset (ops.map Op.inSize) k, hj.sub_lt hk⟩ :=
  asMatrix_blockDiag_band E hE u td ops n m i j k hk hi hj

theorem block_diagonal_matrix_off_band (E : Env) (hE : EnvAdd E) (u : Nat) (td : TreeDef) (ops : List Op)
    (n m : Nat) (i : Fin m) (j : Fin n) (k k' : Nat) (hne : k ≠ k')
    (hi : InBand (ops.map Op.outSize) k i) (hj : InBand (ops.map Op.inSize) k' j) :
    asMatrix E hE (.cont u .blockDiag td ops) n m i j = 0 :=
  asMatrix_blockDiag_off E hE u td ops n m i j k k' hne hi hj

/-- **block row**: the horizontal concatenation of the blocks' matrices -/
theorem block_row_matrix (E : Env) (hE : EnvAdd E) (u : Nat) (td : TreeDef) (ops : List Op) (n m : Nat)
    (i : Fin m) (j : Fin n) :
    asMatrix E hE (.cont u .blockRow td ops) n m i j = blockRowEntry (blockMats E ops) i j :=
  asMatrix_blockRow E hE u td ops n m i j

/-- **block column**: the vertical stack of the blocks' matrices (all blocks take inputs of the common size, which
is what the constructor checks) -/
theorem block_column_matrix (E : Env) (hE : EnvAdd E) (u : Nat) (td : TreeDef) (ops : List Op) (n m : Nat)
    (hcol : ∀ o ∈ ops, Op.inSize o = n) (i : Fin m) (j : Fin n) :
    asMatrix E hE (.cont u .blockCol td ops) n m i j = blockColEntry (blockMats E ops) i j :=
  asMatrix_blockCol E hE u td ops n m hcol i j

/-- **the action on every input is that matrix times the flattened input** (block diagonal; the row and column
forms are `den_blockRow_eq_mulVec`, `den_blockCol_eq_mulVec`) -/
theorem block_diagonal_acts_as_its_matrix (E : Env) (hE : EnvAdd E) (u : Nat) (td : TreeDef) (ops : List Op)
    (hok : StructOK (.cont u .blockDiag td ops)) (n : Nat) (v : Fin n → ℝ) :
    den E (.cont u .blockDiag td ops) (List.ofFn v) =
      List.ofFn (Matrix.mulVec (Matrix.of fun (i : Fin (Op.outSize (.cont u .blockDiag td ops))) (j : Fin n) =>
        blockDiagEntry (blockMats E ops) i j) v) :=
  den_blockDiag_eq_mulVec E hE u td ops hok n v

/-- **transposes**: the matrix of the transpose of a block row is the transpose of the row's matrix (a block column
of the transposed blocks), block by block -/
theorem block_row_transpose_matrix (E : Env) (hE : EnvAdd E) (u : Nat) (td : TreeDef) (ops : List Op)
    (hA : ∀ o ∈ ops, EnvAdjOn E o) (hv : ∀ o ∈ ops, Valid o) (m n : Nat) (hrow : ∀ o ∈ ops, Op.outSize o = m) :
    asMatrixT E hE (.cont u .blockRow td ops) m n = (asMatrix E hE (.cont u .blockRow td ops) n m).transpose :=
  asMatrixT_blockRow_eq_transpose E hE u td ops hA hv m n hrow

end Furax.C10
