/-
C11 — Diagonal operators multiply along the requested axes.

`Diagonal.apply strict values spec x` (FuraxModel/Diagonal.lean) is what the compiled driver executes for one
leaf: constructor normalisation of `axis_destination`, `_normalize_axes`, left/right broadcast padding, the
move-axis of the reshaped values, NumPy broadcasting, and the strict variant's shape check.
The result depends on nothing but `values`, the axis specification and `x` (it is a function of them).
-/
import FuraxProofs.Lemmas.DiagonalSpec
namespace Furax.C11
open Furax Diagonal

variable {α : Type} [Inhabited α] [Mul α]

/-- **the specification**: for values of any rank `r ≥ 1` laid along pairwise distinct destination axes (given
non-negative or negative, in any order) whose sizes match the leaf, every output element is
`values[idx restricted to the axes] · x[idx]`, the shape is the leaf's — strict or broadcast variant alike -/
theorem multiplies_along_axes (strict : Bool) (values x : Tensor α) (axes : List Int)
    (hv : values.shape ≠ []) (hlen : axes.length = values.shape.length)
    (hnd : (normalizedAxes axes x.shape.length).Nodup)
    (hrange : ∀ a ∈ axes, -(x.shape.length : Int) ≤ a ∧ a < x.shape.length)
    (hshape : ∀ k, k < values.shape.length →
      values.shape.getD k 0 = x.shape.getD ((normalizedAxes axes x.shape.length).getD k 0).toNat 0) :
    ∃ y, apply strict values (.seq axes) x = .ok y ∧ y.shape = x.shape ∧ y.data.length = prodNat x.shape ∧
      ∀ p, p < prodNat x.shape →
        y.data.getD p default =
          values.data.getD (ravelIdx values.shape
            (valuesIndex (normalizedAxes axes x.shape.length) (unravel x.shape p))) default * x.data.getD p default :=
  apply_inrange_signed strict values x axes hv hlen hnd hrange hshape

/-- NumPy broadcasting: a value dimension of size 1 is repeated along its axis -/
theorem broadcasts_unit_dimensions (strict : Bool) (values x : Tensor α) (axes : List Int)
    (hv : values.shape ≠ []) (hlen : axes.length = values.shape.length) (hnd : axes.Nodup)
    (hrange : ∀ a ∈ axes, 0 ≤ a ∧ a < x.shape.length)
    (hshape : ∀ k, k < values.shape.length →
      values.shape.getD k 0 = x.shape.getD (axes.getD k 0).toNat 0 ∨ values.shape.getD k 0 = 1) :
    ∃ y, apply strict values (.seq axes) x = .ok y ∧ y.shape = x.shape ∧ y.data.length = prodNat x.shape ∧
      ∀ p, p < prodNat x.shape →
        y.data.getD p default =
          values.data.getD (ravelIdx values.shape ((List.range values.shape.length).map fun k =>
              if values.shape.getD k 0 = 1 then 0
              else (unravel x.shape p).getD (axes.getD k 0).toNat 0)) default * x.data.getD p default :=
  apply_inrange_bcast strict values x axes hv hlen hnd hrange hshape

/-- a non-negative scalar `a` means the axes `a, …, a + r − 1`; a negative one `a − r + 1, …, a` -/
theorem scalar_axis_forms (r : Nat) (a : Int) :
    (0 ≤ a → normalizeSpec r (.scalar a) = (List.range r).map (fun (k : Nat) => a + Int.ofNat k)) ∧
    (a < 0 → normalizeSpec r (.scalar a) = (List.range r).map (fun (k : Nat) => a - Int.ofNat r + 1 + Int.ofNat k)) :=
  ⟨normalizeSpec_nonneg r a, normalizeSpec_neg r a⟩

/-- the strict variant never changes a leaf's shape: anything else is rejected -/
theorem strict_keeps_shape (values : Tensor α) (spec : AxisSpec) (x y : Tensor α)
    (h : apply true values spec x = .ok y) : y.shape = x.shape := apply_strict_shape values spec x y h

/-- scalar values, duplicated axes and incompatible sizes raise `ValueError` — and nothing else is ever raised -/
theorem rejects_scalar_values (strict : Bool) (values : Tensor α) (spec : AxisSpec) (x : Tensor α)
    (h : values.shape = []) : apply strict values spec x = .error .valueError :=
  apply_rejects_scalar_values strict values spec x h

theorem rejects_duplicate_axes (strict : Bool) (values : Tensor α) (spec : AxisSpec) (x : Tensor α)
    (hv : values.shape ≠ [])
    (h : ¬ (normalizedAxes (normalizeSpec values.shape.length spec) x.shape.length).Nodup) :
    apply strict values spec x = .error .valueError :=
  apply_rejects_duplicate_axes' strict values spec x hv h

theorem only_value_errors (strict : Bool) (values : Tensor α) (spec : AxisSpec) (x : Tensor α) (e : PyErr)
    (h : apply strict values spec x = .error e) : e = .valueError := apply_error_kind strict values spec x e h

/-- the pseudo-inverse values satisfy the Moore–Penrose identities entry by entry and never divide by zero -/
theorem pinv_moore_penrose (d : Rat) :
    d * (if d != 0 then 1 / d else 0) * d = d ∧
    (if d != 0 then 1 / d else 0) * d * (if d != 0 then 1 / d else 0) = (if d != 0 then 1 / d else 0) :=
  pinv_scalar d

theorem pinv_of_zero_is_zero : pinvValues [0] = [0] := pinv_zero

end Furax.C11
