/-
C11 — Diagonal operators multiply along the requested axes: the closed statements, in the ONE list denotation
`den E o : List ℝ → List ℝ` (FuraxProofs/Sem/ListSem.lean).

A flat vector is the leaves of the pytree concatenated, each leaf row-major: entry `q` of leaf `k` sits at
`offset sizes k + q` (`offset` = sum of the sizes of the leaves before `k`).  `diagonalOK p` (FuraxProofs/Sem/ListModel.lean):
the strict broadcasting product `Diagonal.apply true` is accepted on every leaf of the input structure — what the
constructor `DiagonalOperator(values, axis_destination=axes, in_structure=…)` checks.

* §1  entry `q` of leaf `k` of `den E (.leaf u .diagonal p) x` is
      `values[(multi-index of q in leaf k)[axis_j] for j < rank(values), 0 where values.shape[j] = 1] * x[same position]`
      — the closed form of `Diagonal.apply` (`apply_general`, FuraxProofs/Lemmas/DiagonalSpec.lean), leaf by leaf, so that
      pytrees whose leaves have DIFFERENT ranks and shapes are covered; the output has the declared structure;
* §2  the operator is the entry-wise product with ONE vector `diagVec p`, whose entries are those broadcast values
      (`SemDiagonal`: the dense matrix is `Matrix.diagonal`);
* §3  `DiagonalInverseOperator(D)` (what `D.I` builds) multiplies by `where(d ≠ 0, 1/d, 0)`, entry by entry;
* §4  the four Moore–Penrose identities, as equalities of `den E (.comp …)` (and `denT`, the transpose map).

ADDED HYPOTHESIS of the entry-wise statements, named `haxes`: there are as many destination axes as dimensions of the
values.  The docstring of the Python class asks for it, the constructor does not check it (with fewer axes
`jnp.moveaxis` moves the leading dimensions of the values only, and the model does the same): the closed form of
FuraxProofs/Lemmas/DiagonalSpec.lean covers the documented case.  The vector-level statements (§2–§4) do not need it.
-/
import FuraxProofs.Props.C11
import FuraxProofs.Sem.DiagonalClosed
import FuraxProofs.Sem.AxesClosed
import FuraxProofs.Sem.TagsList
import FuraxProofs.Sem.ValidDecide
namespace Furax.C11
open Furax ListSem Op

/-- the destination axes of a diagonal leaf (`axis_destination` after the constructor's normalisation) -/
abbrev axesOf (p : Params) : List Int := p.ints.getD 0 []

/-- the position of leaf `k` in the flat vector -/
abbrev leafOffset (s : Struct) (k : Nat) : Nat := offset (s.leaves.map LeafS.size) k

/-- the entry of `values` a `DiagonalOperator` multiplies entry `q` of a leaf of shape `sh` by: the multi-index of `q`
(`unravel`), restricted to the destination axes (`destAxis`: negative axes counted from the end of the leaf), `0`
along the dimensions of the values of length `1` (NumPy broadcasting), flattened in the values (`ravelIdx`) -/
def valueAt (vals : Tensor Rat) (axes : List Int) (sh : List Nat) (q : Nat) : Rat :=
  vals.data.getD (ravelIdx vals.shape (diagIndex vals.shape axes sh.length (unravel sh q))) 0

theorem diagIndex_getD (vshape : List Nat) (axes : List Int) (n : Nat) (idx : List Nat) (j : Nat)
    (hj : j < vshape.length) :
    (diagIndex vshape axes n idx).getD j 0
      = if vshape.getD j 0 = 1 then 0 else idx.getD ((Diagonal.normalizedAxes axes n).getD j 0).toNat 0 := by
  unfold diagIndex
  rw [List.getD_eq_getElem _ _ (by simpa using hj)]
  simp [destAxis]

section leaf
variable (E : Env) {p : Params}

theorem leaf_mem {k : Nat} (hk : k < p.inS.leaves.length) : p.inS.leaves.getD k default ∈ p.inS.leaves := by
  rw [List.getD_eq_getElem _ _ hk]; exact List.getElem_mem _

theorem leafOffset_lt {k q : Nat} (hk : k < p.inS.leaves.length) (hq : q < (p.inS.leaves.getD k default).size) :
    leafOffset p.inS k + q < p.inS.size := by
  refine offset_add_lt _ k q (by simpa using hk) ?_
  rw [List.getD_eq_getElem _ _ (by simpa using hk)]
  rw [List.getD_eq_getElem _ _ hk] at hq
  simpa using hq

/-! ### 1. entry by entry -/

/-- **the side conditions follow from the constructor's check** (`diagonalOK`), leaf by leaf: the values are not a
scalar; the normalised destination axes are pairwise distinct and lie inside the rank of the leaf; every dimension
of the values is `1` or the dimension of the leaf along its destination axis -/
theorem diagonal_leaf_facts (h : diagonalOK p) (haxes : (axesOf p).length = p.vals.shape.length)
    (k : Nat) (hk : k < p.inS.leaves.length) :
    DiagLeafFacts p.vals.shape (axesOf p) (p.inS.leaves.getD k default).shape := by
  obtain ⟨y, hy, -⟩ := h _ (leaf_mem hk) []
  exact (diag_leaf_closed (castT p.vals) (axesOf p) _ [] y haxes hy).1

/-- **C11, closed, entry by entry.**  Entry `q` of leaf `k` of `DiagonalOperator.mv(x)` is the entry of `values` at
the multi-index of `q` restricted to the destination axes (NumPy-broadcast: index `0` where `values` has length `1`)
times entry `q` of leaf `k` of `x` — for every leaf of the input structure, whatever its rank -/
theorem diagonal_entry_closed (u : Nat) (h : diagonalOK p) (haxes : (axesOf p).length = p.vals.shape.length)
    (x : V) (hx : x.length = p.inS.size) (k : Nat) (hk : k < p.inS.leaves.length) (q : Nat)
    (hq : q < (p.inS.leaves.getD k default).size) :
    (den E (.leaf u .diagonal p) x).getD (leafOffset p.inS k + q) 0
      = ((valueAt p.vals (axesOf p) (p.inS.leaves.getD k default).shape q : Rat) : ℝ)
          * x.getD (leafOffset p.inS k + q) 0 := by
  have hlt := leafOffset_lt hk hq
  obtain ⟨y, hy, -⟩ := h _ (leaf_mem hk) []
  rw [den_diagonal E u p h x hx, zipWith_getD _ _ _ (by rw [diagVec_length p h]; exact hlt) (by rw [hx]; exact hlt),
    diagVec_getD p h k q hk hq, (diag_leaf_closed (castT p.vals) (axesOf p) _ [] y haxes hy).2 q hq, castT_getD]
  rfl

/-- **the output has the declared structure**: `@diagonal` makes the output structure the input structure, and the
result has one entry per element of it (leaf `k` of the output is leaf `k` of the input, same shape) -/
theorem diagonal_structure_closed (u : Nat) (x : V) :
    Op.outS (.leaf u .diagonal p) = p.inS ∧ (den E (.leaf u .diagonal p) x).length = p.inS.size :=
  ⟨rfl, (lenAt_leaf E u .diagonal p).1 x⟩

/-! ### 2. ONE vector -/

/-- **the operator is the entry-wise product with ONE vector** `d = diagVec p` (the values broadcast to every leaf,
concatenated): `den` is `x ↦ d * x` on the vectors of the input size, its dense matrix is `Matrix.diagonal d`
(`SemDiagonal`), and the entries of `d` are the broadcast values -/
theorem diagonal_one_vector (u : Nat) (h : diagonalOK p) :
    SemDiagonal E (.leaf u .diagonal p) ∧
    (diagVec p).length = p.inS.size ∧
    (∀ x : V, x.length = p.inS.size → den E (.leaf u .diagonal p) x = List.zipWith (· * ·) (diagVec p) x) ∧
    ((axesOf p).length = p.vals.shape.length → ∀ k, k < p.inS.leaves.length →
      ∀ q, q < (p.inS.leaves.getD k default).size →
        (diagVec p).getD (leafOffset p.inS k + q) 0
          = ((valueAt p.vals (axesOf p) (p.inS.leaves.getD k default).shape q : Rat) : ℝ)) := by
  refine ⟨diagonal_diagonal E u p h, diagVec_length p h, fun x hx => den_diagonal E u p h x hx, ?_⟩
  intro haxes k hk q hq
  obtain ⟨y, hy, -⟩ := h _ (leaf_mem hk) []
  rw [diagVec_getD p h k q hk hq, (diag_leaf_closed (castT p.vals) (axesOf p) _ [] y haxes hy).2 q hq, castT_getD]
  rfl

/-! ### 3. the pseudo-inverse -/

/-- `where(d ≠ 0, 1/d, 0)` on the rationals, the values `DiagonalInverseOperator` is built with (`Diagonal.pinvValues`) -/
def pinvQ (v : Rat) : Rat := if v != 0 then 1 / v else 0

theorem pinvValues_eq (l : List Rat) : Diagonal.pinvValues l = l.map pinvQ := rfl

theorem pinvR_cast (v : Rat) : pinvR ((v : Rat) : ℝ) = ((pinvQ v : Rat) : ℝ) := by
  unfold pinvR pinvQ
  by_cases hv : v = 0
  · subst hv; simp
  · have h1 : ((v : Rat) : ℝ) ≠ 0 := by exact_mod_cast hv
    have h2 : (v != 0) = true := by simpa using hv
    rw [if_neg h1, h2, if_pos rfl]
    push_cast
    rfl

/-- **`DiagonalInverseOperator(D)`, closed.**  `D.I` is that wrapper (`inverseOp`); its denotation is the entry-wise
product with ONE vector, `where(d ≠ 0, 1/d, 0)` of the vector `d` of `D` (no division by zero is performed); it is a
diagonal operator too (`SemDiagonal`); and entry by entry it multiplies by `where(v ≠ 0, 1/v, 0)` of the broadcast
value `v` -/
theorem diagInv_closed (w u : Nat) (h : diagonalOK p) :
    inverseOp (.leaf u .diagonal p) = .ok (.wrap 0 .diagInv (.leaf u .diagonal p)) ∧
    SemDiagonal E (.wrap w .diagInv (.leaf u .diagonal p)) ∧
    (∀ x : V, x.length = p.inS.size →
      den E (.wrap w .diagInv (.leaf u .diagonal p)) x = List.zipWith (· * ·) ((diagVec p).map pinvR) x) ∧
    (∀ i, i < p.inS.size → ((diagVec p).map pinvR).getD i 0
        = if (diagVec p).getD i 0 = 0 then 0 else 1 / (diagVec p).getD i 0) :=
  ⟨inverseOp_diagonal u p, diagInv_diagonal E w u p h, fun x hx => den_diagInv E w u p h x hx, fun i hi => by
    have hl : i < (diagVec p).length := by rw [diagVec_length p h]; exact hi
    rw [List.getD_eq_getElem _ _ (by simpa using hl), List.getElem_map, List.getD_eq_getElem _ _ hl]
    rfl⟩

theorem diagInv_entry_closed (w u : Nat) (h : diagonalOK p) (haxes : (axesOf p).length = p.vals.shape.length)
    (x : V) (hx : x.length = p.inS.size) (k : Nat) (hk : k < p.inS.leaves.length) (q : Nat)
    (hq : q < (p.inS.leaves.getD k default).size) :
    (den E (.wrap w .diagInv (.leaf u .diagonal p)) x).getD (leafOffset p.inS k + q) 0
      = ((pinvQ (valueAt p.vals (axesOf p) (p.inS.leaves.getD k default).shape q) : Rat) : ℝ)
          * x.getD (leafOffset p.inS k + q) 0 := by
  have hlt := leafOffset_lt hk hq
  have hl : leafOffset p.inS k + q < (diagVec p).length := by rw [diagVec_length p h]; exact hlt
  rw [den_diagInv E w u p h x hx, zipWith_getD _ _ _ (by simpa using hl) (by rw [hx]; exact hlt),
    List.getD_eq_getElem _ _ (by simpa using hl), List.getElem_map, ← List.getD_eq_getElem _ 0 hl,
    ((diagonal_one_vector E u h).2.2.2 haxes k hk q hq), pinvR_cast]

/-- the model builds the wrapper's values exactly so: `DiagonalInverseOperator.diagonal = where(d != 0, 1/d, 0)` -/
theorem diagInv_values (w u : Nat) :
    den E (.wrap w .diagInv (.leaf u .diagonal p))
      = den E (.leaf u .diagonal { p with vals := ⟨p.vals.shape, p.vals.data.map pinvQ⟩ }) := by
  funext x
  simp only [den]
  rfl

/-! ### 4. Moore–Penrose -/

theorem den_comp2 (uc : Nat) (a b : Op) (x : V) : den E (.comp uc [a, b]) x = den E a (den E b x) := by
  simp only [den, app]

theorem den_comp3 (uc : Nat) (a b c : Op) (x : V) :
    den E (.comp uc [a, b, c]) x = den E a (den E b (den E c x)) := by
  simp only [den, app]

theorem denT_comp2 (uc : Nat) (a b : Op) (y : V) : denT E (.comp uc [a, b]) y = denT E b (denT E a y) := by
  simp only [denT, appT]

theorem zipWith_comm3 (a b x : V) :
    List.zipWith (· * ·) a (List.zipWith (· * ·) b x) = List.zipWith (· * ·) b (List.zipWith (· * ·) a x) := by
  induction a generalizing b x with
  | nil => cases b <;> simp
  | cons v a ih =>
    cases b with
    | nil => simp
    | cons w b =>
      cases x with
      | nil => simp
      | cons z x =>
        simp only [List.zipWith_cons_cons, List.cons.injEq]
        exact ⟨by ring, ih b x⟩

/-- **the four Moore–Penrose identities, in `den`.**  With `D = DiagonalOperator(values, …)` and
`D⁺ = DiagonalInverseOperator(D)`, for ARBITRARY values (zeros allowed), on the vectors of the input size:
`D D⁺ D = D`, `D⁺ D D⁺ = D⁺`, and `D D⁺`, `D⁺ D` are symmetric: the transpose map (`denT`) of the composition is
its map, and it is self-adjoint for the Euclidean pairing -/
theorem moore_penrose_closed (uc w u : Nat) (h : diagonalOK p) (x : V) (hx : x.length = p.inS.size) :
    let D : Op := .leaf u .diagonal p
    let Dp : Op := .wrap w .diagInv D
    den E (.comp uc [D, Dp, D]) x = den E D x ∧
    den E (.comp uc [Dp, D, Dp]) x = den E Dp x ∧
    denT E (.comp uc [D, Dp]) x = den E (.comp uc [D, Dp]) x ∧
    denT E (.comp uc [Dp, D]) x = den E (.comp uc [Dp, D]) x ∧
    (∀ y : V, y.length = p.inS.size → dot (den E (.comp uc [D, Dp]) x) y = dot x (den E (.comp uc [D, Dp]) y)) ∧
    (∀ y : V, y.length = p.inS.size → dot (den E (.comp uc [Dp, D]) x) y = dot x (den E (.comp uc [Dp, D]) y)) := by
  intro D Dp
  have hD := diagVec_length p h
  have hlen1 : ∀ x : V, x.length = p.inS.size → (List.zipWith (· * ·) (diagVec p) x).length = p.inS.size := by
    intro x hx; rw [List.length_zipWith, hD, hx, Nat.min_self]
  have hlen2 : ∀ x : V, x.length = p.inS.size →
      (List.zipWith (· * ·) ((diagVec p).map pinvR) x).length = p.inS.size := by
    intro x hx; rw [List.length_zipWith, List.length_map, hD, hx, Nat.min_self]
  have mp := diagonal_moore_penrose E w u p h x hx
  have eDDp : ∀ z : V, z.length = p.inS.size → den E (.comp uc [D, Dp]) z
      = List.zipWith (· * ·) (diagVec p) (List.zipWith (· * ·) ((diagVec p).map pinvR) z) := by
    intro z hz
    rw [den_comp2, den_diagInv E w u p h z hz, den_diagonal E u p h _ (hlen2 z hz)]
  have eDpD : ∀ z : V, z.length = p.inS.size → den E (.comp uc [Dp, D]) z
      = List.zipWith (· * ·) ((diagVec p).map pinvR) (List.zipWith (· * ·) (diagVec p) z) := by
    intro z hz
    rw [den_comp2, den_diagonal E u p h z hz, den_diagInv E w u p h _ (hlen1 z hz)]
  refine ⟨by rw [den_comp3]; exact mp.1, by rw [den_comp3]; exact mp.2, ?_, ?_, fun y hy => ?_, fun y hy => ?_⟩
  · rw [denT_comp2, denT_eq_den_leaf E u _ p (.inr (.inr (.inl rfl))), denT_eq_den_diagInv, eDDp x hx,
      den_diagonal E u p h x hx, den_diagInv E w u p h _ (hlen1 x hx), zipWith_comm3]
  · rw [denT_comp2, denT_eq_den_leaf E u _ p (.inr (.inr (.inl rfl))), denT_eq_den_diagInv, eDpD x hx,
      den_diagInv E w u p h x hx, den_diagonal E u p h _ (hlen2 x hx), zipWith_comm3]
  · rw [eDDp x hx, eDDp y hy, dot_zipWith_mul, dot_zipWith_mul, zipWith_comm3]
  · rw [eDpD x hx, eDpD y hy, dot_zipWith_mul, dot_zipWith_mul, zipWith_comm3]

/-- when no value vanishes, `D⁺` is the inverse: `D⁺ D = id = D D⁺` (ADDED HYPOTHESIS, as in
`ListSem.diagonal_inverts`: the array of values is well formed) -/
theorem diagInv_inverse_closed (uc w u : Nat) (h : diagonalOK p) (hw : p.vals.wellFormed = true)
    (hnz : ∀ v ∈ p.vals.data, v ≠ 0) (x : V) (hx : x.length = p.inS.size) :
    den E (.comp uc [.wrap w .diagInv (.leaf u .diagonal p), .leaf u .diagonal p]) x = x ∧
    den E (.comp uc [.leaf u .diagonal p, .wrap w .diagInv (.leaf u .diagonal p)]) x = x := by
  obtain ⟨-, -, -, -, hl, hr⟩ := diagonal_inverts E w u p h hw hnz
  rw [den_comp2, den_comp2]
  exact ⟨hl x hx, hr x hx⟩

/-! ### 5. the broadcasting variant `BroadcastDiagonalOperator`

Its output structure differs from its input structure in general (dimensions are added on the left / right of a leaf,
dimensions of length `1` of a leaf are stretched).  Its validity CAN be stated like `diagonalOK`, with the non-strict
product and the declared output leaf; the closed form is then `apply_general`, leaf by leaf. -/

/-- `BroadcastDiagonalOperator(values, axis_destination=axes, in_structure=…)`: the same treedef, and on every leaf the
broadcasting product (`Diagonal.apply false`) is accepted and returns the shape of the declared output leaf -/
def broadcastDiagonalOK (p : Params) : Prop :=
  p.outS.td = p.inS.td ∧
  List.Forall₂ (fun li lo : LeafS => ∀ c : V, ∃ y,
      Diagonal.apply false (castT p.vals) (.seq (axesOf p)) (⟨li.shape, c⟩ : Tensor ℝ) = .ok y ∧ y.shape = lo.shape)
    p.inS.leaves p.outS.leaves

/-- **C11, broadcasting variant, closed.**  With `oi` the multi-index of the output position `q` in the declared
output leaf `k`: the entry is `values[oi along the destination axes, 0 where values has length 1]` times the entry
of leaf `k` of `x` at `oi` shifted by the number of dimensions added on the left, `0` where the leaf has length `1`;
the declared output shape is the explicit broadcast shape `outShape` -/
theorem broadcastDiagonal_entry_closed (u : Nat) (h : broadcastDiagonalOK p)
    (haxes : (axesOf p).length = p.vals.shape.length) (x : V) (hx : x.length = p.inS.size) (k : Nat)
    (hk : k < p.inS.leaves.length) (q : Nat) (hq : q < (p.outS.leaves.getD k default).size) :
    let li := p.inS.leaves.getD k default
    let lo := p.outS.leaves.getD k default
    let ax := Diagonal.normalizedAxes (axesOf p) li.shape.length
    let oi := unravel lo.shape q
    (den E (.leaf u .broadcastDiagonal p) x).getD (offset (p.outS.leaves.map LeafS.size) k + q) 0
      = ((p.vals.data.getD (ravelIdx p.vals.shape ((List.range p.vals.shape.length).map fun j =>
            if p.vals.shape.getD j 0 = 1 then 0 else oi.getD ((Diagonal.destAxes ax).getD j 0) 0)) 0 : Rat) : ℝ)
        * (leafChunk p.inS.leaves k x).getD (ravelIdx li.shape ((List.range li.shape.length).map fun j =>
            if li.shape.getD j 0 = 1 then 0 else oi.getD (Diagonal.leftDims ax + j) 0)) 0 ∧
    lo.shape = Diagonal.outShape p.vals.shape (Diagonal.destAxes ax)
      (Diagonal.padShape (Diagonal.leftDims ax) (Diagonal.rightDims ax li.shape.length) li.shape) ∧
    (den E (.leaf u .broadcastDiagonal p) x).length = p.outS.size := by
  intro li lo ax oi
  have hl : p.inS.leaves.length = p.outS.leaves.length := h.2.length_eq
  have hden : den E (.leaf u .broadcastDiagonal p) x
      = perLeaf (diagLeaf false p.vals (axesOf p)) p.inS.leaves p.outS.leaves x := by
    simp only [den, leafDen, squareLeaf, Bool.false_eq_true, if_false]
    rw [fit_eq_self hx]
    exact fit_eq_self (perLeaf_length _ _ _ _ hl)
  obtain ⟨y, hy, hys⟩ := forall₂_getD h.2 k hk (leafChunk p.inS.leaves k x)
  obtain ⟨-, -, hshape, hyl, hyd⟩ := apply_ok_closed false (castT p.vals) _ y (axesOf p) haxes hy
  have hq' : q < prodNat y.shape := by rw [hys]; exact hq
  refine ⟨?_, by rw [← hys]; exact hshape, (lenAt_leaf E u .broadcastDiagonal p).1 x⟩
  rw [← leafChunk_getD p.outS.leaves k _ q hq, hden, perLeaf_leafChunk _ _ _ hl x k (by omega)]
  unfold diagLeaf
  rw [hy]
  simp only [exData]
  rw [fit_eq_self (by rw [hyl, hys]; rfl)]
  have e := hyd q hq'
  rw [hys] at e
  rw [show y.data.getD q 0 = y.data.getD q default from rfl, e, ← castT_getD]
  rfl

end leaf

end Furax.C11

/-! ### 6. non-vacuity

`{'tod': (2, 3), 'ground': (2,)}` (leaves of DIFFERENT rank), gains `[5, 0]` along axis `0` — the example of the
Python docstring, smaller, with a vanishing gain. -/

namespace Furax.C11.ClosedExamples
open Furax ListSem Op

def sTG : Struct := ⟨[.node "dict:ground,tod" 2, .leaf, .leaf], [⟨[2], .f64⟩, ⟨[2, 3], .f64⟩]⟩
def gainP : Params := { inS := sTG, outS := sTG, vals := ⟨[2], [5, 0]⟩, ints := [[0]] }

theorem gainP_ok : diagonalOK gainP := by
  intro l hl c
  have hcases : l = ⟨[2], .f64⟩ ∨ l = ⟨[2, 3], .f64⟩ := by simpa [gainP, sTG] using hl
  have key : ∀ sh : List Nat, 0 < sh.length → sh.getD 0 0 = 2 → ∃ y,
      Diagonal.apply true (castT gainP.vals) (.seq [0]) (⟨sh, c⟩ : Tensor ℝ) = .ok y ∧ y.shape = sh := by
    intro sh h0 h2
    obtain ⟨y, hy, hys, -⟩ := Diagonal.apply_inrange_bcast true (castT gainP.vals) (⟨sh, c⟩ : Tensor ℝ) [0]
      (by simp [castT, Tensor.map, gainP]) (by simp [castT, Tensor.map, gainP]) (by simp)
      (by intro a ha; simp only [List.mem_singleton] at ha; subst ha; simpa using h0)
      (by intro k hk
          have : k = 0 := by simp [castT, Tensor.map, gainP] at hk; omega
          subst this; left; simpa [castT, Tensor.map, gainP] using h2.symm)
    exact ⟨y, hy, hys⟩
  rcases hcases with rfl | rfl
  · exact key [2] (by decide) rfl
  · exact key [2, 3] (by decide) rfl

theorem gainP_axes : (axesOf gainP).length = gainP.vals.shape.length := rfl

/-- the hypotheses of `diagonal_entry_closed` are met: entry `(1, 1)` (flat `4`) of the leaf `tod` (leaf `1`, offset
`2`) is multiplied by `values[1] = 0`, entry `0` of the leaf `ground` by `values[0] = 5` -/
example (E : Env) (x : V) (hx : x.length = 8) :
    (den E (.leaf 7 .diagonal gainP) x).getD (2 + 4) 0 = ((0 : Rat) : ℝ) * x.getD (2 + 4) 0 :=
  diagonal_entry_closed E 7 gainP_ok gainP_axes x hx 1 (by decide) 4 (by decide)

example (E : Env) (x : V) (hx : x.length = 8) :
    (den E (.leaf 7 .diagonal gainP) x).getD (0 + 0) 0 = ((5 : Rat) : ℝ) * x.getD (0 + 0) 0 :=
  diagonal_entry_closed E 7 gainP_ok gainP_axes x hx 0 (by decide) 0 (by decide)

example : valueAt gainP.vals (axesOf gainP) [2, 3] 4 = 0 ∧ valueAt gainP.vals (axesOf gainP) [2, 3] 2 = 5 ∧
    leafOffset gainP.inS 1 = 2 := by decide

/-- the pseudo-inverse multiplies by `1/5` and by `0` -/
example (E : Env) (x : V) (hx : x.length = 8) :
    (den E (.wrap 9 .diagInv (.leaf 7 .diagonal gainP)) x).getD (2 + 2) 0 = (((1 / 5 : Rat)) : ℝ) * x.getD (2 + 2) 0 :=
  diagInv_entry_closed E 9 7 gainP_ok gainP_axes x hx 1 (by decide) 2 (by decide)

example (E : Env) (x : V) (hx : x.length = 8) :
    den E (.comp 3 [.leaf 7 .diagonal gainP, .wrap 9 .diagInv (.leaf 7 .diagonal gainP), .leaf 7 .diagonal gainP]) x
      = den E (.leaf 7 .diagonal gainP) x :=
  (moore_penrose_closed E 3 9 7 gainP_ok x hx).1

/-- a rank-2 array of values with a dimension of length `1`, laid along the axes `(0, -1)` of a `(2, 3)` leaf:
`out[i, j] = values[0, j] * x[i, j]` -/
def rowP : Params :=
  { inS := ⟨[.leaf], [⟨[2, 3], .f64⟩]⟩, outS := ⟨[.leaf], [⟨[2, 3], .f64⟩]⟩, vals := ⟨[1, 3], [7, 8, 9]⟩, ints := [[0, -1]] }

theorem rowP_ok : diagonalOK rowP := by
  intro l hl c
  have hl' : l = ⟨[2, 3], .f64⟩ := by simpa [rowP] using hl
  subst hl'
  have e := Diagonal.apply_seq_normalized true (castT rowP.vals) (⟨[2, 3], c⟩ : Tensor ℝ) [0, -1]
    (by intro a ha; simp only [List.mem_cons, List.not_mem_nil, or_false] at ha; rcases ha with rfl | rfl <;> simp)
  obtain ⟨y, hy, hys, -⟩ := Diagonal.apply_inrange_bcast true (castT rowP.vals) (⟨[2, 3], c⟩ : Tensor ℝ) [0, 1]
    (by simp [castT, Tensor.map, rowP]) (by simp [castT, Tensor.map, rowP]) (by decide)
    (by intro a ha; simp only [List.mem_cons, List.not_mem_nil, or_false] at ha; rcases ha with rfl | rfl <;> simp)
    (by intro k hk
        have : k = 0 ∨ k = 1 := by simp [castT, Tensor.map, rowP] at hk; omega
        rcases this with rfl | rfl
        · right; rfl
        · left; rfl)
  exact ⟨y, e.trans hy, hys⟩

example (E : Env) (x : V) (hx : x.length = 6) :
    (den E (.leaf 7 .diagonal rowP) x).getD (0 + 5) 0 = ((9 : Rat) : ℝ) * x.getD (0 + 5) 0 :=
  diagonal_entry_closed E 7 rowP_ok rfl x hx 0 (by decide) 5 (by decide)

/-- the broadcasting variant, the first example of the Python docstring: `x` of shape `(3,)`, values of shape `(2, 3)`,
`axis_destination = -1` (normalised by the constructor to `(-2, -1)`): the output has shape `(2, 3)` and
`out[i, j] = values[i, j] * x[j]` -/
def bcP : Params :=
  { inS := ⟨[.leaf], [⟨[3], .f64⟩]⟩, outS := ⟨[.leaf], [⟨[2, 3], .f64⟩]⟩, vals := ⟨[2, 3], [1, 1, 1, 2, 1, 0]⟩,
    ints := [[-2, -1]] }

example : Diagonal.normalizeSpec 2 (.scalar (-1)) = [-2, -1] := by decide

theorem bcP_ok : broadcastDiagonalOK bcP := by
  refine ⟨rfl, .cons (fun c => ?_) .nil⟩
  obtain ⟨y, hy, hys, -⟩ := Diagonal.apply_general false (castT bcP.vals) (⟨[3], c⟩ : Tensor ℝ) (.seq [-2, -1])
    [-1, 0] (by rfl) (by simp [castT, Tensor.map, bcP]) (by rfl) (by decide)
    (by intro k hk
        have : k = 0 ∨ k = 1 := by simp [castT, Tensor.map, bcP] at hk; omega
        rcases this with rfl | rfl
        · exact Or.inr (Or.inr (by rfl))
        · exact Or.inl (by rfl))
  have hy' : Diagonal.apply false (castT bcP.vals) (.seq [-2, -1]) (⟨[3], c⟩ : Tensor ℝ) = .ok y := by
    simpa using hy
  refine ⟨y, hy', ?_⟩
  rw [hys]
  rfl

/-- `out[1, 0] = values[1, 0] * x[0] = 2 * x[0]` (flat position `3` of the only output leaf) -/
example (E : Env) (x : V) (hx : x.length = 3) :
    (den E (.leaf 7 .broadcastDiagonal bcP) x).getD (0 + 3) 0
      = ((2 : Rat) : ℝ) * (leafChunk bcP.inS.leaves 0 x).getD 0 0 :=
  (broadcastDiagonal_entry_closed E 7 bcP_ok rfl x hx 0 (by decide) 3 (by decide)).1

/-! #### the hypothesis `haxes` is needed

ONE destination axis for a 2-dimensional array of values: the constructor accepts it (`diagonalOK`; so does the Python
class, whose docstring asks for as many axes as dimensions but whose constructor does not check it — `jnp.moveaxis`
then moves the leading dimension of the values only), and the operator multiplies entry `(0, 1)` by `values[0, 1] = 2`,
not by the entry `values[0, 0] = 1` the formula of `diagonal_entry_closed` would read. -/

/-- ONE destination axis for a 2-dimensional array of values -/
def shortP : Params :=
  { inS := ⟨[.leaf], [⟨[2, 3], .f64⟩]⟩, outS := ⟨[.leaf], [⟨[2, 3], .f64⟩]⟩, vals := ⟨[2, 3], [1, 2, 3, 4, 5, 6]⟩,
    ints := [[0]] }

theorem shortP_ok : diagonalOK shortP := by
  exact (Valid.diagonal_iff shortP).mp (by decide)

theorem short_diagVec : diagVec shortP
    = [((1 : Rat) : ℝ), ((2 : Rat) : ℝ), ((3 : Rat) : ℝ), ((4 : Rat) : ℝ), ((5 : Rat) : ℝ), ((6 : Rat) : ℝ)] := by
  with_unfolding_all rfl

theorem haxes_needed (E : Env) :
    diagonalOK shortP ∧ (axesOf shortP).length ≠ shortP.vals.shape.length ∧
    (den E (.leaf 1 .diagonal shortP) [1, 1, 1, 1, 1, 1]).getD (leafOffset shortP.inS 0 + 1) 0
      ≠ ((valueAt shortP.vals (axesOf shortP) [2, 3] 1 : Rat) : ℝ)
          * ([1, 1, 1, 1, 1, 1] : V).getD (leafOffset shortP.inS 0 + 1) 0 := by
  refine ⟨shortP_ok, by decide, ?_⟩
  rw [den_diagonal E 1 shortP shortP_ok _ rfl, short_diagVec]
  have hv : valueAt shortP.vals (axesOf shortP) [2, 3] 1 = 1 := by decide
  rw [hv]
  show ((2 : Rat) : ℝ) * 1 ≠ ((1 : Rat) : ℝ) * 1
  norm_num

end Furax.C11.ClosedExamples

#print axioms Furax.C11.diagonal_leaf_facts
#print axioms Furax.C11.diagonal_entry_closed
#print axioms Furax.C11.diagonal_structure_closed
#print axioms Furax.C11.diagonal_one_vector
#print axioms Furax.C11.diagInv_closed
#print axioms Furax.C11.diagInv_entry_closed
#print axioms Furax.C11.diagInv_values
#print axioms Furax.C11.moore_penrose_closed
#print axioms Furax.C11.diagInv_inverse_closed
#print axioms Furax.C11.broadcastDiagonal_entry_closed
#print axioms Furax.C11.ClosedExamples.haxes_needed
