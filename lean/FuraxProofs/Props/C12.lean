/-
C12 — Indexing and packing select, and their transposes scatter-add.

`Index.gather`, `Index.scatterAdd`, `ruleCoverage`, `Index.uniqueFlag`, `Index.indexCtor`, `indexedAxes`,
`Index.indexPositions` are the functions the compiled driver executes.  The position map of an index
expression (`indexPositions`, NumPy's rules) is validated differentially; the theorems below hold for ANY
position list, hence for whatever positions an index expression selects.
-/
import FuraxProofs.Lemmas.GatherScatter
namespace Furax.C12
open Furax Index

/-- **the transpose accumulates the selected positions into a zero array**: scatter-add is the exact adjoint
of gather, `⟨P x, y⟩ = ⟨x, Pᵀ y⟩`, for every position list (repeated positions allowed) -/
theorem transpose_is_scatter_add {α : Type} [CommSemiring α] [Inhabited α] (n : Nat) (pos : List Nat)
    (y x : List α) (hpos : ∀ p ∈ pos, p < n) (hy : y.length = pos.length) (hx : x.length = n) :
    (((gather pos x).zip y).map fun p => p.1 * p.2).sum =
    (((scatterAdd n pos y).zip x).map fun p => p.1 * p.2).sum :=
  scatter_adjoint n pos y x hpos hy hx

/-- **`P @ P.T` is the identity when no input element is selected twice** … -/
theorem ppT_identity_of_nodup {α : Type} [AddMonoid α] [Inhabited α] (n : Nat) (pos : List Nat) (y : List α)
    (hnd : pos.Nodup) (hpos : ∀ p ∈ pos, p < n) (hy : y.length = pos.length) :
    gather pos (scatterAdd n pos y) = y := gather_scatter_id n pos y hnd hpos hy

/-- … and only then: with a repeated position it is not (kernel-checked witness) -/
theorem ppT_not_identity_with_duplicates :
    gather [0, 0] (scatterAdd 1 [0, 0] [(1 : Int), 2]) ≠ [1, 2] := gather_scatter_dup

/-- **`P.T @ P` is the diagonal of selection multiplicities** -/
theorem pTp_is_multiplicity_diagonal {α : Type} [CommSemiring α] [Inhabited α] (n : Nat) (pos : List Nat)
    (x : List α) (hpos : ∀ p ∈ pos, p < n) (hx : x.length = n) :
    scatterAdd n pos (gather pos x) = (List.range n).map fun p => (pos.count p : α) * x.getD p 0 :=
  scatter_gather_mult n pos x hpos hx

/-- **what `TransposeIndexRule` computes is that diagonal**: for every in-bounds integer index array — negative
and repeated entries allowed — `unique(size=n, fill_value=-1)` + scatter-add gives the multiplicities -/
theorem rule_computes_multiplicities (n : Nat) (index : List Int)
    (h : ∀ i ∈ index, -(n : Int) ≤ i ∧ i < n) : ruleCoverage n index = mult n index :=
  ruleCoverage_eq_mult n index h

/-- the code before the repair of finding F2 (no normalisation of negative aliases) did not: kernel-checked
counterexample, replayed on the implementation by the harness corpus -/
theorem unnormalised_rule_counterexample :
    ruleCoverageUnnormalised 3 [0, 1, 2, -1, -2, -3] ≠ mult 3 [0, 1, 2, -1, -2, -3] := unnormalised_rule_wrong

/-- the `unique_indices` flag is forced for index tuples without integer arrays (ints, slices, an ellipsis,
boolean masks never select an element twice), whatever the caller passed -/
theorem unique_flag_forced (idx : List IdxEntry) (given : Option Bool)
    (h : ∀ e ∈ idx, ∀ sh v, e ≠ .iarr sh v) : uniqueFlag idx given = true := by
  unfold uniqueFlag
  split
  · rfl
  · rename_i hn
    exfalso; apply hn
    rw [List.all_eq_true]
    intro e he
    cases e with
    | iarr sh v => exact absurd rfl (h _ he sh v)
    | _ => rfl

/-- with an integer array present the flag is what the caller says, `False` by default -/
theorem unique_flag_default (idx : List IdxEntry) (sh : List Nat) (v : List Int) (h : IdxEntry.iarr sh v ∈ idx) :
    uniqueFlag idx none = false ∧ uniqueFlag idx (some true) = true := by
  unfold uniqueFlag
  constructor <;>
  · split
    · rename_i hall
      exact absurd (List.all_eq_true.mp hall _ h) (by simp)
    · rfl

/-- construction: a second ellipsis, or a boolean mask without an explicit output structure, is refused;
everything else is accepted with or without an output structure -/
theorem ctor_accepts_without_output_structure (idx : List IdxEntry)
    (h1 : (idx.filter (· == .ellipsis)).length ≤ 1)
    (h2 : ∀ e ∈ idx, ∀ sh v, e ≠ .barr sh v) (hasOut : Bool) : indexCtor idx hasOut = .ok () := by
  unfold indexCtor
  split
  · omega
  · split
    · rename_i hc
      simp only [Bool.and_eq_true, List.any_eq_true] at hc
      obtain ⟨_, e, he, hm⟩ := hc
      cases e with
      | barr sh v => exact absurd rfl (h2 _ he sh v)
      | _ => simp at hm
    · rfl

end Furax.C12
