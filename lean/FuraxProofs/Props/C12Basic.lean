/-
C12 (continued) — basic indexing never selects an element twice.

`IndexOperator.__init__` (src/furax/_base/indices.py) forces `unique_indices = True` for an indices tuple made of
Python integers, slices, the ellipsis and boolean arrays, and `IndexTransposeRule` then rewrites `P @ P.T` to the
identity.  The theorems below prove, on the executable model (`Index.sliceIndices`, `Index.toSels`,
`Index.indexPositions`, `Index.uniqueFlag`), that this is sound for every tuple of integers, slices and one
ellipsis, on every shape: the flat positions selected are pairwise distinct and in bounds, so
`gather pos ∘ scatterAdd n pos = id`.  Section (c') extends this to boolean masks, hence to EVERY tuple for which
the constructor infers the flag (`inferred_flag_sound`).
-/
import FuraxProofs.Lemmas.BasicIndexNodup
import FuraxProofs.Lemmas.MaskIndexNodup
import FuraxProofs.Props.C12
import FuraxProofs.Sem.LeafLaws
namespace Furax.C12
open Furax Index

/-! ## (a) slices -/

/-- **a slice never selects a coordinate twice, and stays in bounds**: whatever the signs of start / stop / step and
whichever of them are `None`, `range(*slice(start, stop, step).indices(len))` is duplicate-free and in `[0, len)` -/
theorem slice_nodup_inbounds (start stop step : Option Int) (len : Nat) (l : List Nat)
    (h : sliceIndices start stop step len = .ok l) : l.Nodup ∧ ∀ x ∈ l, x < len :=
  sliceIndices_nodup start stop step len l h

example : sliceIndices (some 7) (some (-9)) (some (-3)) 5 = .ok [4, 1] := by decide

/-- more precisely it is strictly increasing for a positive step and strictly decreasing for a negative one -/
theorem slice_strictly_monotone (start stop step : Option Int) (len : Nat) (l : List Nat)
    (h : sliceIndices start stop step len = .ok l) :
    (0 < step.getD 1 ∧ l.Pairwise (· < ·)) ∨ (step.getD 1 < 0 ∧ l.Pairwise (· > ·)) :=
  (sliceIndices_sorted start stop step len l h).2

example : sliceIndices (some (-1)) none (some (-2)) 5 = .ok [4, 2, 0] := by decide

/-- `step = 0` is an error (`ValueError: slice step cannot be zero`) … -/
theorem slice_step_zero (start stop : Option Int) (len : Nat) :
    sliceIndices start stop (some 0) len = .error .valueError := by
  unfold sliceIndices
  simp

/-- … and the only one -/
theorem slice_error_iff (start stop step : Option Int) (len : Nat) (e : PyErr) :
    sliceIndices start stop step len = .error e ↔ step = some 0 ∧ e = .valueError := by
  constructor
  · intro h
    by_cases hne : step.getD 1 = 0
    · unfold sliceIndices at h
      simp only at h
      rw [if_pos hne] at h
      injection h with h
      refine ⟨?_, h.symm⟩
      cases step with
      | none => simp at hne
      | some s => simp at hne; rw [hne]
    · rw [sliceIndices_eq start stop step len hne] at h
      cases h
  · rintro ⟨rfl, rfl⟩
    exact slice_step_zero start stop len

/-- the list is exactly CPython's `range(*slice(start, stop, step).indices(len))` (`pySliceIndices` transcribes
`PySlice_Unpack` / `PySlice_AdjustIndices`): `x` is selected iff `x = a + k·step` for some `k ≥ 0`, before `b` in the
direction of the step.  In particular the recursion bound `len + 1` of the model's `pyRange` is never reached. -/
theorem slice_is_python_range (start stop step : Option Int) (len : Nat) (l : List Nat)
    (h : sliceIndices start stop step len = .ok l) (x : Nat) :
    x ∈ l ↔ ∃ k : Nat,
      (x : Int) = (pySliceIndices start stop step len).1 + k * (pySliceIndices start stop step len).2.2 ∧
      (if 0 < (pySliceIndices start stop step len).2.2 then (x : Int) < (pySliceIndices start stop step len).2.1
       else (pySliceIndices start stop step len).2.1 < (x : Int)) :=
  sliceIndices_mem start stop step len l h x

example : pySliceIndices (some 7) (some (-9)) (some (-3)) 5 = (4, -1, -3) := by decide

/-! ## (b) basic index expressions -/

/-- `prodNat` (the model's product of a shape) is `List.prod` -/
theorem prodNat_eq_prod (l : List Nat) : prodNat l = l.prod := by
  induction l with
  | nil => rfl
  | cons d ds ih => rw [Furax.Axes.ma_prodNat_cons, List.prod_cons, ih]

/-- **basic indexing never selects an element twice**: for every shape and every indices tuple made of integers,
slices and the ellipsis, if `x[indices]` is defined then the flat row-major positions it selects are pairwise
distinct, all `< prod shape`, and there are `prod outShape` of them -/
theorem basic_index_nodup (shape : List Nat) (idx : List IdxEntry) (outShape pos : List Nat)
    (hb : ∀ e ∈ idx, e.isBasic = true) (h : indexPositions shape idx = .ok (outShape, pos)) :
    pos.Nodup ∧ (∀ p ∈ pos, p < shape.prod) ∧ pos.length = outShape.prod := by
  rw [← prodNat_eq_prod, ← prodNat_eq_prod]
  exact indexPositions_basic shape idx outShape pos hb h

/-- non-vacuity: `x[::-2, ..., 3]` on shape `(4, 5, 6)` -/
example : (∀ e ∈ [IdxEntry.slice none none (some (-2)), .ellipsis, .int 3], e.isBasic = true) ∧
    indexPositions [4, 5, 6] [.slice none none (some (-2)), .ellipsis, .int 3]
      = .ok ([2, 5], [93, 99, 105, 111, 117, 33, 39, 45, 51, 57]) := by
  constructor
  · decide
  · decide +kernel

/-- `x[-1, 5:-4:-1]` on shape `(2, 3)`: negative integer, out-of-range start clamped, negative stop and step -/
example : indexPositions [2, 3] [.int (-1), .slice (some 5) (some (-4)) (some (-1))] = .ok ([3], [5, 4, 3]) := by
  decide +kernel

/-! ## (c) the rule `P @ P.T → I` -/

/-- **`IndexTransposeRule` is sound for basic indexing**: `gather pos ∘ scatterAdd (prod shape) pos` is the identity
on the vectors of the output size -/
theorem ppT_identity_basic {α : Type} [AddMonoid α] [Inhabited α] (shape : List Nat) (idx : List IdxEntry)
    (outShape pos : List Nat) (hb : ∀ e ∈ idx, e.isBasic = true)
    (h : indexPositions shape idx = .ok (outShape, pos)) (y : List α) (hy : y.length = outShape.prod) :
    gather pos (scatterAdd shape.prod pos y) = y := by
  obtain ⟨h1, h2, h3⟩ := basic_index_nodup shape idx outShape pos hb h
  exact ppT_identity_of_nodup shape.prod pos y h1 h2 (by rw [hy, h3])

example : gather [93, 99, 105, 111, 117, 33, 39, 45, 51, 57]
    (scatterAdd [4, 5, 6].prod [93, 99, 105, 111, 117, 33, 39, 45, 51, 57] [(1 : Int), 2, 3, 4, 5, 6, 7, 8, 9, 10])
    = [1, 2, 3, 4, 5, 6, 7, 8, 9, 10] :=
  ppT_identity_basic [4, 5, 6] [.slice none none (some (-2)), .ellipsis, .int 3] [2, 5] _ (by decide)
    (by decide +kernel) _ rfl

/-- **what `uniqueFlag` does**: the stored flag is `True` iff the tuple contains no integer array, or the caller
passed `unique_indices=True` -/
theorem unique_flag_iff (idx : List IdxEntry) (given : Option Bool) :
    uniqueFlag idx given = true ↔ (∀ e ∈ idx, ∀ sh v, e ≠ .iarr sh v) ∨ given = some true := by
  constructor
  · intro h
    by_cases hi : ∃ sh v, IdxEntry.iarr sh v ∈ idx
    · obtain ⟨sh, v, hm⟩ := hi
      right
      cases given with
      | none => rw [(unique_flag_default idx sh v hm).1] at h; cases h
      | some b =>
        cases b
        · unfold uniqueFlag at h
          split at h
          · rename_i hall
            exact absurd (List.all_eq_true.mp hall _ hm) (by simp)
          · simp at h
        · rfl
    · left
      intro e he sh v hev
      exact hi ⟨sh, v, hev ▸ he⟩
  · rintro (h | rfl)
    · exact unique_flag_forced idx given h
    · unfold uniqueFlag
      split <;> rfl

/-- **the inferred flag** (`unique_indices=None`): `True` exactly when every entry is an integer, a slice, the
ellipsis or a boolean mask, i.e. when there is no integer array -/
theorem unique_flag_inferred_iff (idx : List IdxEntry) :
    uniqueFlag idx none = true ↔ ∀ e ∈ idx, e.isBasic = true ∨ ∃ sh v, e = .barr sh v := by
  rw [unique_flag_iff]
  constructor
  · rintro (h | h)
    · intro e he
      cases e with
      | iarr sh v => exact absurd rfl (h _ he sh v)
      | barr sh v => exact Or.inr ⟨sh, v, rfl⟩
      | _ => exact Or.inl rfl
    · cases h
  · intro h
    left
    intro e he sh v hev
    subst hev
    rcases h _ he with h | ⟨sh', v', h⟩
    · simp [IdxEntry.isBasic] at h
    · cases h

/-- a basic tuple always gets `unique_indices = True`, whatever the caller passed -/
theorem unique_flag_of_basic (idx : List IdxEntry) (given : Option Bool) (hb : ∀ e ∈ idx, e.isBasic = true) :
    uniqueFlag idx given = true := by
  apply unique_flag_forced
  intro e he sh v hev
  subst hev
  have := hb _ he
  simp [IdxEntry.isBasic] at this

example : uniqueFlag [.slice none none (some (-2)), .ellipsis, .int 3] (some false) = true := by decide

/-- the two well-formedness hypotheses on the position list in `ListSem.indexLeafOK` (in bounds; distinct when the
flag is set) are theorems for a basic tuple -/
theorem indexLeafOK_of_basic (idx : List IdxEntry) (uniq : Prop) (li lo : LeafS) (pos : List Nat)
    (hb : ∀ e ∈ idx, e.isBasic = true) (h : indexPositions li.shape idx = .ok (lo.shape, pos))
    (hd : lo.dtype = li.dtype) : ListSem.indexLeafOK idx uniq li lo := by
  obtain ⟨h1, h2, _⟩ := indexPositions_basic li.shape idx lo.shape pos hb h
  exact ⟨pos, h, h2, fun _ => h1, hd⟩

/-- **`IndexTransposeRule` on the list denotation, for a basic tuple**: whenever every leaf of the input structure can
be indexed and the output structure is the structure of the results, `index ∘ indexᵀ` is the identity — with the flag
the constructor stores (`uniqueFlag`), and no assumption on the positions -/
theorem index_pair_basic (E : ListSem.Env) (u uo : Nat) (p : Params) (given : Option Bool)
    (hb : ∀ e ∈ p.idx, e.isBasic = true) (hflag : p.flag = uniqueFlag p.idx given)
    (htd : p.outS.td = p.inS.td)
    (hleaves : List.Forall₂ (fun li lo => (∃ pos, indexPositions li.shape p.idx = .ok (lo.shape, pos)) ∧
      lo.dtype = li.dtype) p.inS.leaves p.outS.leaves) :
    p.flag = true ∧ ∀ x : ListSem.V, x.length = p.outS.size →
      ListSem.den E (.leaf uo .index p) (ListSem.den E (.wrap u .transpose (.leaf uo .index p)) x) = x := by
  have hf : p.flag = true := by rw [hflag]; exact unique_flag_of_basic p.idx given hb
  refine ⟨hf, ListSem.index_pair E u uo p ⟨htd, hleaves.imp ?_⟩ hf⟩
  rintro li lo ⟨⟨pos, hp⟩, hd⟩
  exact indexLeafOK_of_basic p.idx _ li lo pos hb hp hd

/-- non-vacuity of the hypotheses of `index_pair_basic`: `IndexOperator((slice(None, None, -2), ..., 3))` on one
leaf of shape `(4, 5, 6)` -/
example :
    let p : Params := { inS := ⟨[Tok.leaf], [⟨[4, 5, 6], .f64⟩]⟩, outS := ⟨[Tok.leaf], [⟨[2, 5], .f64⟩]⟩,
                        idx := [.slice none none (some (-2)), .ellipsis, .int 3], flag := true }
    (∀ e ∈ p.idx, e.isBasic = true) ∧ p.flag = uniqueFlag p.idx none ∧ p.outS.td = p.inS.td ∧
      List.Forall₂ (fun li lo => (∃ pos, indexPositions li.shape p.idx = .ok (lo.shape, pos)) ∧
        lo.dtype = li.dtype) p.inS.leaves p.outS.leaves := by
  refine ⟨by decide, by decide, rfl, .cons ⟨⟨[93, 99, 105, 111, 117, 33, 39, 45, 51, 57], ?_⟩, rfl⟩ .nil⟩
  decide +kernel

/-! ## (c') boolean masks: every tuple for which the flag is inferred -/

/-- **indexing without integer arrays never selects an element twice** (integers, slices, the ellipsis and boolean
masks of any rank, any number of them) -/
theorem noiarr_index_nodup (shape : List Nat) (idx : List IdxEntry) (outShape pos : List Nat)
    (hb : ∀ e ∈ idx, e.isNoIarr = true) (h : indexPositions shape idx = .ok (outShape, pos)) :
    pos.Nodup ∧ (∀ p ∈ pos, p < shape.prod) ∧ pos.length = outShape.prod := by
  rw [← prodNat_eq_prod, ← prodNat_eq_prod]
  exact indexPositions_noIarr shape idx outShape pos hb h

/-- `x[1, ::-1, mask]` on shape `(2, 3, 2)`; two masks `x[m1, m2]` on shape `(2, 3)` (paired element-wise) -/
example : indexPositions [2, 3, 2] [.int 1, .slice none none (some (-1)), .barr [2] [true, true]]
    = .ok ([2, 3], [10, 8, 6, 11, 9, 7]) := by decide +kernel
example : indexPositions [2, 3] [.barr [2] [false, true], .barr [3] [true, false, true]] = .ok ([2], [3, 5]) := by
  decide +kernel

/-- the flag inferred by the constructor (`unique_indices=None`) is `True` exactly on the tuples without integer
array -/
theorem unique_flag_inferred_iff_noiarr (idx : List IdxEntry) :
    uniqueFlag idx none = true ↔ ∀ e ∈ idx, e.isNoIarr = true := by
  rw [unique_flag_iff]
  constructor
  · rintro (h | h)
    · intro e he
      cases e with
      | iarr sh v => exact absurd rfl (h _ he sh v)
      | _ => rfl
    · cases h
  · intro h
    left
    intro e he sh v hev
    subst hev
    have := h _ he
    simp [IdxEntry.isNoIarr] at this

/-- **the inferred flag is sound**: whenever `IndexOperator.__init__` infers `unique_indices = True` and `x[indices]`
is defined, no input element is selected twice and `P @ P.T` is the identity, so `IndexTransposeRule` may fire -/
theorem inferred_flag_sound {α : Type} [AddMonoid α] [Inhabited α] (shape : List Nat) (idx : List IdxEntry)
    (outShape pos : List Nat) (hflag : uniqueFlag idx none = true)
    (h : indexPositions shape idx = .ok (outShape, pos)) :
    pos.Nodup ∧ (∀ p ∈ pos, p < shape.prod) ∧ pos.length = outShape.prod ∧
      ∀ y : List α, y.length = outShape.prod → gather pos (scatterAdd shape.prod pos y) = y := by
  obtain ⟨h1, h2, h3⟩ := noiarr_index_nodup shape idx outShape pos
    ((unique_flag_inferred_iff_noiarr idx).mp hflag) h
  exact ⟨h1, h2, h3, fun y hy => ppT_identity_of_nodup shape.prod pos y h1 h2 (by rw [hy, h3])⟩

example : uniqueFlag [.barr [2] [false, true], .barr [3] [true, false, true]] none = true := by decide

/-- the well-formedness hypotheses of `ListSem.indexLeafOK` / `ListSem.packOK` on the position list are theorems
for every tuple without integer array (in particular for the mask of a `PackOperator`) -/
theorem indexLeafOK_of_noiarr (idx : List IdxEntry) (uniq : Prop) (li lo : LeafS) (pos : List Nat)
    (hb : ∀ e ∈ idx, e.isNoIarr = true) (h : indexPositions li.shape idx = .ok (lo.shape, pos))
    (hd : lo.dtype = li.dtype) : ListSem.indexLeafOK idx uniq li lo := by
  obtain ⟨h1, h2, _⟩ := indexPositions_noIarr li.shape idx lo.shape pos hb h
  exact ⟨pos, h, h2, fun _ => h1, hd⟩

/-- **`IndexTransposeRule` on the list denotation, for every tuple on which the flag is inferred** -/
theorem index_pair_inferred (E : ListSem.Env) (u uo : Nat) (p : Params)
    (hflag : p.flag = uniqueFlag p.idx none) (hinf : uniqueFlag p.idx none = true)
    (htd : p.outS.td = p.inS.td)
    (hleaves : List.Forall₂ (fun li lo => (∃ pos, indexPositions li.shape p.idx = .ok (lo.shape, pos)) ∧
      lo.dtype = li.dtype) p.inS.leaves p.outS.leaves) :
    ∀ x : ListSem.V, x.length = p.outS.size →
      ListSem.den E (.leaf uo .index p) (ListSem.den E (.wrap u .transpose (.leaf uo .index p)) x) = x := by
  have hf : p.flag = true := by rw [hflag]; exact hinf
  refine ListSem.index_pair E u uo p ⟨htd, hleaves.imp ?_⟩ hf
  rintro li lo ⟨⟨pos, hp⟩, hd⟩
  exact indexLeafOK_of_noiarr p.idx _ li lo pos ((unique_flag_inferred_iff_noiarr p.idx).mp hinf) hp hd

/-- non-vacuity of the hypotheses of `index_pair_inferred`: a mask on the last axis of a leaf of shape `(2, 3, 2)` -/
example :
    let p : Params := { inS := ⟨[Tok.leaf], [⟨[2, 3, 2], .f64⟩]⟩, outS := ⟨[Tok.leaf], [⟨[2, 3], .f64⟩]⟩,
                        idx := [.int 1, .slice none none (some (-1)), .barr [2] [true, true]], flag := true }
    p.flag = uniqueFlag p.idx none ∧ uniqueFlag p.idx none = true ∧ p.outS.td = p.inS.td ∧
      List.Forall₂ (fun li lo => (∃ pos, indexPositions li.shape p.idx = .ok (lo.shape, pos)) ∧
        lo.dtype = li.dtype) p.inS.leaves p.outS.leaves := by
  refine ⟨by decide, by decide, rfl, .cons ⟨⟨[10, 8, 6, 11, 9, 7], ?_⟩, rfl⟩ .nil⟩
  decide +kernel

/-! ## (d) integer arrays can select an element twice -/

/-- **with an integer array the flag must not be inferred**: `x[jnp.array([1, 1])]` on shape `(3,)` selects position 1
twice (also through a negative alias, `[1, -2]`), the constructor leaves the flag `False`, and `P @ P.T` is not the
identity -/
theorem iarr_duplicates :
    indexPositions [3] [.iarr [2] [1, 1]] = .ok ([2], [1, 1]) ∧
    indexPositions [3] [.iarr [2] [1, -2]] = .ok ([2], [1, 1]) ∧
    ¬ ([1, 1] : List Nat).Nodup ∧
    uniqueFlag [.iarr [2] [1, 1]] none = false ∧
    gather [1, 1] (scatterAdd 3 [1, 1] [(1 : Int), 2]) ≠ [1, 2] := by
  refine ⟨by decide +kernel, by decide +kernel, by decide, by decide, by decide⟩

/-- so `basic_index_nodup` does not extend to tuples with an integer array -/
theorem basic_index_nodup_needs_basic :
    ¬ ∀ (shape : List Nat) (idx : List IdxEntry) (outShape pos : List Nat),
      indexPositions shape idx = .ok (outShape, pos) → pos.Nodup := by
  intro h
  exact iarr_duplicates.2.2.1 (h [3] [.iarr [2] [1, 1]] [2] [1, 1] iarr_duplicates.1)

end Furax.C12
