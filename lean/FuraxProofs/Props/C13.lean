/-
C13 — Axis operators are exact relabellings of array elements.

In the model a ravel / reshape never touches the row-major data list (`Tensor.data` is returned unchanged by
construction: only the shape is recomputed), so "merely relabels" is about shapes and sizes for those two; for
move-axis the data is permuted by `transposeData` along the order computed by NumPy's algorithm.
-/
import FuraxProofs.Lemmas.AxesBasic
import FuraxProofs.Lemmas.MoveAxisPerm
namespace Furax.C13
open Furax Axes

/-- **move-axis**: the axis order NumPy's algorithm computes is a permutation of all axes — every rank, every
sign of the arguments, every number of moved axes -/
theorem moveaxis_is_permutation (ndim : Nat) (src dst : List Int) (order : List Nat)
    (h : moveaxisOrder ndim src dst = .ok order) : order.Perm (List.range ndim) :=
  moveaxisOrder_perm ndim src dst order h

/-- every moved axis lands at its destination (`out.shape[d_k] = in.shape[s_k]`) … -/
theorem moveaxis_destinations (ndim : Nat) (src dst : List Int) (s d order : List Nat)
    (hs : normAxisTuple ndim src = .ok s) (hd : normAxisTuple ndim dst = .ok d)
    (h : moveaxisOrder ndim src dst = .ok order) :
    ∀ k, k < s.length → order[d.getD k 0]? = some (s.getD k 0) :=
  moveaxisOrder_dest ndim src dst s d order hs hd h

/-- … and the other axes keep their relative order -/
theorem moveaxis_rest_in_order (ndim : Nat) (src dst : List Int) (s order : List Nat)
    (hs : normAxisTuple ndim src = .ok s) (h : moveaxisOrder ndim src dst = .ok order) :
    order.filter (fun n => !s.contains n) = (List.range ndim).filter (fun n => !s.contains n) :=
  moveaxisOrder_rest ndim src dst s order hs h

/-- **the transpose (source and destination swapped) is the inverse**: it always exists and restores shape
and data exactly — move-axis merely relabels elements -/
theorem moveaxis_transpose_is_inverse {α} [Inhabited α] (t t' : Tensor α) (src dst : List Int)
    (hwf : t.data.length = prodNat t.shape) (h : moveaxis t src dst = .ok t') :
    moveaxis t' dst src = .ok t := moveaxis_roundtrip t t' src dst hwf h

/-- arguments that cannot apply (an axis out of range, a repeated axis, tuples of different lengths) are
rejected: whatever is accepted consists of distinct in-range axes -/
theorem moveaxis_accepts_only_valid_axes (ndim : Nat) (axes : List Int) (l : List Nat)
    (h : normAxisTuple ndim axes = .ok l) : l.Nodup ∧ ∀ x ∈ l, x < ndim := normAxisTuple_spec h

/-- ravel preserves the number of elements of every leaf it accepts (all argument signs, all ranks) -/
theorem ravel_preserves_size (first last : Int) (shape out : List Nat)
    (h : ravelShape first last shape = .ok out) : prodNat out = prodNat shape := by
  unfold ravelShape at h
  simp only at h
  split at h
  · simp at h
  · split at h
    · simp only [Except.ok.injEq] at h; subst h; rfl
    · simp only [bind, Except.bind] at h
      split at h
      · simp at h
      · rename_i m hm
        simp only [pure, Except.pure, Except.ok.injEq] at h
        subst h
        have := inferDim_size _ _ _ hm
        rw [prodNat_append, prodNat_append, prodNat_singleton]
        rw [prodNat_append] at this
        rw [← this]
        simp only [Nat.mul_comm, Nat.mul_left_comm]

/-- a ravel whose two axes coincide leaves the shape alone (the only no-op besides one-axis merges) -/
theorem ravel_same_axis (a : Int) (shape : List Nat) : ravelShape a a shape = .ok shape := by
  simp [ravelShape]

/-- `first` after `last` with equal signs is refused at construction, whatever the leaves -/
theorem ravel_rejects_first_after_last (first last : Int) (ranks : List Nat)
    (h : (0 ≤ last ∧ last < first) ∨ (last < first ∧ first < 0)) :
    ravelCtor first last ranks = .error .valueError := by
  simp [ravelCtor, h]

/-- mixed signs: refused exactly when some leaf has its (normalised) first axis after its last one -/
theorem ravel_mixed_rejects_iff (first last : Int) (ranks : List Nat)
    (hm : (first < 0 ∧ 0 ≤ last) ∨ (last < 0 ∧ 0 ≤ first)) :
    ravelCtor first last ranks = .error .valueError ↔
      ∃ r ∈ ranks, normSigned r first > normSigned r last := by
  have h1 : ¬ ((0 ≤ last ∧ last < first) ∨ (last < first ∧ first < 0)) := by omega
  simp only [ravelCtor, h1, if_false, hm, if_true]
  constructor
  · intro h
    split at h
    · rename_i ha
      simpa using ha
    · cases h
  · intro ⟨r, hr, hgt⟩
    have : (ranks.any fun r => decide (normSigned r first > normSigned r last)) = true := by
      simp only [List.any_eq_true, decide_eq_true_eq]; exact ⟨r, hr, hgt⟩
    simp [this]

/-- a reshape accepted for a leaf has exactly the leaf's size: a target of a different size is rejected -/
theorem reshape_preserves_size (target : List Int) (leaf out : List Nat)
    (h : reshapeCheck target leaf = .ok out) :
    ∃ ns, normalizeShape target leaf = .ok ns ∧ ns.foldl (· * ·) 1 = (prodNat leaf : Int) ∧ out = ns.map Int.toNat := by
  unfold reshapeCheck at h
  simp only [bind, Except.bind] at h
  split at h
  · simp at h
  · rename_i ns hns
    split at h
    · simp at h
    · rename_i hp
      simp only [pure, Except.pure, Except.ok.injEq] at h
      exact ⟨ns, hns, by simpa using hp, h.symm⟩

/-- sizes below −1 and a second −1 are rejected -/
theorem reshape_rejects_bad_entries (target : List Int) (leaf : List Nat) (h : target.any (· < -1) = true) :
    reshapeCheck target leaf = .error .valueError := by
  simp [reshapeCheck, normalizeShape, h, bind, Except.bind]

/-- a target without −1 is taken literally -/
theorem reshape_literal (target : List Int) (leaf : List Nat) (h1 : target.any (· < -1) = false)
    (h2 : ¬ (-1 : Int) ∈ target) : normalizeShape target leaf = .ok target := by
  have : target.idxOf (-1) ≥ target.length := by rw [List.idxOf_eq_length h2]; exact Nat.le_refl _
  simp [normalizeShape, h1, this]

/-! concrete, kernel-evaluated instances (tests, labelled as such): NumPy's documented examples -/
example : moveaxisOrder 3 [0] [-1] = .ok [1, 2, 0] := by rfl
example : moveaxisOrder 3 [-1] [0] = .ok [2, 0, 1] := by rfl
example : moveaxisOrder 3 [0, 1] [-1, -2] = .ok [2, 1, 0] := by rfl
example : moveaxisOrder 3 [0, 0] [1, 2] = .error .valueError := by rfl
example : moveaxisOrder 2 [2] [0] = .error .valueError := by rfl
example : ravelShape (-2) (-1) [2, 3, 4] = .ok [2, 12] := by rfl
example : reshapeCheck [3, -1] [2, 6] = .ok [3, 4] := by rfl
example : reshapeCheck [5, -1] [2, 6] = .error .valueError := by rfl

end Furax.C13
