/-
C13 — Axis operators are exact relabellings of array elements.

In the model a ravel / reshape never touches the row-major data list (`Tensor.data` is returned unchanged by
construction: only the shape is recomputed), so "merely relabels" is about shapes and sizes for those two; for
move-axis the data is permuted by `transposeData` along the order computed by NumPy's algorithm.
-/
import FuraxProofs.Lemmas.AxesBasic
namespace Furax.C13
open Furax Axes

/-- ravel preserves the number of elements of every leaf it accepts (all argument signs, all ranks) -/
theorem ravel_preserves_size (first last : Int) (shape out : List Nat)
    (h : ravelShape first last shape = .ok out) : prodNat out = prodNat shape := by
  unfold ravelShape at h
  simp only at h
  split at h
  · simp at h
  · split at h
    · simp only [Except.ok.injEq] at h; subst h; rfl
    · simp only [bind, Except.bind] at h
      split at h
      · simp at h
      · rename_i m hm
        simp only [pure, Except.pure, Except.ok.injEq] at h
        subst h
        have := inferDim_size _ _ _ hm
        rw [prodNat_append, prodNat_append, prodNat_singleton]
        rw [prodNat_append] at this
        rw [← this]
        simp only [Nat.mul_comm, Nat.mul_left_comm]

/-- a ravel whose two axes coincide leaves the shape alone (the only no-op besides one-axis merges) -/
theorem ravel_same_axis (a : Int) (shape : List Nat) : ravelShape a a shape = .ok shape := by
  simp [ravelShape]

/-- `first` after `last` with equal signs is refused at construction, whatever the leaves -/
theorem ravel_rejects_first_after_last (first last : Int) (ranks : List Nat)
    (h : (0 ≤ last ∧ last < first) ∨ (last < first ∧ first < 0)) :
    ravelCtor first last ranks = .error .valueError := by
  simp [ravelCtor, h]

/-- mixed signs: refused exactly when some leaf has its (normalised) first axis after its last one -/
theorem ravel_mixed_rejects_iff (first last : Int) (ranks : List Nat)
    (hm : (first < 0 ∧ 0 ≤ last) ∨ (last < 0 ∧ 0 ≤ first)) :
    ravelCtor first last ranks = .error .valueError ↔
      ∃ r ∈ ranks, normSigned r first > normSigned r last := by
  have h1 : ¬ ((0 ≤ last ∧ last < first) ∨ (last < first ∧ first < 0)) := by omega
  simp only [ravelCtor, h1, if_false, hm, if_true]
  constructor
  · intro h
    split at h
    · rename_i ha
      simpa using ha
    · cases h
  · intro ⟨r, hr, hgt⟩
    have : (ranks.any fun r => decide (normSigned r first > normSigned r last)) = true := by
      simp only [List.any_eq_true, decide_eq_true_eq]; exact ⟨r, hr, hgt⟩
    simp [this]

/-- a reshape accepted for a leaf has exactly the leaf's size: a target of a different size is rejected -/
theorem reshape_preserves_size (target : List Int) (leaf out : List Nat)
    (h : reshapeCheck target leaf = .ok out) :
    ∃ ns, normalizeShape target leaf = .ok ns ∧ ns.foldl (· * ·) 1 = (prodNat leaf : Int) ∧ out = ns.map Int.toNat := by
  unfold reshapeCheck at h
  simp only [bind, Except.bind] at h
  split at h
  · simp at h
  · rename_i ns hns
    split at h
    · simp at h
    · rename_i hp
      simp only [pure, Except.pure, Except.ok.injEq] at h
      exact ⟨ns, hns, by simpa using hp, h.symm⟩

/-- sizes below −1 and a second −1 are rejected -/
theorem reshape_rejects_bad_entries (target : List Int) (leaf : List Nat) (h : target.any (· < -1) = true) :
    reshapeCheck target leaf = .error .valueError := by
  simp [reshapeCheck, normalizeShape, h, bind, Except.bind]

/-- a target without −1 is taken literally -/
theorem reshape_literal (target : List Int) (leaf : List Nat) (h1 : target.any (· < -1) = false)
    (h2 : ¬ (-1 : Int) ∈ target) : normalizeShape target leaf = .ok target := by
  have : target.idxOf (-1) ≥ target.length := by rw [List.idxOf_eq_length h2]; exact Nat.le_refl _
  simp [normalizeShape, h1, this]

/-! concrete, kernel-evaluated instances (tests, labelled as such): NumPy's documented examples -/
example : moveaxisOrder 3 [0] [-1] = .ok [1, 2, 0] := by rfl
example : moveaxisOrder 3 [-1] [0] = .ok [2, 0, 1] := by rfl
example : moveaxisOrder 3 [0, 1] [-1, -2] = .ok [2, 1, 0] := by rfl
example : moveaxisOrder 3 [0, 0] [1, 2] = .error .valueError := by rfl
example : moveaxisOrder 2 [2] [0] = .error .valueError := by rfl
example : ravelShape (-2) (-1) [2, 3, 4] = .ok [2, 12] := by rfl
example : reshapeCheck [3, -1] [2, 6] = .ok [3, 4] := by rfl
example : reshapeCheck [5, -1] [2, 6] = .error .valueError := by rfl

end Furax.C13
