/-
C13 — Axis operators are exact relabellings of array elements: the closed statements, in the ONE list denotation
`den E o : List ℝ → List ℝ` (FuraxProofs/Sem/ListSem.lean).

A flat vector is the leaves of the pytree concatenated, each leaf row-major; `leafChunk ls k x` is leaf `k` of `x` on
the leaves `ls`, and entry `q` of leaf `k` sits at `offset sizes k + q`.

* §1  `den` of a `MoveAxisOperator` leaf is, on every leaf, `(Axes.moveaxis leaf source destination).data` — the entry
      at output multi-index `j` is the input entry at the multi-index `i` with `i[order[m]] = j[m]`, `order` the axis
      order `numpy.moveaxis` computes (FuraxProofs/Lemmas/MoveAxisPerm.lean); the output has the declared structure;
* §2  `den` of a `RavelOperator` / `ReshapeOperator` leaf is the identity on the flat data, leaf by leaf, and the
      declared output leaves have the sizes of the input leaves (also derived from the shape kernels);
* §3  for each of the three, `denT` — equivalently `den` of the form `transposeOp` builds — is the inverse map on
      both sides;
* §4  `reduce` sends a ravel / reshape leaf to the identity exactly when its declared output structure IS its input
      structure (for a valid leaf: exactly when every leaf's shape is unchanged), and NEVER a move-axis leaf — a
      move-axis on a square leaf has an unchanged STRUCTURE but is not the identity map (witness).
-/
import FuraxProofs.Props.C13
import FuraxProofs.Sem.AxesClosed
import FuraxProofs.Sem.TagsList
import Mathlib.Algebra.Order.BigOperators.Ring.List
import Mathlib.Algebra.BigOperators.Group.List.Basic
namespace Furax.C13
open Furax ListSem Op Axes

/-- `source` and `destination` of a move-axis leaf -/
abbrev srcOf (p : Params) : List Int := p.ints.getD 0 []
abbrev dstOf (p : Params) : List Int := p.ints.getD 1 []

theorem moveaxis_of_order {α : Type} [Inhabited α] (sh : List Nat) (c : List α) (src dst : List Int)
    (order : List Nat) (ho : moveaxisOrder sh.length src dst = .ok order) :
    moveaxis (⟨sh, c⟩ : Tensor α) src dst = .ok ⟨transposeShape sh order, transposeData sh order c⟩ := by
  unfold moveaxis
  simp only [ho, bind, Except.bind, pure, Except.pure]

theorem transposeData_length {α : Type} [Inhabited α] (sh order : List Nat) (c : List α) :
    (transposeData sh order c).length = prodNat (transposeShape sh order) := by
  simp [transposeData]

theorem forall₂_and {α β : Type} {R S : α → β → Prop} {a : List α} {b : List β}
    (h1 : List.Forall₂ R a b) (h2 : List.Forall₂ S a b) : List.Forall₂ (fun x y => R x y ∧ S x y) a b := by
  induction h1 with
  | nil => exact .nil
  | cons hr _ ih =>
    cases h2 with
    | cons hs hrest => exact .cons ⟨hr, hs⟩ (ih hrest)

section moveaxis
variable (E : Env) {p : Params}

/-- the unfolded denotation of a move-axis leaf on a vector of the input size -/
theorem den_moveAxis (u : Nat) (h : moveAxisOK p) (x : V) (hx : x.length = p.inS.size) :
    den E (.leaf u .moveAxis p) x = perLeaf (moveLeaf (srcOf p) (dstOf p)) p.inS.leaves p.outS.leaves x := by
  have hl : p.inS.leaves.length = p.outS.leaves.length := h.2.length_eq
  simp only [den, leafDen, squareLeaf, Bool.false_eq_true, if_false]
  rw [fit_eq_self hx]
  exact fit_eq_self (perLeaf_length _ _ _ _ hl)

/-! ### 1. move-axis -/

/-- **C13, move-axis, closed (leaf by leaf).**  Leaf `k` of `MoveAxisOperator.mv(x)` is
`jnp.moveaxis(leaf k of x, source, destination)`: `Axes.moveaxis` accepts the leaf, returns a tensor of the declared
output shape — the input shape transposed by the axis order `numpy.moveaxis` computes — and its data is leaf `k` of
the result -/
theorem moveaxis_leaf_closed (u : Nat) (h : moveAxisOK p) (x : V) (hx : x.length = p.inS.size) (k : Nat)
    (hk : k < p.inS.leaves.length) :
    ∃ order t,
      moveaxisOrder (p.inS.leaves.getD k default).shape.length (srcOf p) (dstOf p) = .ok order ∧
      moveaxis (⟨(p.inS.leaves.getD k default).shape, leafChunk p.inS.leaves k x⟩ : Tensor ℝ) (srcOf p) (dstOf p)
        = .ok t ∧
      t.shape = (p.outS.leaves.getD k default).shape ∧
      (p.outS.leaves.getD k default).shape = transposeShape (p.inS.leaves.getD k default).shape order ∧
      leafChunk p.outS.leaves k (den E (.leaf u .moveAxis p) x) = t.data := by
  have hl : p.inS.leaves.length = p.outS.leaves.length := h.2.length_eq
  obtain ⟨order, ho, hs, -⟩ := forall₂_getD h.2 k hk
  have h1 := moveaxis_of_order (p.inS.leaves.getD k default).shape (leafChunk p.inS.leaves k x) (srcOf p) (dstOf p)
    order ho
  refine ⟨order, _, ho, h1, hs.symm, hs, ?_⟩
  rw [den_moveAxis E u h x hx, perLeaf_leafChunk _ _ _ hl x k (by omega)]
  unfold moveLeaf
  rw [h1]
  simp only [exData]
  exact fit_eq_self (by rw [transposeData_length, LeafS.size, hs])

/-- **C13, move-axis, closed (entry by entry).**  With `order` the axis order of leaf `k`, the entry of leaf `k` of the
result at the output multi-index `j` is the entry of leaf `k` of the input at the multi-index
`i = transposeIdx … order j`, which is a valid multi-index of the input leaf and satisfies `i[order[m]] = j[m]`:
the operator permutes the entries of every leaf by the axis permutation, nothing else -/
theorem moveaxis_entry_closed (u : Nat) (h : moveAxisOK p) (x : V) (hx : x.length = p.inS.size) (k : Nat)
    (hk : k < p.inS.leaves.length) (order : List Nat)
    (ho : moveaxisOrder (p.inS.leaves.getD k default).shape.length (srcOf p) (dstOf p) = .ok order)
    (j : List Nat) (hj : List.Forall₂ (· < ·) j (p.outS.leaves.getD k default).shape) :
    let li := p.inS.leaves.getD k default
    let lo := p.outS.leaves.getD k default
    let i := transposeIdx li.shape.length order j
    (den E (.leaf u .moveAxis p) x).getD (offset (p.outS.leaves.map LeafS.size) k + ravelIdx lo.shape j) 0
      = x.getD (offset (p.inS.leaves.map LeafS.size) k + ravelIdx li.shape i) 0 ∧
    List.Forall₂ (· < ·) i li.shape ∧ (∀ m, m < li.shape.length → i.getD (order.getD m 0) 0 = j.getD m 0) ∧
    order.Perm (List.range li.shape.length) := by
  intro li lo i
  obtain ⟨order', t, ho', ht, -, hs, hchunk⟩ := moveaxis_leaf_closed E u h x hx k hk
  obtain rfl : order' = order := Except.ok.inj (ho'.symm.trans ho)
  have hperm := moveaxisOrder_perm _ _ _ _ ho
  have hj' : List.Forall₂ (· < ·) j (transposeShape li.shape order') := by rw [← hs]; exact hj
  obtain ⟨hv, hinv⟩ := transposeIdx_valid li.shape order' j hperm hj'
  refine ⟨?_, hv, hinv, hperm⟩
  have hq := (ma_ravel_valid lo.shape j hj).1
  have hqi := (ma_ravel_valid li.shape i hv).1
  have ht' : t.data = transposeData li.shape order' (leafChunk p.inS.leaves k x) := by
    have := moveaxis_of_order li.shape (leafChunk p.inS.leaves k x) (srcOf p) (dstOf p) order' ho
    rw [this] at ht
    rw [← Except.ok.inj ht]
  rw [← leafChunk_getD p.outS.leaves k _ _ hq, hchunk, ht']
  show (transposeData li.shape order' _).getD (ravelIdx lo.shape j) default = _
  rw [hs, ma_transposeData_getD li.shape order' _ j hj']
  exact leafChunk_getD p.inS.leaves k x _ hqi

/-- **the output has the declared structure**: the same treedef, leaf `k` of shape `transpose(shape of leaf k)`, the
same number of elements leaf by leaf, and the result has one entry per element of it -/
theorem moveaxis_structure_closed (u : Nat) (h : moveAxisOK p) (x : V) :
    Op.outS (.leaf u .moveAxis p) = p.outS ∧ p.outS.td = p.inS.td ∧
    (den E (.leaf u .moveAxis p) x).length = p.outS.size ∧ p.outS.size = p.inS.size ∧
    ∀ k, k < p.inS.leaves.length → (p.outS.leaves.getD k default).size = (p.inS.leaves.getD k default).size := by
  have hsz : ∀ li lo : LeafS, (∃ order, moveaxisOrder li.shape.length (srcOf p) (dstOf p) = .ok order ∧
      lo.shape = transposeShape li.shape order ∧ lo.dtype = li.dtype) → lo.size = li.size := by
    rintro li lo ⟨order, ho, hs, -⟩
    have hperm := moveaxisOrder_perm _ _ _ _ ho
    unfold LeafS.size
    rw [hs]
    -- the product of the permuted dimensions
    have : ∀ l l' : List Nat, l.Perm l' → prodNat l = prodNat l' := by
      intro l l' hp
      induction hp with
      | nil => rfl
      | cons a _ ih => rw [prodNat_cons, prodNat_cons, ih]
      | swap a b l => rw [prodNat_cons, prodNat_cons, prodNat_cons, prodNat_cons, Nat.mul_left_comm]
      | trans _ _ ih1 ih2 => exact ih1.trans ih2
    unfold transposeShape
    rw [this _ _ (hperm.map _), ma_map_getD_range]
  refine ⟨rfl, h.1, (lenAt_leaf E u .moveAxis p).1 x, sum_size_of_forall₂ _ _ _ h.2 hsz, fun k hk => ?_⟩
  exact hsz _ _ (forall₂_getD h.2 k hk)

end moveaxis

/-! ### 2. ravel / reshape -/

section reshape
variable (E : Env) {p : Params} {c : LeafCls}

/-- **C13, ravel / reshape, closed.**  `RavelOperator.mv` / `ReshapeOperator.mv` do not touch the flat row-major data:
`den` is the identity on the vectors of the input size, the declared output leaves have the sizes (hence the
positions) of the input leaves, and leaf `k` of the result is leaf `k` of the input, relabelled -/
theorem reshape_closed (u : Nat) (hc : c = .ravel ∨ c = .reshape) (h : reshapeOK p) (x : V)
    (hx : x.length = p.inS.size) :
    den E (.leaf u c p) x = x ∧ Op.outS (.leaf u c p) = p.outS ∧ p.outS.td = p.inS.td ∧
    p.outS.size = p.inS.size ∧
    ∀ k, k < p.inS.leaves.length →
      (p.outS.leaves.getD k default).size = (p.inS.leaves.getD k default).size ∧
      offset (p.outS.leaves.map LeafS.size) k = offset (p.inS.leaves.map LeafS.size) k ∧
      leafChunk p.outS.leaves k (den E (.leaf u c p) x) = leafChunk p.inS.leaves k x := by
  have hs := reshapeOK_size h
  have hden : den E (.leaf u c p) x = x := by
    rcases hc with rfl | rfl <;>
      simp only [den, leafDen, squareLeaf, Bool.false_eq_true, if_false, hs, fit_eq_self hx]
  refine ⟨hden, by rcases hc with rfl | rfl <;> rfl, h.1, hs, fun k hk => ?_⟩
  have hk1 : (p.outS.leaves.getD k default).size = (p.inS.leaves.getD k default).size := forall₂_getD h.2 k hk
  have hk2 := offset_eq_of_forall₂ _ _ _ h.2 (fun _ _ e => e) k
  refine ⟨hk1, hk2, ?_⟩
  rw [hden]
  unfold leafChunk
  rw [hk1, hk2]

/-- the validity of a ravel leaf follows from the shape kernel: if every declared output leaf has the shape
`Axes.ravelShape` computes (and the treedef is kept), the leaf sizes agree -/
theorem reshapeOK_of_ravelShape (first last : Int) (htd : p.outS.td = p.inS.td)
    (h : List.Forall₂ (fun li lo : LeafS => ravelShape first last li.shape = .ok lo.shape) p.inS.leaves p.outS.leaves) :
    reshapeOK p :=
  ⟨htd, h.imp fun _ _ hr => ravel_preserves_size first last _ _ hr⟩

theorem prodNat_toNat (ns : List Int) (h : ∀ a ∈ ns, 0 ≤ a) :
    ((prodNat (ns.map Int.toNat) : Nat) : Int) = ns.foldl (· * ·) 1 := by
  have key : ∀ (l : List Int) (a : Nat) (b : Int), (a : Int) = b → (∀ v ∈ l, 0 ≤ v) →
      (((l.map Int.toNat).foldl (· * ·) a : Nat) : Int) = l.foldl (· * ·) b := by
    intro l
    induction l with
    | nil => intro a b hab _; simpa using hab
    | cons v l ih =>
      intro a b hab hl
      simp only [List.map_cons, List.foldl_cons]
      refine ih _ _ ?_ (fun w hw => hl w (List.mem_cons_of_mem _ hw))
      have := hl v List.mem_cons_self
      rw [Nat.cast_mul, hab, Int.toNat_of_nonneg this]
  exact key ns 1 1 rfl h

theorem not_mem_take_idxOf (a : Int) (l : List Int) : a ∉ l.take (l.idxOf a) := by
  induction l with
  | nil => simp
  | cons b l ih =>
    by_cases hb : b = a
    · subst hb; simp
    · rw [List.idxOf_cons_ne _ hb, List.take_succ_cons, List.mem_cons]
      rintro (e | e)
      · exact hb e.symm
      · exact ih e

theorem normalizeShape_nonneg (target : List Int) (leaf : List Nat) (ns : List Int)
    (h : normalizeShape target leaf = .ok ns) : ∀ a ∈ ns, 0 ≤ a := by
  unfold normalizeShape at h
  by_cases h1 : target.any (· < -1) = true
  · rw [if_pos h1] at h; cases h
  · rw [if_neg h1] at h
    have hge : ∀ a ∈ target, -1 ≤ a := by
      intro a ha
      by_contra hlt
      exact h1 (List.any_eq_true.mpr ⟨a, ha, by simpa using hlt⟩)
    simp only at h
    by_cases h2 : target.idxOf (-1) ≥ target.length
    · rw [if_pos h2] at h
      cases h
      intro a ha
      have hne : a ≠ -1 := by
        rintro rfl
        have := List.idxOf_lt_length_iff.mpr ha
        omega
      have := hge a ha
      omega
    · rw [if_neg h2] at h
      have hidx : target.idxOf (-1) < target.length := by omega
      by_cases h3 : (target.drop (target.idxOf (-1) + 1)).contains (-1) = true
      · rw [if_pos h3] at h; cases h
      · rw [if_neg h3] at h
        by_cases h4 : target.foldl (· * ·) 1 = 0
        · rw [if_pos h4] at h; cases h
        · rw [if_neg h4] at h
          split at h
          · cases h
          · cases h
            have hb : ∀ a ∈ target.take (target.idxOf (-1)), 0 ≤ a := by
              intro a ha
              have hne : a ≠ -1 := by
                rintro rfl
                exact not_mem_take_idxOf _ _ ha
              have := hge a (List.mem_of_mem_take ha)
              omega
            have ha' : ∀ a ∈ target.drop (target.idxOf (-1) + 1), 0 ≤ a := by
              intro a ha
              have hne : a ≠ -1 := by
                rintro rfl
                exact h3 (by simpa using ha)
              have := hge a (List.mem_of_mem_drop ha)
              omega
            have hsplit : target = target.take (target.idxOf (-1)) ++ (-1) :: target.drop (target.idxOf (-1) + 1) := by
              conv => lhs; rw [← List.take_append_drop (target.idxOf (-1)) target]
              congr 1
              rw [List.drop_eq_getElem_cons hidx, List.getElem_idxOf hidx]
            have hp : target.foldl (· * ·) 1
                = -((target.take (target.idxOf (-1))).prod * (target.drop (target.idxOf (-1) + 1)).prod) := by
              rw [← List.prod_eq_foldl]
              conv => lhs; rw [hsplit]
              rw [List.prod_append, List.prod_cons]
              ring
            have hb0 := List.prod_nonneg hb
            have ha0 := List.prod_nonneg ha'
            have hpos : 0 < (target.take (target.idxOf (-1))).prod * (target.drop (target.idxOf (-1) + 1)).prod := by
              rcases (mul_nonneg hb0 ha0).lt_or_eq with hlt | heq
              · exact hlt
              · exfalso; apply h4; rw [hp, ← heq]; rfl
            intro a ha
            simp only [List.mem_append, List.mem_singleton] at ha
            rcases ha with (ha | rfl) | ha
            · exact hb a ha
            · apply Int.ediv_nonneg_of_nonpos_of_nonpos
              · have : (0 : Int) ≤ (prodNat leaf : Int) := Int.natCast_nonneg _
                omega
              · rw [hp]; omega
            · exact ha' a ha

/-- an accepted reshape keeps the number of elements of the leaf: `Axes.reshapeCheck` returns a shape of the leaf's size -/
theorem reshapeCheck_size (target : List Int) (leaf out : List Nat) (h : reshapeCheck target leaf = .ok out) :
    prodNat out = prodNat leaf := by
  obtain ⟨ns, hns, hp, rfl⟩ := reshape_preserves_size target leaf out h
  have := prodNat_toNat ns (normalizeShape_nonneg target leaf ns hns)
  rw [hp] at this
  exact_mod_cast this

/-- the validity of a reshape leaf follows from the shape kernel -/
theorem reshapeOK_of_reshapeCheck {p : Params} (target : List Int) (htd : p.outS.td = p.inS.td)
    (h : List.Forall₂ (fun li lo : LeafS => reshapeCheck target li.shape = .ok lo.shape) p.inS.leaves p.outS.leaves) :
    reshapeOK p :=
  ⟨htd, h.imp fun _ _ hr => reshapeCheck_size target _ _ hr⟩

end reshape

/-! ### 3. the transposes are the inverses, on both sides -/

section transposes
variable (E : Env) {p : Params} {c : LeafCls}

/-- **move-axis**: `op.T` is the move-axis leaf with source and destination (and the structures) swapped, `denT` is
its `den`, it is valid, and it undoes the operator on both sides -/
theorem moveaxis_transpose_closed (u : Nat) (h : moveAxisOK p) :
    transposeOp (.leaf u .moveAxis p) = .ok (.leaf 0 .moveAxis (swapMoveAxis p)) ∧
    inverseOp (.leaf u .moveAxis p) = .ok (.leaf 0 .moveAxis (swapMoveAxis p)) ∧
    denT E (.leaf u .moveAxis p) = den E (.leaf 0 .moveAxis (swapMoveAxis p)) ∧
    moveAxisOK (swapMoveAxis p) ∧
    (∀ x : V, x.length = p.inS.size → denT E (.leaf u .moveAxis p) (den E (.leaf u .moveAxis p) x) = x) ∧
    (∀ y : V, y.length = p.outS.size → den E (.leaf u .moveAxis p) (denT E (.leaf u .moveAxis p) y) = y) := by
  obtain ⟨hi, hinv⟩ := moveAxis_inverts E u p h
  refine ⟨by simp [transposeOp, isSymmetricLeaf, swapMoveAxis], hi, denT_moveAxis E u p, moveAxisOK_swap p h,
    fun x hx => ?_, fun y hy => ?_⟩
  · rw [denT_moveAxis]; exact hinv.left x hx
  · rw [denT_moveAxis]; exact hinv.right y hy

/-- **ravel / reshape**: `op.T` is `ReshapeTransposeOperator(op)`, whose `den` is `denT` of the leaf, the identity on
the flat data; it undoes the operator on both sides -/
theorem reshape_transpose_closed (uw u : Nat) (hc : c = .ravel ∨ c = .reshape) (h : reshapeOK p) :
    transposeOp (.leaf u c p) = .ok (.wrap 0 .reshapeT (.leaf u c p)) ∧
    den E (.wrap uw .reshapeT (.leaf u c p)) = denT E (.leaf u c p) ∧
    (∀ y : V, y.length = p.outS.size → denT E (.leaf u c p) y = y) ∧
    (∀ x : V, x.length = p.inS.size → denT E (.leaf u c p) (den E (.leaf u c p) x) = x) ∧
    (∀ y : V, y.length = p.outS.size → den E (.leaf u c p) (denT E (.leaf u c p) y) = y) := by
  have hs := reshapeOK_size h
  have e : den E (.wrap uw .reshapeT (.leaf u c p)) = denT E (.leaf u c p) := by
    funext y; simp only [den]
  obtain ⟨h1, h2⟩ := reshape_pair E uw u c p hc h
  refine ⟨by rcases hc with rfl | rfl <;> simp [transposeOp, isSymmetricLeaf], e, fun y hy => ?_,
    fun x hx => by rw [← e]; exact h1 x hx, fun y hy => by rw [← e]; exact h2 y hy⟩
  rw [hs] at hy
  rcases hc with rfl | rfl <;>
    simp only [denT, leafDenT, squareLeaf, Bool.false_eq_true, if_false, hs, fit_eq_self hy]

end transposes

/-! ### 4. `reduce` -/

section reduce

/-- **what `reduce()` does to a ravel / reshape leaf** (`AbstractRavelOrReshapeOperator.reduce`): the identity of the
input structure when `out_structure() == in_structure()`, the leaf itself otherwise -/
theorem reduce_reshape_closed (fuel u : Nat) (c : LeafCls) (p : Params) (hc : c = .ravel ∨ c = .reshape) :
    reduce (fuel + 1) (.leaf u c p) = .ok (if p.outS = p.inS then mkIdentity p.inS else .leaf u c p) := by
  rcases hc with rfl | rfl <;> by_cases h : p.outS = p.inS <;> simp [reduce, h]

/-- … hence the identity EXACTLY when the declared output structure is the input structure -/
theorem reduce_reshape_identity_iff (fuel u : Nat) (c : LeafCls) (p : Params) (hc : c = .ravel ∨ c = .reshape) :
    reduce (fuel + 1) (.leaf u c p) = .ok (mkIdentity p.inS) ↔ p.outS = p.inS := by
  rw [reduce_reshape_closed fuel u c p hc]
  constructor
  · intro h
    by_contra hne
    rw [if_neg hne] at h
    rcases hc with rfl | rfl <;> simp [mkIdentity] at h
  · intro h; rw [if_pos h]

/-- for a valid leaf whose `reshape` keeps the dtypes (it does), the structures are equal exactly when EVERY leaf's
shape is unchanged -/
theorem struct_eq_iff_shapes (p : Params) (h : reshapeOK p)
    (hd : List.Forall₂ (fun li lo : LeafS => lo.dtype = li.dtype) p.inS.leaves p.outS.leaves) :
    p.outS = p.inS ↔ List.Forall₂ (fun li lo : LeafS => lo.shape = li.shape) p.inS.leaves p.outS.leaves := by
  constructor
  · intro e
    rw [e]
    exact List.forall₂_same.mpr fun _ _ => rfl
  · intro hsh
    have hleaves : p.outS.leaves = p.inS.leaves := by
      refine forall₂_eq_of _ _ _ (forall₂_and hsh hd) ?_
      rintro ⟨s1, d1⟩ ⟨s2, d2⟩ ⟨e1, e2⟩
      simp only at e1 e2
      rw [e1, e2]
    cases hA : p.outS; cases hB : p.inS
    have htd := h.1
    rw [hA, hB] at htd hleaves
    simp only at htd hleaves
    rw [htd, hleaves]

/-- **`reduce()` never touches a move-axis leaf** (`MoveAxisOperator` has no `reduce` override), whatever its
structures — in particular when they are equal -/
theorem reduce_moveaxis_closed (fuel u : Nat) (p : Params) :
    reduce (fuel + 1) (.leaf u .moveAxis p) = .ok (.leaf u .moveAxis p) ∧
    reduceTop (.leaf u .moveAxis p) = .ok (.leaf u .moveAxis p) ∧
    reduce (fuel + 1) (.leaf u .moveAxis p) ≠ .ok (mkIdentity p.inS) := by
  refine ⟨rfl, rfl, ?_⟩
  show Except.ok (Op.leaf u .moveAxis p) ≠ .ok (mkIdentity p.inS)
  simp [mkIdentity]

end reduce

end Furax.C13

/-! ### 5. non-vacuity, and the witness -/

namespace Furax.C13.ClosedExamples
open Furax ListSem Op Axes

/-- a pair of leaves of DIFFERENT rank, `(2, 3)` and `(2, 3, 4)`: `moveaxis(·, 0, -1)` -/
def mvP : Params :=
  { inS := ⟨[.node "tuple" 2, .leaf, .leaf], [⟨[2, 3], .f64⟩, ⟨[2, 3, 4], .f64⟩]⟩,
    outS := ⟨[.node "tuple" 2, .leaf, .leaf], [⟨[3, 2], .f64⟩, ⟨[3, 4, 2], .f64⟩]⟩,
    ints := [[0], [-1]] }

theorem mvP_ok : moveAxisOK mvP :=
  ⟨rfl, .cons ⟨[1, 0], rfl, rfl, rfl⟩ (.cons ⟨[1, 2, 0], rfl, rfl, rfl⟩ .nil)⟩

/-- the hypotheses of `moveaxis_entry_closed` are met: in leaf `0`, `out[1, 0] = in[0, 1]` (flat `2 ← 1`); in leaf `1`
(offset `6`), `out[2, 3, 1] = in[1, 2, 3]` (flat `6 + 23 ← 6 + 23`… computed below) -/
example (E : Env) (x : V) (hx : x.length = 30) : (den E (.leaf 5 .moveAxis mvP) x).getD 2 0 = x.getD 1 0 :=
  (moveaxis_entry_closed E 5 mvP_ok x hx 0 (by decide) [1, 0] rfl [1, 0] (by decide)).1

example (E : Env) (x : V) (hx : x.length = 30) :
    (den E (.leaf 5 .moveAxis mvP) x).getD (6 + ravelIdx [3, 4, 2] [2, 3, 1]) 0
      = x.getD (6 + ravelIdx [2, 3, 4] [1, 2, 3]) 0 :=
  (moveaxis_entry_closed E 5 mvP_ok x hx 1 (by decide) [1, 2, 0] rfl [2, 3, 1] (by decide)).1

example : transposeIdx 3 [1, 2, 0] [2, 3, 1] = [1, 2, 3] := by decide

/-- the transpose undoes it -/
example (E : Env) (x : V) (hx : x.length = 30) :
    denT E (.leaf 5 .moveAxis mvP) (den E (.leaf 5 .moveAxis mvP) x) = x :=
  (moveaxis_transpose_closed E 5 mvP_ok).2.2.2.2.1 x hx

/-- **the witness**: a move-axis on a SQUARE leaf.  Its output structure IS its input structure, it is valid,
`reduce()` leaves it alone — and rightly so: it is not the identity map (it transposes the leaf).  A `reduce` that
returned the identity for it, as it does for a ravel / reshape with unchanged structure, would be wrong. -/
def sqP : Params :=
  { inS := ⟨[.leaf], [⟨[2, 2], .f64⟩]⟩, outS := ⟨[.leaf], [⟨[2, 2], .f64⟩]⟩, ints := [[0], [1]] }

theorem sqP_ok : moveAxisOK sqP := ⟨rfl, .cons ⟨[1, 0], rfl, rfl, rfl⟩ .nil⟩

/-- the kernel, evaluated: `moveaxis([[1, 2], [3, 4]], 0, 1) = [[1, 3], [2, 4]]` -/
theorem sq_kernel : moveaxis (⟨[2, 2], [1, 2, 3, 4]⟩ : Tensor Int) [0] [1] = .ok ⟨[2, 2], [1, 3, 2, 4]⟩ := by decide

theorem moveaxis_square_not_identity (E : Env) (u : Nat) :
    sqP.outS = sqP.inS ∧ moveAxisOK sqP ∧
    reduceTop (.leaf u .moveAxis sqP) = .ok (.leaf u .moveAxis sqP) ∧
    den E (.leaf u .moveAxis sqP) [1, 2, 3, 4] ≠ [1, 2, 3, 4] := by
  refine ⟨rfl, sqP_ok, rfl, fun h => ?_⟩
  have e := (moveaxis_entry_closed E u sqP_ok [1, 2, 3, 4] rfl 0 (by decide) [1, 0] rfl [0, 1] (by decide)).1
  rw [h] at e
  have e' : ([1, 2, 3, 4] : V).getD 1 0 = ([1, 2, 3, 4] : V).getD 2 0 := e
  norm_num at e'

/-- a ravel of the last two axes of a `(2, 3, 4)` leaf: valid by the shape kernel, not reduced (the structures
differ), the identity on the flat data -/
def rvP : Params :=
  { inS := ⟨[.leaf], [⟨[2, 3, 4], .f64⟩]⟩, outS := ⟨[.leaf], [⟨[2, 12], .f64⟩]⟩, ints := [[-2], [-1]] }

theorem rvP_ok : reshapeOK rvP := reshapeOK_of_ravelShape (-2) (-1) rfl (.cons rfl .nil)

example (E : Env) (x : V) (hx : x.length = 24) : den E (.leaf 4 .ravel rvP) x = x :=
  (reshape_closed E 4 (.inl rfl) rvP_ok x hx).1

example : reduceTop (.leaf 4 .ravel rvP) = .ok (.leaf 4 .ravel rvP) := rfl

/-- a reshape `(2, 6) → (3, -1)`: valid by the shape kernel -/
def rsP : Params :=
  { inS := ⟨[.leaf], [⟨[2, 6], .f64⟩]⟩, outS := ⟨[.leaf], [⟨[3, 4], .f64⟩]⟩, ints := [[3, -1]] }

theorem rsP_ok : reshapeOK rsP := reshapeOK_of_reshapeCheck [3, -1] rfl (.cons rfl .nil)

example (E : Env) (y : V) (hy : y.length = 12) :
    den E (.leaf 4 .reshape rsP) (denT E (.leaf 4 .reshape rsP) y) = y :=
  (reshape_transpose_closed E 0 4 (.inr rfl) rsP_ok).2.2.2.2 y hy

/-- a ravel whose structures are equal IS reduced to the identity -/
example : reduceTop (.leaf 3 .ravel (Acq.ravelP .IQU 4)) = .ok (mkIdentity (Acq.skyS .IQU 4)) := rfl

end Furax.C13.ClosedExamples

#print axioms Furax.C13.moveaxis_leaf_closed
#print axioms Furax.C13.moveaxis_entry_closed
#print axioms Furax.C13.moveaxis_structure_closed
#print axioms Furax.C13.reshape_closed
#print axioms Furax.C13.reshapeOK_of_ravelShape
#print axioms Furax.C13.reshapeCheck_size
#print axioms Furax.C13.reshapeOK_of_reshapeCheck
#print axioms Furax.C13.moveaxis_transpose_closed
#print axioms Furax.C13.reshape_transpose_closed
#print axioms Furax.C13.reduce_reshape_closed
#print axioms Furax.C13.reduce_reshape_identity_iff
#print axioms Furax.C13.struct_eq_iff_shapes
#print axioms Furax.C13.reduce_moveaxis_closed
#print axioms Furax.C13.ClosedExamples.sq_kernel
#print axioms Furax.C13.ClosedExamples.moveaxis_square_not_identity
