/-
C14 — Einsum block operator and its rewritten-subscript transpose agree.

`transposeCore` (FuraxModel/Einsum.lean) is the rewriting the compiled driver executes on the characters of
the subscripts.  `Phi d B x y L R O = Σ_σ B[σ L]·x[σ R]·y[σ O]` is the bilinear form `⟨einsum("L,R->O", B, x), y⟩`
with tensors as functions on multi-indices and `d` the size of every letter (an ellipsis is a block of further
letters of the alphabet).
-/
import FuraxProofs.Lemmas.EinsumAdjoint
namespace Furax.C14
open Furax Einsum

variable {ι : Type} [DecidableEq ι]

/-- what a successful rewriting looks like: a single contracted letter `s`, a single free block letter `t`,
every occurrence of the two swapped in the block subscripts, and input / output subscripts that are each
other's image under the swap -/
theorem rewriting_shape (isDot : ι → Bool) (L R O L' : List ι) (h : transposeCore isDot L R O = .ok L') :
    ∃ s t : ι, s ≠ t ∧ isDot s = false ∧ isDot t = false ∧ s ∈ L ∧ s ∈ R ∧ s ∉ O ∧ t ∈ L ∧ t ∈ O ∧ t ∉ R ∧
      L' = swapAll s t L ∧ swapAll s t O = R ∧ swapAll s t R = O :=
  transposeCore_spec isDot L R O L' h

/-- **the rewritten subscripts give the exact adjoint**: `⟨A x, y⟩ = ⟨x, Aᵀ y⟩` with the same block data, for
every subscript string the rewriting accepts — any letter order, repeated letters, any ellipsis placement,
any sizes, any block data and inputs -/
theorem transposed_is_adjoint {α : Type} [CommRing α] [Fintype ι] (isDot : ι → Bool) (L R O L' : List ι)
    (h : transposeCore isDot L R O = .ok L') (d : ι → ℕ) (B x y : List ℕ → α) :
    ∃ s t : ι, Phi d B x y L R O = Phi (d ∘ Equiv.swap s t) B y x L' R O :=
  Einsum.transposed_is_adjoint isDot L R O L' h d B x y

/-- **strings for which no such rewriting exists are rejected**: the only way to fail is `ValueError`, and it
happens exactly when there is not a single contracted letter, not a single free block letter, or the input
layout is not the output layout with the free letter replaced -/
theorem rejected_iff (isDot : ι → Bool) (L R O : List ι) (e : PyErr)
    (h : transposeCore isDot L R O = .error e) : e = .valueError := transposeCore_error isDot L R O e h

theorem rejects_without_single_contracted_axis (isDot : ι → Bool) (L R O : List ι)
    (h : (contracted isDot L R O).length ≠ 1) : transposeCore isDot L R O = .error .valueError :=
  transposeCore_reject_contracted isDot L R O h

theorem rejects_without_single_free_axis (isDot : ι → Bool) (L R O : List ι)
    (h : (freeBlock isDot L R O).length ≠ 1) : transposeCore isDot L R O = .error .valueError :=
  transposeCore_reject_freeBlock isDot L R O h

/-! kernel-evaluated instances (tests, labelled as such) -/
example : transposeCore (· == '.') ['i', 'k', 'j'] ['k', 'j'] ['k', 'i'] = .ok ['j', 'k', 'i'] := by decide
example : transposeCore (· == '.') ['i', 'i', 'j'] ['j'] ['i'] = .ok ['j', 'j', 'i'] := by decide
example : transposeCore (· == '.') ['i', 'j'] ['i', 'j'] ['i', 'j'] = .error .valueError := by decide

end Furax.C14
