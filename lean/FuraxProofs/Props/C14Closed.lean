/-
C14, closed in the list denotation — `DenseBlockDiagonalOperator` (one block array shared by the leaves) as a map on
flat real vectors (`ListSem.denseLeaf`, FuraxProofs/Sem/DenseLeaf.lean), built from the executable kernel
`Einsum.einsum2`, and its transpose as built by the form model `transposeOp` (`ListSem.denseLeafT`).

Under `denseOK p` (the subscripts parse, the transposer accepts them, every leaf fits its term exactly):
  (a) lengths, honest output structure; (b) linearity (no hypothesis at all); (c) `⟨A x, y⟩ = ⟨x, Aᵀ y⟩`, the form
  `transposeOp` builds denotes `Aᵀ`, it is valid again, `A.T.T` denotes `A`; (d) the dense matrix, its columns, the
  matrix of the transpose is the transpose; (e) concrete instances with kernel-evaluated entries.
The string-level adjoint theorems of Props/C14Eval.lean are restated WITHOUT the read-back hypothesis `hrt`
(`einsum2_adjoint_closed`, `einsum2_adjoint_ellipsis_closed`): it is now a theorem
(`Einsum.parseSubscripts_readback`).
-/
import FuraxProofs.Sem.DenseLeaf
import FuraxProofs.Sem.DenseMatrix
namespace Furax.C14
open Furax Einsum ListSem
open scoped Furax.Einsum.CharAlphabet

/-! ### the read-back hypothesis of C14Eval is a theorem -/

/-- the parser reads back the subscripts that `_get_transposed_subscripts` prints -/
theorem readback (l r o : String) (tl tr tO : Term) (hpl : parseTerm l.toList = .ok tl)
    (hpr : parseTerm r.toList = .ok tr) (hpo : parseTerm o.toList = .ok tO)
    (hchars : ∀ c ∈ l.toList, isLetter c = true ∨ c = '.') :
    ∀ l', transposeCore (fun c => c == '.') l.toList r.toList o.toList = .ok l' →
      parseSubscripts (String.ofList l' ++ "," ++ r ++ "->" ++ o) = .ok (String.ofList l', r, o) := by
  intro l' ht
  obtain ⟨s, t, -, hsd, htd, hsl, -, -, htl, -, -, hl', -, -⟩ := transposeCore_spec _ _ _ _ _ ht
  rw [swapAll_eq_map_swap] at hl'
  have hsL : isLetter s = true := (hchars s hsl).resolve_right (by simpa using hsd)
  have htL : isLetter t = true := (hchars t htl).resolve_right (by simpa using htd)
  have hpl' : parseTerm l' = .ok (tl.map (Equiv.swap s t)) := by
    rw [hl']; exact parseTerm_map _ (swap_letterPerm s t hsL htL) _ _ hpl
  have := parseSubscripts_terms l' r.toList o.toList _ _ _ hpl' hpr hpo
  simpa [String.ofList_toList] using this

/-- **the executable-level adjoint theorem on strings, with an ellipsis** — `einsum2_adjoint_ellipsis` without its
read-back hypothesis -/
theorem einsum2_adjoint_ellipsis_closed {α : Type} [CommRing α] (subs subs' l r o : String) (tl tr tO : Term)
    (hp : parseSubscripts subs = .ok (l, r, o)) (ht : transposedSubscripts subs = .ok subs')
    (hpl : parseTerm l.toList = .ok tl) (hpr : parseTerm r.toList = .ok tr) (hpo : parseTerm o.toList = .ok tO)
    (hchars : ∀ c ∈ l.toList, isLetter c = true ∨ c = '.') (hO : tO.letters.Nodup)
    (d : Char → ℕ) (es eB : List ℕ) (hBs : eB <:+ es) (hBell : tl.ell = false → eB = [])
    (hoell : tO.ell = true ∨ es = []) (B x y : Tensor α)
    (hB : B.shape = tl.pre.map d ++ eB ++ tl.post.map d)
    (hx : x.shape = tr.pre.map d ++ es ++ tr.post.map d)
    (hy : y.shape = tO.pre.map d ++ es ++ tO.post.map d)
    (hxw : x.data.length = prodNat x.shape) (hyw : y.data.length = prodNat y.shape) :
    ∃ out1 out2, einsum2 subs B x = .ok out1 ∧ einsum2 subs' B y = .ok out2 ∧
      out1.shape = y.shape ∧ out2.shape = x.shape ∧ tdot out1 y = tdot x out2 :=
  einsum2_adjoint_ellipsis subs subs' l r o tl tr tO hp ht (readback l r o tl tr tO hpl hpr hpo hchars) hpl hpr hpo
    hchars hO d es eB hBs hBell hoell B x y hB hx hy hxw hyw

/-- **the executable-level adjoint theorem on strings, letters only** — `einsum2_adjoint` without `hrt` -/
theorem einsum2_adjoint_closed {α : Type} [CommRing α] (subs subs' l r o : String)
    (hp : parseSubscripts subs = .ok (l, r, o)) (ht : transposedSubscripts subs = .ok subs')
    (hl : ∀ c ∈ l.toList, isLetter c = true) (hr : ∀ c ∈ r.toList, isLetter c = true)
    (ho : ∀ c ∈ o.toList, isLetter c = true) (hO : o.toList.Nodup) (d : Char → ℕ) (B x y : Tensor α)
    (hB : B.shape = l.toList.map d) (hx : x.shape = r.toList.map d) (hy : y.shape = o.toList.map d)
    (hxw : x.data.length = prodNat x.shape) (hyw : y.data.length = prodNat y.shape) :
    ∃ out1 out2, einsum2 subs B x = .ok out1 ∧ einsum2 subs' B y = .ok out2 ∧
      out1.shape = y.shape ∧ out2.shape = x.shape ∧ tdot out1 y = tdot x out2 :=
  einsum2_adjoint subs subs' l r o hp ht
    (readback l r o _ _ _ (parseTerm_letters _ hl) (parseTerm_letters _ hr) (parseTerm_letters _ ho)
      (fun c hc => Or.inl (hl c hc)))
    hl hr ho hO d B x y hB hx hy hxw hyw

/-! ### (a) lengths -/

/-- **(a)** `mv` of a valid dense leaf returns one entry per element of the declared output structure -/
theorem dense_length (p : Params) (h : denseOK p) (x : V) : (denseLeaf p x).length = p.outS.size :=
  denseLeaf_length p h x

theorem denseT_length (p : Params) (h : denseOK p) (y : V) : (denseLeafT p y).length = p.inS.size :=
  denseLeafT_length p h y

/-- **(a)** the declared output leaves are the shapes `Einsum.outShape` computes from the block and input shapes -/
theorem dense_out_structure_honest (p : Params) (C : DenseCert p) :
    List.Forall₂ (fun li lo => outShape p.str p.vals.shape li.shape = .ok lo.shape) p.inS.leaves p.outS.leaves :=
  denseOK_outShape p C

/-- **(a)** on every leaf einsum returns exactly the entries of the declared output leaf (nothing is padded) -/
theorem dense_kernel_length (p : Params) (C : DenseCert p) (li lo : LeafS)
    (hf : LeafFits C.tl C.tr C.tO p.vals.shape li lo) (c : V) :
    (denseKernel p.str p.vals li lo c).length = lo.size := denseKernel_length p C li lo hf c

/-! ### (b) linearity: every `p` -/

/-- **(b)** additive on vectors of equal length, entrywise -/
theorem dense_additive (p : Params) (h : denseOK p) (x y : V) (hxy : x.length = y.length) :
    denseLeaf p (List.zipWith (· + ·) x y) = List.zipWith (· + ·) (denseLeaf p x) (denseLeaf p y) := by
  rw [denseLeaf_additive p x y hxy, vadd_eq_zipWith _ _ (by rw [denseLeaf_length p h, denseLeaf_length p h])]

/-- **(b)** additive on ALL inputs (`vadd` pads the shorter vector with zeros), whatever `p` -/
theorem dense_vadd (p : Params) (x y : V) : denseLeaf p (vadd x y) = vadd (denseLeaf p x) (denseLeaf p y) :=
  denseLeaf_add p x y

/-- **(b)** homogeneous, whatever `p` -/
theorem dense_homogeneous (p : Params) (a : ℝ) (x : V) :
    denseLeaf p (x.map fun v => a * v) = (denseLeaf p x).map fun v => a * v := denseLeaf_hom p a x

theorem denseT_vadd (p : Params) (x y : V) : denseLeafT p (vadd x y) = vadd (denseLeafT p x) (denseLeafT p y) :=
  denseLeafT_add p x y

theorem denseT_homogeneous (p : Params) (a : ℝ) (x : V) :
    denseLeafT p (x.map fun v => a * v) = (denseLeafT p x).map fun v => a * v := denseLeafT_hom p a x

/-! ### (c) the adjoint -/

/-- **(c) `⟨A x, y⟩ = ⟨x, Aᵀ y⟩`** for the flattened dense einsum leaf and the leaf with the rewritten subscripts -/
theorem dense_transpose_is_adjoint (p : Params) (h : denseOK p) (x y : V) (hx : x.length = p.inS.size)
    (hy : y.length = p.outS.size) : dot (denseLeaf p x) y = dot x (denseLeafT p y) :=
  denseLeaf_adjoint p h x y hx hy

/-- **(c)** the form model of `.T` maps the leaf to a dense leaf whose `mv` is `denseLeafT p`, valid again -/
theorem dense_transposeOp (u : Nat) (p : Params) (h : denseOK p) :
    ∃ p', transposeOp (.leaf u .dense p) = .ok (.leaf 0 .dense p') ∧ denseLeaf p' = denseLeafT p ∧ denseOK p' ∧
      p'.inS = p.outS ∧ p'.outS = p.inS ∧ p'.vals = p.vals := by
  obtain ⟨p', h1, h2, h3⟩ := transposeOp_dense_ok u p h
  refine ⟨p', h1, h3, denseOK_dual p p' h h2, ?_⟩
  obtain ⟨C⟩ := h
  rw [C.dualParams_eq] at h2
  cases h2
  exact ⟨rfl, rfl, rfl⟩

/-- **(c) `A.T.T` denotes `A`** -/
theorem dense_transpose_twice (u : Nat) (p : Params) (h : denseOK p) :
    ∃ p' p'', transposeOp (.leaf u .dense p) = .ok (.leaf 0 .dense p') ∧
      transposeOp (.leaf 0 .dense p') = .ok (.leaf 0 .dense p'') ∧ denseLeaf p'' = denseLeaf p ∧
      denseOK p' ∧ denseOK p'' := transposeOp_dense_twice u p h

/-- **(c)** the pairing identity for the FORM `transposeOp` returns -/
theorem dense_transposeOp_adjoint (u : Nat) (p : Params) (h : denseOK p) :
    ∃ p', transposeOp (.leaf u .dense p) = .ok (.leaf 0 .dense p') ∧
      ∀ x y : V, x.length = p.inS.size → y.length = p.outS.size →
        dot (denseLeaf p x) y = dot x (denseLeaf p' y) := by
  obtain ⟨p', h1, -, h3⟩ := transposeOp_dense_ok u p h
  exact ⟨p', h1, fun x y hx hy => by rw [h3]; exact denseLeaf_adjoint p h x y hx hy⟩

/-! ### (d) the dense matrix -/

/-- **(d)** column `j` of the dense matrix is `mv` of the `j`-th basis vector -/
theorem dense_matrix_columns (p : Params) (i : Fin p.outS.size) (j : Fin p.inS.size) :
    denseMatrix p i j = (denseLeaf p (unitVec p.inS.size j)).getD i 0 := denseMatrix_apply p i j

/-- **(d)** `mv` is multiplication by the dense matrix -/
theorem dense_eq_matrix_mulVec (p : Params) (h : denseOK p) (v : Fin p.inS.size → ℝ) :
    denseLeaf p (List.ofFn v) = List.ofFn (Matrix.mulVec (denseMatrix p) v) := denseLeaf_eq_mulVec p h v

/-- **(d)** the dense matrix of the transposed leaf is the transpose of the dense matrix -/
theorem dense_matrix_transpose (p : Params) (h : denseOK p) : denseMatrixT p = (denseMatrix p).transpose :=
  denseMatrixT_eq_transpose p h

/-- **(d)** the `asMatrix` of Sem/LinearList.lean on the leaf operator is this matrix, for EVERY environment: the
closed denotation interprets a dense leaf with a shared block array by the einsum kernel -/
theorem dense_asMatrix (E : Env) (hE : EnvAdd E) (p : Params) (hs : denseShared p = true) (h : denseOK p) (u : Nat) :
    asMatrix E hE (.leaf u .dense p) p.inS.size p.outS.size = denseMatrix p := asMatrix_dense E hE p hs h u

/-- **(d)** … and the matrix of the form `op.T` the model computes is its transpose (no assumption on `E`) -/
theorem dense_asMatrix_transposeOp (E : Env) (hE : EnvAdd E) (p : Params) (hs : denseShared p = true)
    (h : denseOK p) (u : Nat) (t : Op) (ht : transposeOp (.leaf u .dense p) = .ok t) :
    asMatrix E hE t p.outS.size p.inS.size
      = (asMatrix E hE (.leaf u .dense p) p.inS.size p.outS.size).transpose :=
  asMatrix_dense_transposeOp E hE p hs h u t ht

/-- **the closed denotation of a dense leaf** (shared block array): `den` is `denseLeaf`, `denT` is `denseLeafT`,
whatever the environment -/
theorem den_dense_leaf (E : Env) (p : Params) (hs : denseShared p = true) (h : denseOK p) (u : Nat) (x y : V)
    (hx : x.length = p.inS.size) (hy : y.length = p.outS.size) :
    den E (.leaf u .dense p) x = denseLeaf p x ∧ denT E (.leaf u .dense p) y = denseLeafT p y := by
  rw [den_dense E p hs, denT_dense E p hs, fit_eq_self hx, fit_eq_self hy,
    fit_eq_self (denseLeaf_length p h x), fit_eq_self (denseLeafT_length p h y)]
  exact ⟨rfl, rfl⟩

/-! ### (e) non-vacuity -/

namespace Examples

def leafTd : TreeDef := [Tok.leaf]

/-- the default subscripts `'ij...,j...->i...'`, a `2×3` block, one leaf of shape `(3, 2)` -/
def p1 : Params :=
  { inS := ⟨leafTd, [⟨[3, 2], .f64⟩]⟩, outS := ⟨leafTd, [⟨[2, 2], .f64⟩]⟩,
    vals := ⟨[2, 3], [1, 2, 3, 4, 5, 6]⟩, str := "ij...,j...->i..." }

/-- `'ikj,kj->ki'` (the docstring example of the rewriting), blocks `arange(1,13).reshape(2,2,3)`, a leaf `(2, 3)` -/
def p2 : Params :=
  { inS := ⟨leafTd, [⟨[2, 3], .f64⟩]⟩, outS := ⟨leafTd, [⟨[2, 2], .f64⟩]⟩,
    vals := ⟨[2, 2, 3], [1, 2, 3, 4, 5, 6, 7, 8, 9, 10, 11, 12]⟩, str := "ikj,kj->ki" }

/-- the default subscripts on a pytree of two leaves, `(3, 2)` and `(3,)`: the ellipsis is `[2]` on the first leaf and
empty on the second -/
def p3 : Params :=
  { inS := ⟨[Tok.node "tuple" 2, Tok.leaf, Tok.leaf], [⟨[3, 2], .f64⟩, ⟨[3], .f64⟩]⟩,
    outS := ⟨[Tok.node "tuple" 2, Tok.leaf, Tok.leaf], [⟨[2, 2], .f64⟩, ⟨[2], .f64⟩]⟩,
    vals := ⟨[2, 3], [1, 2, 3, 4, 5, 6]⟩, str := "ij...,j...->i..." }

theorem parse1 : parseSubscripts "ij...,j...->i..." = .ok ("ij...", "j...", "i...") :=
  parseSubscripts_readback "ij...".toList "j...".toList "i...".toList (by decide) (by decide) (by decide)
    (by decide) (by decide)

theorem parse2 : parseSubscripts "ikj,kj->ki" = .ok ("ikj", "kj", "ki") :=
  parseSubscripts_readback "ikj".toList "kj".toList "ki".toList (by decide) (by decide) (by decide)
    (by decide) (by decide)

theorem parse1T : parseSubscripts "ji...,j...->i..." = .ok ("ji...", "j...", "i...") :=
  parseSubscripts_readback "ji...".toList "j...".toList "i...".toList (by decide) (by decide) (by decide)
    (by decide) (by decide)

theorem parse2T : parseSubscripts "jki,kj->ki" = .ok ("jki", "kj", "ki") :=
  parseSubscripts_readback "jki".toList "kj".toList "ki".toList (by decide) (by decide) (by decide)
    (by decide) (by decide)

/-- **(e)** the three instances are valid -/
theorem p1_ok : denseOK p1 := denseOK_of_check p1 _ _ _ parse1 (by decide +kernel)
theorem p2_ok : denseOK p2 := denseOK_of_check p2 _ _ _ parse2 (by decide +kernel)
theorem p3_ok : denseOK p3 := denseOK_of_check p3 _ _ _ parse1 (by decide +kernel)

/-- what `transposeOp` builds from them -/
theorem p1_dual : dualParams p1 = .ok { p1 with inS := p1.outS, outS := p1.inS, str := "ji...,j...->i..." } := by
  unfold dualParams transposedSubscripts
  rw [show p1.str = "ij...,j...->i..." from rfl, parse1]
  have : transposeCore (fun c => c == '.') "ij...".toList "j...".toList "i...".toList = .ok "ji...".toList := by
    decide +kernel
  simp only [bind, Except.bind, this, pure, Except.pure]
  rfl

theorem p2_dual : dualParams p2 = .ok { p2 with inS := p2.outS, outS := p2.inS, str := "jki,kj->ki" } := by
  unfold dualParams transposedSubscripts
  rw [show p2.str = "ikj,kj->ki" from rfl, parse2]
  have : transposeCore (fun c => c == '.') "ikj".toList "kj".toList "ki".toList = .ok "jki".toList := by
    decide +kernel
  simp only [bind, Except.bind, this, pure, Except.pure]
  rfl

/-- **(e) kernel-evaluated `mv`**: `einsum('ij...,j...->i...', [[1,2,3],[4,5,6]], [[1,2],[3,4],[5,6]])`
`= [[22,28],[49,64]]` (as `numpy`) -/
theorem p1_mv : denseLeaf p1 [1, 2, 3, 4, 5, 6] = [22, 28, 49, 64] := by
  rw [denseLeaf_single p1 ⟨[3, 2], .f64⟩ ⟨[2, 2], .f64⟩ rfl rfl _ (by decide)]
  have := denseKernel_eval "ij...,j...->i..." _ _ _ parse1 ⟨[2, 3], [1, 2, 3, 4, 5, 6]⟩ ⟨[3, 2], .f64⟩ ⟨[2, 2], .f64⟩
    [1, 2, 3, 4, 5, 6] (by decide) ⟨[2, 2], [22, 28, 49, 64]⟩ (by decide +kernel)
  have e : ([1, 2, 3, 4, 5, 6] : V) = ([1, 2, 3, 4, 5, 6] : List Rat).map fun (q : Rat) => (q : ℝ) := by simp
  rw [e]
  show fit _ (denseKernel "ij...,j...->i..." ⟨[2, 3], [1, 2, 3, 4, 5, 6]⟩ ⟨[3, 2], .f64⟩ ⟨[2, 2], .f64⟩ _) = _
  rw [this]
  simp [fit, LeafS.size, prodNat, List.takeD]

/-- **(e) kernel-evaluated `T.mv`**: `einsum('ji...,j...->i...', B, [[1,-1],[0,2]]) = [[1,7],[2,8],[3,9]]` -/
theorem p1_mvT : denseLeafT p1 [1, -1, 0, 2] = [1, 7, 2, 8, 3, 9] := by
  unfold denseLeafT
  rw [p1_dual]
  show denseLeaf _ _ = _
  rw [denseLeaf_single _ ⟨[2, 2], .f64⟩ ⟨[3, 2], .f64⟩ rfl rfl _ (by decide)]
  have := denseKernel_eval "ji...,j...->i..." _ _ _ parse1T ⟨[2, 3], [1, 2, 3, 4, 5, 6]⟩ ⟨[2, 2], .f64⟩ ⟨[3, 2], .f64⟩
    [1, -1, 0, 2] (by decide) ⟨[3, 2], [1, 7, 2, 8, 3, 9]⟩ (by decide +kernel)
  have e : ([1, -1, 0, 2] : V) = ([1, -1, 0, 2] : List Rat).map fun (q : Rat) => (q : ℝ) := by simp
  rw [e]
  show fit _ (denseKernel "ji...,j...->i..." ⟨[2, 3], [1, 2, 3, 4, 5, 6]⟩ ⟨[2, 2], .f64⟩ ⟨[3, 2], .f64⟩ _) = _
  rw [this]
  simp [fit, LeafS.size, prodNat, List.takeD]

/-- the two sides of the adjoint identity on these data: `⟨A x, y⟩ = ⟨x, Aᵀ y⟩ = 122` -/
example : dot (denseLeaf p1 [1, 2, 3, 4, 5, 6]) [1, -1, 0, 2] = 122 ∧
    dot [1, 2, 3, 4, 5, 6] (denseLeafT p1 [1, -1, 0, 2]) = 122 := by
  rw [p1_mv, p1_mvT]
  constructor <;> norm_num [dot]

/-- … which is an instance of the theorem -/
example : dot (denseLeaf p1 [1, 2, 3, 4, 5, 6]) [1, -1, 0, 2] = dot [1, 2, 3, 4, 5, 6] (denseLeafT p1 [1, -1, 0, 2]) :=
  dense_transpose_is_adjoint p1 p1_ok _ _ (by decide) (by decide)

/-- **(e)** `'ikj,kj->ki'`: `numpy` gives `[[10, 28], [109, 235]]` on `x = [[-1,1,3],[5,7,9]]` -/
theorem p2_mv : denseLeaf p2 [-1, 1, 3, 5, 7, 9] = [10, 28, 109, 235] := by
  rw [denseLeaf_single p2 ⟨[2, 3], .f64⟩ ⟨[2, 2], .f64⟩ rfl rfl _ (by decide)]
  have := denseKernel_eval "ikj,kj->ki" _ _ _ parse2 ⟨[2, 2, 3], [1, 2, 3, 4, 5, 6, 7, 8, 9, 10, 11, 12]⟩
    ⟨[2, 3], .f64⟩ ⟨[2, 2], .f64⟩ [-1, 1, 3, 5, 7, 9] (by decide) ⟨[2, 2], [10, 28, 109, 235]⟩ (by decide +kernel)
  have e : ([-1, 1, 3, 5, 7, 9] : V) = ([-1, 1, 3, 5, 7, 9] : List Rat).map fun (q : Rat) => (q : ℝ) := by simp
  rw [e]
  show fit _ (denseKernel "ikj,kj->ki" ⟨[2, 2, 3], [1, 2, 3, 4, 5, 6, 7, 8, 9, 10, 11, 12]⟩ ⟨[2, 3], .f64⟩
    ⟨[2, 2], .f64⟩ _) = _
  rw [this]
  simp [fit, LeafS.size, prodNat, List.takeD]

/-- **(e)** its transpose `'jki,kj->ki'` on `y = [[1,-1],[2,0]]`: `[[-6,-6,-6],[8,10,12]]` -/
theorem p2_mvT : denseLeafT p2 [1, -1, 2, 0] = [-6, -6, -6, 8, 10, 12] := by
  unfold denseLeafT
  rw [p2_dual]
  show denseLeaf _ _ = _
  rw [denseLeaf_single _ ⟨[2, 2], .f64⟩ ⟨[2, 3], .f64⟩ rfl rfl _ (by decide)]
  have := denseKernel_eval "jki,kj->ki" _ _ _ parse2T ⟨[2, 2, 3], [1, 2, 3, 4, 5, 6, 7, 8, 9, 10, 11, 12]⟩
    ⟨[2, 2], .f64⟩ ⟨[2, 3], .f64⟩ [1, -1, 2, 0] (by decide) ⟨[2, 3], [-6, -6, -6, 8, 10, 12]⟩ (by decide +kernel)
  have e : ([1, -1, 2, 0] : V) = ([1, -1, 2, 0] : List Rat).map fun (q : Rat) => (q : ℝ) := by simp
  rw [e]
  show fit _ (denseKernel "jki,kj->ki" ⟨[2, 2, 3], [1, 2, 3, 4, 5, 6, 7, 8, 9, 10, 11, 12]⟩ ⟨[2, 2], .f64⟩
    ⟨[2, 3], .f64⟩ _) = _
  rw [this]
  simp [fit, LeafS.size, prodNat, List.takeD]

/-- both pairings are `200` -/
example : dot (denseLeaf p2 [-1, 1, 3, 5, 7, 9]) [1, -1, 2, 0] = 200 ∧
    dot [-1, 1, 3, 5, 7, 9] (denseLeafT p2 [1, -1, 2, 0]) = 200 := by
  rw [p2_mv, p2_mvT]
  constructor <;> norm_num [dot]

/-- **(e) an entry of the dense matrix**: row `(i,e) = (1,1)`, column `(j,e') = (2,1)` of `p1` is `B[1,2] = 6`, row
`0` column `1` is `0` (different ellipsis positions) — via column `5` = `mv (e_5) = [0, 3, 0, 6]` -/
theorem p1_col5 : denseLeaf p1 (unitVec 6 5) = [0, 3, 0, 6] := by
  have hu : unitVec 6 5 = ([0, 0, 0, 0, 0, 1] : List Rat).map fun (q : Rat) => (q : ℝ) := by
    simp [unitVec, List.range, List.range.loop]
  rw [denseLeaf_single p1 ⟨[3, 2], .f64⟩ ⟨[2, 2], .f64⟩ rfl rfl _ (by simp [unitVec_length, LeafS.size, prodNat]), hu]
  have := denseKernel_eval "ij...,j...->i..." _ _ _ parse1 ⟨[2, 3], [1, 2, 3, 4, 5, 6]⟩ ⟨[3, 2], .f64⟩ ⟨[2, 2], .f64⟩
    [0, 0, 0, 0, 0, 1] (by decide) ⟨[2, 2], [0, 3, 0, 6]⟩ (by decide +kernel)
  show fit _ (denseKernel "ij...,j...->i..." ⟨[2, 3], [1, 2, 3, 4, 5, 6]⟩ ⟨[3, 2], .f64⟩ ⟨[2, 2], .f64⟩ _) = _
  rw [this]
  simp [fit, LeafS.size, prodNat, List.takeD]

example : denseMatrix p1 ⟨3, by decide⟩ ⟨5, by decide⟩ = 6 ∧ denseMatrix p1 ⟨0, by decide⟩ ⟨5, by decide⟩ = 0 := by
  rw [dense_matrix_columns, dense_matrix_columns]
  have : p1.inS.size = 6 := by decide
  simp only [this, p1_col5]
  simp

/-- the transposed matrix has the transposed entry -/
example : denseMatrixT p1 ⟨5, by decide⟩ ⟨3, by decide⟩ = 6 := by
  rw [dense_matrix_transpose p1 p1_ok, Matrix.transpose_apply, dense_matrix_columns]
  have : p1.inS.size = 6 := by decide
  simp only [this, p1_col5]
  simp

/-- the hypotheses of the theorems about `transposeOp` are satisfiable -/
example : ∃ p', transposeOp (.leaf 7 .dense p2) = .ok (.leaf 0 .dense p') ∧ denseLeaf p' = denseLeafT p2 ∧
    denseOK p' ∧ p'.inS = p2.outS ∧ p'.outS = p2.inS ∧ p'.vals = p2.vals := dense_transposeOp 7 p2 p2_ok

example : ∃ p' p'', transposeOp (.leaf 7 .dense p3) = .ok (.leaf 0 .dense p') ∧
    transposeOp (.leaf 0 .dense p') = .ok (.leaf 0 .dense p'') ∧ denseLeaf p'' = denseLeaf p3 ∧
    denseOK p' ∧ denseOK p'' := dense_transpose_twice 7 p3 p3_ok

example (x y : V) (hx : x.length = 9) (hy : y.length = 6) : dot (denseLeaf p3 x) y = dot x (denseLeafT p3 y) :=
  dense_transpose_is_adjoint p3 p3_ok x y hx hy


/-! #### the closed C03 / C04 theorems now reach dense leaves: an expression with a dense leaf, NO assumption on the
environment -/

/-- `Dense(p1) ∘ (2 · Id)` on a leaf `(3, 2)` -/
def exDense : Op :=
  .comp 1 [.leaf 2 .dense p1, .leaf 3 .homothety { inS := p1.inS, outS := p1.inS, vals := Tensor.scalar 2 }]

/-- its transpose as `transposeOp` computes it: `(2 · Id) ∘ Dense('ji...,j...->i...')` -/
def exDenseT : Op :=
  .comp 0 [.leaf 3 .homothety { inS := p1.inS, outS := p1.inS, vals := Tensor.scalar 2 },
    .leaf 0 .dense { p1 with inS := p1.outS, outS := p1.inS, str := "ji...,j...->i..." }]

theorem p1_shared : denseShared p1 = true := by decide

theorem exDense_T : transposeOp exDense = .ok exDenseT := by
  have h1 : transposeOp (.leaf 2 .dense p1)
      = .ok (.leaf 0 .dense { p1 with inS := p1.outS, outS := p1.inS, str := "ji...,j...->i..." }) := by
    rw [transposeOp_dense, p1_dual]; rfl
  have h2 : transposeOp (.leaf 3 .homothety { inS := p1.inS, outS := p1.inS, vals := Tensor.scalar 2 })
      = .ok (.leaf 3 .homothety { inS := p1.inS, outS := p1.inS, vals := Tensor.scalar 2 }) := by
    simp [transposeOp, isSymmetricLeaf]
  unfold exDense exDenseT
  rw [transposeOp]
  simp only [transposeList, h1, h2]
  rfl

theorem exDense_validT : ValidT exDense := by
  refine ⟨?_, ?_⟩
  · simp only [Valid, exDense, WTExpr, WTList, Chain, adjLeafOK, listLeafOK]
    exact ⟨by simp, ⟨⟨fun _ => p1_ok, by simp⟩, ⟨trivial, by simp⟩, trivial⟩, rfl, trivial⟩
  · simp only [exDense, TFormOK, TFormOKList]
    exact ⟨fun _ => p1_shared, by simp, trivial⟩

theorem exDense_wft : exDense.WFT := by
  simp [exDense, Op.WFT, Op.WFTList, isSymmetricLeaf]

theorem exDense_noEnv : AllLeaves (fun _ c p => isEnvLeaf c p = false) exDense := by
  simp only [exDense, AllLeaves, AllLeavesList, isEnvLeaf, p1_shared]
  simp

/-- **C03 closed on an expression with a dense leaf, for EVERY environment**: `⟨A x, y⟩ = ⟨x, A.T y⟩` with
`A = Dense ∘ (2·Id)` and `A.T` the form the model computes -/
theorem exDense_adjoint (E : Env) (x y : V) (hx : x.length = 6) (hy : y.length = 4) :
    dot (den E exDense x) y = dot x (den E exDenseT y) :=
  ListSem.transpose_is_adjoint_closed_noEnv E exDense exDenseT exDense_noEnv exDense_validT exDense_wft exDense_T
    x y hx hy

/-! #### `denseOK` cannot be dropped from the adjoint theorem -/

/-- blocks broadcast against the input: `'ij,j->i'` with blocks `[[2],[5]]` (contracted axis of size 1) on a leaf of
3 values; declared output leaf `(2,)` -/
def pBad : Params :=
  { inS := ⟨leafTd, [⟨[3], .f64⟩]⟩, outS := ⟨leafTd, [⟨[2], .f64⟩]⟩, vals := ⟨[2, 1], [2, 5]⟩, str := "ij,j->i" }

theorem parseBad : parseSubscripts "ij,j->i" = .ok ("ij", "j", "i") :=
  parseSubscripts_readback "ij".toList "j".toList "i".toList (by decide) (by decide) (by decide)
    (by decide) (by decide)

theorem parseBadT : parseSubscripts "ji,j->i" = .ok ("ji", "j", "i") :=
  parseSubscripts_readback "ji".toList "j".toList "i".toList (by decide) (by decide) (by decide)
    (by decide) (by decide)

/-- `mv` is accepted (`A x = [12, 30]` on `x = [1,2,3]`: the block column is stretched) … -/
theorem pBad_mv : denseLeaf pBad [1, 2, 3] = [12, 30] := by
  rw [denseLeaf_single pBad ⟨[3], .f64⟩ ⟨[2], .f64⟩ rfl rfl _ (by decide)]
  have := denseKernel_eval "ij,j->i" _ _ _ parseBad ⟨[2, 1], [2, 5]⟩ ⟨[3], .f64⟩ ⟨[2], .f64⟩
    [1, 2, 3] (by decide) ⟨[2], [12, 30]⟩ (by decide +kernel)
  have e : ([1, 2, 3] : V) = ([1, 2, 3] : List Rat).map fun (q : Rat) => (q : ℝ) := by simp
  rw [e]
  show fit _ (denseKernel "ij,j->i" ⟨[2, 1], [2, 5]⟩ ⟨[3], .f64⟩ ⟨[2], .f64⟩ _) = _
  rw [this]
  simp [fit, LeafS.size, prodNat, List.takeD]

theorem pBad_dual : dualParams pBad = .ok { pBad with inS := pBad.outS, outS := pBad.inS, str := "ji,j->i" } := by
  unfold dualParams transposedSubscripts
  rw [show pBad.str = "ij,j->i" from rfl, parseBad]
  have : transposeCore (fun c => c == '.') "ij".toList "j".toList "i".toList = .ok "ji".toList := by
    decide +kernel
  simp only [bind, Except.bind, this, pure, Except.pure]
  rfl

/-- … the rewritten subscripts return ONE value (`-3`, padded to the declared 3 entries by the list denotation) -/
theorem pBad_mvT : denseLeafT pBad [1, -1] = [-3, 0, 0] := by
  unfold denseLeafT
  rw [pBad_dual]
  show denseLeaf _ _ = _
  rw [denseLeaf_single _ ⟨[2], .f64⟩ ⟨[3], .f64⟩ rfl rfl _ (by decide)]
  have := denseKernel_eval "ji,j->i" _ _ _ parseBadT ⟨[2, 1], [2, 5]⟩ ⟨[2], .f64⟩ ⟨[3], .f64⟩
    [1, -1] (by decide) ⟨[1], [-3]⟩ (by decide +kernel)
  have e : ([1, -1] : V) = ([1, -1] : List Rat).map fun (q : Rat) => (q : ℝ) := by simp
  rw [e]
  show fit _ (denseKernel "ji,j->i" ⟨[2, 1], [2, 5]⟩ ⟨[2], .f64⟩ ⟨[3], .f64⟩ _) = _
  rw [this]
  simp [fit, LeafS.size, prodNat, List.takeD]

/-- **the adjoint identity FAILS without `denseOK`**: `⟨A x, y⟩ = -18 ≠ -3 = ⟨x, Aᵀ y⟩` (the real class now raises
`ValueError` in `.T` for this operator) -/
theorem pBad_not_adjoint :
    dot (denseLeaf pBad [1, 2, 3]) [1, -1] ≠ dot [1, 2, 3] (denseLeafT pBad [1, -1]) := by
  rw [pBad_mv, pBad_mvT]
  norm_num [dot]

theorem pBad_not_ok : ¬ denseOK pBad := fun h =>
  pBad_not_adjoint (dense_transpose_is_adjoint pBad h _ _ (by decide) (by decide))

end Examples

end Furax.C14
