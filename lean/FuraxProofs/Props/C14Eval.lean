/-
C14, executable level — the einsum kernel `Einsum.einsum2` (FuraxModel/EinsumEval.lean, compiled into the driver and
differentially tested against `numpy.einsum` / `jax.numpy.einsum`) and the rewritten subscripts of
`DenseBlockDiagonalOperator.transpose`.

`einsum2 subs B x` is `numpy.einsum(subs, B, x)` on row-major tensors; `tdot a b = Σ_k a[k]·b[k]`.
The statements about strings take the result of the (string-splitting) parser `parseSubscripts` as a hypothesis:
Lean's `String.splitOn` does not reduce in the kernel and has no lemmas, so facts such as
`parseSubscripts "ij,j->i" = .ok ("ij", "j", "i")` are not provable here; the kernel-evaluated instances below are
therefore stated on the parsed terms (`einsumTerms`), which is all of `einsum2` but that first split.
-/
import FuraxProofs.Lemmas.EinsumEvalSpec
import FuraxProofs.Lemmas.EinsumEvalEllipsis
namespace Furax.C14
open Furax Einsum
open scoped Furax.Einsum.CharAlphabet

variable {α : Type}

/-- `einsum2` is `einsumTerms` on the three terms that `parseSubscripts` returns -/
theorem einsum2_eq_terms [Zero α] [Add α] [Mul α] (subs l r o : String)
    (hp : parseSubscripts subs = .ok (l, r, o)) (B x : Tensor α) :
    einsum2 subs B x = einsumTerms .numpy l.toList r.toList o.toList B x := by
  simp [einsum2, einsum2With, hp, bind, Except.bind]

/-- the rewritten string, in terms of the rewriting of the parsed terms -/
theorem transposedSubscripts_ok (subs subs' l r o : String) (hp : parseSubscripts subs = .ok (l, r, o))
    (ht : transposedSubscripts subs = .ok subs') :
    ∃ l', transposeCore (fun c => c == '.') l.toList r.toList o.toList = .ok l' ∧
      subs' = String.ofList l' ++ "," ++ r ++ "->" ++ o := by
  unfold transposedSubscripts at ht
  simp only [hp, bind, Except.bind] at ht
  cases h : transposeCore (fun c => c == '.') l.toList r.toList o.toList with
  | error e => simp [h] at ht
  | ok l' =>
    simp only [h, pure, Except.pure, Except.ok.injEq] at ht
    exact ⟨l', rfl, ht.symm⟩

/-- `outShape` is the shape of `einsum2`, and fails exactly when `einsum2` fails -/
theorem outShape_spec [Zero α] [Add α] [Mul α] (subs : String) (B x : Tensor α) :
    (einsum2 subs B x).map Tensor.shape = outShape subs B.shape x.shape := einsum2_shape subs B x

/-- every rejection is a `ValueError` -/
theorem einsum2_error [Zero α] [Add α] [Mul α] (subs : String) (B x : Tensor α) (e : PyErr)
    (h : einsum2 subs B x = .error e) : e = .valueError := einsum2With_error .numpy subs B x e h

section Ring
variable [CommRing α]

/-- **(3a) the executable kernel computes the bilinear form `Phi` of the abstract adjoint theorem.**
Letters-only subscripts `l,r->o`; `B`, `x`, `y` have the shapes given by the sizes `d` of their letters; the
output letters are distinct and occur in the inputs (NumPy's own conditions).  Then `einsum2` succeeds with the
shape `o.map d` and `Σ_k (einsum2 subs B x)[k] · y[k] = Phi d' B x y l r o`, where `d'` is `d` with the letters
that occur in no operand set to size 1 and tensors are read as functions of the multi-index by `entryAt`. -/
theorem einsum2_pairing (subs l r o : String) (hp : parseSubscripts subs = .ok (l, r, o))
    (hl : ∀ c ∈ l.toList, isLetter c = true) (hr : ∀ c ∈ r.toList, isLetter c = true)
    (ho : ∀ c ∈ o.toList, isLetter c = true) (d : Char → ℕ) (B x y : Tensor α)
    (hB : B.shape = l.toList.map d) (hx : x.shape = r.toList.map d) (hO : o.toList.Nodup)
    (hsub : ∀ c ∈ o.toList, c ∈ l.toList ++ r.toList) (hy : y.shape = o.toList.map d)
    (hyw : y.data.length = prodNat y.shape) :
    ∃ out, einsum2 subs B x = .ok out ∧ out.shape = o.toList.map d ∧ out.data.length = prodNat out.shape ∧
      tdot out y = Phi (dNorm l.toList r.toList d) (entryAt B) (entryAt x) (entryAt y)
        l.toList r.toList o.toList := by
  rw [einsum2_eq_terms subs l r o hp]
  exact einsumTerms_pairing .numpy _ _ _ hl hr ho d B x y hB hx hO hsub hy hyw

/-- **(3a) the entries of `einsum2`**: the entry at a valid output multi-index `oi` is the sum over the
assignments `τ` of the summed letters of `B[σ l] · x[σ r]`, `σ` reading the output letters in `oi` and the others
in `τ` (`mixEnv`) -/
theorem einsum2_entry (subs l r o : String) (hp : parseSubscripts subs = .ok (l, r, o))
    (hl : ∀ c ∈ l.toList, isLetter c = true) (hr : ∀ c ∈ r.toList, isLetter c = true)
    (ho : ∀ c ∈ o.toList, isLetter c = true) (d : Char → ℕ) (B x : Tensor α)
    (hB : B.shape = l.toList.map d) (hx : x.shape = r.toList.map d) (hO : o.toList.Nodup)
    (hsub : ∀ c ∈ o.toList, c ∈ l.toList ++ r.toList) :
    ∃ out, einsum2 subs B x = .ok out ∧ ∀ oi ∈ multiIndices (o.toList.map d),
      entryAt out oi
        = ∑ τ ∈ Fintype.piFinset (fun c => Finset.range
            (if c ∈ sumLabels l.toList r.toList o.toList then d c else 1)),
          entryAt B (l.toList.map (mixEnv o.toList oi τ)) * entryAt x (r.toList.map (mixEnv o.toList oi τ)) := by
  rw [einsum2_eq_terms subs l r o hp]
  exact einsumTerms_entry .numpy _ _ _ hl hr ho d B x hB hx hO hsub

/-- **the executable-level adjoint theorem on parsed terms** (letters only): if `_get_transposed_subscripts`
rewrites `l,r->o` into `l',r->o`, then `⟨einsum(l,r->o)(B,x), y⟩ = ⟨x, einsum(l',r->o)(B,y)⟩` for all `B`, `x`, `y`
whose shapes are the sizes of their letters, both evaluations succeeding -/
theorem terms_adjoint (l r o l' : List Char) (hl : ∀ c ∈ l, isLetter c = true)
    (hr : ∀ c ∈ r, isLetter c = true) (ho : ∀ c ∈ o, isLetter c = true)
    (ht : transposeCore (· == '.') l r o = .ok l') (hO : o.Nodup) (d : Char → ℕ) (B x y : Tensor α)
    (hB : B.shape = l.map d) (hx : x.shape = r.map d) (hy : y.shape = o.map d)
    (hxw : x.data.length = prodNat x.shape) (hyw : y.data.length = prodNat y.shape) :
    ∃ out1 out2, einsumTerms .numpy l r o B x = .ok out1 ∧ einsumTerms .numpy l' r o B y = .ok out2 ∧
      out1.shape = y.shape ∧ out2.shape = x.shape ∧ tdot out1 y = tdot x out2 :=
  einsumTerms_adjoint .numpy l r o l' hl hr ho ht hO d B x y hB hx hy hxw hyw

/-- **the executable-level adjoint theorem on strings** (letters only).  `hrt` says that the parser reads back
the three terms of the string that `transposedSubscripts` printed (`l' ++ "," ++ r ++ "->" ++ o`); it is a fact
about `String.splitOn` that cannot be proved with the present library (no lemmas, no kernel reduction) and is
checked by the differential harness (`einsum-parse`). -/
theorem einsum2_adjoint (subs subs' l r o : String) (hp : parseSubscripts subs = .ok (l, r, o))
    (ht : transposedSubscripts subs = .ok subs')
    (hrt : ∀ l', transposeCore (fun c => c == '.') l.toList r.toList o.toList = .ok l' →
      parseSubscripts (String.ofList l' ++ "," ++ r ++ "->" ++ o) = .ok (String.ofList l', r, o))
    (hl : ∀ c ∈ l.toList, isLetter c = true) (hr : ∀ c ∈ r.toList, isLetter c = true)
    (ho : ∀ c ∈ o.toList, isLetter c = true) (hO : o.toList.Nodup) (d : Char → ℕ) (B x y : Tensor α)
    (hB : B.shape = l.toList.map d) (hx : x.shape = r.toList.map d) (hy : y.shape = o.toList.map d)
    (hxw : x.data.length = prodNat x.shape) (hyw : y.data.length = prodNat y.shape) :
    ∃ out1 out2, einsum2 subs B x = .ok out1 ∧ einsum2 subs' B y = .ok out2 ∧
      out1.shape = y.shape ∧ out2.shape = x.shape ∧ tdot out1 y = tdot x out2 := by
  obtain ⟨l', hl', rfl⟩ := transposedSubscripts_ok subs subs' l r o hp ht
  rw [einsum2_eq_terms subs l r o hp, einsum2_eq_terms _ _ r o (hrt l' hl'), String.toList_ofList]
  exact einsumTerms_adjoint .numpy _ _ _ l' hl hr ho hl' hO d B x y hB hx hy hxw hyw

/-- **(3b) the executable-level adjoint theorem with an ellipsis, on parsed terms.**  `tl`, `tr`, `tO` are the
parsed terms (letters before / after an optional `...`).  The letters have the sizes `d`; the input `x` and the
cotangent `y` carry the whole ellipsis shape `es` between their letters, the blocks a suffix `eB` of it (all, part
or nothing): no size-1 dimension is stretched.  `es = []` if the output has no ellipsis, `eB = []` if the blocks
have none. -/
theorem terms_adjoint_ellipsis (l r o l' : List Char) (tl tr tO : Term) (hpl : parseTerm l = .ok tl)
    (hpr : parseTerm r = .ok tr) (hpo : parseTerm o = .ok tO)
    (hchars : ∀ c ∈ l, isLetter c = true ∨ c = '.')
    (ht : transposeCore (· == '.') l r o = .ok l') (hO : tO.letters.Nodup)
    (d : Char → ℕ) (es eB : List ℕ) (hBs : eB <:+ es) (hBell : tl.ell = false → eB = [])
    (hoell : tO.ell = true ∨ es = []) (B x y : Tensor α)
    (hB : B.shape = tl.pre.map d ++ eB ++ tl.post.map d)
    (hx : x.shape = tr.pre.map d ++ es ++ tr.post.map d)
    (hy : y.shape = tO.pre.map d ++ es ++ tO.post.map d)
    (hxw : x.data.length = prodNat x.shape) (hyw : y.data.length = prodNat y.shape) :
    ∃ out1 out2, einsumTerms .numpy l r o B x = .ok out1 ∧ einsumTerms .numpy l' r o B y = .ok out2 ∧
      out1.shape = y.shape ∧ out2.shape = x.shape ∧ tdot out1 y = tdot x out2 :=
  einsumTerms_adjoint_ellipsis .numpy l r o l' tl tr tO hpl hpr hpo hchars ht hO d es eB hBs hBell hoell B x y
    hB hx hy hxw hyw

/-- **(3b) on strings**, with the read-back hypothesis `hrt` of `einsum2_adjoint` -/
theorem einsum2_adjoint_ellipsis (subs subs' l r o : String) (tl tr tO : Term)
    (hp : parseSubscripts subs = .ok (l, r, o)) (ht : transposedSubscripts subs = .ok subs')
    (hrt : ∀ l', transposeCore (fun c => c == '.') l.toList r.toList o.toList = .ok l' →
      parseSubscripts (String.ofList l' ++ "," ++ r ++ "->" ++ o) = .ok (String.ofList l', r, o))
    (hpl : parseTerm l.toList = .ok tl) (hpr : parseTerm r.toList = .ok tr) (hpo : parseTerm o.toList = .ok tO)
    (hchars : ∀ c ∈ l.toList, isLetter c = true ∨ c = '.') (hO : tO.letters.Nodup)
    (d : Char → ℕ) (es eB : List ℕ) (hBs : eB <:+ es) (hBell : tl.ell = false → eB = [])
    (hoell : tO.ell = true ∨ es = []) (B x y : Tensor α)
    (hB : B.shape = tl.pre.map d ++ eB ++ tl.post.map d)
    (hx : x.shape = tr.pre.map d ++ es ++ tr.post.map d)
    (hy : y.shape = tO.pre.map d ++ es ++ tO.post.map d)
    (hxw : x.data.length = prodNat x.shape) (hyw : y.data.length = prodNat y.shape) :
    ∃ out1 out2, einsum2 subs B x = .ok out1 ∧ einsum2 subs' B y = .ok out2 ∧
      out1.shape = y.shape ∧ out2.shape = x.shape ∧ tdot out1 y = tdot x out2 := by
  obtain ⟨l', hl', rfl⟩ := transposedSubscripts_ok subs subs' l r o hp ht
  rw [einsum2_eq_terms subs l r o hp, einsum2_eq_terms _ _ r o (hrt l' hl'), String.toList_ofList]
  exact einsumTerms_adjoint_ellipsis .numpy _ _ _ l' tl tr tO hpl hpr hpo hchars hl' hO d es eB hBs hBell
    hoell B x y hB hx hy hxw hyw

/-- **(3c)** `einsum2 subs B ·` is additive (every subscripts string, ellipsis and broadcasting included) -/
theorem einsum2_add (subs : String) (B x x' o1 o2 : Tensor α) (hs : x'.shape = x.shape)
    (hl : x'.data.length = x.data.length) (h1 : einsum2 subs B x = .ok o1) (h2 : einsum2 subs B x' = .ok o2) :
    einsum2 subs B (tadd x x') = .ok (tadd o1 o2) :=
  einsum2With_add .numpy subs B x x' o1 o2 hs hl h1 h2

/-- **(3c)** `einsum2 subs B ·` is homogeneous -/
theorem einsum2_smul (subs : String) (B x o1 : Tensor α) (c : α) (h1 : einsum2 subs B x = .ok o1) :
    einsum2 subs B (tsmul c x) = .ok (tsmul c o1) :=
  einsum2With_smul .numpy subs B x o1 c h1

end Ring

/-! ### (3d) kernel-evaluated instances (tests) on 2×3 data, cross-checked with `numpy.einsum` -/

/-- `'ij,j->i'`: `[[1,2,3],[4,5,6]] · [1,0,-1] = [-2,-2]` -/
example : einsumTerms (α := Int) .numpy ['i', 'j'] ['j'] ['i'] ⟨[2, 3], [1, 2, 3, 4, 5, 6]⟩ ⟨[3], [1, 0, -1]⟩
    = .ok ⟨[2], [-2, -2]⟩ := by decide +kernel

/-- `'ikj,kj->ki'` (the rewriting's docstring example) with `B = arange(1,13).reshape(2,2,3)`,
`x = [[-1,1,3],[5,7,9]]`: `numpy` gives `[[10, 28], [109, 235]]` -/
example : einsumTerms (α := Int) .numpy ['i', 'k', 'j'] ['k', 'j'] ['k', 'i']
    ⟨[2, 2, 3], [1, 2, 3, 4, 5, 6, 7, 8, 9, 10, 11, 12]⟩ ⟨[2, 3], [-1, 1, 3, 5, 7, 9]⟩
    = .ok ⟨[2, 2], [10, 28, 109, 235]⟩ := by decide +kernel

/-- its transposed string `'jki,kj->ki'` on the same block data (now read as `j=2, k=2, i=3`) and
`y = [[1,-1],[2,0]]` (shape `k,j`): `numpy` gives `[[-6,-6,-6],[8,10,12]]` -/
example : einsumTerms (α := Int) .numpy ['j', 'k', 'i'] ['k', 'j'] ['k', 'i']
    ⟨[2, 2, 3], [1, 2, 3, 4, 5, 6, 7, 8, 9, 10, 11, 12]⟩ ⟨[2, 2], [1, -1, 2, 0]⟩
    = .ok ⟨[2, 3], [-6, -6, -6, 8, 10, 12]⟩ := by decide +kernel

/-- the two sides of the adjoint identity on these data: `⟨A x, y⟩ = ⟨x, Aᵀ y⟩ = 200` -/
example : tdot (α := Int) ⟨[2, 2], [10, 28, 109, 235]⟩ ⟨[2, 2], [1, -1, 2, 0]⟩ = 200 ∧
    tdot (α := Int) ⟨[2, 3], [-1, 1, 3, 5, 7, 9]⟩ ⟨[2, 3], [-6, -6, -6, 8, 10, 12]⟩ = 200 := by
  decide +kernel

/-- the hypotheses of `terms_adjoint` are satisfiable: `'ikj,kj->ki'` with `i ↦ 2, k ↦ 2, j ↦ 3` -/
example : ∃ out1 out2,
    einsumTerms (α := Int) .numpy ['i', 'k', 'j'] ['k', 'j'] ['k', 'i']
      ⟨[2, 2, 3], [1, 2, 3, 4, 5, 6, 7, 8, 9, 10, 11, 12]⟩ ⟨[2, 3], [-1, 1, 3, 5, 7, 9]⟩ = .ok out1 ∧
    einsumTerms (α := Int) .numpy ['j', 'k', 'i'] ['k', 'j'] ['k', 'i']
      ⟨[2, 2, 3], [1, 2, 3, 4, 5, 6, 7, 8, 9, 10, 11, 12]⟩ ⟨[2, 2], [1, -1, 2, 0]⟩ = .ok out2 ∧
    out1.shape = [2, 2] ∧ out2.shape = [2, 3] ∧
    tdot out1 ⟨[2, 2], [1, -1, 2, 0]⟩ = tdot ⟨[2, 3], [-1, 1, 3, 5, 7, 9]⟩ out2 :=
  terms_adjoint ['i', 'k', 'j'] ['k', 'j'] ['k', 'i'] ['j', 'k', 'i'] ((allLetters_iff _).2 (by decide))
    ((allLetters_iff _).2 (by decide)) ((allLetters_iff _).2 (by decide))
    (by decide) (by decide) (fun c => if c = 'j' then 3 else 2) _ _ _ (by decide) (by decide) (by decide)
    (by decide) (by decide)

/-- the hypotheses of `terms_adjoint_ellipsis` are satisfiable: the default subscripts `'ij...,j...->i...'` of
`DenseBlockDiagonalOperator` with `i ↦ 2, j ↦ 3`, ellipsis shape `[2]` carried by the input only -/
example : ∃ out1 out2,
    einsumTerms (α := Int) .numpy "ij...".toList "j...".toList "i...".toList
      ⟨[2, 3], [1, 2, 3, 4, 5, 6]⟩ ⟨[3, 2], [1, 2, 3, 4, 5, 6]⟩ = .ok out1 ∧
    einsumTerms (α := Int) .numpy "ji...".toList "j...".toList "i...".toList
      ⟨[2, 3], [1, 2, 3, 4, 5, 6]⟩ ⟨[2, 2], [1, -1, 0, 2]⟩ = .ok out2 ∧
    out1.shape = [2, 2] ∧ out2.shape = [3, 2] ∧
    tdot out1 ⟨[2, 2], [1, -1, 0, 2]⟩ = tdot ⟨[3, 2], [1, 2, 3, 4, 5, 6]⟩ out2 :=
  terms_adjoint_ellipsis "ij...".toList "j...".toList "i...".toList "ji...".toList
    ⟨['i', 'j'], true, []⟩ ⟨['j'], true, []⟩ ⟨['i'], true, []⟩ (by decide +kernel) (by decide +kernel)
    (by decide +kernel)
    (by intro c hc; simp at hc; rcases hc with rfl | rfl | rfl <;> decide)
    (by decide +kernel) (by decide) (fun c => if c = 'j' then 3 else 2) [2] [] (by simp) (by simp) (by simp)
    _ _ _ (by decide) (by decide) (by decide) (by decide) (by decide)

/-- … and the two evaluations of that instance, kernel-evaluated: `numpy` gives `[[22, 28], [49, 64]]` and
`[[1, 7], [2, 8], [3, 9]]`; both pairings are `122` -/
example : einsumTerms (α := Int) .numpy "ji...".toList "j...".toList "i...".toList
      ⟨[2, 3], [1, 2, 3, 4, 5, 6]⟩ ⟨[2, 2], [1, -1, 0, 2]⟩ = .ok ⟨[3, 2], [1, 7, 2, 8, 3, 9]⟩ ∧
    tdot (α := Int) ⟨[2, 2], [22, 28, 49, 64]⟩ ⟨[2, 2], [1, -1, 0, 2]⟩ = 122 ∧
    tdot (α := Int) ⟨[3, 2], [1, 2, 3, 4, 5, 6]⟩ ⟨[3, 2], [1, 7, 2, 8, 3, 9]⟩ = 122 := by decide +kernel

/-- ellipsis with broadcasting (outside the theorems, inside the tested kernel): `'ij...,j...->i...'`, blocks
`(2,3)`, input `(3,2)`; `numpy` gives `[[22, 28], [49, 64]]` -/
example : einsumTerms (α := Int) .numpy "ij...".toList "j...".toList "i...".toList
    ⟨[2, 3], [1, 2, 3, 4, 5, 6]⟩ ⟨[3, 2], [1, 2, 3, 4, 5, 6]⟩ = .ok ⟨[2, 2], [22, 28, 49, 64]⟩ := by
  decide +kernel

/-- rejected as by NumPy: an input ellipsis that covers a dimension while the output has no ellipsis … -/
example : einsumTerms (α := Int) .numpy "ij...".toList "j...".toList "i".toList
    ⟨[2, 3, 1], [1, 2, 3, 4, 5, 6]⟩ ⟨[3, 1], [1, 2, 3]⟩ = .error .valueError := by decide +kernel

/-- … which `jax.numpy.einsum` sums over instead -/
example : einsumTerms (α := Int) .jax "ij...".toList "j...".toList "i".toList
    ⟨[2, 3, 1], [1, 2, 3, 4, 5, 6]⟩ ⟨[3, 1], [1, 2, 3]⟩ = .ok ⟨[2], [14, 32]⟩ := by decide +kernel

/-- **the exact-fit hypothesis cannot be dropped**: when einsum stretches a size-1 dimension the rewritten
subscripts do not give the adjoint.  `'ij,j->i'` with blocks `[[2],[5]]` (contracted axis of size 1) and an input
of 3 values is accepted (`A x = [12, 30]`), the rewritten `'ji,j->i'` on the same blocks returns ONE value for a
cotangent of 2 values: not even the shape of `x`.  The real `DenseBlockDiagonalOperator` does the same
(scratch/repro_broadcast.py). -/
example : einsumTerms (α := Int) .numpy ['i', 'j'] ['j'] ['i'] ⟨[2, 1], [2, 5]⟩ ⟨[3], [1, 2, 3]⟩
      = .ok ⟨[2], [12, 30]⟩ ∧
    transposeCore (· == '.') ['i', 'j'] ['j'] ['i'] = .ok ['j', 'i'] ∧
    einsumTerms (α := Int) .numpy ['j', 'i'] ['j'] ['i'] ⟨[2, 1], [2, 5]⟩ ⟨[2], [1, -1]⟩
      = .ok ⟨[1], [-3]⟩ := by decide +kernel

/-- the rewriting accepts `'kij,kkj->kki'` (one contracted letter `j`, one free block letter `i`) although the
output repeats `k`, which einsum refuses: the hypothesis `o.Nodup` of the adjoint theorems is not redundant -/
example : transposeCore (· == '.') ['k', 'i', 'j'] ['k', 'k', 'j'] ['k', 'k', 'i'] = .ok ['k', 'j', 'i'] ∧
    einsumTerms (α := Int) .numpy ['k', 'i', 'j'] ['k', 'k', 'j'] ['k', 'k', 'i']
      ⟨[1, 1, 1], [1]⟩ ⟨[1, 1, 1], [1]⟩ = .error .valueError := by decide +kernel

end Furax.C14
