/-
C15 — Polarimetry operators realise their Mueller matrices.

`SV.hwp`, `SV.rot`, `SV.rotT`, `SV.pol` are the functions the compiled driver executes (FuraxModel/Stokes.lean).
Statements over an arbitrary commutative ring with `c² + s² = 1`, and over ℝ with `c = cos 2a`, `s = sin 2a`.
A sample carries all four Stokes components; absent ones are never read (`present_*` theorems), so every
statement holds for the kinds I, QU, IQU and IQUV alike, and pointwise for angle arrays of any shape.
-/
import FuraxModel.Stokes
import Mathlib.Analysis.SpecialFunctions.Trigonometric.Basic
import Mathlib.Tactic.Ring
import Mathlib.Tactic.LinearCombination
set_option linter.unusedSimpArgs false
namespace Furax.C15
open Furax SV

section ring
variable {α : Type} [CommRing α]

/-- the HWP Mueller matrix diag(1, 1, −1, −1) -/
theorem hwp_mueller (x : SV α) : hwp x = ⟨x.i, x.q, -x.u, -x.v⟩ := rfl

/-- the rotation Mueller matrix: (Q,U) rotated by the angle whose cosine/sine are `c`, `s`; I, V untouched -/
theorem rot_mueller (c s : α) (x : SV α) :
    (rot c s x).i = x.i ∧ (rot c s x).v = x.v ∧
    (rot c s x).q = c * x.q - s * x.u ∧ (rot c s x).u = s * x.q + c * x.u := by
  refine ⟨rfl, rfl, ?_, ?_⟩ <;> simp [rot] <;> ring

/-- the transpose class applies the transposed 2×2 block -/
theorem rotT_mueller (c s : α) (x : SV α) :
    (rotT c s x).q = c * x.q + s * x.u ∧ (rotT c s x).u = -s * x.q + c * x.u ∧
    (rotT c s x).i = x.i ∧ (rotT c s x).v = x.v := by
  refine ⟨?_, ?_, rfl, rfl⟩ <;> simp [rotT] <;> ring

/-- `Rᵀ` is `R` at the opposite angle (cos even, sin odd) -/
theorem rotT_eq_rot_neg (c s : α) (x : SV α) : rotT c s x = rot c (-s) x := by
  obtain ⟨i, q, u, v⟩ := x
  simp only [rot, rotT, hwp, SV.mk.injEq, true_and, and_true]
  refine ⟨?_, ?_⟩ <;> ring

/-- orthogonality: `Rᵀ R = I = R Rᵀ` whenever `c² + s² = 1` -/
theorem rotT_rot (c s : α) (h : c * c + s * s = 1) (x : SV α) : rotT c s (rot c s x) = x := by
  obtain ⟨i, q, u, v⟩ := x
  simp only [rot, rotT, SV.mk.injEq, true_and, and_true]
  constructor
  · linear_combination q * h
  · linear_combination u * h

theorem rot_rotT (c s : α) (h : c * c + s * s = 1) (x : SV α) : rot c s (rotT c s x) = x := by
  obtain ⟨i, q, u, v⟩ := x
  simp only [rot, rotT, SV.mk.injEq, true_and, and_true]
  constructor
  · linear_combination q * h
  · linear_combination u * h

/-- the adjoint: `⟨R x, y⟩ = ⟨x, Rᵀ y⟩` for the Euclidean inner product on (I,Q,U,V) -/
theorem rot_adjoint (c s : α) (x y : SV α) :
    (rot c s x).i * y.i + (rot c s x).q * y.q + (rot c s x).u * y.u + (rot c s x).v * y.v =
    x.i * (rotT c s y).i + x.q * (rotT c s y).q + x.u * (rotT c s y).u + x.v * (rotT c s y).v := by
  simp [rot, rotT]; ring

/-- the HWP is an involution and self-adjoint (diagonal) -/
theorem hwp_hwp (x : SV α) : hwp (hwp x) = x := by simp [hwp]

/-- composition of two rotations: cosine/sine of the sum -/
theorem rot_rot_cs (c1 s1 c2 s2 : α) (x : SV α) :
    rot c1 s1 (rot c2 s2 x) = rot (c1 * c2 - s1 * s2) (s1 * c2 + c1 * s2) x := by
  obtain ⟨i, q, u, v⟩ := x
  simp only [rot, rotT, hwp, SV.mk.injEq, true_and, and_true]
  refine ⟨?_, ?_⟩ <;> ring

/-- `QURotationHWPRule`: `R · HWP = HWP · Rᵀ` -/
theorem rot_hwp (c s : α) (x : SV α) : rot c s (hwp x) = hwp (rotT c s x) := by
  obtain ⟨i, q, u, v⟩ := x
  simp only [rot, rotT, hwp, SV.mk.injEq, true_and, and_true]
  refine ⟨?_, ?_⟩ <;> ring

/-- `QURotationHWPRule`, transpose case: `Rᵀ · HWP = HWP · R` -/
theorem rotT_hwp (c s : α) (x : SV α) : rotT c s (hwp x) = hwp (rot c s x) := by
  obtain ⟨i, q, u, v⟩ := x
  simp only [rot, rotT, hwp, SV.mk.injEq, true_and, and_true]
  refine ⟨?_, ?_⟩ <;> ring

/-- `LinearPolarizerHWPRule`: `P · HWP = P` for every kind -/
theorem pol_hwp (half : α) (k : StokesKind) (x : SV α) : pol half k (hwp x) = pol half k x := by
  cases k <;> rfl

/-- the polariser returns (I+Q)/2, or I/2, Q/2 when a component is absent -/
theorem pol_mueller (half : α) (x : SV α) :
    pol half .I x = half * x.i ∧ pol half .QU x = half * x.q ∧
    pol half .IQU x = half * (x.i + x.q) ∧ pol half .IQUV x = half * (x.i + x.q) := ⟨rfl, rfl, rfl, rfl⟩

/-- absent components are never read: the present components of the result depend only on the present
components of the input (so a kind-`k` pytree is all the code needs) -/
theorem present_hwp (k : StokesKind) (x y : SV α) (h : present k x = present k y) :
    present k (hwp x) = present k (hwp y) := by
  cases k <;> simp_all [present, hwp]

theorem present_rot (k : StokesKind) (c s : α) (x y : SV α) (h : present k x = present k y) :
    present k (rot c s x) = present k (rot c s y) := by
  cases k <;> simp_all [present, rot]

theorem present_rotT (k : StokesKind) (c s : α) (x y : SV α) (h : present k x = present k y) :
    present k (rotT c s x) = present k (rotT c s y) := by
  cases k <;> simp_all [present, rotT]

/-- on Stokes-I inputs rotation and HWP are the identity (the code returns `x` itself) -/
theorem present_I_unchanged (c s : α) (x : SV α) :
    present .I (hwp x) = present .I x ∧ present .I (rot c s x) = present .I x ∧
    present .I (rotT c s x) = present .I x := ⟨rfl, rfl, rfl⟩

end ring

section real
open Real

/-- the rotation by angle `a` as the code computes it: `cos(2a)`, `sin(2a)` -/
noncomputable def R (a : ℝ) (x : SV ℝ) : SV ℝ := rot (cos (2 * a)) (sin (2 * a)) x
noncomputable def RT (a : ℝ) (x : SV ℝ) : SV ℝ := rotT (cos (2 * a)) (sin (2 * a)) x

/-- `QURotationRule`, case R·R: `R(a) R(b) = R(a + b)` -/
theorem R_R (a b : ℝ) (x : SV ℝ) : R a (R b x) = R (a + b) x := by
  simp only [R, rot_rot_cs]
  rw [show 2 * (a + b) = 2 * a + 2 * b by ring, cos_add, sin_add]

/-- the transpose rotates by the opposite angle -/
theorem RT_eq_R_neg (a : ℝ) (x : SV ℝ) : RT a x = R (-a) x := by
  simp only [RT, R, rotT_eq_rot_neg]
  rw [show 2 * -a = -(2 * a) by ring, cos_neg, sin_neg]

/-- `QURotationRule`, case R·Rᵀ: `R(a) Rᵀ(b) = R(a − b)` -/
theorem R_RT (a b : ℝ) (x : SV ℝ) : R a (RT b x) = R (a - b) x := by
  rw [RT_eq_R_neg, R_R, sub_eq_add_neg]

/-- `QURotationRule`, case Rᵀ·R: `Rᵀ(a) R(b) = R(b − a)` -/
theorem RT_R (a b : ℝ) (x : SV ℝ) : RT a (R b x) = R (b - a) x := by
  rw [RT_eq_R_neg, R_R, sub_eq_add_neg, add_comm]

/-- `QURotationRule`, case Rᵀ·Rᵀ: `Rᵀ(a) Rᵀ(b) = R(−a − b)` -/
theorem RT_RT (a b : ℝ) (x : SV ℝ) : RT a (RT b x) = R (-a - b) x := by
  rw [RT_eq_R_neg, RT_eq_R_neg, R_R, sub_eq_add_neg]

/-- orthogonality over ℝ -/
theorem RT_R_self (a : ℝ) (x : SV ℝ) : RT a (R a x) = x := by
  apply rotT_rot
  have := cos_sq_add_sin_sq (2 * a)
  nlinarith [this]

/-- `R(a) · HWP = HWP · R(−a)` -/
theorem R_hwp (a : ℝ) (x : SV ℝ) : R a (hwp x) = hwp (R (-a) x) := by
  rw [← RT_eq_R_neg]; exact rot_hwp _ _ x

/-- the rotated-HWP factory `Rᵀ(a) · HWP · R(a)` equals `HWP · R(2a)` (what `reduce()` makes of it) -/
theorem factory_hwp (a : ℝ) (x : SV ℝ) : RT a (hwp (R a x)) = hwp (R (2 * a) x) := by
  unfold RT
  rw [rotT_hwp]
  show hwp (R a (R a x)) = _
  rw [R_R, two_mul]

/-- the rotated-polariser factory `P · R(a)` returns `(I + Q cos 2a − U sin 2a)/2` -/
theorem factory_pol (a : ℝ) (x : SV ℝ) :
    pol (1 / 2) .IQU (R a x) = (x.i + x.q * cos (2 * a) - x.u * sin (2 * a)) / 2 := by
  simp [pol, R, rot]; ring

/-- polariser · HWP · rotation (the SAT acquisition chain per sample):
`P · HWP · R(a) = P · R(a)` -/
theorem pol_hwp_R (a : ℝ) (k : StokesKind) (x : SV ℝ) :
    pol (1 / 2) k (hwp (R a x)) = pol (1 / 2) k (R a x) := pol_hwp _ k _

end real

/-! non-vacuity: the hypotheses of the ring-level theorems are met by a concrete non-trivial point -/
example : ((3 : ℚ) / 5) * (3 / 5) + (4 / 5) * (4 / 5) = 1 := by norm_num
example : rot ((3 : ℚ) / 5) (4 / 5) ⟨1, 2, 3, 4⟩ = ⟨1, -6 / 5, 17 / 5, 4⟩ := by
  simp [rot]; constructor <;> norm_num

end Furax.C15
