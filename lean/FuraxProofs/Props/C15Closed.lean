/-
C15 — Polarimetry operators realise their Mueller matrices: the closed statements, in the ONE list denotation
`den E o : List ℝ → List ℝ` (FuraxProofs/Sem/ListSem.lean).

A Stokes structure (`stokesOK`, FuraxProofs/Sem/StokesLaws.lean) has `|K|` leaves (`K` = I, QU, IQU, IQUV) of one shape
with `n` elements each; a flat vector is the `|K|` components concatenated, component `c`, sample `t` at position
`c·n + t`.  `sampleAt k n x t` is the Stokes vector of sample `t` (absent components `0`).

* §1  what `den` of a HWP / QU-rotation / polariser leaf IS, entry by entry (generic in the kind, and written out for
      each kind); the rotation angle of sample `t` is the NumPy broadcast of the angle array; `denT` of the rotation
      (and `den` of `QURotationTransposeOperator`) is the rotation by `−a`;
* §2  the chain laws, as equalities of `den E (.comp …)`;
* §3  the factory `HWPOperator.create(shape, stokes, angles=a)`: the chain `rot.T @ hwp @ rot` as `transposeOp` and
      `pyMatmul` build it, its denotation, and the denotation of what `reduce()` makes of it.
-/
import FuraxProofs.Props.C15
import FuraxProofs.Props.C01
import FuraxProofs.Sem.AcquisitionList
namespace Furax.C15
open Furax ListSem ListSem.Acq Op

/-- the Stokes vector of sample `t` of a flat vector of `|K|` components of `n` samples (absent components are `0`) -/
abbrev sampleAt (k : StokesKind) (n : Nat) (x : V) (t : Nat) : SV ℝ := skyAt k n x t

theorem sampleAt_IQUV (n : Nat) (x : V) (t : Nat) :
    sampleAt .IQUV n x t = ⟨x.getD t 0, x.getD (n + t) 0, x.getD (2 * n + t) 0, x.getD (3 * n + t) 0⟩ :=
  skyAt_IQUV x t
theorem sampleAt_IQU (n : Nat) (x : V) (t : Nat) :
    sampleAt .IQU n x t = ⟨x.getD t 0, x.getD (n + t) 0, x.getD (2 * n + t) 0, 0⟩ := skyAt_IQU x t
theorem sampleAt_QU (n : Nat) (x : V) (t : Nat) : sampleAt .QU n x t = ⟨0, x.getD t 0, x.getD (n + t) 0, 0⟩ :=
  skyAt_QU x t
theorem sampleAt_I (n : Nat) (x : V) (t : Nat) : sampleAt .I n x t = ⟨x.getD t 0, 0, 0, 0⟩ := skyAt_I x t

/-! ### 1. the leaves -/

section leaves
variable (E : Env) {p : Params} {k : StokesKind}

/-- a vector of a Stokes structure: `|K|` components of `n = prod(shape)` samples -/
theorem stokes_size {c : LeafCls} (h : stokesOK c p) (hk : kindOf p.inS.leaves.length = some k) :
    p.inS.size = nc k * prodNat (leafShape p) := by rw [stokesOK_size h hk, nc_eq]

/-- the kind of a Stokes structure is determined by its number of leaves -/
theorem stokes_kind {c : LeafCls} (h : stokesOK c p) : ∃ k, kindOf p.inS.leaves.length = some k ∧
    p.inS.leaves.length = nc k := by
  obtain ⟨k, hk⟩ := h.1
  exact ⟨k, hk, by rw [kindOf_ncomp hk, nc_eq]⟩

/-- every leaf of a Stokes structure has the common shape: sample `t` of component `c` sits at `c·n + t` -/
theorem stokes_leaves {c : LeafCls} (h : stokesOK c p) : ∀ l ∈ p.inS.leaves, l.shape = leafShape p := h.2.1

/-! #### half-wave plate -/

/-- **HWP, closed**: component `c`, sample `t` of `HWPOperator.mv(x)` is component `c` of `diag(1, 1, −1, −1)` applied
to the Stokes vector of sample `t` -/
theorem hwp_closed (u : Nat) (h : stokesOK .hwp p) (hk : kindOf p.inS.leaves.length = some k) (x : V)
    (hx : x.length = p.inS.size) (c t : Nat) (hc : c < nc k) (ht : t < prodNat (leafShape p)) :
    (den E (.leaf u .hwp p) x).getD (c * prodNat (leafShape p) + t) 0
      = (SV.present k (SV.hwp (sampleAt k (prodNat (leafShape p)) x t))).getD c 0 := by
  have hs := stokes_size h hk
  rw [den_hwp E u h hk x hx, stokesMap_getD k _ _ _ c t hc ht, ← skyAt_eq_svAt k x (hx.trans hs) t ht]

/-- the output has the declared structure (`@diagonal`: the output structure is the input structure) -/
theorem hwp_length (u : Nat) (h : stokesOK .hwp p) (hk : kindOf p.inS.leaves.length = some k) (x : V)
    (hx : x.length = p.inS.size) :
    (den E (.leaf u .hwp p) x).length = (Op.outS (.leaf u .hwp p)).size ∧ Op.outS (.leaf u .hwp p) = p.inS := by
  refine ⟨?_, rfl⟩
  rw [den_hwp E u h hk x hx, stokesMap_length]
  exact (stokesOK_size h hk).symm

/-- written out: I and Q are kept, U and V change sign -/
theorem hwp_closed_IQUV (u : Nat) (h : stokesOK .hwp p) (hk : kindOf p.inS.leaves.length = some .IQUV) (x : V)
    (hx : x.length = p.inS.size) (t : Nat) (ht : t < prodNat (leafShape p)) :
    let n := prodNat (leafShape p)
    let y := den E (.leaf u .hwp p) x
    y.getD t 0 = x.getD t 0 ∧ y.getD (n + t) 0 = x.getD (n + t) 0 ∧
    y.getD (2 * n + t) 0 = -x.getD (2 * n + t) 0 ∧ y.getD (3 * n + t) 0 = -x.getD (3 * n + t) 0 := by
  intro n y
  have hh := fun c hc => hwp_closed E u h hk x hx c t hc ht
  have h0 := hh 0 (by decide)
  have h1 := hh 1 (by decide)
  have h2 := hh 2 (by decide)
  have h3 := hh 3 (by decide)
  simp only [Nat.zero_mul, Nat.zero_add, Nat.one_mul, sampleAt_IQUV] at h0 h1 h2 h3
  exact ⟨h0, h1, h2, h3⟩

theorem hwp_closed_IQU (u : Nat) (h : stokesOK .hwp p) (hk : kindOf p.inS.leaves.length = some .IQU) (x : V)
    (hx : x.length = p.inS.size) (t : Nat) (ht : t < prodNat (leafShape p)) :
    let n := prodNat (leafShape p)
    let y := den E (.leaf u .hwp p) x
    y.getD t 0 = x.getD t 0 ∧ y.getD (n + t) 0 = x.getD (n + t) 0 ∧ y.getD (2 * n + t) 0 = -x.getD (2 * n + t) 0 := by
  intro n y
  have hh := fun c hc => hwp_closed E u h hk x hx c t hc ht
  have h0 := hh 0 (by decide)
  have h1 := hh 1 (by decide)
  have h2 := hh 2 (by decide)
  simp only [Nat.zero_mul, Nat.zero_add, Nat.one_mul, sampleAt_IQU] at h0 h1 h2
  exact ⟨h0, h1, h2⟩

theorem hwp_closed_QU (u : Nat) (h : stokesOK .hwp p) (hk : kindOf p.inS.leaves.length = some .QU) (x : V)
    (hx : x.length = p.inS.size) (t : Nat) (ht : t < prodNat (leafShape p)) :
    let n := prodNat (leafShape p)
    let y := den E (.leaf u .hwp p) x
    y.getD t 0 = x.getD t 0 ∧ y.getD (n + t) 0 = -x.getD (n + t) 0 := by
  intro n y
  have hh := fun c hc => hwp_closed E u h hk x hx c t hc ht
  have h0 := hh 0 (by decide)
  have h1 := hh 1 (by decide)
  simp only [Nat.zero_mul, Nat.zero_add, Nat.one_mul, sampleAt_QU] at h0 h1
  exact ⟨h0, h1⟩

/-- on intensity-only data the HWP is the identity (the code returns `x` itself) -/
theorem hwp_closed_I (u : Nat) (h : stokesOK .hwp p) (hk : kindOf p.inS.leaves.length = some .I) (x : V)
    (hx : x.length = p.inS.size) (t : Nat) (ht : t < prodNat (leafShape p)) :
    (den E (.leaf u .hwp p) x).getD t 0 = x.getD t 0 := by
  have h0 := hwp_closed E u h hk x hx 0 t (by decide) ht
  simp only [Nat.zero_mul, Nat.zero_add, sampleAt_I] at h0
  exact h0

/-! #### QU rotation -/

/-- **the angle of sample `t`** is the entry of the angle array read by NumPy broadcasting: the multi-index of `t` in
the leaf shape (`unravel`), restricted to the trailing axes of the angle array with length-1 axes reading index `0`
(`bcastIndex`), flattened in the angle array (`ravelIdx`) -/
theorem angle_closed (h : stokesOK .qurot p) (t : Nat) (ht : t < prodNat (leafShape p)) :
    angleAt p.vals (leafShape p) t
      = ((p.vals.data.getD (ravelIdx p.vals.shape (bcastIndex p.vals.shape (unravel (leafShape p) t))) 0 : Rat) : ℝ) :=
  angleAt_eq p.vals (leafShape p) t (h.2.2.1 rfl).1 (h.2.2.1 rfl).2 ht

/-- … and that multi-index is a valid index of the angle array -/
theorem angle_index_valid (h : stokesOK .qurot p) (t : Nat) (ht : t < prodNat (leafShape p)) :
    ravelIdx p.vals.shape (bcastIndex p.vals.shape (unravel (leafShape p) t)) < p.vals.data.length := by
  have hw : p.vals.data.length = prodNat p.vals.shape := by simpa [Tensor.wellFormed] using (h.2.2.1 rfl).1
  rw [hw]
  exact bIdx_lt _ _ (h.2.2.1 rfl).2 t ht

/-- **QU rotation, closed**: component `c`, sample `t` of `QURotationOperator.mv(x)` is component `c` of the Mueller
matrix of the rotation by the angle `a_t` of sample `t` applied to the Stokes vector of sample `t`
(`R a v = ⟨I, Q cos 2a − U sin 2a, Q sin 2a + U cos 2a, V⟩`) -/
theorem qurot_closed (u : Nat) (h : stokesOK .qurot p) (hk : kindOf p.inS.leaves.length = some k) (x : V)
    (hx : x.length = p.inS.size) (c t : Nat) (hc : c < nc k) (ht : t < prodNat (leafShape p)) :
    (den E (.leaf u .qurot p) x).getD (c * prodNat (leafShape p) + t) 0
      = (SV.present k (R (angleAt p.vals (leafShape p) t) (sampleAt k (prodNat (leafShape p)) x t))).getD c 0 := by
  have hs := stokes_size h hk
  rw [den_qurot E u h hk x hx, stokesMap_getD k _ _ _ c t hc ht, ← skyAt_eq_svAt k x (hx.trans hs) t ht, rotG_eq]

theorem qurot_length (u : Nat) (h : stokesOK .qurot p) (hk : kindOf p.inS.leaves.length = some k) (x : V)
    (hx : x.length = p.inS.size) :
    (den E (.leaf u .qurot p) x).length = (Op.outS (.leaf u .qurot p)).size ∧ Op.outS (.leaf u .qurot p) = p.inS := by
  refine ⟨?_, rfl⟩
  rw [den_qurot E u h hk x hx, stokesMap_length]
  exact (stokesOK_size h hk).symm

/-- written out: `(Q, U)` is rotated by `2a`, `I` and `V` are fixed -/
theorem qurot_closed_IQUV (u : Nat) (h : stokesOK .qurot p) (hk : kindOf p.inS.leaves.length = some .IQUV) (x : V)
    (hx : x.length = p.inS.size) (t : Nat) (ht : t < prodNat (leafShape p)) :
    let n := prodNat (leafShape p)
    let a := angleAt p.vals (leafShape p) t
    let y := den E (.leaf u .qurot p) x
    y.getD t 0 = x.getD t 0 ∧
    y.getD (n + t) 0 = x.getD (n + t) 0 * Real.cos (2 * a) - x.getD (2 * n + t) 0 * Real.sin (2 * a) ∧
    y.getD (2 * n + t) 0 = x.getD (n + t) 0 * Real.sin (2 * a) + x.getD (2 * n + t) 0 * Real.cos (2 * a) ∧
    y.getD (3 * n + t) 0 = x.getD (3 * n + t) 0 := by
  intro n a y
  have hh := fun c hc => qurot_closed E u h hk x hx c t hc ht
  have h0 := hh 0 (by decide)
  have h1 := hh 1 (by decide)
  have h2 := hh 2 (by decide)
  have h3 := hh 3 (by decide)
  simp only [Nat.zero_mul, Nat.zero_add, Nat.one_mul, sampleAt_IQUV] at h0 h1 h2 h3
  exact ⟨h0, h1, h2, h3⟩

theorem qurot_closed_IQU (u : Nat) (h : stokesOK .qurot p) (hk : kindOf p.inS.leaves.length = some .IQU) (x : V)
    (hx : x.length = p.inS.size) (t : Nat) (ht : t < prodNat (leafShape p)) :
    let n := prodNat (leafShape p)
    let a := angleAt p.vals (leafShape p) t
    let y := den E (.leaf u .qurot p) x
    y.getD t 0 = x.getD t 0 ∧
    y.getD (n + t) 0 = x.getD (n + t) 0 * Real.cos (2 * a) - x.getD (2 * n + t) 0 * Real.sin (2 * a) ∧
    y.getD (2 * n + t) 0 = x.getD (n + t) 0 * Real.sin (2 * a) + x.getD (2 * n + t) 0 * Real.cos (2 * a) := by
  intro n a y
  have hh := fun c hc => qurot_closed E u h hk x hx c t hc ht
  have h0 := hh 0 (by decide)
  have h1 := hh 1 (by decide)
  have h2 := hh 2 (by decide)
  simp only [Nat.zero_mul, Nat.zero_add, Nat.one_mul, sampleAt_IQU] at h0 h1 h2
  exact ⟨h0, h1, h2⟩

theorem qurot_closed_QU (u : Nat) (h : stokesOK .qurot p) (hk : kindOf p.inS.leaves.length = some .QU) (x : V)
    (hx : x.length = p.inS.size) (t : Nat) (ht : t < prodNat (leafShape p)) :
    let n := prodNat (leafShape p)
    let a := angleAt p.vals (leafShape p) t
    let y := den E (.leaf u .qurot p) x
    y.getD t 0 = x.getD t 0 * Real.cos (2 * a) - x.getD (n + t) 0 * Real.sin (2 * a) ∧
    y.getD (n + t) 0 = x.getD t 0 * Real.sin (2 * a) + x.getD (n + t) 0 * Real.cos (2 * a) := by
  intro n a y
  have hh := fun c hc => qurot_closed E u h hk x hx c t hc ht
  have h0 := hh 0 (by decide)
  have h1 := hh 1 (by decide)
  simp only [Nat.zero_mul, Nat.zero_add, Nat.one_mul, sampleAt_QU] at h0 h1
  exact ⟨h0, h1⟩

/-- on intensity-only data the rotation is the identity -/
theorem qurot_closed_I (u : Nat) (h : stokesOK .qurot p) (hk : kindOf p.inS.leaves.length = some .I) (x : V)
    (hx : x.length = p.inS.size) (t : Nat) (ht : t < prodNat (leafShape p)) :
    (den E (.leaf u .qurot p) x).getD t 0 = x.getD t 0 := by
  have h0 := qurot_closed E u h hk x hx 0 t (by decide) ht
  simp only [Nat.zero_mul, Nat.zero_add, sampleAt_I] at h0
  exact h0

/-- **the transpose of the rotation is the rotation by `−a`** (`denT`: what `op.T.mv` computes) -/
theorem qurotT_closed (u : Nat) (h : stokesOK .qurot p) (hk : kindOf p.inS.leaves.length = some k) (x : V)
    (hx : x.length = p.inS.size) (c t : Nat) (hc : c < nc k) (ht : t < prodNat (leafShape p)) :
    (denT E (.leaf u .qurot p) x).getD (c * prodNat (leafShape p) + t) 0
      = (SV.present k (R (-angleAt p.vals (leafShape p) t) (sampleAt k (prodNat (leafShape p)) x t))).getD c 0 := by
  have hs := stokes_size h hk
  rw [denT_qurot E u h hk x hx, stokesMap_getD k _ _ _ c t hc ht, ← skyAt_eq_svAt k x (hx.trans hs) t ht, rotTG_eq,
    RT_eq_R_neg]

/-- `den` of the form `transposeOp` builds (`QURotationTransposeOperator(rot)`) is that map -/
theorem qurotT_wrap_closed (uw u : Nat) (h : stokesOK .qurot p) (hk : kindOf p.inS.leaves.length = some k) (x : V)
    (hx : x.length = p.inS.size) (c t : Nat) (hc : c < nc k) (ht : t < prodNat (leafShape p)) :
    transposeOp (.leaf u .qurot p) = .ok (.wrap 0 .qurotT (.leaf u .qurot p)) ∧
    (den E (.wrap uw .qurotT (.leaf u .qurot p)) x).getD (c * prodNat (leafShape p) + t) 0
      = (SV.present k (R (-angleAt p.vals (leafShape p) t) (sampleAt k (prodNat (leafShape p)) x t))).getD c 0 := by
  refine ⟨by simp [transposeOp, isSymmetricLeaf], ?_⟩
  have e : den E (.wrap uw .qurotT (.leaf u .qurot p)) x = denT E (.leaf u .qurot p) x := by simp only [den]
  rw [e]
  exact qurotT_closed E u h hk x hx c t hc ht

/-! #### linear polariser -/

theorem polarizer_outSize (h : stokesOK .polarizer p) : p.outS.size = prodNat (leafShape p) := by
  obtain ⟨l, hl, hsh⟩ := h.2.2.2 rfl
  simp [Struct.size, hl, LeafS.size, hsh]

/-- **linear polariser, closed**: sample `t` of the one detector leaf is the first row `(1/2, 1/2, 0, 0)` of the
polariser's Mueller matrix applied to the Stokes vector of sample `t`; an absent component does not contribute -/
theorem polarizer_closed (u : Nat) (h : stokesOK .polarizer p) (hk : kindOf p.inS.leaves.length = some k) (x : V)
    (hx : x.length = p.inS.size) (t : Nat) (ht : t < prodNat (leafShape p)) :
    (den E (.leaf u .polarizer p) x).getD t 0 = SV.pol (1 / 2 : ℝ) k (sampleAt k (prodNat (leafShape p)) x t) := by
  have hs := stokes_size h hk
  rw [den_polarizer E u hk x hx, fit_eq_self (by rw [polMap_length, polarizer_outSize h]), polMap_eq,
    List.getD_eq_getElem _ _ (by simpa using ht)]
  simp only [List.getElem_map, List.getElem_range]
  rw [← skyAt_eq_svAt k x (hx.trans hs) t ht]

/-- the output has the declared (one-leaf) structure -/
theorem polarizer_length (u : Nat) (h : stokesOK .polarizer p) (hk : kindOf p.inS.leaves.length = some k) (x : V)
    (hx : x.length = p.inS.size) :
    (den E (.leaf u .polarizer p) x).length = (Op.outS (.leaf u .polarizer p)).size ∧
    Op.outS (.leaf u .polarizer p) = p.outS ∧ p.outS.size = prodNat (leafShape p) := by
  refine ⟨?_, rfl, polarizer_outSize h⟩
  rw [den_polarizer E u hk x hx, fit_length]
  rfl

/-- written out: `(I + Q)/2`; `I/2` when Q is absent; `Q/2` when I is absent -/
theorem polarizer_closed_IQUV (u : Nat) (h : stokesOK .polarizer p) (hk : kindOf p.inS.leaves.length = some .IQUV)
    (x : V) (hx : x.length = p.inS.size) (t : Nat) (ht : t < prodNat (leafShape p)) :
    (den E (.leaf u .polarizer p) x).getD t 0 = (x.getD t 0 + x.getD (prodNat (leafShape p) + t) 0) / 2 := by
  rw [polarizer_closed E u h hk x hx t ht, sampleAt_IQUV]
  simp only [SV.pol]; ring

theorem polarizer_closed_IQU (u : Nat) (h : stokesOK .polarizer p) (hk : kindOf p.inS.leaves.length = some .IQU)
    (x : V) (hx : x.length = p.inS.size) (t : Nat) (ht : t < prodNat (leafShape p)) :
    (den E (.leaf u .polarizer p) x).getD t 0 = (x.getD t 0 + x.getD (prodNat (leafShape p) + t) 0) / 2 := by
  rw [polarizer_closed E u h hk x hx t ht, sampleAt_IQU]
  simp only [SV.pol]; ring

theorem polarizer_closed_QU (u : Nat) (h : stokesOK .polarizer p) (hk : kindOf p.inS.leaves.length = some .QU)
    (x : V) (hx : x.length = p.inS.size) (t : Nat) (ht : t < prodNat (leafShape p)) :
    (den E (.leaf u .polarizer p) x).getD t 0 = x.getD t 0 / 2 := by
  rw [polarizer_closed E u h hk x hx t ht, sampleAt_QU]
  simp only [SV.pol]; ring

theorem polarizer_closed_I (u : Nat) (h : stokesOK .polarizer p) (hk : kindOf p.inS.leaves.length = some .I)
    (x : V) (hx : x.length = p.inS.size) (t : Nat) (ht : t < prodNat (leafShape p)) :
    (den E (.leaf u .polarizer p) x).getD t 0 = x.getD t 0 / 2 := by
  rw [polarizer_closed E u h hk x hx t ht, sampleAt_I]
  simp only [SV.pol]; ring

/-- **the transpose of the polariser** (`denT`: what `op.T.mv` computes): a detector sample `y_t` is sent to the Stokes
vector `(y_t/2, y_t/2, 0, 0)` — the first row of the Mueller matrix as a column — of which the present components are
kept -/
theorem polarizerT_closed (u : Nat) (h : stokesOK .polarizer p) (hk : kindOf p.inS.leaves.length = some k) (y : V)
    (hy : y.length = p.outS.size) (c t : Nat) (hc : c < nc k) (ht : t < prodNat (leafShape p)) :
    (denT E (.leaf u .polarizer p) y).getD (c * prodNat (leafShape p) + t) 0
      = (SV.present k (⟨(1 / 2 : ℝ) * y.getD t 0, (1 / 2 : ℝ) * y.getD t 0, 0, 0⟩ : SV ℝ)).getD c 0 := by
  have hs := stokesOK_size h hk
  have e : denT E (.leaf u .polarizer p) y = fit p.inS.size (polTMap k (prodNat (leafShape p)) y) := by
    simp only [denT, leafDenT, squareLeaf, Bool.false_eq_true, if_false, hk, headD_size]
    rw [fit_eq_self hy]
  have e2 : polTMap k (prodNat (leafShape p)) y = stokesMap k (prodNat (leafShape p))
      (fun t _ => (⟨(1 / 2 : ℝ) * y.getD t 0, (1 / 2 : ℝ) * y.getD t 0, 0, 0⟩ : SV ℝ)) [] := rfl
  rw [e, fit_eq_self (by rw [e2, stokesMap_length, hs]), e2, stokesMap_getD k _ _ _ c t hc ht]

end leaves

/-! ### 2. the chain laws, in `den E (.comp …)` -/

section chains
variable (E : Env)

theorem den_comp2 (uc : Nat) (a b : Op) (x : V) : den E (.comp uc [a, b]) x = den E a (den E b x) := by
  simp only [den, app]

theorem den_comp3 (uc : Nat) (a b c : Op) (x : V) :
    den E (.comp uc [a, b, c]) x = den E a (den E b (den E c x)) := by
  simp only [den, app]

/-- entry `(c, t)` of a sample-wise map -/
theorem stokesMap_entry (k : StokesKind) (n : Nat) (g : Nat → SV ℝ → SV ℝ) (x : V) (hx : x.length = nc k * n)
    (c t : Nat) (hc : c < nc k) (ht : t < n) :
    (stokesMap k n g x).getD (c * n + t) 0 = (SV.present k (g t (sampleAt k n x t))).getD c 0 := by
  rw [stokesMap_getD k n g x c t hc ht, ← skyAt_eq_svAt k x hx t ht]

/-- the parameters of the rotation by the opposite angles -/
def negAngles (p : Params) : Params := { p with vals := p.vals.map (- ·) }

theorem negAngles_ok {p : Params} (h : stokesOK .qurot p) : stokesOK .qurot (negAngles p) := by
  obtain ⟨w, b, -⟩ := angleAt_neg p.vals (leafShape p) (h.2.2.1 rfl).1 (h.2.2.1 rfl).2
  exact ⟨h.1, h.2.1, fun _ => ⟨w, b⟩, fun hc => by cases hc⟩

theorem negAngles_angle {p : Params} (h : stokesOK .qurot p) (t : Nat) (ht : t < prodNat (leafShape p)) :
    angleAt (negAngles p).vals (leafShape (negAngles p)) t = -angleAt p.vals (leafShape p) t :=
  (angleAt_neg p.vals (leafShape p) (h.2.2.1 rfl).1 (h.2.2.1 rfl).2).2.2 t ht

/-- **`Rᵀ(a) = R(−a)` as operators**: `denT` of a rotation leaf — and `den` of `QURotationTransposeOperator(rot)`, the
form `transposeOp` builds — is `den` of the rotation leaf with the opposite angles -/
theorem qurotT_eq_neg (uw u u' : Nat) {p : Params} (h : stokesOK .qurot p) (x : V) (hx : x.length = p.inS.size) :
    denT E (.leaf u .qurot p) x = den E (.leaf u' .qurot (negAngles p)) x ∧
    den E (.wrap uw .qurotT (.leaf u .qurot p)) x = den E (.leaf u' .qurot (negAngles p)) x := by
  obtain ⟨k, hk⟩ := h.1
  have e : den E (.wrap uw .qurotT (.leaf u .qurot p)) x = denT E (.leaf u .qurot p) x := by simp only [den]
  rw [e, and_self, denT_qurot E u h hk x hx, den_qurot E u' (negAngles_ok h) hk x hx]
  apply stokesMap_congr
  intro t ht
  rw [rotG_eq, rotTG_eq, RT_eq_R_neg]
  exact congrArg _ (congrArg (fun a => R a _) (negAngles_angle h t ht).symm)

variable {pl pr : Params}

/-- **R(a) ∘ R(b) = R(a + b)**, entry by entry, the angles of both operands NumPy-broadcast to sample `t` -/
theorem rot_rot_entry (uc ul ur : Nat) {k : StokesKind} (hl : stokesOK .qurot pl) (hr : stokesOK .qurot pr)
    (hS : pl.inS = pr.inS) (hk : kindOf pr.inS.leaves.length = some k) (x : V) (hx : x.length = pr.inS.size)
    (c t : Nat) (hc : c < nc k) (ht : t < prodNat (leafShape pr)) :
    (den E (.comp uc [.leaf ul .qurot pl, .leaf ur .qurot pr]) x).getD (c * prodNat (leafShape pr) + t) 0
      = (SV.present k (R (angleAt pl.vals (leafShape pr) t + angleAt pr.vals (leafShape pr) t)
          (sampleAt k (prodNat (leafShape pr)) x t))).getD c 0 := by
  obtain ⟨k', hk', hkl, hsh, -, -, hsz⟩ := pair_facts hl hr hS
  obtain rfl : k' = k := Option.some.inj (hk'.symm.trans hk)
  rw [den_comp2, den_qurot E ur hr hk x hx, den_qurot E ul hl hkl _ (by rw [stokesMap_length, hS, hsz]), hsh,
    stokesMap_comp _ _ _ _ _ (rotG_resp _ _ _), stokesMap_entry _ _ _ _ (by rw [hx, hsz, nc_eq]) c t hc ht,
    rotG_eq, rotG_eq, R_R]

/-- **R(a) ∘ R(b) = R(a + b)**, as operators: the composition is the rotation leaf `QURotationRule` builds, whose
angle array is the broadcast sum of the operands' angle arrays -/
theorem rot_rot_closed (uc ul ur : Nat) (a : Tensor Rat) (hl : stokesOK .qurot pl) (hr : stokesOK .qurot pr)
    (hS : pl.inS = pr.inS) (ha : tensorOp (· + ·) pl.vals pr.vals = .ok a) :
    stokesOK .qurot { inS := pr.inS, outS := pr.inS, vals := a } ∧
    (∀ t, t < prodNat (leafShape pr) →
      angleAt a (leafShape pr) t = angleAt pl.vals (leafShape pr) t + angleAt pr.vals (leafShape pr) t) ∧
    ∀ x : V, x.length = pr.inS.size →
      den E (.comp uc [.leaf ul .qurot pl, .leaf ur .qurot pr]) x = den E (mkQURot a pr.inS) x := by
  obtain ⟨h1, h2⟩ := ListSem.rot_rot E ul pl ur pr a hl hr hS ha
  exact ⟨h1, fun t ht => angleAt_add hl hr hS ha t ht, fun x hx => by rw [den_comp2]; exact (h2 x hx).symm⟩

/-- **R(a) ∘ HWP = HWP ∘ R(−a)** (`QURotationHWPRule`), with `R(−a)` as the lazy transpose … -/
theorem rot_hwp_closed (uc uc' uw ul ur : Nat) (hl : stokesOK .qurot pl) (hr : stokesOK .hwp pr)
    (hS : pl.inS = pr.inS) (x : V) (hx : x.length = pr.inS.size) :
    den E (.comp uc [.leaf ul .qurot pl, .leaf ur .hwp pr]) x
      = den E (.comp uc' [.leaf ur .hwp pr, .wrap uw .qurotT (.leaf ul .qurot pl)]) x := by
  rw [den_comp2, den_comp2]
  exact (ListSem.rot_hwp E uw ul pl ur pr hl hr hS x hx).symm

/-- … and with `R(−a)` as the rotation leaf of the opposite angles -/
theorem rot_hwp_neg_closed (uc uc' ul ul' ur : Nat) (hl : stokesOK .qurot pl) (hr : stokesOK .hwp pr)
    (hS : pl.inS = pr.inS) (x : V) (hx : x.length = pr.inS.size) :
    den E (.comp uc [.leaf ul .qurot pl, .leaf ur .hwp pr]) x
      = den E (.comp uc' [.leaf ur .hwp pr, .leaf ul' .qurot (negAngles pl)]) x := by
  rw [rot_hwp_closed E uc uc' 0 ul ur hl hr hS x hx, den_comp2, den_comp2,
    (qurotT_eq_neg E 0 ul ul' hl x (by rw [hS]; exact hx)).2]

/-- the mirror case: **Rᵀ(a) ∘ HWP = HWP ∘ R(a)** -/
theorem rotT_hwp_closed (uc uc' uw ul ur : Nat) (hl : stokesOK .qurot pl) (hr : stokesOK .hwp pr)
    (hS : pl.inS = pr.inS) (x : V) (hx : x.length = pr.inS.size) :
    den E (.comp uc [.wrap uw .qurotT (.leaf ul .qurot pl), .leaf ur .hwp pr]) x
      = den E (.comp uc' [.leaf ur .hwp pr, .leaf ul .qurot pl]) x := by
  rw [den_comp2, den_comp2]
  exact (ListSem.rotT_hwp E uw ul pl ur pr hl hr hS x hx).symm

/-- **P ∘ HWP = P** (`LinearPolarizerHWPRule`) -/
theorem pol_hwp_closed (uc ul ur : Nat) (hl : stokesOK .polarizer pl) (hr : stokesOK .hwp pr)
    (hS : pl.inS = pr.inS) (x : V) (hx : x.length = pr.inS.size) :
    den E (.comp uc [.leaf ul .polarizer pl, .leaf ur .hwp pr]) x = den E (.leaf ul .polarizer pl) x := by
  rw [den_comp2]
  exact (ListSem.polarizer_hwp E ul pl ur pr hl hr hS x hx).symm

/-- **Rᵀ R = id = R Rᵀ** (orthogonality) -/
theorem rotT_rot_closed (uc uw u : Nat) {p : Params} (h : stokesOK .qurot p) (x : V) (hx : x.length = p.inS.size) :
    den E (.comp uc [.wrap uw .qurotT (.leaf u .qurot p), .leaf u .qurot p]) x = x ∧
    den E (.comp uc [.leaf u .qurot p, .wrap uw .qurotT (.leaf u .qurot p)]) x = x := by
  rw [den_comp2, den_comp2]
  exact qurot_inv_wrap E uw u p h x hx

/-- the HWP is an involution: **HWP ∘ HWP = id** -/
theorem hwp_hwp_closed (uc u u' : Nat) {p : Params} (h : stokesOK .hwp p) (x : V) (hx : x.length = p.inS.size) :
    den E (.comp uc [.leaf u .hwp p, .leaf u' .hwp p]) x = x := by
  obtain ⟨k, hk⟩ := h.1
  have hsz := stokesOK_size h hk
  rw [den_comp2, den_hwp E u' h hk x hx, den_hwp E u h hk _ (by rw [stokesMap_length, hsz]),
    stokesMap_comp _ _ _ _ _ (hwp_resp k)]
  apply stokesMap_id _ _ _ _ (by rw [hx, hsz])
  intro t _
  rw [hwp_hwp]

end chains

theorem option_mapM_isSome {β γ : Type} (f : β → Option γ) (l : List β) (h : ∀ b ∈ l, ∃ c, f b = some c) :
    ∃ r, l.mapM f = some r := by
  induction l with
  | nil => exact ⟨[], rfl⟩
  | cons b bs ih =>
    obtain ⟨c, hc⟩ := h b List.mem_cons_self
    obtain ⟨r, hr⟩ := ih (fun b' hb' => h b' (List.mem_cons_of_mem _ hb'))
    exact ⟨c :: r, by rw [List.mapM_cons, hc, hr]; rfl⟩

/-- two shapes that both broadcast to `S` broadcast with each other -/
theorem broadcastShapes_of_Bc (a b S : List Nat) (ha : Bc a S) (hb : Bc b S) : ∃ s, broadcastShapes a b = some s := by
  unfold broadcastShapes
  apply option_mapM_isSome
  intro p hp
  obtain ⟨j, hj, rfl⟩ := List.getElem_of_mem hp
  simp only [List.length_zip, List.length_append, List.length_replicate] at hj
  obtain ⟨a1, a2⟩ := ha
  obtain ⟨b1, b2⟩ := hb
  have hA := padded_getD a (max a.length b.length) j
  have hB := padded_getD b (max a.length b.length) j
  rw [List.getD_eq_getElem _ _ (by simp; omega)] at hA hB
  simp only [List.getElem_zip]
  rw [hA, hB]
  have hx : (if j < max a.length b.length - a.length then 1 else a.getD (j - (max a.length b.length - a.length)) 0) = 1 ∨
      (if j < max a.length b.length - a.length then 1 else a.getD (j - (max a.length b.length - a.length)) 0)
        = S.getD (j + (S.length - max a.length b.length)) 0 := by
    split
    · exact Or.inl rfl
    · rcases a2 (j - (max a.length b.length - a.length)) (by omega) with e | e
      · exact Or.inl e
      · right; rw [e]; congr 1; omega
  have hy : (if j < max a.length b.length - b.length then 1 else b.getD (j - (max a.length b.length - b.length)) 0) = 1 ∨
      (if j < max a.length b.length - b.length then 1 else b.getD (j - (max a.length b.length - b.length)) 0)
        = S.getD (j + (S.length - max a.length b.length)) 0 := by
    split
    · exact Or.inl rfl
    · rcases b2 (j - (max a.length b.length - b.length)) (by omega) with e | e
      · exact Or.inl e
      · right; rw [e]; congr 1; omega
  rcases hx with ex | ex <;> rcases hy with ey | ey <;> rw [ex, ey] <;> simp
  all_goals split <;> simp

/-- the sum of the angle arrays of two valid rotations on the same structure always exists -/
theorem angles_add_ok {pl pr : Params} (hl : stokesOK .qurot pl) (hr : stokesOK .qurot pr) (hS : pl.inS = pr.inS) :
    ∃ a, tensorOp (· + ·) pl.vals pr.vals = .ok a := by
  obtain ⟨k, hk, hkl, hsh, wl, bl, hsz⟩ := pair_facts hl hr hS
  obtain ⟨s, hs⟩ := broadcastShapes_of_Bc pl.vals.shape pr.vals.shape (leafShape pr) bl (hr.2.2.1 rfl).2
  unfold tensorOp Tensor.zipBroadcast
  simp [hs]

/-- **R(a) ∘ R(b) = R(a + b)**, unconditionally: the broadcast sum of the angle arrays exists, is a valid angle array
for the structure, and the composition is the rotation by it -/
theorem rot_rot_exists (E : Env) (uc ul ur : Nat) {pl pr : Params} (hl : stokesOK .qurot pl) (hr : stokesOK .qurot pr)
    (hS : pl.inS = pr.inS) :
    ∃ a, tensorOp (· + ·) pl.vals pr.vals = .ok a ∧
      stokesOK .qurot { inS := pr.inS, outS := pr.inS, vals := a } ∧
      (∀ t, t < prodNat (leafShape pr) →
        angleAt a (leafShape pr) t = angleAt pl.vals (leafShape pr) t + angleAt pr.vals (leafShape pr) t) ∧
      ∀ x : V, x.length = pr.inS.size →
        den E (.comp uc [.leaf ul .qurot pl, .leaf ur .qurot pr]) x = den E (mkQURot a pr.inS) x := by
  obtain ⟨a, ha⟩ := angles_add_ok hl hr hS
  exact ⟨a, ha, rot_rot_closed E uc ul ur a hl hr hS ha⟩

/-! ### 3. the factory `HWPOperator.create(shape, dtype, stokes, angles=a)`

    in_structure = StokesPyTree.class_for(stokes).structure_for(shape, dtype)
    hwp = cls(in_structure);  rot = QURotationOperator(angles, in_structure)
    return rot.T @ hwp @ rot
-/

section factory
variable (E : Env)

/-- `QURotationOperator(angles, s)` -/
def rotOf (ur : Nat) (s : Struct) (angles : Tensor Rat) : Op :=
  .leaf ur .qurot { inS := s, outS := s, vals := angles }
/-- `HWPOperator(s)` -/
def hwpOf (uh : Nat) (s : Struct) : Op := .leaf uh .hwp { inS := s, outS := s }

/-- the rotated half-wave plate: `rot.T @ hwp @ rot` -/
def hwpFactory (uh ur : Nat) (s : Struct) (angles : Tensor Rat) : Op :=
  .comp 0 [.wrap 0 .qurotT (rotOf ur s angles), hwpOf uh s, rotOf ur s angles]

/-- **the modelled `.T` and `@` build exactly this chain**: `rot.T` is `QURotationTransposeOperator(rot)`
(`transposeOp`), `rot.T @ hwp` a two-operand composition (`AbstractLinearOperator.__matmul__`: the HWP is not the
operand of the lazy inverse), `(…) @ rot` appends (`CompositionOperator.__matmul__`) -/
theorem hwpFactory_built (uh ur : Nat) (s : Struct) (angles : Tensor Rat) :
    (transposeOp (rotOf ur s angles) >>= fun rt => pyMatmul rt (hwpOf uh s) >>= fun rh =>
        pyMatmul rh (rotOf ur s angles)) = .ok (hwpFactory uh ur s angles) := by
  simp [transposeOp, isSymmetricLeaf, pyMatmul, matmulOf, baseMatmul, rotOf, hwpOf, hwpFactory, Op.inS, Op.outS,
    squareLeaf, isComp, lazyInverseOf, same, beq, mkComp, inSLast, bind, Except.bind]

variable {s : Struct} {angles : Tensor Rat} {k : StokesKind}

/-- the validity of the two leaves is that of the rotation: `s` is a Stokes structure and the angles broadcast to
the shape of its leaves -/
theorem hwpOf_ok (h : stokesOK .qurot { inS := s, outS := s, vals := angles }) :
    stokesOK .hwp { inS := s, outS := s } :=
  ⟨h.1, h.2.1, fun hc => (by cases hc), fun hc => (by cases hc)⟩

/-- **the factory, closed**: sample by sample `Rᵀ(a_t) · HWP · R(a_t)`, which is `HWP · R(2 a_t)` -/
theorem hwpFactory_closed (uh ur : Nat) (h : stokesOK .qurot { inS := s, outS := s, vals := angles })
    (hk : kindOf s.leaves.length = some k) (x : V) (hx : x.length = s.size) (c t : Nat) (hc : c < nc k)
    (ht : t < prodNat (s.leaves.headD default).shape) :
    let n := prodNat (s.leaves.headD default).shape
    let a := angleAt angles (s.leaves.headD default).shape t
    (den E (hwpFactory uh ur s angles) x).getD (c * n + t) 0
        = (SV.present k (RT a (SV.hwp (R a (sampleAt k n x t))))).getD c 0 ∧
    (den E (hwpFactory uh ur s angles) x).getD (c * n + t) 0
        = (SV.present k (SV.hwp (R (2 * a) (sampleAt k n x t)))).getD c 0 := by
  intro n a
  have hh := hwpOf_ok h
  have hsz : s.size = ncomp k * n := stokesOK_size h hk
  have key : den E (hwpFactory uh ur s angles) x
      = stokesMap k n (fun t v => rotTG angles (s.leaves.headD default).shape t
          (SV.hwp (rotG angles (s.leaves.headD default).shape t v))) x := by
    rw [hwpFactory, den_comp3, rotOf, hwpOf, den_qurot E ur h hk x hx]
    show den E _ (den E _ (stokesMap k n _ x)) = _
    rw [den_hwp E uh hh hk _ (by rw [stokesMap_length]; exact hsz.symm)]
    show den E _ (stokesMap k n _ (stokesMap k n _ x)) = _
    rw [den_qurotT E 0 ur h hk _ (by rw [stokesMap_length]; exact hsz.symm)]
    show stokesMap k n _ (stokesMap k n _ (stokesMap k n _ x)) = _
    rw [stokesMap_comp _ _ _ _ _ (hwp_resp k), stokesMap_comp _ _ _ _ _ (rotTG_resp _ _ _)]
    rfl
  have e := stokesMap_entry k n (fun t v => rotTG angles (s.leaves.headD default).shape t
      (SV.hwp (rotG angles (s.leaves.headD default).shape t v))) x (by rw [hx, hsz, nc_eq]) c t hc ht
  rw [key, e]
  refine ⟨rfl, ?_⟩
  show (SV.present k (RT a (SV.hwp (R a _)))).getD c 0 = _
  rw [factory_hwp]

/-- written out for IQUV data: `I` is kept, `(Q, U)` is rotated by `4a` and `U` flipped, `V` is flipped -/
theorem hwpFactory_closed_IQUV (uh ur : Nat) (h : stokesOK .qurot { inS := s, outS := s, vals := angles })
    (hk : kindOf s.leaves.length = some .IQUV) (x : V) (hx : x.length = s.size) (t : Nat)
    (ht : t < prodNat (s.leaves.headD default).shape) :
    let n := prodNat (s.leaves.headD default).shape
    let a := angleAt angles (s.leaves.headD default).shape t
    let y := den E (hwpFactory uh ur s angles) x
    y.getD t 0 = x.getD t 0 ∧
    y.getD (n + t) 0 = x.getD (n + t) 0 * Real.cos (2 * (2 * a)) - x.getD (2 * n + t) 0 * Real.sin (2 * (2 * a)) ∧
    y.getD (2 * n + t) 0
      = -(x.getD (n + t) 0 * Real.sin (2 * (2 * a)) + x.getD (2 * n + t) 0 * Real.cos (2 * (2 * a))) ∧
    y.getD (3 * n + t) 0 = -x.getD (3 * n + t) 0 := by
  intro n a y
  have hh := fun c hc => (hwpFactory_closed E uh ur h hk x hx c t hc ht).2
  have h0 := hh 0 (by decide)
  have h1 := hh 1 (by decide)
  have h2 := hh 2 (by decide)
  have h3 := hh 3 (by decide)
  simp only [Nat.zero_mul, Nat.zero_add, Nat.one_mul, sampleAt_IQUV] at h0 h1 h2 h3
  exact ⟨h0, h1, h2, h3⟩

/-- the factory chain is well formed in the sense of the closed soundness theorem of `reduce()`: the leaves are
valid, the structures match, and the lazy inverse `rot.T` wraps an invertible operand (a rotation is orthogonal) -/
theorem hwpFactory_wt (uh ur : Nat) (h : stokesOK .qurot { inS := s, outS := s, vals := angles }) :
    WTExpr (listArithSem E).invertible listLeafOK (hwpFactory uh ur s angles) := by
  have hq : listLeafOK .qurot { inS := s, outS := s, vals := angles } := h
  have hh : listLeafOK .hwp { inS := s, outS := s } := hwpOf_ok h
  simp only [hwpFactory, rotOf, hwpOf, WTExpr, WTList, Chain, WrapOK, WrapCls.isLazy]
  exact ⟨by simp, ⟨⟨hq, fun _ => ⟨rfl, qurot_invertibleG E ur _ h⟩, fun _ => rfl, by simp, by simp⟩, hh, hq, trivial⟩,
    rfl, rfl, trivial⟩

/-- **the factory after `reduce()`**: whatever `reduceTop` returns denotes the same map — an instance of
`C01.reduceTop_sound_closed` — hence is sample-wise `Rᵀ(a) · HWP · R(a) = HWP · R(2a)` too -/
theorem hwpFactory_reduced_closed (uh ur : Nat) (h : stokesOK .qurot { inS := s, outS := s, vals := angles })
    (r : Op) (hred : reduceTop (hwpFactory uh ur s angles) = .ok r) (x : V) (hx : x.length = s.size) :
    den E r x = den E (hwpFactory uh ur s angles) x :=
  (C01.reduceTop_sound_closed E _ r (hwpFactory_wt E uh ur h) hred).2.2.2 x hx

theorem hwpFactory_reduced_entry (uh ur : Nat) (h : stokesOK .qurot { inS := s, outS := s, vals := angles })
    (hk : kindOf s.leaves.length = some k) (r : Op) (hred : reduceTop (hwpFactory uh ur s angles) = .ok r)
    (x : V) (hx : x.length = s.size) (c t : Nat) (hc : c < nc k) (ht : t < prodNat (s.leaves.headD default).shape) :
    (den E r x).getD (c * prodNat (s.leaves.headD default).shape + t) 0
      = (SV.present k (SV.hwp (R (2 * angleAt angles (s.leaves.headD default).shape t)
          (sampleAt k (prodNat (s.leaves.headD default).shape) x t)))).getD c 0 := by
  rw [hwpFactory_reduced_closed E uh ur h r hred x hx]
  exact (hwpFactory_closed E uh ur h hk x hx c t hc ht).2

end factory

/-! #### what `reduce()` returns, for all parameters

`QURotationHWPRule` rewrites `Rᵀ @ H` into `H @ R` (the operand of the lazy transpose), then `QURotationRule` merges
`R @ R` into the rotation by the broadcast sum `a + a`; no other rule fires. -/

section reduced
theorem fire_wh (red : Op → Except PyErr Op) (uh ur : Nat) (s : Struct) (angles : Tensor Rat) :
    fireFirst (reductionCfg red).rules (.wrap 0 .qurotT (rotOf ur s angles)) (hwpOf uh s)
      = .ok (some [hwpOf uh s, rotOf ur s angles]) := by
  simp [fireFirst, reductionCfg, binaryRules, dropIdentities, inverseBinaryRule, moveAxisInverseRule,
    reshapeInverseRule, packUnpackRule, blockRule, indexTransposeRule, transposeIndexRule, quRotationRule,
    quRotationHWPRule, linearPolarizerHWPRule, identityRule, rotOf, hwpOf, isLazyInverse, operator?, same, beq,
    isRavelOrReshape, isReshapeT, isWrapCls, isPack, isLeafCls, isTransposeOperator, isQURot, isQURotT, isHWP,
    isIdentity, Op.uid]

theorem fire_hr (red : Op → Except PyErr Op) (uh u : Nat) (s : Struct) (p : Params) :
    fireFirst (reductionCfg red).rules (hwpOf uh s) (.leaf u .qurot p) = .ok none := by
  simp [fireFirst, reductionCfg, binaryRules, dropIdentities, inverseBinaryRule, moveAxisInverseRule,
    reshapeInverseRule, packUnpackRule, blockRule, indexTransposeRule, transposeIndexRule, quRotationRule,
    quRotationHWPRule, linearPolarizerHWPRule, identityRule, hwpOf, isLazyInverse, operator?, same,
    isRavelOrReshape, isReshapeT, isWrapCls, isPack, isLeafCls, isTransposeOperator, isQURot, isQURotT, isHWP,
    isIdentity, isPolarizer, Op.uid]

theorem fire_rr (red : Op → Except PyErr Op) (ur : Nat) (s : Struct) (angles a : Tensor Rat)
    (ha : tensorOp (· + ·) angles angles = .ok a) :
    fireFirst (reductionCfg red).rules (rotOf ur s angles) (rotOf ur s angles) = .ok (some [mkQURot a s]) := by
  simp [fireFirst, reductionCfg, binaryRules, dropIdentities, inverseBinaryRule, moveAxisInverseRule,
    reshapeInverseRule, packUnpackRule, blockRule, indexTransposeRule, transposeIndexRule, quRotationRule,
    quRotationHWPRule, linearPolarizerHWPRule, identityRule, rotOf, isLazyInverse, operator?, same,
    isRavelOrReshape, isReshapeT, isWrapCls, isPack, isLeafCls, isTransposeOperator, isQURot, isQURotT, isHWP,
    isIdentity, Op.uid, anglesOf, ha, mkQURot, Op.inS]


theorem fire_hr1 (red : Op → Except PyErr Op) (uh ur : Nat) (s : Struct) (angles : Tensor Rat) :
    fireFirst (reductionCfg red).rules (hwpOf uh s) (rotOf ur s angles) = .ok none := fire_hr red uh ur s _
theorem fire_hr2 (red : Op → Except PyErr Op) (uh : Nat) (s : Struct) (a : Tensor Rat) :
    fireFirst (reductionCfg red).rules (hwpOf uh s) (mkQURot a s) = .ok none := fire_hr red uh 0 s _

theorem hom_hwpOf (red : Op → Except PyErr Op) (uh : Nat) (s : Struct) : (reductionCfg red).isHom (hwpOf uh s) = false := rfl
theorem hom_rotOf (red : Op → Except PyErr Op) (ur : Nat) (s : Struct) (angles : Tensor Rat) :
    (reductionCfg red).isHom (rotOf ur s angles) = false := rfl
theorem hom_mkQURot (red : Op → Except PyErr Op) (s : Struct) (a : Tensor Rat) :
    (reductionCfg red).isHom (mkQURot a s) = false := rfl

theorem scan_hwpFactory (red : Op → Except PyErr Op) (uh ur : Nat) (s : Struct) (angles a : Tensor Rat)
    (ha : tensorOp (· + ·) angles angles = .ok a) (fuel : Nat) :
    scan (reductionCfg red) (fuel + 5) [.wrap 0 .qurotT (rotOf ur s angles), hwpOf uh s, rotOf ur s angles] 0
      = .ok (some [hwpOf uh s, mkQURot a s]) := by
  simp [scan, splice, fire_wh, fire_hr1, fire_hr2, fire_rr red ur s angles a ha, hom_hwpOf, hom_rotOf, hom_mkQURot]

theorem reduceTop_hwpFactory (uh ur : Nat) (s : Struct) (angles a : Tensor Rat)
    (ha : tensorOp (· + ·) angles angles = .ok a) :
    reduceTop (hwpFactory uh ur s angles) = .ok (.comp 0 [hwpOf uh s, mkQURot a s]) := by
  have hd : reduceTop (hwpFactory uh ur s angles) = reduce 14 (hwpFactory uh ur s angles) := rfl
  have hw : reduce 13 (.wrap 0 .qurotT (rotOf ur s angles)) = .ok (.wrap 0 .qurotT (rotOf ur s angles)) := rfl
  have hh : reduce 13 (hwpOf uh s) = .ok (hwpOf uh s) := rfl
  have hq : reduce 13 (rotOf ur s angles) = .ok (rotOf ur s angles) := rfl
  have e1 : identityRule [.wrap 0 .qurotT (rotOf ur s angles), hwpOf uh s, rotOf ur s angles]
      = [.wrap 0 .qurotT (rotOf ur s angles), hwpOf uh s, rotOf ur s angles] := rfl
  have e2 : homothetyRule [.wrap 0 .qurotT (rotOf ur s angles), hwpOf uh s, rotOf ur s angles]
      = [.wrap 0 .qurotT (rotOf ur s angles), hwpOf uh s, rotOf ur s angles] := rfl
  have hal : algebraicReduction (reduce 13) [.wrap 0 .qurotT (rotOf ur s angles), hwpOf uh s, rotOf ur s angles]
      = .ok [hwpOf uh s, mkQURot a s] := by
    unfold algebraicReduction
    simp only [e1, e2]
    have hf : scanFuel [Op.wrap 0 .qurotT (rotOf ur s angles), hwpOf uh s, rotOf ur s angles].length = 227 + 5 := rfl
    rw [hf, scan_hwpFactory (reduce 13) uh ur s angles a ha]
    rfl
  rw [hd, hwpFactory, show (14 : Nat) = 13 + 1 from rfl, Acq.reduce_comp]
  simp only [List.mapM_cons, List.mapM_nil, hw, hh, hq, bind, Except.bind, pure, Except.pure, hal]
  rfl

/-- **the reduced factory, explicitly**: `HWP @ R(a + a)`, and it denotes the same map -/
theorem hwpFactory_reduced (E : Env) (uh ur : Nat) {s : Struct} {angles : Tensor Rat} (a : Tensor Rat)
    (h : stokesOK .qurot { inS := s, outS := s, vals := angles }) (ha : tensorOp (· + ·) angles angles = .ok a)
    (x : V) (hx : x.length = s.size) :
    den E (.comp 0 [hwpOf uh s, mkQURot a s]) x = den E (hwpFactory uh ur s angles) x :=
  hwpFactory_reduced_closed E uh ur h _ (reduceTop_hwpFactory uh ur s angles a ha) x hx

/-- … and the sum `a + a` always exists for a valid rotation: **`reduce()` of the factory is `HWP @ R(a + a)`** -/
theorem hwpFactory_reduced_exists (E : Env) (uh ur : Nat) {s : Struct} {angles : Tensor Rat}
    (h : stokesOK .qurot { inS := s, outS := s, vals := angles }) :
    ∃ a, tensorOp (· + ·) angles angles = .ok a ∧
      reduceTop (hwpFactory uh ur s angles) = .ok (.comp 0 [hwpOf uh s, mkQURot a s]) ∧
      (∀ t, t < prodNat (s.leaves.headD default).shape →
        angleAt a (s.leaves.headD default).shape t = 2 * angleAt angles (s.leaves.headD default).shape t) ∧
      ∀ x : V, x.length = s.size →
        den E (.comp 0 [hwpOf uh s, mkQURot a s]) x = den E (hwpFactory uh ur s angles) x := by
  obtain ⟨a, ha⟩ := angles_add_ok h h rfl
  refine ⟨a, ha, reduceTop_hwpFactory uh ur s angles a ha, fun t ht => ?_, fun x hx => hwpFactory_reduced E uh ur a h ha x hx⟩
  have := angleAt_add h h rfl ha t ht
  rw [two_mul]
  exact this

end reduced

/-! ### 4. non-vacuity: IQU maps of shape (2, 3), one angle per column -/

namespace ClosedExamples
open ListSem.Examples

def hwpP : Params := { inS := iqu, outS := iqu }
def polP : Params := { inS := iqu, outS := ⟨[.leaf], [⟨[2, 3], .f64⟩]⟩ }

theorem hwpP_ok : stokesOK .hwp hwpP := hwpOf_ok (s := iqu) (angles := rotP.vals) rotP_ok
theorem polP_ok : stokesOK .polarizer polP :=
  ⟨⟨.IQU, rfl⟩, by decide, fun h => (by cases h), fun _ => ⟨_, rfl, rfl⟩⟩
theorem iqu_kind : kindOf iqu.leaves.length = some .IQU := rfl
theorem iqu_n : prodNat (leafShape rotP) = 6 := rfl

/-- the hypotheses of `qurot_closed` (and of `_IQU`) are met: `U` of sample `(1, 1)` (flat position `4`) -/
example (E : Env) (x : V) (hx : x.length = 18) :
    (den E (.leaf 3 .qurot rotP) x).getD (2 * 6 + 4) 0
      = x.getD (6 + 4) 0 * Real.sin (2 * angleAt rotP.vals [2, 3] 4)
        + x.getD (2 * 6 + 4) 0 * Real.cos (2 * angleAt rotP.vals [2, 3] 4) :=
  (qurot_closed_IQU E 3 rotP_ok iqu_kind x hx 4 (by decide)).2.2

/-- … and the angle of that sample is the one of column `1` (NumPy broadcasting of shape `(3,)` to `(2, 3)`) -/
example : angleAt rotP.vals (leafShape rotP) 4 = (((1 / 2 : Rat)) : ℝ) := by
  rw [angle_closed rotP_ok 4 (by decide)]
  rfl

example (E : Env) (x : V) (hx : x.length = 18) :
    (den E (.leaf 8 .hwp hwpP) x).getD (2 * 6 + 4) 0 = -x.getD (2 * 6 + 4) 0 :=
  (hwp_closed_IQU E 8 hwpP_ok iqu_kind x hx 4 (by decide)).2.2

example (E : Env) (x : V) (hx : x.length = 18) :
    (den E (.leaf 9 .polarizer polP) x).getD 4 0 = (x.getD 4 0 + x.getD (6 + 4) 0) / 2 :=
  polarizer_closed_IQU E 9 polP_ok iqu_kind x hx 4 (by decide)

/-- `R(a) ∘ R(a) = R(2a)`: the hypotheses of `rot_rot_closed` are met, the sum of the angle arrays is computed -/
theorem sum_angles : tensorOp (· + ·) rotP.vals rotP.vals = .ok ⟨[3], [0, 1, 2]⟩ := by with_unfolding_all rfl

example (E : Env) (x : V) (hx : x.length = 18) :
    den E (.comp 7 [.leaf 3 .qurot rotP, .leaf 3 .qurot rotP]) x = den E (mkQURot ⟨[3], [0, 1, 2]⟩ iqu) x :=
  (rot_rot_closed E 7 3 3 ⟨[3], [0, 1, 2]⟩ rotP_ok rotP_ok rfl sum_angles).2.2 x hx

example (E : Env) (x : V) (hx : x.length = 18) :
    den E (.comp 7 [.leaf 3 .qurot rotP, .leaf 8 .hwp hwpP]) x
      = den E (.comp 0 [.leaf 8 .hwp hwpP, .leaf 0 .qurot (negAngles rotP)]) x :=
  rot_hwp_neg_closed E 7 0 3 0 8 rotP_ok hwpP_ok rfl x hx

/-- the factory on this structure, and what `reduce()` makes of it (by evaluation of the model): `QURotationHWPRule`
moves the HWP to the left (`Rᵀ H = H R`), `QURotationRule` adds the angles -/
theorem factory_red : reduceTop (hwpFactory 8 3 iqu rotP.vals)
    = .ok (.comp 0 [hwpOf 8 iqu, mkQURot ⟨[3], [0, 1, 2]⟩ iqu]) := by with_unfolding_all rfl

example (E : Env) (x : V) (hx : x.length = 18) :
    den E (.comp 0 [hwpOf 8 iqu, mkQURot ⟨[3], [0, 1, 2]⟩ iqu]) x = den E (hwpFactory 8 3 iqu rotP.vals) x :=
  hwpFactory_reduced_closed E 8 3 rotP_ok _ factory_red x hx

/-- the same from the general form of the reduced factory -/
example : reduceTop (hwpFactory 8 3 iqu rotP.vals) = .ok (.comp 0 [hwpOf 8 iqu, mkQURot ⟨[3], [0, 1, 2]⟩ iqu]) :=
  reduceTop_hwpFactory 8 3 iqu rotP.vals _ sum_angles

example (E : Env) (x : V) (hx : x.length = 18) :
    (den E (.comp 0 [hwpOf 8 iqu, mkQURot ⟨[3], [0, 1, 2]⟩ iqu]) x).getD (1 * 6 + 4) 0
      = (SV.present .IQU (SV.hwp (R (2 * angleAt rotP.vals [2, 3] 4) (sampleAt .IQU 6 x 4)))).getD 1 0 :=
  hwpFactory_reduced_entry E 8 3 rotP_ok iqu_kind _ factory_red x hx 1 4 (by decide) (by decide)

end ClosedExamples

#print axioms hwp_closed
#print axioms hwp_closed_IQUV
#print axioms angle_closed
#print axioms qurot_closed
#print axioms qurot_closed_IQUV
#print axioms qurotT_closed
#print axioms qurotT_wrap_closed
#print axioms qurotT_eq_neg
#print axioms polarizer_closed
#print axioms polarizer_closed_IQU
#print axioms polarizerT_closed
#print axioms rot_rot_entry
#print axioms rot_rot_closed
#print axioms rot_rot_exists
#print axioms rot_hwp_closed
#print axioms rot_hwp_neg_closed
#print axioms rotT_hwp_closed
#print axioms pol_hwp_closed
#print axioms rotT_rot_closed
#print axioms hwp_hwp_closed
#print axioms hwpFactory_built
#print axioms hwpFactory_closed
#print axioms hwpFactory_closed_IQUV
#print axioms hwpFactory_wt
#print axioms hwpFactory_reduced_closed
#print axioms hwpFactory_reduced_entry
#print axioms reduceTop_hwpFactory
#print axioms hwpFactory_reduced
#print axioms hwpFactory_reduced_exists
#print axioms ClosedExamples.factory_red

end Furax.C15
