/-
C16 — The acquisition operator equals the explicit pointing model.  (partial)

`Acquisition.rotationMatrix`, `rotate`, `project`, `acquire` (FuraxModel/Acquisition.lean) are what the compiled
driver executes.  Not modelled: `arccos`, `arctan2` and the HEALPix lookup (A5, A8): the map from the rotated
direction to the pixel `p(d, t)` is an arbitrary function in the theorems and is validated only differentially,
against an independent NumPy Euler rotation and healpy.
-/
import FuraxModel.Acquisition
import FuraxProofs.Props.C12
import FuraxProofs.Props.C15
import Mathlib.Tactic.Ring
namespace Furax.C16
open Furax Acquisition SV

section ring
variable {α : Type} [CommRing α]

/-- elementary rotations about Z and Y, as 3×3 row lists -/
def Rz (c s : α) : Mat3 α := [[c, -s, 0], [s, c, 0], [0, 0, 1]]
def Ry (c s : α) : Mat3 α := [[c, 0, s], [0, 1, 0], [-s, 0, c]]

def mul3 (a b : Mat3 α) : Mat3 α :=
  a.map fun row => (List.range 3).map fun j =>
    (List.zipWith (fun x (brow : List α) => x * brow.getD j 0) row b).foldl (· + ·) 0

/-- **the rotation matrix of the source is the Z-Y-Z Euler rotation `Rz(φ) · Ry(θ) · Rz(ψ)`** (a polynomial
identity in the six cosines and sines: it holds for all angles) -/
theorem rotation_is_ZYZ (c1 s1 c2 s2 c3 s3 : α) :
    rotationMatrix c1 s1 c2 s2 c3 s3 = mul3 (mul3 (Rz c1 s1) (Ry c2 s2)) (Rz c3 s3) := by
  simp only [rotationMatrix, mul3, Rz, Ry, List.map, List.range, List.range.loop, List.zipWith, List.foldl,
    List.getD_cons_zero, List.getD_cons_succ]
  simp only [List.cons.injEq, and_true]
  refine ⟨⟨?_, ?_, ?_⟩, ⟨?_, ?_, ?_⟩, ⟨?_, ?_, ?_⟩⟩ <;> ring

/-- the rotation is orthogonal whenever each (c, s) pair lies on the unit circle: rotated unit vectors stay unit
vectors (first column as an instance: the image of the X axis) -/
theorem rotated_x_axis_is_unit (c1 s1 c2 s2 c3 s3 : α) (h1 : c1 * c1 + s1 * s1 = 1) (h2 : c2 * c2 + s2 * s2 = 1)
    (h3 : c3 * c3 + s3 * s3 = 1) :
    (-(s1 * s3) + c1 * c2 * c3) * (-(s1 * s3) + c1 * c2 * c3) + (c1 * s3 + s1 * c2 * c3) * (c1 * s3 + s1 * c2 * c3)
      + (-(s2 * c3)) * (-(s2 * c3)) = 1 := by
  linear_combination (c2 * c2 * c3 * c3 + s3 * s3) * h1 + c3 * c3 * h2 + h3

/-- **projection**: for ANY pixel function, the projection returns the sky Stokes vector found at the pointed
pixel with (Q, U) rotated by the angle whose doubled cosine / sine are `c`, `s`; I and V untouched -/
theorem projection_spec (c s : α) (sky : SV α) :
    (project c s sky).i = sky.i ∧ (project c s sky).v = sky.v ∧
    (project c s sky).q = sky.q * c - sky.u * s ∧ (project c s sky).u = sky.q * s + sky.u * c :=
  ⟨rfl, rfl, rfl, rfl⟩

/-- **acquisition** (polariser ∘ HWP ∘ projection), per sample: `(I + Q c − U s) / 2` for IQU and IQUV skies,
`(Q c − U s)/2` for QU, `I/2` for I -/
theorem acquisition_spec (half c s : α) (sky : SV α) :
    acquire half .IQU c s sky = half * (sky.i + (sky.q * c - sky.u * s)) ∧
    acquire half .IQUV c s sky = half * (sky.i + (sky.q * c - sky.u * s)) ∧
    acquire half .QU c s sky = half * (sky.q * c - sky.u * s) ∧
    acquire half .I c s sky = half * sky.i := ⟨rfl, rfl, rfl, rfl⟩

/-- identically before and after reduction: `reduce()` removes the HWP (polariser ∘ HWP = polariser) -/
theorem acquisition_reduced (half : α) (k : StokesKind) (c s : α) (sky : SV α) :
    acquire half k c s sky = pol half k (rot c s sky) := C15.pol_hwp half k (rot c s sky)

end ring

/-- over ℝ with the position angle ψ: `(I + Q cos 2ψ − U sin 2ψ) / 2` -/
theorem acquisition_real (ψ : ℝ) (sky : SV ℝ) :
    acquire (1 / 2) .IQU (Real.cos (2 * ψ)) (Real.sin (2 * ψ)) sky
      = (sky.i + sky.q * Real.cos (2 * ψ) - sky.u * Real.sin (2 * ψ)) / 2 := by
  simp only [acquire, pol, hwp, rot]; ring

/-- **`Pᵀ P` is the diagonal of hit counts**, per Stokes component: the QU rotations cancel (`Rᵀ R = I`, C15)
and what remains is indexᵀ ∘ index, the diagonal of selection multiplicities (C12) — `pos` lists, for every
(detector, sample) pair, the pixel it hits -/
theorem ptp_is_hit_count_diagonal {α : Type} [CommSemiring α] [Inhabited α] (npix : Nat) (pos : List Nat)
    (x : List α) (hpos : ∀ p ∈ pos, p < npix) (hx : x.length = npix) :
    Index.scatterAdd npix pos (Index.gather pos x) = (List.range npix).map fun p => (pos.count p : α) * x.getD p 0 :=
  C12.pTp_is_multiplicity_diagonal npix pos x hpos hx

theorem rotations_cancel_in_ptp {α : Type} [CommRing α] (c s : α) (h : c * c + s * s = 1) (x : SV α) :
    rotT c s (rot c s x) = x := C15.rotT_rot c s h x

end Furax.C16
