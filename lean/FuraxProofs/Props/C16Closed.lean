/-
C16 — The acquisition operator equals the explicit pointing model: the closed statements, in the faithful list
denotation (FuraxProofs/Sem/AcquisitionList.lean).  `projOp` / `acqOp` are the model expressions that
`create_projection_operator` / `create_acquisition` build (`pyMatmul` of the parts gives exactly these chains:
`projOp_matmul`, `acqOp_matmul`); the pixel hit by detector `d` at sample `t` is a PARAMETER (`vals`): the HEALPix
pixelisation itself is not modelled (that part of C16 stays differential).
-/
import FuraxProofs.Props.C16
import FuraxProofs.Sem.AcquisitionList
namespace Furax.C16
open Furax ListSem ListSem.Acq

/-- **projection**: component `c` of detector `d`, sample `t` is component `c` of the sky Stokes vector at the
pixel hit, with (Q, U) rotated by twice the position angle of the sample -/
theorem projection_closed (E : Env) (k : StokesKind) {npix ndet nsamp : Nat} {vals : List Int} {angles : Tensor Rat}
    (hv : Valid npix ndet nsamp vals angles) (x : V) (hx : x.length = nc k * npix) (c d t : Nat) (hc : c < nc k)
    (hd : d < ndet) (ht : t < nsamp) :
    (den E (projOp k npix ndet nsamp vals angles) x).getD (c * (ndet * nsamp) + (d * nsamp + t)) 0
      = (SV.present k (SV.rot (Real.cos (2 * psi angles t)) (Real.sin (2 * psi angles t))
          (skyAt k npix x (pix vals (d * nsamp + t))))).getD c 0 :=
  Acq.projection_closed E k hv x hx c d t hc hd ht

/-- **acquisition**: `(I + Q cos 2ψ_t − U sin 2ψ_t)/2` at the pixel hit (IQU; the other kinds drop the absent
components) -/
theorem acquisition_closed_IQU (E : Env) {npix ndet nsamp : Nat} {vals : List Int} {angles : Tensor Rat}
    (hv : Valid npix ndet nsamp vals angles) (x : V) (hx : x.length = 3 * npix) (d t : Nat) (hd : d < ndet)
    (ht : t < nsamp) :
    (den E (acqOp .IQU npix ndet nsamp vals angles) x).getD (d * nsamp + t) 0 =
      (x.getD (pix vals (d * nsamp + t)) 0
        + x.getD (npix + pix vals (d * nsamp + t)) 0 * Real.cos (2 * psi angles t)
        - x.getD (2 * npix + pix vals (d * nsamp + t)) 0 * Real.sin (2 * psi angles t)) / 2 :=
  Acq.acquisition_closed_IQU E hv x hx d t hd ht

/-- **identically before and after reduction**: whatever `reduce()` returns for the acquisition chain computes the
same vector on every sky (an instance of `C01.reduceTop_sound_closed`), and the model's `reduceTop` does rewrite it
(the half-wave plate in front of the polariser disappears, the no-op ravel is dropped) -/
theorem acquisition_reduced_closed (E : Env) (k : StokesKind) {npix ndet nsamp : Nat} {vals : List Int}
    {angles : Tensor Rat} (hv : Valid npix ndet nsamp vals angles) (r : Op)
    (h : reduceTop (acqOp k npix ndet nsamp vals angles) = .ok r) (x : V) (hx : x.length = nc k * npix) :
    den E r x = den E (acqOp k npix ndet nsamp vals angles) x :=
  Acq.acquisition_reduced_closed E k hv r h x hx

/-- **`P.T @ P` multiplies every component of every pixel by its hit count** -/
theorem ptp_closed (E : Env) (k : StokesKind) {npix ndet nsamp : Nat} {vals : List Int} {angles : Tensor Rat}
    (hv : Valid npix ndet nsamp vals angles) (x : V) (hx : x.length = nc k * npix) :
    denT E (projOp k npix ndet nsamp vals angles) (den E (projOp k npix ndet nsamp vals angles) x)
      = hitSky k npix ndet nsamp vals x :=
  Acq.ptp_closed E k hv x hx

end Furax.C16
