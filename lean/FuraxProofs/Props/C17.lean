/-
C17 — Sky pixelisation maps coordinates to indices consistently.

`roundHalfEven`, `pixel2indexInt`, `pixel2index`, `indexDType`, `coverage` are the functions the compiled
driver executes (FuraxModel/Landscape.lean).  The HEALPix lookup itself (`jax_healpy.ang2pix`) is outside the
model (A5): agreement with healpy is checked differentially only.
-/
import FuraxProofs.Lemmas.Pixel
namespace Furax.C17
open Furax Landscape

/-- rounding goes to the nearest pixel centre: the rounded value is within 1/2 of the coordinate … -/
theorem rounds_to_nearest (q : Rat) : |(roundHalfEven q : Rat) - q| ≤ 1 / 2 := round_nearest q

/-- … and integer coordinates (pixel centres) are fixed points -/
theorem rounds_integers_to_themselves (n : Int) : roundHalfEven (n : Rat) = n := round_int n

/-- in-map coordinates: the flat index is the mixed-radix number with the first coordinate fastest
(`i₀ + d₀·(i₁ + d₁·(i₂ + …))`), for any number of dimensions -/
theorem index_inside (ds : List Nat) (is : List Int) (h : ds.length = is.length) (hne : ds ≠ [])
    (hr : inRange ds is = true) : pixel2indexInt ds is = some (mixedRadix ds is) :=
  pixel2indexInt_inRange ds is h hne hr

/-- any coordinate outside the map in any dimension yields −1 -/
theorem index_outside (ds : List Nat) (is : List Int) (h : ds.length = is.length) (hne : ds ≠ [])
    (hr : inRange ds is = false) : pixel2indexInt ds is = some (-1) :=
  pixel2indexInt_outside ds is h hne hr

/-- **bijection**: in-map integer coordinates ↔ `0 … N−1` -/
theorem index_in_bounds (ds : List Nat) (is : List Int) (h : ds.length = is.length)
    (hr : inRange ds is = true) : 0 ≤ mixedRadix ds is ∧ mixedRadix ds is < (prodNat ds : Int) :=
  mixedRadix_bounds ds is h hr

theorem index_injective (ds : List Nat) (is js : List Int) (hi : inRange ds is = true)
    (hj : inRange ds js = true) (heq : mixedRadix ds is = mixedRadix ds js) : is = js :=
  mixedRadix_injective ds is js hi hj heq

theorem index_surjective (ds : List Nat) (p : Int) (h0 : 0 ≤ p) (h1 : p < (prodNat ds : Int)) :
    ∃ is : List Int, is.length = ds.length ∧ inRange ds is = true ∧ mixedRadix ds is = p :=
  mixedRadix_surjective ds p h0 h1

/-- the index dtype is wide enough for N: int32 only when the largest index fits -/
theorem dtype_wide_enough (n : Nat) :
    (indexDType n = .i32 → (n : Int) - 1 ≤ 2 ^ 31 - 1) ∧ (indexDType n = .i64 ↔ (n : Int) - 1 > 2 ^ 31 - 1) :=
  indexDType_wide_enough n

/-- the coverage map is the histogram of sample hits … -/
theorem coverage_is_histogram (n : Nat) (idx : List Int) (p : Nat) (hp : p < n) :
    (coverage n idx).getD p 0 = (idx.filter (fun i => normIdx n i = Int.ofNat p)).length :=
  coverage_count n idx p hp

/-- … and sums to the number of samples -/
theorem coverage_sums_to_samples (n : Nat) (idx : List Int) (h : ∀ i ∈ idx, 0 ≤ i ∧ i < (n : Int)) :
    (coverage n idx).sum = idx.length := coverage_sum n idx h

/-! non-vacuity / concrete instances (tests, labelled as such) -/
example : pixel2indexInt [3, 2] [2, 1] = some 5 := by decide
example : pixel2indexInt [3, 2] [3, 1] = some (-1) := by decide
example : inRange [3, 2] [2, 1] = true ∧ mixedRadix [3, 2] [2, 1] = 5 := by decide

end Furax.C17
