/-
C18 — Results do not depend on JIT compilation or pytree round trips.  (partial)

What a proof can carry here is the pytree protocol: an equinox module flattens to (dynamic fields, (class,
static fields)) and is rebuilt field-wise without calling `__init__` (A7), so its round trip is the identity by
construction; a hand-registered node (the landscapes, `ConfigState`) flattens to `((), aux)` and is rebuilt by
CALLING THE CONSTRUCTOR with `aux` as keyword arguments, which only works when the keys are constructor
parameters.  These facts are tables regenerated from the source; the theorems are re-checked by the kernel.
Tracing itself (jit vs eager) is outside the model and is compared differentially in four execution modes.
-/
import FuraxProofs.Lemmas.Tables
namespace Furax.C18
open Furax

/-- **every landscape class round-trips through flatten / unflatten**: the metadata keys are exactly
constructor keyword arguments, all required parameters are present, nothing else is needed -/
theorem landscape_roundtrip : ∀ r ∈ Generated.landscapeTable, landscapeRoundTripOk r = true := by decide

/-- every operator class is a field-wise pytree: dynamic and static fields are disjoint -/
theorem module_fields_partition : ∀ r ∈ Generated.classTable, fieldsPartitionOk r = true := by decide

/-- the model of the protocol for a hand-registered node -/
structure Node where
  aux : List (String × Nat)       -- flattened metadata
  deriving DecidableEq, Repr

/-- `cls(**aux)` for a constructor taking `params` (those in `required` must be given) that stores its
arguments: fails (`none`, a `TypeError`) on an unexpected or missing keyword -/
def construct (params required : List String) (kw : List (String × Nat)) : Option Node :=
  if kw.all (fun p => params.contains p.1) && required.all (fun r => (kw.map (·.1)).contains r) then some ⟨kw⟩ else none

/-- if the keys are parameters and cover the required ones, unflatten ∘ flatten is the identity … -/
theorem roundtrip_of_keys_ok (params required : List String) (n : Node)
    (h1 : n.aux.all (fun p => params.contains p.1) = true)
    (h2 : required.all (fun r => (n.aux.map (·.1)).contains r) = true) :
    construct params required n.aux = some n := by
  unfold construct
  rw [h1, h2]
  rfl

/-- … and otherwise it raises (this was finding F8: `HealpixLandscape` flattened a `shape` key its constructor
does not take) -/
theorem roundtrip_fails_on_unexpected_key :
    construct ["nside", "stokes", "dtype"] ["nside"] [("shape", 48), ("dtype", 0), ("stokes", 1), ("nside", 2)] = none := by
  decide

/-- the solver configuration: its flattened metadata keys are its dataclass fields -/
theorem config_fields_pinned :
    Generated.configFields = ["solver", "solver_throw", "solver_options", "solver_callback"] := by decide

end Furax.C18
