/-
C19 — Solver configuration is scoped, restored and captured correctly.

`Config.step`, `run`, `trace`, `runWorld` are the functions the compiled driver executes.
Histories are arbitrary lists of events; "properly nested" is the inductive predicate `WN`.
-/
import FuraxModel.Config
namespace Furax.C19
open Furax Config

/-- properly nested histories, of any depth -/
inductive WN : List Ev → Prop where
  | nil : WN []
  | read (h) : WN h → WN (h ++ [.read])
  | mk (h id) : WN h → WN (h ++ [.mkInverse id])
  | apply (h id) : WN h → WN (h ++ [.applyInverse id])
  | block (a b kw) : WN a → WN b → WN (a ++ [.enter kw] ++ b ++ [.exit])
  | blockExc (a b kw) : WN a → WN b → WN (a ++ [.enter kw] ++ b ++ [.exitExc])
  | mkc (h id kw) : WN h → WN (h ++ [.mkConfig id kw])
  | blockObj (a b id) : WN a → WN b → WN (a ++ [.enterObj id] ++ b ++ [.exit])
  | blockObjExc (a b id) : WN a → WN b → WN (a ++ [.enterObj id] ++ b ++ [.exitExc])

theorem run_append (s : State) (a b : List Ev) : run s (a ++ b) = run (run s a) b := by
  simp [run, List.foldl_append]

theorem run_single (s : State) (e : Ev) : run s [e] = (step s e).1 := rfl

theorem step_exit_after_enter (s : State) (kw : Kw) (t : State)
    (h1 : t.tokens = (step s (.enter kw)).1.tokens) :
    (step t .exit).1.cur = s.cur ∧ (step t .exit).1.tokens = s.tokens ∧
    (step t .exitExc).1.cur = s.cur ∧ (step t .exitExc).1.tokens = s.tokens := by
  simp only [step] at h1
  simp [step, h1]

theorem step_exit_after_enterObj (s : State) (id : Nat) (t : State)
    (h1 : t.tokens = (step s (.enterObj id)).1.tokens) :
    (step t .exit).1.cur = s.cur ∧ (step t .exit).1.tokens = s.tokens ∧
    (step t .exitExc).1.cur = s.cur ∧ (step t .exitExc).1.tokens = s.tokens := by
  have ht : t.tokens = s.cur :: s.tokens := by
    rw [h1]; simp only [step]; split <;> rfl
  simp [step, ht]

/-- **Leaving a block — normally or through an exception — restores exactly the configuration (and the
stack of open blocks) that was active before it**, for every properly nested body. -/
theorem wn_restores (h : List Ev) (hw : WN h) :
    ∀ s, (run s h).cur = s.cur ∧ (run s h).tokens = s.tokens := by
  induction hw with
  | nil => intro s; exact ⟨rfl, rfl⟩
  | read h _ ih => intro s; rw [run_append, run_single]; exact ih s
  | mk h id _ ih => intro s; rw [run_append, run_single]; exact ih s
  | apply h id _ ih =>
    intro s; rw [run_append, run_single]
    have := ih s
    simp only [step]
    split <;> exact this
  | block a b kw _ _ iha ihb =>
    intro s
    rw [run_append, run_append, run_append, run_single, run_single]
    obtain ⟨ha1, ha2⟩ := iha s
    obtain ⟨_, hb2⟩ := ihb (step (run s a) (.enter kw)).1
    obtain ⟨r1, r2, _, _⟩ := step_exit_after_enter (run s a) kw _ hb2
    exact ⟨r1.trans ha1, r2.trans ha2⟩
  | blockExc a b kw _ _ iha ihb =>
    intro s
    rw [run_append, run_append, run_append, run_single, run_single]
    obtain ⟨ha1, ha2⟩ := iha s
    obtain ⟨_, hb2⟩ := ihb (step (run s a) (.enter kw)).1
    obtain ⟨_, _, r1, r2⟩ := step_exit_after_enter (run s a) kw _ hb2
    exact ⟨r1.trans ha1, r2.trans ha2⟩
  | mkc h id kw _ ih => intro s; rw [run_append, run_single]; exact ih s
  | blockObj a b id _ _ iha ihb =>
    intro s
    rw [run_append, run_append, run_append, run_single, run_single]
    obtain ⟨ha1, ha2⟩ := iha s
    obtain ⟨_, hb2⟩ := ihb (step (run s a) (.enterObj id)).1
    obtain ⟨r1, r2, _, _⟩ := step_exit_after_enterObj (run s a) id _ hb2
    exact ⟨r1.trans ha1, r2.trans ha2⟩
  | blockObjExc a b id _ _ iha ihb =>
    intro s
    rw [run_append, run_append, run_append, run_single, run_single]
    obtain ⟨ha1, ha2⟩ := iha s
    obtain ⟨_, hb2⟩ := ihb (step (run s a) (.enterObj id)).1
    obtain ⟨_, _, r1, r2⟩ := step_exit_after_enterObj (run s a) id _ hb2
    exact ⟨r1.trans ha1, r2.trans ha2⟩

/-- a properly nested program ends with the defaults -/
theorem ends_with_default (h : List Ev) (hw : WN h) : (run {} h).cur = Config.default :=
  (wn_restores h hw {}).1

/-- the settings of the open blocks, outermost first, of a state reached from the defaults -/
def Inv (s : State) (ks : List Kw) : Prop :=
  s.cur = ks.foldl override Config.default ∧
  s.tokens = (List.range ks.length).reverse.map (fun m => (ks.take m).foldl override Config.default)

theorem inv_init : Inv {} [] := ⟨rfl, rfl⟩

/-- entering a block: the active configuration becomes that of the new innermost block — outer settings
inherited, named settings overridden -/
theorem inv_enter (s : State) (ks : List Kw) (kw : Kw) (h : Inv s ks) :
    Inv (step s (.enter kw)).1 (ks ++ [kw]) := by
  obtain ⟨h1, h2⟩ := h
  constructor
  · simp [step, h1, List.foldl_append]
  · simp only [step, List.length_append, List.length_singleton, List.range_succ, List.reverse_append,
      List.reverse_singleton, List.singleton_append, List.map_cons, h2, h1]
    congr 1
    · simp
    · apply List.map_congr_left
      intro m hm
      simp only [List.mem_reverse, List.mem_range] at hm
      rw [List.take_append_of_le_length (by omega)]

/-- leaving the innermost block: the active configuration is that of the enclosing blocks again -/
theorem inv_exit (s : State) (ks : List Kw) (kw : Kw) (h : Inv s (ks ++ [kw])) :
    Inv (step s .exit).1 ks ∧ Inv (step s .exitExc).1 ks := by
  obtain ⟨h1, h2⟩ := h
  have hl : (ks ++ [kw]).length = ks.length + 1 := by simp
  rw [hl, List.range_succ, List.reverse_append] at h2
  simp only [List.reverse_singleton, List.singleton_append, List.map_cons] at h2
  have ht : (List.take ks.length (ks ++ [kw])) = ks := by simp
  rw [ht] at h2
  have hrest : List.map (fun m => List.foldl override Config.default (List.take m (ks ++ [kw])))
      (List.range ks.length).reverse =
      List.map (fun m => List.foldl override Config.default (List.take m ks)) (List.range ks.length).reverse := by
    apply List.map_congr_left
    intro m hm
    simp only [List.mem_reverse, List.mem_range] at hm
    rw [List.take_append_of_le_length (by omega)]
  rw [hrest] at h2
  constructor <;> (simp only [step, h2]; exact ⟨rfl, rfl⟩)

/-- events that are not block boundaries do not change the active configuration -/
theorem inv_other (s : State) (ks : List Kw) (e : Ev) (h : Inv s ks)
    (he : e = .read ∨ (∃ id, e = .mkInverse id) ∨ (∃ id, e = .applyInverse id)) :
    Inv (step s e).1 ks := by
  rcases he with rfl | ⟨id, rfl⟩ | ⟨id, rfl⟩
  · exact h
  · exact h
  · simp only [step]; split <;> exact h

/-- reading the configuration returns the fold of the open blocks' settings over the defaults -/
theorem read_is_innermost (s : State) (ks : List Kw) (h : Inv s ks) :
    (step s .read).2 = .cfg (ks.foldl override Config.default) := by
  simp [step, h.1]

/-- a named setting of the innermost block wins; an unnamed one is inherited from the enclosing blocks -/
theorem override_named (c : Cfg) (k : Kw) :
    (∀ v, k.solver = some v → (override c k).solver = v) ∧ (k.solver = none → (override c k).solver = c.solver) ∧
    (∀ v, k.throw = some v → (override c k).throw = v) ∧ (k.throw = none → (override c k).throw = c.throw) ∧
    (∀ v, k.options = some v → (override c k).options = v) ∧ (k.options = none → (override c k).options = c.options) ∧
    (∀ v, k.callback = some v → (override c k).callback = v) ∧
    (k.callback = none → (override c k).callback = c.callback) := by
  refine ⟨?_, ?_, ?_, ?_, ?_, ?_, ?_, ?_⟩ <;> intros <;> simp_all [override]

/-- **A lazy inverse keeps using the configuration that was active when it was created**, whatever happens
afterwards (entering or leaving any number of blocks, creating other inverses). -/
theorem inverse_keeps_creation_config (s : State) (id : Nat) (later : List Ev)
    (hfresh : ∀ e ∈ later, e ≠ .mkInverse id) :
    (run (step s (.mkInverse id)).1 later).inverses.lookup id = some s.cur := by
  have key : ∀ (evs : List Ev) (st : State), (∀ e ∈ evs, e ≠ .mkInverse id) →
      st.inverses.lookup id = some s.cur → (run st evs).inverses.lookup id = some s.cur := by
    intro evs
    induction evs with
    | nil => intro st _ h; exact h
    | cons e es ih =>
      intro st hne h
      simp only [run, List.foldl_cons]
      apply ih
      · intro e' he'; exact hne e' (List.mem_cons_of_mem _ he')
      · have hne' := hne e List.mem_cons_self
        cases e with
        | enter kw => simpa [step] using h
        | exit => simp only [step]; split <;> simpa using h
        | exitExc => simp only [step]; split <;> simpa using h
        | mkInverse id' =>
          have : id' ≠ id := by intro hh; subst hh; exact hne' rfl
          simp only [step, List.lookup_cons]
          have : (id == id') = false := by simpa using fun hh : id = id' => this hh.symm
          simp [this, h]
        | applyInverse id' => simp only [step]; split <;> simpa using h
        | read => simpa [step] using h
        | mkConfig id' kw => simpa [step] using h
        | enterObj id' => simp only [step]; split <;> simpa using h
  apply key later _ hfresh
  simp [step]

/-- applying it observes exactly that configuration -/
theorem apply_observes_creation_config (s : State) (id : Nat) (c : Cfg)
    (h : s.inverses.lookup id = some c) : (step s (.applyInverse id)).2 = .cfg c := by
  simp [step, h]

/-- **Configuration changes made in one context are never visible in another**: for every interleaving of
the events of several contexts, each context's state evolves as if its own events had run alone. -/
theorem thread_isolation (evs : List (Nat × Ev)) (w : World) (c : Nat) :
    runWorld w evs c = run (w c) ((evs.filter (fun ce => ce.1 = c)).map (·.2)) := by
  induction evs generalizing w with
  | nil => rfl
  | cons ce rest ih =>
    simp only [runWorld, List.foldl_cons]
    have := ih (stepWorld w ce)
    simp only [runWorld] at this
    rw [this]
    by_cases hc : ce.1 = c
    · simp only [List.filter_cons, hc, decide_true, if_true, List.map_cons, run, List.foldl_cons, stepWorld]
    · have hc' : ¬ c = ce.1 := fun h => hc h.symm
      simp only [List.filter_cons, hc, decide_false, Bool.false_eq_true, if_false, stepWorld, hc']

/-! ### `Config` objects built ahead of time and entered later -/

/-- **A `Config` object installs the settings computed when it was BUILT** (`replace(current, **kw)` at construction
time), whatever is active when it is entered, however many blocks are entered or left, inverses created or other
objects built in between — and, by `wn_restores`, leaving its block restores what was active at ENTRY (not at
construction). -/
theorem prebuilt_config_installs_construction_settings (s : State) (id : Nat) (kw : Kw) (later : List Ev)
    (hfresh : ∀ e ∈ later, ∀ kw', e ≠ .mkConfig id kw') :
    (step (run (step s (.mkConfig id kw)).1 later) (.enterObj id)).2 = .cfg (override s.cur kw) ∧
    (step (run (step s (.mkConfig id kw)).1 later) (.enterObj id)).1.cur = override s.cur kw := by
  have key : ∀ (evs : List Ev) (st : State), (∀ e ∈ evs, ∀ kw', e ≠ .mkConfig id kw') →
      st.objects.lookup id = some (override s.cur kw) →
      (run st evs).objects.lookup id = some (override s.cur kw) := by
    intro evs
    induction evs with
    | nil => intro st _ h; exact h
    | cons e es ih =>
      intro st hne h
      simp only [run, List.foldl_cons]
      apply ih
      · intro e' he'; exact hne e' (List.mem_cons_of_mem _ he')
      · have hne' := hne e List.mem_cons_self
        cases e with
        | enter kw'' => simpa [step] using h
        | exit => simp only [step]; split <;> simpa using h
        | exitExc => simp only [step]; split <;> simpa using h
        | mkInverse id' => simpa [step] using h
        | applyInverse id' => simp only [step]; split <;> simpa using h
        | read => simpa [step] using h
        | mkConfig id' kw'' =>
          have hid : id' ≠ id := by intro hh; subst hh; exact hne' kw'' rfl
          have hb : (id == id') = false := by simpa using fun hh : id = id' => hid hh.symm
          simp [step, List.lookup_cons, hb, h]
        | enterObj id' => simp only [step]; split <;> simpa using h
  have hl := key later (step s (.mkConfig id kw)).1 hfresh (by simp [step])
  constructor <;> (simp only [step] at hl ⊢; rw [hl])

/-! ### under `jax.jit`: traces are keyed on the captured configuration -/

/-- every cached trace was made with a configuration that has the key it is stored under -/
def CacheOK {κ : Type} (keyOf : Cfg → κ) (cache : List (κ × Cfg)) : Prop := ∀ e ∈ cache, e.1 = keyOf e.2

theorem lookup_mem {κ : Type} [DecidableEq κ] (cache : List (κ × Cfg)) (k : κ) (c : Cfg)
    (h : cache.lookup k = some c) : (k, c) ∈ cache := by
  induction cache with
  | nil => simp at h
  | cons e es ih =>
    obtain ⟨k', c'⟩ := e
    simp only [List.lookup_cons] at h
    by_cases hk : k = k'
    · subst hk
      simp at h
      subst h
      exact List.mem_cons_self
    · have : (k == k') = false := by simpa using hk
      rw [this] at h
      exact List.mem_cons_of_mem _ (ih h)

theorem applyJit_cacheOK {κ : Type} [DecidableEq κ] (keyOf : Cfg → κ) (cache : List (κ × Cfg)) (c : Cfg)
    (h : CacheOK keyOf cache) : CacheOK keyOf (applyJit keyOf cache c).1 := by
  unfold applyJit
  split
  · exact h
  · intro e he
    rcases List.mem_cons.mp he with rfl | he'
    · rfl
    · exact h e he'

/-- **A lazy inverse applied through a jitted function runs with the configuration captured at its creation**,
whatever other inverses the function has been traced for before — provided the comparison of configurations
distinguishes them (`keyOf` injective; the implementation's `ConfigState.__eq__` compares all four settings). -/
theorem jit_uses_creation_config {κ : Type} [DecidableEq κ] (keyOf : Cfg → κ)
    (hinj : ∀ a b, keyOf a = keyOf b → a = b) (cache : List (κ × Cfg)) (h : CacheOK keyOf cache) (c : Cfg) :
    (applyJit keyOf cache c).2 = c := by
  unfold applyJit
  split
  · rename_i used hl
    have := h _ (lookup_mem cache _ _ hl)
    exact (hinj _ _ this).symm
  · rfl

/-- … along every sequence of applications, starting from an empty cache -/
theorem jit_history_uses_creation_configs {κ : Type} [DecidableEq κ] (keyOf : Cfg → κ)
    (hinj : ∀ a b, keyOf a = keyOf b → a = b) (cs : List Cfg) :
    ∀ cache, CacheOK keyOf cache → runJit keyOf cache cs = cs := by
  induction cs with
  | nil => intro _ _; rfl
  | cons c cs ih =>
    intro cache h
    simp only [runJit]
    rw [jit_uses_creation_config keyOf hinj cache h c, ih _ (applyJit_cacheOK keyOf cache c h)]

/-- the comparison matters: with a key that forgets one setting (here `solver_options`), the second of two
inverses differing only in that setting runs with the first one's configuration (kernel-checked witness) -/
theorem jit_with_forgetful_key_reuses_wrong_trace :
    runJit (fun c => (c.solver, c.throw, c.callback)) [] [⟨1, 0, 0, 0⟩, ⟨1, 0, 2, 0⟩] ≠ [⟨1, 0, 0, 0⟩, ⟨1, 0, 2, 0⟩] := by
  decide

/-! non-vacuity: a concrete properly nested history with inheritance, override and exceptional exit -/
example : WN [.enter { throw := some 1 }, .read, .enter { solver := some 7 }, .mkInverse 1, .exitExc, .read, .exit] := by
  have h1 : WN [Ev.mkInverse 1] := WN.mk [] 1 WN.nil
  have h2 : WN ([] ++ [Ev.enter { solver := some 7 }] ++ [Ev.mkInverse 1] ++ [Ev.exitExc]) :=
    WN.blockExc [] _ _ WN.nil h1
  have h3 : WN [Ev.read] := WN.read [] WN.nil
  have h4 := WN.blockExc [Ev.read] [Ev.mkInverse 1] { solver := some 7 } h3 h1
  have h5 := WN.read _ h4
  exact WN.block [] _ { throw := some 1 } WN.nil h5
example : trace {} [.enter { throw := some 1 }, .enter { solver := some 7 }, .read, .exitExc, .read, .exit, .read]
    = [.cfg ⟨0, 1, 0, 0⟩, .cfg ⟨7, 1, 0, 0⟩, .cfg ⟨7, 1, 0, 0⟩, .none, .cfg ⟨0, 1, 0, 0⟩, .none, .cfg ⟨0, 0, 0, 0⟩] := by
  decide

end Furax.C19
