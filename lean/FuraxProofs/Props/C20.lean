/-
C20 — Stokes containers and pytree helpers act leaf-wise and consistently.

`StokesArith.operation`, `roperation`, `classFor`, `fromStokesKind`, `fromIQUV`, `dot` are the functions the
compiled driver executes.  Most statements are close to the definitions (that is the point: the containers are
thin); the assurance that the Python agrees with them comes from the correspondence.
-/
import FuraxModel.StokesArith
import FuraxProofs.Lemmas.Tables
import Mathlib.Tactic.Ring
import Mathlib.Tactic.NormNum
namespace Furax.C20
open Furax StokesArith

/-- container ⊙ container of the same kind acts independently and identically on every component -/
theorem operation_componentwise (op : BinOp) (a b : SVal Rat) (h : b.kind = a.kind) (r : SVal Rat)
    (hr : operation op a (.stokes b) = .ok r) :
    r.kind = a.kind ∧ (List.zipWith (fun x y => tensorOp (evalOp op) x y) a.comps b.comps).mapM id = some r.comps := by
  unfold operation at hr
  simp only [h, if_true] at hr
  split at hr
  · rename_i cs hcs
    cases hr
    exact ⟨rfl, hcs⟩
  · cases hr

/-- reflected forms respect operand order: `k ⊙ A` applies `k ⊙ component`, not `component ⊙ k` -/
theorem roperation_scalar_order (op : BinOp) (a : SVal Rat) (k : Rat) :
    roperation op a (.scalar k) = mapComps (fun leaf => tensorOp (evalOp op) (Tensor.scalar k) leaf) a ∧
    operation op a (.scalar k) = mapComps (fun leaf => tensorOp (evalOp op) leaf (Tensor.scalar k)) a := ⟨rfl, rfl⟩

/-- … which matters: subtraction and division are not symmetric (kernel-checked instance) -/
theorem order_matters : evalOp .sub 10 3 ≠ evalOp .sub 3 10 := by
  simp only [evalOp, ne_eq, Option.some.injEq]; norm_num

/-- a container of another kind, a list, or any other object is refused (NotImplemented from both the forward
and the reflected method, hence `TypeError`) -/
theorem other_kind_refused (op : BinOp) (a b : SVal Rat) (h : b.kind ≠ a.kind) :
    operation op a (.stokes b) = .notImplemented ∧ roperation op a (.stokes b) = .notImplemented := by
  simp [operation, roperation, h]

theorem foreign_operand_refused (op : BinOp) (a : SVal Rat) :
    operation op a .other = .notImplemented ∧ roperation op a .other = .notImplemented := ⟨rfl, rfl⟩

/-- unknown Stokes kinds are rejected with `ValueError`; the four valid ones are accepted -/
theorem class_for_spec (s : String) :
    (classFor s = .error .valueError ↔ StokesKind.ofName? s = none) ∧
    classFor "I" = .ok .I ∧ classFor "QU" = .ok .QU ∧ classFor "IQU" = .ok .IQU ∧ classFor "IQUV" = .ok .IQUV := by
  refine ⟨?_, rfl, rfl, rfl, rfl⟩
  unfold classFor
  cases StokesKind.ofName? s <;> simp

/-- the kinds of the source are the ones the model knows -/
theorem kinds_pinned : Generated.stokesKinds = ["I", "QU", "IQU", "IQUV"] := by decide

/-- `from_stokes` with positional arguments: 1, 2, 3, 4 arrays give I, QU, IQU, IQUV; any other count is a
`TypeError`; positional and keyword arguments together are a `TypeError` -/
theorem from_stokes_positional :
    fromStokesKind 1 [] = .ok .I ∧ fromStokesKind 2 [] = .ok .QU ∧ fromStokesKind 3 [] = .ok .IQU ∧
    fromStokesKind 4 [] = .ok .IQUV ∧ fromStokesKind 0 [] = .error .typeError ∧
    fromStokesKind 5 [] = .error .typeError ∧ fromStokesKind 1 ["I"] = .error .typeError := by decide

/-- `from_iquv` keeps exactly the components of the kind, in order -/
theorem from_iquv_selects {α} (i q u v : α) :
    fromIQUV .I i q u v = [i] ∧ fromIQUV .QU i q u v = [q, u] ∧ fromIQUV .IQU i q u v = [i, q, u] ∧
    fromIQUV .IQUV i q u v = [i, q, u, v] := ⟨rfl, rfl, rfl, rfl⟩

/-! ### dtype promotion (`as_promoted_dtype`, `from_stokes`): `jnp.result_type` is a join -/

/-- on the table read from the source environment, promotion is total, idempotent (up to canonicalisation of
64-bit types when 64-bit mode is off), commutative and associative, in both modes -/
theorem promotion_total : ∀ x64 ∈ [false, true], ∀ a ∈ dtypeNames, ∀ b ∈ dtypeNames,
    (promote x64 a b).isSome = true := by decide

theorem promotion_idempotent : ∀ x64 ∈ [false, true], ∀ a ∈ dtypeNames,
    promote x64 a a = some (canonical x64 a) := by decide

theorem promotion_commutative : ∀ x64 ∈ [false, true], ∀ a ∈ dtypeNames, ∀ b ∈ dtypeNames,
    promote x64 a b = promote x64 b a := by decide

theorem promotion_associative : ∀ x64 ∈ [false, true], ∀ a ∈ dtypeNames, ∀ b ∈ dtypeNames, ∀ c ∈ dtypeNames,
    ((promote x64 a b).bind fun ab => promote x64 ab c) = ((promote x64 b c).bind fun bc => promote x64 a bc) := by
  decide +kernel

/-- the promoted dtype is an upper bound: promoting it again with any of its arguments changes nothing -/
theorem promotion_upper_bound : ∀ x64 ∈ [false, true], ∀ a ∈ dtypeNames, ∀ b ∈ dtypeNames,
    ((promote x64 a b).bind fun ab => promote x64 ab a) = promote x64 a b := by decide +kernel

/-! ### `furax.tree.dot` on real leaves -/

theorem inner_comm {α} [CommRing α] (a b : List α) :
    (List.zipWith (· * ·) a b).foldl (· + ·) 0 = (List.zipWith (· * ·) b a).foldl (· + ·) 0 := by
  have : List.zipWith (· * ·) a b = List.zipWith (· * ·) b a := by
    induction a generalizing b with
    | nil => cases b <;> rfl
    | cons x xs ih =>
      cases b with
      | nil => rfl
      | cons y ys => simp only [List.zipWith_cons_cons, ih ys, mul_comm]
  rw [this]

/-- the dot product of two pytrees of real leaves is symmetric -/
theorem dot_comm {α} [CommRing α] (x y : List (List α)) : dot x y = dot y x := by
  unfold dot
  congr 1
  induction x generalizing y with
  | nil => cases y <;> rfl
  | cons a as ih =>
    cases y with
    | nil => rfl
    | cons b bs => simp only [List.zipWith_cons_cons, ih bs, inner_comm a b]

end Furax.C20
