/-
C20 (complex leaves) — `furax.tree.dot` / `StokesPyTree.__matmul__` is the HERMITIAN sum of the leaf inner products.

    dot(x, y) = sum(leaves(tree.map(jnp.vdot, x, y)), start=0),     jnp.vdot(a, b) = Σ_i conj(a_i) · b_i

`ComplexDot.treeDot` / `ComplexDot.vdot` (FuraxModel/ComplexDot.lean, over the Gaussian rationals `GRat`) are the
functions the compiled driver executes for `(tree-dot-complex X Y)`.  The real-only statements of
FuraxProofs/Props/C20.lean (`inner_comm`, `dot_comm`) are the special case `im = 0` (`treeDot_real`,
`dot_comm_of_hermitian`); the real model could not tell on which side the conjugation sits, this one does
(`vdotBad_violates_conj_symm`: the seeded defect C20-d).
-/
import FuraxModel.ComplexDot
import FuraxModel.StokesArith
import FuraxProofs.Lemmas.ComplexDot
namespace Furax.C20
open Furax ComplexDot ComplexDot.GRat

/-! ### (a) conjugate symmetry -/

/-- `⟨y, x⟩ = conj ⟨x, y⟩` for two leaves.  No hypothesis on the lengths: `zipWith` truncates both sides to the same
common prefix (in Python a shape mismatch raises on both sides). -/
theorem vdot_hermitian_symm (x y : List GRat) : vdot y x = conj (vdot x y) := ComplexDot.vdot_conj_symm x y

/-- `dot(y, x) = conj(dot(x, y))` for two pytrees -/
theorem treeDot_hermitian_symm (x y : List (List GRat)) : treeDot y x = conj (treeDot x y) :=
  ComplexDot.treeDot_conj_symm x y

example : treeDot [[⟨2, -1⟩, ⟨1, 1⟩], [⟨4, 0⟩]] [[⟨1, 2⟩, ⟨0, 3⟩], [⟨1/2, 0⟩]] = ⟨5, 8⟩ ∧
    treeDot [[⟨1, 2⟩, ⟨0, 3⟩], [⟨1/2, 0⟩]] [[⟨2, -1⟩, ⟨1, 1⟩], [⟨4, 0⟩]] = ⟨5, -8⟩ := by decide +kernel

/-! ### (b) linearity in the second argument, conjugate-linearity in the first -/

/-- additivity in the second argument (the two summands have the same shape; `x` is arbitrary) -/
theorem treeDot_add_right (x : List (List GRat)) {y y' : List (List GRat)} (h : SameShape y y') :
    treeDot x (treeAdd y y') = treeDot x y + treeDot x y' := ComplexDot.treeDot_add_right x h

/-- homogeneity in the second argument: the scalar comes out as it is -/
theorem treeDot_smul_right (c : GRat) (x y : List (List GRat)) : treeDot x (treeSmul c y) = c * treeDot x y :=
  ComplexDot.treeDot_smul_right c x y

/-- additivity in the first argument -/
theorem treeDot_add_left {x x' : List (List GRat)} (y : List (List GRat)) (h : SameShape x x') :
    treeDot (treeAdd x x') y = treeDot x y + treeDot x' y := ComplexDot.treeDot_add_left y h

/-- CONJUGATE-homogeneity in the first argument: the scalar comes out conjugated -/
theorem treeDot_smul_left (c : GRat) (x y : List (List GRat)) : treeDot (treeSmul c x) y = conj c * treeDot x y :=
  ComplexDot.treeDot_smul_left c x y

/-- the shape hypothesis of the additivity cannot be dropped in the MODEL (truncation of `zipWith`; the Python
raises on a shape mismatch instead, so this is about the model only) -/
theorem treeDot_add_right_needs_shape :
    ∃ x y y', ¬ SameShape y y' ∧ treeDot x (treeAdd y y') ≠ treeDot x y + treeDot x y' :=
  ⟨[[⟨1, 0⟩]], [[⟨1, 0⟩]], [[]], by decide +kernel, by decide +kernel⟩

/-- sesquilinearity in one statement -/
theorem treeDot_sesquilinear (c d : GRat) {x x' y y' : List (List GRat)} (hx : SameShape x x') (hy : SameShape y y') :
    treeDot (treeAdd (treeSmul c x) x') (treeAdd (treeSmul d y) y') =
      conj c * d * treeDot x y + conj c * treeDot x y' + d * treeDot x' y + treeDot x' y' := by
  have hsx := hx.smul_left c
  have hsy := hy.smul_left d
  rw [ComplexDot.treeDot_add_left _ hsx, ComplexDot.treeDot_add_right _ hsy, ComplexDot.treeDot_add_right _ hsy,
    ComplexDot.treeDot_smul_left, ComplexDot.treeDot_smul_left, ComplexDot.treeDot_smul_right,
    ComplexDot.treeDot_smul_right]
  ring

-- the scalar `i` comes out of the second slot as `i`, out of the first slot as `−i`
example : treeDot [[⟨1, 1⟩, ⟨2, 0⟩]] (treeSmul ⟨0, 1⟩ [[⟨3, 0⟩, ⟨0, 1⟩]]) = ⟨0, 1⟩ * treeDot [[⟨1, 1⟩, ⟨2, 0⟩]] [[⟨3, 0⟩, ⟨0, 1⟩]] ∧
    treeDot (treeSmul ⟨0, 1⟩ [[⟨1, 1⟩, ⟨2, 0⟩]]) [[⟨3, 0⟩, ⟨0, 1⟩]] = ⟨0, -1⟩ * treeDot [[⟨1, 1⟩, ⟨2, 0⟩]] [[⟨3, 0⟩, ⟨0, 1⟩]] ∧
    treeDot [[⟨1, 1⟩, ⟨2, 0⟩]] [[⟨3, 0⟩, ⟨0, 1⟩]] = ⟨3, -1⟩ := by decide +kernel

example : SameShape [[⟨1, 1⟩, ⟨2, 0⟩], [⟨0, 1⟩]] [[⟨3, 0⟩, ⟨0, 1⟩], [⟨5, 5⟩]] ∧
    treeDot [[⟨0, 1⟩, ⟨1, 0⟩], [⟨1, -1⟩]] (treeAdd [[⟨1, 1⟩, ⟨2, 0⟩], [⟨0, 1⟩]] [[⟨3, 0⟩, ⟨0, 1⟩], [⟨5, 5⟩]]) = ⟨2, 8⟩ := by
  decide +kernel

/-! ### (c) `⟨x, x⟩` is real, non-negative, and zero only at zero -/

/-- `dot(x, x) = Σ |x_i|²` (over all entries of all leaves), embedded in the complex numbers -/
theorem treeDot_self_eq (x : List (List GRat)) : treeDot x x = ofRat (treeNormSq x) := ComplexDot.treeDot_self x

theorem treeDot_self_real (x : List (List GRat)) : (treeDot x x).im = 0 := by
  rw [ComplexDot.treeDot_self]; rfl

theorem treeDot_self_nonneg (x : List (List GRat)) : 0 ≤ (treeDot x x).re := by
  rw [ComplexDot.treeDot_self]; exact treeNormSq_nonneg x

/-- definiteness: `dot(x, x) = 0` iff every entry of every leaf is zero -/
theorem treeDot_self_eq_zero_iff (x : List (List GRat)) : treeDot x x = 0 ↔ ∀ l ∈ x, ∀ a ∈ l, a = 0 := by
  rw [ComplexDot.treeDot_self, ← treeNormSq_eq_zero]
  constructor
  · intro h; exact ofRat_injective (h.trans ofRat_zero.symm)
  · intro h; rw [h]; rfl

example : treeDot [[⟨1, 2⟩, ⟨0, 3⟩], [⟨1/2, 0⟩]] [[⟨1, 2⟩, ⟨0, 3⟩], [⟨1/2, 0⟩]] = ⟨57/4, 0⟩ := by decide +kernel
example : treeDot [[0, 0], [0]] [[0, 0], [0]] = 0 := by decide +kernel
/-- the Hermitian form is what makes this work: the bilinear `Σ x_i · x_i` vanishes on the non-zero `(1, i)` -/
example : (List.zipWith (fun a b : GRat => a * b) [⟨1, 0⟩, ⟨0, 1⟩] [⟨1, 0⟩, ⟨0, 1⟩]).foldl (· + ·) 0 = 0 ∧
    vdot [⟨1, 0⟩, ⟨0, 1⟩] [⟨1, 0⟩, ⟨0, 1⟩] = ⟨2, 0⟩ := by decide +kernel

/-! ### (d) on real data: the real `dot` of StokesArith -/

/-- the complex dot of embedded real pytrees is the embedded real dot -/
theorem treeDot_ofRat (x y : List (List Rat)) :
    treeDot (x.map (·.map ofRat)) (y.map (·.map ofRat)) = ofRat (StokesArith.dot x y) := ComplexDot.treeDot_ofRat x y

/-- on pytrees all of whose entries have zero imaginary part, `treeDot` is `StokesArith.dot` of the real parts -/
theorem treeDot_real {x y : List (List GRat)} (hx : IsRealTree x) (hy : IsRealTree y) :
    treeDot x y = ofRat (StokesArith.dot (x.map (·.map GRat.re)) (y.map (·.map GRat.re))) := by
  rw [← ComplexDot.treeDot_ofRat, ← tree_eq_map_ofRat hx, ← tree_eq_map_ofRat hy]

/-- the symmetry of the real dot product (`dot_comm` of FuraxProofs/Props/C20.lean, at `α = Rat`) is the special case
`im = 0` of the conjugate symmetry -/
theorem dot_comm_of_hermitian (x y : List (List Rat)) : StokesArith.dot x y = StokesArith.dot y x := by
  apply ofRat_injective
  rw [← ComplexDot.treeDot_ofRat, ← ComplexDot.treeDot_ofRat, ComplexDot.treeDot_conj_symm (y.map (·.map ofRat)),
    ComplexDot.treeDot_ofRat, conj_ofRat]

example : IsRealTree [[⟨1, 0⟩, ⟨2, 0⟩, ⟨3, 0⟩], [⟨1, 0⟩, ⟨0, 0⟩]] ∧
    treeDot [[⟨1, 0⟩, ⟨2, 0⟩, ⟨3, 0⟩], [⟨1, 0⟩, ⟨0, 0⟩]] [[⟨2, 0⟩, ⟨-1, 0⟩, ⟨1, 0⟩], [⟨2, 0⟩, ⟨0, 0⟩]] = ⟨5, 0⟩ ∧
    StokesArith.dot [[1, 2, 3], [1, 0]] [[2, -1, 1], [2, 0]] = (5 : Rat) := by decide +kernel

/-! ### (e) the asymmetric variant (seeded defect C20-d) is wrong -/

/-- a complex first operand against a real second operand: the defective product is not conjugate-symmetric -/
theorem vdotBad_violates_conj_symm :
    ∃ x y : List GRat, (∃ a ∈ x, a.im ≠ 0) ∧ (∀ b ∈ y, b.im = 0) ∧ vdotBad y x ≠ conj (vdotBad x y) :=
  ⟨[⟨0, 1⟩], [⟨1, 0⟩], by decide +kernel, by decide +kernel, by decide +kernel⟩

/-- … and is not `jnp.vdot` there -/
theorem vdotBad_ne_vdot :
    ∃ x y : List GRat, (∃ a ∈ x, a.im ≠ 0) ∧ (∀ b ∈ y, b.im = 0) ∧ vdotBad x y ≠ vdot x y :=
  ⟨[⟨0, 1⟩], [⟨1, 0⟩], by decide +kernel, by decide +kernel, by decide +kernel⟩

/-- the same through `tree.dot`, on two leaves of which only one is mixed -/
theorem treeDotBad_violates_conj_symm :
    ∃ x y : List (List GRat), SameShape x y ∧ IsRealTree y ∧ treeDotBad y x ≠ conj (treeDotBad x y) ∧
      treeDot y x = conj (treeDot x y) :=
  ⟨[[⟨1, 2⟩, ⟨0, 3⟩], [⟨1, 0⟩]], [[⟨2, 0⟩, ⟨1, 0⟩], [⟨4, 0⟩]], by decide +kernel, by decide +kernel, by decide +kernel, by decide +kernel⟩

/-- exactly there: against a real second operand the defective product is the CONJUGATE of the right value … -/
theorem vdotBad_of_second_real (x : List GRat) {y : List GRat} (h : ∀ b ∈ y, b.im = 0) :
    vdotBad x y = conj (vdot x y) := ComplexDot.vdotBad_of_second_real x h

/-- … and in the other configurations (second operand not real, or first operand real) it is `jnp.vdot`: the
defect is invisible to real/real, complex/complex and real/complex tests -/
theorem vdotBad_eq_vdot (x y : List GRat) (h : (∃ b ∈ y, b.im ≠ 0) ∨ ∀ a ∈ x, a.im = 0) : vdotBad x y = vdot x y := by
  rcases h with ⟨b, hb, hne⟩ | h
  · apply vdotBad_of_second_not_real
    rw [List.all_eq_false]
    exact ⟨b, hb, by rw [isReal_iff]; exact hne⟩
  · exact vdotBad_of_first_real y h

example : vdotBad [⟨1, 2⟩] [⟨3, 1⟩] = vdot [⟨1, 2⟩] [⟨3, 1⟩] ∧ vdotBad [⟨1, 0⟩] [⟨3, 1⟩] = vdot [⟨1, 0⟩] [⟨3, 1⟩] ∧
    vdotBad [⟨1, 2⟩] [⟨3, 0⟩] = ⟨3, 6⟩ ∧ vdot [⟨1, 2⟩] [⟨3, 0⟩] = ⟨3, -6⟩ := by decide +kernel

end Furax.C20
