/-
The closed theorems with an EXECUTABLE hypothesis.

`validb : Op → Bool` and `validTb : Op → Bool` (FuraxModel/Valid.lean, compiled into the model driver: `(valid OP)`,
`(valid-T OP)`) decide the hypotheses of `reduce_sound_closed` and `transpose_is_adjoint_closed`
(FuraxProofs/Sem/ValidDecide.lean).  Here the two theorems are restated with `validb o = true` / `validTb o = true`
as hypothesis, so that what the harness checks on a real operator is — verbatim — what the theorem asks:

* `reduce_sound_closed`, `reduceTop_sound_closed` — the only hypothesis that is not decided is the invertibility of
  the operands of the lazy inverses that are neither rotations nor diagonals without zero entry (`promises o`);
  when there is none (`noPromiseb o`)
  nothing is left (`reduceTop_sound_decided`);
* `transpose_is_adjoint_closed` — fully decided (`validTb`), the hypothesis on the environment of the uninterpreted
  leaves apart;
* kernel-evaluated examples on the expressions of `ListSem.Examples` / `ListSem.AdjExamples`, and on an expression
  with a dense einsum leaf (`C14.Examples.exDense`).
-/
import FuraxProofs.Sem.ValidDecide
import FuraxProofs.Props.C07Side
import FuraxProofs.Props.C08Closed
import FuraxProofs.Props.C14Closed
namespace Furax
namespace Valid
open Op ListSem

/-- the hypothesis of `ListSem.reduce_sound_closed`, verbatim, from the executable check and the promise -/
theorem wt_of_validb (E : Env) (o : Op) (hv : validb o = true)
    (hinv : ∀ a ∈ promises o, invertibleG E a) :
    WTExpr (listArithSem E).invertible listLeafOK o := validb_sound_list E o hv hinv

/-- … and from the executable checks alone when every lazy inverse wraps a rotation or a diagonal without zero
entry -/
theorem wt_of_validb_noPromise (E : Env) (o : Op) (hv : validb o = true) (hp : noPromiseb o = true) :
    WTExpr (listArithSem E).invertible listLeafOK o := by
  refine wt_of_validb E o hv fun a ha => ?_
  rw [(promises_nil_iff o).mpr hp] at ha
  cases ha

/-- **Soundness of `reduce()`, closed, executable hypothesis.**  If the encoded expression passes `(valid OP)` and
the operands of its lazy inverses left as promises (`promises o`) are invertible, then whatever `reduce fuel o` returns passes
the check again, has the structures of `o` and computes the same vector as `o` on every vector of the input size. -/
theorem reduce_sound_closed (E : Env) (fuel : Nat) (o r : Op) (hv : validb o = true)
    (hinv : ∀ a ∈ promises o, invertibleG E a) (h : reduce fuel o = .ok r) :
    validb r = true ∧ (∀ a ∈ lazyOperands r, invertibleG E a) ∧ Op.inS r = Op.inS o ∧ Op.outS r = Op.outS o ∧
    ∀ x : List ℝ, x.length = (Op.inS o).size → den E r x = den E o x := by
  obtain ⟨hw, h1, h2, h3⟩ := ListSem.reduce_sound_closed E fuel o r (wt_of_validb E o hv hinv) h
  obtain ⟨hv', hi'⟩ := (validb_iff _ r).mp hw
  exact ⟨hv', hi', h1, h2, h3⟩

/-- the same for the driver's entry point -/
theorem reduceTop_sound_closed (E : Env) (o r : Op) (hv : validb o = true)
    (hinv : ∀ a ∈ promises o, invertibleG E a) (h : reduceTop o = .ok r) :
    validb r = true ∧ (∀ a ∈ lazyOperands r, invertibleG E a) ∧ Op.inS r = Op.inS o ∧ Op.outS r = Op.outS o ∧
    ∀ x : List ℝ, x.length = (Op.inS o).size → den E r x = den E o x := by
  obtain ⟨hw, h1, h2, h3⟩ := ListSem.reduceTop_sound_closed E o r (wt_of_validb E o hv hinv) h
  obtain ⟨hv', hi'⟩ := (validb_iff _ r).mp hw
  exact ⟨hv', hi', h1, h2, h3⟩

/-- **no hypothesis but two Boolean computations** when every lazy inverse wraps a rotation or a diagonal without zero
entry (in particular when the expression has no lazy inverse at all) -/
theorem reduceTop_sound_decided (E : Env) (o r : Op) (hv : validb o = true) (hp : noPromiseb o = true)
    (h : reduceTop o = .ok r) :
    validb r = true ∧ Op.inS r = Op.inS o ∧ Op.outS r = Op.outS o ∧
    ∀ x : List ℝ, x.length = (Op.inS o).size → den E r x = den E o x := by
  obtain ⟨hw, h1, h2, h3⟩ := ListSem.reduceTop_sound_closed E o r (wt_of_validb_noPromise E o hv hp) h
  exact ⟨validb_complete _ r hw, h1, h2, h3⟩

/-- **C03, closed, executable hypothesis: `op.T` is the exact adjoint of `op`** for every expression that passes
`(valid-T OP)`; no invertibility is asked -/
theorem transpose_is_adjoint_closed (E : Env) (hE : EnvAdj E) (o t : Op) (hv : validTb o = true)
    (h : transposeOp o = .ok t) :
    ∀ x y : List ℝ, x.length = (Op.inS o).size → y.length = (Op.outS o).size →
      dot (den E o x) y = dot x (den E t y) :=
  ListSem.transpose_is_adjoint_closed E hE o t ((validTb_iff o).mp hv).1 ((validTb_iff o).mp hv).2 h

/-- the hypothesis of `C08.tags_truthful_closed` (`TagValid`): its two syntactic components are decided, the two
on the environment of the uninterpreted leaves are left -/
theorem tagValid_of_validb (E : Env) (o : Op) (hv : validb o = true) (ht : tformb o = true)
    (hA : EnvAdjOn E o) (hS : EnvSymOn E o) : C08.TagValid E o :=
  ⟨(validb_iff_noInv o).mpr hv, (tformb_iff o).mp ht, hA, hS⟩

/-- the hypothesis `hP` of `C07.scalar_side_closed` on the operands of a composition, from the executable check -/
theorem operands_wt_of_validb (E : Env) (ops : List Op) (hv : ∀ o ∈ ops, validb o = true)
    (hinv : ∀ o ∈ ops, ∀ a ∈ promises o, invertibleG E a) :
    ∀ o ∈ ops, WTExpr (listArithSem E).invertible listLeafOK o :=
  fun o ho => wt_of_validb E o (hv o ho) (hinv o ho)

/-! ### kernel-evaluated examples -/

namespace Examples
open ListSem.Examples ListSem.AdjExamples

/-- `R(θ)ᵀ ∘ R(θ)` on IQU maps: valid, and its only lazy inverse wraps a rotation -/
example : validb ex1 = true := by decide +kernel
example : noPromiseb ex1 = true := by decide +kernel
example : invalidReason ex1 = none := by decide +kernel

/-- `Pᵀ ∘ P` for an index operator with a repeated index -/
example : validb ex2 = true := by decide +kernel
example : noPromiseb ex2 = true := by decide +kernel

/-- block row ∘ block column of opaque leaves -/
example : validb ex3 = true := by decide +kernel

/-- the well-formedness proofs of `ListSem.Examples`, by evaluation -/
theorem ex1_wt (E : Env) : WTExpr (listArithSem E).invertible listLeafOK ex1 :=
  wt_of_validb_noPromise E ex1 (by decide +kernel) (by decide +kernel)

theorem ex2_wt (E : Env) : WTExpr (listArithSem E).invertible listLeafOK ex2 :=
  wt_of_validb_noPromise E ex2 (by decide +kernel) (by decide +kernel)

theorem ex3_wt (E : Env) : WTExpr (listArithSem E).invertible listLeafOK ex3 :=
  wt_of_validb_noPromise E ex3 (by decide +kernel) (by decide +kernel)

/-- the three rewrites are denotation preserving: the hypotheses are two evaluations each -/
theorem ex1_den (E : Env) (x : List ℝ) (hx : x.length = 18) : den E (mkIdentity iqu) x = den E ex1 x :=
  (reduceTop_sound_decided E ex1 _ (by decide +kernel) (by decide +kernel) ex1_red).2.2.2 x hx

theorem ex2_den (E : Env) (x : List ℝ) (hx : x.length = 3) :
    den E (.leaf 0 .diagonal { inS := idxP.inS, outS := idxP.inS, vals := ⟨[3], [0, 2, 0]⟩, ints := [[0]] }) x
      = den E ex2 x :=
  (reduceTop_sound_decided E ex2 _ (by decide +kernel) (by decide +kernel) ex2_red).2.2.2 x hx

/-- … and the reduced form of `ex2` (a new diagonal leaf) passes the check again -/
example : validb (.leaf 0 .diagonal { inS := idxP.inS, outS := idxP.inS, vals := ⟨[3], [0, 2, 0]⟩, ints := [[0]] })
    = true := by decide +kernel

/-- the adjointness example (a block column with a lazy inverse of a SINGULAR diagonal): `validTb` decides its
hypotheses; `validb` holds too but leaves the invertibility of the diagonal as a promise (`noPromiseb = false`) —
a promise that is false here, which the adjointness theorem does not need -/
example : validTb exOp = true := by decide +kernel
example : validb exOp = true := by decide +kernel
example : noPromiseb exOp = false := by decide +kernel

theorem exOp_adjoint (E : Env) (hE : EnvAdj E) (x y : List ℝ) (hx : x.length = 3) (hy : y.length = 5) :
    dot (den E exOp x) y = dot x (den E exOpT y) :=
  transpose_is_adjoint_closed E hE exOp exOpT (by decide +kernel) exOp_T x y hx hy

/-- `D⁻¹ ∘ D` for a diagonal WITHOUT zero entry: the invertibility of the operand of the lazy inverse is decided
too, nothing is left to promise -/
def diagQ : Params := { diagP with vals := ⟨[3], [2, 1 / 2, 5]⟩ }
def exInv : Op := .comp 9 [.wrap 7 .diagInv (.leaf 5 .diagonal diagQ), .leaf 5 .diagonal diagQ]

example : validb exInv = true := by decide +kernel
example : noPromiseb exInv = true := by decide +kernel

theorem exInv_red : reduceTop exInv = .ok (mkIdentity idxP.inS) := by with_unfolding_all rfl

theorem exInv_den (E : Env) (x : List ℝ) (hx : x.length = 3) : den E (mkIdentity idxP.inS) x = den E exInv x :=
  (reduceTop_sound_decided E exInv _ (by decide +kernel) (by decide +kernel) exInv_red).2.2.2 x hx

/-- … whereas with the singular diagonal of `AdjExamples` the check passes and reports the promise -/
example : promises (.wrap 7 .diagInv (.leaf 5 .diagonal diagP)) = [.leaf 5 .diagonal diagP] := by
  with_unfolding_all rfl

/-! #### an expression with a dense einsum leaf (`C14.Examples.exDense`: `Dense(p1) ∘ (2·Id)`, subscripts
`'ij...,j...->i...'`, ONE block array `(2, 3)`, a leaf `(3, 2)`)

`Einsum.parseSubscripts` is `String.splitOn`, which the Lean kernel does not unfold: the split of the subscripts is
supplied by `ListSem.parseSubscripts_readback` (`C14.Examples.parse1`), everything else is evaluated by the kernel.
The compiled driver just runs `validb`. -/

open C14.Examples in
/-- the dense leaf passes the leaf check -/
theorem p1_leafOKb : leafOKb .dense p1 = true := by
  rw [leafOKb_dense_eq_terms p1 _ _ _ parse1]
  decide +kernel

open C14.Examples in
/-- `denseOK` itself, decided (`ListSem.denseCheck_iff`) -/
example : denseOK p1 := (denseCheck_iff p1).mp (by rw [denseCheck_eq_terms p1 _ _ _ parse1]; decide +kernel)

open C14.Examples in
example : ¬ denseOK pBad := fun h => absurd ((denseCheck_iff pBad).mpr h)
  (by rw [denseCheck_eq_terms pBad _ _ _ parseBad]; decide +kernel)

open C14.Examples in
theorem exDense_validb : validb exDense = true := by
  simp only [validb, exDense, validWith, validWithList, p1_leafOKb]
  decide +kernel

open C14.Examples in
theorem exDense_validTb : validTb exDense = true := by
  simp only [validTb, exDense, validWith, validWithList, adjLeafOKb_eq, p1_leafOKb]
  decide +kernel

open C14.Examples in
example : noPromiseb exDense = true := by decide +kernel

open C14.Examples in
/-- the hypotheses of the two closed theorems, from the check -/
example (E : Env) : WTExpr (listArithSem E).invertible listLeafOK exDense :=
  wt_of_validb_noPromise E exDense exDense_validb (by decide +kernel)

open C14.Examples in
example : ValidT exDense ∧ exDense.WFT := (validTb_iff exDense).mp exDense_validTb

open C14.Examples in
/-- **C03 on an expression with a dense leaf, hypothesis = the executable check** -/
theorem exDense_adjoint (E : Env) (hE : EnvAdj E) (x y : List ℝ) (hx : x.length = 6) (hy : y.length = 4) :
    dot (den E exDense x) y = dot x (den E exDenseT y) :=
  transpose_is_adjoint_closed E hE exDense exDenseT exDense_validTb exDense_T x y hx hy

open C14.Examples in
/-- the same leaf with one block array PER leaf (`vals` empty: interpreted by the environment) is not constrained by
`validb`, and refused by `validTb` (`transposeOp` builds a new leaf the environment does not know) -/
example : validb (.leaf 2 .dense { p1 with vals := ⟨[], []⟩ }) = true ∧
    validTb (.leaf 2 .dense { p1 with vals := ⟨[], []⟩ }) = false := by
  have h : leafOKb .dense { p1 with vals := ⟨[], []⟩ } = true := by
    rw [leafOKb_dense_eq_terms _ _ _ _ parse1]
    decide +kernel
  simp only [validb, validTb, validWith, adjLeafOKb_eq, h]
  decide +kernel

/-! #### expressions OUTSIDE the domain, with the reason -/

open C14.Examples in
/-- a dense leaf whose blocks are broadcast against the input (`C14.Examples.pBad`: `'ij,j->i'`, blocks `(2, 1)`, a
leaf `(3,)`; `mv` is accepted, `.T.mv` raises): refused, with the reason -/
example : leafOKb .dense pBad = false ∧
    leafReason .dense pBad = some "dense:blocks-or-leaves-do-not-fit-subscripts-exactly" := by
  rw [leafOKb_dense_eq_terms pBad _ _ _ parseBad, leafReason_dense_eq_terms pBad _ _ _ parseBad]
  decide +kernel

open C14.Examples in
/-- … and it really is outside the domain of the theorems (completeness of the dense check) -/
example (inv : Op → Prop) : ¬ WTExpr inv listLeafOK (.leaf 1 .dense pBad) := by
  intro h
  have := validb_complete inv _ h
  simp only [validb, validWith, leafOKb_dense_eq_terms pBad _ _ _ parseBad] at this
  revert this
  decide +kernel

/-- a rotation whose angles do not broadcast into the Stokes components -/
def badRot : Op := .leaf 1 .qurot { rotP with vals := ⟨[2], [0, 1]⟩ }
example : validb badRot = false := by decide +kernel
example : invalidReason badRot = some "stokes:angles-do-not-broadcast-into-leaf" := by decide +kernel

/-- an index operator with an out-of-bounds value (NumPy refuses it; `jax.numpy` clamps) -/
def badIdx : Op := .leaf 1 .index { idxP with idx := [.iarr [2] [1, 3]] }
example : invalidReason badIdx = some "index:indexing-fails" := by decide +kernel

/-- `unique_indices=True` on a repeated index: the promise is checked -/
def badUniq : Op := .leaf 1 .index { idxP with flag := true }
example : invalidReason badUniq = some "index:unique-indices-promise-broken" := by decide +kernel

/-- a composition whose adjacent structures differ (`CompositionOperator([A, B])` built directly) -/
example : invalidReason (.comp 3 [opC, opB]) = some "comp:adjacent-structures-differ" := by decide +kernel

/-- a `false` answer really is outside the domain of the theorem (completeness) -/
example (inv : Op → Prop) : ¬ WTExpr inv listLeafOK badRot :=
  fun h => absurd (validb_complete inv badRot h) (by decide +kernel)

end Examples

#print axioms reduce_sound_closed
#print axioms reduceTop_sound_closed
#print axioms reduceTop_sound_decided
#print axioms transpose_is_adjoint_closed
#print axioms Examples.ex1_den
#print axioms Examples.ex2_den
#print axioms Examples.exOp_adjoint
#print axioms Examples.exInv_den
#print axioms Examples.exDense_validb
#print axioms Examples.exDense_validTb
#print axioms Examples.exDense_adjoint

end Valid
end Furax
