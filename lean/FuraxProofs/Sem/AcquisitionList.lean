/-
C16, closed, in the list denotation: the acquisition operator of `furax.instruments.sat` /
`furax.projections` equals the explicit pointing model.

    projection  = QURotationOperator(pa) @ IndexOperator(indices) @ RavelOperator(sky structure)
    acquisition = LinearPolarizerOperator @ HWPOperator @ projection            (then `.reduce()`)

The pixel hit by detector `d` at sample `t` (`vals[d * nsamp + t]`, computed by HEALPix code that is not
modelled) is a parameter.
-/
import FuraxProofs.Sem.ListModel
import FuraxProofs.Props.C16
namespace Furax
namespace ListSem
namespace Acq
open Op

/-! ### 1. the model expressions -/

/-- number of components of a Stokes kind (computable twin of `ncomp`) -/
def nc : StokesKind → Nat
  | .I => 1 | .QU => 2 | .IQU => 3 | .IQUV => 4

theorem nc_eq (k : StokesKind) : nc k = ncomp k := by cases k <;> rfl

theorem kindOf_nc (k : StokesKind) : kindOf (nc k) = some k := by cases k <;> rfl

theorem nc_pos (k : StokesKind) : 0 < nc k := by cases k <;> decide

/-- the treedef of a Stokes pytree, as the harness encodes it -/
def stokesTd (k : StokesKind) : TreeDef :=
  Tok.node ("stokes:" ++ k.name) (nc k) :: List.replicate (nc k) Tok.leaf

/-- a Stokes pytree of `ShapeDtypeStruct`s of one shape -/
def stokesS (k : StokesKind) (shape : List Nat) : Struct :=
  ⟨stokesTd k, List.replicate (nc k) ⟨shape, .f64⟩⟩

/-- the sky: `K`-pytree of maps of `npix` pixels -/
def skyS (k : StokesKind) (npix : Nat) : Struct := stokesS k [npix]
/-- the time-ordered data before the polariser: `K`-pytree of leaves of shape `(ndet, nsamp)` -/
def todS (k : StokesKind) (ndet nsamp : Nat) : Struct := stokesS k [ndet, nsamp]
/-- the detector time streams: one leaf of shape `(ndet, nsamp)` -/
def detS (ndet nsamp : Nat) : Struct := ⟨[Tok.leaf], [⟨[ndet, nsamp], .f64⟩]⟩

def rotP (k : StokesKind) (ndet nsamp : Nat) (angles : Tensor Rat) : Params :=
  { inS := todS k ndet nsamp, outS := todS k ndet nsamp, vals := angles }
def idxP (k : StokesKind) (npix ndet nsamp : Nat) (vals : List Int) : Params :=
  { inS := skyS k npix, outS := todS k ndet nsamp, idx := [.iarr [ndet, nsamp] vals], flag := false }
def ravelP (k : StokesKind) (npix : Nat) : Params := { inS := skyS k npix, outS := skyS k npix }
def hwpP (k : StokesKind) (ndet nsamp : Nat) : Params := { inS := todS k ndet nsamp, outS := todS k ndet nsamp }
def polP (k : StokesKind) (ndet nsamp : Nat) : Params := { inS := todS k ndet nsamp, outS := detS ndet nsamp }

/-- `QURotationOperator(pa, tod_structure)` -/
def rotOp (k : StokesKind) (ndet nsamp : Nat) (angles : Tensor Rat) : Op := .leaf 1 .qurot (rotP k ndet nsamp angles)
/-- `IndexOperator(indices, in_structure=reshape.out_structure())` -/
def idxOp (k : StokesKind) (npix ndet nsamp : Nat) (vals : List Int) : Op :=
  .leaf 2 .index (idxP k npix ndet nsamp vals)
/-- `RavelOperator(in_structure=landscape.structure)`: a no-op relabelling for a HEALPix landscape -/
def ravelOp (k : StokesKind) (npix : Nat) : Op := .leaf 3 .ravel (ravelP k npix)
/-- `HWPOperator(projection.out_structure())` -/
def hwpOp (k : StokesKind) (ndet nsamp : Nat) : Op := .leaf 4 .hwp (hwpP k ndet nsamp)
/-- `LinearPolarizerOperator.create((ndet, nsamp), dtype, K)` -/
def polOp (k : StokesKind) (ndet nsamp : Nat) : Op := .leaf 5 .polarizer (polP k ndet nsamp)

/-- `projection = rotation @ sampling @ reshape` (the second `@` appends to the composition) -/
def projOp (k : StokesKind) (npix ndet nsamp : Nat) (vals : List Int) (angles : Tensor Rat) : Op :=
  .comp 6 [rotOp k ndet nsamp angles, idxOp k npix ndet nsamp vals, ravelOp k npix]

/-- `acquisition = polarizer @ hwp @ projection` (`CompositionOperator.__matmul__` concatenates the operand lists) -/
def acqOp (k : StokesKind) (npix ndet nsamp : Nat) (vals : List Int) (angles : Tensor Rat) : Op :=
  .comp 7 [polOp k ndet nsamp, hwpOp k ndet nsamp, rotOp k ndet nsamp angles, idxOp k npix ndet nsamp vals,
    ravelOp k npix]

/-- the modelled `@` builds exactly these operand lists (the compositions it creates get `uid = 0`; the
denotation does not look at the `uid` of a composition) -/
theorem projOp_matmul (k : StokesKind) (npix ndet nsamp : Nat) (vals : List Int) (angles : Tensor Rat) :
    (pyMatmul (rotOp k ndet nsamp angles) (idxOp k npix ndet nsamp vals) >>= fun ri => pyMatmul ri (ravelOp k npix))
      = .ok (.comp 0 [rotOp k ndet nsamp angles, idxOp k npix ndet nsamp vals, ravelOp k npix]) := by
  simp [pyMatmul, matmulOf, baseMatmul, rotOp, idxOp, ravelOp, Op.inS, Op.outS, squareLeaf, isComp, lazyInverseOf,
    mkComp, rotP, idxP, ravelP, inSLast, bind, Except.bind]

theorem acqOp_matmul (k : StokesKind) (npix ndet nsamp : Nat) (vals : List Int) (angles : Tensor Rat) :
    (pyMatmul (polOp k ndet nsamp) (hwpOp k ndet nsamp) >>= fun ph =>
        pyMatmul ph (projOp k npix ndet nsamp vals angles))
      = .ok (.comp 0 [polOp k ndet nsamp, hwpOp k ndet nsamp, rotOp k ndet nsamp angles,
          idxOp k npix ndet nsamp vals, ravelOp k npix]) := by
  simp [pyMatmul, matmulOf, baseMatmul, projOp, polOp, hwpOp, rotOp, idxOp, ravelOp, Op.inS, Op.outS, squareLeaf,
    isComp, lazyInverseOf, mkComp, polP, hwpP, rotP, idxP, ravelP, inSLast, outSHead, bind, Except.bind]

/-- what the constructors guarantee: the pixel array has one in-range value per (detector, sample); the position
angles are a well-formed array of shape `(nsamp,)`; nothing is empty -/
structure Valid (npix ndet nsamp : Nat) (vals : List Int) (angles : Tensor Rat) : Prop where
  npix_pos : 0 < npix
  ndet_pos : 0 < ndet
  nsamp_pos : 0 < nsamp
  vals_len : vals.length = ndet * nsamp
  vals_rng : ∀ v ∈ vals, 0 ≤ v ∧ v < (npix : Int)
  ang_shape : angles.shape = [nsamp]
  ang_wf : angles.wellFormed = true

/-! ### 2. list lemmas -/

theorem fit_getD (n : Nat) (x : V) (t : Nat) (ht : t < n) : (fit n x).getD t 0 = x.getD t 0 := by
  induction n generalizing x t with
  | zero => omega
  | succ n ih =>
    cases x with
    | nil =>
      rw [fit_succ_nil]
      cases t with
      | zero => rfl
      | succ t =>
        rw [List.getD_cons_succ, ih [] t (by omega)]
        simp
    | cons v x =>
      rw [fit_succ_cons]
      cases t with
      | zero => rfl
      | succ t => rw [List.getD_cons_succ, List.getD_cons_succ, ih x t (by omega)]

theorem headChunk_getD (n : Nat) (x : V) (t : Nat) (ht : t < n) : (headChunk n x).getD t 0 = x.getD t 0 := by
  rw [headChunk_eq_fit, fit_getD n x t ht]

theorem drop_getD (x : V) (a t : Nat) : (x.drop a).getD t 0 = x.getD (a + t) 0 := by
  simp only [List.getD_eq_getElem?_getD, List.getElem?_drop]

/-- entry `c * n + t` of a concatenation of rows of length `n` -/
theorem flatten_getD (L : List V) (n : Nat) (hL : ∀ r ∈ L, r.length = n) (c t : Nat) (hc : c < L.length)
    (ht : t < n) : L.flatten.getD (c * n + t) 0 = (L.getD c []).getD t 0 := by
  induction L generalizing c with
  | nil => simp at hc
  | cons r L ih =>
    have hr : r.length = n := hL r (by simp)
    rw [List.flatten_cons]
    cases c with
    | zero =>
      rw [Nat.zero_mul, Nat.zero_add, List.getD_append _ _ _ _ (by omega)]
      rfl
    | succ c =>
      rw [List.getD_append_right _ _ _ _ (by rw [hr, Nat.succ_mul]; omega), List.getD_cons_succ,
        ← ih (fun r' h' => hL r' (by simp [h'])) c (by simpa using hc)]
      congr 1
      rw [hr, Nat.succ_mul]; omega

theorem flatten_rows_length (L : List V) (n : Nat) (hL : ∀ r ∈ L, r.length = n) :
    L.flatten.length = L.length * n := by
  induction L with
  | nil => simp
  | cons r L ih =>
    rw [List.flatten_cons, List.length_append, ih (fun r' h' => hL r' (by simp [h'])), hL r (by simp),
      List.length_cons, Nat.succ_mul, Nat.add_comm]

theorem chunks_rows (m n : Nat) (x : V) : ∀ r ∈ chunks (List.replicate m n) x, r.length = n := by
  intro r hr
  have h1 : r.length ∈ (chunks (List.replicate m n) x).map List.length := List.mem_map.mpr ⟨r, hr, rfl⟩
  rw [chunks_map_length] at h1
  exact (List.mem_replicate.mp h1).2

/-- entry `t` of chunk `c` of a vector of `m` chunks of length `n` -/
theorem chunks_getD (m n : Nat) (x : V) (hx : x.length = m * n) (c t : Nat) (hc : c < m) (ht : t < n) :
    ((chunks (List.replicate m n) x).getD c []).getD t 0 = x.getD (c * n + t) 0 := by
  have h := flatten_getD (chunks (List.replicate m n) x) n (chunks_rows m n x) c t (by simpa using hc) ht
  rw [chunks_flatten _ _ (by simp [hx])] at h
  exact h.symm

/-- **the Stokes vector of sample `t`**, read from the concatenated components -/
theorem svAt_eq (k : StokesKind) (n : Nat) (x : V) (hx : x.length = nc k * n) (t : Nat) (ht : t < n) :
    svAt k n x t = SV.ofPresent k ((List.range (nc k)).map fun c => x.getD (c * n + t) 0) 0 := by
  unfold svAt
  rw [← nc_eq]
  congr 1
  apply List.ext_getElem
  · simp
  · intro c h1 h2
    have hc : c < nc k := by simpa using h2
    simp only [List.getElem_map, List.getElem_range]
    rw [← chunks_getD (nc k) n x hx c t hc ht,
      List.getD_eq_getElem (chunks (List.replicate (nc k) n) x) [] (by simpa using hc)]

/-- the sample `t` of a concatenation of `|K|` rows of length `n` -/
theorem svAt_rows (k : StokesKind) (n : Nat) (f : Nat → Nat → ℝ) (t : Nat) (ht : t < n) :
    svAt k n (((List.range (nc k)).map fun c => (List.range n).map fun j => f c j).flatten) t
      = SV.ofPresent k ((List.range (nc k)).map fun c => f c t) 0 := by
  have hrows : ∀ r ∈ (List.range (nc k)).map fun c => (List.range n).map fun j => f c j, r.length = n := by
    intro r hr
    obtain ⟨c, _, rfl⟩ := List.mem_map.mp hr
    simp
  rw [svAt_eq k n _ (by rw [flatten_rows_length _ n hrows]; simp) t ht]
  congr 1
  apply List.map_congr_left
  intro c hc
  have hc' : c < nc k := List.mem_range.mp hc
  rw [flatten_getD _ n hrows c t (by simpa using hc') ht,
    List.getD_eq_getElem (List.map _ (List.range (nc k))) [] (by simpa using hc')]
  simp only [List.getElem_map, List.getElem_range]
  rw [List.getD_eq_getElem _ _ (by simpa using ht)]
  simp

theorem stokesMap_getD (k : StokesKind) (n : Nat) (g : Nat → SV ℝ → SV ℝ) (x : V) (c t : Nat) (hc : c < nc k)
    (ht : t < n) :
    (stokesMap k n g x).getD (c * n + t) 0 = (SV.present k (g t (svAt k n x t))).getD c 0 := by
  rw [stokesMap_eq, ← nc_eq]
  have hrows : ∀ r ∈ (List.range (nc k)).map fun c => (List.range n).map fun t =>
      (SV.present k (g t (svAt k n x t))).getD c 0, r.length = n := by
    intro r hr
    obtain ⟨c, _, rfl⟩ := List.mem_map.mp hr
    simp
  rw [flatten_getD _ n hrows c t (by simpa using hc) ht,
    List.getD_eq_getElem (List.map _ (List.range (nc k))) [] (by simpa using hc)]
  simp only [List.getElem_map, List.getElem_range]
  rw [List.getD_eq_getElem _ _ (by simpa using ht)]
  simp

/-- a leaf-wise map on `m` leaves of one structure, chunk by chunk -/
theorem perLeaf_replicate (f : LeafS → LeafS → V → V) (li lo : LeafS) (m : Nat) (x : V) :
    perLeaf f (List.replicate m li) (List.replicate m lo) x
      = ((List.range m).map fun c => fit lo.size (f li lo (headChunk li.size (x.drop (c * li.size))))).flatten := by
  induction m generalizing x with
  | zero => rfl
  | succ m ih =>
    rw [List.replicate_succ, List.replicate_succ, perLeaf_cons, ih, List.range_succ_eq_map, List.map_cons,
      List.flatten_cons, List.map_map, Nat.zero_mul, List.drop_zero]
    congr 2
    apply List.map_congr_left
    intro c _
    simp only [Function.comp, List.drop_drop]
    rw [Nat.succ_mul, Nat.add_comm]

/-! ### 3. the leaves, one by one -/

theorem prodNat_one (n : Nat) : prodNat [n] = n := by simp [prodNat]
theorem prodNat_two (a b : Nat) : prodNat [a, b] = a * b := by simp [prodNat]

theorem stokesS_size (k : StokesKind) (sh : List Nat) : (stokesS k sh).size = nc k * prodNat sh := by
  simp [Struct.size, stokesS, LeafS.size]

theorem skyS_size (k : StokesKind) (npix : Nat) : (skyS k npix).size = nc k * npix := by
  rw [skyS, stokesS_size, prodNat_one]

theorem todS_size (k : StokesKind) (ndet nsamp : Nat) : (todS k ndet nsamp).size = nc k * (ndet * nsamp) := by
  rw [todS, stokesS_size, prodNat_two]

theorem detS_size (ndet nsamp : Nat) : (detS ndet nsamp).size = ndet * nsamp := by
  simp [detS, Struct.size, LeafS.size, prodNat]

theorem stokesS_leaves_length (k : StokesKind) (sh : List Nat) : (stokesS k sh).leaves.length = nc k := by
  simp [stokesS]

theorem stokesS_kind (k : StokesKind) (sh : List Nat) : kindOf (stokesS k sh).leaves.length = some k := by
  rw [stokesS_leaves_length, kindOf_nc]

theorem stokesS_headD (k : StokesKind) (sh : List Nat) : ((stokesS k sh).leaves.headD default).shape = sh := by
  cases k <;> rfl

theorem stokesS_shapes (k : StokesKind) (sh : List Nat) : ∀ l ∈ (stokesS k sh).leaves, l.shape = sh := by
  intro l hl
  rw [(List.mem_replicate.mp hl).2]

/-- the pixel hit at flat (detector, sample) position `j` -/
def pix (vals : List Int) (j : Nat) : Nat := (vals.getD j 0).toNat

/-- the position angle of sample `t` -/
noncomputable def psi (angles : Tensor Rat) (t : Nat) : ℝ := ((angles.data.getD t 0 : Rat) : ℝ)

section leaves
variable {npix ndet nsamp : Nat} {vals : List Int} {angles : Tensor Rat}

theorem Valid.pix_lt (hv : Valid npix ndet nsamp vals angles) (j : Nat) (hj : j < ndet * nsamp) :
    pix vals j < npix := by
  have hjl : j < vals.length := by rw [hv.vals_len]; exact hj
  have := hv.vals_rng _ (List.getElem_mem hjl)
  unfold pix
  rw [List.getD_eq_getElem _ _ hjl]
  omega

theorem Valid.vals_py (hv : Valid npix ndet nsamp vals angles) : ∀ i ∈ vals, -(npix : Int) ≤ i ∧ i < npix := by
  intro i hi
  have := hv.vals_rng i hi
  omega

/-- **the position map of the sampling operator**: element `j` of the result reads pixel `vals[j]` -/
theorem indexPositions_pix (hv : Valid npix ndet nsamp vals angles) :
    Index.indexPositions [npix] [.iarr [ndet, nsamp] vals]
      = .ok ([ndet, nsamp], (List.range (ndet * nsamp)).map (pix vals)) := by
  have hsels : Index.toSels ([] ++ npix :: []) [.iarr [ndet, nsamp] vals]
      = .ok (selsOf [] [ndet, nsamp] vals []) := by
    have h := (toSels_frag [npix] [] [] [ndet, nsamp] vals (by simp) (by simp) (by simp) (by simp)).2
    have hw : widthOf (fillOf [npix] [] []) [] = 0 := by simp [widthOf]
    rw [hw] at h
    simpa using h
  have hadj : adjacentOf (flagsOf [.iarr [ndet, nsamp] vals] true) = true := by
    have := flagsOf_single [] [] [ndet, nsamp] vals (by simp) (by simp)
    simp only [List.nil_append] at this
    rw [this]
    exact adjacentOf_single _ _
  have h := indexPositions_eval [] [] [ndet, nsamp] npix vals _ hsels hadj hv.vals_py
    (by rw [hv.vals_len, prodNat_two])
  simp only [List.nil_append, List.append_nil] at h
  rw [h, prodNat_two]
  congr 2
  apply List.map_congr_left
  intro j hj
  have hj' : j < ndet * nsamp := List.mem_range.mp hj
  have hjl : j < vals.length := by rw [hv.vals_len]; exact hj'
  have h0 := (hv.vals_rng _ (List.getElem_mem hjl)).1
  unfold posFn nvf pix normIdx
  simp only [prodNat_two, show prodNat ([] : List Nat) = 1 from rfl, Nat.mul_one, Nat.div_one, Nat.mod_one,
    Nat.add_zero, Nat.div_eq_of_lt hj', Nat.zero_mul, Nat.zero_add, Nat.mod_eq_of_lt hj']
  rw [List.getD_eq_getElem _ _ hjl, if_neg (by omega)]

/-- the ravel of maps that are already one-dimensional is a no-op -/
theorem den_ravel (E : Env) (k : StokesKind) (x : V) (hx : x.length = nc k * npix) :
    den E (ravelOp k npix) x = x := by
  have hs : (ravelP k npix).inS.size = nc k * npix := skyS_size k npix
  have ht : (ravelP k npix).outS.size = nc k * npix := skyS_size k npix
  simp only [ravelOp, den, leafDen, squareLeaf, Bool.false_eq_true, if_false, hs, ht]
  rw [fit_eq_self hx]
  exact fit_eq_self hx

/-- the sky sampled along the scan: component `c`, flat (detector, sample) position `j` ↦ `x[c·npix + vals[j]]` -/
def sampled (k : StokesKind) (npix n : Nat) (vals : List Int) (x : V) : V :=
  ((List.range (nc k)).map fun c => (List.range n).map fun j => x.getD (c * npix + pix vals j) 0).flatten

theorem sampled_length (k : StokesKind) (npix n : Nat) (vals : List Int) (x : V) :
    (sampled k npix n vals x).length = nc k * n := by
  unfold sampled
  rw [flatten_rows_length _ n]
  · simp
  · intro r hr
    obtain ⟨c, _, rfl⟩ := List.mem_map.mp hr
    simp

/-- **the sampling operator gathers the pointed pixels**, component by component -/
theorem den_idx (E : Env) (k : StokesKind) (hv : Valid npix ndet nsamp vals angles) (x : V)
    (hx : x.length = nc k * npix) :
    den E (idxOp k npix ndet nsamp vals) x = sampled k npix (ndet * nsamp) vals x := by
  have hs : (idxP k npix ndet nsamp vals).inS.size = nc k * npix := skyS_size k npix
  have ht : (idxP k npix ndet nsamp vals).outS.size = nc k * (ndet * nsamp) := todS_size k ndet nsamp
  simp only [idxOp, den, leafDen, squareLeaf, Bool.false_eq_true, if_false, hs, ht]
  rw [fit_eq_self hx]
  have hper : perLeaf (gatherLeaf (idxP k npix ndet nsamp vals).idx) (idxP k npix ndet nsamp vals).inS.leaves
      (idxP k npix ndet nsamp vals).outS.leaves x = sampled k npix (ndet * nsamp) vals x := by
    show perLeaf (gatherLeaf [.iarr [ndet, nsamp] vals]) (List.replicate (nc k) ⟨[npix], .f64⟩)
      (List.replicate (nc k) ⟨[ndet, nsamp], .f64⟩) x = _
    rw [perLeaf_replicate]
    unfold sampled
    congr 1
    apply List.map_congr_left
    intro c hc
    have hc' : c < nc k := List.mem_range.mp hc
    simp only [gatherLeaf, indexPositions_pix hv, LeafS.size, prodNat_one, prodNat_two, Index.gather]
    rw [fit_eq_self (by simp)]
    simp only [List.map_map]
    apply List.map_congr_left
    intro j hj
    have hp := hv.pix_lt j (List.mem_range.mp hj)
    simp only [Function.comp]
    rw [show (default : ℝ) = 0 from rfl, headChunk_getD _ _ _ hp, drop_getD]
  show fit _ (perLeaf _ _ _ x) = _
  rw [hper]
  exact fit_eq_self (sampled_length _ _ _ _ _)

/-- the Stokes vector of pixel `p` of the sky `x` (components concatenated, `npix` pixels each) -/
def skyAt (k : StokesKind) (npix : Nat) (x : V) (p : Nat) : SV ℝ :=
  SV.ofPresent k ((List.range (nc k)).map fun c => x.getD (c * npix + p) 0) 0

theorem skyAt_eq_svAt (k : StokesKind) (x : V) (hx : x.length = nc k * npix) (p : Nat) (hp : p < npix) :
    skyAt k npix x p = svAt k npix x p := (svAt_eq k npix x hx p hp).symm

/-- sample `j` of the sampled sky is the Stokes vector of the pixel hit -/
theorem svAt_sampled (k : StokesKind) (npix n : Nat) (vals : List Int) (x : V) (j : Nat) (hj : j < n) :
    svAt k n (sampled k npix n vals x) j = skyAt k npix x (pix vals j) :=
  svAt_rows k n (fun c j => x.getD (c * npix + pix vals j) 0) j hj

theorem rotP_ok (k : StokesKind) (hv : Valid npix ndet nsamp vals angles) :
    stokesOK .qurot (rotP k ndet nsamp angles) := by
  refine ⟨⟨k, stokesS_kind k _⟩, ?_, fun _ => ⟨hv.ang_wf, ?_⟩, fun h => by cases h⟩
  · intro l hl
    rw [leafShape]
    show l.shape = ((stokesS k [ndet, nsamp]).leaves.headD default).shape
    rw [stokesS_headD]
    exact stokesS_shapes k _ l hl
  · rw [leafShape]
    show Bc angles.shape ((stokesS k [ndet, nsamp]).leaves.headD default).shape
    rw [stokesS_headD, hv.ang_shape]
    refine ⟨by simp, fun j hj => ?_⟩
    have : j = 0 := by simpa using hj
    subst this
    right; rfl

theorem hwpP_ok (k : StokesKind) (ndet nsamp : Nat) : stokesOK .hwp (hwpP k ndet nsamp) := by
  refine ⟨⟨k, stokesS_kind k _⟩, ?_, fun h => (by cases h), fun h => (by cases h)⟩
  intro l hl
  rw [leafShape]
  show l.shape = ((stokesS k [ndet, nsamp]).leaves.headD default).shape
  rw [stokesS_headD]
  exact stokesS_shapes k _ l hl

theorem polP_ok (k : StokesKind) (ndet nsamp : Nat) : stokesOK .polarizer (polP k ndet nsamp) := by
  refine ⟨⟨k, stokesS_kind k _⟩, ?_, fun h => (by cases h), fun _ => ⟨_, rfl, ?_⟩⟩
  · intro l hl
    rw [leafShape]
    show l.shape = ((stokesS k [ndet, nsamp]).leaves.headD default).shape
    rw [stokesS_headD]
    exact stokesS_shapes k _ l hl
  · rw [leafShape]
    show [ndet, nsamp] = ((stokesS k [ndet, nsamp]).leaves.headD default).shape
    rw [stokesS_headD]

theorem leafShape_rotP (k : StokesKind) : leafShape (rotP k ndet nsamp angles) = [ndet, nsamp] :=
  stokesS_headD k _
theorem leafShape_hwpP (k : StokesKind) : leafShape (hwpP k ndet nsamp) = [ndet, nsamp] := stokesS_headD k _
theorem leafShape_polP (k : StokesKind) : leafShape (polP k ndet nsamp) = [ndet, nsamp] := stokesS_headD k _

/-- the angle the rotation uses at flat position `j = d·nsamp + t` is the position angle of sample `t` -/
theorem angleAt_psi (hv : Valid npix ndet nsamp vals angles) (j : Nat) (hj : j < ndet * nsamp) :
    angleAt angles [ndet, nsamp] j = psi angles (j % nsamp) := by
  have hb : Bc angles.shape [ndet, nsamp] := by
    have := (rotP_ok .I hv).2.2.1 rfl
    rw [leafShape_rotP] at this
    exact this.2
  rw [angleAt_eq angles _ j hv.ang_wf hb (by rw [prodNat_two]; exact hj)]
  unfold angleQ psi
  congr 2
  rw [hv.ang_shape]
  unfold bIdx
  simp only [unravel, List.foldr, bcastIndex, List.length_cons, List.length_nil]
  by_cases h1 : nsamp = 1
  · subst h1; simp [ravelIdx, Nat.mod_one]
  · simp [ravelIdx, h1]

/-! ### 4. the projection -/

/-- `(d, t) ↦ d·nsamp + t` is the row-major flat position in a leaf of shape `(ndet, nsamp)` -/
theorem flat_lt {d t : Nat} (hd : d < ndet) (ht : t < nsamp) : d * nsamp + t < ndet * nsamp := by
  calc d * nsamp + t < d * nsamp + nsamp := by omega
    _ = (d + 1) * nsamp := by rw [Nat.succ_mul]
    _ ≤ ndet * nsamp := Nat.mul_le_mul_right _ hd

theorem flat_mod {d t : Nat} (ht : t < nsamp) : (d * nsamp + t) % nsamp = t := by
  rw [Nat.add_comm, Nat.add_mul_mod_self_right, Nat.mod_eq_of_lt ht]

/-- the projection is the QU rotation, sample by sample, of the sampled sky -/
theorem den_proj (E : Env) (k : StokesKind) (hv : Valid npix ndet nsamp vals angles) (x : V)
    (hx : x.length = nc k * npix) :
    den E (projOp k npix ndet nsamp vals angles) x
      = stokesMap k (ndet * nsamp) (rotG angles [ndet, nsamp]) (sampled k npix (ndet * nsamp) vals x) := by
  simp only [projOp, den, app]
  rw [den_ravel E k x hx, den_idx E k hv x hx]
  have h := den_qurot E 1 (rotP_ok k hv) (stokesS_kind k _) (sampled k npix (ndet * nsamp) vals x)
    (by rw [sampled_length]; exact (todS_size k ndet nsamp).symm)
  rw [leafShape_rotP, prodNat_two] at h
  exact h

theorem den_proj_length (E : Env) (k : StokesKind) (hv : Valid npix ndet nsamp vals angles) (x : V)
    (hx : x.length = nc k * npix) :
    (den E (projOp k npix ndet nsamp vals angles) x).length = nc k * (ndet * nsamp) := by
  rw [den_proj E k hv x hx, stokesMap_length, nc_eq]

/-- sample `j` of the projected sky: the Stokes vector of the pixel hit, rotated by twice the position angle -/
theorem svAt_proj (E : Env) (k : StokesKind) (hv : Valid npix ndet nsamp vals angles) (x : V)
    (hx : x.length = nc k * npix) (j : Nat) (hj : j < ndet * nsamp) :
    SV.present k (svAt k (ndet * nsamp) (den E (projOp k npix ndet nsamp vals angles) x) j)
      = SV.present k (SV.rot (Real.cos (2 * psi angles (j % nsamp))) (Real.sin (2 * psi angles (j % nsamp)))
          (skyAt k npix x (pix vals j))) := by
  rw [den_proj E k hv x hx, svAt_stokesMap _ _ _ _ _ hj, present_ofPresent _ _ (present_length _ _),
    svAt_sampled _ _ _ _ _ _ hj, rotG, angleAt_psi hv j hj]

/-- **C16, projection, closed.**  For a sky `x` (the `|K|` components concatenated, `npix` pixels each), component
`c` of `projection.mv(x)` for detector `d` at sample `t` is component `c` of the Stokes vector found at the pointed
pixel `p = indices[d, t]` with `(Q, U)` rotated by `2ψ_t`: `Q' = Q cos 2ψ − U sin 2ψ`, `U' = Q sin 2ψ + U cos 2ψ`,
`I` and `V` unchanged. -/
theorem projection_closed (E : Env) (k : StokesKind) (hv : Valid npix ndet nsamp vals angles) (x : V)
    (hx : x.length = nc k * npix) (c d t : Nat) (hc : c < nc k) (hd : d < ndet) (ht : t < nsamp) :
    (den E (projOp k npix ndet nsamp vals angles) x).getD (c * (ndet * nsamp) + (d * nsamp + t)) 0
      = (SV.present k (SV.rot (Real.cos (2 * psi angles t)) (Real.sin (2 * psi angles t))
          (skyAt k npix x (pix vals (d * nsamp + t))))).getD c 0 := by
  have hj := flat_lt (ndet := ndet) hd ht
  rw [den_proj E k hv x hx, stokesMap_getD k _ _ _ c _ hc hj, svAt_sampled _ _ _ _ _ _ hj, rotG,
    angleAt_psi hv _ hj, flat_mod ht]

/-- the same, component by component, for a sky with all four Stokes parameters -/
theorem projection_closed_IQUV (E : Env) (hv : Valid npix ndet nsamp vals angles) (x : V)
    (hx : x.length = 4 * npix) (d t : Nat) (hd : d < ndet) (ht : t < nsamp) :
    let N := ndet * nsamp
    let j := d * nsamp + t
    let p := pix vals j
    let y := den E (projOp .IQUV npix ndet nsamp vals angles) x
    y.getD j 0 = x.getD p 0 ∧
    y.getD (N + j) 0 = x.getD (npix + p) 0 * Real.cos (2 * psi angles t)
        - x.getD (2 * npix + p) 0 * Real.sin (2 * psi angles t) ∧
    y.getD (2 * N + j) 0 = x.getD (npix + p) 0 * Real.sin (2 * psi angles t)
        + x.getD (2 * npix + p) 0 * Real.cos (2 * psi angles t) ∧
    y.getD (3 * N + j) 0 = x.getD (3 * npix + p) 0 := by
  intro N j p y
  have h := fun c hc => projection_closed E .IQUV hv x hx c d t hc hd ht
  have h0 := h 0 (by decide)
  have h1 := h 1 (by decide)
  have h2 := h 2 (by decide)
  have h3 := h 3 (by decide)
  simp only [Nat.zero_mul, Nat.zero_add, Nat.one_mul] at h0 h1 h2 h3
  refine ⟨h0.trans ?_, h1.trans ?_, h2.trans ?_, h3.trans ?_⟩ <;>
    simp [skyAt, nc, SV.present, SV.rot, SV.ofPresent, List.range, List.range.loop, p, j]

/-! ### 5. the acquisition -/

theorem den_acq_eq (E : Env) (k : StokesKind) (x : V) :
    den E (acqOp k npix ndet nsamp vals angles) x
      = den E (polOp k ndet nsamp) (den E (hwpOp k ndet nsamp) (den E (projOp k npix ndet nsamp vals angles) x)) := by
  simp only [acqOp, projOp, den, app]

/-- polariser ∘ HWP on a vector of Stokes samples -/
theorem den_pol_hwp (E : Env) (k : StokesKind) (z : V) (hz : z.length = nc k * (ndet * nsamp)) :
    den E (polOp k ndet nsamp) (den E (hwpOp k ndet nsamp) z)
      = (List.range (ndet * nsamp)).map fun j => SV.pol (1 / 2 : ℝ) k (SV.hwp (svAt k (ndet * nsamp) z j)) := by
  have h1 := den_hwp E 4 (hwpP_ok k ndet nsamp) (stokesS_kind k _) z (by rw [hz]; exact (todS_size k ndet nsamp).symm)
  rw [leafShape_hwpP, prodNat_two] at h1
  have h2 := den_polarizer E (p := polP k ndet nsamp) 5 (stokesS_kind k _)
    (stokesMap k (ndet * nsamp) (fun _ => SV.hwp) z)
    (by rw [stokesMap_length, ← nc_eq]; exact (todS_size k ndet nsamp).symm)
  rw [leafShape_polP, prodNat_two] at h2
  rw [hwpOp, h1, polOp, h2, fit_eq_self (by rw [polMap_length]; exact (detS_size ndet nsamp).symm), polMap_eq]
  apply List.map_congr_left
  intro j hj
  rw [svAt_stokesMap _ _ _ _ _ (List.mem_range.mp hj)]
  exact pol_resp k _ _ _ (present_ofPresent _ _ (present_length _ _))

/-- **C16, acquisition, closed (whole vector).**  The detector time streams are, sample by sample,
polariser ∘ HWP ∘ rotation applied to the sky Stokes vector found at the pointed pixel: exactly
`Acquisition.acquire`, the per-sample model the compiled driver runs. -/
theorem den_acq (E : Env) (k : StokesKind) (hv : Valid npix ndet nsamp vals angles) (x : V)
    (hx : x.length = nc k * npix) :
    den E (acqOp k npix ndet nsamp vals angles) x
      = (List.range (ndet * nsamp)).map fun j =>
          Acquisition.acquire (1 / 2 : ℝ) k (Real.cos (2 * psi angles (j % nsamp)))
            (Real.sin (2 * psi angles (j % nsamp))) (skyAt k npix x (pix vals j)) := by
  rw [den_acq_eq, den_pol_hwp E k _ (den_proj_length E k hv x hx)]
  apply List.map_congr_left
  intro j hj
  unfold Acquisition.acquire
  exact pol_resp k _ _ _ (hwp_resp k 0 _ _ (svAt_proj E k hv x hx j (List.mem_range.mp hj)))

theorem den_acq_length (E : Env) (k : StokesKind) (hv : Valid npix ndet nsamp vals angles) (x : V)
    (hx : x.length = nc k * npix) : (den E (acqOp k npix ndet nsamp vals angles) x).length = ndet * nsamp := by
  rw [den_acq E k hv x hx]; simp

/-- **C16, acquisition, closed.**  The time stream of detector `d` at sample `t` is
`pol (hwp (rot (cos 2ψ_t) (sin 2ψ_t) sky_p))`, `p = indices[d, t]` the pointed pixel, `ψ_t` the position angle. -/
theorem acquisition_closed (E : Env) (k : StokesKind) (hv : Valid npix ndet nsamp vals angles) (x : V)
    (hx : x.length = nc k * npix) (d t : Nat) (hd : d < ndet) (ht : t < nsamp) :
    (den E (acqOp k npix ndet nsamp vals angles) x).getD (d * nsamp + t) 0
      = SV.pol (1 / 2 : ℝ) k (SV.hwp (SV.rot (Real.cos (2 * psi angles t)) (Real.sin (2 * psi angles t))
          (skyAt k npix x (pix vals (d * nsamp + t))))) := by
  have hj := flat_lt (ndet := ndet) hd ht
  rw [den_acq E k hv x hx, List.getD_eq_getElem _ _ (by simpa using hj)]
  simp only [List.getElem_map, List.getElem_range, flat_mod ht]
  rfl

/-- … which is `Acquisition.acquire` of the model -/
theorem acquisition_closed_acquire (E : Env) (k : StokesKind) (hv : Valid npix ndet nsamp vals angles) (x : V)
    (hx : x.length = nc k * npix) (d t : Nat) (hd : d < ndet) (ht : t < nsamp) :
    (den E (acqOp k npix ndet nsamp vals angles) x).getD (d * nsamp + t) 0
      = Acquisition.acquire (1 / 2 : ℝ) k (Real.cos (2 * psi angles t)) (Real.sin (2 * psi angles t))
          (skyAt k npix x (pix vals (d * nsamp + t))) :=
  acquisition_closed E k hv x hx d t hd ht

theorem skyAt_IQU (x : V) (p : Nat) :
    skyAt .IQU npix x p = ⟨x.getD p 0, x.getD (npix + p) 0, x.getD (2 * npix + p) 0, 0⟩ := by
  simp [skyAt, nc, SV.ofPresent, List.range, List.range.loop]

theorem skyAt_IQUV (x : V) (p : Nat) :
    skyAt .IQUV npix x p = ⟨x.getD p 0, x.getD (npix + p) 0, x.getD (2 * npix + p) 0, x.getD (3 * npix + p) 0⟩ := by
  simp [skyAt, nc, SV.ofPresent, List.range, List.range.loop]

theorem skyAt_QU (x : V) (p : Nat) : skyAt .QU npix x p = ⟨0, x.getD p 0, x.getD (npix + p) 0, 0⟩ := by
  simp [skyAt, nc, SV.ofPresent, List.range, List.range.loop]

theorem skyAt_I (x : V) (p : Nat) : skyAt .I npix x p = ⟨x.getD p 0, 0, 0, 0⟩ := by
  simp [skyAt, nc, SV.ofPresent, List.range, List.range.loop]

/-- **the sign, derived from the definitions**: for an IQU sky (maps `I`, `Q`, `U` concatenated) the time stream is
`(I_p + Q_p cos 2ψ_t − U_p sin 2ψ_t) / 2`.  `SV.hwp` flips `U` and `V` AFTER the rotation and the polariser reads
only `I` and `Q`, so the HWP has no effect here and `U` enters through the rotation only, with the MINUS sign of
`Q' = Q cos 2ψ − U sin 2ψ`.  This is `C16.acquisition_real` at the pointed pixel. -/
theorem acquisition_closed_IQU (E : Env) (hv : Valid npix ndet nsamp vals angles) (x : V)
    (hx : x.length = 3 * npix) (d t : Nat) (hd : d < ndet) (ht : t < nsamp) :
    let p := pix vals (d * nsamp + t)
    (den E (acqOp .IQU npix ndet nsamp vals angles) x).getD (d * nsamp + t) 0
      = (x.getD p 0 + x.getD (npix + p) 0 * Real.cos (2 * psi angles t)
          - x.getD (2 * npix + p) 0 * Real.sin (2 * psi angles t)) / 2 := by
  intro p
  rw [acquisition_closed_acquire E .IQU hv x hx d t hd ht, C16.acquisition_real, skyAt_IQU]

/-- the same for an IQUV sky: `V` does not reach the detector -/
theorem acquisition_closed_IQUV (E : Env) (hv : Valid npix ndet nsamp vals angles) (x : V)
    (hx : x.length = 4 * npix) (d t : Nat) (hd : d < ndet) (ht : t < nsamp) :
    let p := pix vals (d * nsamp + t)
    (den E (acqOp .IQUV npix ndet nsamp vals angles) x).getD (d * nsamp + t) 0
      = (x.getD p 0 + x.getD (npix + p) 0 * Real.cos (2 * psi angles t)
          - x.getD (2 * npix + p) 0 * Real.sin (2 * psi angles t)) / 2 := by
  intro p
  rw [acquisition_closed E .IQUV hv x hx d t hd ht, skyAt_IQUV]
  simp only [SV.pol, SV.hwp, SV.rot]
  ring

/-- QU sky: `(Q_p cos 2ψ_t − U_p sin 2ψ_t) / 2` -/
theorem acquisition_closed_QU (E : Env) (hv : Valid npix ndet nsamp vals angles) (x : V)
    (hx : x.length = 2 * npix) (d t : Nat) (hd : d < ndet) (ht : t < nsamp) :
    let p := pix vals (d * nsamp + t)
    (den E (acqOp .QU npix ndet nsamp vals angles) x).getD (d * nsamp + t) 0
      = (x.getD p 0 * Real.cos (2 * psi angles t) - x.getD (npix + p) 0 * Real.sin (2 * psi angles t)) / 2 := by
  intro p
  rw [acquisition_closed E .QU hv x hx d t hd ht, skyAt_QU]
  simp only [SV.pol, SV.hwp, SV.rot]
  ring

/-- intensity-only sky: `I_p / 2` -/
theorem acquisition_closed_I (E : Env) (hv : Valid npix ndet nsamp vals angles) (x : V)
    (hx : x.length = 1 * npix) (d t : Nat) (hd : d < ndet) (ht : t < nsamp) :
    (den E (acqOp .I npix ndet nsamp vals angles) x).getD (d * nsamp + t) 0
      = x.getD (pix vals (d * nsamp + t)) 0 / 2 := by
  rw [acquisition_closed E .I hv x hx d t hd ht, skyAt_I]
  simp only [SV.pol, SV.hwp, SV.rot]
  ring

/-! ### 6. well-formedness, and `reduce()` -/

theorem forall₂_replicate {α β : Type} (R : α → β → Prop) (a : α) (b : β) (h : R a b) (m : Nat) :
    List.Forall₂ R (List.replicate m a) (List.replicate m b) := by
  induction m with
  | zero => exact .nil
  | succ m ih => rw [List.replicate_succ, List.replicate_succ]; exact .cons h ih

theorem idxP_ok (k : StokesKind) (hv : Valid npix ndet nsamp vals angles) :
    listLeafOK .index (idxP k npix ndet nsamp vals) := by
  refine ⟨⟨rfl, ?_⟩, ?_, ?_⟩
  · apply forall₂_replicate
    refine ⟨_, indexPositions_pix hv, ?_, fun h => (by simp [idxP] at h), rfl⟩
    intro q hq
    obtain ⟨j, hj, rfl⟩ := List.mem_map.mp hq
    rw [LeafS.size, prodNat_one]
    exact hv.pix_lt j (List.mem_range.mp hj)
  · intro sh vs h
    simp only [idxP, List.mem_singleton, IdxEntry.iarr.injEq] at h
    obtain ⟨rfl, rfl⟩ := h
    rw [hv.vals_len, prodNat_two]
  · intro axis ha sh vs hget l hl n hn i hi
    have h0 : indexedAxes (idxP k npix ndet nsamp vals).idx = [0] := rfl
    rw [h0, List.mem_singleton] at ha
    subst ha
    have h1 : pyGet? (idxP k npix ndet nsamp vals).idx 0 = some (.iarr [ndet, nsamp] vals) := by
      simp [idxP, pyGet?]
    rw [h1] at hget
    simp only [Option.some.injEq, IdxEntry.iarr.injEq] at hget
    obtain ⟨rfl, rfl⟩ := hget
    have hls : l.shape = [npix] := stokesS_shapes k _ l hl
    rw [hls] at hn
    have h2 : pyGet? [npix] (0 : Int) = some npix := by simp [pyGet?]
    rw [h2] at hn
    cases hn
    exact hv.vals_py i hi

theorem ravelP_ok (k : StokesKind) (npix : Nat) : listLeafOK .ravel (ravelP k npix) :=
  ⟨rfl, forall₂_replicate (fun li lo : LeafS => lo.size = li.size) _ _ rfl _⟩

/-- **the acquisition expression is well formed** in the sense of the closed soundness theorem of `reduce()`:
every leaf passes its constructor's validation (`listLeafOK`), adjacent structures match; there is no lazy inverse -/
theorem acqOp_wt (E : Env) (k : StokesKind) (hv : Valid npix ndet nsamp vals angles) :
    WTExpr (listArithSem E).invertible listLeafOK (acqOp k npix ndet nsamp vals angles) := by
  simp only [acqOp, polOp, hwpOp, rotOp, idxOp, ravelOp, WTExpr, WTList, Chain]
  exact ⟨by simp, ⟨polP_ok k ndet nsamp, hwpP_ok k ndet nsamp, rotP_ok k hv, idxP_ok k hv, ravelP_ok k npix, trivial⟩,
    rfl, rfl, rfl, rfl, trivial⟩

theorem projOp_wt (E : Env) (k : StokesKind) (hv : Valid npix ndet nsamp vals angles) :
    WTExpr (listArithSem E).invertible listLeafOK (projOp k npix ndet nsamp vals angles) := by
  simp only [projOp, rotOp, idxOp, ravelOp, WTExpr, WTList, Chain]
  exact ⟨by simp, ⟨rotP_ok k hv, idxP_ok k hv, ravelP_ok k npix, trivial⟩, rfl, rfl, trivial⟩

theorem acqOp_inS (k : StokesKind) : (Op.inS (acqOp k npix ndet nsamp vals angles)).size = nc k * npix := by
  simp only [acqOp, Op.inS, inSLast, ravelOp]
  exact skyS_size k npix

/-- **C16, `reduce()`, closed.**  Whatever `acquisition.reduce()` returns, it computes the same time streams as
the unreduced acquisition on every sky — an instance of `reduceTop_sound_closed`, with no hypothesis beyond the
validity of the constructor arguments. -/
theorem acquisition_reduced_closed (E : Env) (k : StokesKind) (hv : Valid npix ndet nsamp vals angles) (r : Op)
    (h : reduceTop (acqOp k npix ndet nsamp vals angles) = .ok r) (x : V) (hx : x.length = nc k * npix) :
    den E r x = den E (acqOp k npix ndet nsamp vals angles) x :=
  (reduceTop_sound_closed E _ r (acqOp_wt E k hv) h).2.2.2 x (by rw [acqOp_inS]; exact hx)

/-- hence the reduced operator is the explicit pointing model too -/
theorem acquisition_reduced_model (E : Env) (k : StokesKind) (hv : Valid npix ndet nsamp vals angles) (r : Op)
    (h : reduceTop (acqOp k npix ndet nsamp vals angles) = .ok r) (x : V) (hx : x.length = nc k * npix)
    (d t : Nat) (hd : d < ndet) (ht : t < nsamp) :
    (den E r x).getD (d * nsamp + t) 0
      = Acquisition.acquire (1 / 2 : ℝ) k (Real.cos (2 * psi angles t)) (Real.sin (2 * psi angles t))
          (skyAt k npix x (pix vals (d * nsamp + t))) := by
  rw [acquisition_reduced_closed E k hv r h x hx]
  exact acquisition_closed_acquire E k hv x hx d t hd ht

/-! #### what `reduce()` returns -/

theorem reduce_comp (fuel u : Nat) (ops : List Op) :
    reduce (fuel + 1) (.comp u ops) = (do
      let ops' ← ops.mapM (reduce fuel)
      let res ← algebraicReduction (reduce fuel) ops'
      match res with
      | [] => pure (mkIdentity (Op.inS (.comp u ops)))
      | [x] => pure x
      | _ => pure (mkComp res)) := rfl

/-- the reduced acquisition: polariser ∘ rotation ∘ sampling -/
def acqRed (k : StokesKind) (npix ndet nsamp : Nat) (vals : List Int) (angles : Tensor Rat) : Op :=
  .comp 0 [polOp k ndet nsamp, rotOp k ndet nsamp angles, idxOp k npix ndet nsamp vals]

/-- **what `acquisition.reduce()` is, for all parameters**: the ravel (whose output structure is its input
structure) reduces to the identity and is dropped, `LinearPolarizerHWPRule` removes the half-wave plate; no other
rule fires.  In particular `QURotationHWPRule` does NOT fire: it matches `rotation @ hwp`, and the acquisition
contains `hwp @ rotation`. -/
theorem reduceTop_acqOp (k : StokesKind) (npix ndet nsamp : Nat) (vals : List Int) (angles : Tensor Rat) :
    reduceTop (acqOp k npix ndet nsamp vals angles) = .ok (acqRed k npix ndet nsamp vals angles) := by
  have hd : reduceTop (acqOp k npix ndet nsamp vals angles) = reduce 12 (acqOp k npix ndet nsamp vals angles) := rfl
  have hr : reduce 11 (ravelOp k npix) = .ok (mkIdentity (skyS k npix)) := by
    simp [reduce, ravelOp, ravelP]
  have hi : reduce 11 (idxOp k npix ndet nsamp vals) = .ok (idxOp k npix ndet nsamp vals) := rfl
  have hp : reduce 11 (polOp k ndet nsamp) = .ok (polOp k ndet nsamp) := rfl
  have hh : reduce 11 (hwpOp k ndet nsamp) = .ok (hwpOp k ndet nsamp) := rfl
  have hq : reduce 11 (rotOp k ndet nsamp angles) = .ok (rotOp k ndet nsamp angles) := rfl
  have ha : algebraicReduction (reduce 11) [polOp k ndet nsamp, hwpOp k ndet nsamp, rotOp k ndet nsamp angles,
      idxOp k npix ndet nsamp vals, mkIdentity (skyS k npix)]
      = .ok [polOp k ndet nsamp, rotOp k ndet nsamp angles, idxOp k npix ndet nsamp vals] := rfl
  rw [hd, acqOp, show (12 : Nat) = 11 + 1 from rfl, reduce_comp]
  simp only [List.mapM_cons, List.mapM_nil, hr, hi, hp, hh, hq, bind, Except.bind, pure, Except.pure, ha]
  rfl

/-- the projection alone loses its ravel only -/
theorem reduceTop_projOp (k : StokesKind) (npix ndet nsamp : Nat) (vals : List Int) (angles : Tensor Rat) :
    reduceTop (projOp k npix ndet nsamp vals angles)
      = .ok (.comp 0 [rotOp k ndet nsamp angles, idxOp k npix ndet nsamp vals]) := by
  have hd : reduceTop (projOp k npix ndet nsamp vals angles) = reduce 12 (projOp k npix ndet nsamp vals angles) := rfl
  have hr : reduce 11 (ravelOp k npix) = .ok (mkIdentity (skyS k npix)) := by
    simp [reduce, ravelOp, ravelP]
  have hi : reduce 11 (idxOp k npix ndet nsamp vals) = .ok (idxOp k npix ndet nsamp vals) := rfl
  have hq : reduce 11 (rotOp k ndet nsamp angles) = .ok (rotOp k ndet nsamp angles) := rfl
  have ha : algebraicReduction (reduce 11) [rotOp k ndet nsamp angles, idxOp k npix ndet nsamp vals,
      mkIdentity (skyS k npix)] = .ok [rotOp k ndet nsamp angles, idxOp k npix ndet nsamp vals] := rfl
  rw [hd, projOp, show (12 : Nat) = 11 + 1 from rfl, reduce_comp]
  simp only [List.mapM_cons, List.mapM_nil, hr, hi, hq, bind, Except.bind, pure, Except.pure, ha]
  rfl

/-- **the reduced acquisition computes the same time streams** -/
theorem acquisition_reduced (E : Env) (k : StokesKind) (hv : Valid npix ndet nsamp vals angles) (x : V)
    (hx : x.length = nc k * npix) :
    den E (acqRed k npix ndet nsamp vals angles) x = den E (acqOp k npix ndet nsamp vals angles) x :=
  acquisition_reduced_closed E k hv _ (reduceTop_acqOp k npix ndet nsamp vals angles) x hx

/-- a small concrete instance, by evaluation of the model: IQU sky of 4 pixels, 2 detectors, 3 samples -/
example : reduceTop (acqOp .IQU 4 2 3 [0, 1, 1, 3, 2, 0] ⟨[3], [0, 1 / 2, 1]⟩)
    = .ok (.comp 0 [polOp .IQU 2 3, rotOp .IQU 2 3 ⟨[3], [0, 1 / 2, 1]⟩, idxOp .IQU 4 2 3 [0, 1, 1, 3, 2, 0]]) := by
  rfl

example : Valid 4 2 3 [0, 1, 1, 3, 2, 0] ⟨[3], [0, 1 / 2, 1]⟩ :=
  ⟨by decide, by decide, by decide, rfl, by decide, rfl, rfl⟩

/-! ### 7. `Pᵀ P` is the diagonal of hit counts -/

/-- row `c` of a concatenation of rows of length `n` -/
theorem headChunk_drop_flatten (L : List V) (n : Nat) (hL : ∀ r ∈ L, r.length = n) (c : Nat) (hc : c < L.length) :
    headChunk n (L.flatten.drop (c * n)) = L.getD c [] := by
  induction L generalizing c with
  | nil => simp at hc
  | cons r L ih =>
    have hr : r.length = n := hL r (by simp)
    rw [List.flatten_cons]
    cases c with
    | zero => rw [Nat.zero_mul, List.drop_zero, headChunk_append _ hr]; rfl
    | succ c =>
      rw [show (c + 1) * n = r.length + c * n by rw [hr, Nat.succ_mul, Nat.add_comm],
        List.drop_length_add_append, ih (fun r' h' => hL r' (by simp [h'])) c (by simpa using hc)]
      rfl

/-- number of (detector, sample) pairs that hit pixel `p` -/
def hits (ndet nsamp : Nat) (vals : List Int) (p : Nat) : Nat :=
  ((List.range (ndet * nsamp)).map (pix vals)).count p

/-- … counted pair by pair -/
theorem hits_eq (ndet nsamp : Nat) (vals : List Int) (p : Nat) :
    hits ndet nsamp vals p
      = ((List.range ndet).map fun d => (List.range nsamp).countP fun t => pix vals (d * nsamp + t) == p).sum := by
  unfold hits
  rw [List.count_eq_countP, List.countP_map, countP_range_mul]
  rfl

/-- the sky with every pixel multiplied by its hit count, component by component -/
noncomputable def hitSky (k : StokesKind) (npix ndet nsamp : Nat) (vals : List Int) (x : V) : V :=
  ((List.range (nc k)).map fun c => (List.range npix).map fun p =>
    (hits ndet nsamp vals p : ℝ) * x.getD (c * npix + p) 0).flatten

theorem hitSky_length (k : StokesKind) (npix ndet nsamp : Nat) (vals : List Int) (x : V) :
    (hitSky k npix ndet nsamp vals x).length = nc k * npix := by
  unfold hitSky
  rw [flatten_rows_length _ npix]
  · simp
  · intro r hr
    obtain ⟨c, _, rfl⟩ := List.mem_map.mp hr
    simp

/-- `samplingᵀ ∘ sampling` multiplies every pixel by its hit count (`scatter_gather_mult`, leaf by leaf) -/
theorem denT_idx_sampled (E : Env) (k : StokesKind) (hv : Valid npix ndet nsamp vals angles) (x : V) :
    denT E (idxOp k npix ndet nsamp vals) (sampled k npix (ndet * nsamp) vals x)
      = hitSky k npix ndet nsamp vals x := by
  have hs : (idxP k npix ndet nsamp vals).inS.size = nc k * npix := skyS_size k npix
  have ht : (idxP k npix ndet nsamp vals).outS.size = nc k * (ndet * nsamp) := todS_size k ndet nsamp
  simp only [idxOp, denT, leafDenT, squareLeaf, Bool.false_eq_true, if_false, hs, ht]
  rw [fit_eq_self (sampled_length _ _ _ _ _)]
  have hper : perLeaf (scatterLeaf (idxP k npix ndet nsamp vals).idx) (idxP k npix ndet nsamp vals).outS.leaves
      (idxP k npix ndet nsamp vals).inS.leaves (sampled k npix (ndet * nsamp) vals x)
        = hitSky k npix ndet nsamp vals x := by
    show perLeaf (scatterLeaf [.iarr [ndet, nsamp] vals]) (List.replicate (nc k) ⟨[ndet, nsamp], .f64⟩)
      (List.replicate (nc k) ⟨[npix], .f64⟩) _ = _
    rw [perLeaf_replicate]
    unfold hitSky
    congr 1
    apply List.map_congr_left
    intro c hc
    have hc' : c < nc k := List.mem_range.mp hc
    have hrows : ∀ r ∈ (List.range (nc k)).map fun c => (List.range (ndet * nsamp)).map fun j =>
        x.getD (c * npix + pix vals j) 0, r.length = ndet * nsamp := by
      intro r hr
      obtain ⟨c, _, rfl⟩ := List.mem_map.mp hr
      simp
    -- the chunk of the sampled sky is the gather of the chunk of the sky
    have hrow : headChunk (ndet * nsamp) ((sampled k npix (ndet * nsamp) vals x).drop (c * (ndet * nsamp)))
        = Index.gather ((List.range (ndet * nsamp)).map (pix vals)) (headChunk npix (x.drop (c * npix))) := by
      unfold sampled
      rw [headChunk_drop_flatten _ _ hrows c (by simpa using hc'),
        List.getD_eq_getElem (List.map _ (List.range (nc k))) [] (by simpa using hc')]
      simp only [List.getElem_map, List.getElem_range, Index.gather, List.map_map]
      apply List.map_congr_left
      intro j hj
      have hp := hv.pix_lt j (List.mem_range.mp hj)
      simp only [Function.comp]
      rw [show (default : ℝ) = 0 from rfl, headChunk_getD _ _ _ hp, drop_getD]
    simp only [scatterLeaf, indexPositions_pix hv, LeafS.size, prodNat_one, prodNat_two]
    rw [hrow, Index.scatter_gather_mult (α := ℝ) npix _ _ (by
        intro q hq
        obtain ⟨j, hj, rfl⟩ := List.mem_map.mp hq
        exact hv.pix_lt j (List.mem_range.mp hj)) (headChunk_length _ _),
      fit_eq_self (by simp)]
    apply List.map_congr_left
    intro p hp
    rw [headChunk_getD _ _ _ (List.mem_range.mp hp), drop_getD]
    rfl
  show fit _ (perLeaf _ _ _ _) = _
  rw [hper]
  exact fit_eq_self (hitSky_length _ _ _ _ _ _)

theorem denT_ravel (E : Env) (k : StokesKind) (y : V) (hy : y.length = nc k * npix) :
    denT E (ravelOp k npix) y = y := by
  have hs : (ravelP k npix).inS.size = nc k * npix := skyS_size k npix
  have ht : (ravelP k npix).outS.size = nc k * npix := skyS_size k npix
  simp only [ravelOp, denT, leafDenT, squareLeaf, Bool.false_eq_true, if_false, hs, ht]
  rw [fit_eq_self hy]
  exact fit_eq_self hy

/-- **C16, `Pᵀ P`, closed.**  `projection.T.mv(projection.mv(x))` multiplies, in every Stokes component, the value
of the sky at pixel `p` by the number of (detector, sample) pairs that hit `p`: the rotations cancel sample by
sample (`Rᵀ R = I`, since `cos² + sin² = 1`) and what remains is `samplingᵀ ∘ sampling`. -/
theorem ptp_closed (E : Env) (k : StokesKind) (hv : Valid npix ndet nsamp vals angles) (x : V)
    (hx : x.length = nc k * npix) :
    denT E (projOp k npix ndet nsamp vals angles) (den E (projOp k npix ndet nsamp vals angles) x)
      = hitSky k npix ndet nsamp vals x := by
  have hmem : mem (rotP k ndet nsamp angles).inS (sampled k npix (ndet * nsamp) vals x) := by
    rw [mem, sampled_length]; exact (todS_size k ndet nsamp).symm
  have hrot := (qurot_inv E 1 _ (rotP_ok k hv) _ hmem).2.2.1
  have hP : den E (projOp k npix ndet nsamp vals angles) x
      = den E (rotOp k ndet nsamp angles) (sampled k npix (ndet * nsamp) vals x) := by
    simp only [projOp, den, app]
    rw [den_ravel E k x hx, den_idx E k hv x hx]
  rw [hP]
  simp only [projOp, denT, appT]
  rw [show denT E (rotOp k ndet nsamp angles) = denT E (.leaf 1 .qurot (rotP k ndet nsamp angles)) from rfl,
    show den E (rotOp k ndet nsamp angles) = den E (.leaf 1 .qurot (rotP k ndet nsamp angles)) from rfl, hrot,
    denT_idx_sampled E k hv x, denT_ravel E k _ (hitSky_length _ _ _ _ _ _)]

/-- pixel by pixel -/
theorem ptp_closed_getD (E : Env) (k : StokesKind) (hv : Valid npix ndet nsamp vals angles) (x : V)
    (hx : x.length = nc k * npix) (c p : Nat) (hc : c < nc k) (hp : p < npix) :
    (denT E (projOp k npix ndet nsamp vals angles) (den E (projOp k npix ndet nsamp vals angles) x)).getD
        (c * npix + p) 0 = (hits ndet nsamp vals p : ℝ) * x.getD (c * npix + p) 0 := by
  rw [ptp_closed E k hv x hx]
  unfold hitSky
  have hrows : ∀ r ∈ (List.range (nc k)).map fun c => (List.range npix).map fun p =>
      (hits ndet nsamp vals p : ℝ) * x.getD (c * npix + p) 0, r.length = npix := by
    intro r hr
    obtain ⟨c, _, rfl⟩ := List.mem_map.mp hr
    simp
  rw [flatten_getD _ npix hrows c p (by simpa using hc) hp,
    List.getD_eq_getElem (List.map _ (List.range (nc k))) [] (by simpa using hc)]
  simp only [List.getElem_map, List.getElem_range]
  rw [List.getD_eq_getElem _ _ (by simpa using hp)]
  simp

/-- the same with the transpose written as the operator `projection.T` (`TransposeOperator(projection)`) and the
product as the composition `projection.T @ projection` -/
theorem ptp_closed_op (E : Env) (k : StokesKind) (hv : Valid npix ndet nsamp vals angles) (x : V)
    (hx : x.length = nc k * npix) (u u' : Nat) :
    den E (.comp u [.wrap u' .transpose (projOp k npix ndet nsamp vals angles),
        projOp k npix ndet nsamp vals angles]) x = hitSky k npix ndet nsamp vals x := by
  rw [← ptp_closed E k hv x hx]
  simp only [den, app, projOp]

end leaves


end Acq
end ListSem
end Furax
