/-
`vadd` (the sum of flat vectors that pads the shorter one) against the plumbing of the list denotation, and additivity
of leaf-wise maps (moved out of FuraxProofs/Sem/LinearList.lean so that the dense einsum leaf,
FuraxProofs/Sem/DenseLeaf.lean, can use them): `vadd_eq_zipWith`, `getD_vadd`, `fit_vadd`, `drop_vadd`,
`headChunk_vadd`, `vadd_append`, `perLeaf_vadd` …
`Add f := ∀ x y, f (vadd x y) = vadd (f x) (f y)`: additivity on ALL inputs, of any lengths.
-/
import FuraxProofs.Sem.ListSemBasic
namespace Furax
namespace ListSem
open Op

theorem real_default : (default : ℝ) = 0 := rfl

/-! ### 0. `vadd` and the plumbing -/

/-- `f` is additive, on ALL inputs (the shorter vector is padded with zeros by `vadd`) -/
def Add (f : V → V) : Prop := ∀ x y : V, f (vadd x y) = vadd (f x) (f y)

/-- on vectors of equal length `vadd` is the entrywise sum -/
theorem vadd_eq_zipWith : ∀ (x y : V), x.length = y.length → vadd x y = List.zipWith (· + ·) x y
  | [], [], _ => rfl
  | [], _ :: _, h => by simp at h
  | _ :: _, [], h => by simp at h
  | a :: x, b :: y, h => by
    rw [vadd_cons, List.zipWith_cons_cons, vadd_eq_zipWith x y (by simpa using h)]

theorem getD_vadd : ∀ (x y : V) (i : Nat), (vadd x y).getD i 0 = x.getD i 0 + y.getD i 0
  | [], y, i => by simp
  | a :: x, [], i => by simp
  | a :: x, b :: y, 0 => by simp [vadd_cons]
  | a :: x, b :: y, i + 1 => by
    simp only [vadd_cons, List.getD_cons_succ]
    exact getD_vadd x y i

theorem getD_vadd' (x y : V) (i : Nat) :
    (vadd x y).getD i default = x.getD i default + y.getD i default := by
  rw [real_default]; exact getD_vadd x y i

theorem fit_vadd : ∀ (n : Nat) (x y : V), fit n (vadd x y) = vadd (fit n x) (fit n y)
  | 0, _, _ => rfl
  | n + 1, [], [] => by
    have := fit_vadd n [] []
    rw [vadd_nil_left] at this ⊢
    rw [fit_succ_nil, vadd_cons, ← this, add_zero]
  | n + 1, [], b :: y => by
    have := fit_vadd n [] y
    rw [vadd_nil_left] at this ⊢
    rw [fit_succ_nil, fit_succ_cons, vadd_cons, ← this, zero_add]
  | n + 1, a :: x, [] => by
    have := fit_vadd n x []
    rw [vadd_nil_right] at this ⊢
    rw [fit_succ_nil, fit_succ_cons, vadd_cons, ← this, add_zero]
  | n + 1, a :: x, b :: y => by
    rw [vadd_cons, fit_succ_cons, fit_succ_cons, fit_succ_cons, vadd_cons, fit_vadd n x y]

theorem drop_vadd : ∀ (n : Nat) (x y : V), (vadd x y).drop n = vadd (x.drop n) (y.drop n)
  | 0, _, _ => rfl
  | n + 1, [], y => by simp
  | n + 1, a :: x, [] => by simp
  | n + 1, a :: x, b :: y => by
    simp only [vadd_cons, List.drop_succ_cons]
    exact drop_vadd n x y

theorem headChunk_vadd (n : Nat) : Add (headChunk n) := fun x y => by
  simp only [headChunk_eq_fit, fit_vadd]

theorem vadd_append : ∀ {a c : V} (b d : V), a.length = c.length → vadd (a ++ b) (c ++ d) = vadd a c ++ vadd b d
  | [], [], b, d, _ => by simp
  | [], _ :: _, _, _, h => by simp at h
  | _ :: _, [], _, _, h => by simp at h
  | u :: a, v :: c, b, d, h => by
    simp only [List.cons_append, vadd_cons]
    rw [vadd_append b d (by simpa using h)]

theorem vadd_replicate_zero (n : Nat) : vadd (List.replicate n (0 : ℝ)) (List.replicate n 0) = List.replicate n 0 := by
  induction n with
  | zero => rfl
  | succ n ih => rw [List.replicate_succ, vadd_cons, ih, add_zero]

/-- interchange -/
theorem vadd_vadd_vadd_comm (a b c d : V) : vadd (vadd a b) (vadd c d) = vadd (vadd a c) (vadd b d) := by
  rw [vadd_assoc, vadd_assoc, ← vadd_assoc b c d, vadd_comm b c, vadd_assoc c b d]

/-- a list of sums is the sum of the lists -/
theorem map_add_eq_vadd {ι : Type} (l : List ι) (a b : ι → ℝ) :
    l.map (fun k => a k + b k) = vadd (l.map a) (l.map b) := by
  induction l with
  | nil => rfl
  | cons k l ih => simp only [List.map_cons, vadd_cons, ih]

theorem flatten_map_vadd {ι : Type} (l : List ι) (F G : ι → V) (h : ∀ c, (F c).length = (G c).length) :
    (l.map fun c => vadd (F c) (G c)).flatten = vadd (l.map F).flatten (l.map G).flatten := by
  induction l with
  | nil => rfl
  | cons c l ih => simp only [List.map_cons, List.flatten_cons, ih, vadd_append _ _ (h c)]

theorem chunks_vadd : ∀ (ns : List Nat) (x y : V),
    chunks ns (vadd x y) = List.zipWith vadd (chunks ns x) (chunks ns y)
  | [], _, _ => rfl
  | n :: ns, x, y => by
    simp only [chunks_cons, List.zipWith_cons_cons, headChunk_vadd n x y, drop_vadd, chunks_vadd ns]

/-- a leaf-wise map of additive kernels is additive -/
theorem perLeaf_vadd (f : LeafS → LeafS → V → V) (hf : ∀ li lo, Add (f li lo)) (ins outs : List LeafS) :
    Add (perLeaf f ins outs) := by
  intro x y
  induction ins generalizing outs x y with
  | nil => rfl
  | cons i ins ih =>
    cases outs with
    | nil => simp [perLeaf_nil_right]
    | cons o outs =>
      rw [perLeaf_cons, perLeaf_cons, perLeaf_cons, headChunk_vadd, hf, fit_vadd, drop_vadd, ih,
        vadd_append _ _ (by simp)]

theorem Add.comp {f g : V → V} (hf : Add f) (hg : Add g) : Add (fun x => f (g x)) := fun x y => by
  simp only [hg x y, hf _ _]

end ListSem
end Furax
