/-
The transpose is the exact adjoint, closed, in the list denotation (FuraxProofs/Sem/ListSem.lean): property C03
without any semantic hypothesis but the adjointness of the kernels of the uninterpreted leaves (dense einsum blocks
with one block array per leaf — those with ONE shared block array are interpreted by the einsum kernel of C14,
`dense_leaf_adjoint` —,
observation matrices, opaque operators; Toeplitz operators only in the degenerate case of a rank-0 band array).

`dot x y := (zipWith (· * ·) x y).sum` is the Euclidean pairing of flat real vectors.

0.  (0. and 1. are now in FuraxProofs/Sem/DotList.lean) the pairing: `dot_comm`, `dot_append`, `dot_vadd_left/right`, `dot_fit_left/right`, `dot_vsmul_*` …
1.  `perLeaf_adjoint`: leaf-wise maps that are adjoint leaf by leaf are adjoint.
2.  leaf kernels: `gatherLeaf_adjoint` (scatter-add is the adjoint of gather, `scatter_adjoint` lifted),
    `gather_perm_adjoint` / `moveLeaf_adjoint` (two gathers that undo each other are adjoint: the inverse
    permutation is the transpose), `diag_form` / `diagLeaf_adjoint` (an accepted strict diagonal product multiplies
    by fixed weights; acceptance depends on the SHAPE of the values only), `stokesMap_adjoint`, `polMap_adjoint`
    (sample-wise maps; `rotT` is the adjoint of `rot`, `hwp` is self-adjoint, `polTMap` is the adjoint of `polMap`).
3.  `EnvAdjOn E o` / `EnvSymOn E o` (per expression) and `EnvAdj E` (global): assumption A2 / A-kernel on the
    leaves interpreted by the environment (`isEnvLeaf`: the classes `.obsMatrix`, `.opaque`, `.dense` without a shared block array, and the
    degenerate `.toeplitz` leaves with a rank-0 band array);  `leaf_adjoint`: a THEOREM for every interpreted class under
    `listLeafOK` (identity, homothety, diagonal, index, pack, moveAxis, ravel, reshape, qurot, hwp, polarizer, and
    Toeplitz with a band array `bs ++ [K]`, batched or not: `toepLeaf_adjoint`, `toeplitz_leaf_adjoint`,
    `toeplitz_leaf_sym` — the band matrix of every batch row is symmetric); `.broadcastDiagonal` is EXCLUDED (`adjLeafOK`: its `leafDenT` is a placeholder).
4.  `chooseInv_adjoint`: the adjoint of the lazy inverse is the lazy inverse of the adjoint — an inverse of `A`
    on `ℝⁿ` exists iff one of its adjoint `B` exists, and then they are adjoint (`inv_adjoint_exists`, through
    matrices and `mul_eq_one_comm`); otherwise both lazy inverses are the zero map.  NO invertibility hypothesis.
5.  `den_adjoint_on`, `den_adjoint`: `⟨den E o x, y⟩ = ⟨x, denT E o y⟩` for every `Valid o`
    (`Valid := WTExpr (fun _ => True) adjLeafOK`: `StructOK` + validity of the leaves), by mutual structural
    induction over ALL constructors.
6.  `transposeOp_den_structOK`, `transposeOp_den_on`, `transposeOp_den`: the FORM `op.T` computed by the model
    (`transposeOp`) denotes `denT`; `TFormOK` EXCLUDES the dense leaves without a shared block array and asks every `DiagonalInverseOperator` to wrap
    a `DiagonalOperator` leaf.  `transpose_is_adjoint_closed_on`, `transpose_is_adjoint_closed`: the closed C03.
7.  non-vacuity: `idEnv_adj`, `matEnv_adj` (every family of matrices satisfies the adjointness assumption),
    `matEnv_sym`; a valid block column of `Index ∘ Diagonal` and of the lazy inverse of a SINGULAR diagonal.
8.  `listAdjCore`: the list denotation inhabits the abstract framework `AdjCore`.
9.  `DiagInvCounterexample`: `DiagonalInverseOperator.transpose = self` is not the adjoint around a
    non-self-adjoint operand (so the hypothesis in `TFormOK` is necessary).
-/
import FuraxProofs.Sem.ListModel
import FuraxProofs.Sem.DotList
import FuraxProofs.Lemmas.TransposeAdjoint
import Mathlib.LinearAlgebra.Matrix.NonsingularInverse
namespace Furax
namespace ListSem
open Op

/-! ### 2. leaf kernels -/

/-! #### index / pack: scatter-add is the adjoint of gather -/

theorem gatherLeaf_adjoint (idx : List IdxEntry) (uniq : Prop) (li lo : LeafS) (h : indexLeafOK idx uniq li lo)
    (c d : V) (hc : c.length = li.size) (hd : d.length = lo.size) :
    dot (fit lo.size (gatherLeaf idx li lo c)) d = dot c (fit li.size (scatterLeaf idx lo li d)) := by
  obtain ⟨pos, hp, hlt, _, _⟩ := h
  have hlen : pos.length = lo.size := indexPositions_length hp
  unfold gatherLeaf scatterLeaf
  simp only [hp]
  rw [fit_eq_self (by rw [Index.gather_length, hlen]), fit_eq_self (Index.scatterAdd_length _ _ _),
    dot_eq_zip, Index.scatter_adjoint li.size pos d c hlt (by rw [hd, hlen]) hc, ← dot_eq_zip, dot_comm]

/-! #### move-axis: a permutation of the entries; the inverse permutation is the adjoint -/

/-- the unit vector `e_k` of length `n` -/
def unitVec (n k : Nat) : V := (List.range n).map fun i => if i = k then 1 else 0

theorem unitVec_length (n k : Nat) : (unitVec n k).length = n := by simp [unitVec]

theorem unitVec_getD (n k i : Nat) (hi : i < n) : (unitVec n k).getD i 0 = if i = k then 1 else 0 := by
  unfold unitVec
  rw [List.getD_eq_getElem _ _ (by simpa using hi)]
  simp

theorem gather_getD (pos : List Nat) (x : V) (k : Nat) (hk : k < pos.length) :
    (Index.gather pos x).getD k 0 = x.getD (pos[k]) 0 := by
  unfold Index.gather
  rw [List.getD_eq_getElem _ _ (by simpa using hk)]
  simp
  rfl

/-- **two gathers that undo each other are adjoint** (a permutation matrix: the inverse is the transpose) -/
theorem gather_perm_adjoint (M N : Nat) (pos pos' : List Nat) (hl : pos.length = M) (hl' : pos'.length = N)
    (_h1 : ∀ c : V, c.length = N → Index.gather pos' (Index.gather pos c) = c)
    (h2 : ∀ d : V, d.length = M → Index.gather pos (Index.gather pos' d) = d)
    (c y : V) (hc : c.length = N) (hy : y.length = M) :
    dot (Index.gather pos c) y = dot c (Index.gather pos' y) := by
  -- every selected position is in bounds: the unit vector `e_k` is in the image
  have hval : ∀ k (hk : k < M), (Index.gather pos' (unitVec M k)).getD (pos[k]'(by omega)) 0 = 1 := by
    intro k hk
    have : (Index.gather pos (Index.gather pos' (unitVec M k))).getD k 0 = (unitVec M k).getD k 0 :=
      congrArg (fun l => l.getD k 0) (h2 (unitVec M k) (unitVec_length M k))
    rw [gather_getD pos _ k (by omega), unitVec_getD M k k hk, if_pos rfl] at this
    exact this
  have hb : ∀ p ∈ pos, p < N := by
    intro p hp
    obtain ⟨k, hk, rfl⟩ := List.getElem_of_mem hp
    by_contra hge
    have := hval k (by omega)
    rw [List.getD_eq_default _ _ (by rw [Index.gather_length, hl']; omega)] at this
    exact zero_ne_one this
  -- no position is selected twice
  have hnd : pos.Nodup := by
    rw [List.nodup_iff_injective_get]
    intro a b hab
    by_contra hne
    have ha : a.1 < M := by have := a.2; omega
    have hbm : b.1 < M := by have := b.2; omega
    have e1 := hval a.1 ha
    have e2 : (Index.gather pos (Index.gather pos' (unitVec M a.1))).getD b.1 0 = (unitVec M a.1).getD b.1 0 :=
      congrArg (fun l => l.getD b.1 0) (h2 (unitVec M a.1) (unitVec_length M a.1))
    rw [gather_getD pos _ b.1 b.2, unitVec_getD M a.1 b.1 hbm] at e2
    have hab' : pos[a.1] = pos[b.1] := hab
    rw [← hab', e1] at e2
    have hne' : ¬ b.1 = a.1 := fun e => hne (Fin.ext e.symm)
    rw [if_neg hne'] at e2
    exact one_ne_zero e2
  -- the scatter-add along `pos` is the gather along `pos'`
  have hs : Index.scatterAdd N pos y = Index.gather pos' y := by
    have e := _h1 (Index.scatterAdd N pos y) (Index.scatterAdd_length _ _ _)
    rw [Index.gather_scatter_id N pos y hnd hb (by rw [hy, hl])] at e
    exact e.symm
  rw [dot_eq_zip, Index.scatter_adjoint N pos y c hb (by rw [hy, hl]) hc, ← dot_eq_zip, hs, dot_comm]

/-- the positions `transpose(a, order)` reads -/
def transposePos (shape order : List Nat) : List Nat :=
  (List.range (prodNat (Axes.transposeShape shape order))).map fun k =>
    ravelIdx shape ((List.range shape.length).map fun ax =>
      (unravel (Axes.transposeShape shape order) k).getD (order.idxOf ax) 0)

theorem transposeData_eq_gather (shape order : List Nat) (c : V) :
    Axes.transposeData shape order c = Index.gather (transposePos shape order) c := by
  simp [Axes.transposeData, Index.gather, transposePos, List.map_map, Function.comp_def]

theorem moveLeaf_adjoint (src dst : List Int) (li lo : LeafS) (order : List Nat)
    (ho : Axes.moveaxisOrder li.shape.length src dst = .ok order)
    (hs : lo.shape = Axes.transposeShape li.shape order) (c d : V) (hc : c.length = li.size)
    (hd : d.length = lo.size) :
    dot (fit lo.size (moveLeaf src dst li lo c)) d = dot c (fit li.size (moveLeaf dst src lo li d)) := by
  obtain ⟨order', ho'⟩ := Axes.moveaxisOrder_swap_ok _ src dst order ho
  have hlen : lo.shape.length = li.shape.length := by
    rw [hs, Axes.ma_transposeShape_length]
    simpa using (Axes.moveaxisOrder_perm _ _ _ _ ho).length_eq
  have hback : Axes.transposeShape lo.shape order' = li.shape := by
    rw [hs]; exact Axes.moveaxis_inverse_shape _ src dst order order' li.shape ho ho' rfl
  have h1 : Axes.moveaxis (⟨li.shape, c⟩ : Tensor ℝ) src dst =
      .ok ⟨lo.shape, Axes.transposeData li.shape order c⟩ := by
    simp [Axes.moveaxis, ho, hs, bind, Except.bind, pure, Except.pure]
  have h2 : Axes.moveaxis (⟨lo.shape, d⟩ : Tensor ℝ) dst src =
      .ok ⟨li.shape, Axes.transposeData lo.shape order' d⟩ := by
    simp [Axes.moveaxis, hlen, ho', hback, bind, Except.bind, pure, Except.pure]
  unfold moveLeaf
  rw [h1, h2]
  simp only [exData]
  have hl1 : (transposePos li.shape order).length = lo.size := by
    simp [transposePos, LeafS.size, hs]
  have hl2 : (transposePos lo.shape order').length = li.size := by
    simp [transposePos, LeafS.size, hback]
  rw [transposeData_eq_gather, transposeData_eq_gather,
    fit_eq_self (by rw [Index.gather_length, hl1]), fit_eq_self (by rw [Index.gather_length, hl2])]
  refine gather_perm_adjoint lo.size li.size _ _ hl1 hl2 ?_ ?_ c d hc hd
  · intro c' hc'
    rw [← transposeData_eq_gather, ← transposeData_eq_gather]
    have := Axes.moveaxis_inverse_data _ src dst order order' li.shape c' ho ho' rfl hc'
    rwa [← hs] at this
  · intro d' hd'
    rw [← transposeData_eq_gather, ← transposeData_eq_gather]
    have := Axes.moveaxis_inverse_data _ dst src order' order lo.shape d' (hlen ▸ ho') (hlen ▸ ho) rfl hd'
    rwa [hback] at this

/-! #### diagonal: multiplication by fixed weights -/

theorem broadcastTo_self (sh : List Nat) (c : V) (hc : c.length = prodNat sh) :
    ((⟨sh, c⟩ : Tensor ℝ).broadcastTo sh).data = c := by
  unfold Tensor.broadcastTo
  apply List.ext_getElem
  · simp [hc]
  · intro i h1 h2
    simp only [List.getElem_map, List.getElem_range]
    have hi : i < prodNat sh := by simpa using h1
    obtain ⟨v1, v2⟩ := Axes.ma_unravel_valid sh i hi
    rw [Diagonal.bcastIndex_self sh _ v1, v2]
    exact List.getD_eq_getElem _ _ h2

/-- **the strict diagonal product, when it is accepted, multiplies the leaf by fixed weights**; whether it is
accepted depends on the SHAPE of the values only (so `v'` may be the pseudo-inverse values) -/
theorem diag_form (v v' : Tensor ℝ) (spec : Diagonal.AxisSpec) (sh : List Nat) (c0 : V)
    (hv : v'.shape = v.shape)
    (h : ∃ y, Diagonal.apply true v spec (⟨sh, c0⟩ : Tensor ℝ) = .ok y) :
    ∃ W : V, ∀ c : V, c.length = prodNat sh →
      Diagonal.apply true v' spec (⟨sh, c⟩ : Tensor ℝ) = .ok ⟨sh, List.zipWith (· * ·) W c⟩ := by
  obtain ⟨y, hy⟩ := h
  unfold Diagonal.apply at hy
  simp only [] at hy
  split at hy
  · simp at hy
  · rename_i h0
    cases h1 : Diagonal.normalizeAxes (Diagonal.normalizeSpec v.shape.length spec) sh.length with
    | error e => simp [h1, bind, Except.bind] at hy
    | ok ax =>
      simp only [h1, bind, Except.bind] at hy
      unfold Diagonal.reshapeDiagonal Axes.moveaxis at hy
      simp only [bind, Except.bind, pure, Except.pure] at hy
      split at hy
      · simp at hy
      · rename_i d hd
        split at hd
        · simp at hd
        · rename_i order ho
          simp only [Except.ok.injEq] at hd
          cases hS : broadcastShapes d.shape (sh ++ List.replicate (Diagonal.rightDims ax sh.length) 1) with
          | none => simp [Tensor.zipBroadcast, Diagonal.reshapeLeaf, hS] at hy
          | some S =>
            simp only [Tensor.zipBroadcast, Diagonal.reshapeLeaf, hS, Option.bind_eq_bind, Option.bind_some] at hy
            split at hy
            · simp at hy
            · rename_i hne
              have hSs : S = sh := by simpa using hne
              subst hSs
              have hr : Diagonal.rightDims ax S.length = 0 := by
                have := Diagonal.broadcastShapes_length _ _ _ hS
                simp only [List.length_append, List.length_replicate] at this
                omega
              refine ⟨((⟨d.shape, Axes.transposeData (v.shape ++ List.replicate
                  ((Diagonal.leftDims ax : Int) + Diagonal.rightDims ax S.length + S.length - v.shape.length).toNat 1)
                  order v'.data⟩ : Tensor ℝ).broadcastTo S).data, fun c hc => ?_⟩
              have hds : Axes.transposeShape (v.shape ++ List.replicate
                  ((Diagonal.leftDims ax : Int) + Diagonal.rightDims ax S.length + S.length - v.shape.length).toNat 1)
                  order = d.shape := by rw [← hd]
              have hb : ((⟨S ++ List.replicate (Diagonal.rightDims ax S.length) 1, c⟩ : Tensor ℝ).broadcastTo S).data
                  = c := by
                rw [hr, List.replicate_zero, List.append_nil]
                exact broadcastTo_self S c hc
              unfold Diagonal.apply Diagonal.reshapeDiagonal Axes.moveaxis
              simp only [hv, if_neg h0, h1, ho, bind, Except.bind, pure, Except.pure, Tensor.zipBroadcast,
                Diagonal.reshapeLeaf, hds, hS, Option.bind_some, hb]
              rw [if_neg hne]

theorem diagLeaf_adjoint (v v' : Tensor Rat) (hv : v'.shape = v.shape) (axes : List Int) (l : LeafS) (c0 : V)
    (h : ∃ y, Diagonal.apply true (castT v) (.seq axes) (⟨l.shape, c0⟩ : Tensor ℝ) = .ok y)
    (c d : V) (hc : c.length = l.size) (hd : d.length = l.size) :
    dot (fit l.size (diagLeaf true v' axes l l c)) d = dot c (fit l.size (diagLeaf true v' axes l l d)) := by
  obtain ⟨W, hW⟩ := diag_form (castT v) (castT v') (.seq axes) l.shape c0 (by simp [castT, Tensor.map, hv]) h
  unfold diagLeaf
  rw [hW c hc, hW d hd]
  simp only [exData]
  rw [dot_fit_left _ _ _ (le_of_eq hd), dot_fit_right _ _ _ (le_of_eq hc), dot_zipWith_mul]

/-! #### Stokes kernels: sample-wise maps -/

/-- a flat vector of `ncomp k` components of `n` samples, from its samples -/
def ofSamples (k : StokesKind) (n : Nat) (G : Nat → SV ℝ) : V :=
  ((List.range (ncomp k)).map fun c => (List.range n).map fun t => (SV.present k (G t)).getD c 0).flatten

theorem stokesMap_eq_ofSamples (k : StokesKind) (n : Nat) (g : Nat → SV ℝ → SV ℝ) (x : V) :
    stokesMap k n g x = ofSamples k n (fun t => g t (svAt k n x t)) := rfl

theorem polTMap_eq_ofSamples (k : StokesKind) (n : Nat) (y : V) :
    polTMap k n y = ofSamples k n
      (fun t => (⟨(1 / 2 : ℝ) * y.getD t 0, (1 / 2 : ℝ) * y.getD t 0, 0, 0⟩ : SV ℝ)) := rfl

theorem self_eq_ofSamples (k : StokesKind) (n : Nat) (x : V) (hx : x.length = ncomp k * n) :
    x = ofSamples k n (svAt k n x) :=
  (stokesMap_id k n (fun _ v => v) x hx (fun _ _ => rfl)).symm

/-- the pairing of two samples: over the components that exist -/
def pdot (k : StokesKind) (v w : SV ℝ) : ℝ := dot (SV.present k v) (SV.present k w)

theorem dot_range_map (n : Nat) (a b : Nat → ℝ) :
    dot ((List.range n).map a) ((List.range n).map b) = ((List.range n).map fun t => a t * b t).sum := by
  unfold dot
  rw [List.zipWith_map, List.zipWith_self]

theorem dot_ofSamples (k : StokesKind) (n : Nat) (G H : Nat → SV ℝ) :
    dot (ofSamples k n G) (ofSamples k n H) = ((List.range n).map fun t => pdot k (G t) (H t)).sum := by
  have r2 : List.range 2 = [0, 1] := rfl
  have r3 : List.range 3 = [0, 1, 2] := rfl
  have r4 : List.range 4 = [0, 1, 2, 3] := rfl
  cases k <;>
    simp only [ofSamples, ncomp, SV.present, pdot, List.length_cons, List.length_nil, List.range_one, r2, r3, r4,
      List.map_cons, List.map_nil, List.flatten_cons, List.flatten_nil, List.append_nil, List.getD_cons_zero,
      List.getD_cons_succ, Nat.zero_add, Nat.reduceAdd, dot_cons, dot_nil_left, add_zero]
  · exact dot_range_map _ _ _
  · rw [dot_append _ _ (by simp), dot_range_map, dot_range_map, ← List.sum_map_add]
  · rw [dot_append _ _ (by simp), dot_append _ _ (by simp), dot_range_map, dot_range_map, dot_range_map,
      ← List.sum_map_add, ← List.sum_map_add]
  · rw [dot_append _ _ (by simp), dot_append _ _ (by simp), dot_append _ _ (by simp), dot_range_map, dot_range_map,
      dot_range_map, dot_range_map, ← List.sum_map_add, ← List.sum_map_add, ← List.sum_map_add]

/-- sample-wise maps that are adjoint sample by sample (over the components that exist) are adjoint -/
theorem stokesMap_adjoint (k : StokesKind) (n : Nat) (g gT : Nat → SV ℝ → SV ℝ)
    (hg : ∀ t v w, pdot k (g t v) w = pdot k v (gT t w)) (x y : V) (hx : x.length = ncomp k * n)
    (hy : y.length = ncomp k * n) :
    dot (stokesMap k n g x) y = dot x (stokesMap k n gT y) := by
  have e1 : dot (stokesMap k n g x) y =
      dot (ofSamples k n (fun t => g t (svAt k n x t))) (ofSamples k n (svAt k n y)) := by
    rw [← self_eq_ofSamples k n y hy]; rfl
  have e2 : dot x (stokesMap k n gT y) =
      dot (ofSamples k n (svAt k n x)) (ofSamples k n (fun t => gT t (svAt k n y t))) := by
    rw [← self_eq_ofSamples k n x hx]; rfl
  rw [e1, e2, dot_ofSamples, dot_ofSamples]
  simp only [hg]

theorem pdot_rot (k : StokesKind) (c s : ℝ) (v w : SV ℝ) :
    pdot k (SV.rot c s v) w = pdot k v (SV.rotT c s w) := by
  cases k <;> simp only [pdot, SV.present, SV.rot, SV.rotT, dot_cons, dot_nil_left] <;> ring

theorem pdot_hwp (k : StokesKind) (v w : SV ℝ) : pdot k (SV.hwp v) w = pdot k v (SV.hwp w) := by
  cases k <;> simp only [pdot, SV.present, SV.hwp, dot_cons, dot_nil_left] <;> ring

theorem pdot_pol (k : StokesKind) (v : SV ℝ) (a : ℝ) :
    SV.pol (1 / 2 : ℝ) k v * a = pdot k v (⟨(1 / 2 : ℝ) * a, (1 / 2 : ℝ) * a, 0, 0⟩ : SV ℝ) := by
  cases k <;> simp only [pdot, SV.present, SV.pol, dot_cons, dot_nil_left] <;> ring

/-- `polTMap` is the adjoint of `polMap` -/
theorem polMap_adjoint (k : StokesKind) (n : Nat) (x y : V) (hx : x.length = ncomp k * n) (hy : y.length = n) :
    dot (polMap k n x) y = dot x (polTMap k n y) := by
  have ey : y = (List.range n).map fun t => y.getD t 0 := by
    conv => lhs; rw [← range_map_getD y]
    rw [hy]
  have e1 : dot (polMap k n x) y =
      dot ((List.range n).map fun t => SV.pol (1 / 2 : ℝ) k (svAt k n x t)) ((List.range n).map fun t => y.getD t 0) := by
    rw [← ey]; rfl
  have e2 : dot x (polTMap k n y) = dot (ofSamples k n (svAt k n x)) (ofSamples k n
      (fun t => (⟨(1 / 2 : ℝ) * y.getD t 0, (1 / 2 : ℝ) * y.getD t 0, 0, 0⟩ : SV ℝ))) := by
    rw [← self_eq_ofSamples k n x hx]; rfl
  rw [e1, e2, dot_range_map, dot_ofSamples]
  simp only [pdot_pol]

/-! #### Toeplitz: the band matrix `band|i−j|` is symmetric, row by row -/

/-- the pairing of two vectors of length `n`, entry by entry -/
theorem dot_eq_sum_range (n : Nat) (x y : V) (hx : x.length = n) (hy : y.length = n) :
    dot x y = ∑ q ∈ Finset.range n, x.getD q 0 * y.getD q 0 := by
  have ex : x = (List.range n).map fun t => x.getD t 0 := by
    conv => lhs; rw [← range_map_getD x]
    rw [hx]
  have ey : y = (List.range n).map fun t => y.getD t 0 := by
    conv => lhs; rw [← range_map_getD y]
    rw [hy]
  conv => lhs; rw [ex, ey]
  rw [dot_range_map]
  clear ex ey hx hy
  induction n with
  | zero => simp
  | succ n ih => rw [List.range_succ, List.map_append, List.sum_append, ih, Finset.sum_range_succ]; simp

/-- a sum over `B` consecutive blocks of length `l` -/
theorem sum_range_blocks (B l : Nat) (g : Nat → ℝ) :
    ∑ q ∈ Finset.range (B * l), g q = ∑ b ∈ Finset.range B, ∑ i ∈ Finset.range l, g (b * l + i) := by
  induction B with
  | zero => simp
  | succ B ih => rw [Nat.succ_mul, Finset.sum_range_add, ih, Finset.sum_range_succ]

/-- the length of the last axis divides the size of a leaf (rank 0: the convention `l = 1`) -/
theorem leaf_size_blocks (li : LeafS) : li.size = li.size / li.shape.getLastD 1 * li.shape.getLastD 1 := by
  by_cases h : li.shape = []
  · simp [LeafS.size, h, prodNat]
  · have := leaf_size_eq li h
    rw [Nat.div_mul_cancel ⟨prodNat li.shape.dropLast, by rw [this, Nat.mul_comm]⟩]

/-- **the Toeplitz kernel of a leaf is self-adjoint**: `⟨T c, d⟩ = ⟨c, T d⟩` for the Euclidean pairing of the flat
leaves — row by row this is the symmetry of the band matrix of that row (`toep_symm`; each batch row `b` has its own
band row `toepBandAt K vals li.shape b`, whatever the broadcasting of the batch axes); for every number of bands
(also `K > l`), every band array (batched or not), every leaf -/
theorem toepLeaf_adjoint (K : Nat) (vals : Tensor Rat) (li lo lo' : LeafS) (c d : V) (hc : c.length = li.size)
    (hd : d.length = li.size) :
    dot (toepLeaf K vals li lo c) d = dot c (toepLeaf K vals li lo' d) := by
  rw [dot_eq_sum_range li.size _ _ (toepLeaf_length _ _ _ _ _) hd,
    dot_eq_sum_range li.size _ _ hc (toepLeaf_length _ _ _ _ _)]
  generalize hl : li.shape.getLastD 1 = l
  have hB := leaf_size_blocks li
  rw [hl] at hB
  generalize li.size / l = B at hB
  rw [hB, sum_range_blocks, sum_range_blocks]
  apply Finset.sum_congr rfl
  intro b hb
  have hb' : b < B := Finset.mem_range.mp hb
  have hlt : ∀ i, i < l → b * l + i < li.size := by
    intro i hi
    rw [hB]
    calc b * l + i < b * l + l := by omega
      _ = (b + 1) * l := (Nat.succ_mul b l).symm
      _ ≤ B * l := Nat.mul_le_mul_right l hb'
  have e1 : ∑ i ∈ Finset.range l, (toepLeaf K vals li lo c).getD (b * l + i) 0 * d.getD (b * l + i) 0 =
      ∑ i ∈ Finset.range l, Toeplitz.toep (K - 1) l (toepBandAt K vals li.shape b) (rowOf l c b) i * rowOf l d b i := by
    apply Finset.sum_congr rfl
    intro i hi
    have hi' : i < l := Finset.mem_range.mp hi
    have := toepLeaf_getD_row K vals li lo c b i (by rw [hl]; exact hi') (by rw [hl]; exact hlt i hi')
    rw [hl] at this
    rw [this]; rfl
  have e2 : ∑ i ∈ Finset.range l, c.getD (b * l + i) 0 * (toepLeaf K vals li lo' d).getD (b * l + i) 0 =
      ∑ i ∈ Finset.range l, rowOf l c b i * Toeplitz.toep (K - 1) l (toepBandAt K vals li.shape b) (rowOf l d b) i := by
    apply Finset.sum_congr rfl
    intro i hi
    have hi' : i < l := Finset.mem_range.mp hi
    have := toepLeaf_getD_row K vals li lo' d b i (by rw [hl]; exact hi') (by rw [hl]; exact hlt i hi')
    rw [hl] at this
    rw [this]; rfl
  rw [e1, e2, toep_symm]

/-! ### 3. the environment, and leaf adjointness -/

/-- the leaf classes no rule looks into -/
def isEnvCls : LeafCls → Bool
  | .dense | .toeplitz | .obsMatrix | .opaque => true
  | _ => false

/-- **the leaves interpreted by the environment**: dense einsum blocks with one block array PER leaf (those with ONE
shared block array, `denseShared`, are interpreted by the einsum kernel `denseLeaf`), observation matrices, opaque
operators, and
the degenerate Toeplitz leaves whose band array has rank 0 (`toepK p.vals = none`; Python refuses them); a Toeplitz
leaf whose band array has a last axis (un-batched `[K]` or batched `bs ++ [K]`) is interpreted by the kernel
`toepLeaf` -/
def isEnvLeaf : LeafCls → Params → Bool
  | .dense, p => !denseShared p
  | .obsMatrix, _ | .opaque, _ => true
  | .toeplitz, p => (toepK p.vals).isNone
  | _, _ => false

theorem isEnvCls_of_isEnvLeaf {c : LeafCls} {p : Params} (h : isEnvLeaf c p = true) : isEnvCls c = true := by
  cases c <;> simp_all [isEnvLeaf, isEnvCls]

/-- `leafDenT` is the adjoint of `leafDen` on the vectors of the sizes the leaf declares -/
def LeafAdjAt (E : Env) (u : Nat) (c : LeafCls) (p : Params) : Prop :=
  ∀ x y : V, x.length = p.inS.size → y.length = (Op.outS (.leaf u c p)).size →
    dot (leafDen E u c p x) y = dot x (leafDenT E u c p y)

/-- a Toeplitz leaf (`@symmetric`: its `transpose` is `lambda self: self`) is interpreted by a self-adjoint map:
`leafDenT` and `leafDen` agree on the vectors of the size the leaf declares.  A THEOREM for every band array with a
last axis, batched or not (`toeplitz_leaf_sym`); for the degenerate rank-0 band it says that `E.fT u` and `E.f u`
agree there -/
def LeafSymAt (E : Env) (u : Nat) (p : Params) : Prop :=
  ∀ y : V, y.length = p.inS.size → leafDen E u .toeplitz p y = leafDenT E u .toeplitz p y

/-- **a Toeplitz leaf (band array `bs ++ [K]`, batched or not) is symmetric**: `op.T = op` denotes the same map (no
hypothesis) -/
theorem toeplitz_leaf_sym (E : Env) (u : Nat) (p : Params) (h : toepK p.vals ≠ none) : LeafSymAt E u p := by
  intro y _
  obtain ⟨K, hK⟩ := Option.ne_none_iff_exists'.mp h
  simp only [leafDen, leafDenT, squareLeaf, if_true, hK]

mutual
/-- every leaf of the expression (also below wrappers) satisfies `P` -/
def AllLeaves (P : Nat → LeafCls → Params → Prop) : Op → Prop
  | .leaf u c p => P u c p
  | .wrap _ _ o => AllLeaves P o
  | .comp _ ops => AllLeavesList P ops
  | .cont _ _ _ ops => AllLeavesList P ops
def AllLeavesList (P : Nat → LeafCls → Params → Prop) : List Op → Prop
  | [] => True
  | o :: os => AllLeaves P o ∧ AllLeavesList P os
end

mutual
theorem allLeaves_of_forall (P : Nat → LeafCls → Params → Prop) (h : ∀ u c p, P u c p) : ∀ o, AllLeaves P o
  | .leaf u c p => by simp only [AllLeaves]; exact h u c p
  | .wrap _ _ o => by simp only [AllLeaves]; exact allLeaves_of_forall P h o
  | .comp _ ops => by simp only [AllLeaves]; exact allLeavesList_of_forall P h ops
  | .cont _ _ _ ops => by simp only [AllLeaves]; exact allLeavesList_of_forall P h ops
theorem allLeavesList_of_forall (P : Nat → LeafCls → Params → Prop) (h : ∀ u c p, P u c p) :
    ∀ ops, AllLeavesList P ops
  | [] => by simp only [AllLeavesList]
  | o :: os => by
      simp only [AllLeavesList]
      exact ⟨allLeaves_of_forall P h o, allLeavesList_of_forall P h os⟩
end

mutual
theorem allLeaves_mono (P Q : Nat → LeafCls → Params → Prop) (h : ∀ u c p, P u c p → Q u c p) :
    ∀ o, AllLeaves P o → AllLeaves Q o
  | .leaf u c p => by simp only [AllLeaves]; exact h u c p
  | .wrap _ _ o => by simp only [AllLeaves]; exact allLeaves_mono P Q h o
  | .comp _ ops => by simp only [AllLeaves]; exact allLeavesList_mono P Q h ops
  | .cont _ _ _ ops => by simp only [AllLeaves]; exact allLeavesList_mono P Q h ops
theorem allLeavesList_mono (P Q : Nat → LeafCls → Params → Prop) (h : ∀ u c p, P u c p → Q u c p) :
    ∀ ops, AllLeavesList P ops → AllLeavesList Q ops
  | [] => by simp only [AllLeavesList]; exact fun h => h
  | o :: os => by
      simp only [AllLeavesList]
      exact fun ⟨h1, h2⟩ => ⟨allLeaves_mono P Q h o h1, allLeavesList_mono P Q h os h2⟩
end

/-- **assumption A2 / A-kernel, for the expression `o`**: for every leaf of `o` interpreted by the environment
(`isEnvLeaf`: dense einsum block, observation matrix, opaque operator, Toeplitz with a rank-0 band array) with
identity `u`, `E.fT u` is the adjoint of `E.f u` on the vectors of the sizes the leaf declares.  (Toeplitz leaves with
a band array `bs ++ [K]`, batched or not, need no assumption: `toeplitz_leaf_adjoint`; the einsum kernel has its own
adjointness theorem, C14.) -/
def EnvAdjOn (E : Env) (o : Op) : Prop := AllLeaves (fun u c p => isEnvLeaf c p = true → LeafAdjAt E u c p) o

/-- **the (degenerate) Toeplitz leaves of `o` with a rank-0 band array are interpreted by self-adjoint maps**
(`transpose` returns `self` for them); nothing is asked of the Toeplitz leaves whose band array has a last axis,
batched or not (`toeplitz_leaf_sym`) -/
def EnvSymOn (E : Env) (o : Op) : Prop :=
  AllLeaves (fun u c p => c = .toeplitz → toepK p.vals = none → LeafSymAt E u p) o

/-- the same for ALL identities, classes and parameters at once — a sufficient condition that does not mention
the expression.  NOTE: the environment is keyed by the Python identity only, so `sym` asks EVERY `E.f u` to be
self-adjoint; when an expression mixes rank-0-band Toeplitz leaves with non-symmetric dense/opaque leaves use the
per-expression hypotheses `EnvAdjOn` / `EnvSymOn` (the `_on` theorems below), which only constrain the leaves
that occur. -/
structure EnvAdj (E : Env) : Prop where
  adj : ∀ u c p, isEnvLeaf c p = true → LeafAdjAt E u c p
  sym : ∀ u p, toepK p.vals = none → LeafSymAt E u p

theorem EnvAdj.adjOn {E : Env} (h : EnvAdj E) (o : Op) : EnvAdjOn E o :=
  allLeaves_of_forall _ h.adj o

theorem EnvAdj.symOn {E : Env} (h : EnvAdj E) (o : Op) : EnvSymOn E o :=
  allLeaves_of_forall _ (fun u _ p _ hK => h.sym u p hK) o

/-- an expression without Toeplitz leaves with a rank-0 band array and without dense / observation-matrix / opaque
leaves needs no assumption on the environment -/
theorem envAdjOn_of_noEnvLeaf (E : Env) (o : Op) (h : AllLeaves (fun _ c p => isEnvLeaf c p = false) o) :
    EnvAdjOn E o :=
  allLeaves_mono _ _ (fun _ _ _ hp ht => absurd ht (by rw [hp]; simp)) o h

/-- the Toeplitz leaves whose band array has a last axis (un-batched `[K]` or batched `bs ++ [K]`) need no assumption
(the name dates from the time only un-batched bands were interpreted) -/
theorem envSymOn_of_unbatched (E : Env) (o : Op)
    (h : AllLeaves (fun _ c p => c = .toeplitz → toepK p.vals ≠ none) o) : EnvSymOn E o :=
  allLeaves_mono _ _ (fun _ _ _ hp hc hn => absurd hn (hp hc)) o h

theorem envSymOn_of_noEnvLeaf (E : Env) (o : Op) (h : AllLeaves (fun _ c p => isEnvLeaf c p = false) o) :
    EnvSymOn E o :=
  allLeaves_mono _ _ (fun _ c p hp hc hn => by subst hc; simp [isEnvLeaf, hn] at hp) o h

/-- validity of the parameters of the leaves for the adjointness theorems: `listLeafOK`, and the class is not
`BroadcastDiagonalOperator` (EXCLUDED: its `leafDenT` is a placeholder in the denotation) -/
def adjLeafOK (c : LeafCls) (p : Params) : Prop := listLeafOK c p ∧ c ≠ .broadcastDiagonal

theorem forall₂_self_mem {α : Type} (l : List α) : List.Forall₂ (fun a b => a = b ∧ a ∈ l) l l := by
  rw [List.forall₂_same]
  exact fun x hx => ⟨rfl, hx⟩

/-- a diagonal leaf is self-adjoint; the values may be replaced by values of the same shape -/
theorem diagonal_leaf_adjoint (E : Env) (u : Nat) (p : Params) (v' : Tensor Rat) (hv : v'.shape = p.vals.shape)
    (h : diagonalOK p) : LeafAdjAt E u .diagonal { p with vals := v' } := by
  intro x y hx hy
  simp only [Op.outS, squareLeaf, if_true] at hy
  simp only [leafDen, leafDenT, squareLeaf, if_true]
  refine leaf_adj_aux p.inS p.inS (fun a b => a = b ∧ a ∈ p.inS.leaves) _ _ (forall₂_self_mem _) ?_ x y hx hy
  rintro li lo ⟨rfl, hm⟩ c d hc hd
  obtain ⟨y0, hy0, _⟩ := h li hm []
  exact diagLeaf_adjoint p.vals v' hv _ li [] ⟨y0, hy0⟩ c d hc hd

theorem identity_leaf_adjoint (E : Env) (u : Nat) (p : Params) : LeafAdjAt E u .identity p := by
  intro x y hx hy
  simp only [Op.outS, squareLeaf, if_true] at hy
  simp only [leafDen, leafDenT, squareLeaf, if_true, fit_eq_self hx, fit_eq_self hy]

theorem homothety_leaf_adjoint (E : Env) (u : Nat) (p : Params) : LeafAdjAt E u .homothety p := by
  intro x y hx hy
  simp only [Op.outS, squareLeaf, if_true] at hy
  simp only [leafDen, leafDenT, squareLeaf, if_true, fit_eq_self hx, fit_eq_self hy]
  rw [fit_eq_self (by rw [vsmul_length, hx]), fit_eq_self (by rw [vsmul_length, hy]), dot_vsmul_left,
    dot_vsmul_right]

theorem index_leaf_adjoint (E : Env) (u : Nat) (p : Params) (hok : indexOK p) : LeafAdjAt E u .index p := by
  intro x y hx hy
  simp only [Op.outS, squareLeaf, Bool.false_eq_true, if_false] at hy
  simp only [leafDen, leafDenT, squareLeaf, Bool.false_eq_true, if_false]
  exact leaf_adj_aux p.inS p.outS _ _ _ hok.2 (fun li lo h => gatherLeaf_adjoint p.idx _ li lo h) x y hx hy

theorem pack_leaf_adjoint (E : Env) (u : Nat) (p : Params) (hok : packOK p) : LeafAdjAt E u .pack p := by
  intro x y hx hy
  simp only [Op.outS, squareLeaf, Bool.false_eq_true, if_false] at hy
  simp only [leafDen, leafDenT, squareLeaf, Bool.false_eq_true, if_false]
  exact leaf_adj_aux p.inS p.outS _ _ _ hok.2 (fun li lo h => gatherLeaf_adjoint p.idx _ li lo h) x y hx hy

theorem moveAxis_leaf_adjoint (E : Env) (u : Nat) (p : Params) (hok : moveAxisOK p) :
    LeafAdjAt E u .moveAxis p := by
  intro x y hx hy
  simp only [Op.outS, squareLeaf, Bool.false_eq_true, if_false] at hy
  simp only [leafDen, leafDenT, squareLeaf, Bool.false_eq_true, if_false]
  refine leaf_adj_aux p.inS p.outS _ _ _ hok.2 ?_ x y hx hy
  rintro li lo ⟨o, ho, hs, _⟩ c d hc hd
  exact moveLeaf_adjoint _ _ li lo o ho hs c d hc hd

theorem reshape_leaf_adjoint (E : Env) (u : Nat) (c : LeafCls) (hc : c = .ravel ∨ c = .reshape) (p : Params)
    (hok : reshapeOK p) : LeafAdjAt E u c p := by
  intro x y hx hy
  have hs := reshapeOK_size hok
  rcases hc with rfl | rfl
  · simp only [Op.outS, squareLeaf, Bool.false_eq_true, if_false] at hy
    simp only [leafDen, leafDenT, squareLeaf, Bool.false_eq_true, if_false, hs, fit_eq_self hx,
      fit_eq_self (hy.trans hs)]
  · simp only [Op.outS, squareLeaf, Bool.false_eq_true, if_false] at hy
    simp only [leafDen, leafDenT, squareLeaf, Bool.false_eq_true, if_false, hs, fit_eq_self hx,
      fit_eq_self (hy.trans hs)]

theorem qurot_leaf_adjoint (E : Env) (u : Nat) (p : Params) (hok : stokesOK .qurot p) :
    LeafAdjAt E u .qurot p := by
  intro x y hx hy
  simp only [Op.outS, squareLeaf, if_true] at hy
  obtain ⟨k, hk⟩ := hok.1
  have hsz := stokesOK_size hok hk
  have key := stokesMap_adjoint k (prodNat (leafShape p)) (rotG p.vals (leafShape p)) (rotTG p.vals (leafShape p))
    (fun t v w => pdot_rot k _ _ v w) x y (hx.trans hsz) (hy.trans hsz)
  simp only [leafDen, leafDenT, squareLeaf, if_true, hk, headD_size, fit_eq_self hx, fit_eq_self hy]
  rw [fit_eq_self (by rw [stokesMap_length, hsz]), fit_eq_self (by rw [stokesMap_length, hsz])]
  exact key

theorem hwp_leaf_adjoint (E : Env) (u : Nat) (p : Params) (hok : stokesOK .hwp p) : LeafAdjAt E u .hwp p := by
  intro x y hx hy
  simp only [Op.outS, squareLeaf, if_true] at hy
  obtain ⟨k, hk⟩ := hok.1
  have hsz := stokesOK_size hok hk
  have key := stokesMap_adjoint k (prodNat (leafShape p)) (fun _ => SV.hwp) (fun _ => SV.hwp)
    (fun _ v w => pdot_hwp k v w) x y (hx.trans hsz) (hy.trans hsz)
  simp only [leafDen, leafDenT, squareLeaf, if_true, hk, headD_size, fit_eq_self hx, fit_eq_self hy]
  rw [fit_eq_self (by rw [stokesMap_length, hsz]), fit_eq_self (by rw [stokesMap_length, hsz])]
  exact key

theorem polarizer_leaf_adjoint (E : Env) (u : Nat) (p : Params) (hok : stokesOK .polarizer p) :
    LeafAdjAt E u .polarizer p := by
  intro x y hx hy
  simp only [Op.outS, squareLeaf, Bool.false_eq_true, if_false] at hy
  obtain ⟨k, hk⟩ := hok.1
  have hsz := stokesOK_size hok hk
  obtain ⟨l, hl, hls⟩ := hok.2.2.2 rfl
  have hout : p.outS.size = prodNat (leafShape p) := by
    simp [Struct.size, hl, LeafS.size, hls]
  have key := polMap_adjoint k (prodNat (leafShape p)) x y (hx.trans hsz) (hy.trans hout)
  simp only [leafDen, leafDenT, squareLeaf, Bool.false_eq_true, if_false, hk, headD_size, fit_eq_self hx,
    fit_eq_self hy]
  rw [dot_fit_left _ _ _ (le_of_eq hy), dot_fit_right _ _ _ (le_of_eq hx)]
  exact key

/-- **a Toeplitz leaf (band array `bs ++ [K]`, batched or not) is self-adjoint**: `⟨T x, y⟩ = ⟨x, T y⟩` on the
vectors of the size of the structure — a THEOREM (the symmetry of the band matrix of every batch row,
`toepLeaf_adjoint`), for every band array, every number of bands and every input structure; no validity hypothesis
is needed (not even that the batch axes broadcast) -/
theorem toeplitz_leaf_adjoint (E : Env) (u : Nat) (p : Params) (h : toepK p.vals ≠ none) :
    LeafAdjAt E u .toeplitz p := by
  intro x y hx hy
  obtain ⟨K, hK⟩ := Option.ne_none_iff_exists'.mp h
  simp only [Op.outS, squareLeaf, if_true] at hy
  simp only [leafDen, leafDenT, squareLeaf, if_true, hK]
  refine leaf_adj_aux p.inS p.inS (fun a b => a = b) _ _ (List.forall₂_same.mpr fun _ _ => rfl) ?_ x y hx hy
  rintro li lo rfl c d hc hd
  rw [fit_eq_self (toepLeaf_length _ _ _ _ _), fit_eq_self (toepLeaf_length _ _ _ _ _)]
  exact toepLeaf_adjoint K p.vals li li li c d hc hd

/-- **a dense einsum leaf with a shared block array is adjoint to the leaf with the rewritten subscripts** (C14:
`denseLeaf_adjoint`, FuraxProofs/Sem/DenseLeaf.lean) -/
theorem dense_leaf_adjoint (E : Env) (u : Nat) (p : Params) (hs : denseShared p = true) (h : denseOK p) :
    LeafAdjAt E u .dense p := by
  intro x y hx hy
  have hy' : y.length = p.outS.size := by simpa [Op.outS, squareLeaf] using hy
  simp only [leafDen, leafDenT, squareLeaf, Bool.false_eq_true, if_false, hs, if_true]
  rw [fit_eq_self hx, fit_eq_self hy', fit_eq_self (denseLeaf_length p h x),
    fit_eq_self (denseLeafT_length p h y)]
  exact denseLeaf_adjoint p h x y hx hy'

/-- **leaf adjointness**: for every leaf class but `BroadcastDiagonalOperator`, under the validity of the
parameters (`listLeafOK`), `leafDenT` is the adjoint of `leafDen`; a THEOREM for the interpreted classes (Toeplitz
leaves, batched band or not, and dense einsum leaves with a shared block array included), the assumption `hE` (see `EnvAdjOn`) for the leaves interpreted by the
environment (`isEnvLeaf`) -/
theorem leaf_adjoint (E : Env) (u : Nat) (c : LeafCls) (p : Params)
    (hE : isEnvLeaf c p = true → LeafAdjAt E u c p) (hok : adjLeafOK c p) : LeafAdjAt E u c p := by
  obtain ⟨hok, hnb⟩ := hok
  cases c with
  | broadcastDiagonal => exact absurd rfl hnb
  | dense =>
    by_cases hs : denseShared p = true
    · exact dense_leaf_adjoint E u p hs (hok hs)
    · exact hE (by simp [isEnvLeaf, hs])
  | toeplitz =>
    by_cases hK : toepK p.vals = none
    · exact hE (by simp [isEnvLeaf, hK])
    · exact toeplitz_leaf_adjoint E u p hK
  | obsMatrix => exact hE rfl
  | «opaque» => exact hE rfl
  | identity => exact identity_leaf_adjoint E u p
  | homothety => exact homothety_leaf_adjoint E u p
  | diagonal => exact diagonal_leaf_adjoint E u p p.vals rfl hok
  | index => exact index_leaf_adjoint E u p hok.1
  | pack => exact pack_leaf_adjoint E u p hok
  | moveAxis => exact moveAxis_leaf_adjoint E u p hok
  | ravel => exact reshape_leaf_adjoint E u _ (.inl rfl) p hok
  | reshape => exact reshape_leaf_adjoint E u _ (.inr rfl) p hok
  | qurot => exact qurot_leaf_adjoint E u p hok
  | hwp => exact hwp_leaf_adjoint E u p hok
  | polarizer => exact polarizer_leaf_adjoint E u p hok

/-! ### 4. lazy inverses: the adjoint of the inverse is the inverse of the adjoint -/

section Inverse
open Matrix

/-- the coordinates of a flat vector -/
def toFn (n : Nat) (x : V) : Fin n → ℝ := fun i => x.getD i 0

theorem ofFn_toFn (n : Nat) (x : V) (hx : x.length = n) : List.ofFn (toFn n x) = x := by
  apply List.ext_getElem
  · simp [hx]
  · intro i h1 h2
    rw [List.getElem_ofFn]
    exact List.getD_eq_getElem _ _ h2

theorem toFn_ofFn (n : Nat) (v : Fin n → ℝ) : toFn n (List.ofFn v) = v := by
  funext i
  unfold toFn
  rw [List.getD_eq_getElem _ _ (by simp), List.getElem_ofFn]

theorem dot_eq_dotProduct : ∀ (n : Nat) (x y : V), x.length = n → y.length = n →
    dot x y = toFn n x ⬝ᵥ toFn n y
  | 0, x, y, hx, _ => by
    rw [List.length_eq_zero_iff.mp hx]; simp [dotProduct]
  | n + 1, [], _, hx, _ => by simp at hx
  | n + 1, _ :: _, [], _, hy => by simp at hy
  | n + 1, a :: x, b :: y, hx, hy => by
    rw [dot_cons, dot_eq_dotProduct n x y (by simpa using hx) (by simpa using hy)]
    simp [dotProduct, Fin.sum_univ_succ, toFn]

theorem toFn_smul (n : Nat) (a : ℝ) (x : V) : toFn n (x.map fun v => a * v) = a • toFn n x := by
  funext i
  simp only [toFn, Pi.smul_apply, smul_eq_mul]
  exact getD_smul a x i

/-- **if `B` is the adjoint of `A` on `ℝⁿ` and `A` has an inverse there, so has `B`, and the two inverses are
adjoint**: in coordinates `A` is a matrix `M` (adjointness forces linearity), `B` is `Mᵀ`, an inverse function of
`A` gives a right inverse matrix `N` of `M`, which is two-sided (`mul_eq_one_comm`), and `Nᵀ` inverts `Mᵀ`. -/
theorem inv_adjoint_exists (n : Nat) (A B g : V → V)
    (hA : ∀ x, x.length = n → (A x).length = n) (hB : ∀ y, y.length = n → (B y).length = n)
    (hadj : ∀ x y, x.length = n → y.length = n → dot (A x) y = dot x (B y))
    (hg : IsInvOn n A g) :
    ∃ g', IsInvOn n B g' ∧ ∀ x y, x.length = n → y.length = n → dot (g x) y = dot x (g' y) := by
  classical
  let Ab : (Fin n → ℝ) → (Fin n → ℝ) := fun v => toFn n (A (List.ofFn v))
  let Bb : (Fin n → ℝ) → (Fin n → ℝ) := fun v => toFn n (B (List.ofFn v))
  let gb : (Fin n → ℝ) → (Fin n → ℝ) := fun v => toFn n (g (List.ofFn v))
  have hadjb : ∀ v w, Ab v ⬝ᵥ w = v ⬝ᵥ Bb w := by
    intro v w
    have := hadj (List.ofFn v) (List.ofFn w) (by simp) (by simp)
    rw [dot_eq_dotProduct n _ _ (hA _ (by simp)) (by simp),
      dot_eq_dotProduct n _ _ (by simp) (hB _ (by simp)), toFn_ofFn, toFn_ofFn] at this
    exact this
  let M : Matrix (Fin n) (Fin n) ℝ := fun i j => Ab (Pi.single j 1) i
  have hBM : ∀ w, Bb w = Mᵀ *ᵥ w := by
    intro w
    funext j
    rw [← single_one_dotProduct j (Bb w), ← hadjb]
    rfl
  have hAM : ∀ v, Ab v = M *ᵥ v := by
    intro v
    funext i
    rw [← dotProduct_single_one (Ab v) i, hadjb, hBM, Matrix.mulVec_single_one]
    simp only [Matrix.mulVec, dotProduct, Matrix.col_apply, Matrix.transpose_apply]
    exact Finset.sum_congr rfl fun j _ => mul_comm _ _
  have hAg : ∀ v, Ab (gb v) = v := by
    intro v
    simp only [Ab, gb]
    rw [ofFn_toFn n _ (hg.1 _ (by simp)).1, (hg.1 _ (by simp)).2.1, toFn_ofFn]
  have hgA : ∀ v, gb (Ab v) = v := by
    intro v
    simp only [Ab, gb]
    rw [ofFn_toFn n _ (hA _ (by simp)), (hg.1 _ (by simp)).2.2, toFn_ofFn]
  let N : Matrix (Fin n) (Fin n) ℝ := fun i j => gb (Pi.single j 1) i
  have hMN : M * N = 1 := by
    ext i j
    have := congrFun (hAg (Pi.single j 1)) i
    rw [hAM] at this
    rw [Matrix.mul_apply, Matrix.one_apply]
    simp only [Matrix.mulVec, dotProduct] at this
    rw [show (∑ k, M i k * N k j) = ∑ k, M i k * gb (Pi.single j 1) k from rfl, this, Pi.single_apply]
  have hNM : N * M = 1 := mul_eq_one_comm.mp hMN
  have hgN : ∀ v, gb v = N *ᵥ v := by
    intro v
    have h1 : Ab (N *ᵥ v) = v := by rw [hAM, Matrix.mulVec_mulVec, hMN, Matrix.one_mulVec]
    have h2 := hgA (N *ᵥ v)
    rw [h1] at h2
    exact h2
  have hBo : ∀ y, y.length = n → B y = List.ofFn (Mᵀ *ᵥ toFn n y) := by
    intro y hy
    rw [← hBM]
    simp only [Bb]
    rw [ofFn_toFn n y hy, ofFn_toFn n _ (hB y hy)]
  have hgo : ∀ x, x.length = n → toFn n (g x) = N *ᵥ toFn n x := by
    intro x hx
    rw [← hgN]
    simp only [gb]
    rw [ofFn_toFn n x hx]
  refine ⟨fun y => List.ofFn (Nᵀ *ᵥ toFn n y), ⟨fun x hx => ⟨by simp, ?_, ?_⟩, fun a x _ => ?_⟩,
    fun x y hx hy => ?_⟩
  · rw [hBo _ (by simp), toFn_ofFn, Matrix.mulVec_mulVec, ← Matrix.transpose_mul, hNM, Matrix.transpose_one,
      Matrix.one_mulVec, ofFn_toFn n x hx]
  · beta_reduce
    rw [hBo x hx, toFn_ofFn, Matrix.mulVec_mulVec, ← Matrix.transpose_mul, hMN, Matrix.transpose_one,
      Matrix.one_mulVec, ofFn_toFn n x hx]
  · beta_reduce
    rw [toFn_smul, Matrix.mulVec_smul, List.map_ofFn]
    rfl
  · beta_reduce
    rw [dot_eq_dotProduct n (g x) y (hg.1 x hx).1 hy, dot_eq_dotProduct n x _ hx (by simp), hgo x hx, toFn_ofFn,
      Matrix.dotProduct_mulVec, Matrix.vecMul_transpose]

/-- **the adjoint of the lazy inverse is the lazy inverse of the adjoint**: `chooseInv n A` and `chooseInv n B`
are adjoint on `ℝⁿ` as soon as `A` and `B` are (an inverse of `A` exists iff one of `B` does; when none exists both
are the zero map) -/
theorem chooseInv_adjoint (n : Nat) (A B : V → V)
    (hA : ∀ x, x.length = n → (A x).length = n) (hB : ∀ y, y.length = n → (B y).length = n)
    (hadj : ∀ x y, x.length = n → y.length = n → dot (A x) y = dot x (B y)) :
    ∀ x y, x.length = n → y.length = n → dot (chooseInv n A x) y = dot x (chooseInv n B y) := by
  intro x y hx hy
  by_cases h : ∃ g, IsInvOn n A g
  · obtain ⟨g, hg⟩ := h
    obtain ⟨g', hg', hgg⟩ := inv_adjoint_exists n A B g hA hB hadj hg
    rw [chooseInv_eq n A g hg x hx, chooseInv_eq n B g' hg' y hy]
    exact hgg x y hx hy
  · have h' : ¬ ∃ g', IsInvOn n B g' := by
      rintro ⟨g', hg'⟩
      obtain ⟨g, hg, _⟩ := inv_adjoint_exists n B A g' hB hA
        (fun x y hx hy => by rw [dot_comm, ← hadj y x hy hx, dot_comm]) hg'
      exact h ⟨g, hg⟩
    unfold chooseInv
    rw [dif_neg h, dif_neg h', dot_replicate_zero_left, dot_replicate_zero_right]

end Inverse

/-! ### 5. `denT` is the adjoint of `den`: the induction over expressions -/

/-- `denT E o` is the adjoint of `den E o` on the vectors of the declared sizes -/
def AdjAt (E : Env) (o : Op) : Prop :=
  ∀ x y : V, x.length = inSize o → y.length = outSize o → dot (den E o x) y = dot x (denT E o y)

/-- compositions of any length -/
theorem app_adjoint (E : Env) : ∀ ops : List Op, ops ≠ [] → (∀ o ∈ ops, StructOK o) → (∀ o ∈ ops, AdjAt E o) →
    Chain ops → ∀ x y : V, x.length = (inSLast ops).size → y.length = (outSHead ops).size →
      dot (app E ops x) y = dot x (appT E ops y)
  | [], hne, _, _, _ => absurd rfl hne
  | [o], _, _, ha, _ => fun x y hx hy => by
      rw [app, app, appT, appT]
      exact ha o (by simp) x y hx hy
  | o :: b :: rest, _, hok, ha, hc => fun x y hx hy => by
      rw [app, appT]
      have hio : inSize o = outSize b := by unfold inSize outSize; rw [hc.1]
      have hlen : (app E (b :: rest) x).length = inSize o := by
        rw [app_length E (b :: rest) (by simp) (fun o' ho' => den_length E o' (hok o' (by simp [ho'])))]
        exact hio.symm
      rw [ha o (by simp) _ y hlen hy]
      refine app_adjoint E (b :: rest) (by simp) (fun o' ho' => hok o' (by simp [ho']))
        (fun o' ho' => ha o' (by simp [ho'])) hc.2 x _ hx ?_
      rw [denT_length E o (hok o (by simp))]
      exact hio

/-- sums of any length -/
theorem sumApp_adjoint (E : Env) (ops : List Op) (ha : ∀ o ∈ ops, AdjAt E o) (x y : V)
    (hx : ∀ o ∈ ops, x.length = inSize o) (hy : ∀ o ∈ ops, y.length = outSize o) :
    dot (sumApp E ops x) y = dot x (sumAppT E ops y) := by
  induction ops with
  | nil => simp [sumApp, sumAppT]
  | cons o os ih =>
    rw [sumApp, sumAppT, dot_vadd_left, dot_vadd_right,
      ih (fun o' ho' => ha o' (by simp [ho'])) (fun o' ho' => hx o' (by simp [ho']))
        (fun o' ho' => hy o' (by simp [ho'])),
      ha o (by simp) x y (hx o (by simp)) (hy o (by simp))]

/-- block row: the adjoint is the block column of the adjoints -/
theorem rowApp_adjoint (E : Env) (m : Nat) (ops : List Op) (hok : ∀ o ∈ ops, StructOK o)
    (ha : ∀ o ∈ ops, AdjAt E o) (hm : ∀ o ∈ ops, outSize o = m) (x y : V)
    (hx : x.length = (ops.map inSize).sum) (hy : y.length = m) :
    dot (rowApp E ops x) y = dot x (colAppT E ops y) := by
  induction ops generalizing x with
  | nil => simp [rowApp, colAppT]
  | cons o os ih =>
    simp only [List.map_cons, List.sum_cons] at hx
    rw [rowApp, colAppT, dot_vadd_left, dot_take_drop (inSize o) x _ _ (fit_length _ _) (by omega),
      headChunk_of_le (by omega),
      ih (fun o' ho' => hok o' (by simp [ho'])) (fun o' ho' => ha o' (by simp [ho']))
        (fun o' ho' => hm o' (by simp [ho'])) (x.drop (inSize o)) (by rw [List.length_drop]; omega),
      ha o (by simp) _ y (by rw [List.length_take]; omega) (by rw [hy, hm o (by simp)]),
      fit_eq_self (denT_length E o (hok o (by simp)) y)]

/-- block column: the adjoint is the block row of the adjoints -/
theorem colApp_adjoint (E : Env) (n : Nat) (ops : List Op) (hok : ∀ o ∈ ops, StructOK o)
    (ha : ∀ o ∈ ops, AdjAt E o) (hn : ∀ o ∈ ops, inSize o = n) (x y : V)
    (hx : x.length = n) (hy : y.length = (ops.map outSize).sum) :
    dot (colApp E ops x) y = dot x (rowAppT E ops y) := by
  induction ops generalizing y with
  | nil => simp [colApp, rowAppT]
  | cons o os ih =>
    simp only [List.map_cons, List.sum_cons] at hy
    rw [colApp, rowAppT, dot_vadd_right, dot_comm,
      dot_take_drop (outSize o) y _ _ (fit_length _ _) (by omega), dot_comm (y.take _), dot_comm (y.drop _),
      headChunk_of_le (by omega),
      ih (fun o' ho' => hok o' (by simp [ho'])) (fun o' ho' => ha o' (by simp [ho']))
        (fun o' ho' => hn o' (by simp [ho'])) (y.drop (outSize o)) (by rw [List.length_drop]; omega),
      fit_eq_self (den_length E o (hok o (by simp)) x),
      ha o (by simp) x _ (by rw [hx, hn o (by simp)]) (by rw [List.length_take]; omega)]

/-- block diagonal: the adjoint is the block diagonal of the adjoints -/
theorem diagApp_adjoint (E : Env) (ops : List Op) (hok : ∀ o ∈ ops, StructOK o)
    (ha : ∀ o ∈ ops, AdjAt E o) (x y : V)
    (hx : x.length = (ops.map inSize).sum) (hy : y.length = (ops.map outSize).sum) :
    dot (diagApp E ops x) y = dot x (diagAppT E ops y) := by
  induction ops generalizing x y with
  | nil => simp [diagApp, diagAppT]
  | cons o os ih =>
    simp only [List.map_cons, List.sum_cons] at hx hy
    rw [diagApp, diagAppT, dot_comm,
      dot_take_drop (outSize o) y _ _ (fit_length _ _) (by omega),
      dot_take_drop (inSize o) x _ _ (fit_length _ _) (by omega), dot_comm (y.take _), dot_comm (y.drop _),
      headChunk_of_le (by omega), headChunk_of_le (by omega),
      ih (fun o' ho' => hok o' (by simp [ho'])) (fun o' ho' => ha o' (by simp [ho']))
        (x.drop (inSize o)) (y.drop (outSize o)) (by rw [List.length_drop]; omega)
        (by rw [List.length_drop]; omega),
      fit_eq_self (den_length E o (hok o (by simp)) _), fit_eq_self (denT_length E o (hok o (by simp)) _),
      ha o (by simp) _ _ (by rw [List.length_take]; omega) (by rw [List.length_take]; omega)]

/-- **`Valid`**: every leaf passed its constructor's validation and is not a `BroadcastDiagonalOperator`
(`adjLeafOK`), every wrapper, composition and container is structurally well formed (`StructOK`: non-empty chains
with matching adjacent structures, containers whose operands fit together, lazy inverses around square operands).
NO invertibility hypothesis: a lazy inverse of a singular operand denotes the zero map, whose adjoint is the zero
map. -/
def Valid (o : Op) : Prop := WTExpr (fun _ => True) adjLeafOK o

theorem Valid.structOK {o : Op} (h : Valid o) : StructOK o := WTExpr.structOK h

/-- the transpose wrappers: swap -/
theorem adjAt_wrap_swap (E : Env) (u : Nat) (k : WrapCls) (o : Op)
    (hk : k = .transpose ∨ k = .reshapeT ∨ k = .qurotT ∨ k = .obsT) (ih : AdjAt E o) :
    AdjAt E (.wrap u k o) := by
  intro x y hx hy
  have e1 : den E (.wrap u k o) = denT E o := by
    rcases hk with rfl | rfl | rfl | rfl <;> exact den.eq_5 _ _ _ _ (by simp) (by simp) (by simp)
  have e2 : denT E (.wrap u k o) = den E o := by
    rcases hk with rfl | rfl | rfl | rfl <;> exact denT.eq_5 _ _ _ _ (by simp) (by simp) (by simp)
  have hx' : x.length = outSize o := by
    rcases hk with rfl | rfl | rfl | rfl <;> exact hx
  have hy' : y.length = inSize o := by
    rcases hk with rfl | rfl | rfl | rfl <;> exact hy
  rw [e1, e2, dot_comm, ← ih y x hy' hx', dot_comm]

/-- a lazy inverse of a square operand -/
theorem chooseInv_den_adjoint (E : Env) (o : Op) (hs : StructOK o) (hsq : Op.inS o = Op.outS o) (ih : AdjAt E o) :
    ∀ x y : V, x.length = inSize o → y.length = inSize o →
      dot (chooseInv (inSize o) (den E o) x) y = dot x (chooseInv (inSize o) (denT E o) y) := by
  have hio : outSize o = inSize o := by unfold inSize outSize; rw [hsq]
  refine chooseInv_adjoint (inSize o) (den E o) (denT E o) (fun x _ => ?_) (fun y _ => denT_length E o hs y)
    (fun x y hx hy => ih x y hx (hy.trans hio.symm))
  rw [den_length E o hs x, hio]

theorem adjAt_inverse (E : Env) (u : Nat) (o : Op) (hs : StructOK o) (hsq : Op.inS o = Op.outS o)
    (ih : AdjAt E o) : AdjAt E (.wrap u .inverse o) := by
  intro x y hx hy
  have hx' : x.length = inSize o := by rw [hx]; simp [inSize, Op.inS, hsq]
  have hy' : y.length = inSize o := by rw [hy]; simp [inSize, outSize, Op.outS]
  rw [den, denT]
  exact chooseInv_den_adjoint E o hs hsq ih x y hx' hy'

theorem adjAt_diagInv (E : Env) (u : Nat) (o : Op) (hv : Valid o) (hsq : Op.inS o = Op.outS o)
    (ih : AdjAt E o) : AdjAt E (.wrap u .diagInv o) := by
  intro x y hx hy
  have hx' : x.length = inSize o := hx
  have hy' : y.length = inSize o := hy
  by_cases hd : ∃ u' p, o = .leaf u' .diagonal p
  · obtain ⟨u', p, rfl⟩ := hd
    have hok : diagonalOK p := by
      have : adjLeafOK .diagonal p := by simpa only [Valid, WTExpr] using hv
      exact this.1
    rw [den, denT]
    exact diagonal_leaf_adjoint E u' p (pinvT p.vals) rfl hok x y hx' (by rw [hy']; simp [inSize, Op.inS, Op.outS, squareLeaf])
  · have hd' : ∀ (u' : ℕ) (p : Params), o = leaf u' LeafCls.diagonal p → False :=
      fun u' p h => hd ⟨u', p, h⟩
    rw [den.eq_4 _ _ _ hd', denT.eq_4 _ _ _ hd']
    exact chooseInv_den_adjoint E o hv.structOK hsq ih x y hx' hy'

theorem adjAt_wrap (E : Env) (u : Nat) (k : WrapCls) (o : Op) (hv : Valid o) (hw : WrapOK (fun _ => True) k o)
    (ih : AdjAt E o) : AdjAt E (.wrap u k o) := by
  cases k with
  | transpose => exact adjAt_wrap_swap E u _ o (.inl rfl) ih
  | reshapeT => exact adjAt_wrap_swap E u _ o (.inr (.inl rfl)) ih
  | qurotT => exact adjAt_wrap_swap E u _ o (.inr (.inr (.inl rfl))) ih
  | obsT => exact adjAt_wrap_swap E u _ o (.inr (.inr (.inr rfl))) ih
  | inverse => exact adjAt_inverse E u o hv.structOK (hw.1 (.inl rfl)).1 ih
  | diagInv => exact adjAt_diagInv E u o hv (hw.1 (.inr (.inr rfl))).1 ih

theorem adjAt_comp (E : Env) (u : Nat) (ops : List Op) (hne : ops ≠ []) (hok : ∀ o ∈ ops, StructOK o)
    (hc : Chain ops) (ih : ∀ o ∈ ops, AdjAt E o) : AdjAt E (.comp u ops) := by
  intro x y hx hy
  rw [den, denT]
  exact app_adjoint E ops hne hok ih hc x y hx hy

theorem adjAt_cont (E : Env) (u : Nat) (k : ContCls) (td : TreeDef) (ops : List Op)
    (hok : ∀ o ∈ ops, StructOK o) (hc : ContOK k td ops) (ih : ∀ o ∈ ops, AdjAt E o) :
    AdjAt E (.cont u k td ops) := by
  obtain ⟨_, hc⟩ := hc
  intro x y hx hy
  cases k with
  | add =>
    simp only at hc
    rw [den, denT]
    refine sumApp_adjoint E ops ih x y (fun o ho => ?_) (fun o ho => ?_)
    · rw [hx, inSize, inSize, Op.inS, (hc o ho).1]
    · rw [hy, outSize, outSize, Op.outS, (hc o ho).2]
  | blockRow =>
    simp only at hc
    rw [den, denT]
    refine rowApp_adjoint E (outSHead ops).size ops hok ih (fun o ho => by rw [outSize, hc o ho]) x y ?_ hy
    rw [hx]; simp [inSize, Op.inS, nest_size, inSList_sizes]
  | blockDiag =>
    rw [den, denT]
    refine diagApp_adjoint E ops hok ih x y ?_ ?_
    · rw [hx]; simp [inSize, Op.inS, nest_size, inSList_sizes]
    · rw [hy]; simp [outSize, Op.outS, nest_size, outSList_sizes]
  | blockCol =>
    simp only at hc
    rw [den, denT]
    refine colApp_adjoint E (inSHead ops).size ops hok ih (fun o ho => by rw [inSize, hc o ho]) x y hx ?_
    rw [hy]; simp [outSize, Op.outS, nest_size, outSList_sizes]

mutual
theorem adjAt (E : Env) : ∀ o, EnvAdjOn E o → Valid o → AdjAt E o
  | .leaf u c p, hE, h => by
      have hl : adjLeafOK c p := by simpa only [Valid, WTExpr] using h
      have hE' : isEnvLeaf c p = true → LeafAdjAt E u c p := by simpa only [EnvAdjOn, AllLeaves] using hE
      intro x y hx hy
      rw [den, denT]
      exact leaf_adjoint E u c p hE' hl x y hx hy
  | .wrap u k o, hE, h => by
      have h' : WTExpr (fun _ => True) adjLeafOK o ∧ WrapOK (fun _ => True) k o := by
        simpa only [Valid, WTExpr] using h
      have hE' : EnvAdjOn E o := by simpa only [EnvAdjOn, AllLeaves] using hE
      exact adjAt_wrap E u k o h'.1 h'.2 (adjAt E o hE' h'.1)
  | .comp u ops, hE, h => by
      have h' : ops ≠ [] ∧ WTList (fun _ => True) adjLeafOK ops ∧ Chain ops := by
        simpa only [Valid, WTExpr] using h
      have hE' : AllLeavesList (fun u c p => isEnvLeaf c p = true → LeafAdjAt E u c p) ops := by
        simpa only [EnvAdjOn, AllLeaves] using hE
      exact adjAt_comp E u ops h'.1 (fun o ho => ((WTList_iff _ _ ops).mp h'.2.1 o ho).structOK) h'.2.2
        (adjAtList E ops hE' h'.2.1)
  | .cont u k td ops, hE, h => by
      have h' : ops ≠ [] ∧ WTList (fun _ => True) adjLeafOK ops ∧ ContOK k td ops := by
        simpa only [Valid, WTExpr] using h
      have hE' : AllLeavesList (fun u c p => isEnvLeaf c p = true → LeafAdjAt E u c p) ops := by
        simpa only [EnvAdjOn, AllLeaves] using hE
      exact adjAt_cont E u k td ops (fun o ho => ((WTList_iff _ _ ops).mp h'.2.1 o ho).structOK) h'.2.2
        (adjAtList E ops hE' h'.2.1)
theorem adjAtList (E : Env) : ∀ ops, AllLeavesList (fun u c p => isEnvLeaf c p = true → LeafAdjAt E u c p) ops →
    WTList (fun _ => True) adjLeafOK ops → ∀ o ∈ ops, AdjAt E o
  | [], _, _ => fun _ ho => by simp at ho
  | o :: os, hE, h => by
      have h' : WTExpr (fun _ => True) adjLeafOK o ∧ WTList (fun _ => True) adjLeafOK os := by
        simpa only [WTList] using h
      have hE' : EnvAdjOn E o ∧ AllLeavesList (fun u c p => isEnvLeaf c p = true → LeafAdjAt E u c p) os := by
        simpa only [AllLeavesList, EnvAdjOn] using hE
      intro o' ho'
      rcases List.mem_cons.mp ho' with heq | ho'
      · rw [heq]; exact adjAt E o hE'.1 h'.1
      · exact adjAtList E os hE'.2 h'.2 o' ho'
end

/-- **`denT E o` is the exact adjoint of `den E o`**, for every valid expression (all constructors: leaves, the
transpose wrappers, lazy inverses, compositions and sums of any length, block rows / diagonals / columns), in the
pairing of flat real vectors; the only assumption is on the uninterpreted leaves that occur in `o` (`EnvAdjOn`) -/
theorem den_adjoint_on (E : Env) : ∀ o, EnvAdjOn E o → Valid o → ∀ x y : V, x.length = inSize o →
    y.length = outSize o → dot (den E o x) y = dot x (denT E o y) :=
  fun o hE h => adjAt E o hE h

/-- the same under the expression-independent assumption `EnvAdj E` -/
theorem den_adjoint (E : Env) (hE : EnvAdj E) : ∀ o, Valid o → ∀ x y : V, x.length = inSize o →
    y.length = outSize o → dot (den E o x) y = dot x (denT E o y) :=
  fun o h => adjAt E o (hE.adjOn o) h

/-! ### 6. the FORM `op.T` computed by the model denotes `denT` -/

mutual
/-- what `transposeOp_den` needs beyond structural well-formedness, at the positions `transposeOp` visits (it
goes through compositions and containers, it does not look inside wrappers):
* every dense leaf has ONE block array shared by its leaves (`denseShared`: interpreted by the einsum kernel) —
  `transposeOp` makes a NEW leaf (uid 0, transposed subscripts) that the environment cannot know, so the dense
  leaves with one block array per leaf are EXCLUDED;
* every `DiagonalInverseOperator` wraps a `DiagonalOperator` leaf (what its constructor is given by `op.I`): its
  `transpose` returns `self`, which is the adjoint only for a self-adjoint operand. -/
def TFormOK : Op → Prop
  | .leaf _ c p => c = .dense → denseShared p = true
  | .wrap _ k o => k = .diagInv → ∃ u p, o = .leaf u .diagonal p
  | .comp _ ops => TFormOKList ops
  | .cont _ _ _ ops => TFormOKList ops
def TFormOKList : List Op → Prop
  | [] => True
  | o :: os => TFormOK o ∧ TFormOKList os
end

/-- `t` denotes `denT E o` on the vectors of the output size of `o` -/
def TAt (E : Env) (o t : Op) : Prop := ∀ y : V, y.length = outSize o → den E t y = denT E o y

theorem app_append (E : Env) (a b : List Op) (y : V) : app E (a ++ b) y = app E a (app E b y) := by
  induction a with
  | nil => rfl
  | cons o os ih => rw [List.cons_append, app, app, ih]

theorem tAt_leaf (E : Env) (u : Nat) (c : LeafCls) (p : Params)
    (hS : c = .toeplitz → toepK p.vals = none → LeafSymAt E u p) (t : Op)
    (hc : c = .dense → denseShared p = true) (h : transposeOp (.leaf u c p) = .ok t) : TAt E (.leaf u c p) t := by
  intro y hy
  by_cases hs : isSymmetricLeaf c = true
  · rw [transpose_symmetric_leaf u c p hs] at h
    cases h
    rw [den, denT]
    cases c <;> simp only [isSymmetricLeaf, Bool.false_eq_true] at hs
    · simp only [leafDen, leafDenT, squareLeaf, if_true]
    · simp only [leafDen, leafDenT, squareLeaf, if_true]
    · simp only [leafDen, leafDenT, squareLeaf, if_true]
    · simp only [leafDen, leafDenT, squareLeaf, if_true]
    · by_cases hK : toepK p.vals = none
      · exact hS rfl hK y (by simpa [outSize, Op.outS, squareLeaf] using hy)
      · exact toeplitz_leaf_sym E u p hK y (by simpa [outSize, Op.outS, squareLeaf] using hy)
  · by_cases hwl : isWrappedLeaf c = true
    · rw [transpose_wrapped_leaf u c p hwl] at h
      cases h
      have : den E (.wrap 0 (transposeWrapper c) (.leaf u c p)) = denT E (.leaf u c p) := by
        cases c <;> simp only [isWrappedLeaf, isSymmetricLeaf, Bool.not_true, Bool.not_false,
          Bool.true_and, Bool.false_and, Bool.and_false, Bool.false_eq_true, bne_self_eq_false] at hwl <;>
          exact den.eq_5 _ _ _ _ (by simp [transposeWrapper]) (by simp [transposeWrapper])
            (by simp [transposeWrapper])
      rw [this]
    · have hcc : c = .moveAxis ∨ c = .dense := by
        cases c <;> simp_all [isWrappedLeaf, isSymmetricLeaf]
      rcases hcc with hcc | hcc
      · subst hcc
        simp only [transposeOp, isSymmetricLeaf, Bool.false_eq_true, if_false, Except.ok.injEq] at h
        subst h
        rw [den, denT]
        simp only [leafDen, leafDenT, squareLeaf, Bool.false_eq_true, if_false, List.getD_cons_zero,
          List.getD_cons_succ]
      · subst hcc
        have hsh := hc rfl
        rw [transposeOp_dense] at h
        cases hd : dualParams p with
        | error e => rw [hd] at h; cases h
        | ok p' =>
          rw [hd] at h
          cases h
          have hp' : p' = { p with inS := p.outS, outS := p.inS, str := p'.str } := by
            unfold dualParams at hd
            split at hd
            · cases hd; rfl
            · cases hd
          have hsh' : denseShared p' = true := by rw [hp']; exact hsh
          rw [den, denT]
          simp only [leafDen, leafDenT, squareLeaf, Bool.false_eq_true, if_false, hsh, hsh', if_true]
          unfold denseLeafT
          rw [hd, hp']

theorem tAt_wrap (E : Env) (u : Nat) (k : WrapCls) (o t : Op) (hd : k = .diagInv → ∃ u p, o = .leaf u .diagonal p)
    (h : transposeOp (.wrap u k o) = .ok t) : TAt E (.wrap u k o) t := by
  intro y _
  cases k <;> simp only [transposeOp, Except.ok.injEq] at h <;> subst h
  · exact (congrFun (denT.eq_5 _ _ _ _ (by simp) (by simp) (by simp)) y).symm
  · exact congrFun (den.eq_5 _ _ _ _ (by simp) (by simp) (by simp)) y
  · exact (congrFun (denT.eq_5 _ _ _ _ (by simp) (by simp) (by simp)) y).symm
  · exact (congrFun (denT.eq_5 _ _ _ _ (by simp) (by simp) (by simp)) y).symm
  · obtain ⟨u', p, rfl⟩ := hd rfl
    rw [den, denT]
  · exact (congrFun (denT.eq_5 _ _ _ _ (by simp) (by simp) (by simp)) y).symm

/-- `o` and `t` are related by `transposeOp`: `t` denotes `denT E o` and has the structures of `o`, swapped -/
def TRel (E : Env) (o t : Op) : Prop := TAt E o t ∧ Op.inS t = Op.outS o ∧ Op.outS t = Op.inS o

theorem app_reverse_eq (E : Env) (ops ts : List Op) (hrel : List.Forall₂ (TRel E) ops ts)
    (hok : ∀ o ∈ ops, StructOK o) (hc : Chain ops) (y : V) (hy : y.length = (outSHead ops).size) :
    app E ts.reverse y = appT E ops y := by
  induction hrel generalizing y with
  | nil => rfl
  | @cons o t os ts' hr hrest ih =>
    rw [List.reverse_cons, app_append, appT]
    have e : app E [t] y = denT E o y := by
      rw [app, app]; exact hr.1 y hy
    rw [e]
    cases hrest with
    | nil => rfl
    | @cons o' t' os' ts'' hr' hrest' =>
      refine ih (fun o'' ho'' => hok o'' (by simp [ho''])) hc.2 _ ?_
      rw [denT_length E o (hok o (by simp)), inSize, hc.1]
      rfl

theorem sumApp_tEq (E : Env) (ops ts : List Op) (hrel : List.Forall₂ (TRel E) ops ts) (y : V)
    (hy : ∀ o ∈ ops, y.length = outSize o) : sumApp E ts y = sumAppT E ops y := by
  induction hrel with
  | nil => rfl
  | @cons o t os ts' hr _ ih =>
    rw [sumApp, sumAppT, hr.1 y (hy o (by simp)), ih (fun o' ho' => hy o' (by simp [ho']))]

/-- the transpose of a block row: the block column of the transposes -/
theorem colApp_tEq (E : Env) (ops ts : List Op) (hrel : List.Forall₂ (TRel E) ops ts) (y : V)
    (hy : ∀ o ∈ ops, y.length = outSize o) : colApp E ts y = colAppT E ops y := by
  induction hrel with
  | nil => rfl
  | @cons o t os ts' hr _ ih =>
    have hio : outSize t = inSize o := by unfold outSize inSize; rw [hr.2.2]
    rw [colApp, colAppT, hr.1 y (hy o (by simp)), ih (fun o' ho' => hy o' (by simp [ho'])), hio]

/-- the transpose of a block column: the block row of the transposes -/
theorem rowApp_tEq (E : Env) (ops ts : List Op) (hrel : List.Forall₂ (TRel E) ops ts) (y : V) :
    rowApp E ts y = rowAppT E ops y := by
  induction hrel generalizing y with
  | nil => rfl
  | @cons o t os ts' hr _ ih =>
    have hio : inSize t = outSize o := by unfold outSize inSize; rw [hr.2.1]
    rw [rowApp, rowAppT, hio, hr.1 _ (headChunk_length _ _), ih]

theorem diagApp_tEq (E : Env) (ops ts : List Op) (hrel : List.Forall₂ (TRel E) ops ts) (y : V) :
    diagApp E ts y = diagAppT E ops y := by
  induction hrel generalizing y with
  | nil => rfl
  | @cons o t os ts' hr _ ih =>
    have hio : inSize t = outSize o := by unfold outSize inSize; rw [hr.2.1]
    have hoi : outSize t = inSize o := by unfold outSize inSize; rw [hr.2.2]
    rw [diagApp, diagAppT, hio, hoi, hr.1 _ (headChunk_length _ _), ih]

mutual
theorem tAt (E : Env) : ∀ (o t : Op), EnvSymOn E o → StructOK o → TFormOK o → o.WFT →
    transposeOp o = .ok t → TAt E o t
  | .leaf u c p, t, hS, _, hf, _, h => by
      have hc : c = .dense → denseShared p = true := by simpa only [TFormOK] using hf
      have hS' : c = .toeplitz → toepK p.vals = none → LeafSymAt E u p := by simpa only [EnvSymOn, AllLeaves] using hS
      exact tAt_leaf E u c p hS' t hc h
  | .wrap u k o, t, _, _, hf, _, h => by
      have hd : k = .diagInv → ∃ u p, o = .leaf u .diagonal p := by simpa only [TFormOK] using hf
      exact tAt_wrap E u k o t hd h
  | .comp u ops, t, hS, hok, hf, hw, h => by
      obtain ⟨ts, hts, rfl⟩ := transposeOp_comp_ok h
      obtain ⟨_, hoks, hch⟩ := (StructOK_comp_iff u ops).mp hok
      have hf' : TFormOKList ops := by simpa only [TFormOK] using hf
      have hw' : WFTList ops := by simpa only [Op.WFT] using hw
      have hS' : AllLeavesList (fun u c p => c = .toeplitz → toepK p.vals = none → LeafSymAt E u p) ops := by
        simpa only [EnvSymOn, AllLeaves] using hS
      intro y hy
      rw [den, denT]
      exact app_reverse_eq E ops ts (tAtList E ops ts hS' hoks hf' hw' hts) hoks hch y hy
  | .cont u k td ops, t, hS, hok, hf, hw, h => by
      obtain ⟨ts, hts, rfl⟩ := transposeOp_cont_ok h
      obtain ⟨_, hoks, hc⟩ := (StructOK_cont_iff u k td ops).mp hok
      have hf' : TFormOKList ops := by simpa only [TFormOK] using hf
      have hw' : WFTList ops := by simpa only [Op.WFT] using hw
      have hS' : AllLeavesList (fun u c p => c = .toeplitz → toepK p.vals = none → LeafSymAt E u p) ops := by
        simpa only [EnvSymOn, AllLeaves] using hS
      have hrel := tAtList E ops ts hS' hoks hf' hw' hts
      intro y hy
      obtain ⟨_, hc⟩ := hc
      cases k with
      | add =>
        simp only at hc
        rw [ContCls.dual, den, denT]
        refine sumApp_tEq E ops ts hrel y (fun o ho => ?_)
        rw [hy, outSize, outSize, Op.outS, (hc o ho).2]
      | blockRow =>
        simp only at hc
        rw [ContCls.dual, den, denT]
        refine colApp_tEq E ops ts hrel y (fun o ho => ?_)
        rw [hy, outSize, outSize, Op.outS, hc o ho]
      | blockDiag =>
        rw [ContCls.dual, den, denT]
        exact diagApp_tEq E ops ts hrel y
      | blockCol =>
        rw [ContCls.dual, den, denT]
        exact rowApp_tEq E ops ts hrel y
theorem tAtList (E : Env) : ∀ (ops ts : List Op),
    AllLeavesList (fun u c p => c = .toeplitz → toepK p.vals = none → LeafSymAt E u p) ops → (∀ o ∈ ops, StructOK o) →
    TFormOKList ops → WFTList ops → transposeList ops = .ok ts → List.Forall₂ (TRel E) ops ts
  | [], ts, _, _, _, _, h => by rw [transposeList_nil_ok h]; exact .nil
  | o :: os, ts, hS, hok, hf, hw, h => by
      obtain ⟨t, ts', ht, hts, rfl⟩ := transposeList_cons_ok h
      have hf' : TFormOK o ∧ TFormOKList os := by simpa only [TFormOKList] using hf
      have hS' : EnvSymOn E o ∧ AllLeavesList (fun u c p => c = .toeplitz → toepK p.vals = none → LeafSymAt E u p) os := by
        simpa only [AllLeavesList, EnvSymOn] using hS
      exact .cons ⟨tAt E o t hS'.1 (hok o (by simp)) hf'.1 hw.1 ht, transpose_structure o t hw.1 ht⟩
        (tAtList E os ts' hS'.2 (fun o' ho' => hok o' (by simp [ho'])) hf'.2 hw.2 hts)
end

/-- `Valid`, every dense leaf has a shared block array, and `DiagonalInverseOperator` around `DiagonalOperator` leaves
only -/
def ValidT (o : Op) : Prop := Valid o ∧ TFormOK o

/-- **the FORM `op.T` that the model computes (`transposeOp`, the one the correspondence check compares with the
real furax) denotes `denT`**: every case of `transposeOp` — symmetric leaves returning themselves, the new
move-axis leaf with swapped axes and structures, the dedicated and generic transpose wrappers, lazy inverses,
`DiagonalInverseOperator`, reversed compositions of the transposes, sums, block row ↔ column, block diagonal.
Only structural well-formedness is used (no leaf validity); the dense leaves with one block array per leaf are
EXCLUDED (`TFormOK`), those with a shared block array are covered (the new leaf is interpreted by the kernel). -/
theorem transposeOp_den_structOK (E : Env) (o t : Op) (hS : EnvSymOn E o) (hok : StructOK o) (hf : TFormOK o)
    (hw : o.WFT) (h : transposeOp o = .ok t) : ∀ y : V, y.length = outSize o → den E t y = denT E o y :=
  tAt E o t hS hok hf hw h

/-- the same for valid expressions, under the per-expression hypothesis on the Toeplitz leaves -/
theorem transposeOp_den_on (E : Env) : ∀ o t, EnvSymOn E o → ValidT o → o.WFT → transposeOp o = .ok t →
    ∀ y : V, y.length = outSize o → den E t y = denT E o y :=
  fun o t hS hv hw h => tAt E o t hS hv.1.structOK hv.2 hw h

/-- the same under the expression-independent assumption `EnvAdj E` -/
theorem transposeOp_den (E : Env) (hE : EnvAdj E) : ∀ o t, ValidT o → o.WFT → transposeOp o = .ok t →
    ∀ y : V, y.length = outSize o → den E t y = denT E o y :=
  fun o t hv hw h => tAt E o t (hE.symOn o) hv.1.structOK hv.2 hw h

/-- **C03, closed: `op.T` is the exact adjoint of `op`** in the list denotation — for every valid expression
whose dense leaves have a shared block array, `⟨op x, y⟩ = ⟨x, op.T y⟩` for all `x` of the input size and `y` of the output size, where
`op.T` is the form `transposeOp` computes; the assumptions on the environment concern the uninterpreted leaves of
`o` only -/
theorem transpose_is_adjoint_closed_on (E : Env) (o t : Op) (hE : EnvAdjOn E o) (hS : EnvSymOn E o)
    (hv : ValidT o) (hw : o.WFT) (h : transposeOp o = .ok t) :
    ∀ x y : V, x.length = inSize o → y.length = outSize o → dot (den E o x) y = dot x (den E t y) := by
  intro x y hx hy
  rw [transposeOp_den_on E o t hS hv hw h y hy]
  exact den_adjoint_on E o hE hv.1 x y hx hy

/-- **C03, closed, NO assumption on the environment**: for every valid expression whose leaves are all interpreted
(no dense / observation-matrix / opaque leaf, no Toeplitz leaf with a rank-0 band array) `op.T` is the exact
adjoint of `op`, whatever the environment -/
theorem transpose_is_adjoint_closed_noEnv (E : Env) (o t : Op)
    (hI : AllLeaves (fun _ c p => isEnvLeaf c p = false) o) (hv : ValidT o) (hw : o.WFT)
    (h : transposeOp o = .ok t) : ∀ x y : V, x.length = inSize o → y.length = outSize o →
    dot (den E o x) y = dot x (den E t y) :=
  transpose_is_adjoint_closed_on E o t (envAdjOn_of_noEnvLeaf E o hI) (envSymOn_of_noEnvLeaf E o hI) hv hw h

/-- the same under the expression-independent assumption `EnvAdj E` -/
theorem transpose_is_adjoint_closed (E : Env) (hE : EnvAdj E) (o t : Op) (hv : ValidT o) (hw : o.WFT)
    (h : transposeOp o = .ok t) : ∀ x y : V, x.length = inSize o → y.length = outSize o →
    dot (den E o x) y = dot x (den E t y) :=
  transpose_is_adjoint_closed_on E o t (hE.adjOn o) (hE.symOn o) hv hw h

/-! ### 7. non-vacuity -/

/-- the identity environment satisfies `EnvAdj` (so does any environment of finitely supported matrices and their
transposes) -/
def idEnv : Env := ⟨fun _ x => x, fun _ x => x, fun _ _ _ => rfl, fun _ _ _ => rfl⟩

theorem idEnv_adj : EnvAdj idEnv := by
  refine ⟨fun u c p hc x y hx hy => ?_, fun u p hK y _ => ?_⟩
  · cases c <;> simp only [isEnvLeaf, Bool.false_eq_true] at hc
    · have hs : denseShared p = false := by simpa using hc
      simp only [Op.outS, squareLeaf, Bool.false_eq_true, if_false] at hy
      simp only [leafDen, leafDenT, idEnv, squareLeaf, Bool.false_eq_true, if_false, fit_eq_self hx, fit_eq_self hy,
        hs]
      rw [dot_fit_left _ _ _ (le_of_eq hy), dot_fit_right _ _ _ (le_of_eq hx)]
    · have hK : toepK p.vals = none := Option.isNone_iff_eq_none.mp hc
      simp only [Op.outS, squareLeaf, if_true] at hy
      simp only [leafDen, leafDenT, idEnv, squareLeaf, if_true, hK, fit_eq_self hx, fit_eq_self hy]
    · simp only [Op.outS, squareLeaf, if_true] at hy
      simp only [leafDen, leafDenT, idEnv, squareLeaf, if_true, fit_eq_self hx, fit_eq_self hy]
    · simp only [Op.outS, squareLeaf, Bool.false_eq_true, if_false] at hy
      simp only [leafDen, leafDenT, idEnv, squareLeaf, Bool.false_eq_true, if_false, fit_eq_self hx, fit_eq_self hy]
      rw [dot_fit_left _ _ _ (le_of_eq hy), dot_fit_right _ _ _ (le_of_eq hx)]
  · simp only [leafDen, leafDenT, idEnv, squareLeaf, if_true, hK]

section MatEnv
open Matrix

theorem dot_ofFn_left : ∀ (m : Nat) (v : Fin m → ℝ) (y : V), dot (List.ofFn v) y = v ⬝ᵥ toFn m y
  | 0, v, y => by simp [dotProduct]
  | m + 1, v, [] => by simp [dotProduct, toFn]
  | m + 1, v, b :: y => by
    rw [List.ofFn_succ, dot_cons, dot_ofFn_left m (fun i => v i.succ) y]
    simp [dotProduct, Fin.sum_univ_succ, toFn]

/-- an environment of matrices: the operator with identity `u` multiplies by `W u` (an `m × n` operator is an
`N × N` matrix padded with zeros), its transpose by `(W u)ᵀ` -/
noncomputable def matEnv (N : Nat) (W : Nat → Matrix (Fin N) (Fin N) ℝ) : Env where
  f u x := List.ofFn (W u *ᵥ toFn N x)
  fT u y := List.ofFn ((W u)ᵀ *ᵥ toFn N y)
  hom u a x := by
    rw [toFn_smul, Matrix.mulVec_smul, List.map_ofFn]
    rfl
  homT u a x := by
    rw [toFn_smul, Matrix.mulVec_smul, List.map_ofFn]
    rfl

theorem mat_adjoint (N : Nat) (M : Matrix (Fin N) (Fin N) ℝ) (S T : Nat) (x y : V) (hx : x.length = S)
    (hy : y.length = T) :
    dot (fit T (List.ofFn (M *ᵥ toFn N (fit S x)))) y = dot x (fit S (List.ofFn (Mᵀ *ᵥ toFn N (fit T y)))) := by
  rw [fit_eq_self hx, fit_eq_self hy, dot_fit_left _ _ _ (le_of_eq hy), dot_fit_right _ _ _ (le_of_eq hx),
    dot_ofFn_left, dot_comm, dot_ofFn_left, dotProduct_comm, Matrix.dotProduct_mulVec, Matrix.mulVec_transpose]

/-- **`EnvAdj.adj` holds for EVERY family of matrices** (symmetric or not) -/
theorem matEnv_adj (N : Nat) (W : Nat → Matrix (Fin N) (Fin N) ℝ) (u : Nat) (c : LeafCls) (p : Params)
    (hc : isEnvLeaf c p = true) : LeafAdjAt (matEnv N W) u c p := by
  intro x y hx hy
  cases c <;> simp only [isEnvLeaf, Bool.false_eq_true] at hc
  · have hs : denseShared p = false := by simpa using hc
    simp only [Op.outS, squareLeaf, Bool.false_eq_true, if_false] at hy
    simp only [leafDen, leafDenT, matEnv, squareLeaf, Bool.false_eq_true, if_false, hs]
    exact mat_adjoint N (W u) _ _ x y hx hy
  · have hK : toepK p.vals = none := Option.isNone_iff_eq_none.mp hc
    simp only [Op.outS, squareLeaf, if_true] at hy
    simp only [leafDen, leafDenT, matEnv, squareLeaf, if_true, hK]
    exact mat_adjoint N (W u) _ _ x y hx hy
  · simp only [Op.outS, squareLeaf, if_true] at hy
    simp only [leafDen, leafDenT, matEnv, squareLeaf, if_true]
    exact mat_adjoint N (W u) _ _ x y hx hy
  · simp only [Op.outS, squareLeaf, Bool.false_eq_true, if_false] at hy
    simp only [leafDen, leafDenT, matEnv, squareLeaf, Bool.false_eq_true, if_false]
    exact mat_adjoint N (W u) _ _ x y hx hy

/-- a Toeplitz leaf interpreted by a symmetric matrix (rank-0 band array), or by the kernel (band array `bs ++ [K]`),
satisfies `LeafSymAt` -/
theorem matEnv_sym (N : Nat) (W : Nat → Matrix (Fin N) (Fin N) ℝ) (u : Nat) (h : (W u)ᵀ = W u) (p : Params) :
    LeafSymAt (matEnv N W) u p := by
  by_cases hK : toepK p.vals = none
  · intro y _
    simp only [leafDen, leafDenT, matEnv, squareLeaf, if_true, h, hK]
  · exact toeplitz_leaf_sym _ u p hK

/-- hence the per-expression hypotheses hold for every expression whose Toeplitz leaves carry symmetric
matrices, whatever the other (dense, observation, opaque) leaves carry -/
theorem matEnv_adjOn (N : Nat) (W : Nat → Matrix (Fin N) (Fin N) ℝ) (o : Op) : EnvAdjOn (matEnv N W) o :=
  allLeaves_of_forall _ (matEnv_adj N W) o

end MatEnv

namespace AdjExamples
open Examples

/-- a diagonal with a ZERO entry (singular) on vectors of length 3 -/
def diagP : Params := { inS := idxP.inS, outS := idxP.inS, vals := ⟨[3], [2, 0, 5]⟩, ints := [[0]] }

theorem diagP_ok : diagonalOK diagP := by
  intro l hl c
  simp only [diagP, idxP, List.mem_singleton] at hl
  subst hl
  obtain ⟨y, hy, hys, _⟩ := Diagonal.apply_vector true 3 ((castT diagP.vals).data) (⟨[3], c⟩ : Tensor ℝ) 0
    (by simp) rfl
  exact ⟨y, hy, hys⟩

/-- `BlockColumn([Index ∘ Diagonal, InverseOperator(Diagonal)])` from vectors of length 3 to vectors of length
2 + 3, the diagonal being singular: an index operator (with a repeated index) composed with a diagonal, and a lazy
inverse of a NON-invertible operand, inside a block column -/
def exOp : Op :=
  .cont 2 .blockCol td2 [.comp 1 [.leaf 4 .index idxP, .leaf 5 .diagonal diagP],
    .wrap 7 .inverse (.leaf 5 .diagonal diagP)]

/-- its transpose, as `transposeOp` computes it: a block row -/
def exOpT : Op :=
  .cont 0 .blockRow td2 [.comp 0 [.leaf 5 .diagonal diagP, .wrap 0 .transpose (.leaf 4 .index idxP)],
    .wrap 0 .transpose (.wrap 7 .inverse (.leaf 5 .diagonal diagP))]

theorem exOp_valid : Valid exOp := by
  have hi : adjLeafOK .index idxP := ⟨idxP_ok, by simp⟩
  have hd : adjLeafOK .diagonal diagP := ⟨diagP_ok, by simp⟩
  simp only [Valid, exOp, WTExpr, WTList, Chain, ContOK, WrapOK, WrapCls.isLazy]
  refine ⟨by simp, ⟨⟨by simp, ⟨hi, hd, trivial⟩, rfl, trivial⟩, ⟨hd, ?_⟩, trivial⟩, by decide, ?_⟩
  · exact ⟨fun _ => ⟨rfl, trivial⟩, by simp, by simp, by simp⟩
  · intro o ho
    simp only [List.mem_cons, List.not_mem_nil, or_false] at ho
    rcases ho with rfl | rfl <;> rfl

theorem exOp_validT : ValidT exOp :=
  ⟨exOp_valid, by simp [exOp, TFormOK, TFormOKList]⟩

theorem exOp_wft : exOp.WFT := by
  simp [exOp, Op.WFT, Op.WFTList, isSymmetricLeaf, diagP]

theorem exOp_T : transposeOp exOp = .ok exOpT := by
  simp [exOp, exOpT, transposeOp, transposeList, isSymmetricLeaf]

/-- the closed theorem on the example: `⟨exOp x, y⟩ = ⟨x, exOp.T y⟩` for `x ∈ ℝ³`, `y ∈ ℝ⁵`, whatever the
environment (the expression has no uninterpreted leaf, but `EnvAdj` is part of the statement) -/
example (E : Env) (hE : EnvAdj E) (x y : V) (hx : x.length = 3) (hy : y.length = 5) :
    dot (den E exOp x) y = dot x (den E exOpT y) :=
  transpose_is_adjoint_closed E hE exOp exOpT exOp_validT exOp_wft exOp_T x y hx hy

example (x y : V) (hx : x.length = 3) (hy : y.length = 5) :
    dot (den idEnv exOp x) y = dot x (den idEnv exOpT y) :=
  transpose_is_adjoint_closed idEnv idEnv_adj exOp exOpT exOp_validT exOp_wft exOp_T x y hx hy

end AdjExamples

/-! ### 8. the list denotation inhabits the abstract framework `AdjCore` (FuraxProofs/Lemmas/TransposeAdjoint.lean) -/

/-- the list denotation with the Euclidean pairing is an `AdjCore` -/
noncomputable def listAdjCore (E : Env) : AdjCore V ℝ where
  den := den E
  mem := mem
  honest := fun o x ho hx => Laws.honest E o ho x hx
  add := vadd
  zero := []
  comp_law := fun u ops x => Laws.comp_law_sem E _ rfl u ops x
  add_law := Laws.add_law E
  dot := dot
  dot_add_left := dot_vadd_left
  dot_zero_left := dot_nil_left
  dot_add_right := dot_vadd_right
  dot_zero_right := dot_nil_right

/-- the closed theorem in the vocabulary of the framework: `op.T` is the adjoint of `op` (`AdjCore.IsAdjointOn`)
for every valid expression whose dense leaves have a shared block array — including block containers and lazy inverses, which the
abstract induction `AdjCore.transpose_adjoint` (fragment `Frag`) does not reach -/
theorem listAdjCore_isAdjointOn (E : Env) (hE : EnvAdj E) (o t : Op) (hv : ValidT o) (hw : o.WFT)
    (h : transposeOp o = .ok t) : (listAdjCore E).IsAdjointOn o t :=
  fun x y hx hy => transpose_is_adjoint_closed E hE o t hv hw h x y hx hy

/-! ### 9. the hypothesis on `DiagonalInverseOperator` in `TFormOK` is necessary -/

namespace DiagInvCounterexample

def s3 : Struct := ⟨[.leaf], [⟨[3], .f64⟩]⟩
def cycP : Params := { inS := s3, outS := s3, idx := [.iarr [3] [1, 2, 0]], flag := true }
def cyc : Op := .leaf 1 .index cycP
def dcyc : Op := .wrap 2 .diagInv cyc

theorem hpos : Index.indexPositions [3] [.iarr [3] [1, 2, 0]] = .ok ([3], [1, 2, 0]) := by decide

theorem den_cyc (E : Env) (a b c : ℝ) : den E cyc [a, b, c] = [b, c, a] := by
  rw [cyc, den]
  simp [leafDen, cycP, s3, squareLeaf, perLeaf, chunks, headChunk, fit, List.takeD, gatherLeaf, hpos, Index.gather,
    Struct.size, LeafS.size, prodNat]

theorem denT_cyc (E : Env) (a b c : ℝ) : denT E cyc [a, b, c] = [c, a, b] := by
  rw [cyc, denT]
  simp [leafDenT, cycP, s3, squareLeaf, perLeaf, chunks, headChunk, fit, List.takeD, scatterLeaf, hpos,
    Index.scatterAdd, Struct.size, LeafS.size, prodNat, List.range_succ]

theorem len3 {x : V} (hx : x.length = 3) : ∃ a b c, x = [a, b, c] := by
  match x, hx with
  | [a, b, c], _ => exact ⟨a, b, c, rfl⟩

theorem inv1 (E : Env) : IsInvOn 3 (den E cyc) (denT E cyc) := by
  refine ⟨fun x hx => ?_, fun a x _ => (homLaw E (leafHom E)).2 cyc a x⟩
  obtain ⟨a, b, c, rfl⟩ := len3 hx
  rw [denT_cyc, den_cyc, den_cyc, denT_cyc]
  exact ⟨rfl, rfl, rfl⟩

theorem inv2 (E : Env) : IsInvOn 3 (denT E cyc) (den E cyc) := by
  refine ⟨fun x hx => ?_, fun a x _ => (homLaw E (leafHom E)).1 cyc a x⟩
  obtain ⟨a, b, c, rfl⟩ := len3 hx
  rw [den_cyc, denT_cyc, denT_cyc, den_cyc]
  exact ⟨rfl, rfl, rfl⟩

theorem cyc_not_diag : ∀ (u' : ℕ) (p : Params), cyc = leaf u' LeafCls.diagonal p → False := by
  intro u' p h
  simp [cyc] at h

/-- **`DiagonalInverseOperator.transpose` returns `self`; this is NOT the adjoint when the operand is not
self-adjoint**: around the cyclic shift of ℝ³ (an index operator: structurally well formed, square,
invertible) the form `op.T = op` denotes the inverse shift while the adjoint `denT` is the shift itself.  Hence
the hypothesis of `TFormOK` on `DiagonalInverseOperator` (its constructor only receives `DiagonalOperator`s). -/
theorem diagInv_self_not_adjoint (E : Env) :
    StructOK dcyc ∧ dcyc.WFT ∧ transposeOp dcyc = .ok dcyc ∧
      den E dcyc [1, 0, 0] = [0, 1, 0] ∧ denT E dcyc [1, 0, 0] = [0, 0, 1] := by
  refine ⟨?_, trivial, rfl, ?_, ?_⟩
  · simp [dcyc, cyc, StructOK, WTExpr, WrapOK, WrapCls.isLazy, Op.inS, Op.outS, squareLeaf, cycP]
  · rw [dcyc, den.eq_4 _ _ _ cyc_not_diag]
    have h3 : inSize cyc = 3 := by decide
    rw [h3, chooseInv_eq 3 _ _ (inv1 E) _ rfl, denT_cyc]
  · rw [dcyc, denT.eq_4 _ _ _ cyc_not_diag]
    have h3 : inSize cyc = 3 := by decide
    rw [h3, chooseInv_eq 3 _ _ (inv2 E) _ rfl, den_cyc]

/-- so the statement of `transposeOp_den` fails for it -/
theorem diagInv_not_TAt (E : Env) : ¬ TAt E dcyc dcyc := by
  intro h
  obtain ⟨_, _, _, h1, h2⟩ := diagInv_self_not_adjoint E
  have := h [1, 0, 0] (by decide)
  rw [h1, h2] at this
  simp at this

end DiagInvCounterexample

#print axioms leaf_adjoint
#print axioms toepLeaf_adjoint
#print axioms toeplitz_leaf_adjoint
#print axioms toeplitz_leaf_sym
#print axioms transpose_is_adjoint_closed_noEnv
#print axioms DiagInvCounterexample.diagInv_not_TAt
#print axioms chooseInv_adjoint
#print axioms den_adjoint_on
#print axioms den_adjoint
#print axioms transposeOp_den
#print axioms transposeOp_den_structOK
#print axioms transpose_is_adjoint_closed_on
#print axioms transpose_is_adjoint_closed
#print axioms matEnv_adj
#print axioms listAdjCore_isAdjointOn
#print axioms idEnv_adj
#print axioms AdjExamples.exOp_valid

end ListSem
end Furax
