/-
Helper lemmas of FuraxProofs/Props/C13Closed.lean: leaf `k` of a flat vector (`leafChunk`), leaf `k` of the result of a
leaf-wise map between two DIFFERENT structures (`perLeaf_leafChunk`), the pair of leaves `k` of two related leaf lists
(`forall₂_getD`), and the validity of the input multi-index `transpose` reads (`transposeIdx_valid`).
-/
import FuraxProofs.Sem.InverseList
import FuraxProofs.Sem.BlockMatrixList
import FuraxProofs.Sem.AcquisitionList
namespace Furax
namespace ListSem
open Furax.Axes

/-- leaf `k` of a flat vector on the leaves `ls` -/
def leafChunk (ls : List LeafS) (k : Nat) (x : V) : V :=
  headChunk (ls.getD k default).size (x.drop (offset (ls.map LeafS.size) k))

theorem leafChunk_length (ls : List LeafS) (k : Nat) (x : V) :
    (leafChunk ls k x).length = (ls.getD k default).size := headChunk_length _ _

/-- entry `q` of leaf `k` sits at `offset + q` -/
theorem leafChunk_getD (ls : List LeafS) (k : Nat) (x : V) (q : Nat) (hq : q < (ls.getD k default).size) :
    (leafChunk ls k x).getD q 0 = x.getD (offset (ls.map LeafS.size) k + q) 0 := by
  unfold leafChunk
  rw [Acq.headChunk_getD _ _ _ hq, Acq.drop_getD]

theorem leafChunk_zero (l : LeafS) (ls : List LeafS) (x : V) : leafChunk (l :: ls) 0 x = headChunk l.size x := by
  simp [leafChunk]

theorem leafChunk_succ (l : LeafS) (ls : List LeafS) (k : Nat) (x : V) :
    leafChunk (l :: ls) (k + 1) x = leafChunk ls k (x.drop l.size) := by
  simp only [leafChunk, List.getD_cons_succ, List.map_cons, offset_cons_succ, List.drop_drop]

/-- **leaf `k` of the result of a leaf-wise map** is the kernel applied to leaf `k` of the input (the input and output
leaf lists may have different sizes, leaf by leaf) -/
theorem perLeaf_leafChunk (f : LeafS → LeafS → V → V) (ins outs : List LeafS) (hl : ins.length = outs.length)
    (x : V) (k : Nat) (hk : k < outs.length) :
    leafChunk outs k (perLeaf f ins outs x)
      = fit (outs.getD k default).size (f (ins.getD k default) (outs.getD k default) (leafChunk ins k x)) := by
  induction ins generalizing outs x k with
  | nil => cases outs with
    | nil => simp at hk
    | cons _ _ => simp at hl
  | cons li ins ih =>
    cases outs with
    | nil => simp at hk
    | cons lo outs =>
      rw [perLeaf_cons]
      cases k with
      | zero =>
        rw [leafChunk_zero, leafChunk_zero, headChunk_append _ (fit_length _ _)]
        rfl
      | succ k =>
        rw [leafChunk_succ, leafChunk_succ, List.drop_left' (fit_length _ _),
          ih outs (by simpa using hl) _ k (by simpa using hk)]
        rfl

theorem forall₂_getD {α β : Type} [Inhabited α] [Inhabited β] {R : α → β → Prop} {a : List α} {b : List β}
    (h : List.Forall₂ R a b) (k : Nat) (hk : k < a.length) : R (a.getD k default) (b.getD k default) := by
  induction h generalizing k with
  | nil => simp at hk
  | cons hr _ ih =>
    cases k with
    | zero => simpa using hr
    | succ k => simpa using ih k (by simpa using hk)

/-- equal sizes leaf by leaf: equal offsets -/
theorem offset_eq_of_forall₂ (R : LeafS → LeafS → Prop) (ins outs : List LeafS) (h : List.Forall₂ R ins outs)
    (hR : ∀ li lo, R li lo → lo.size = li.size) (k : Nat) :
    offset (outs.map LeafS.size) k = offset (ins.map LeafS.size) k := by
  induction h generalizing k with
  | nil => rfl
  | cons hr _ ih =>
    cases k with
    | zero => rfl
    | succ k => simp only [List.map_cons, offset_cons_succ, hR _ _ hr, ih k]

/-- the multi-index `transpose(a, order)` reads in `a` for the output multi-index `j`: `i[ax] = j[order.idxOf ax]` -/
def transposeIdx (n : Nat) (order j : List Nat) : List Nat :=
  (List.range n).map fun ax => j.getD (order.idxOf ax) 0

/-- it is a valid multi-index of `a`, and `i[order[m]] = j[m]` -/
theorem transposeIdx_valid (shape order j : List Nat) (hperm : order.Perm (List.range shape.length))
    (hj : List.Forall₂ (· < ·) j (transposeShape shape order)) :
    List.Forall₂ (· < ·) (transposeIdx shape.length order j) shape ∧
    ∀ m, m < shape.length → (transposeIdx shape.length order j).getD (order.getD m 0) 0 = j.getD m 0 := by
  have hol : order.length = shape.length := by simpa using hperm.length_eq
  have hnd : order.Nodup := hperm.nodup_iff.mpr List.nodup_range
  rw [Diagonal.forall2_lt_iff] at hj ⊢
  obtain ⟨w1, w2⟩ := hj
  rw [ma_transposeShape_length] at w1 w2
  constructor
  · refine ⟨by simp [transposeIdx], fun ax hax => ?_⟩
    unfold transposeIdx
    rw [List.getD_eq_getElem _ _ (by simpa using hax)]
    simp only [List.getElem_map, List.getElem_range]
    have hmem : ax ∈ order := hperm.mem_iff.mpr (List.mem_range.mpr hax)
    have hidx : order.idxOf ax < order.length := List.idxOf_lt_length_iff.mpr hmem
    have := w2 (order.idxOf ax) hidx
    rw [ma_transposeShape_getD _ _ _ hidx, List.getD_eq_getElem order 0 hidx, List.getElem_idxOf hidx] at this
    exact this
  · intro m hm
    have hm' : m < order.length := by omega
    have hlt : order.getD m 0 < shape.length := by
      rw [List.getD_eq_getElem _ _ hm']
      exact List.mem_range.mp (hperm.mem_iff.mp (List.getElem_mem _))
    unfold transposeIdx
    rw [List.getD_eq_getElem _ _ (by simpa using hlt)]
    simp only [List.getElem_map, List.getElem_range]
    rw [List.getD_eq_getElem order 0 hm', hnd.idxOf_getElem m hm']

end ListSem
end Furax
