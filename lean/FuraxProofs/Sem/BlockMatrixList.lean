/-
Block operators act as the block matrices of their blocks, closed, in the list denotation (property C10).

0.  vectors: `getD_fit`, `getD_drop`, unit vectors against `headChunk` / `drop` (`headChunk_unitVec`,
    `drop_unitVec_ge`, `drop_unitVec_lt`), maps that send zero vectors to zero (`ZeroPres`, from homogeneity).
1.  the explicit block matrices, on `Blocks := List (Nat × Nat × (Nat → Nat → ℝ))` (rows, columns, entries):
    `blockDiagEntry`, `blockRowEntry`, `blockColEntry`; offsets (`offset` = partial sums) and bands (`InBand`), and
    the band forms `blockDiagEntry_band`, `blockDiagEntry_off`, `blockRowEntry_band`, `blockColEntry_band`;
    transposition `transposeBlocks`.
2.  the three list recursions `diagApp` / `rowApp` / `colApp` and their transposes `diagAppT` / `rowAppT` /
    `colAppT` are instances of three generic recursions `gDiag` / `gRow` / `gCol` on lists of blocks
    `(rows, cols, map)`; the entries of these on unit vectors are computed once (`gDiag_entry`, `gRow_entry`,
    `gCol_entry`).
3.  `asMatrix` of a block diagonal / block row / block column (`asMatrix_blockDiag`, `asMatrix_blockRow`,
    `asMatrix_blockCol`, and the band forms `…_band`, `…_off` with `asMatrix` of the block on the right-hand side);
    the action `den … (ofFn v) = ofFn (block matrix *ᵥ v)` (`den_blockDiag_eq_mulVec` …).
4.  transposes: the matrix of `denT` (= of `TransposeOperator(·)`) of a block row is the block column of the
    matrices of the transposed blocks, and conversely; block diagonal ↔ block diagonal; the forms `transposeOp`
    computes; the matrix of the transpose is the transpose of the matrix, derived blockwise.
4'. the same through Mathlib: `asMatrix_blockDiag_eq_blockDiagonal'` (`Matrix.blockDiagonal'` reindexed by
    `finSigmaFinEquiv`), `asMatrix_blockRow_sigma`, `asMatrix_blockCol_sigma`.
5.  a concrete example (two blocks, `2 × 3` and `3 × 3`, in a `dict` container).
-/
import FuraxProofs.Sem.LinearList
namespace Furax
namespace ListSem
open Op

/-! ### 0. vectors -/

theorem getD_fit : ∀ (n : Nat) (x : V) (i : Nat), (fit n x).getD i 0 = if i < n then x.getD i 0 else 0
  | 0, _, _ => by simp [fit_zero]
  | n + 1, [], 0 => by simp [fit_succ_nil]
  | n + 1, [], i + 1 => by
    rw [fit_succ_nil, List.getD_cons_succ, getD_fit n [] i]
    simp
  | n + 1, v :: x, 0 => by simp [fit_succ_cons]
  | n + 1, v :: x, i + 1 => by
    rw [fit_succ_cons, List.getD_cons_succ, getD_fit n x i, List.getD_cons_succ]
    simp

theorem getD_fit_lt {n i : Nat} (x : V) (h : i < n) : (fit n x).getD i 0 = x.getD i 0 := by
  rw [getD_fit, if_pos h]

theorem getD_drop (c : Nat) (x : V) (i : Nat) : (x.drop c).getD i 0 = x.getD (c + i) 0 := by
  rw [List.getD_eq_getElem?_getD, List.getD_eq_getElem?_getD, List.getElem?_drop]

/-- two vectors of the same length with the same entries are equal -/
theorem ext_getD {x y : V} (hl : x.length = y.length) (h : ∀ i, i < x.length → x.getD i 0 = y.getD i 0) :
    x = y := by
  apply List.ext_getElem hl
  intro i h1 h2
  have := h i h1
  rwa [List.getD_eq_getElem _ _ h1, List.getD_eq_getElem _ _ h2] at this

theorem unitVec_getD' (n k i : Nat) : (unitVec n k).getD i 0 = if i < n ∧ i = k then 1 else 0 := by
  by_cases hi : i < n
  · rw [unitVec_getD n k i hi]
    simp [hi]
  · rw [List.getD_eq_default _ _ (by rw [unitVec_length]; omega)]
    simp [hi]

/-- beyond the dimension the "unit vector" is the zero vector -/
theorem unitVec_of_le {n k : Nat} (h : n ≤ k) : unitVec n k = List.replicate n 0 := by
  apply ext_getD (by simp [unitVec_length])
  intro i hi
  rw [unitVec_length] at hi
  rw [unitVec_getD', List.getD_replicate _ hi, if_neg (by omega)]

/-- the first `c` coordinates of a unit vector -/
theorem headChunk_unitVec (c : Nat) {N j : Nat} (hj : j < N) : headChunk c (unitVec N j) = unitVec c j := by
  apply ext_getD (by simp [unitVec_length])
  intro i hi
  rw [headChunk_length] at hi
  rw [headChunk_eq_fit, getD_fit_lt _ hi, unitVec_getD', unitVec_getD']
  by_cases hij : i = j
  · subst hij; simp [hi, hj]
  · simp [hij]

/-- the remaining coordinates, when the unit is among them -/
theorem drop_unitVec_ge {c N j : Nat} (h : c ≤ j) : (unitVec N j).drop c = unitVec (N - c) (j - c) := by
  apply ext_getD (by simp [unitVec_length])
  intro i _
  rw [getD_drop, unitVec_getD', unitVec_getD']
  by_cases hij : c + i = j
  · have : i = j - c := by omega
    by_cases hN : c + i < N
    · rw [if_pos ⟨hN, hij⟩, if_pos ⟨by omega, this⟩]
    · rw [if_neg (fun h => hN h.1), if_neg (fun h => hN (by omega))]
  · rw [if_neg (fun h => hij h.2), if_neg (fun h => hij (by omega))]

/-- the remaining coordinates, when the unit is among the first `c` -/
theorem drop_unitVec_lt {c N j : Nat} (h : j < c) : (unitVec N j).drop c = List.replicate (N - c) 0 := by
  apply ext_getD (by simp [unitVec_length])
  intro i hi
  rw [List.length_drop, unitVec_length] at hi
  rw [getD_drop, unitVec_getD', List.getD_replicate _ hi, if_neg (by omega)]

theorem headChunk_replicate_zero (c n : Nat) : headChunk c (List.replicate n (0 : ℝ)) = List.replicate c 0 := by
  rw [headChunk_eq_fit, fit_replicate_zero]

/-- `f` sends zero vectors to vectors whose coordinates all vanish (nothing is asked of their length) -/
def ZeroPres (f : V → V) : Prop := ∀ n i : Nat, (f (List.replicate n 0)).getD i 0 = 0

/-- a homogeneous map preserves zero -/
theorem Hom.zeroPres {f : V → V} (h : Hom f) : ZeroPres f := by
  intro n i
  have h0 := h 0 (List.replicate n 0)
  simp only [List.map_replicate, mul_zero] at h0
  have : (f (List.replicate n 0)).getD i 0 = ((f (List.replicate n 0)).map fun v => 0 * v).getD i 0 :=
    congrArg (fun l => l.getD i 0) h0
  rw [this]
  have := List.getD_map (l := f (List.replicate n 0)) (d := (0 : ℝ)) (n := i) (fun v => 0 * v)
  rw [mul_zero] at this
  rw [this, zero_mul]

theorem den_zeroPres (E : Env) (o : Op) : ZeroPres (den E o) :=
  Hom.zeroPres ((homLaw E (leafHom E)).1 o)

theorem denT_zeroPres (E : Env) (o : Op) : ZeroPres (denT E o) :=
  Hom.zeroPres ((homLaw E (leafHom E)).2 o)

/-! ### 1. explicit block matrices -/

/-- a list of blocks: number of rows, number of columns, entries (indexed by naturals; only the entries
`i < rows`, `j < cols` matter) -/
abbrev Blocks := List (Nat × Nat × (Nat → Nat → ℝ))

/-- **the block-diagonal matrix**: entry `(i, j)` is the entry of block `k` when `i` lies in row band `k` and `j` in
column band `k`, and `0` otherwise -/
def blockDiagEntry : Blocks → Nat → Nat → ℝ
  | [], _, _ => 0
  | (r, c, M) :: bs, i, j =>
    if i < r then (if j < c then M i j else 0)
    else (if j < c then 0 else blockDiagEntry bs (i - r) (j - c))

/-- **horizontal concatenation** (the numbers of rows are not looked at) -/
def blockRowEntry : Blocks → Nat → Nat → ℝ
  | [], _, _ => 0
  | (_, c, M) :: bs, i, j => if j < c then M i j else blockRowEntry bs i (j - c)

/-- **vertical stacking** (the numbers of columns are not looked at) -/
def blockColEntry : Blocks → Nat → Nat → ℝ
  | [], _, _ => 0
  | (r, _, M) :: bs, i, j => if i < r then M i j else blockColEntry bs (i - r) j

/-- the offset of band `k`: the sum of the sizes of the bands before it -/
def offset (ns : List Nat) (k : Nat) : Nat := (ns.take k).sum

/-- `i` lies in band `k` of the partition of `0 … ns.sum - 1` into consecutive bands of sizes `ns` -/
def InBand (ns : List Nat) (k i : Nat) : Prop := offset ns k ≤ i ∧ i < offset ns k + ns.getD k 0

@[simp] theorem offset_zero (ns : List Nat) : offset ns 0 = 0 := rfl

@[simp] theorem offset_cons_succ (n : Nat) (ns : List Nat) (k : Nat) :
    offset (n :: ns) (k + 1) = n + offset ns k := by
  simp [offset]

theorem inBand_cons_zero (n : Nat) (ns : List Nat) (i : Nat) : InBand (n :: ns) 0 i ↔ i < n := by
  simp [InBand]

theorem inBand_cons_succ (n : Nat) (ns : List Nat) (k i : Nat) :
    InBand (n :: ns) (k + 1) i ↔ n ≤ i ∧ InBand ns k (i - n) := by
  simp only [InBand, offset_cons_succ, List.getD_cons_succ]
  omega

theorem InBand.lt_length {ns : List Nat} {k i : Nat} (h : InBand ns k i) : k < ns.length := by
  by_contra hk
  have := List.getD_eq_default ns 0 (Nat.le_of_not_lt hk)
  unfold InBand at h
  omega

/-- every index below the total size lies in a band … -/
theorem exists_inBand : ∀ (ns : List Nat) (i : Nat), i < ns.sum → ∃ k, InBand ns k i
  | [], i, h => by simp at h
  | n :: ns, i, h => by
    by_cases hi : i < n
    · exact ⟨0, (inBand_cons_zero n ns i).mpr hi⟩
    · obtain ⟨k, hk⟩ := exists_inBand ns (i - n) (by simp only [List.sum_cons] at h; omega)
      exact ⟨k + 1, (inBand_cons_succ n ns k i).mpr ⟨by omega, hk⟩⟩

/-- … and in one only -/
theorem inBand_unique : ∀ (ns : List Nat) (k k' i : Nat), InBand ns k i → InBand ns k' i → k = k'
  | [], k, _, _, h, _ => absurd h.lt_length (by simp)
  | n :: ns, 0, 0, _, _, _ => rfl
  | n :: ns, 0, k' + 1, i, h, h' => by
    rw [inBand_cons_zero] at h; rw [inBand_cons_succ] at h'; omega
  | n :: ns, k + 1, 0, i, h, h' => by
    rw [inBand_cons_zero] at h'; rw [inBand_cons_succ] at h; omega
  | n :: ns, k + 1, k' + 1, i, h, h' => by
    rw [inBand_cons_succ] at h h'
    rw [inBand_unique ns k k' (i - n) h.2 h'.2]

/-- a band lies below the total size -/
theorem InBand.lt_sum : ∀ {ns : List Nat} {k i : Nat}, InBand ns k i → i < ns.sum
  | [], _, _, h => absurd h.lt_length (by simp)
  | n :: ns, 0, i, h => by
    rw [inBand_cons_zero] at h; simp only [List.sum_cons]; omega
  | n :: ns, k + 1, i, h => by
    rw [inBand_cons_succ] at h
    have := h.2.lt_sum
    simp only [List.sum_cons]; omega

/-- the numbers of rows / of columns of the blocks -/
def Blocks.rows (bs : Blocks) : List Nat := bs.map (·.1)
def Blocks.cols (bs : Blocks) : List Nat := bs.map (·.2.1)

/-- **block diagonal, by bands**: in row band `k` and column band `k` the entry is that of block `k`, at the
position relative to the offsets -/
theorem blockDiagEntry_band : ∀ (bs : Blocks) (k : Nat) (hk : k < bs.length) (i j : Nat),
    InBand bs.rows k i → InBand bs.cols k j →
    blockDiagEntry bs i j = bs[k].2.2 (i - offset bs.rows k) (j - offset bs.cols k)
  | [], _, hk, _, _, _, _ => by simp at hk
  | (r, c, M) :: bs, 0, _, i, j, hi, hj => by
    simp only [Blocks.rows, Blocks.cols, List.map_cons, inBand_cons_zero] at hi hj
    simp [blockDiagEntry, hi, hj]
  | (r, c, M) :: bs, k + 1, hk, i, j, hi, hj => by
    simp only [Blocks.rows, Blocks.cols, List.map_cons, inBand_cons_succ] at hi hj
    have := blockDiagEntry_band bs k (by simpa using hk) (i - r) (j - c) hi.2 hj.2
    simp only [blockDiagEntry, if_neg (Nat.not_lt.mpr hi.1), if_neg (Nat.not_lt.mpr hj.1), this,
      Blocks.rows, Blocks.cols, List.map_cons, offset_cons_succ, List.getElem_cons_succ, Nat.sub_sub]

/-- **block diagonal, off the diagonal bands**: zero -/
theorem blockDiagEntry_off : ∀ (bs : Blocks) (k k' : Nat) (i j : Nat), k ≠ k' →
    InBand bs.rows k i → InBand bs.cols k' j → blockDiagEntry bs i j = 0
  | [], _, _, _, _, _, hi, _ => absurd hi.lt_length (by simp [Blocks.rows])
  | (r, c, M) :: bs, 0, 0, _, _, hne, _, _ => absurd rfl hne
  | (r, c, M) :: bs, 0, k' + 1, i, j, _, hi, hj => by
    simp only [Blocks.rows, Blocks.cols, List.map_cons, inBand_cons_zero, inBand_cons_succ] at hi hj
    simp [blockDiagEntry, hi, Nat.not_lt.mpr hj.1]
  | (r, c, M) :: bs, k + 1, 0, i, j, _, hi, hj => by
    simp only [Blocks.rows, Blocks.cols, List.map_cons, inBand_cons_zero, inBand_cons_succ] at hi hj
    simp [blockDiagEntry, hj, Nat.not_lt.mpr hi.1]
  | (r, c, M) :: bs, k + 1, k' + 1, i, j, hne, hi, hj => by
    simp only [Blocks.rows, Blocks.cols, List.map_cons, inBand_cons_succ] at hi hj
    simp only [blockDiagEntry, if_neg (Nat.not_lt.mpr hi.1), if_neg (Nat.not_lt.mpr hj.1)]
    exact blockDiagEntry_off bs k k' (i - r) (j - c) (fun h => hne (by rw [h])) hi.2 hj.2

/-- **block row, by bands**: in column band `k` the entry is that of block `k` -/
theorem blockRowEntry_band : ∀ (bs : Blocks) (k : Nat) (hk : k < bs.length) (i j : Nat),
    InBand bs.cols k j → blockRowEntry bs i j = bs[k].2.2 i (j - offset bs.cols k)
  | [], _, hk, _, _, _ => by simp at hk
  | (r, c, M) :: bs, 0, _, i, j, hj => by
    simp only [Blocks.cols, List.map_cons, inBand_cons_zero] at hj
    simp [blockRowEntry, hj]
  | (r, c, M) :: bs, k + 1, hk, i, j, hj => by
    simp only [Blocks.cols, List.map_cons, inBand_cons_succ] at hj
    have := blockRowEntry_band bs k (by simpa using hk) i (j - c) hj.2
    simp only [blockRowEntry, if_neg (Nat.not_lt.mpr hj.1), this,
      Blocks.cols, List.map_cons, offset_cons_succ, List.getElem_cons_succ, Nat.sub_sub]

/-- **block column, by bands**: in row band `k` the entry is that of block `k` -/
theorem blockColEntry_band : ∀ (bs : Blocks) (k : Nat) (hk : k < bs.length) (i j : Nat),
    InBand bs.rows k i → blockColEntry bs i j = bs[k].2.2 (i - offset bs.rows k) j
  | [], _, hk, _, _, _ => by simp at hk
  | (r, c, M) :: bs, 0, _, i, j, hi => by
    simp only [Blocks.rows, List.map_cons, inBand_cons_zero] at hi
    simp [blockColEntry, hi]
  | (r, c, M) :: bs, k + 1, hk, i, j, hi => by
    simp only [Blocks.rows, List.map_cons, inBand_cons_succ] at hi
    have := blockColEntry_band bs k (by simpa using hk) (i - r) j hi.2
    simp only [blockColEntry, if_neg (Nat.not_lt.mpr hi.1), this,
      Blocks.rows, List.map_cons, offset_cons_succ, List.getElem_cons_succ, Nat.sub_sub]

/-- the blocks, each transposed -/
def transposeBlocks (bs : Blocks) : Blocks := bs.map fun b => (b.2.1, b.1, fun i j => b.2.2 j i)

/-- the transpose of a block diagonal is the block diagonal of the transposes -/
theorem blockDiagEntry_transpose : ∀ (bs : Blocks) (i j : Nat),
    blockDiagEntry (transposeBlocks bs) i j = blockDiagEntry bs j i
  | [], _, _ => rfl
  | (r, c, M) :: bs, i, j => by
    simp only [transposeBlocks, List.map_cons, blockDiagEntry]
    have := blockDiagEntry_transpose bs (i - c) (j - r)
    simp only [transposeBlocks] at this
    rw [this]
    by_cases hi : i < c <;> by_cases hj : j < r <;> simp [hi, hj]

/-- the transpose of a block row is the block column of the transposes -/
theorem blockColEntry_transpose : ∀ (bs : Blocks) (i j : Nat),
    blockColEntry (transposeBlocks bs) i j = blockRowEntry bs j i
  | [], _, _ => rfl
  | (r, c, M) :: bs, i, j => by
    simp only [transposeBlocks, List.map_cons, blockColEntry, blockRowEntry]
    have := blockColEntry_transpose bs (i - c) j
    simp only [transposeBlocks] at this
    rw [this]

/-- the transpose of a block column is the block row of the transposes -/
theorem blockRowEntry_transpose : ∀ (bs : Blocks) (i j : Nat),
    blockRowEntry (transposeBlocks bs) i j = blockColEntry bs j i
  | [], _, _ => rfl
  | (r, c, M) :: bs, i, j => by
    simp only [transposeBlocks, List.map_cons, blockColEntry, blockRowEntry]
    have := blockRowEntry_transpose bs i (j - r)
    simp only [transposeBlocks] at this
    rw [this]

/-! ### 2. the generic recursions -/

/-- a block of maps: number of rows (size of the output), number of columns (size of the input), the map -/
abbrev FBlocks := List (Nat × Nat × (V → V))

/-- split, apply, concatenate -/
def gDiag : FBlocks → V → V
  | [], _ => []
  | (r, c, f) :: bs, x => fit r (f (headChunk c x)) ++ gDiag bs (x.drop c)

/-- split, apply, add -/
def gRow : FBlocks → V → V
  | [], _ => []
  | (_, c, f) :: bs, x => vadd (f (headChunk c x)) (gRow bs (x.drop c))

/-- apply every block to the whole input, concatenate -/
def gCol : FBlocks → V → V
  | [], _ => []
  | (r, _, f) :: bs, x => fit r (f x) ++ gCol bs x

/-- the blocks of `den` -/
noncomputable def opBlocks (E : Env) (ops : List Op) : FBlocks := ops.map fun o => (outSize o, inSize o, den E o)

/-- the blocks of `denT`: rows and columns swapped -/
noncomputable def opBlocksT (E : Env) (ops : List Op) : FBlocks :=
  ops.map fun o => (inSize o, outSize o, denT E o)

theorem diagApp_eq_gDiag (E : Env) (ops : List Op) : diagApp E ops = gDiag (opBlocks E ops) := by
  funext x
  induction ops generalizing x with
  | nil => rfl
  | cons o os ih => simp only [diagApp, opBlocks, List.map_cons, gDiag, ih]

theorem rowApp_eq_gRow (E : Env) (ops : List Op) : rowApp E ops = gRow (opBlocks E ops) := by
  funext x
  induction ops generalizing x with
  | nil => rfl
  | cons o os ih => simp only [rowApp, opBlocks, List.map_cons, gRow, ih]

theorem colApp_eq_gCol (E : Env) (ops : List Op) : colApp E ops = gCol (opBlocks E ops) := by
  funext x
  induction ops with
  | nil => rfl
  | cons o os ih => simp only [colApp, opBlocks, List.map_cons, gCol, ih]

theorem diagAppT_eq_gDiag (E : Env) (ops : List Op) : diagAppT E ops = gDiag (opBlocksT E ops) := by
  funext x
  induction ops generalizing x with
  | nil => rfl
  | cons o os ih => simp only [diagAppT, opBlocksT, List.map_cons, gDiag, ih]

theorem rowAppT_eq_gRow (E : Env) (ops : List Op) : rowAppT E ops = gRow (opBlocksT E ops) := by
  funext x
  induction ops generalizing x with
  | nil => rfl
  | cons o os ih => simp only [rowAppT, opBlocksT, List.map_cons, gRow, ih]

theorem colAppT_eq_gCol (E : Env) (ops : List Op) : colAppT E ops = gCol (opBlocksT E ops) := by
  funext x
  induction ops with
  | nil => rfl
  | cons o os ih => simp only [colAppT, opBlocksT, List.map_cons, gCol, ih]

/-- entry `(i, j)` of the matrix of a map on `ℝᶜ`: coordinate `i` of the image of the `j`-th unit vector -/
def fEntry (f : V → V) (c : Nat) (i j : Nat) : ℝ := (f (unitVec c j)).getD i 0

/-- the matrices of the blocks -/
def mats (bs : FBlocks) : Blocks := bs.map fun b => (b.1, b.2.1, fEntry b.2.2 b.2.1)

theorem fEntry_of_le {f : V → V} (hf : ZeroPres f) {c j : Nat} (h : c ≤ j) (i : Nat) : fEntry f c i j = 0 := by
  rw [fEntry, unitVec_of_le h, hf]

theorem gDiag_zero : ∀ (bs : FBlocks), (∀ b ∈ bs, ZeroPres b.2.2) → ZeroPres (gDiag bs)
  | [], _ => fun _ _ => by simp [gDiag]
  | (r, c, f) :: bs, h => by
    intro n i
    have hf : ZeroPres f := h (r, c, f) List.mem_cons_self
    have ih := gDiag_zero bs (fun b hb => h b (List.mem_cons_of_mem _ hb))
    rw [gDiag, headChunk_replicate_zero, List.drop_replicate]
    by_cases hi : i < r
    · rw [List.getD_append _ _ _ _ (by simpa using hi), getD_fit_lt _ hi, hf]
    · rw [List.getD_append_right _ _ _ _ (by simpa using hi), ih]

theorem gRow_zero : ∀ (bs : FBlocks), (∀ b ∈ bs, ZeroPres b.2.2) → ZeroPres (gRow bs)
  | [], _ => fun _ _ => by simp [gRow]
  | (r, c, f) :: bs, h => by
    intro n i
    have hf : ZeroPres f := h (r, c, f) List.mem_cons_self
    have ih := gRow_zero bs (fun b hb => h b (List.mem_cons_of_mem _ hb))
    rw [gRow, headChunk_replicate_zero, List.drop_replicate, getD_vadd, hf, ih, add_zero]

/-- **the matrix of the generic block diagonal**: no hypothesis on the sizes of the results of the maps (every block
is cut to its declared number of rows), nor on `N` (a short input is padded, a long one truncated) -/
theorem gDiag_entry : ∀ (bs : FBlocks), (∀ b ∈ bs, ZeroPres b.2.2) → ∀ (N i j : Nat), j < N →
    (gDiag bs (unitVec N j)).getD i 0 = blockDiagEntry (mats bs) i j
  | [], _, _, _, _, _ => by simp [gDiag, mats, blockDiagEntry]
  | (r, c, f) :: bs, h, N, i, j, hj => by
    have hz := gDiag_zero bs (fun b hb => h b (List.mem_cons_of_mem _ hb))
    have ih := gDiag_entry bs (fun b hb => h b (List.mem_cons_of_mem _ hb))
    have hf : ZeroPres f := h (r, c, f) List.mem_cons_self
    simp only [gDiag, mats, List.map_cons, blockDiagEntry]
    rw [headChunk_unitVec c hj]
    by_cases hi : i < r
    · rw [List.getD_append _ _ _ _ (by simpa using hi), getD_fit_lt _ hi, if_pos hi]
      by_cases hjc : j < c
      · rw [if_pos hjc]; rfl
      · rw [if_neg hjc]; exact fEntry_of_le hf (Nat.not_lt.mp hjc) i
    · rw [List.getD_append_right _ _ _ _ (by simpa using hi), if_neg hi, fit_length]
      by_cases hjc : j < c
      · rw [if_pos hjc, drop_unitVec_lt hjc, hz]
      · rw [if_neg hjc, drop_unitVec_ge (Nat.not_lt.mp hjc)]
        exact ih (N - c) (i - r) (j - c) (by omega)

/-- **the matrix of the generic block row** -/
theorem gRow_entry : ∀ (bs : FBlocks), (∀ b ∈ bs, ZeroPres b.2.2) → ∀ (N i j : Nat), j < N →
    (gRow bs (unitVec N j)).getD i 0 = blockRowEntry (mats bs) i j
  | [], _, _, _, _, _ => by simp [gRow, mats, blockRowEntry]
  | (r, c, f) :: bs, h, N, i, j, hj => by
    have hz := gRow_zero bs (fun b hb => h b (List.mem_cons_of_mem _ hb))
    have ih := gRow_entry bs (fun b hb => h b (List.mem_cons_of_mem _ hb))
    have hf : ZeroPres f := h (r, c, f) List.mem_cons_self
    simp only [gRow, mats, List.map_cons, blockRowEntry]
    rw [headChunk_unitVec c hj, getD_vadd]
    by_cases hjc : j < c
    · rw [if_pos hjc, drop_unitVec_lt hjc, hz, add_zero]; rfl
    · rw [if_neg hjc, drop_unitVec_ge (Nat.not_lt.mp hjc)]
      have : (f (unitVec c j)).getD i 0 = 0 := fEntry_of_le hf (Nat.not_lt.mp hjc) i
      rw [this, zero_add]
      exact ih (N - c) i (j - c) (by omega)

/-- **the matrix of the generic block column**: every block takes the whole input (`N` columns) -/
theorem gCol_entry : ∀ (bs : FBlocks) (N : Nat), (∀ b ∈ bs, b.2.1 = N) → ∀ (i j : Nat),
    (gCol bs (unitVec N j)).getD i 0 = blockColEntry (mats bs) i j
  | [], _, _, _, _ => by simp [gCol, mats, blockColEntry]
  | (r, c, f) :: bs, N, h, i, j => by
    have ih := gCol_entry bs N (fun b hb => h b (List.mem_cons_of_mem _ hb))
    have hc : c = N := h (r, c, f) List.mem_cons_self
    simp only [gCol, mats, List.map_cons, blockColEntry]
    by_cases hi : i < r
    · rw [List.getD_append _ _ _ _ (by simpa using hi), getD_fit_lt _ hi, if_pos hi, hc]; rfl
    · rw [List.getD_append_right _ _ _ _ (by simpa using hi), if_neg hi, fit_length]
      exact ih (i - r) j

/-! ### 3. the dense matrices of the block operators -/

section Matrices
open Matrix

/-- entry `(i, j)` of the dense matrix of `o` (at its declared input size), indexed by naturals: coordinate `i` of
`o` applied to the `j`-th unit vector.  It is `asMatrix E hE o (inSize o) m i j` for every `m` (`asMatrix_eq_entry`);
it vanishes for `j ≥ inSize o`, and for `i ≥ outSize o` when `o` is structurally well formed. -/
noncomputable def entry (E : Env) (o : Op) (i j : Nat) : ℝ := fEntry (den E o) (inSize o) i j

/-- the same for the transpose `denT` (input of the declared OUTPUT size of `o`) -/
noncomputable def entryT (E : Env) (o : Op) (i j : Nat) : ℝ := fEntry (denT E o) (outSize o) i j

theorem asMatrix_eq_entry (E : Env) (hE : EnvAdd E) (o : Op) (m : Nat) (i : Fin m) (j : Fin (inSize o)) :
    asMatrix E hE o (inSize o) m i j = entry E o i j := asMatrix_apply E hE o _ _ i j

/-- `asMatrixT` by columns, like `asMatrix_apply` -/
theorem asMatrixT_apply (E : Env) (hE : EnvAdd E) (o : Op) (m n : Nat) (i : Fin n) (j : Fin m) :
    asMatrixT E hE o m n i j = (denT E o (unitVec m j)).getD i 0 := by
  rw [asMatrixT_eq E hE 0, asMatrix_apply, den_wrap_transpose]

theorem asMatrixT_eq_entryT (E : Env) (hE : EnvAdd E) (o : Op) (n : Nat) (i : Fin n) (j : Fin (outSize o)) :
    asMatrixT E hE o (outSize o) n i j = entryT E o i j := asMatrixT_apply E hE o _ _ i j

theorem entry_of_le (E : Env) (o : Op) {j : Nat} (h : inSize o ≤ j) (i : Nat) : entry E o i j = 0 :=
  fEntry_of_le (den_zeroPres E o) h i

theorem entryT_of_le (E : Env) (o : Op) {j : Nat} (h : outSize o ≤ j) (i : Nat) : entryT E o i j = 0 :=
  fEntry_of_le (denT_zeroPres E o) h i

theorem entry_of_le_row (E : Env) (o : Op) (ho : StructOK o) {i : Nat} (h : outSize o ≤ i) (j : Nat) :
    entry E o i j = 0 :=
  List.getD_eq_default _ _ (by rw [den_length E o ho]; exact h)

theorem entryT_of_le_row (E : Env) (o : Op) (ho : StructOK o) {i : Nat} (h : inSize o ≤ i) (j : Nat) :
    entryT E o i j = 0 :=
  List.getD_eq_default _ _ (by rw [denT_length E o ho]; exact h)

/-- **the matrices of the blocks**: `(rows, cols, entries) = (outSize o, inSize o, entries of as_matrix(o))` -/
noncomputable def blockMats (E : Env) (ops : List Op) : Blocks :=
  ops.map fun o => (outSize o, inSize o, entry E o)

/-- the matrices of the transposed blocks: `(inSize o, outSize o, entries of as_matrix(o.T))` -/
noncomputable def blockMatsT (E : Env) (ops : List Op) : Blocks :=
  ops.map fun o => (inSize o, outSize o, entryT E o)

theorem mats_opBlocks (E : Env) (ops : List Op) : mats (opBlocks E ops) = blockMats E ops := by
  simp only [mats, opBlocks, blockMats, List.map_map]
  rfl

theorem mats_opBlocksT (E : Env) (ops : List Op) : mats (opBlocksT E ops) = blockMatsT E ops := by
  simp only [mats, opBlocksT, blockMatsT, List.map_map]
  rfl

theorem opBlocks_zeroPres (E : Env) (ops : List Op) : ∀ b ∈ opBlocks E ops, ZeroPres b.2.2 := by
  intro b hb
  simp only [opBlocks, List.mem_map] at hb
  obtain ⟨o, _, rfl⟩ := hb
  exact den_zeroPres E o

theorem opBlocksT_zeroPres (E : Env) (ops : List Op) : ∀ b ∈ opBlocksT E ops, ZeroPres b.2.2 := by
  intro b hb
  simp only [opBlocksT, List.mem_map] at hb
  obtain ⟨o, _, rfl⟩ := hb
  exact denT_zeroPres E o

@[simp] theorem blockMats_rows (E : Env) (ops : List Op) : (blockMats E ops).rows = ops.map outSize := by
  simp [Blocks.rows, blockMats]

@[simp] theorem blockMats_cols (E : Env) (ops : List Op) : (blockMats E ops).cols = ops.map inSize := by
  simp [Blocks.cols, blockMats]

@[simp] theorem blockMatsT_rows (E : Env) (ops : List Op) : (blockMatsT E ops).rows = ops.map inSize := by
  simp [Blocks.rows, blockMatsT]

@[simp] theorem blockMatsT_cols (E : Env) (ops : List Op) : (blockMatsT E ops).cols = ops.map outSize := by
  simp [Blocks.cols, blockMatsT]

@[simp] theorem blockMats_length (E : Env) (ops : List Op) : (blockMats E ops).length = ops.length := by
  simp [blockMats]

@[simp] theorem blockMatsT_length (E : Env) (ops : List Op) : (blockMatsT E ops).length = ops.length := by
  simp [blockMatsT]

theorem blockMats_getElem (E : Env) (ops : List Op) (k : Nat) (hk : k < ops.length) :
    ((blockMats E ops)[k]'(by simpa using hk)).2.2 = entry E ops[k] := by
  simp [blockMats]

theorem blockMatsT_getElem (E : Env) (ops : List Op) (k : Nat) (hk : k < ops.length) :
    ((blockMatsT E ops)[k]'(by simpa using hk)).2.2 = entryT E ops[k] := by
  simp [blockMatsT]

/-- the position inside band `k` is below the size of band `k` -/
theorem InBand.sub_lt {f : Op → Nat} {ops : List Op} {k i : Nat} (h : InBand (ops.map f) k i)
    (hk : k < ops.length) : i - offset (ops.map f) k < f ops[k] := by
  have : (ops.map f).getD k 0 = f ops[k] := by
    rw [List.getD_eq_getElem _ _ (by simpa using hk), List.getElem_map]
  unfold InBand at h
  omega

/-! #### declared sizes of the block operators -/

theorem inSize_blockDiag (u : Nat) (td : TreeDef) (ops : List Op) :
    inSize (.cont u .blockDiag td ops) = (ops.map inSize).sum := nest_inSList_size td ops

theorem inSize_blockRow (u : Nat) (td : TreeDef) (ops : List Op) :
    inSize (.cont u .blockRow td ops) = (ops.map inSize).sum := nest_inSList_size td ops

theorem outSize_blockDiag (u : Nat) (td : TreeDef) (ops : List Op) :
    outSize (.cont u .blockDiag td ops) = (ops.map outSize).sum := by
  rw [outSize, Op.outS, nest_size, outSList_sizes]

theorem outSize_blockCol (u : Nat) (td : TreeDef) (ops : List Op) :
    outSize (.cont u .blockCol td ops) = (ops.map outSize).sum := by
  rw [outSize, Op.outS, nest_size, outSList_sizes]

/-- the blocks of a well-formed block row have the output size of the row -/
theorem outSize_of_mem_blockRow (u : Nat) (td : TreeDef) (ops : List Op)
    (hok : StructOK (.cont u .blockRow td ops)) : ∀ o ∈ ops, outSize o = outSize (.cont u .blockRow td ops) := by
  intro o ho
  have h := ((StructOK_cont_iff u .blockRow td ops).mp hok).2.2.2
  simp only at h
  rw [outSize, outSize, h o ho, Op.outS]

/-- the blocks of a well-formed block column have the input size of the column -/
theorem inSize_of_mem_blockCol (u : Nat) (td : TreeDef) (ops : List Op)
    (hok : StructOK (.cont u .blockCol td ops)) : ∀ o ∈ ops, inSize o = inSize (.cont u .blockCol td ops) := by
  intro o ho
  have h := ((StructOK_cont_iff u .blockCol td ops).mp hok).2.2.2
  simp only at h
  rw [inSize, inSize, h o ho, Op.inS]

/-! #### block diagonal -/

/-- **C10, block diagonal: `as_matrix()` of `BlockDiagonalOperator(blocks)` is the block-diagonal matrix of the
matrices of the blocks.**  No hypothesis: `n` and `m` are free (the declared sizes are `inSize_blockDiag`,
`outSize_blockDiag`), the blocks need not be well formed (each is cut to its declared output size). -/
theorem asMatrix_blockDiag (E : Env) (hE : EnvAdd E) (u : Nat) (td : TreeDef) (ops : List Op) (n m : Nat)
    (i : Fin m) (j : Fin n) :
    asMatrix E hE (.cont u .blockDiag td ops) n m i j = blockDiagEntry (blockMats E ops) i j := by
  rw [asMatrix_apply, den, diagApp_eq_gDiag, gDiag_entry _ (opBlocks_zeroPres E ops) n i j j.2, mats_opBlocks]

/-- the `Matrix.of` form -/
theorem asMatrix_blockDiag_eq_of (E : Env) (hE : EnvAdd E) (u : Nat) (td : TreeDef) (ops : List Op) (n m : Nat) :
    asMatrix E hE (.cont u .blockDiag td ops) n m =
      Matrix.of fun (i : Fin m) (j : Fin n) => blockDiagEntry (blockMats E ops) i j := by
  ext i j
  exact asMatrix_blockDiag E hE u td ops n m i j

/-- **by bands**: for `i` in row band `k` and `j` in column band `k` the entry is the entry of `as_matrix()` of block
`k` at `(i - rowOffset k, j - colOffset k)`, the offsets being the partial sums of the output / input sizes -/
theorem asMatrix_blockDiag_band (E : Env) (hE : EnvAdd E) (u : Nat) (td : TreeDef) (ops : List Op) (n m : Nat)
    (i : Fin m) (j : Fin n) (k : Nat) (hk : k < ops.length)
    (hi : InBand (ops.map outSize) k i) (hj : InBand (ops.map inSize) k j) :
    asMatrix E hE (.cont u .blockDiag td ops) n m i j =
      asMatrix E hE ops[k] (inSize ops[k]) (outSize ops[k])
        ⟨i - offset (ops.map outSize) k, hi.sub_lt hk⟩ ⟨j - offset (ops.map inSize) k, hj.sub_lt hk⟩ := by
  rw [asMatrix_blockDiag, asMatrix_eq_entry,
    blockDiagEntry_band _ k (by simpa using hk) i j (by simpa using hi) (by simpa using hj),
    blockMats_getElem E ops k hk, blockMats_rows, blockMats_cols]

/-- … and `0` when the bands differ -/
theorem asMatrix_blockDiag_off (E : Env) (hE : EnvAdd E) (u : Nat) (td : TreeDef) (ops : List Op) (n m : Nat)
    (i : Fin m) (j : Fin n) (k k' : Nat) (hne : k ≠ k')
    (hi : InBand (ops.map outSize) k i) (hj : InBand (ops.map inSize) k' j) :
    asMatrix E hE (.cont u .blockDiag td ops) n m i j = 0 := by
  rw [asMatrix_blockDiag]
  exact blockDiagEntry_off _ k k' i j hne (by simpa using hi) (by simpa using hj)

/-! #### block row -/

/-- **C10, block row: `as_matrix()` of `BlockRowOperator(blocks)` is the horizontal concatenation of the matrices of
the blocks.**  No hypothesis (for a well-formed block row every block has `outSize` = the output size of the row,
`outSize_of_mem_blockRow`). -/
theorem asMatrix_blockRow (E : Env) (hE : EnvAdd E) (u : Nat) (td : TreeDef) (ops : List Op) (n m : Nat)
    (i : Fin m) (j : Fin n) :
    asMatrix E hE (.cont u .blockRow td ops) n m i j = blockRowEntry (blockMats E ops) i j := by
  rw [asMatrix_apply, den, rowApp_eq_gRow, gRow_entry _ (opBlocks_zeroPres E ops) n i j j.2, mats_opBlocks]

theorem asMatrix_blockRow_eq_of (E : Env) (hE : EnvAdd E) (u : Nat) (td : TreeDef) (ops : List Op) (n m : Nat) :
    asMatrix E hE (.cont u .blockRow td ops) n m =
      Matrix.of fun (i : Fin m) (j : Fin n) => blockRowEntry (blockMats E ops) i j := by
  ext i j
  exact asMatrix_blockRow E hE u td ops n m i j

/-- **by bands**: for `j` in column band `k`, entry `(i, j)` is entry `(i, j - colOffset k)` of `as_matrix()` of
block `k` (all blocks have `m` rows) -/
theorem asMatrix_blockRow_band (E : Env) (hE : EnvAdd E) (u : Nat) (td : TreeDef) (ops : List Op) (n m : Nat)
    (i : Fin m) (j : Fin n) (k : Nat) (hk : k < ops.length) (hj : InBand (ops.map inSize) k j) :
    asMatrix E hE (.cont u .blockRow td ops) n m i j =
      asMatrix E hE ops[k] (inSize ops[k]) m i ⟨j - offset (ops.map inSize) k, hj.sub_lt hk⟩ := by
  rw [asMatrix_blockRow, asMatrix_eq_entry,
    blockRowEntry_band _ k (by simpa using hk) i j (by simpa using hj),
    blockMats_getElem E ops k hk, blockMats_cols]

/-! #### block column -/

/-- **C10, block column: `as_matrix()` of `BlockColumnOperator(blocks)` is the vertical stacking of the matrices of
the blocks.**  The blocks all take inputs of size `n` (what the constructor checks; `inSize_of_mem_blockCol`). -/
theorem asMatrix_blockCol (E : Env) (hE : EnvAdd E) (u : Nat) (td : TreeDef) (ops : List Op) (n m : Nat)
    (hcol : ∀ o ∈ ops, inSize o = n) (i : Fin m) (j : Fin n) :
    asMatrix E hE (.cont u .blockCol td ops) n m i j = blockColEntry (blockMats E ops) i j := by
  rw [asMatrix_apply, den, colApp_eq_gCol, gCol_entry _ n ?_ i j, mats_opBlocks]
  intro b hb
  simp only [opBlocks, List.mem_map] at hb
  obtain ⟨o, ho, rfl⟩ := hb
  exact hcol o ho

theorem asMatrix_blockCol_eq_of (E : Env) (hE : EnvAdd E) (u : Nat) (td : TreeDef) (ops : List Op) (n m : Nat)
    (hcol : ∀ o ∈ ops, inSize o = n) :
    asMatrix E hE (.cont u .blockCol td ops) n m =
      Matrix.of fun (i : Fin m) (j : Fin n) => blockColEntry (blockMats E ops) i j := by
  ext i j
  exact asMatrix_blockCol E hE u td ops n m hcol i j

/-- **by bands**: for `i` in row band `k`, entry `(i, j)` is entry `(i - rowOffset k, j)` of `as_matrix()` of
block `k` -/
theorem asMatrix_blockCol_band (E : Env) (hE : EnvAdd E) (u : Nat) (td : TreeDef) (ops : List Op) (n m : Nat)
    (hcol : ∀ o ∈ ops, inSize o = n) (i : Fin m) (j : Fin n) (k : Nat) (hk : k < ops.length)
    (hi : InBand (ops.map outSize) k i) :
    asMatrix E hE (.cont u .blockCol td ops) n m i j =
      asMatrix E hE ops[k] n (outSize ops[k]) ⟨i - offset (ops.map outSize) k, hi.sub_lt hk⟩ j := by
  have hn : inSize ops[k] = n := hcol _ (List.getElem_mem hk)
  subst hn
  rw [asMatrix_blockCol E hE u td ops _ m hcol, asMatrix_eq_entry,
    blockColEntry_band _ k (by simpa using hk) i j (by simpa using hi),
    blockMats_getElem E ops k hk, blockMats_rows]

/-! #### the same at the declared sizes of structurally well-formed containers -/

theorem asMatrix_blockDiag_ok (E : Env) (hE : EnvAdd E) (u : Nat) (td : TreeDef) (ops : List Op)
    (i : Fin (outSize (.cont u .blockDiag td ops))) (j : Fin (inSize (.cont u .blockDiag td ops))) :
    asMatrix E hE (.cont u .blockDiag td ops) _ _ i j = blockDiagEntry (blockMats E ops) i j :=
  asMatrix_blockDiag E hE u td ops _ _ i j

theorem asMatrix_blockRow_ok (E : Env) (hE : EnvAdd E) (u : Nat) (td : TreeDef) (ops : List Op)
    (i : Fin (outSize (.cont u .blockRow td ops))) (j : Fin (inSize (.cont u .blockRow td ops))) :
    asMatrix E hE (.cont u .blockRow td ops) _ _ i j = blockRowEntry (blockMats E ops) i j :=
  asMatrix_blockRow E hE u td ops _ _ i j

theorem asMatrix_blockCol_ok (E : Env) (hE : EnvAdd E) (u : Nat) (td : TreeDef) (ops : List Op)
    (hok : StructOK (.cont u .blockCol td ops))
    (i : Fin (outSize (.cont u .blockCol td ops))) (j : Fin (inSize (.cont u .blockCol td ops))) :
    asMatrix E hE (.cont u .blockCol td ops) _ _ i j = blockColEntry (blockMats E ops) i j :=
  asMatrix_blockCol E hE u td ops _ _ (inSize_of_mem_blockCol u td ops hok) i j

/-! #### block operators ACT as the block matrices of their blocks -/

/-- **C10: `BlockDiagonalOperator(blocks).mv(x)` is the block-diagonal matrix of the blocks' matrices times the
flattened `x`** -/
theorem den_blockDiag_eq_mulVec (E : Env) (hE : EnvAdd E) (u : Nat) (td : TreeDef) (ops : List Op)
    (hok : StructOK (.cont u .blockDiag td ops)) (n : Nat) (v : Fin n → ℝ) :
    den E (.cont u .blockDiag td ops) (List.ofFn v) =
      List.ofFn ((Matrix.of fun (i : Fin (outSize (.cont u .blockDiag td ops))) (j : Fin n) =>
        blockDiagEntry (blockMats E ops) i j) *ᵥ v) := by
  rw [den_eq_asMatrix_mulVec E hE _ hok n _ rfl v, asMatrix_blockDiag_eq_of]

/-- **C10: `BlockRowOperator(blocks).mv(x)` is the horizontal concatenation of the blocks' matrices times the
flattened `x`** -/
theorem den_blockRow_eq_mulVec (E : Env) (hE : EnvAdd E) (u : Nat) (td : TreeDef) (ops : List Op)
    (hok : StructOK (.cont u .blockRow td ops)) (n : Nat) (v : Fin n → ℝ) :
    den E (.cont u .blockRow td ops) (List.ofFn v) =
      List.ofFn ((Matrix.of fun (i : Fin (outSize (.cont u .blockRow td ops))) (j : Fin n) =>
        blockRowEntry (blockMats E ops) i j) *ᵥ v) := by
  rw [den_eq_asMatrix_mulVec E hE _ hok n _ rfl v, asMatrix_blockRow_eq_of]

/-- **C10: `BlockColumnOperator(blocks).mv(x)` is the vertical stacking of the blocks' matrices times the
flattened `x`** -/
theorem den_blockCol_eq_mulVec (E : Env) (hE : EnvAdd E) (u : Nat) (td : TreeDef) (ops : List Op)
    (hok : StructOK (.cont u .blockCol td ops)) (v : Fin (inSize (.cont u .blockCol td ops)) → ℝ) :
    den E (.cont u .blockCol td ops) (List.ofFn v) =
      List.ofFn ((Matrix.of fun (i : Fin (outSize (.cont u .blockCol td ops)))
          (j : Fin (inSize (.cont u .blockCol td ops))) => blockColEntry (blockMats E ops) i j) *ᵥ v) := by
  rw [den_eq_asMatrix_mulVec E hE _ hok _ _ rfl v,
    asMatrix_blockCol_eq_of E hE u td ops _ _ (inSize_of_mem_blockCol u td ops hok)]

/-! ### 4. transposes

`denT E o` is what `o.T.mv` computes; its dense matrix is `asMatrixT E hE o m n`, which is the dense matrix of
`TransposeOperator(o)` (`asMatrixT_eq`).  Directly on `denT`, with NO adjointness hypothesis: the matrix of the
transpose of a block row is the block column of the matrices of the transposed blocks, and so on. -/

/-- **the transpose of a block row is the block column of the transposed blocks** (matrices; the blocks all have
`m` rows, so their transposes all have `m` columns) -/
theorem asMatrixT_blockRow (E : Env) (hE : EnvAdd E) (u : Nat) (td : TreeDef) (ops : List Op) (m n : Nat)
    (hrow : ∀ o ∈ ops, outSize o = m) (i : Fin n) (j : Fin m) :
    asMatrixT E hE (.cont u .blockRow td ops) m n i j = blockColEntry (blockMatsT E ops) i j := by
  rw [asMatrixT_apply, denT, colAppT_eq_gCol, gCol_entry _ m ?_ i j, mats_opBlocksT]
  intro b hb
  simp only [opBlocksT, List.mem_map] at hb
  obtain ⟨o, ho, rfl⟩ := hb
  exact hrow o ho

/-- **the transpose of a block column is the block row of the transposed blocks** -/
theorem asMatrixT_blockCol (E : Env) (hE : EnvAdd E) (u : Nat) (td : TreeDef) (ops : List Op) (m n : Nat)
    (i : Fin n) (j : Fin m) :
    asMatrixT E hE (.cont u .blockCol td ops) m n i j = blockRowEntry (blockMatsT E ops) i j := by
  rw [asMatrixT_apply, denT, rowAppT_eq_gRow, gRow_entry _ (opBlocksT_zeroPres E ops) m i j j.2, mats_opBlocksT]

/-- **the transpose of a block diagonal is the block diagonal of the transposed blocks** -/
theorem asMatrixT_blockDiag (E : Env) (hE : EnvAdd E) (u : Nat) (td : TreeDef) (ops : List Op) (m n : Nat)
    (i : Fin n) (j : Fin m) :
    asMatrixT E hE (.cont u .blockDiag td ops) m n i j = blockDiagEntry (blockMatsT E ops) i j := by
  rw [asMatrixT_apply, denT, diagAppT_eq_gDiag, gDiag_entry _ (opBlocksT_zeroPres E ops) m i j j.2,
    mats_opBlocksT]

/-- the same three statements for the object `TransposeOperator(·)` -/
theorem asMatrix_transpose_blockRow (E : Env) (hE : EnvAdd E) (u u' : Nat) (td : TreeDef) (ops : List Op)
    (m n : Nat) (hrow : ∀ o ∈ ops, outSize o = m) (i : Fin n) (j : Fin m) :
    asMatrix E hE (.wrap u' .transpose (.cont u .blockRow td ops)) m n i j =
      blockColEntry (blockMatsT E ops) i j := by
  rw [← asMatrixT_eq]; exact asMatrixT_blockRow E hE u td ops m n hrow i j

theorem asMatrix_transpose_blockCol (E : Env) (hE : EnvAdd E) (u u' : Nat) (td : TreeDef) (ops : List Op)
    (m n : Nat) (i : Fin n) (j : Fin m) :
    asMatrix E hE (.wrap u' .transpose (.cont u .blockCol td ops)) m n i j =
      blockRowEntry (blockMatsT E ops) i j := by
  rw [← asMatrixT_eq]; exact asMatrixT_blockCol E hE u td ops m n i j

theorem asMatrix_transpose_blockDiag (E : Env) (hE : EnvAdd E) (u u' : Nat) (td : TreeDef) (ops : List Op)
    (m n : Nat) (i : Fin n) (j : Fin m) :
    asMatrix E hE (.wrap u' .transpose (.cont u .blockDiag td ops)) m n i j =
      blockDiagEntry (blockMatsT E ops) i j := by
  rw [← asMatrixT_eq]; exact asMatrixT_blockDiag E hE u td ops m n i j

/-! #### by bands, with `asMatrixT` of the blocks on the right-hand side -/

theorem asMatrixT_blockRow_band (E : Env) (hE : EnvAdd E) (u : Nat) (td : TreeDef) (ops : List Op) (m n : Nat)
    (hrow : ∀ o ∈ ops, outSize o = m) (i : Fin n) (j : Fin m) (k : Nat) (hk : k < ops.length)
    (hi : InBand (ops.map inSize) k i) :
    asMatrixT E hE (.cont u .blockRow td ops) m n i j =
      asMatrixT E hE ops[k] m (inSize ops[k]) ⟨i - offset (ops.map inSize) k, hi.sub_lt hk⟩ j := by
  have hm : outSize ops[k] = m := hrow _ (List.getElem_mem hk)
  subst hm
  rw [asMatrixT_blockRow E hE u td ops _ n hrow, asMatrixT_eq_entryT,
    blockColEntry_band _ k (by simpa using hk) i j (by simpa using hi),
    blockMatsT_getElem E ops k hk, blockMatsT_rows]

theorem asMatrixT_blockCol_band (E : Env) (hE : EnvAdd E) (u : Nat) (td : TreeDef) (ops : List Op) (m n : Nat)
    (i : Fin n) (j : Fin m) (k : Nat) (hk : k < ops.length) (hj : InBand (ops.map outSize) k j) :
    asMatrixT E hE (.cont u .blockCol td ops) m n i j =
      asMatrixT E hE ops[k] (outSize ops[k]) n i ⟨j - offset (ops.map outSize) k, hj.sub_lt hk⟩ := by
  rw [asMatrixT_blockCol, asMatrixT_eq_entryT,
    blockRowEntry_band _ k (by simpa using hk) i j (by simpa using hj),
    blockMatsT_getElem E ops k hk, blockMatsT_cols]

theorem asMatrixT_blockDiag_band (E : Env) (hE : EnvAdd E) (u : Nat) (td : TreeDef) (ops : List Op) (m n : Nat)
    (i : Fin n) (j : Fin m) (k : Nat) (hk : k < ops.length)
    (hi : InBand (ops.map inSize) k i) (hj : InBand (ops.map outSize) k j) :
    asMatrixT E hE (.cont u .blockDiag td ops) m n i j =
      asMatrixT E hE ops[k] (outSize ops[k]) (inSize ops[k])
        ⟨i - offset (ops.map inSize) k, hi.sub_lt hk⟩ ⟨j - offset (ops.map outSize) k, hj.sub_lt hk⟩ := by
  rw [asMatrixT_blockDiag, asMatrixT_eq_entryT,
    blockDiagEntry_band _ k (by simpa using hk) i j (by simpa using hi) (by simpa using hj),
    blockMatsT_getElem E ops k hk, blockMatsT_rows, blockMatsT_cols]

/-! #### the transposed blocks are the transposes of the blocks -/

/-- for a valid block whose uninterpreted leaves have adjoints, the matrix of `denT` is the transpose of the matrix
of `den` — entry by entry, for ALL naturals (both vanish out of range) -/
theorem entryT_eq_entry (E : Env) (hE : EnvAdd E) (o : Op) (hA : EnvAdjOn E o) (hv : Valid o) (i j : Nat) :
    entryT E o i j = entry E o j i := by
  by_cases hi : i < inSize o
  · by_cases hj : j < outSize o
    · have h := congrFun (congrFun (asMatrixT_transpose E hE o hA hv) ⟨i, hi⟩) ⟨j, hj⟩
      rw [Matrix.transpose_apply, asMatrixT_eq_entryT, asMatrix_eq_entry] at h
      exact h
    · rw [entryT_of_le E o (Nat.not_lt.mp hj), entry_of_le_row E o hv.structOK (Nat.not_lt.mp hj)]
  · rw [entryT_of_le_row E o hv.structOK (Nat.not_lt.mp hi), entry_of_le E o (Nat.not_lt.mp hi)]

/-- the matrices of the transposed blocks are the transposed matrices of the blocks -/
theorem blockMatsT_eq_transposeBlocks (E : Env) (hE : EnvAdd E) (ops : List Op)
    (hA : ∀ o ∈ ops, EnvAdjOn E o) (hv : ∀ o ∈ ops, Valid o) :
    blockMatsT E ops = transposeBlocks (blockMats E ops) := by
  simp only [blockMatsT, transposeBlocks, blockMats, List.map_map]
  apply List.map_congr_left
  intro o ho
  simp only [Function.comp, Prod.mk.injEq, true_and]
  funext i j
  exact entryT_eq_entry E hE o (hA o ho) (hv o ho) i j

/-- **block row ↦ block column of the transposes of the blocks' matrices** -/
theorem asMatrixT_blockRow_transposed (E : Env) (hE : EnvAdd E) (u : Nat) (td : TreeDef) (ops : List Op)
    (hA : ∀ o ∈ ops, EnvAdjOn E o) (hv : ∀ o ∈ ops, Valid o) (m n : Nat) (hrow : ∀ o ∈ ops, outSize o = m)
    (i : Fin n) (j : Fin m) :
    asMatrixT E hE (.cont u .blockRow td ops) m n i j =
      blockColEntry (transposeBlocks (blockMats E ops)) i j := by
  rw [asMatrixT_blockRow E hE u td ops m n hrow, blockMatsT_eq_transposeBlocks E hE ops hA hv]

/-- **block column ↦ block row of the transposes of the blocks' matrices** -/
theorem asMatrixT_blockCol_transposed (E : Env) (hE : EnvAdd E) (u : Nat) (td : TreeDef) (ops : List Op)
    (hA : ∀ o ∈ ops, EnvAdjOn E o) (hv : ∀ o ∈ ops, Valid o) (m n : Nat) (i : Fin n) (j : Fin m) :
    asMatrixT E hE (.cont u .blockCol td ops) m n i j =
      blockRowEntry (transposeBlocks (blockMats E ops)) i j := by
  rw [asMatrixT_blockCol, blockMatsT_eq_transposeBlocks E hE ops hA hv]

/-- **block diagonal ↦ block diagonal of the transposes of the blocks' matrices** -/
theorem asMatrixT_blockDiag_transposed (E : Env) (hE : EnvAdd E) (u : Nat) (td : TreeDef) (ops : List Op)
    (hA : ∀ o ∈ ops, EnvAdjOn E o) (hv : ∀ o ∈ ops, Valid o) (m n : Nat) (i : Fin n) (j : Fin m) :
    asMatrixT E hE (.cont u .blockDiag td ops) m n i j =
      blockDiagEntry (transposeBlocks (blockMats E ops)) i j := by
  rw [asMatrixT_blockDiag, blockMatsT_eq_transposeBlocks E hE ops hA hv]

/-- hence, blockwise (independently of `asMatrix_transpose`, which goes through the adjointness of the container):
**the matrix of the transpose of a block row / column / diagonal is the transpose of its matrix** -/
theorem asMatrixT_blockRow_eq_transpose (E : Env) (hE : EnvAdd E) (u : Nat) (td : TreeDef) (ops : List Op)
    (hA : ∀ o ∈ ops, EnvAdjOn E o) (hv : ∀ o ∈ ops, Valid o) (m n : Nat) (hrow : ∀ o ∈ ops, outSize o = m) :
    asMatrixT E hE (.cont u .blockRow td ops) m n = (asMatrix E hE (.cont u .blockRow td ops) n m)ᵀ := by
  ext i j
  rw [asMatrixT_blockRow_transposed E hE u td ops hA hv m n hrow, blockColEntry_transpose,
    Matrix.transpose_apply, asMatrix_blockRow]

theorem asMatrixT_blockCol_eq_transpose (E : Env) (hE : EnvAdd E) (u : Nat) (td : TreeDef) (ops : List Op)
    (hA : ∀ o ∈ ops, EnvAdjOn E o) (hv : ∀ o ∈ ops, Valid o) (m n : Nat) (hcol : ∀ o ∈ ops, inSize o = n) :
    asMatrixT E hE (.cont u .blockCol td ops) m n = (asMatrix E hE (.cont u .blockCol td ops) n m)ᵀ := by
  ext i j
  rw [asMatrixT_blockCol_transposed E hE u td ops hA hv m n, blockRowEntry_transpose,
    Matrix.transpose_apply, asMatrix_blockCol E hE u td ops n m hcol]

theorem asMatrixT_blockDiag_eq_transpose (E : Env) (hE : EnvAdd E) (u : Nat) (td : TreeDef) (ops : List Op)
    (hA : ∀ o ∈ ops, EnvAdjOn E o) (hv : ∀ o ∈ ops, Valid o) (m n : Nat) :
    asMatrixT E hE (.cont u .blockDiag td ops) m n = (asMatrix E hE (.cont u .blockDiag td ops) n m)ᵀ := by
  ext i j
  rw [asMatrixT_blockDiag_transposed E hE u td ops hA hv m n, blockDiagEntry_transpose,
    Matrix.transpose_apply, asMatrix_blockDiag]

/-! #### the FORM `op.T` that the model computes (`transposeOp`)

`transposeOp (.cont u .blockRow td ops) = .ok (.cont 0 .blockCol td ts)` with `transposeList ops = .ok ts`
(`C10.transpose_form`), and `ts[k]` denotes `denT E ops[k]` (`TRel`, established by `tAtList`). -/

/-- the matrices of the forms `ops[k].T` are the matrices of the transposes of the blocks -/
theorem blockMats_of_TRel (E : Env) (ops ts : List Op) (hrel : List.Forall₂ (TRel E) ops ts) :
    blockMats E ts = blockMatsT E ops := by
  induction hrel with
  | nil => rfl
  | @cons o t os ts' hr _ ih =>
    have hio : inSize t = outSize o := by unfold outSize inSize; rw [hr.2.1]
    have hoi : outSize t = inSize o := by unfold outSize inSize; rw [hr.2.2]
    have he : entry E t = entryT E o := by
      funext i j
      rw [entry, entryT, fEntry, fEntry, hio, hr.1 _ (unitVec_length _ _)]
    simp only [blockMats, blockMatsT, List.map_cons, hio, hoi, he] at ih ⊢
    rw [ih]

/-- **`(block row).T`, the form: a block column whose matrix is the vertical stacking of the matrices of the forms
`ops[k].T`, which are the matrices of the transposes of the blocks** -/
theorem asMatrix_transposeForm_blockRow (E : Env) (hE : EnvAdd E) (u' : Nat) (td : TreeDef) (ops ts : List Op)
    (hrel : List.Forall₂ (TRel E) ops ts) (m n : Nat) (hrow : ∀ o ∈ ops, outSize o = m)
    (i : Fin n) (j : Fin m) :
    asMatrix E hE (.cont u' .blockCol td ts) m n i j = blockColEntry (blockMats E ts) i j ∧
      blockMats E ts = blockMatsT E ops := by
  refine ⟨asMatrix_blockCol E hE u' td ts m n ?_ i j, blockMats_of_TRel E ops ts hrel⟩
  intro t ht
  obtain ⟨k, hk, rfl⟩ := List.getElem_of_mem ht
  have hl := hrel.length_eq
  have hr := (List.forall₂_iff_get.mp hrel).2 k (by omega) hk
  simp only [List.get_eq_getElem] at hr
  rw [inSize, hr.2.1]
  exact hrow _ (List.getElem_mem _)

/-- **`(block column).T`, the form: a block row** -/
theorem asMatrix_transposeForm_blockCol (E : Env) (hE : EnvAdd E) (u' : Nat) (td : TreeDef) (ops ts : List Op)
    (hrel : List.Forall₂ (TRel E) ops ts) (m n : Nat) (i : Fin n) (j : Fin m) :
    asMatrix E hE (.cont u' .blockRow td ts) m n i j = blockRowEntry (blockMats E ts) i j ∧
      blockMats E ts = blockMatsT E ops :=
  ⟨asMatrix_blockRow E hE u' td ts m n i j, blockMats_of_TRel E ops ts hrel⟩

/-- **`(block diagonal).T`, the form: a block diagonal** -/
theorem asMatrix_transposeForm_blockDiag (E : Env) (hE : EnvAdd E) (u' : Nat) (td : TreeDef) (ops ts : List Op)
    (hrel : List.Forall₂ (TRel E) ops ts) (m n : Nat) (i : Fin n) (j : Fin m) :
    asMatrix E hE (.cont u' .blockDiag td ts) m n i j = blockDiagEntry (blockMats E ts) i j ∧
      blockMats E ts = blockMatsT E ops :=
  ⟨asMatrix_blockDiag E hE u' td ts m n i j, blockMats_of_TRel E ops ts hrel⟩

/-- the hypotheses under which `transposeList` produces related forms (`tAtList`), packaged for a container -/
theorem transposeOp_block_forms (E : Env) (u : Nat) (k : ContCls) (td : TreeDef) (ops : List Op) (t : Op)
    (hS : EnvSymOn E (.cont u k td ops)) (hok : StructOK (.cont u k td ops)) (hf : TFormOK (.cont u k td ops))
    (hw : (Op.cont u k td ops).WFT) (h : transposeOp (.cont u k td ops) = .ok t) :
    ∃ ts, t = .cont 0 k.dual td ts ∧ transposeList ops = .ok ts ∧ List.Forall₂ (TRel E) ops ts := by
  obtain ⟨ts, hts, rfl⟩ := transposeOp_cont_ok h
  obtain ⟨_, hoks, _⟩ := (StructOK_cont_iff u k td ops).mp hok
  have hf' : TFormOKList ops := by simpa only [TFormOK] using hf
  have hw' : WFTList ops := by simpa only [Op.WFT] using hw
  have hS' : AllLeavesList (fun u c p => c = .toeplitz → toepK p.vals = none → LeafSymAt E u p) ops := by
    simpa only [EnvSymOn, AllLeaves] using hS
  exact ⟨ts, rfl, hts, tAtList E ops ts hS' hoks hf' hw' hts⟩

/-- **C10, transposes, closed**: for a well-formed block row `R` whose dense leaves have a shared block array, `R.T` (the form the model
computes) is a block column `.cont 0 .blockCol td ts` whose dense matrix is the vertical stacking of the matrices
of the transposes of the blocks of `R` -/
theorem asMatrix_transposeOp_blockRow (E : Env) (hE : EnvAdd E) (u : Nat) (td : TreeDef) (ops : List Op) (t : Op)
    (hS : EnvSymOn E (.cont u .blockRow td ops)) (hok : StructOK (.cont u .blockRow td ops))
    (hf : TFormOK (.cont u .blockRow td ops)) (hw : (Op.cont u .blockRow td ops).WFT)
    (h : transposeOp (.cont u .blockRow td ops) = .ok t)
    (i : Fin (inSize (.cont u .blockRow td ops))) (j : Fin (outSize (.cont u .blockRow td ops))) :
    asMatrix E hE t (outSize (.cont u .blockRow td ops)) (inSize (.cont u .blockRow td ops)) i j =
      blockColEntry (blockMatsT E ops) i j := by
  obtain ⟨ts, rfl, _, hrel⟩ := transposeOp_block_forms E u .blockRow td ops t hS hok hf hw h
  obtain ⟨h1, h2⟩ := asMatrix_transposeForm_blockRow E hE 0 td ops ts hrel _ _
    (outSize_of_mem_blockRow u td ops hok) i j
  rw [← h2]; exact h1

theorem asMatrix_transposeOp_blockCol (E : Env) (hE : EnvAdd E) (u : Nat) (td : TreeDef) (ops : List Op) (t : Op)
    (hS : EnvSymOn E (.cont u .blockCol td ops)) (hok : StructOK (.cont u .blockCol td ops))
    (hf : TFormOK (.cont u .blockCol td ops)) (hw : (Op.cont u .blockCol td ops).WFT)
    (h : transposeOp (.cont u .blockCol td ops) = .ok t)
    (i : Fin (inSize (.cont u .blockCol td ops))) (j : Fin (outSize (.cont u .blockCol td ops))) :
    asMatrix E hE t (outSize (.cont u .blockCol td ops)) (inSize (.cont u .blockCol td ops)) i j =
      blockRowEntry (blockMatsT E ops) i j := by
  obtain ⟨ts, rfl, _, hrel⟩ := transposeOp_block_forms E u .blockCol td ops t hS hok hf hw h
  obtain ⟨h1, h2⟩ := asMatrix_transposeForm_blockCol E hE 0 td ops ts hrel _ _ i j
  rw [← h2]; exact h1

theorem asMatrix_transposeOp_blockDiag (E : Env) (hE : EnvAdd E) (u : Nat) (td : TreeDef) (ops : List Op) (t : Op)
    (hS : EnvSymOn E (.cont u .blockDiag td ops)) (hok : StructOK (.cont u .blockDiag td ops))
    (hf : TFormOK (.cont u .blockDiag td ops)) (hw : (Op.cont u .blockDiag td ops).WFT)
    (h : transposeOp (.cont u .blockDiag td ops) = .ok t)
    (i : Fin (inSize (.cont u .blockDiag td ops))) (j : Fin (outSize (.cont u .blockDiag td ops))) :
    asMatrix E hE t (outSize (.cont u .blockDiag td ops)) (inSize (.cont u .blockDiag td ops)) i j =
      blockDiagEntry (blockMatsT E ops) i j := by
  obtain ⟨ts, rfl, _, hrel⟩ := transposeOp_block_forms E u .blockDiag td ops t hS hok hf hw h
  obtain ⟨h1, h2⟩ := asMatrix_transposeForm_blockDiag E hE 0 td ops ts hrel _ _ i j
  rw [← h2]; exact h1

end Matrices

/-! ### 4'. the same through Mathlib's `finSigmaFinEquiv` and `Matrix.blockDiagonal'`

The flattened index `finSigmaFinEquiv ⟨k, a⟩ : Fin (∑ k, size k)` is "position `a` of band `k`"; Mathlib's
`Matrix.blockDiagonal'` is the block-diagonal matrix indexed by such pairs. -/

section Sigma
open Matrix

theorem offset_eq_finSum (ns : List Nat) : ∀ (k : Nat) (hk : k ≤ ns.length),
    offset ns k = ∑ i : Fin k, ns[i.val]'(by omega)
  | 0, _ => by simp
  | k + 1, hk => by
    rw [Fin.sum_univ_castSucc]
    simp only [Fin.val_castSucc, Fin.val_last]
    rw [← offset_eq_finSum ns k (by omega)]
    exact List.sum_take_succ ns k (by omega)

/-- the declared size of a block container, as a sum over `Fin` -/
theorem finSum_eq_sum_map (ops : List Op) (f : Op → Nat) :
    ∑ k : Fin ops.length, f ops[k] = (ops.map f).sum := by
  have h := offset_eq_finSum (ops.map f) ops.length (by simp)
  rw [offset, List.take_of_length_le (by simp)] at h
  rw [h]
  apply Fintype.sum_equiv (finCongr (by simp))
  intro k
  simp

/-- `finSigmaFinEquiv ⟨k, a⟩` is position `a` of band `k` -/
theorem finSigma_val (ops : List Op) (f : Op → Nat) (k : Fin ops.length) (a : Fin (f ops[k])) :
    ((finSigmaFinEquiv (n := fun k : Fin ops.length => f ops[k]) ⟨k, a⟩ : Fin _) : Nat) =
      offset (ops.map f) k + a := by
  rw [finSigmaFinEquiv_apply, offset_eq_finSum (ops.map f) k (by simp)]
  congr 1
  apply Finset.sum_congr rfl
  intro i _
  simp

theorem finSigma_inBand (ops : List Op) (f : Op → Nat) (k : Fin ops.length) (a : Fin (f ops[k])) :
    InBand (ops.map f) k (finSigmaFinEquiv (n := fun k : Fin ops.length => f ops[k]) ⟨k, a⟩ : Fin _) := by
  have : (ops.map f).getD k 0 = f ops[k] := by
    rw [List.getD_eq_getElem _ _ (by simp), List.getElem_map]; rfl
  rw [InBand, finSigma_val, this]
  omega

/-- **block diagonal = Mathlib's `Matrix.blockDiagonal'`**, entrywise on pairs (band, position) -/
theorem asMatrix_blockDiag_sigma (E : Env) (hE : EnvAdd E) (u : Nat) (td : TreeDef) (ops : List Op)
    (p : (k : Fin ops.length) × Fin (outSize ops[k])) (q : (k : Fin ops.length) × Fin (inSize ops[k])) :
    asMatrix E hE (.cont u .blockDiag td ops) (∑ k : Fin ops.length, inSize ops[k])
        (∑ k : Fin ops.length, outSize ops[k]) (finSigmaFinEquiv p) (finSigmaFinEquiv q) =
      Matrix.blockDiagonal' (fun k : Fin ops.length => asMatrix E hE ops[k] (inSize ops[k]) (outSize ops[k])) p q := by
  obtain ⟨k, a⟩ := p
  obtain ⟨k', b⟩ := q
  rw [Matrix.blockDiagonal'_apply]
  by_cases h : k = k'
  · subst h
    rw [dif_pos rfl, asMatrix_blockDiag_band E hE u td ops _ _ _ _ k k.2 (finSigma_inBand ops outSize k a)
      (finSigma_inBand ops inSize k b)]
    congr 1
    · apply Fin.ext
      show _ - _ = _
      rw [finSigma_val ops outSize k a]; simp
    · apply Fin.ext
      show _ - _ = _
      rw [finSigma_val ops inSize k b]; simp
  · rw [dif_neg h]
    exact asMatrix_blockDiag_off E hE u td ops _ _ _ _ k k' (fun e => h (Fin.ext e))
      (finSigma_inBand ops outSize k a) (finSigma_inBand ops inSize k' b)

/-- **`as_matrix()` of a block diagonal is `Matrix.blockDiagonal'` of the `as_matrix()` of the blocks**, the pairs
(band, position) being flattened by `finSigmaFinEquiv` (the sizes `∑ k, inSize ops[k]`, `∑ k, outSize ops[k]` are
the declared ones: `finSum_eq_sum_map`, `inSize_blockDiag`, `outSize_blockDiag`) -/
theorem asMatrix_blockDiag_eq_blockDiagonal' (E : Env) (hE : EnvAdd E) (u : Nat) (td : TreeDef) (ops : List Op) :
    asMatrix E hE (.cont u .blockDiag td ops) (∑ k : Fin ops.length, inSize ops[k])
        (∑ k : Fin ops.length, outSize ops[k]) =
      Matrix.reindex finSigmaFinEquiv finSigmaFinEquiv
        (Matrix.blockDiagonal' fun k : Fin ops.length => asMatrix E hE ops[k] (inSize ops[k]) (outSize ops[k])) := by
  ext i j
  obtain ⟨p, rfl⟩ := finSigmaFinEquiv.surjective i
  obtain ⟨q, rfl⟩ := finSigmaFinEquiv.surjective j
  rw [asMatrix_blockDiag_sigma, Matrix.reindex_apply, Matrix.submatrix_apply, Equiv.symm_apply_apply,
    Equiv.symm_apply_apply]

/-- **block row**: column `(k, b)` is column `b` of block `k` -/
theorem asMatrix_blockRow_sigma (E : Env) (hE : EnvAdd E) (u : Nat) (td : TreeDef) (ops : List Op) (m : Nat)
    (i : Fin m) (q : (k : Fin ops.length) × Fin (inSize ops[k])) :
    asMatrix E hE (.cont u .blockRow td ops) (∑ k : Fin ops.length, inSize ops[k]) m i (finSigmaFinEquiv q) =
      asMatrix E hE ops[q.1] (inSize ops[q.1]) m i q.2 := by
  obtain ⟨k, b⟩ := q
  rw [asMatrix_blockRow_band E hE u td ops _ m i _ k k.2 (finSigma_inBand ops inSize k b)]
  congr 1; apply Fin.ext
  show _ - _ = _
  rw [finSigma_val ops inSize k b]; simp

/-- **block column**: row `(k, a)` is row `a` of block `k` -/
theorem asMatrix_blockCol_sigma (E : Env) (hE : EnvAdd E) (u : Nat) (td : TreeDef) (ops : List Op) (n : Nat)
    (hcol : ∀ o ∈ ops, inSize o = n) (p : (k : Fin ops.length) × Fin (outSize ops[k])) (j : Fin n) :
    asMatrix E hE (.cont u .blockCol td ops) n (∑ k : Fin ops.length, outSize ops[k]) (finSigmaFinEquiv p) j =
      asMatrix E hE ops[p.1] n (outSize ops[p.1]) p.2 j := by
  obtain ⟨k, a⟩ := p
  rw [asMatrix_blockCol_band E hE u td ops n _ hcol _ j k k.2 (finSigma_inBand ops outSize k a)]
  congr 1; apply Fin.ext
  show _ - _ = _
  rw [finSigma_val ops outSize k a]; simp

end Sigma

/-! ### 5. a concrete example: two blocks of different sizes in a `dict` container

`A = IndexOperator([1, 1])` (a `2 × 3` matrix) and `D = DiagonalOperator([2, 3, 5])` (`3 × 3`), in the container
`{'a': ·, 'b': ·}`. -/

namespace BlockExamples
open Examples LinExamples Matrix

/-- the treedef of `{'a': *, 'b': *}` -/
def tdD : TreeDef := [.node "dict:a,b" 2, .leaf, .leaf]

def opA : Op := .leaf 4 .index idxP
def opD : Op := .leaf 5 .diagonal diagQ

/-- `BlockDiagonalOperator({'a': A, 'b': D})`: `ℝ⁶ → ℝ⁵` -/
def exDiag : Op := .cont 6 .blockDiag tdD [opA, opD]

/-- `BlockColumnOperator({'a': A, 'b': D})`: `ℝ³ → ℝ⁵` -/
def exCol : Op := .cont 7 .blockCol tdD [opA, opD]

theorem sizes : inSize opA = 3 ∧ outSize opA = 2 ∧ inSize opD = 3 ∧ outSize opD = 3 := by decide

theorem exDiag_sizes : inSize exDiag = 6 ∧ outSize exDiag = 5 := by decide

theorem exCol_sizes : inSize exCol = 3 ∧ outSize exCol = 5 := by decide

theorem exCol_ok : StructOK exCol := by
  simp only [exCol, StructOK, WTExpr, WTList, ContOK]
  refine ⟨by simp, ⟨trivial, trivial, trivial⟩, rfl, ?_⟩
  intro o ho
  simp only [List.mem_cons, List.not_mem_nil, or_false] at ho
  rcases ho with rfl | rfl <;> rfl

/-- the matrix of `A` -/
theorem asMatrix_opA (E : Env) (hE : EnvAdd E) : asMatrix E hE opA 3 2 = !![0, 1, 0; 0, 1, 0] := by
  ext i j
  rw [asMatrix_apply]
  fin_cases i <;> fin_cases j <;> simp [unitVec, List.range_succ, opA, den_idx]

/-- the matrix of `D` -/
theorem asMatrix_opD (E : Env) (hE : EnvAdd E) : asMatrix E hE opD 3 3 = !![2, 0, 0; 0, 3, 0; 0, 0, 5] := by
  ext i j
  rw [asMatrix_apply]
  fin_cases i <;> fin_cases j <;> simp [unitVec, List.range_succ, opD, den_diagQ]

theorem entry_opA (E : Env) (i j : Nat) : entry E opA i j = (den E opA (unitVec 3 j)).getD i 0 := rfl

theorem entry_opD (E : Env) (i j : Nat) : entry E opD i j = (den E opD (unitVec 3 j)).getD i 0 := rfl

/-- **the dense matrix of the block diagonal, computed by the general theorem**:
```
  0 1 0 | 0 0 0
  0 1 0 | 0 0 0
  ------+------
  0 0 0 | 2 0 0
  0 0 0 | 0 3 0
  0 0 0 | 0 0 5
``` -/
theorem asMatrix_exDiag (E : Env) (hE : EnvAdd E) :
    asMatrix E hE exDiag 6 5 =
      !![0, 1, 0, 0, 0, 0;
         0, 1, 0, 0, 0, 0;
         0, 0, 0, 2, 0, 0;
         0, 0, 0, 0, 3, 0;
         0, 0, 0, 0, 0, 5] := by
  ext i j
  rw [exDiag, asMatrix_blockDiag]
  obtain ⟨h1, h2, h3, h4⟩ := sizes
  simp only [blockMats, List.map_cons, List.map_nil, blockDiagEntry, h1, h2, h3, h4, entry_opA, entry_opD]
  fin_cases i <;> fin_cases j <;> simp [unitVec, List.range_succ, opA, opD, den_idx, den_diagQ]

/-- **the dense matrix of the block column**: `A` stacked over `D` -/
theorem asMatrix_exCol (E : Env) (hE : EnvAdd E) :
    asMatrix E hE exCol 3 5 =
      !![0, 1, 0;
         0, 1, 0;
         2, 0, 0;
         0, 3, 0;
         0, 0, 5] := by
  ext i j
  rw [exCol, asMatrix_blockCol E hE 7 tdD [opA, opD] 3 5 (by
    intro o ho
    simp only [List.mem_cons, List.not_mem_nil, or_false] at ho
    rcases ho with rfl | rfl <;> rfl)]
  obtain ⟨h1, h2, h3, h4⟩ := sizes
  simp only [blockMats, List.map_cons, List.map_nil, blockColEntry, h1, h2, h3, h4, entry_opA, entry_opD]
  fin_cases i <;> fin_cases j <;> simp [unitVec, List.range_succ, opA, opD, den_idx, den_diagQ]

/-- by bands: entry `(3, 4)` of the block diagonal is entry `(1, 1)` of `D` (row band 1 starts at 2, column band 1
at 3) -/
example (E : Env) (hE : EnvAdd E) :
    asMatrix E hE exDiag 6 5 3 4 = asMatrix E hE opD 3 3 1 1 := by
  have hi : InBand ([opA, opD].map outSize) 1 ((3 : Fin 5) : Nat) := by
    obtain ⟨h1, h2, h3, h4⟩ := sizes
    simp [InBand, offset, h2, h4]
  have hj : InBand ([opA, opD].map inSize) 1 ((4 : Fin 6) : Nat) := by
    obtain ⟨h1, h2, h3, h4⟩ := sizes
    simp [InBand, offset, h1, h3]
  exact asMatrix_blockDiag_band E hE 6 tdD [opA, opD] 6 5 3 4 1 (by simp) hi hj

end BlockExamples

end ListSem
end Furax

