/-
Container laws of the list denotation (FuraxProofs/Sem/ListSem.lean), for every environment `E` whose operators
return vectors of their declared size (`LenLaw E`):

* `block_law_list`          — the four block products (row·diag→row, diag·col→col, diag·diag→diag, row·col→add):
                               the container of the slot-wise products denotes the product of the containers;
* `cont_congr_list`         — congruence of block row / diagonal / column (the uid is irrelevant);
* `add_congr_list`          — the same for sums;
* `blockdiag_identities_list` — a block diagonal of identity leaves is the identity.

`ProdRelL E` / `CongRelL E` are `ProdRel A` / `CongRel A` (FuraxProofs/Lemmas/RuleSound.lean, ReduceSound.lean)
with `A.den := den E` and `A.mem s x := x.length = s.size` (`ListSem.mem`).
-/
import FuraxProofs.Sem.ListSemLaws
import FuraxProofs.Lemmas.ReduceSound
namespace Furax
namespace ListSem
open Op

/-! ### vectors -/

private theorem fit_length (n : Nat) (x : V) : (fit n x).length = n := List.takeD_length n x 0

private theorem fit_of_length {n : Nat} {x : V} (h : x.length = n) : fit n x = x := by
  unfold fit
  rw [List.takeD_eq_take 0 (by omega), List.take_of_length_le (by omega)]

private theorem headChunk_length (n : Nat) (x : V) : (headChunk n x).length = n := fit_length n _

theorem headChunk_of_le {n : Nat} {x : V} (h : n ≤ x.length) : headChunk n x = x.take n := by
  unfold headChunk
  exact fit_of_length (by rw [List.length_take]; omega)

private theorem headChunk_append {n : Nat} (a b : V) (h : a.length = n) : headChunk n (a ++ b) = a := by
  subst h
  rw [headChunk_of_le (by simp), List.take_left]

theorem drop_append_of_length {n : Nat} (a b : V) (h : a.length = n) : (a ++ b).drop n = b := by
  subst h; exact List.drop_left

/-! ### sizes -/

/-- the number of elements of a block structure is the sum over the blocks (`nest_size`, Props/C05) -/
theorem nest_size' (td : TreeDef) (ss : List Struct) :
    (Struct.nest td ss).size = (ss.map Struct.size).sum := by
  simp only [Struct.nest, Struct.size]
  induction ss with
  | nil => rfl
  | cons s rest ih =>
    simp only [List.map_cons, List.flatten_cons, List.map_append, List.sum_append, List.sum_cons, ih]
    rfl

private theorem inSList_sizes (ops : List Op) : (inSList ops).map Struct.size = ops.map inSize := by
  induction ops with
  | nil => rfl
  | cons o os ih => simp only [inSList, List.map_cons, ih]; rfl

/-- input size of a block row / block diagonal: the sum of the operands' input sizes -/
theorem nest_inSList_size (td : TreeDef) (ops : List Op) :
    (Struct.nest td (inSList ops)).size = (ops.map inSize).sum := by
  rw [nest_size', inSList_sizes]

/-! ### the slot-wise relations, for `den E` -/

/-- `ProdRel A` (FuraxProofs/Lemmas/RuleSound.lean) with `A.den := den E`, `A.mem := ListSem.mem`:
slot-wise, `ps[i]` has the structures and the denotation of `ls[i] ∘ rs[i]` -/
def ProdRelL (E : Env) : List Op → List Op → List Op → Prop
  | [], [], [] => True
  | l :: ls, r :: rs, p :: ps =>
    (Op.inS l = Op.outS r ∧ Op.inS p = Op.inS r ∧ Op.outS p = Op.outS l ∧
      ∀ x, mem (Op.inS r) x → den E p x = den E l (den E r x)) ∧ ProdRelL E ls rs ps
  | _, _, _ => False

/-- `CongRel A` (FuraxProofs/Lemmas/ReduceSound.lean) with `A.den := den E`, `A.mem := ListSem.mem` -/
def CongRelL (E : Env) : List Op → List Op → Prop
  | [], [] => True
  | o :: os, o' :: os' =>
    (Op.inS o' = Op.inS o ∧ Op.outS o' = Op.outS o ∧ ∀ x, mem (Op.inS o) x → den E o' x = den E o x) ∧
      CongRelL E os os'
  | _, _ => False

/-- `ProdRelL` is literally `ProdRel` of any arithmetic semantics whose `den`/`mem` are those of the lists -/
theorem ProdRelL_iff (E : Env) (A : ArithSem V) (hden : A.den = den E) (hmem : ∀ s x, A.mem s x ↔ mem s x)
    (ls rs ps : List Op) : ProdRel A ls rs ps ↔ ProdRelL E ls rs ps := by
  induction ls generalizing rs ps with
  | nil => cases rs <;> cases ps <;> simp [ProdRel, ProdRelL]
  | cons l ls ih =>
    cases rs with
    | nil => simp [ProdRel, ProdRelL]
    | cons r rs =>
      cases ps with
      | nil => simp [ProdRel, ProdRelL]
      | cons p ps => simp only [ProdRel, ProdRelL, ih, hden, hmem]

theorem CongRelL_iff (E : Env) (A : ArithSem V) (hden : A.den = den E) (hmem : ∀ s x, A.mem s x ↔ mem s x)
    (os os' : List Op) : CongRel A os os' ↔ CongRelL E os os' := by
  induction os generalizing os' with
  | nil => cases os' <;> simp [CongRel, CongRelL]
  | cons o os ih =>
    cases os' with
    | nil => simp [CongRel, CongRelL]
    | cons o' os' => simp only [CongRel, CongRelL, ih, hden, hmem]

/-! ### block products, on lists of operands -/

section
variable (E : Env)

/-- row · diag → row -/
theorem row_diag_list (hlen : LenLaw E) (ls rs ps : List Op) (h : ProdRelL E ls rs ps)
    (hr : ∀ o ∈ rs, StructOK o) (x : V) :
    rowApp E ps x = rowApp E ls (diagApp E rs x) := by
  induction ls generalizing rs ps x with
  | nil => cases rs <;> cases ps <;> simp_all [ProdRelL, rowApp]
  | cons l ls ih =>
    cases rs with
    | nil => simp [ProdRelL] at h
    | cons r rs =>
      cases ps with
      | nil => simp [ProdRelL] at h
      | cons p ps =>
        simp only [ProdRelL] at h
        obtain ⟨⟨hlr, hpr, _, hd⟩, hrest⟩ := h
        have hrl : (den E r (headChunk (inSize r) x)).length = outSize r :=
          hlen.1 r (hr r List.mem_cons_self) _
        have hpi : inSize p = inSize r := by simp only [inSize, hpr]
        have hli : inSize l = outSize r := by simp only [inSize, outSize, hlr]
        simp only [rowApp, diagApp]
        rw [fit_of_length hrl, hpi, hli, headChunk_append _ _ hrl, drop_append_of_length _ _ hrl,
          hd (headChunk (inSize r) x) (headChunk_length _ _),
          ih rs ps hrest (fun o ho => hr o (List.mem_cons_of_mem _ ho))]

/-- diag · diag → diag -/
theorem diag_diag_list (hlen : LenLaw E) (ls rs ps : List Op) (h : ProdRelL E ls rs ps)
    (hr : ∀ o ∈ rs, StructOK o) (x : V) :
    diagApp E ps x = diagApp E ls (diagApp E rs x) := by
  induction ls generalizing rs ps x with
  | nil => cases rs <;> cases ps <;> simp_all [ProdRelL, diagApp]
  | cons l ls ih =>
    cases rs with
    | nil => simp [ProdRelL] at h
    | cons r rs =>
      cases ps with
      | nil => simp [ProdRelL] at h
      | cons p ps =>
        simp only [ProdRelL] at h
        obtain ⟨⟨hlr, hpr, hpl, hd⟩, hrest⟩ := h
        have hrl : (den E r (headChunk (inSize r) x)).length = outSize r :=
          hlen.1 r (hr r List.mem_cons_self) _
        have hpi : inSize p = inSize r := by simp only [inSize, hpr]
        have hpo : outSize p = outSize l := by simp only [outSize, hpl]
        have hli : inSize l = outSize r := by simp only [inSize, outSize, hlr]
        simp only [diagApp]
        rw [fit_of_length hrl, hpi, hpo, hli, headChunk_append _ _ hrl, drop_append_of_length _ _ hrl,
          hd (headChunk (inSize r) x) (headChunk_length _ _),
          ih rs ps hrest (fun o ho => hr o (List.mem_cons_of_mem _ ho))]

/-- diag · col → col; every operand of the column takes the whole input -/
theorem diag_col_list (hlen : LenLaw E) (ls rs ps : List Op) (h : ProdRelL E ls rs ps)
    (hr : ∀ o ∈ rs, StructOK o) (x : V) (hx : ∀ o ∈ rs, x.length = inSize o) :
    colApp E ps x = diagApp E ls (colApp E rs x) := by
  induction ls generalizing rs ps with
  | nil => cases rs <;> cases ps <;> simp_all [ProdRelL, colApp, diagApp]
  | cons l ls ih =>
    cases rs with
    | nil => simp [ProdRelL] at h
    | cons r rs =>
      cases ps with
      | nil => simp [ProdRelL] at h
      | cons p ps =>
        simp only [ProdRelL] at h
        obtain ⟨⟨hlr, _, hpl, hd⟩, hrest⟩ := h
        have hrl : (den E r x).length = outSize r := hlen.1 r (hr r List.mem_cons_self) _
        have hpo : outSize p = outSize l := by simp only [outSize, hpl]
        have hli : inSize l = outSize r := by simp only [inSize, outSize, hlr]
        simp only [colApp, diagApp]
        rw [fit_of_length hrl, hpo, hli, headChunk_append _ _ hrl, drop_append_of_length _ _ hrl,
          hd x (hx r List.mem_cons_self), ih rs ps hrest (fun o ho => hr o (List.mem_cons_of_mem _ ho))
            (fun o ho => hx o (List.mem_cons_of_mem _ ho))]

/-- row · col → add -/
theorem row_col_list (hlen : LenLaw E) (ls rs ps : List Op) (h : ProdRelL E ls rs ps)
    (hr : ∀ o ∈ rs, StructOK o) (x : V) (hx : ∀ o ∈ rs, x.length = inSize o) :
    sumApp E ps x = rowApp E ls (colApp E rs x) := by
  induction ls generalizing rs ps with
  | nil => cases rs <;> cases ps <;> simp_all [ProdRelL, rowApp, sumApp]
  | cons l ls ih =>
    cases rs with
    | nil => simp [ProdRelL] at h
    | cons r rs =>
      cases ps with
      | nil => simp [ProdRelL] at h
      | cons p ps =>
        simp only [ProdRelL] at h
        obtain ⟨⟨hlr, _, _, hd⟩, hrest⟩ := h
        have hrl : (den E r x).length = outSize r := hlen.1 r (hr r List.mem_cons_self) _
        have hli : inSize l = outSize r := by simp only [inSize, outSize, hlr]
        simp only [colApp, rowApp, sumApp]
        rw [fit_of_length hrl, hli, headChunk_append _ _ hrl, drop_append_of_length _ _ hrl,
          hd x (hx r List.mem_cons_self), ih rs ps hrest (fun o ho => hr o (List.mem_cons_of_mem _ ho))
            (fun o ho => hx o (List.mem_cons_of_mem _ ho))]

/-- the operands of a well-formed block column (or sum) all take vectors of the container's input size -/
theorem col_input_sizes (ops : List Op) (h : ∀ o ∈ ops, Op.inS o = inSHead ops) (x : V)
    (hx : x.length = (inSHead ops).size) : ∀ o ∈ ops, x.length = inSize o := by
  intro o ho
  rw [hx, inSize, h o ho]

/-- **The four block rules** (`RuleLaws.block_law` for the list denotation): the container of the slot-wise
products denotes the product of the containers.  Only the right operands need to be structurally well formed
(their results must have the declared length for the left container to split them correctly). -/
theorem block_law_list (hlen : LenLaw E) (lk rk res : ContCls) (ht : BlockTriple lk rk res)
    (ul ur u : Nat) (td : TreeDef) (lops rops prods : List Op)
    (_hlok : ContOK lk td lops) (hrok : ContOK rk td rops) (_hne : lops ≠ [])
    (hrel : ProdRelL E lops rops prods)
    (hrw : ∀ o ∈ rops, StructOK o)
    (_hlr : Op.inS (.cont ul lk td lops) = Op.outS (.cont ur rk td rops))
    (x : V) (hx : mem (Op.inS (.cont ur rk td rops)) x) :
    den E (.cont u res td prods) x = den E (.cont ul lk td lops) (den E (.cont ur rk td rops) x) := by
  rcases ht with ⟨rfl, rfl, rfl⟩ | ⟨rfl, rfl, rfl⟩ | ⟨rfl, rfl, rfl⟩ | ⟨rfl, rfl, rfl⟩
  · simp only [den]; exact row_diag_list E hlen lops rops prods hrel hrw x
  · simp only [den]
    exact diag_col_list E hlen lops rops prods hrel hrw x (col_input_sizes rops hrok.2 x hx)
  · simp only [den]; exact diag_diag_list E hlen lops rops prods hrel hrw x
  · simp only [den]
    exact row_col_list E hlen lops rops prods hrel hrw x (col_input_sizes rops hrok.2 x hx)

/-! ### congruence -/

theorem rowApp_congr (os os' : List Op) (h : CongRelL E os os') (x : V) :
    rowApp E os' x = rowApp E os x := by
  induction os generalizing os' x with
  | nil => cases os' <;> simp_all [CongRelL]
  | cons o os ih =>
    cases os' with
    | nil => simp [CongRelL] at h
    | cons o' os' =>
      simp only [CongRelL] at h
      obtain ⟨⟨hi, _, hd⟩, hrest⟩ := h
      have hii : inSize o' = inSize o := by simp only [inSize, hi]
      simp only [rowApp]
      rw [hii, hd (headChunk (inSize o) x) (headChunk_length _ _), ih os' hrest]

theorem diagApp_congr (os os' : List Op) (h : CongRelL E os os') (x : V) :
    diagApp E os' x = diagApp E os x := by
  induction os generalizing os' x with
  | nil => cases os' <;> simp_all [CongRelL]
  | cons o os ih =>
    cases os' with
    | nil => simp [CongRelL] at h
    | cons o' os' =>
      simp only [CongRelL] at h
      obtain ⟨⟨hi, ho, hd⟩, hrest⟩ := h
      have hii : inSize o' = inSize o := by simp only [inSize, hi]
      have hoo : outSize o' = outSize o := by simp only [outSize, ho]
      simp only [diagApp]
      rw [hii, hoo, hd (headChunk (inSize o) x) (headChunk_length _ _), ih os' hrest]

theorem colApp_congr (os os' : List Op) (h : CongRelL E os os') (x : V)
    (hx : ∀ o ∈ os, x.length = inSize o) : colApp E os' x = colApp E os x := by
  induction os generalizing os' with
  | nil => cases os' <;> simp_all [CongRelL]
  | cons o os ih =>
    cases os' with
    | nil => simp [CongRelL] at h
    | cons o' os' =>
      simp only [CongRelL] at h
      obtain ⟨⟨_, ho, hd⟩, hrest⟩ := h
      have hoo : outSize o' = outSize o := by simp only [outSize, ho]
      simp only [colApp]
      rw [hoo, hd x (hx o List.mem_cons_self), ih os' hrest (fun o ho => hx o (List.mem_cons_of_mem _ ho))]

theorem sumApp_congr (os os' : List Op) (h : CongRelL E os os') (x : V)
    (hx : ∀ o ∈ os, x.length = inSize o) : sumApp E os' x = sumApp E os x := by
  induction os generalizing os' with
  | nil => cases os' <;> simp_all [CongRelL]
  | cons o os ih =>
    cases os' with
    | nil => simp [CongRelL] at h
    | cons o' os' =>
      simp only [CongRelL] at h
      obtain ⟨⟨_, _, hd⟩, hrest⟩ := h
      simp only [sumApp]
      rw [hd x (hx o List.mem_cons_self), ih os' hrest (fun o ho => hx o (List.mem_cons_of_mem _ ho))]

/-- **Congruence of the block operators** (`ContainerLaws.cont_congr` for the list denotation): replacing every
block by one with the same structures and the same denotation on its input space does not change the
denotation, nor does the Python identity of the object.  Neither `LenLaw` nor the well-formedness of the operands
is needed. -/
theorem cont_congr_list (u u' : Nat) (k : ContCls) (td : TreeDef) (ops ops' : List Op) (hk : k ≠ .add)
    (_hne : ops ≠ []) (hok : ContOK k td ops) (hrel : CongRelL E ops ops')
    (x : V) (hx : mem (Op.inS (.cont u k td ops)) x) :
    den E (.cont u' k td ops') x = den E (.cont u k td ops) x := by
  cases k with
  | add => exact absurd rfl hk
  | blockRow => simp only [den]; exact rowApp_congr E ops ops' hrel x
  | blockDiag => simp only [den]; exact diagApp_congr E ops ops' hrel x
  | blockCol =>
    simp only [den]
    exact colApp_congr E ops ops' hrel x (col_input_sizes ops hok.2 x hx)

/-- the same for sums (the framework derives it from `ArithSem.add_law`) -/
theorem add_congr_list (u u' : Nat) (td : TreeDef) (ops ops' : List Op)
    (hok : ContOK .add td ops) (hrel : CongRelL E ops ops')
    (x : V) (hx : mem (Op.inS (.cont u .add td ops)) x) :
    den E (.cont u' .add td ops') x = den E (.cont u .add td ops) x := by
  simp only [den]
  exact sumApp_congr E ops ops' hrel x (col_input_sizes ops (fun o ho => (hok.2 o ho).1) x hx)

/-! ### block diagonal of identities -/

theorem den_identity (u : Nat) (p : Params) (x : V) (hx : x.length = p.inS.size) :
    den E (.leaf u .identity p) x = x := by
  simp only [den, leafDen, squareLeaf, if_true]
  rw [fit_of_length hx, fit_of_length hx]

theorem diagApp_identities (ops : List Op) (hid : ∀ o ∈ ops, o.isIdentity = true) (x : V)
    (hx : x.length = (ops.map inSize).sum) : diagApp E ops x = x := by
  induction ops generalizing x with
  | nil =>
    simp only [List.map_nil, List.sum_nil, List.length_eq_zero_iff] at hx
    simp [diagApp, hx]
  | cons o os ih =>
    have ho := hid o List.mem_cons_self
    cases o with
    | leaf uo c p =>
      have hc : c = .identity := by
        cases c <;> first | rfl | exact absurd ho (by simp [Op.isIdentity, Op.isLeafCls])
      subst hc
      simp only [List.map_cons, List.sum_cons] at hx
      have hin : inSize (.leaf uo .identity p) = p.inS.size := rfl
      have hout : outSize (.leaf uo .identity p) = p.inS.size := rfl
      rw [hin] at hx
      have hle : p.inS.size ≤ x.length := by omega
      simp only [diagApp]
      rw [hin, hout, den_identity E uo p _ (headChunk_length _ _), fit_of_length (headChunk_length _ _),
        headChunk_of_le hle, ih (fun o ho => hid o (List.mem_cons_of_mem _ ho)) _
          (by rw [List.length_drop]; omega), List.take_append_drop]
    | wrap _ _ _ => simp [Op.isIdentity, Op.isLeafCls] at ho
    | comp _ _ => simp [Op.isIdentity, Op.isLeafCls] at ho
    | cont _ _ _ _ => simp [Op.isIdentity, Op.isLeafCls] at ho

/-- **`BlockDiagonalOperator.reduce`** (`ContainerLaws.blockdiag_identities` for the list denotation): a block
diagonal of identity leaves is the identity on vectors of the input size. -/
theorem blockdiag_identities_list (u : Nat) (td : TreeDef) (ops : List Op) (_hne : ops ≠ [])
    (_htd : td.numLeaves = ops.length) (hid : ∀ o ∈ ops, o.isIdentity = true)
    (x : V) (hx : mem (Struct.nest td (inSList ops)) x) :
    den E (.cont u .blockDiag td ops) x = x := by
  simp only [den]
  exact diagApp_identities E ops hid x (by rw [← nest_inSList_size td ops]; exact hx)

end

end ListSem
end Furax
